import ParolModel.Model.KSetsProto
/-! Line-protocol handlers for C05: the faithful models of `decidable`, `calculate_k`,
`calculate_k_tuples`, `explain_conflicts` (tie D) and the oracles that judge the implementation's
replies by strong-LL(k) evaluated on the verified reference sets. -/
namespace ParolModel.KS

def showDecRes : DecRes → String
  | .ok k => s!"ok {k}"
  | .errMaxK => "err-maxk"
  | .errNotPart => "err-notpart"
  | .fuel => "fuel-exhausted"

def showKeyedSets (m : List (Nat × TSet)) : String :=
  joinOrDash (m.map fun (i, s) => s!"{i}={showSet s}")

/-- sort by production index (`BTreeMap` order) -/
def insertKeyed (x : Nat × TSet) : List (Nat × TSet) → List (Nat × TSet)
  | [] => [x]
  | y :: ys => if x.1 < y.1 then x :: y :: ys else y :: insertKeyed x ys

def sortKeyed (m : List (Nat × TSet)) : List (Nat × TSet) := m.foldr insertKeyed []

def parseKeyedSets (s : String) : Option (List (Nat × TSet)) := parseEnv s

def parsePairs (s : String) : Option (List (Nat × Nat)) :=
  if s == "-" then some [] else
  (s.splitOn ",").mapM fun item =>
    match item.splitOn "-" with
    | [a, b] => do some ((← a.toNat?), (← b.toNat?))
    | _ => none

/-- all i < j pairs of the list, in the order the harness prints them -/
def orderedPairs (sets : List (Nat × TSet)) : List ((Nat × TSet) × (Nat × TSet)) :=
  sets.flatMap fun a => (sets.filter fun b => a.1 < b.1).map fun b => (a, b)

def showVerdicts (sets : List (Nat × TSet)) : String :=
  let l := (orderedPairs sets).map fun (a, b) =>
    s!"{a.1}-{b.1}:{if disjointSets a.2 b.2 then 1 else 0}"
  if l.isEmpty then "-" else ",".intercalate l

/-- the spec verdict for every non-terminal, in alphabetical order; the first failure decides -/
def ktuplesSpec (G : Grammar) (fuel maxK : Nat) : List Nat → Option (Except DecRes (List (Nat × Nat)))
  | [] => some (.ok [])
  | A :: rest =>
    match decidableSpec G fuel A maxK with
    | .fuel => none
    | .ok k => (ktuplesSpec G fuel maxK rest).map fun r => r.map fun l => (A, k) :: l
    | e => some (.error e)

def laSetsSpec (G : Grammar) (fuel : Nat) (A k : Nat) : Option (List (Nat × TSet)) :=
  (firstK_lfp G k fuel).bind fun fe =>
    (followK_lfp G k fuel).map fun fo => laSetsRef G k (envGet fe) (envGet fo) A

def sameKeyed (X Y : List (Nat × TSet)) : Bool :=
  X.map (·.1) == Y.map (·.1) && listSame (X.map (·.2)) (Y.map (·.2))

def ktuplesExpected (G : Grammar) (fuel : Nat) : List (Nat × Nat) → Option (List (Nat × TSet))
  | [] => some []
  | (A, k) :: rest =>
    (laSetsSpec G fuel A k).bind fun s => (ktuplesExpected G fuel rest).map fun l => s ++ l

def calcKSpec (G : Grammar) (fuel maxK : Nat) : List Nat → Option Nat
  | [] => some 0
  | A :: rest =>
    match decidableSpec G fuel A maxK with
    | .fuel => none
    | .ok k => (calcKSpec G fuel maxK rest).map fun m => max m k
    | _ => (calcKSpec G fuel maxK rest).map fun m => max m maxK

end ParolModel.KS

namespace ParolModel
open KS

-- @handler c05-decidable handleC05Decidable
/-- `c05-decidable <start> <prods> <nt> <maxk>` → `ok <k>` | `err-maxk` | `err-notpart` -/
def handleC05Decidable : List String → Option String
  | [st, ps, nt, maxk] => do
    let G ← parseGrammar st ps
    let nt ← nt.toNat?
    let maxk ← maxk.toNat?
    if G.prods.isEmpty || maxk > 10 then none else
    some (showDecRes (decidableM G driverFuel nt maxk))
  | _ => none

-- @handler c05-calck handleC05CalcK
def handleC05CalcK : List String → Option String
  | [st, ps, maxk] => do
    let G ← parseGrammar st ps
    let maxk ← maxk.toNat?
    if G.prods.isEmpty || maxk > 10 then none else
    match calculateK G driverFuel maxk with
    | some k => some s!"ok {k}"
    | none => some "fuel-exhausted"
  | _ => none

-- @handler c05-ktuples handleC05KTuples
def handleC05KTuples : List String → Option String
  | [st, ps, maxk] => do
    let G ← parseGrammar st ps
    let maxk ← maxk.toNat?
    if G.prods.isEmpty || maxk > 10 then none else
    match calculateKTuples G driverFuel maxk with
    | .ok m => some ("ok " ++ showKeyedSets (sortKeyed m))
    | .err _ e => some (showDecRes e)
  | _ => none

-- @handler c05-dfas handleC05Dfas
/-- `calculate_lookahead_dfas`: Ok/Err as `calculate_k_tuples` (automaton construction itself is C07) -/
def handleC05Dfas : List String → Option String
  | [st, ps, maxk] => do
    let G ← parseGrammar st ps
    let maxk ← maxk.toNat?
    if G.prods.isEmpty || maxk > 10 then none else
    match calculateKTuples G driverFuel maxk with
    | .ok _ => some "ok"
    | .err _ e => some (showDecRes e)
  | _ => none

-- @handler c05-explain handleC05Explain
def handleC05Explain : List String → Option String
  | [st, ps, nt, k] => do
    let G ← parseGrammar st ps
    let nt ← nt.toNat?
    let k ← k.toNat?
    if G.prods.isEmpty || k > 10 then none else
    match prodIdxs G nt with
    | [] => some "err-notpart"
    | _ =>
      match explainConflicts G driverFuel nt k with
      | some l => some ("ok " ++ (if l.isEmpty then "-" else ",".intercalate (l.map fun (i, j) => s!"{i}-{j}")))
      | none => some "fuel-exhausted"
  | _ => none

-- @handler c05-lasets handleC05LaSets
def handleC05LaSets : List String → Option String
  | [st, ps, nt, k] => do
    let G ← parseGrammar st ps
    let nt ← nt.toNat?
    let k ← k.toNat?
    if G.prods.isEmpty || k > 10 || !(ntsOf G).contains nt then none else
    match laSets G driverFuel nt k with
    | some sets => some s!"ok {showKeyedSets sets} {showVerdicts sets} 0"
    | none => some "fuel-exhausted"
  | _ => none

/-! ## oracles -/

-- @handler c05-decidable-check handleC05DecidableCheck
/-- the reply must be what the property prescribes: `ok 0` for a single production, otherwise the
    smallest k ≤ maxk with strong-LL(k) (reference sets), `err-maxk` if there is none -/
def handleC05DecidableCheck : List String → Option String
  | st :: ps :: nt :: maxk :: reply => do
    let G ← parseGrammar st ps
    let nt ← nt.toNat?
    let maxk ← maxk.toNat?
    let exp := decidableSpec G driverFuel nt maxk
    if exp == .fuel then some "fuel-exhausted" else
    let r := " ".intercalate reply
    some (if r == showDecRes exp then "ok" else s!"fail expected:{(showDecRes exp).replace " " "_"}:got:{r.replace " " "_"}")
  | _ => none

-- @handler c05-calck-check handleC05CalcKCheck
def handleC05CalcKCheck : List String → Option String
  | st :: ps :: maxk :: reply => do
    let G ← parseGrammar st ps
    let maxk ← maxk.toNat?
    match calcKSpec G driverFuel maxk (ntsOf G) with
    | none => some "fuel-exhausted"
    | some k =>
      let r := " ".intercalate reply
      some (if r == s!"ok {k}" then "ok" else s!"fail expected:ok_{k}:got:{r.replace " " "_"}")
  | _ => none

-- @handler c05-ktuples-check handleC05KTuplesCheck
/-- accept ⇔ every non-terminal is strong-LL(k) for some k ≤ maxk; on acceptance the set of every
    production is FIRST_k(rhs) ⊕ₖ FOLLOW_k(lhs) at the minimal k of its non-terminal -/
def handleC05KTuplesCheck : List String → Option String
  | st :: ps :: maxk :: reply => do
    let G ← parseGrammar st ps
    let maxk ← maxk.toNat?
    match ktuplesSpec G driverFuel maxk (ntsOf G) with
    | none => some "fuel-exhausted"
    | some (.error e) =>
      let r := " ".intercalate reply
      some (if r == showDecRes e then "ok" else s!"fail expected:{showDecRes e}:got:{(r.take 40).replace " " "_"}")
    | some (.ok ks) =>
      match reply with
      | ["ok"] => some "ok"      -- c05-dfas: verdict only
      | ["ok", sets] => do
        let impl ← parseKeyedSets sets
        match ktuplesExpected G driverFuel ks with
        | none => some "fuel-exhausted"
        | some exp =>
          some (if sameKeyed impl (sortKeyed exp) then "ok" else s!"fail sets-differ:spec={showKeyedSets (sortKeyed exp)}")
      | _ => some s!"fail expected:ok:got:{(" ".intercalate reply).replace " " "_"}"
  | _ => none

-- @handler c05-explain-check handleC05ExplainCheck
/-- conflicts are reported ⇔ the non-terminal is not strong-LL(k), and every reported pair of
    productions really has intersecting lookahead sets (reference sets) -/
def handleC05ExplainCheck : List String → Option String
  | [st, ps, nt, k, "ok", pairs] => do
    let G ← parseGrammar st ps
    let nt ← nt.toNat?
    let k ← k.toNat?
    let pairs ← parsePairs pairs
    match laSetsSpec G driverFuel nt k with
    | none => some "fuel-exhausted"
    | some sets =>
      let strong := pairwiseDisjoint sets
      if strong != pairs.isEmpty then some s!"fail strongLL={strong}:reported={pairs.length}" else
      match pairs.find? fun (i, j) =>
          i == j || disjointSets ((lookupK i sets).getD []) ((lookupK j sets).getD []) with
      | some (i, j) => some s!"fail pair-without-overlap:{i}-{j}"
      | none => some "ok"
  | [st, ps, nt, _, "err-notpart"] => do
    let G ← parseGrammar st ps
    let nt ← nt.toNat?
    some (if (prodIdxs G nt).isEmpty then "ok" else "fail err-notpart-for-defined-non-terminal")
  | _ :: _ :: _ :: _ :: other => some s!"fail impl-reply:{(" ".intercalate other).replace " " "_"}"
  | _ => none

-- @handler c05-lasets-check handleC05LaSetsCheck
/-- the sets `decidable` compares are the reference lookahead sets, the real `is_disjoint` agrees
    with disjointness of the reference sets, and representation-level and string-level
    disjointness never differ -/
def handleC05LaSetsCheck : List String → Option String
  | [st, ps, nt, k, "ok", sets, verdicts, repDiffers] => do
    let G ← parseGrammar st ps
    let nt ← nt.toNat?
    let k ← k.toNat?
    let impl ← parseKeyedSets sets
    match laSetsSpec G driverFuel nt k with
    | none => some "fuel-exhausted"
    | some exp =>
      if !sameKeyed impl exp then some s!"fail sets-differ:spec={showKeyedSets exp}" else
      if verdicts != showVerdicts exp then some s!"fail is_disjoint:spec={showVerdicts exp}" else
      if repDiffers != "0" then some "fail representation-level-disjointness-differs" else some "ok"
  | _ :: _ :: _ :: _ :: other => some s!"fail impl-reply:{(" ".intercalate other).replace " " "_"}"
  | _ => none

end ParolModel
