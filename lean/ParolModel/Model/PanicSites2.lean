import ParolModel.Model.PanicSites
import ParolModel.Model.KSets
/-! # C26b — refined models for panic sites the first census left open, and the UPDATED table

Three things live here (core-only, linked into the driver):

1. **Guarded models of the lookahead caches** (`crates/parol/src/analysis/k_decision.rs`).
   `FirstCache` / `FollowCache` are arrays of `MAX_K + 1` slots and `get(k)` reads `self.0[k]`
   (three times each): an index panic for `k > MAX_K`. The models of C05/C06 (`KS.firstCode`,
   `KS.followCode`, `KS.laSets`, `KS.decLoop`, `KS.decidableM`, `KS.calculateKTuples`) are pure
   functions of `k` without that branch. The `…G` functions below are the same functions with the
   slot access made explicit exactly where the Rust code performs it — `FirstCache::get(k)` at the
   entry of every `first_k(k)` request (recursively for `k-1`), `FollowCache::get(k)` likewise,
   `decidable`'s loop for `current_k = 1, 2, …`, `calculate_tuples_for_non_terminal` at the decided
   `k`. The outer `Option` is the panic (`none` = index out of bounds); the inner value is the
   unguarded model's. `Props/C26b.lean` proves `…G = some (unguarded)` for `max_k ≤ MAX_K` and
   exhibits the panic for `max_k = 11` (finding F37).

2. **`compile_production_equation` over a symbol type that still has the deprecated variants**
   (`first.rs`; the same fold is in `follow.rs::update_production_equations`): `RSym.other` stands
   for `Symbol::S/Push/Pop`; `partsOf` returns `none` where the code reaches `unreachable!`, and
   `createOk` is the match of `CompiledTerminal::create` (`false` = its `panic!`).

3. **`panicSites2` / `chain2`**: the table and the chain of `Model/PanicSites.lean` with the
   entries listed in `siteUpdates` / `chainUpdates` replaced (same file/function/kind/count — the
   census tie is unchanged). `c26-summary2` prints the new totals. -/
namespace ParolModel.Panic
open ParolModel KS

/-! ## 1. cache slots -/

/-- `parol::MAX_K` (lib.rs) -/
def maxKConst : Nat := 10

/-- `self.0[k]` on `[_; MAX_K + 1]` is in bounds -/
def slotOk (k : Nat) : Bool := decide (k ≤ maxKConst)

/-- `FirstCache::get(k)`: slot access, then (on a miss) `first_k(k)`, which asks for slot `k-1`. -/
def firstCodeG (G : Grammar) (fuel : Nat) : Nat → Option (Option FirstVec)
  | 0 => if slotOk 0 then some (iterFirst G 0 fuel (initFirst0 G)) else none
  | k+1 =>
    if slotOk (k+1) then
      match firstCodeG G fuel k with
      | none => none
      | some prev => some (prev.bind fun prev => iterFirst G (k+1) fuel prev)
    else none

/-- `FollowCache::get(k)`: slot access, then `follow_k(k)`, which asks `FirstCache::get(k)` and
    `FollowCache::get(k-1)`. -/
def followCodeG (G : Grammar) (fuel : Nat) : Nat → Option (Option (List TSet × Env))
  | 0 =>
    if slotOk 0 then
      match firstCodeG G fuel 0 with
      | none => none
      | some fv => some (fv.bind fun fv =>
          iterFollow 0 (envGet fv.nts) (followEqs G) fuel ((followEqs G).map fun _ => []) (initFollowAcc G))
    else none
  | k+1 =>
    if slotOk (k+1) then
      match firstCodeG G fuel (k+1), followCodeG G fuel k with
      | some fv, some prev => some (fv.bind fun fv => prev.bind fun prev =>
          iterFollow (k+1) (envGet fv.nts) (followEqs G) fuel prev.1 (initFollowAcc G))
      | _, _ => none
    else none

/-- the two cache reads of one round of `decidable` / of `calculate_tuples_for_non_terminal` -/
def laSetsG (G : Grammar) (fuel : Nat) (A k : Nat) : Option (Option (List (Nat × TSet))) :=
  match firstCodeG G fuel k, followCodeG G fuel k with
  | some fv, some fw => some (fv.bind fun fv => fw.map fun fw =>
      (prodIdxs G A).map fun pi => (pi, kcatSetQ k (fv.prods.getD pi []) (envGet fw.2 A)))
  | _, _ => none

def decLoopG (G : Grammar) (fuel : Nat) (A : Nat) : Nat → Nat → Option DecRes
  | 0, _ => some .errMaxK
  | n+1, cur =>
    match laSetsG G fuel A cur with
    | none => none
    | some none => some .fuel
    | some (some sets) => if pairwiseDisjoint sets then some (.ok cur) else decLoopG G fuel A n (cur+1)

def decidableG (G : Grammar) (fuel : Nat) (A maxK : Nat) : Option DecRes :=
  match prodIdxs G A with
  | [] => some .errNotPart
  | [_] => some (.ok 0)
  | _ => decLoopG G fuel A maxK 1

def calcTuplesLoopG (G : Grammar) (fuel : Nat) (maxK : Nat) : List Nat → List (Nat × TSet) → Option TuplesRes
  | [], acc => some (.ok acc)
  | A :: rest, acc =>
    match decidableG G fuel A maxK with
    | none => none
    | some (.ok k) =>
      match laSetsG G fuel A k with
      | none => none
      | some (some sets) => calcTuplesLoopG G fuel maxK rest (acc ++ sets)
      | some none => some (.err A .fuel)
    | some e => some (.err A e)

/-- `calculate_k_tuples` with the cache slot accesses; `none` = `index out of bounds` -/
def calculateKTuplesG (G : Grammar) (fuel : Nat) (maxK : Nat) : Option TuplesRes :=
  calcTuplesLoopG G fuel maxK (ntsOf G) []

/-- `Builder::max_lookahead(k)` (build.rs): `Err(LookaheadTooLarge)` for `k > MAX_K` -/
def builderMaxLookahead (k : Nat) : Option Nat := if k > maxKConst then none else some k

/-! ## 2. `compile_production_equation` with the deprecated symbol variants -/

/-- `Symbol`: `T(_)`, `N(..)`, and the deprecated `S` / `Push` / `Pop` -/
inductive RSym
  | t (a : Nat)
  | n (B : Nat)
  | other
  deriving DecidableEq, Repr

def RSym.isT : RSym → Bool
  | .t _ => true
  | _ => false

/-- body of the first fold; `none` = `unreachable!("Scanner switching directives …")` -/
def partsStep (acc : List (List RSym)) (s : RSym) : Option (List (List RSym)) :=
  match s with
  | .n _ => some (acc ++ [[s]])
  | .t _ =>
    match acc.getLast? with
    | none => some (acc ++ [[s]])
    | some last =>
      if (last.getLast?.map RSym.isT) == some true then some (acc.dropLast ++ [last ++ [s]])
      else some (acc ++ [[s]])
  | .other => none

def partsOf (rhs : List RSym) : Option (List (List RSym)) := rhs.foldlM partsStep []

/-- the match of `CompiledTerminal::create`: `false` = `panic!("Unexpected symbol type")` -/
def createOk : RSym → Bool
  | .t _ => true
  | _ => false

/-- second loop: `match &symbol_string.0[0]`; a terminal run maps `CompiledTerminal::create` over
    the whole part. `false` = the index panics, `create` panics, or `unreachable!` is reached. -/
def equationOk (parts : List (List RSym)) : Bool :=
  parts.all fun part =>
    match part.head? with
    | some (.t _) => part.all createOk
    | some (.n _) => true
    | _ => false

def embedSym : Sym → RSym
  | .t a => .t a
  | .n B => .n B

/-! ## 3. the updated table -/

private def minNote : String :=
  "model branch `none` of `minimizeC`; `ParolModel.minimizeC_total`: on automata whose accepting states are leaves (`CompiledOk`, established for the tries of non-empty, pairwise disjoint, prefix-free tuple sets by `compiledOk_of_sets`) no `none` branch is taken, for every hash-map iteration order"

/-- Entries that supersede those of `panicSites` with the same (file, function, kind). -/
def siteUpdates : List PanicSite := [
  ⟨"analysis/compiled_la_dfa.rs", "AdjacencyList::as_compiled_dfa", "unwrap", 2, "lookahead-automata", .theorem,
    ["ParolModel.Panic.site_as_compiled_dfa_unwrap", "ParolModel.minimizeC_total"],
    "`productions.get(&t.0).unwrap()` for every neighbour and `productions.get(&0).unwrap()`: the well-formedness invariant `AdjWF` (neighbours are states, list and production map have the same keys, state 0 present) holds after `minimize`; " ++ minNote⟩,
  ⟨"analysis/compiled_la_dfa.rs", "AdjacencyList::combine_equivalent_states", "unwrap", 1, "lookahead-automata", .theorem,
    ["ParolModel.Panic.site_combine_equivalent_states_unwrap", "ParolModel.minimizeC_total"],
    "`productions.get(s).unwrap()` for the states of the list: same key sets (`AdjWF.keys`), preserved by every round; " ++ minNote⟩,
  ⟨"analysis/compiled_la_dfa.rs", "AdjacencyList::combine_two_states", "debug_assert", 3, "lookahead-automata", .theorem,
    ["ParolModel.Panic.site_combine_two_states_debug_assert", "ParolModel.minimizeC_total"],
    "keep ≠ merge (members of a group are distinct map keys), equal production numbers (group key of phase 1; INVALID_PROD in phase 2), all four lookups `Some` (members of other groups are never removed; within a group only the merged state disappears); " ++ minNote⟩,
  ⟨"analysis/compiled_la_dfa.rs", "AdjacencyList::len", "debug_assert", 1, "lookahead-automata", .theorem,
    ["ParolModel.Panic.site_adjacency_list_len_debug_assert"],
    "`productions.len() == list.len()` (only evaluated as a `trace!` argument, before and after `minimize`): both maps have the same key set at both points"⟩,
  ⟨"analysis/compiled_la_dfa.rs", "AdjacencyList::renumber_states", "panic!", 1, "lookahead-automata", .theorem,
    ["ParolModel.Panic.site_renumber_states_panic", "ParolModel.minimizeC_total"],
    "`No free state number found!`: when the enumeration finds a key ≠ its position, the position itself is a free number below `productions.len()` (and ≥ 1, state 0 is present), and it is the one `find_first_free_state_number` returns; " ++ minNote⟩,
  ⟨"analysis/compiled_terminal.rs", "CompiledTerminal::create", "panic!", 1, "first/follow", .theorem,
    ["ParolModel.Panic.site_compiled_terminal_create_panic", "ParolModel.Panic.compile_production_equation_refines"],
    "`Unexpected symbol type`: in the refined model of `compile_production_equation` (`partsOf`/`equationOk`, symbols with the deprecated variants) every part whose first symbol is a terminal consists of terminals only, so `create` sees `Symbol::T` only; the other caller (follow.rs `update_production_equations`) runs the same grouping fold (parts tagged with the symbol index) and maps `create` over a part only behind the same test of its first symbol. On the framework's symbols the refined fold computes the parts of `KS.compileParts` (`compile_production_equation_refines`)"⟩,
  ⟨"analysis/k_decision.rs", "FirstCache::get", "index", 3, "decision", .theorem,
    ["ParolModel.Panic.site_first_cache_get_index", "ParolModel.Panic.pre_established_decision"],
    "`self.0[k]` on MAX_K + 1 slots: in the guarded model (`firstCodeG` … `calculateKTuplesG`, slot test at every `get`) all requests of `calculate_k_tuples(max_k)` are for k ≤ max_k, so no index panic for max_k ≤ MAX_K — which `Builder::max_lookahead` establishes (the `parol decidable` tool, the only caller of `explain_conflicts`, tests `max_k > MAX_K` itself); the public `calculate_lookahead_dfas(cfg, 11)` does panic (finding F37, `f37_witness`)"⟩,
  ⟨"analysis/k_decision.rs", "FollowCache::get", "index", 3, "decision", .theorem,
    ["ParolModel.Panic.site_follow_cache_get_index", "ParolModel.Panic.pre_established_decision"],
    "as `FirstCache::get`"⟩,
  ⟨"analysis/k_decision.rs", "calculate_lookahead_dfas", "index", 1, "decision", .theorem,
    ["ParolModel.Panic.site_calculate_lookahead_dfas_index"],
    "`cfg[*i]`: every key of the map `calculate_k_tuples` returns is the index of a production of the grammar"⟩,
  ⟨"grammar/cfg.rs", "Cfg::get_terminal_index_function", "unwrap", 1, "first/follow", .theorem,
    ["ParolModel.Tbl.termIdx_total_on_occurrences"],
    "`position(..).unwrap()` in the list `get_ordered_terminals` builds with the same `behaves_like` test: modelled since C18 (`Tbl.termIdx`, `none` = the failing unwrap); total on every terminal occurrence of the grammar. Callers (`CompiledTerminal::create` from first_k/follow_k, the generators) pass occurrences of the same grammar"⟩
]

def sameKey (a b : PanicSite) : Bool := a.file == b.file && a.func == b.func && a.kind == b.kind

def panicSites2 : List PanicSite :=
  panicSites.map fun s => (siteUpdates.find? (sameKey s)).getD s

def chainUpdates : List ChainLink := [
  ⟨"decision", "decidable / calculate_k_tuples (through FirstCache::get / FollowCache::get)",
   "as first/follow, and max_k ≤ MAX_K",
   some "ParolModel.Panic.stage_total_decision", some "ParolModel.Panic.pre_established_decision",
   "guarded model: no cache slot index panic for max_k ≤ MAX_K (Builder::max_lookahead rejects larger values; the public function does not — finding F37); the class hypotheses come from the well-formedness stage (`pre_established_analysis`). Outcomes ok / MaxKExceeded / not-part / fuel"⟩,
  ⟨"lookahead-automata", "LookaheadDFA::from_k_tuples, unite (lookahead_dfa.rs)",
   "the tuple sets of one non-terminal are non-empty, pairwise disjoint and prefix-free",
   some "ParolModel.Panic.stage_total_unite2", some "ParolModel.Panic.pre_established_unite",
   "for a grammar that passed the checks, the sets `calculate_k_tuples` hands over at the decided k satisfy the precondition (one alternative: a single set, no `unite` call at all); the uniting loop then yields an automaton — no conflict, no panic path, and the model's fuel always suffices (`uniteAll_ne_fuel`)"⟩,
  ⟨"minimisation", "CompiledDFA::from_lookahead_dfa (compiled_la_dfa.rs)",
   "accepting states are leaves",
   some "ParolModel.Panic.stage_total_minimise", some "ParolModel.Panic.pre_established_minimise",
   "total for every hash-map iteration order; the precondition holds for the united tries of `SetsOk` sets"⟩
]

def chain2 : List ChainLink :=
  chain.map fun l => (chainUpdates.find? (fun u => u.stage == l.stage)).getD l

end ParolModel.Panic

namespace ParolModel

-- @handler c26-summary2 Panic.summaryHandler2
/-- `c26-summary2` → the totals of the UPDATED table, in the format of `c26-summary` -/
def Panic.summaryHandler2 : List String → Option String
  | [] =>
    let cnt (h : Panic.How) := ((Panic.panicSites2.filter (·.how == h)).map (·.count)).foldl (· + ·) 0
    let all := (Panic.panicSites2.map (·.count)).foldl (· + ·) 0
    some s!"sites={all} theorem={cnt .theorem} localguard={cnt .localguard} constant={cnt .constant} offpath={cnt .offpath} open={cnt .open} links={Panic.chain2.length} total={(Panic.chain2.filter (·.totalBy.isSome)).length} pre={(Panic.chain2.filter (·.preEstablishedBy.isSome)).length}"
  | _ => none

end ParolModel
