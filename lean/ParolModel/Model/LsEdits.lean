import ParolModel.Model.LsUtils
/-! # L12 (part) — applying LSP text edits; the rename specification (C28)

LSP semantics, as the protocol defines them when no position encoding is negotiated (parol-ls
negotiates none): a document is a sequence of lines ended by LF, CRLF or a lone CR; a position is
(line, character) with `character` counting UTF-16 code units inside the line; all edits of one
`TextEdit[]` refer to the ORIGINAL document, must not overlap, and are applied as a set.

* `Text` — list of lines, each its content and its terminator, as UTF-16 code units (`Nat`s);
* `posToOff` — position → offset into the flat unit sequence (strict: no such line or a character
  offset beyond the line's content is an error, not clamped);
* `applyEdits` — sort by start offset (`sortE`), then splice left to right (`applySorted`);
  overlapping edits and two edits with the same start offset are errors (`none`);
* `renameSpec` — the expected result of a rename, built from the token list of the text: the spans
  of the selected tokens are replaced by the new name, everything between tokens and every other
  token is copied unchanged;
* `renameCheck` — the oracle for one rename answer of the real server (`ls28-check`). -/
namespace ParolModel.Ls28

/-- UTF-16 code units of a character. -/
def utf16 (c : Char) : List Nat :=
  let n := c.toNat
  if n < 0x10000 then [n]
  else [0xD800 + (n - 0x10000) / 0x400, 0xDC00 + (n - 0x10000) % 0x400]

def utf16s (cs : List Char) : List Nat := cs.flatMap utf16

structure Line where
  content : List Nat
  /-- `[]` (last line), `[10]`, `[13, 10]` or `[13]` -/
  eol : List Nat
  deriving DecidableEq, Repr

abbrev Text := List Line

def flatten (t : Text) : List Nat := t.flatMap (fun l => l.content ++ l.eol)

/-- Splits a unit sequence into lines; `acc` is the reversed content of the line being read, `cr`
    says that a CR was just read (it ends the line, together with a directly following LF). The
    result always ends with a line without terminator (possibly empty). -/
def splitLinesAux : List Nat → List Nat → Bool → Text
  | [], acc, cr => if cr then [⟨acc.reverse, [13]⟩, ⟨[], []⟩] else [⟨acc.reverse, []⟩]
  | u :: r, acc, cr =>
    if cr then
      if u = 10 then ⟨acc.reverse, [13, 10]⟩ :: splitLinesAux r [] false
      else if u = 13 then ⟨acc.reverse, [13]⟩ :: splitLinesAux r [] true
      else ⟨acc.reverse, [13]⟩ :: splitLinesAux r [u] false
    else if u = 10 then ⟨acc.reverse, [10]⟩ :: splitLinesAux r [] false
    else if u = 13 then splitLinesAux r acc true
    else splitLinesAux r (u :: acc) false

def splitLines (units : List Nat) : Text := splitLinesAux units [] false

/-- Offset of an LSP position in the flat unit sequence. -/
def posToOff : Text → Nat → Nat → Option Nat
  | [], _, _ => none
  | l :: _, 0, c => if c ≤ l.content.length then some c else none
  | l :: ls, n + 1, c => (posToOff ls n c).map (· + (l.content.length + l.eol.length))

/-- An edit in flat offsets: replace `[start, stop)` by `new`. -/
structure Edit where
  start : Nat
  stop : Nat
  new : List Nat
  deriving DecidableEq, Repr

/-- An edit as the protocol transmits it. -/
structure LspEdit where
  sl : Nat
  sc : Nat
  el : Nat
  ec : Nat
  new : List Nat
  deriving DecidableEq, Repr

/-- `mapM` for `Option`, written out (all elements must succeed). -/
def mapOpt {α β : Type} (f : α → Option β) : List α → Option (List β)
  | [] => some []
  | a :: as =>
    match f a, mapOpt f as with
    | some b, some bs => some (b :: bs)
    | _, _ => none

def toFlat (t : Text) (e : LspEdit) : Option Edit :=
  match posToOff t e.sl e.sc, posToOff t e.el e.ec with
  | some a, some b => some ⟨a, b, e.new⟩
  | _, _ => none

def insertE (e : Edit) : List Edit → List Edit
  | [] => [e]
  | x :: xs => if e.start ≤ x.start then e :: x :: xs else x :: insertE e xs

/-- Insertion sort by start offset. -/
def sortE : List Edit → List Edit
  | [] => []
  | e :: es => insertE e (sortE es)

/-- Splices sorted edits into `units`, whose first element has offset `off` in the original text;
    `lo` is the least admissible start of the next edit (after an edit `e`: its `stop`, and more
    than its `start`, so that two edits never start at the same offset). -/
def applySorted (units : List Nat) (off lo : Nat) : List Edit → Option (List Nat)
  | [] => some units
  | e :: es =>
    if lo ≤ e.start ∧ off ≤ e.start ∧ e.start ≤ e.stop ∧ e.stop ≤ off + units.length then
      (applySorted (units.drop (e.stop - off)) e.stop (max e.stop (e.start + 1)) es).map
        (fun r => units.take (e.start - off) ++ e.new ++ r)
    else none

/-- Applies a set of edits given in flat offsets. -/
def applyFlat (units : List Nat) (es : List Edit) : Option (List Nat) :=
  applySorted units 0 0 (sortE es)

/-- Applies a `TextEdit[]` to a document (LSP semantics). -/
def applyEdits (t : Text) (es : List LspEdit) : Option (List Nat) :=
  match mapOpt (toFlat t) es with
  | some fes => applyFlat (flatten t) fes
  | none => none

/-- A token of the text in flat offsets; `role` is meaningful for identifier tokens only
    (0 = none/other, 1 = non-terminal, 2 = scanner state). -/
structure Tok where
  ty : Nat
  start : Nat
  stop : Nat
  role : Nat
  deriving DecidableEq, Repr

def slice (units : List Nat) (a b : Nat) : List Nat := (units.drop a).take (b - a)

/-- The expected text: `units` (first element at offset `off`) with the span of every selected
    token replaced by `new`; `none` if the tokens are not ordered, overlap or leave the text. -/
def renameSpec (sel : Tok → Bool) (new : List Nat) :
    List Nat → Nat → List Tok → Option (List Nat)
  | units, _, [] => some units
  | units, off, tk :: rest =>
    if off ≤ tk.start ∧ tk.start ≤ tk.stop ∧ tk.stop ≤ off + units.length then
      (renameSpec sel new (units.drop (tk.stop - off)) tk.stop rest).map (fun r =>
        units.take (tk.start - off) ++
        (if sel tk then new else (units.drop (tk.start - off)).take (tk.stop - tk.start)) ++ r)
    else none

/-- The edits that replace exactly the selected tokens. -/
def tokEdits (sel : Tok → Bool) (new : List Nat) (toks : List Tok) : List Edit :=
  (toks.filter sel).map (fun tk => ⟨tk.start, tk.stop, new⟩)

/-- Token sequence (type, text) expected after the rename. -/
def expectedToks (units : List Nat) (sel : Tok → Bool) (new : List Nat) (toks : List Tok) :
    List (Nat × List Nat) :=
  toks.map (fun tk => (tk.ty, if sel tk then new else slice units tk.start tk.stop))

/-- Token sequence (type, text) of a text, given its tokens' types and spans. -/
def actualToks (units : List Nat) (toks : List Tok) : List (Nat × List Nat) :=
  toks.map (fun tk => (tk.ty, slice units tk.start tk.stop))

/-- A token as the harness transmits it: LSP positions. -/
structure PTok where
  ty : Nat
  sl : Nat
  sc : Nat
  el : Nat
  ec : Nat
  role : Nat
  deriving DecidableEq, Repr

def flatTok (t : Text) (p : PTok) : Option Tok :=
  match posToOff t p.sl p.sc, posToOff t p.el p.ec with
  | some a, some b => some ⟨p.ty, a, b, p.role⟩
  | _, _ => none

/-- One rename answer of the server, with everything the harness observed. -/
structure Case where
  /-- the original document -/
  text : Text
  /-- its tokens from the real scanner, roles from the parse tree -/
  toks : List PTok
  /-- the symbol: 1 = non-terminal, 2 = scanner state; and its name -/
  kind : Nat
  name : List Nat
  newName : List Nat
  /-- the server's edits -/
  edits : List LspEdit
  /-- the text the harness obtained by applying the edits, and its tokens from the real scanner
      (positions refer to `resText`) -/
  resText : Text
  resToks : List PTok

/-- "this identifier token denotes the symbol" -/
def selects (units : List Nat) (kind : Nat) (name : List Nat) (tk : Tok) : Bool :=
  tk.role == kind && slice units tk.start tk.stop == name

/-- The oracle: the server's edits, applied under LSP semantics, give exactly the specified text,
    this is the text the harness lexed, and its token sequence is the original one with exactly
    the symbol's tokens renamed. -/
def renameCheck (c : Case) : Bool :=
  let units := flatten c.text
  match mapOpt (flatTok c.text) c.toks, mapOpt (flatTok c.resText) c.resToks, applyEdits c.text c.edits with
  | some toks, some rtoks, some res =>
    let sel := selects units c.kind c.name
    (renameSpec sel c.newName units 0 toks == some res) &&
    (flatten c.resText == res) &&
    (actualToks res rtoks == expectedToks units sel c.newName toks)
  | _, _, _ => false

/-! ## Line protocol -/

open LsUtils in
def parseText (hex : String) : Option (List Nat) :=
  (parseHexText hex).map utf16s

def parseNat5 (s : String) : Option (Nat × Nat × Nat × Nat × Nat × String) :=
  match s.splitOn ":" with
  | [a, b, c, d, e, f] => do
    some (← a.toNat?, ← b.toNat?, ← c.toNat?, ← d.toNat?, ← e.toNat?, f)
  | _ => none

def parseList {α : Type} (f : String → Option α) (s : String) : Option (List α) :=
  if s == "-" then some [] else (s.splitOn ",").mapM f

def roleOfLetter (s : String) : Option Nat :=
  if s == "n" then some 1 else if s == "s" then some 2 else if s == "o" || s == "x" then some 0 else none

/-- `ty:sl:sc:el:ec:r` -/
def parsePTok (s : String) : Option PTok := do
  let (ty, sl, sc, el, ec, r) ← parseNat5 s
  some ⟨ty, sl, sc, el, ec, ← roleOfLetter r⟩

/-- `ty:sl:sc:el:ec` -/
def parseRTok (s : String) : Option PTok :=
  match s.splitOn ":" with
  | [a, b, c, d, e] => do some ⟨← a.toNat?, ← b.toNat?, ← c.toNat?, ← d.toNat?, ← e.toNat?, 0⟩
  | _ => none

/-- `sl:sc:el:ec:<hex new text>` -/
def parseLspEdit (s : String) : Option LspEdit :=
  match s.splitOn ":" with
  | [a, b, c, d, h] => do
    some ⟨← a.toNat?, ← b.toNat?, ← c.toNat?, ← d.toNat?, ← parseText h⟩
  | _ => none

/-- `l:c:none` or `l:c:sl:sc:el:ec` -/
def parsePrep (s : String) : Option (Nat × Nat × Option (Nat × Nat × Nat × Nat)) :=
  match s.splitOn ":" with
  | [l, c, r] => if r == "none" then do some (← l.toNat?, ← c.toNat?, none) else none
  | [l, c, a, b, d, e] => do
    some (← l.toNat?, ← c.toNat?, some (← a.toNat?, ← b.toNat?, ← d.toNat?, ← e.toNat?))
  | _ => none

/-- prepare-rename must answer the range of the token the position lies in. -/
def prepOk (toks : List PTok) (p : Nat × Nat × Option (Nat × Nat × Nat × Nat)) : Bool :=
  let (l, c, r) := p
  match toks.find? (fun t => t.sl == l && t.el == l && t.sc ≤ c && c < t.ec) with
  | none => false
  | some t => r == some (t.sl, t.sc, t.el, t.ec)

def firstDiff : List Nat → List Nat → Nat → Nat
  | a :: as, b :: bs, i => if a = b then firstDiff as bs (i + 1) else i
  | _, _, i => i

def firstDiffTok : List (Nat × List Nat) → List (Nat × List Nat) → Nat → Nat
  | a :: as, b :: bs, i => if a = b then firstDiffTok as bs (i + 1) else i
  | _, _, i => i

/-- Why `renameCheck` rejects (for the report; not part of the verified path). -/
def renameWhy (c : Case) : String :=
  let units := flatten c.text
  match mapOpt (flatTok c.text) c.toks with
  | none => "bad-token-positions"
  | some toks =>
    let sel := selects units c.kind c.name
    match renameSpec sel c.newName units 0 toks with
    | none => "tokens-not-ordered"
    | some want =>
      match applyEdits c.text c.edits with
      | none => "edits-do-not-apply"
      | some res =>
        if res != want then s!"text-differs-from-spec first-difference-at-unit={firstDiff res want 0}"
        else if flatten c.resText != res then "harness-applied-edits-differently"
        else match mapOpt (flatTok c.resText) c.resToks with
          | none => "bad-result-token-positions"
          | some rtoks =>
            s!"token-sequence-differs first-difference-at-token={firstDiffTok (actualToks res rtoks) (expectedToks units sel c.newName toks) 0}"

end ParolModel.Ls28

namespace ParolModel
open Ls28

-- @handler ls28-check Ls28.handleLs28Check
/-- Oracle for one rename answer of the real server:
    `ls28-check <hex text> <nt|st> <name> <new name> <toks> <preps> <edits|none> <hex result|!> <rtoks|!>`
    → `ok` | `fail <why>`. -/
def Ls28.handleLs28Check : List String → Option String
  | [ht, kind, name, newName, toks, preps, edits, hres, rtoks] => do
    let units ← parseText ht
    let k ← if kind == "nt" then some 1 else if kind == "st" then some 2 else none
    let ptoks ← parseList parsePTok toks
    let pps ← parseList parsePrep preps
    let prep := match pps.find? (fun p => !prepOk ptoks p) with
      | some (l, c, _) => s!"prepare-rename-answer-wrong-at={l}:{c};"
      | none => ""
    let verdict ←
      if edits == "none" then some "rename-answered-null"
      else do
        let es ← parseList parseLspEdit edits
        if hres == "!" || rtoks == "!" then
          match applyEdits (splitLines units) es with
          | none => some "edits-do-not-apply"
          | some _ => some "harness-could-not-apply-edits"
        else do
          let res ← parseText hres
          let rts ← parseList parseRTok rtoks
          let c : Case := ⟨splitLines units, ptoks, k, utf16s name.toList, utf16s newName.toList, es,
                           splitLines res, rts⟩
          if renameCheck c then some "" else some (renameWhy c)
    if prep.isEmpty && verdict.isEmpty then some "ok" else some s!"fail {prep}{verdict}"
  | _ => none

end ParolModel
