import ParolModel.Model.Ebnf
/-! Model of `transformation/canonicalization.rs` (`transform_productions` and its steps) and of
`utils::generate_name`, step for step: same search order (first production, first alternation,
first factor), same insertion positions, same names, same attributes.

Loops take fuel; running out of fuel is the result `.fuel` (printed `fuel-exhausted`), a Rust panic
(`Vec::remove` out of range in `eliminate_single_opt`, case 2) is `.panic`. -/
namespace ParolModel

inductive CRes (α : Type) | ok (a : α) | fuel | panic
  deriving Repr

def CRes.bind {α β} : CRes α → (α → CRes β) → CRes β
  | .ok a, f => f a
  | .fuel, _ => .fuel
  | .panic, _ => .panic

inductive GType | ll | lr
  deriving DecidableEq, Repr

/-! ## `generate_name` -/

def digitChar (d : Nat) : Char := Char.ofNat (48 + d)

def digitsAux : Nat → Nat → List Char → List Char
  | 0, _, acc => acc
  | f+1, n, acc =>
    if n < 10 then digitChar n :: acc else digitsAux f (n / 10) (digitChar (n % 10) :: acc)

/-- decimal digits of `n` (`format!("{num}")`) -/
def natDigits (n : Nat) : List Char := digitsAux (n + 1) n []

/-- `(prefix, maximal trailing run of ASCII digits)` — what `RX_NUM_SUFFIX = [0-9]+$` finds. -/
def splitNumSuffix (nm : Name) : Name × List Char :=
  let r := nm.reverse
  ((r.dropWhile Char.isDigit).reverse, (r.takeWhile Char.isDigit).reverse)

/-- `str::parse::<usize>().unwrap_or(1)` on a non-empty digit string (64-bit target). -/
def parseUsizeOr1 (ds : List Char) : Nat :=
  let v := digitsToNatE ds
  if v < 2 ^ 64 then v else 1

/-- `gen_name`: count up from `num` until `prefix ++ num` is not excluded. -/
def genNameLoop (excl : List Name) (pre : Name) : Nat → Nat → Option Name
  | 0, _ => none
  | f+1, num =>
    let nm := pre ++ natDigits num
    if nm ∈ excl then genNameLoop excl pre f (num + 1) else some nm

/-- `generate_name(exclusions, preferred_name)`; `none` = fuel (`|exclusions| + 1` candidates)
    exhausted. -/
def generateName (excl : List Name) (pref : Name) : Option Name :=
  if pref ∈ excl then
    let (pre, ds) := splitNumSuffix pref
    if ds.isEmpty then genNameLoop excl pref (excl.length + 1) 0
    else genNameLoop excl pre (excl.length + 1) (parseUsizeOr1 ds)
  else some pref

/-- `RX_OPT_WITH_NUM_SUFFIX = Opt[0-9]*$` matches. -/
def endsWithOptNum (nm : Name) : Bool :=
  let (pre, _) := splitNumSuffix nm
  "tpO".toList.isPrefixOf pre.reverse

/-! ## locating the first factor of a kind (`find_production_with_factor` + `position` in the
`eliminate_single_*` functions) -/

def splitFirstSome {α β} (g : α → Option β) : List α → Option (List α × β × List α)
  | [] => none
  | x :: xs =>
    match g x with
    | some b => some ([], b, xs)
    | none =>
      match splitFirstSome g xs with
      | some (a, b, c) => some (x :: a, b, c)
      | none => none

/-- The place of the first top-level factor selected by `sel`: production `pre.length`,
    alternation `apre.length`, factor `x.length`. -/
structure Loc where
  pre : List EProd
  lhs : Name
  apre : List EAlt
  x : List Factor
  inner : Alts
  y : List Factor
  attr : PAttr
  apost : List EAlt
  post : List EProd

def locate (sel : Factor → Option Alts) (ps : List EProd) : Option Loc :=
  let inAlt (a : EAlt) := (splitFirstSome sel a.fs).map fun r => (r, a.attr)
  let inProd (p : EProd) := (splitFirstSome inAlt p.alts).map fun r => (p.lhs, r)
  match splitFirstSome inProd ps with
  | some (pre, (lhs, apre, ((x, inner, y), attr), apost), post) =>
    some ⟨pre, lhs, apre, x, inner, y, attr, apost, post⟩
  | none => none

def Factor.repInner : Factor → Option Alts | .rep as => some as | _ => none
def Factor.optInner : Factor → Option Alts | .opt as => some as | _ => none
def Factor.groupInner : Factor → Option Alts | .group as => some as | _ => none

/-- the located production with the located alternation's factors replaced -/
def Loc.withAlt (L : Loc) (fs : List Factor) : EProd :=
  ⟨L.lhs, L.apre ++ ⟨fs, L.attr⟩ :: L.apost⟩

/-- result of one `while step(&mut productions)` body -/
inductive StepRes | unchanged | changed (ps : List EProd) | fuel | panic

/-! ## `extract_options` -/

mutual
/-- first optional, depth first, descending into groups and repetitions only; it is replaced by
    the non-terminal `X` (attribute `Option`), its alternations are returned. -/
def exFactor (X : Name) : Factor → Option (Factor × Alts)
  | .group as => match exAlts X as with
      | some (as', inner) => some (.group as', inner)
      | none => none
  | .rep as => match exAlts X as with
      | some (as', inner) => some (.rep as', inner)
      | none => none
  | .opt as => some (.n X .option, as)
  | .t _ => none
  | .n _ _ => none
def exAlt (X : Name) : List Factor → Option (List Factor × Alts)
  | [] => none
  | f :: fs =>
    match exFactor X f with
    | some (f', inner) => some (f' :: fs, inner)
    | none => match exAlt X fs with
      | some (fs', inner) => some (f :: fs', inner)
      | none => none
def exAlts (X : Name) : Alts → Option (Alts × Alts)
  | [] => none
  | a :: as =>
    match exAlt X a with
    | some (a', inner) => some (a' :: as, inner)
    | none => match exAlts X as with
      | some (as', inner) => some (a :: as', inner)
      | none => none
end

def exEAlts (X : Name) : List EAlt → Option (List EAlt × Alts)
  | [] => none
  | a :: as =>
    match exAlt X a.fs with
    | some (fs', inner) => some (⟨fs', a.attr⟩ :: as, inner)
    | none => match exEAlts X as with
      | some (as', inner) => some (a :: as', inner)
      | none => none

/-- preferred name of the production that receives an extracted optional of `lhs` -/
def optPreferred (lhs : Name) : Name := if endsWithOptNum lhs then lhs else lhs ++ "Opt".toList

/-- `extract_optional_in_productions` + the two `insert`s. The name depends only on the
    production's left-hand side and the exclusions, so it is computed before the search in the
    production (the Rust code computes it when the optional is found; `generate_name` is pure). -/
def extractInProds (excl : List Name) : List EProd → StepRes
  | [] => .unchanged
  | p :: ps =>
    match generateName excl (optPreferred p.lhs) with
    | none => .fuel
    | some X =>
      match exEAlts X p.alts with
      | some (alts', inner) =>
        .changed (⟨p.lhs, alts'⟩ :: ⟨X, [⟨[.group inner], .optSome⟩]⟩ :: ⟨X, [⟨[], .optNone⟩]⟩ :: ps)
      | none =>
        match extractInProds excl ps with
        | .changed ps' => .changed (p :: ps')
        | r => r

def extractStep (ps : List EProd) : StepRes := extractInProds (variableNames ps) ps

/-! ## `separate_alternatives` -/

def sepStep (ps : List EProd) : StepRes :=
  match splitFirstSome (fun p : EProd => if p.alts.length > 1 then some p else none) ps with
  | some (pre, p, post) => .changed (pre ++ p.alts.map (fun a => ⟨p.lhs, [a]⟩) ++ post)
  | none => .unchanged

/-! ## `eliminate_repetitions` -/

def repStep (ty : GType) (ps : List EProd) : StepRes :=
  match locate Factor.repInner ps with
  | none => .unchanged
  | some L =>
    match generateName (variableNames ps) (L.lhs ++ "List".toList) with
    | none => .fuel
    | some X =>
      let p1 := L.withAlt (L.x ++ .n X .repAnchor :: L.y)
      let body : List Factor :=
        match L.inner with
        | [single] => (match ty with | .ll => single ++ [.n X .none] | .lr => .n X .none :: single)
        | _ => (match ty with | .ll => [.group L.inner, .n X .none] | .lr => [.n X .none, .group L.inner])
      let p2 : EProd := ⟨X, [⟨body, .addToColl⟩]⟩
      let p2a : EProd := ⟨X, [⟨[], .collStart⟩]⟩
      .changed (L.pre ++ [p1, p2, p2a] ++ L.post)

/-! ## `eliminate_options` (dead code behind `extract_options`, modelled as written, including the
`rhs.0[0]` of case 2) -/

def removeAt? {α} : Nat → List α → Option (List α)
  | _, [] => none
  | 0, _ :: xs => some xs
  | i+1, x :: xs => (removeAt? i xs).map (x :: ·)

def optStep (ps : List EProd) : StepRes :=
  match locate Factor.optInner ps with
  | none => .unchanged
  | some L =>
    match L.inner with
    | [single] =>
      .changed (L.pre ++ [L.withAlt (L.x ++ single ++ L.y), L.withAlt (L.x ++ L.y)] ++ L.post)
    | _ =>
      match generateName (variableNames ps) (L.lhs ++ "Opt".toList) with
      | none => .fuel
      | some X =>
        let p1 := L.withAlt (L.x ++ .n X .none :: L.y)
        -- production1a = production1 with factor `opt_index_in_alt` removed from alternation 0 (!)
        let p1a? : Option EProd :=
          match p1.alts with
          | [] => none
          | a0 :: as => (removeAt? L.x.length a0.fs).map fun fs' => ⟨p1.lhs, ⟨fs', a0.attr⟩ :: as⟩
        match p1a? with
        | none => .panic
        | some p1a =>
          let p2 : EProd := ⟨X, L.inner.map (fun a => ⟨a, .none⟩)⟩
          .changed (L.pre ++ [p1, p1a, p2] ++ L.post)

/-! ## `eliminate_groups` -/

def groupStep (ps : List EProd) : StepRes :=
  match locate Factor.groupInner ps with
  | none => .unchanged
  | some L =>
    match L.inner with
    | [single] => .changed (L.pre ++ [L.withAlt (L.x ++ single ++ L.y)] ++ L.post)
    | _ =>
      match generateName (variableNames ps) (L.lhs ++ "Group".toList) with
      | none => .fuel
      | some X =>
        let p1 := L.withAlt (L.x ++ .n X .none :: L.y)
        let p2 : EProd := ⟨X, L.inner.map (fun a => ⟨a, .none⟩)⟩
        .changed (L.pre ++ [p1, p2] ++ L.post)

/-! ## the loops -/

/-- `while step(&mut productions) { modified |= true }` -/
def iterStep (step : List EProd → StepRes) : Nat → List EProd → Bool → CRes (List EProd × Bool)
  | 0, _, _ => .fuel
  | f+1, ps, m =>
    match step ps with
    | .unchanged => .ok (ps, m)
    | .changed ps' => iterStep step f ps' true
    | .fuel => .fuel
    | .panic => .panic

/-- one pass of `trans_fn` = separate_alternatives ; eliminate_repetitions ; eliminate_options ;
    eliminate_groups, threading `modified`. -/
def pass (ty : GType) (fuel : Nat) (ps : List EProd) : CRes (List EProd × Bool) :=
  (iterStep sepStep fuel ps false).bind fun (ps1, m1) =>
  (iterStep (repStep ty) fuel ps1 m1).bind fun (ps2, m2) =>
  (iterStep optStep fuel ps2 m2).bind fun (ps3, m3) =>
  iterStep groupStep fuel ps3 m3

/-- `while operand.modified { operand.modified = false; operand = trans_fn(operand) }` -/
def passLoop (ty : GType) (fuel : Nat) : Nat → List EProd → CRes (List EProd)
  | 0, _ => .fuel
  | f+1, ps =>
    match pass ty fuel ps with
    | .ok (ps', true) => passLoop ty fuel f ps'
    | .ok (ps', false) => .ok ps'
    | .fuel => .fuel
    | .panic => .panic

/-! ## `finalize` -/

def Factor.toSymN : Factor → Option SymN
  | .t a => some (.t a)
  | .n A sa => some (.n A sa)
  | _ => none

def finalizeProd (p : EProd) : Option RuleN :=
  match p.alts with
  | [a] => (a.fs.mapM Factor.toSymN).map fun rhs => ⟨p.lhs, rhs, a.attr⟩
  | _ => none

def finalize (ps : List EProd) : Option (List RuleN) := ps.mapM finalizeProd

inductive CanonRes | ok (rs : List RuleN) | fuel | panic | finalizeError
  deriving Repr, DecidableEq

/-- `transform_productions(productions, grammar_type)` with loop fuel `fuel`. -/
def canon (ty : GType) (fuel : Nat) (ps : List EProd) : CanonRes :=
  match iterStep extractStep fuel ps false with
  | .fuel => .fuel
  | .panic => .panic
  | .ok (ps0, _) =>
    match passLoop ty fuel fuel ps0 with
    | .fuel => .fuel
    | .panic => .panic
    | .ok ps1 =>
      match finalize ps1 with
      | some rs => .ok rs
      | none => .finalizeError

/-! ## size (fuel for the driver) -/

mutual
def Factor.size : Factor → Nat
  | .t _ => 1
  | .n _ _ => 1
  | .group as => 1 + altsSize as
  | .opt as => 1 + altsSize as
  | .rep as => 1 + altsSize as
def altsSize : List (List Factor) → Nat
  | [] => 0
  | a :: as => 1 + altSize a + altsSize as
def altSize : List Factor → Nat
  | [] => 0
  | f :: fs => f.size + altSize fs
end

def grammarSize (ps : List EProd) : Nat :=
  ps.foldl (fun acc p => acc + 1 + altsSize (p.alts.map (·.fs))) 0

/-! ## what the front end refuses before canonicalisation (needed by the tie only) -/

/-- `Alternations::is_empty` -/
def isEmptyAlts : List (List Factor) → Bool
  | [] => true
  | [[]] => true
  | _ => false

mutual
/-- `EmptyGroup` / `EmptyOptional` / `EmptyRepetition` somewhere in the factor -/
def Factor.hasEmptyBracket : Factor → Bool
  | .t _ => false
  | .n _ _ => false
  | .group as => altsEmptyBracket as || isEmptyAlts as
  | .opt as => altsEmptyBracket as || isEmptyAlts as
  | .rep as => altsEmptyBracket as || isEmptyAlts as
def altsEmptyBracket : List (List Factor) → Bool
  | [] => false
  | a :: as => altEmptyBracket a || altsEmptyBracket as
def altEmptyBracket : List Factor → Bool
  | [] => false
  | f :: fs => f.hasEmptyBracket || altEmptyBracket fs
end

/-- `handle_token_alias`: productions that are the only one of their non-terminal and consist of a
    single terminal define token aliases; two aliases of the same terminal are refused. -/
def tokenAliases (ps : List EProd) : List Nat :=
  ps.filterMap fun p =>
    if (ps.filter (fun q => q.lhs == p.lhs)).length == 1 then
      match p.alts with
      | [⟨[.t a], _⟩] => some a
      | _ => none
    else none

def hasDup : List Nat → Bool
  | [] => false
  | a :: as => as.contains a || hasDup as

def frontEndRejects (ps : List EProd) : Bool :=
  ps.isEmpty || ps.any (fun p => altsEmptyBracket (p.alts.map (·.fs))) || hasDup (tokenAliases ps)

end ParolModel
