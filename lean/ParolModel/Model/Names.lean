import ParolModel.Model.Proto
/-! # L13 — name generation (C33)

Executable models, over `List Char`, of

* `parol::utils::generate_name` (crates/parol/src/utils/mod.rs, with `RX_NUM_SUFFIX = [0-9]+$`),
* the private `generate_name` inside `generate_terminal_name`, `primary_non_terminal` and
  `generate_terminal_name` itself (crates/parol/src/generators/terminal_name_generator.rs),
* `lexer_generator::generate_terminal_names` and `GrammarConfig::generate_terminal_names`
  (folds with the accumulated list as exclusions),
* `NamingHelper::{is_rust_keyword, is_raw_identifier, escape_rust_keyword, add_unused_indicator,
  to_lower_snake_case, to_upper_camel_case, is_valid_name_character, purge_name}`
  (crates/parol/src/generators/naming_helper.rs).

**Character scope.** Rust's `char::is_alphanumeric`, `is_numeric`, `to_uppercase`, `to_lowercase`
consult Unicode tables which core Lean does not have. The model uses Lean's ASCII predicates
(`Char.isAlphanum`, `Char.isDigit`, `Char.toUpper`, `Char.toLower`); it is therefore exact on every
character `c` with `c < 128` and on `'§'` (U+00A7, not alphanumeric, no case mapping — the only
non-ASCII character the code itself mentions). The protocol handlers answer `out-of-scope` for any
other character instead of guessing. The `is_ascii_*` predicates of the code are ASCII by
definition and are mirrored exactly.

**usize.** `parse::<usize>()` is modelled for a 64-bit target (`unwrap_or(1)` when the digit string
denotes a number `≥ 2^64`). The counter `num += 1` is an unbounded `Nat` here (the code would
overflow after `2^64` steps or when the suffix is `18446744073709551615`; the tie never goes there).

Import-free (core Lean only) so that the driver links natively. -/
namespace ParolModel
namespace Names

abbrev Str := List Char

/-! ## `utils::generate_name` -/

/-- `RX_NUM_SUFFIX.find(name)` for `[0-9]+$`: the leftmost match is the maximal trailing run of ASCII
digits. Returns `(name[0..match.start()], match.as_str())`; the second component is `[]` iff the
regex does not match. -/
def splitNumSuffix (s : Str) : Str × Str :=
  let r := s.reverse
  ((r.dropWhile Char.isDigit).reverse, (r.takeWhile Char.isDigit).reverse)

/-- `digits.parse::<usize>().unwrap_or(1)` on a non-empty ASCII digit string, 64-bit `usize`. -/
def parseUsizeOr1 (digits : Str) : Nat :=
  let n := Nat.ofDigitChars 10 digits 0
  if n < 2 ^ 64 then n else 1

/-- The inner `gen_name` loop: `format!("{prefix}{num}")` until the name is not excluded.
`none` = fuel exhausted (never happens with fuel `> excl.length`, see `genNameLoop_isSome`). -/
def genNameLoop (excl : List Str) (pre : Str) : Nat → Nat → Option Str
  | 0, _ => none
  | fuel + 1, num =>
    let n := pre ++ Nat.toDigits 10 num
    if excl.contains n then genNameLoop excl pre fuel (num + 1) else some n

def generateNameFuel (fuel : Nat) (excl : List Str) (pref : Str) : Option Str :=
  if excl.contains pref then
    let (pre, digits) := splitNumSuffix pref
    let start := if digits.isEmpty then 0 else parseUsizeOr1 digits
    genNameLoop excl pre fuel start
  else some pref

/-- `generate_name(exclusions, preferred_name)`. Fuel `|exclusions| + 1` always suffices
(`generateName_isSome`). -/
def generateName (excl : List Str) (pref : Str) : Option Str :=
  generateNameFuel (excl.length + 1) excl pref

/-- `prefs.fold(init, |acc, p| { acc.push(generate_name(acc.iter(), p)); acc })`. -/
def foldNames : List Str → List Str → Option (List Str)
  | acc, [] => some acc
  | acc, p :: ps =>
    match generateName acc p with
    | none => none
    | some n => foldNames (acc ++ [n]) ps

/-! ## `generate_terminal_name` -/

/-- The `match c { … }` table for non-alphanumeric characters. -/
def specialName (c : Char) : Str :=
  if c = '\\' then [] else
  if c = '|' then "Or".toList else
  if c = '(' then "LParen".toList else
  if c = ')' then "RParen".toList else
  if c = '[' then "LBracket".toList else
  if c = ']' then "RBracket".toList else
  if c = '{' then "LBrace".toList else
  if c = '}' then "RBrace".toList else
  if c = '+' then "Plus".toList else
  if c = '-' then "Minus".toList else
  if c = '*' then "Star".toList else
  if c = '/' then "Slash".toList else
  if c = '=' then "Equ".toList else
  if c = '!' then "Bang".toList else
  if c = '.' then "Dot".toList else
  if c = '~' then "Tilde".toList else
  if c = '$' then "Dollar".toList else
  if c = '%' then "Percent".toList else
  if c = '<' then "LT".toList else
  if c = '>' then "GT".toList else
  if c = '?' then "Quest".toList else
  if c = '@' then "At".toList else
  if c = ':' then "Colon".toList else
  if c = ';' then "Semicolon".toList else
  if c = '^' then "Circumflex".toList else
  if c = '_' then "Underscore".toList else
  if c = '&' then "Amp".toList else
  if c = '§' then "Para".toList else
  if c = '\'' then "Tick".toList else
  if c = '"' then "Quote".toList else
  if c = '`' then "Backtick".toList else
  if c = ',' then "Comma".toList else
  if c = '#' then "Hash".toList else
  ['_']

/-- The `chars().fold((true, String::new()), …)` of the inner `generate_name`; first argument = `cap`. -/
def termFold : Bool → Str → Str
  | _, [] => []
  | cap, c :: cs =>
    if c.isAlphanum then (if cap then c.toUpper else c) :: termFold false cs
    else specialName c ++ termFold true cs

def startsWithDigit : Str → Bool
  | [] => false
  | c :: _ => c.isDigit

/-- The private `generate_name(s)` inside `generate_terminal_name`. -/
def genTermName (s : Str) : Str :=
  let name := termFold true s
  if name.isEmpty && !s.isEmpty then "Esc".toList
  else if startsWithDigit name then '_' :: name
  else name

/-- Summary of one production as far as `primary_non_terminal` looks at it: the left-hand side and,
iff the right-hand side is exactly one `Terminal::Trm`, its expanded text and lookahead key. -/
structure ProdSum where
  lhs : Str
  single : Option (Str × Option Str)
  deriving Repr, DecidableEq

/-- `primary_non_terminal(cfg, terminal, l)`: the left-hand side of the first production `A: t;`
whose terminal expands to `terminal`, has the same lookahead, and where `A` has exactly one
production. -/
def primaryNonTerminal (prods : List ProdSum) (text : Str) (la : Option Str) : Option Str :=
  (prods.find? (fun r =>
    match r.single with
    | some (t, l0) => t == text && (prods.filter (fun q => q.lhs == r.lhs)).length == 1 && la == l0
    | none => false)).map (·.lhs)

/-! ## `NamingHelper` -/

def keywords : List String := [
  "abstract", "as", "async", "await", "become", "box", "break", "const", "continue", "crate",
  "do", "dyn", "else", "enum", "extern", "false", "final", "fn", "for", "gen", "if", "impl",
  "in", "let", "loop", "macro", "match", "mod", "move", "mut", "override", "priv", "pub", "ref",
  "return", "Self", "self", "static", "struct", "super", "trait", "true", "try", "type",
  "typeof", "union", "unsafe", "unsized", "use", "virtual", "where", "while", "yield"]

def isRustKeyword (name : Str) : Bool := keywords.any (fun kw => kw.toList == name)

def isRawIdentifier : Str → Bool
  | 'r' :: '#' :: _ => true
  | _ => false

def escapeRustKeyword (name : Str) : Str :=
  if isRustKeyword name then 'r' :: '#' :: name else name

/-- `name.replace("r#", "_")` (all non-overlapping occurrences, left to right). -/
def replaceRawMarker : Str → Str
  | 'r' :: '#' :: cs => '_' :: replaceRawMarker cs
  | c :: cs => c :: replaceRawMarker cs
  | [] => []

def addUnusedIndicator (used : Bool) (name : Str) : Str :=
  if !used && !isRawIdentifier name then '_' :: name
  else if !used then replaceRawMarker name
  else name

def endsWithUnderscore (acc : Str) : Bool := acc.getLast? == some '_'

/-- The fold of `to_lower_snake_case`; `acc` is the string built so far, `last` is `last_char`. -/
def snakeFold : Str → Char → Str → Str
  | acc, _, [] => acc
  | acc, last, c :: cs =>
    let acc' :=
      if acc.isEmpty then acc ++ [c.toLower]
      else if c = '_' then (if !endsWithUnderscore acc then acc ++ ['_'] else acc)
      else if c.isDigit && last.isAlpha then acc ++ [c.toLower]
      else if c.isUpper then (if !endsWithUnderscore acc then acc ++ ['_'] else acc) ++ [c.toLower]
      else acc ++ [c]
    snakeFold acc' c cs

def toLowerSnakeCase (name : Str) : Str :=
  let result := snakeFold [] '.' name
  let result := if startsWithDigit result then '_' :: result else result
  escapeRustKeyword result

/-- The fold of `to_upper_camel_case` (state `up`, `last_char`), producing the appended characters. -/
def camelFold : Bool → Char → Str → Str
  | _, _, [] => []
  | up, last, c :: cs =>
    if c = '_' then camelFold true last cs
    else if up then
      let u := c.toUpper
      (if last.isDigit && c.isDigit then ['_', u] else [u]) ++ camelFold false u cs
    else c :: camelFold false c cs

/-- `name.chars().skip(if is_raw { 2 } else { 0 })` -/
def camelBody (name : Str) : Str := if isRawIdentifier name then name.drop 2 else name

def toUpperCamelCase (name : Str) : Str :=
  let result := camelFold true '.' (camelBody name)
  if startsWithDigit result then '_' :: result else result

def isValidNameCharacter (c : Char) : Bool := c.isAlphanum || c = '_'

def purgeName (name : Str) : Str := name.map (fun c => if isValidNameCharacter c then c else '_')

/-! ## `generate_terminal_name`, `generate_terminal_names` -/

/-- `generate_terminal_name(terminal, i, l, cfg)` with `primary_non_terminal(cfg, terminal, l)`
passed in as `primary` (see `primaryNonTerminal`). `idx` is the optional fixed terminal index
(`EOI = 0`, `NEW_LINE = 1`, `WHITESPACE = 2`, `LINE_COMMENT = 3`, `BLOCK_COMMENT = 4`). -/
def terminalName (text : Str) (idx : Option Nat) (primary : Option Str) : Str :=
  if text = "ERROR_TOKEN".toList then "Error".toList
  else match idx with
    | some 0 => "EndOfInput".toList
    | some 1 => "Newline".toList
    | some 2 => "Whitespace".toList
    | some 3 => "LineComment".toList
    | some 4 => "BlockComment".toList
    | _ => match primary with
      | some nt => toUpperCamelCase nt
      | none => genTermName text

/-- One entry of `Cfg::get_ordered_terminals()`: the terminal text as written, its expansion
(`TerminalKind::expand`, not modelled — delivered by the harness from the real function) and the
lookahead key. -/
structure TermSum where
  raw : Str
  expanded : Str
  la : Option Str
  deriving Repr, DecidableEq

def unmatchable : Str := "UNMATCHABLE_TOKEN".toList

/-- The preferred names handed to the fold of `lexer_generator::generate_terminal_names`:
`generate_augmented_terminals()` = five `UNMATCHABLE_TOKEN`, the expanded user terminals, `ERROR_TOKEN`;
enumerated, so that indices 0..4 select the fixed names. -/
def lexerPreferred (prods : List ProdSum) (terms : List TermSum) : List Str :=
  let aug : List (Str × Option Str) :=
    List.replicate 5 (unmatchable, none) ++ terms.map (fun t => (t.expanded, t.la)) ++ [("ERROR_TOKEN".toList, none)]
  (List.range aug.length).zip aug |>.map (fun (i, (t, l)) =>
    terminalName t (some i) (primaryNonTerminal prods t l))

/-- `lexer_generator::generate_terminal_names(grammar_config)` — the `TERMINAL_NAMES` table. -/
def lexerTerminalNames (prods : List ProdSum) (terms : List TermSum) : Option (List Str) :=
  foldNames [] (lexerPreferred prods terms)

def nodeKindInit : List Str :=
  ["NewLine".toList, "Whitespace".toList, "LineComment".toList, "BlockComment".toList]

/-- Preferred names of `GrammarConfig::generate_terminal_names` (node-kind enum): the *unexpanded*
terminal text and the index `i + 5` are passed to `generate_terminal_name`. -/
def nodeKindPreferred (prods : List ProdSum) (terms : List TermSum) : List Str :=
  (List.range terms.length).zip terms |>.map (fun (i, t) =>
    terminalName t.raw (some (i + 5)) (primaryNonTerminal prods t.raw t.la))

/-- `GrammarConfig::generate_terminal_names()` without the numbering (`(i + 1, name)`). -/
def nodeKindTerminalNames (prods : List ProdSum) (terms : List TermSum) : Option (List Str) :=
  foldNames nodeKindInit (nodeKindPreferred prods terms)

/-! ## Identifier validity (specification side, used by the oracle `names-check`) -/

def isIdentStart (c : Char) : Bool := c.isAlpha || c = '_'
def isIdentCont (c : Char) : Bool := c.isAlphanum || c = '_'

/-- `[A-Za-z_][A-Za-z0-9_]*` -/
def validIdent : Str → Bool
  | [] => false
  | c :: cs => isIdentStart c && cs.all isIdentCont

/-- Strict and reserved keywords of Rust (edition 2024), written down independently of parol's
`KEYWORDS` table (which additionally contains the weak keyword `union`). -/
def rustReserved : List String := [
  "as", "break", "const", "continue", "crate", "else", "enum", "extern", "false", "fn", "for", "if",
  "impl", "in", "let", "loop", "match", "mod", "move", "mut", "pub", "ref", "return", "self", "Self",
  "static", "struct", "super", "trait", "true", "type", "unsafe", "use", "where", "while",
  "async", "await", "dyn",
  "abstract", "become", "box", "do", "final", "macro", "override", "priv", "typeof", "unsized",
  "virtual", "yield", "try", "gen"]

/-- Keywords that cannot be used even as raw identifiers (`r#crate` … are lexer errors). -/
def notRawable : List String := ["crate", "self", "super", "Self", "_"]

/-- What rustc's lexer/parser accepts as an identifier in a definition position, restricted to
ASCII: a plain identifier that is neither `_` nor a reserved word, or `r#` + an identifier other
than `crate`, `self`, `super`, `Self`, `_`. -/
def validRustIdent (s : Str) : Bool :=
  match s with
  | 'r' :: '#' :: t => validIdent t && !(notRawable.any (fun k => k.toList == t))
  | _ => validIdent s && s != ['_'] && !(rustReserved.any (fun k => k.toList == s))

/-- First element that occurs twice. -/
def firstDup : List Str → Option Str
  | [] => none
  | x :: xs => if xs.contains x then some x else firstDup xs

/-- Is the relation given by `pairs` a function (`a` determines `b`)? Returns a witness `a`. -/
def notFunctional : List (Str × Str) → Option Str
  | [] => none
  | (a, b) :: ps => if ps.any (fun q => q.1 == a && q.2 != b) then some a else notFunctional ps

def swapPairs (ps : List (Str × Str)) : List (Str × Str) := ps.map (fun p => (p.2, p.1))

/-! ## Wire format

A string is one word: characters `[A-Za-z0-9_]` stand for themselves, every other character is
`%HH` (code point `< 256`, two upper-case hex digits) or `%{H…}` (larger code points); the empty
string is `%.`. A list of strings is comma-separated, the empty list is `-`. -/

def hexVal (c : Char) : Option Nat :=
  if c.isDigit then some (c.toNat - '0'.toNat)
  else if 'A'.toNat ≤ c.toNat ∧ c.toNat ≤ 'F'.toNat then some (c.toNat - 'A'.toNat + 10)
  else if 'a'.toNat ≤ c.toNat ∧ c.toNat ≤ 'f'.toNat then some (c.toNat - 'a'.toNat + 10)
  else none

def hexNum (cs : Str) : Option Nat :=
  if cs.isEmpty then none else cs.foldlM (fun acc c => (hexVal c).map (fun v => acc * 16 + v)) 0

def decodeAux : Nat → Str → Option Str
  | 0, _ => none
  | _, [] => some []
  | fuel + 1, '%' :: '{' :: rest =>
    let h := rest.takeWhile (· != '}')
    match rest.dropWhile (· != '}') with
    | '}' :: rest' => do
      let n ← hexNum h
      let tl ← decodeAux fuel rest'
      some (Char.ofNat n :: tl)
    | _ => none
  | fuel + 1, '%' :: a :: b :: rest => do
    let n ← hexNum [a, b]
    let tl ← decodeAux fuel rest
    some (Char.ofNat n :: tl)
  | _, '%' :: _ => none
  | fuel + 1, c :: rest =>
    if c.isAlphanum || c = '_' then (decodeAux fuel rest).map (c :: ·) else none

def decodeStr (w : String) : Option Str :=
  if w == "%." then some [] else
  let cs := w.toList
  if cs.isEmpty then none else decodeAux (cs.length + 1) cs

def hexDigit (n : Nat) : Char := Nat.digitChar n |>.toUpper

def hexDigits (n : Nat) : Str := (Nat.toDigits 16 n).map Char.toUpper

def encodeChar (c : Char) : Str :=
  if c.isAlphanum || c = '_' then [c]
  else if c.toNat < 256 then ['%', hexDigit (c.toNat / 16), hexDigit (c.toNat % 16)]
  else ['%', '{'] ++ hexDigits c.toNat ++ ['}']

def encodeStr (s : Str) : String :=
  if s.isEmpty then "%." else String.ofList (s.flatMap encodeChar)

def decodeList (w : String) : Option (List Str) :=
  if w == "-" then some [] else (w.splitOn ",").mapM decodeStr

def encodeList (l : List Str) : String :=
  if l.isEmpty then "-" else ",".intercalate (l.map encodeStr)

/-- Characters on which the model is exact (see the module comment). -/
def inScopeChar (c : Char) : Bool := c.toNat < 128 || c = '§'
def inScope (s : Str) : Bool := s.all inScopeChar

/-- optional string: `~` = none -/
def decodeOpt (w : String) : Option (Option Str) :=
  if w == "~" then some none else (decodeStr w).map some

/-- `lhs` or `lhs=expanded=la` (single-terminal right-hand side); items separated by `;`, empty `-`. -/
def decodeProdSum (w : String) : Option ProdSum :=
  match w.splitOn "=" with
  | [l] => do some ⟨← decodeStr l, none⟩
  | [l, t, la] => do some ⟨← decodeStr l, some (← decodeStr t, ← decodeOpt la)⟩
  | _ => none

def decodeProds (w : String) : Option (List ProdSum) :=
  if w == "-" then some [] else (w.splitOn ";").mapM decodeProdSum

/-- `raw=expanded=la` -/
def decodeTermSum (w : String) : Option TermSum :=
  match w.splitOn "=" with
  | [r, e, la] => do some ⟨← decodeStr r, ← decodeStr e, ← decodeOpt la⟩
  | _ => none

def decodeTerms (w : String) : Option (List TermSum) :=
  if w == "-" then some [] else (w.splitOn ";").mapM decodeTermSum

def decodePairs (w : String) : Option (List (Str × Str)) :=
  if w == "-" then some [] else
  (w.splitOn ",").mapM (fun p => match p.splitOn "=" with
    | [a, b] => do some (← decodeStr a, ← decodeStr b)
    | _ => none)

end Names

open Names

/-- Applies a `Str → Str` model function to one encoded word, refusing out-of-scope characters. -/
def names1 (f : Str → Str) : List String → Option String
  | [w] => do
    let s ← decodeStr w
    if !inScope s then some "out-of-scope" else some (encodeStr (f s))
  | _ => none

-- @handler camel handleCamel
/-- `camel <s>` → `NamingHelper::to_upper_camel_case(s)` -/
def handleCamel : List String → Option String := names1 toUpperCamelCase

-- @handler snake handleSnake
/-- `snake <s>` → `NamingHelper::to_lower_snake_case(s)` -/
def handleSnake : List String → Option String := names1 toLowerSnakeCase

-- @handler esckw handleEscKw
/-- `esckw <s>` → `NamingHelper::escape_rust_keyword(s)` -/
def handleEscKw : List String → Option String := names1 escapeRustKeyword

-- @handler purge handlePurge
/-- `purge <s>` → `NamingHelper::purge_name(s)` -/
def handlePurge : List String → Option String := names1 purgeName

-- @handler unused handleUnused
/-- `unused <0|1> <s>` → `NamingHelper::add_unused_indicator(used, s)` -/
def handleUnused : List String → Option String
  | [u, w] => do
    let u ← Proto.parseBool u
    names1 (addUnusedIndicator u) [w]
  | _ => none

-- @handler tname handleTName
/-- `tname <s>` → `generate_terminal_name(s, None, None, &Cfg::default())`, i.e. the private inner
`generate_name(s)` (or `Error` for `ERROR_TOKEN`). -/
def handleTName : List String → Option String := names1 (fun s => terminalName s none none)

-- @handler gname33 handleGName33
/-- `gname33 <names> <i>` → `generate_name(names, names[i])` as reached through the public
`augment_grammar` (non-terminal set `names`, start symbol `names[i]`). -/
def handleGName33 : List String → Option String
  | [ns, i] => do
    let ns ← decodeList ns
    let i ← i.toNat?
    let p ← ns[i]?
    if !(ns.all inScope) then some "out-of-scope" else
    match generateName ns p with
    | none => some "fuel-exhausted"
    | some r => some (encodeStr r)
  | _ => none

-- @handler tnames handleTNames
/-- `tnames <cfg> <prods> <terms>` → `<lexer names> <node-kind names>`; `<cfg>` (the grammar the
harness builds the real `GrammarConfig` from) is not interpreted here. -/
def handleTNames : List String → Option String
  | [_, ps, ts] => do
    let ps ← decodeProds ps
    let ts ← decodeTerms ts
    let ok := ps.all (fun p => inScope p.lhs && (match p.single with
        | some (t, l) => inScope t && (l.map inScope).getD true | none => true))
      && ts.all (fun t => inScope t.raw && inScope t.expanded && (t.la.map inScope).getD true)
    if !ok then some "out-of-scope" else
    match lexerTerminalNames ps ts, nodeKindTerminalNames ps ts with
    | some a, some b => some s!"{encodeList a} {encodeList b}"
    | _, _ => some "fuel-exhausted"
  | _ => none

-- @handler names-check handleNamesCheck
/-- Property oracle for one scope of generated names. `names-check <mode> <names>`:
mode `id` — every name is a valid Rust identifier (`validRustIdent`) and the names are pairwise
distinct; mode `nm` — every name matches `[A-Za-z_][A-Za-z0-9_]*` and the names are pairwise
distinct (terminal names: they are string table entries); mode `uniq` — pairwise distinct only. -/
def handleNamesCheck : List String → Option String
  | [mode, ns] => do
    let ns ← decodeList ns
    let valid : Option (Str → Bool) :=
      if mode == "id" then some validRustIdent
      else if mode == "nm" then some validIdent
      else if mode == "uniq" then some (fun _ => true)
      else none
    let valid ← valid
    match ns.find? (fun n => !valid n) with
    | some n => some s!"fail invalid:{encodeStr n}"
    | none =>
      match firstDup ns with
      | some n => some s!"fail dup:{encodeStr n}"
      | none => some "ok"
  | _ => none

-- @handler fresh-check handleFreshCheck
/-- Oracle for `generate_name`: `fresh-check <exclusions> <result>` → `ok` iff the result is not among
the exclusions. -/
def handleFreshCheck : List String → Option String
  | [ns, r] => do
    let ns ← decodeList ns
    let r ← decodeStr r
    if ns.contains r then some s!"fail excluded:{encodeStr r}" else some "ok"
  | _ => none

-- @handler pairs-check handlePairsCheck
/-- Referential consistency oracle: `pairs-check <a=b,a=b,…>` → `ok` iff the relation is functional
and injective (every `a` is used with one `b` and no `b` serves two different `a`). -/
def handlePairsCheck : List String → Option String
  | [ps] => do
    let ps ← decodePairs ps
    match notFunctional ps with
    | some a => some s!"fail not-functional:{encodeStr a}"
    | none =>
      match notFunctional (swapPairs ps) with
      | some b => some s!"fail not-injective:{encodeStr b}"
      | none => some "ok"
  | _ => none

end ParolModel
