import ParolModel.Model.Regex
/-! Equivalence checking of a regex against an explicit automaton (or of two regexes) by
derivative bisimulation over a finite representative alphabet (C15, C16).

Two automata are compared: each is an `Aut σ` (step, acceptance, and for every state the list of
"cut points" of the character comparisons its step function performs). Characters on the same
side of every cut point cannot be told apart by the step function (`Aut.Respects`; for regexes
this is `class_abstraction_sound`), so exploring one representative per interval between
consecutive cut points covers all code points.

`bisimExplore` is an unverified worklist search; its result is a candidate bisimulation that the small
function `bisimClosed` re-checks. Soundness (`re_equiv_sound`, in `Proofs/RegexDfa.lean`) is about
`bisimClosed` only. On failure `bisimExplore` returns a shortest distinguishing string. -/
namespace ParolModel

structure Aut (σ : Type) where
  step : σ → Nat → σ
  acc : σ → Bool
  cuts : σ → List Nat

namespace Aut
variable {σ : Type}
def run (A : Aut σ) (q : σ) (w : List Nat) : σ := w.foldl A.step q
def accepts (A : Aut σ) (q : σ) (w : List Nat) : Bool := A.acc (A.run q w)
end Aut

/-- `x` and `y` lie on the same side of every cut point. -/
def SameSide (cuts : List Nat) (x y : Nat) : Prop := ∀ c ∈ cuts, (c ≤ x ↔ c ≤ y)

def Aut.Respects {σ : Type} (A : Aut σ) : Prop :=
  ∀ q x y, SameSide (A.cuts q) x y → A.step q x = A.step q y

def cutsOfCls (c : Cls) : List Nat := c.ranges.flatMap fun r => [r.1, r.2 + 1]

def cutsOf : Re → List Nat
  | .empty => []
  | .eps => []
  | .cls c => cutsOfCls c
  | .cat a b => cutsOf a ++ cutsOf b
  | .alt a b => cutsOf a ++ cutsOf b
  | .star a => cutsOf a

/-- Regexes as an automaton: states are regexes, steps are derivatives. -/
def reAut : Aut Re := ⟨deriv, nullable, cutsOf⟩

/-- The greatest cut point `≤ x` (0 if there is none): the representative of `x`. -/
def cutRep : List Nat → Nat → Nat
  | [], _ => 0
  | c :: cs, x => if c ≤ x ∧ cutRep cs x ≤ c then c else cutRep cs x

inductive BisimVerdict (σ τ : Type) where
  | equiv (seen : List (σ × τ))
  | differ (w : List Nat)
  | fuel

/-- Breadth-first exploration of the product automaton over the alphabet `alpha`. -/
def bisimExplore {σ τ : Type} [DecidableEq σ] [DecidableEq τ] (rel : Bool → Bool → Bool) (A : Aut σ) (B : Aut τ)
    (alpha : List Nat) : Nat → List ((σ × τ) × List Nat) → List (σ × τ) → BisimVerdict σ τ
  | _, [], seen => .equiv seen
  | 0, _ :: _, _ => .fuel
  | f + 1, (pq, path) :: todo, seen =>
    if seen.contains pq then bisimExplore rel A B alpha f todo seen
    else if !rel (A.acc pq.1) (B.acc pq.2) then .differ path.reverse
    else
      bisimExplore rel A B alpha f
        (todo ++ alpha.map fun a => ((A.step pq.1 a, B.step pq.2 a), a :: path)) (pq :: seen)

/-- `seen` contains the start pair, satisfies `rel` on acceptance (`==` for equivalence, `→` for
    inclusion), is closed under steps on every letter of `alpha`, and `alpha` contains every cut
    point of every state in `seen`. -/
def bisimClosed {σ τ : Type} [DecidableEq σ] [DecidableEq τ] (rel : Bool → Bool → Bool) (A : Aut σ) (B : Aut τ)
    (alpha : List Nat) (p0 : σ) (q0 : τ) (seen : List (σ × τ)) : Bool :=
  alpha.contains 0 && seen.contains (p0, q0) &&
  seen.all fun pq =>
    rel (A.acc pq.1) (B.acc pq.2) &&
    (A.cuts pq.1).all (alpha.contains ·) &&
    (B.cuts pq.2).all (alpha.contains ·) &&
    alpha.all fun a => seen.contains (A.step pq.1 a, B.step pq.2 a)

def dedupNatR : List Nat → List Nat
  | [] => []
  | x :: xs => if xs.contains x then dedupNatR xs else x :: dedupNatR xs

def alphabetOf {σ τ : Type} (A : Aut σ) (B : Aut τ) (p0 : σ) (q0 : τ) : List Nat :=
  dedupNatR (0 :: (A.cuts p0 ++ B.cuts q0))

/-- The verified checker: `true` only if the two start states accept the same strings. -/
def autRel {σ τ : Type} [DecidableEq σ] [DecidableEq τ] (rel : Bool → Bool → Bool) (A : Aut σ) (B : Aut τ)
    (p0 : σ) (q0 : τ) (fuel : Nat := 4000) : Bool :=
  let alpha := alphabetOf A B p0 q0
  match bisimExplore rel A B alpha fuel [((p0, q0), [])] [] with
  | .equiv seen => bisimClosed rel A B alpha p0 q0 seen
  | _ => false

def relEq (a b : Bool) : Bool := a == b
def relImp (a b : Bool) : Bool := !a || b

def autEquiv {σ τ : Type} [DecidableEq σ] [DecidableEq τ] (A : Aut σ) (B : Aut τ) (p0 : σ) (q0 : τ)
    (fuel : Nat := 4000) : Bool := autRel relEq A B p0 q0 fuel

/-- Language inclusion: every string accepted from `p0` is accepted from `q0`. -/
def autIncl {σ τ : Type} [DecidableEq σ] [DecidableEq τ] (A : Aut σ) (B : Aut τ) (p0 : σ) (q0 : τ)
    (fuel : Nat := 4000) : Bool := autRel relImp A B p0 q0 fuel

/-- The distinguishing string found by the search, if any. -/
def autWitness {σ τ : Type} [DecidableEq σ] [DecidableEq τ] (A : Aut σ) (B : Aut τ) (p0 : σ) (q0 : τ)
    (fuel : Nat := 4000) : Option (List Nat) :=
  match bisimExplore relEq A B (alphabetOf A B p0 q0) fuel [((p0, q0), [])] [] with
  | .differ w => some w
  | _ => none

/-- Two regexes accept the same strings. -/
def reEquiv (r s : Re) (fuel : Nat := 4000) : Bool := autEquiv reAut reAut r s fuel

/-- An explicit automaton over `Nat` states with a start state. -/
structure SpecDfa where
  aut : Aut Nat
  start : Nat

def SpecDfa.accepts (D : SpecDfa) (w : List Nat) : Bool := D.aut.accepts D.start w

def reEquivDfa (r : Re) (D : SpecDfa) (fuel : Nat := 4000) : Bool := autEquiv reAut D.aut r D.start fuel
def reDfaWitness (r : Re) (D : SpecDfa) (fuel : Nat := 4000) : Option (List Nat) :=
  autWitness reAut D.aut r D.start fuel

-- @handler re-equiv handleReEquiv
/-- `re-equiv <re1> <re2>` → `equiv` | `differ <string>` | `unknown`. -/
def handleReEquiv : List String → Option String
  | [a, b] => do
    let a ← Re.dec a
    let b ← Re.dec b
    if reEquiv a b then some "equiv"
    else match autWitness reAut reAut a b with
      | some w => some ("differ " ++ Proto.showNats w)
      | none => some "unknown"
  | _ => none

end ParolModel
