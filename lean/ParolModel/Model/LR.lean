import ParolModel.Model.LLProto
/-! Model of `parol_runtime::lr_parser::parser_types::LRParser::parse_into` (C03, C04, C14, C17, C20).

Input: the delivered token sequence (as for the LL model). The parse-tree stack holds, per entry,
whether it counts as a grammar symbol for `pop_n` (non-skip), the argument it contributes to a
semantic action and the pre-order tree events of its subtree (what `build_tree` emits for it). -/
namespace ParolModel

inductive LRAct
  | shift (s : Nat)
  | reduce (nt : Nat) (p : Nat)
  | accept
  deriving DecidableEq, Repr

structure LRRow where
  acts : List (Nat × LRAct)
  gotos : List (Nat × Nat)
  deriving Repr

structure LRProd where
  lhs : Nat
  len : Nat
  push : Bool
  deriving Repr

structure LRTables where
  start : Nat
  prods : List LRProd
  rows : List LRRow
  deriving Repr

structure LRItem where
  sig : Bool
  item : PTItem
  events : List TreeEv
  deriving Repr

structure LRSt where
  states : List Nat          -- top first; initially [0]
  input : List MTok
  pt : List LRItem           -- top first
  actions : List (Nat × List PTItem)   -- reversed
  comments : List Nat                  -- reversed
  deriving Repr

/-- `LR1State::action_index` / `goto_state`: first entry for the terminal / non-terminal. -/
def findAct (row : LRRow) (t : Nat) : Option LRAct := (row.acts.find? (·.1 == t)).map (·.2)
def findGoto (row : LRRow) (nt : Nat) : Option Nat := (row.gotos.find? (·.1 == nt)).map (·.2)

/-- `pop_n(n, non-skip)`: entries are taken from the top until `n` counting ones are included (or
    the stack is exhausted). Returns (popped entries top-first, rest). -/
def popN : List LRItem → Nat → List LRItem × List LRItem
  | l, 0 => ([], l)
  | [], _ + 1 => ([], [])
  | x :: l, n + 1 =>
    let (c, r) := popN l (if x.sig then n else n + 1)
    (x :: c, r)

/-- `handle_additional_tokens`: skipped tokens in front of the next significant token are pushed on
    the parse-tree stack (unless trimming); comments go to the callback. -/
def lrDrain (trim : Bool) : List MTok → List LRItem → List Nat → List MTok × List LRItem × List Nat
  | [], pt, cm => ([], pt, cm)
  | t :: rest, pt, cm =>
    if t.skip then
      lrDrain trim rest (if trim then pt else ⟨false, .tok t.id t.ty, [.tok t.id]⟩ :: pt)
        (if t.comment then t.id :: cm else cm)
    else (t :: rest, pt, cm)

/-- `call_action`: pop the children, push the new non-terminal node, report the action.
    `none` models the failing `debug_assert_eq!(n, arguments.len())` / index panic. -/
def callAction (T : LRTables) (trim : Bool) (s : LRSt) (p : Nat) : Option (LRSt × Nat) :=
  match T.prods[p]? with
  | none => none
  | some pr =>
    let (c, rest) := popN s.pt pr.len
    let children := c.reverse
    let args := (children.filter (·.sig)).map (·.item)
    if args.length ≠ pr.len then none else
    let ev : List TreeEv :=
      if trim then [.open_ (some pr.lhs), .close]
      else .open_ (some pr.lhs) :: (children.flatMap (·.events)) ++ [.close]
    some ({ s with pt := ⟨true, .nt pr.lhs, ev⟩ :: rest, actions := (p, args) :: s.actions }, pr.len)

structure LROut where
  res : Res
  actions : List (Nat × List PTItem)
  tree : List TreeEv
  comments : List Nat
  steps : Nat
  deriving Repr

def lrAbort (s : LRSt) (r : Res) (steps : Nat) : LROut :=
  ⟨r, s.actions.reverse, [], s.comments.reverse, steps⟩

/-- After `Accept`: (unless trimming) trailing skipped tokens are pushed and the whole parse-tree
    stack becomes the children of the artificial root. -/
def lrFinish (trim : Bool) (s : LRSt) (steps : Nat) : LROut :=
  if trim then ⟨.ok, s.actions.reverse, [], s.comments.reverse, steps⟩ else
  let (_, pt, cm) := lrDrain false s.input s.pt s.comments
  ⟨.ok, s.actions.reverse, .open_ none :: (pt.reverse.flatMap (·.events)) ++ [.close], cm.reverse, steps⟩

/-- `lookahead_token_type(0)`: type of the next significant token, EOI (0) at the end. -/
def nextTerm (inp : List MTok) : Nat :=
  match inp.head? with
  | some t => t.ty
  | none => 0

def depthExceeded (o : Opts) (s : LRSt) : Bool :=
  match o.maxDepth with
  | some m => decide (s.states.length > m)
  | none => false

def lrLoop (T : LRTables) (o : Opts) : Nat → LRSt → Nat → LROut
  | 0, s, steps => lrAbort s .fuel steps
  | fuel + 1, s, steps =>
    if depthExceeded o s then lrAbort s (.depth s.states.length) steps else
    let (inp, pt, cm) := lrDrain o.trim s.input s.pt s.comments
    let s := { s with input := inp, pt := pt, comments := cm }
    let term := nextTerm inp
    match s.states with
    | [] => lrAbort s .internal steps
    | cur :: _ =>
      match T.rows[cur]? with
      | none => lrAbort s .internal steps
      | some row =>
        match findAct row term with
        | none => lrAbort s (.syntax (inp.head?.map (·.id))) steps
        | some (.shift next) =>
          match inp with
          | [] => lrAbort s .internal steps      -- a shift on EOI (never in a valid table)
          | t :: rest =>
            lrLoop T o fuel
              { s with states := next :: s.states, input := rest,
                       pt := ⟨true, .tok t.id t.ty, [.tok t.id]⟩ :: s.pt } (steps + 1)
        | some (.reduce nt p) =>
          match callAction T o.trim s p with
          | none => lrAbort s .internal steps
          | some (s', n) =>
            if s'.states.length ≤ n then lrAbort s' .internal steps else
            let sts := s'.states.drop n
            match sts with
            | [] => lrAbort s' .internal steps
            | top :: _ =>
              match (T.rows[top]?).bind (fun r => findGoto r nt) with
              | none => lrAbort s' .internal steps
              | some g => lrLoop T o fuel { s' with states := g :: sts } (steps + 1)
        | some .accept =>
          match T.prods.findIdx? (·.lhs == T.start) with
          | none => lrAbort s .internal steps
          | some p =>
            match callAction T o.trim s p with
            | none => lrAbort s .internal steps
            | some (s', _) => lrFinish o.trim s' (steps + 1)

def lrRun (T : LRTables) (o : Opts) (fuel : Nat) (input : List MTok) : LROut :=
  lrLoop T o fuel ⟨[0], input, [], [], []⟩ 0

-- ---------------------------------------------------------------------------------------------
-- protocol

def parseLRProds (s : String) : Option (List LRProd) :=
  if s == "-" then some [] else
  (s.splitOn ";").mapM (fun x =>
    match x.splitOn ":" with
    | [l, n, p] => do
      let l ← l.toNat?; let n ← n.toNat?; let p ← Proto.parseBool p
      some ⟨l, n, p⟩
    | _ => none)

def parseLRAct (x : String) : Option (Nat × LRAct) :=
  match x.splitOn ":" with
  | [t, "S", s] => do let t ← t.toNat?; let s ← s.toNat?; some (t, .shift s)
  | [t, "R", n, p] => do let t ← t.toNat?; let n ← n.toNat?; let p ← p.toNat?; some (t, .reduce n p)
  | [t, "A"] => do let t ← t.toNat?; some (t, .accept)
  | _ => none

def parseLRRows (s : String) : Option (List LRRow) :=
  if s == "-" then some [] else
  (s.splitOn ";").mapM (fun x =>
    match x.splitOn "/" with
    | [a, g] => do
      let acts ← if a == "-" then some [] else (a.splitOn "+").mapM parseLRAct
      let gotos ← if g == "-" then some [] else (g.splitOn "+").mapM (fun y =>
        match y.splitOn ":" with
        | [n, st] => do let n ← n.toNat?; let st ← st.toNat?; some (n, st)
        | _ => none)
      some ⟨acts, gotos⟩
    | _ => none)

def showLROut (r : LROut) : String :=
  s!"{showLLRes r.res} {showActions r.actions} {showTree r.tree} {Proto.showNats r.comments}"

def lrFuel (T : LRTables) (toks : List MTok) : Nat :=
  (toks.length + 2) * (T.prods.length + T.rows.length + 2) * 16 + 1000

-- @handler lr handleLR
/-- `lr <start> <prods> <rows> <opts> <depth> <tokens> …` → `<res> <actions> <tree> <comments>`. -/
def handleLR : List String → Option String
  | st :: ps :: rs :: bits :: depth :: toks :: _ => do
    let st ← st.toNat?
    let ps ← parseLRProds ps
    let rs ← parseLRRows rs
    let o ← parseOpts bits depth
    let toks ← parseToks toks
    let T : LRTables := ⟨st, ps, rs⟩
    some (showLROut (lrRun T o (lrFuel T toks) toks))
  | _ => none

end ParolModel
