import ParolModel.Model.Proto
/-! # C26 — panic-site table of the MODELLED stages

`panicSites` lists every panic-capable construct (explicit `panic!`/`unreachable!`, `unwrap`,
`expect`, `assert`/`debug_assert`, indexing/slicing, and the arithmetic operators `-` `/` `%` `<<`
`>>` that can trap) outside `#[cfg(test)]` code in the sixteen source files the framework models,
grouped by (file, outermost enclosing function, kind) with its multiplicity. The list is compared
on every run with a fresh scan of `/repo` (`pv c26 sites`; protocol case `sites <file>`, answered by
`sitesHandler` from this table and by the harness from the sources): a panic site that appears,
disappears or moves to another function breaks the tie.

Each entry says how the site is discharged:

* `.theorem`    — by the named theorems (checked to exist, with their axioms, in `Props/C26.lean`):
                  either the model has an explicit branch for the panic and the theorem shows it is
                  not taken under the stage's precondition, or the theorem states the guard
                  condition of the site (e.g. "every non-terminal looked up is a member of the set
                  it is looked up in");
* `.localguard` — the failing case is excluded by a test a few lines above in the same function
                  (quoted in `reason`); discharged by inspection, no theorem;
* `.constant`   — can only fail if a compile-time constant were wrong; by inspection;
* `.offpath`    — only reachable from `Display`/`trace!`/profiling/diagnostic code or from functions
                  the generation pipeline never calls; NOT discharged, listed;
* `.open`       — NOT discharged, with the reason.

`chain` lists the stages in pipeline order with the theorem that makes the stage total under its
precondition and the theorem by which the previous stage's `Ok` establishes that precondition
(`none` = not proved; the reason names the assumption or the finding).

No line numbers are stored (they move with every edit); `pv c26 sites` prints them. -/
namespace ParolModel.Panic

inductive How | theorem | localguard | constant | offpath | open
  deriving DecidableEq, Repr

structure PanicSite where
  file : String
  func : String
  kind : String
  count : Nat
  stage : String
  how : How
  dischargedBy : List String
  reason : String

def panicSites : List PanicSite := [
  ⟨"analysis/compiled_la_dfa.rs", "AdjacencyList::as_compiled_dfa", "unwrap", 2, "lookahead-automata", .open, [],
    "the model (`minimizeC`) has a `none` branch for this site; that it is never taken is NOT proved (C07: `minimize_preserves_run` assumes `minimizeC c ch = some c'`); observed on every case of C07's differential tie"⟩,
  ⟨"analysis/compiled_la_dfa.rs", "AdjacencyList::combine_equivalent_states", "unwrap", 1, "lookahead-automata", .open, [],
    "the model (`minimizeC`) has a `none` branch for this site; that it is never taken is NOT proved (C07: `minimize_preserves_run` assumes `minimizeC c ch = some c'`); observed on every case of C07's differential tie"⟩,
  ⟨"analysis/compiled_la_dfa.rs", "AdjacencyList::combine_two_states", "debug_assert", 3, "lookahead-automata", .open, [],
    "the model (`minimizeC`) has a `none` branch for this site; that it is never taken is NOT proved (C07: `minimize_preserves_run` assumes `minimizeC c ch = some c'`); observed on every case of C07's differential tie"⟩,
  ⟨"analysis/compiled_la_dfa.rs", "AdjacencyList::len", "debug_assert", 1, "lookahead-automata", .open, [],
    "the model (`minimizeC`) has a `none` branch for this site; that it is never taken is NOT proved (C07: `minimize_preserves_run` assumes `minimizeC c ch = some c'`); observed on every case of C07's differential tie"⟩,
  ⟨"analysis/compiled_la_dfa.rs", "AdjacencyList::renumber_states", "panic!", 1, "lookahead-automata", .open, [],
    "the model (`minimizeC`) has a `none` branch for this site; that it is never taken is NOT proved (C07: `minimize_preserves_run` assumes `minimizeC c ch = some c'`); observed on every case of C07's differential tie"⟩,
  ⟨"analysis/compiled_terminal.rs", "CompiledTerminal::create", "panic!", 1, "first/follow", .open, [],
    "`Unexpected symbol type`: called on the symbols of terminal runs only (`compile_production_equation` groups `Symbol::T`); inspected, no theorem"⟩,
  ⟨"analysis/compiled_terminal.rs", "top-level", "arithmetic", 1, "terminals", .constant, [],
    "`TerminalIndex::MAX - 1` in a `const`"⟩,
  ⟨"analysis/first.rs", "compile_production_equation", "index", 1, "first/follow", .localguard, [],
    "`symbol_string.0[0]`: every `SymbolString` pushed into `parts` is created with one element"⟩,
  ⟨"analysis/first.rs", "compile_production_equation", "unreachable!", 2, "first/follow", .open, [],
    "`Symbol::S/Push/Pop` on a right-hand side (front-end invariant, see left_recursion.rs)"⟩,
  ⟨"analysis/first.rs", "compile_production_equation", "unwrap", 1, "first/follow", .theorem, ["ParolModel.Tm.abs_ktuple_build"],
    "`DomainTypeBuilder….terminal_indices(..).build().unwrap()` with k and max_terminal_index set"⟩,
  ⟨"analysis/first.rs", "first_k", "arithmetic", 1, "first/follow", .localguard, [],
    "`k - 1` in the `else` branch of `if k == 0`"⟩,
  ⟨"analysis/first.rs", "first_k", "debug_assert", 3, "first/follow", .theorem, ["ParolModel.KS.keys_stepFirst"],
    "the same bounds as the indexing next to them, and `non_terminals.len() == nt_count` of the cached k-1 result"⟩,
  ⟨"analysis/first.rs", "first_k", "index", 4, "first/follow", .theorem, ["ParolModel.KS.keys_stepFirst", "ParolModel.KS.mem_ntsOf"],
    "`acc[pi]` (production numbers of `matching_productions`), `result_vector[pr_count..]`, `result_nt[*nt_index]`, `new_non_terminals[*nt_index]`: the vector has one slot per production plus one per member of the non-terminal set (`keys_stepFirst`: the non-terminal part of every iterate is keyed by `ntsOf G`) and nt indices are positions in that set"⟩,
  ⟨"analysis/first.rs", "first_k", "unwrap", 4, "first/follow", .theorem, ["ParolModel.Tm.abs_ktuple_build", "ParolModel.Panic.stage_total_terminals"],
    "`DomainTypeBuilder…build()/eps().unwrap()`: `Err` only when `k`/`max_terminal_index` were not set (they are, two lines above); inside, `Terminals::new(max_terminal_index)` — see `Terminals::new`"⟩,
  ⟨"analysis/follow.rs", "follow_k", "arithmetic", 1, "first/follow", .localguard, [],
    "`k - 1` in the `else` branch of `if k == 0`"⟩,
  ⟨"analysis/follow.rs", "follow_k", "debug_assert", 3, "first/follow", .theorem, ["ParolModel.KS.target_mem_ntsOf"],
    "the same bounds as the indexing next to them"⟩,
  ⟨"analysis/follow.rs", "follow_k", "index", 3, "first/follow", .theorem, ["ParolModel.KS.target_mem_ntsOf", "ParolModel.KS.mem_ntsOf"],
    "`non_terminals[nt_index]` with indices of equation sources/targets, which are members of the non-terminal set (`target_mem_ntsOf`)"⟩,
  ⟨"analysis/follow.rs", "follow_k", "unwrap", 5, "first/follow", .theorem, ["ParolModel.Tm.abs_ktuple_build", "ParolModel.Panic.stage_total_terminals"],
    "four builder results as in `first_k`; `Rc::try_unwrap(non_terminal_results).unwrap()` after the step function (the only other owner of the `Rc`) has been dropped is NOT covered by a theorem (ownership, inspected)"⟩,
  ⟨"analysis/follow.rs", "output_profiling_data", "arithmetic", 1, "first/follow", .offpath, [],
    "`f64` division in profiling output (no panic on floats; compiled only for the profiling feature's report)"⟩,
  ⟨"analysis/follow.rs", "update_production_equations", "index", 2, "first/follow", .localguard, [],
    "`symbol_string.0[0]` of one-element-or-longer strings"⟩,
  ⟨"analysis/follow.rs", "update_production_equations", "unreachable!", 2, "first/follow", .open, [],
    "`Symbol::S/Push/Pop` on a right-hand side (front-end invariant)"⟩,
  ⟨"analysis/follow.rs", "update_production_equations", "unwrap", 1, "first/follow", .theorem, ["ParolModel.Tm.abs_ktuple_build"],
    "builder result with k and max_terminal_index set"⟩,
  ⟨"analysis/k_decision.rs", "FirstCache::get", "index", 3, "decision", .open, [],
    "`self.0[k]` on an array of MAX_K + 1 entries: panics for k > 10. `Builder::max_lookahead` rejects k > MAX_K, the public function `calculate_lookahead_dfas(cfg, max_k)` does not (finding F37). No theorem: the model's caches are association lists"⟩,
  ⟨"analysis/k_decision.rs", "FollowCache::get", "index", 3, "decision", .open, [],
    "as `FirstCache::get`"⟩,
  ⟨"analysis/k_decision.rs", "calculate_lookahead_dfas", "index", 1, "decision", .open, [],
    "`cfg[*i]` with production numbers produced by `calculate_k_tuples` from the same grammar; not stated as a theorem"⟩,
  ⟨"analysis/k_decision.rs", "calculate_tuples_for_non_terminal", "index", 1, "decision", .theorem, ["ParolModel.KS.keys_stepFirst"],
    "`productions[*pi]` of a FIRST_k result (one slot per production) with `pi` from `matching_productions`"⟩,
  ⟨"analysis/k_decision.rs", "decidable", "index", 1, "decision", .theorem, ["ParolModel.KS.keys_stepFirst"],
    "as above"⟩,
  ⟨"analysis/k_decision.rs", "explain_conflicts", "index", 1, "decision", .theorem, ["ParolModel.KS.keys_stepFirst"],
    "as above (error reporting path)"⟩,
  ⟨"analysis/k_tuple.rs", "KTuple::extend", "arithmetic", 2, "terminals", .offpath, [],
    "`self.k - self.len()` underflows for the ε-tuple with k = 0 (`ParolModel.Tm.ktuple_extend_eps_k0_panics`, a proved panic); `Extend for KTuple` has no caller on the generation path (tests and terminals_trie.rs only)"⟩,
  ⟨"analysis/k_tuple.rs", "KTuple::to_string", "index", 1, "terminals", .offpath, [],
    "`terminals[t as usize]`: diagnostic rendering with the terminal-name table of the same grammar (error messages of `explain_conflicts`)"⟩,
  ⟨"analysis/k_tuple.rs", "KTupleBuilder::build", "unwrap", 1, "terminals", .localguard, [],
    "`self.k.unwrap()` after `if self.k.is_none() { return Err }`"⟩,
  ⟨"analysis/k_tuple.rs", "KTupleBuilder::end", "unwrap", 2, "terminals", .localguard, [],
    "after the `is_none()` checks"⟩,
  ⟨"analysis/k_tuple.rs", "KTupleBuilder::eps", "unwrap", 2, "terminals", .localguard, [],
    "after the `is_none()` checks"⟩,
  ⟨"analysis/k_tuple.rs", "TermIt::next", "arithmetic", 1, "terminals", .theorem, ["ParolModel.Tm.abs_iter"],
    "`>>= bits`, bits ≤ 15"⟩,
  ⟨"analysis/k_tuple.rs", "Terminals::bits", "arithmetic", 1, "terminals", .theorem, ["ParolModel.Tm.abs_new"],
    "shift by a constant (120/124) or by `bits` ≤ 15 < 128; the model's checked shifts (`none` = amount ≥ 128) never fail on well-formed words"⟩,
  ⟨"analysis/k_tuple.rs", "Terminals::clear", "debug_assert", 1, "terminals", .theorem, ["ParolModel.Tm.abs_clear"],
    "`bits != 0`"⟩,
  ⟨"analysis/k_tuple.rs", "Terminals::fmt", "unwrap", 1, "terminals", .offpath, [],
    "`Display`: `self.get(i).unwrap()` for i < len"⟩,
  ⟨"analysis/k_tuple.rs", "Terminals::get", "arithmetic", 1, "terminals", .theorem, ["ParolModel.Tm.abs_get"],
    "shift by `i * bits` < 128 for i < len ≤ 10, bits ≤ 12"⟩,
  ⟨"analysis/k_tuple.rs", "Terminals::inc_index", "arithmetic", 1, "terminals", .theorem, ["ParolModel.Tm.push_total"],
    "shift by the constant 120"⟩,
  ⟨"analysis/k_tuple.rs", "Terminals::inc_index", "debug_assert", 1, "terminals", .theorem, ["ParolModel.Tm.push_total"],
    "`i <= MAX_K`: `push` checks `is_k_complete`/length before incrementing"⟩,
  ⟨"analysis/k_tuple.rs", "Terminals::inc_index", "expect", 1, "terminals", .theorem, ["ParolModel.Tm.push_total"],
    "`next_index().checked_add(1)` on a 4-bit field value"⟩,
  ⟨"analysis/k_tuple.rs", "Terminals::k_concat", "arithmetic", 3, "terminals", .theorem, ["ParolModel.Tm.kConcat_total"],
    "`k - my_k_len` behind `my_k_len < k` (complete operands return early), shifts by `to_take*bits`, `my_k_len*bits` ≤ 120"⟩,
  ⟨"analysis/k_tuple.rs", "Terminals::k_concat", "debug_assert", 4, "terminals", .theorem, ["ParolModel.Tm.kConcat_total"],
    "equal bit widths, `to_take != 0`, `new_index <= MAX_K`: hypotheses WF, same width, k ≤ MAX_K (k > MAX_K does fail: `kConcat_k11_panics`)"⟩,
  ⟨"analysis/k_tuple.rs", "Terminals::last", "arithmetic", 1, "terminals", .theorem, ["ParolModel.Tm.abs_get"],
    "`idx as usize - 1` behind the `is_empty()` test"⟩,
  ⟨"analysis/k_tuple.rs", "Terminals::mask", "arithmetic", 1, "terminals", .theorem, ["ParolModel.Tm.abs_get"],
    "shift by a constant (120/124) or by `bits` ≤ 15 < 128; the model's checked shifts (`none` = amount ≥ 128) never fail on well-formed words"⟩,
  ⟨"analysis/k_tuple.rs", "Terminals::new", "panic!", 1, "terminals", .theorem, ["ParolModel.Tm.new_panics_iff", "ParolModel.Panic.stage_total_terminals"],
    "panics iff max_terminal_index ≥ 4095; NOTHING in the pipeline establishes max_terminal_index < 4095 — finding F10 (`f10_witness`)"⟩,
  ⟨"analysis/k_tuple.rs", "Terminals::next_index", "arithmetic", 1, "terminals", .theorem, ["ParolModel.Tm.abs_len"],
    "shift by a constant (120/124) or by `bits` ≤ 15 < 128; the model's checked shifts (`none` = amount ≥ 128) never fail on well-formed words"⟩,
  ⟨"analysis/k_tuple.rs", "Terminals::of", "arithmetic", 1, "terminals", .theorem, ["ParolModel.Tm.of_total"],
    "mask shift by `k_len * bits`"⟩,
  ⟨"analysis/k_tuple.rs", "Terminals::push", "debug_assert", 1, "terminals", .theorem, ["ParolModel.Tm.push_total"],
    "`t != INVALID`: argument validity is the hypothesis `validArg` (terminal indices of the grammar, EOI, ε)"⟩,
  ⟨"analysis/k_tuple.rs", "Terminals::set", "arithmetic", 2, "terminals", .theorem, ["ParolModel.Tm.abs_set"],
    "shifts by `i * bits` for i < len"⟩,
  ⟨"analysis/k_tuple.rs", "Terminals::set", "debug_assert", 2, "terminals", .theorem, ["ParolModel.Tm.abs_set"],
    "`i <= MAX_K`, `t != INVALID`"⟩,
  ⟨"analysis/k_tuple.rs", "Terminals::set_bits", "arithmetic", 1, "terminals", .theorem, ["ParolModel.Tm.wf_new"],
    "shift by a constant (120/124) or by `bits` ≤ 15 < 128; the model's checked shifts (`none` = amount ≥ 128) never fail on well-formed words"⟩,
  ⟨"analysis/k_tuple.rs", "Terminals::set_bits", "debug_assert", 1, "terminals", .theorem, ["ParolModel.Tm.wf_new"],
    "`bits != 0`: `new` computes bits ≥ 1 (`wf_new`: 1 ≤ bits ≤ 12)"⟩,
  ⟨"analysis/k_tuple.rs", "Terminals::set_next_index", "arithmetic", 1, "terminals", .theorem, ["ParolModel.Tm.wf_push"],
    "shift by a constant (120/124) or by `bits` ≤ 15 < 128; the model's checked shifts (`none` = amount ≥ 128) never fail on well-formed words"⟩,
  ⟨"analysis/k_tuple.rs", "top-level", "arithmetic", 1, "terminals", .theorem, ["ParolModel.Tm.capacity", "ParolModel.Tm.max_bits_is_12"],
    "`const MAX_BITS = 128 / MAX_K`: constant division by 10"⟩,
  ⟨"analysis/k_tuple.rs", "u128::from", "arithmetic", 1, "terminals", .theorem, ["ParolModel.Tm.u8_product_no_overflow"],
    "`(next_index * bits) as usize` on u8 and the shift by it"⟩,
  ⟨"analysis/k_tuples.rs", "KTuples::insert", "debug_assert", 1, "terminals", .open, [],
    "`self.k >= tuple.k()`: all tuples of one analysis step are built with the step's k; not stated as a theorem (the set model `TSet` has no k field)"⟩,
  ⟨"analysis/k_tuples.rs", "KTuples::sorted", "unwrap", 1, "terminals", .localguard, [],
    "`partial_cmp(..).unwrap()`: `PartialOrd for KTuple` is derived over fields whose `partial_cmp` is `Some(self.cmp(other))`, never `None`"⟩,
  ⟨"analysis/k_tuples.rs", "KTuples::union_in_place", "debug_assert", 2, "terminals", .open, [],
    "equal k and max_terminal_index of both operands; not stated as a theorem"⟩,
  ⟨"analysis/k_tuples.rs", "KTuplesBuilder::build", "unwrap", 5, "terminals", .localguard, [],
    "options checked with `is_none()` → `Err` at the top of the function; inner `KTupleBuilder…build().unwrap()` with both fields set"⟩,
  ⟨"analysis/k_tuples.rs", "KTuplesBuilder::end", "unwrap", 4, "terminals", .localguard, [],
    "as `build`"⟩,
  ⟨"analysis/k_tuples.rs", "KTuplesBuilder::eps", "unwrap", 4, "terminals", .localguard, [],
    "as `build`"⟩,
  ⟨"analysis/left_recursion.rs", "detect_left_recursive_non_terminals", "unreachable!", 1, "well-formedness", .open, [],
    "`Symbol::S/Push/Pop` on a right-hand side: the model's `Sym` has only `t`/`n`; that the front end (`GrammarConfig::try_from`, not modelled) never builds the other variants is an assumption, explored only"⟩,
  ⟨"analysis/left_recursion.rs", "detect_left_recursive_non_terminals", "unwrap", 2, "well-formedness", .theorem, ["ParolModel.nts_eq", "ParolModel.leftRec_eq"],
    "`p.0.get_n_ref().unwrap()` (left-hand side is `Symbol::N`, constructor invariant) and `can_start_with.get_mut(lhs).unwrap()` on a map initialised with every member of `get_non_terminal_set()`, which contains every left-hand side (`nts_eq`); the modelled computation is total (`leftRec_eq`)"⟩,
  ⟨"analysis/lookahead_dfa.rs", "LookaheadDFA::add_transition", "unwrap", 1, "lookahead-automata", .theorem, ["ParolModel.unite_no_false_conflict", "ParolModel.trie_accepts_iff_tuple"],
    "state numbers are created by `new_state` of the same automaton / looked up right after `contains_key`; the model (`fromKTuples`, `unite`) returns `none`/`.error` where the code would panic and `unite_no_false_conflict` shows neither happens on non-empty, disjoint, prefix-free tuple sets"⟩,
  ⟨"analysis/lookahead_dfa.rs", "LookaheadDFA::coin_state", "index", 1, "lookahead-automata", .theorem, ["ParolModel.unite_no_false_conflict", "ParolModel.trie_accepts_iff_tuple"],
    "state numbers are created by `new_state` of the same automaton / looked up right after `contains_key`; the model (`fromKTuples`, `unite`) returns `none`/`.error` where the code would panic and `unite_no_false_conflict` shows neither happens on non-empty, disjoint, prefix-free tuple sets"⟩,
  ⟨"analysis/lookahead_dfa.rs", "LookaheadDFA::from_k_tuples", "index", 1, "lookahead-automata", .theorem, ["ParolModel.unite_no_false_conflict", "ParolModel.trie_accepts_iff_tuple"],
    "state numbers are created by `new_state` of the same automaton / looked up right after `contains_key`; the model (`fromKTuples`, `unite`) returns `none`/`.error` where the code would panic and `unite_no_false_conflict` shows neither happens on non-empty, disjoint, prefix-free tuple sets"⟩,
  ⟨"analysis/lookahead_dfa.rs", "LookaheadDFA::transition_info", "unwrap", 3, "lookahead-automata", .theorem, ["ParolModel.unite_no_false_conflict", "ParolModel.trie_accepts_iff_tuple"],
    "state numbers are created by `new_state` of the same automaton / looked up right after `contains_key`; the model (`fromKTuples`, `unite`) returns `none`/`.error` where the code would panic and `unite_no_false_conflict` shows neither happens on non-empty, disjoint, prefix-free tuple sets"⟩,
  ⟨"analysis/lookahead_dfa.rs", "LookaheadDFA::unite", "index", 4, "lookahead-automata", .theorem, ["ParolModel.unite_no_false_conflict", "ParolModel.trie_accepts_iff_tuple"],
    "state numbers are created by `new_state` of the same automaton / looked up right after `contains_key`; the model (`fromKTuples`, `unite`) returns `none`/`.error` where the code would panic and `unite_no_false_conflict` shows neither happens on non-empty, disjoint, prefix-free tuple sets"⟩,
  ⟨"analysis/lookahead_dfa.rs", "LookaheadDFA::unite", "unwrap", 1, "lookahead-automata", .theorem, ["ParolModel.unite_no_false_conflict", "ParolModel.trie_accepts_iff_tuple"],
    "state numbers are created by `new_state` of the same automaton / looked up right after `contains_key`; the model (`fromKTuples`, `unite`) returns `none`/`.error` where the code would panic and `unite_no_false_conflict` shows neither happens on non-empty, disjoint, prefix-free tuple sets"⟩,
  ⟨"analysis/productivity.rs", "create_production_transfer_function", "index", 1, "well-formedness", .theorem, ["ParolModel.nts_eq"],
    "`result_vector[index]`, index = position of a member of the non-terminal set, vector has one slot per non-terminal"⟩,
  ⟨"analysis/productivity.rs", "non_productive_non_terminals", "index", 2, "well-formedness", .theorem, ["ParolModel.productive_eq"],
    "`es[i]`, `non_terminals[i]` with `i` enumerating a vector of the same length (one equation / one flag per non-terminal); the modelled sweep is total (`productive_eq`: the result is `some _`)"⟩,
  ⟨"analysis/productivity.rs", "non_productive_non_terminals", "unwrap", 1, "well-formedness", .theorem, ["ParolModel.nts_eq"],
    "`position(..).unwrap()` of a right-hand-side non-terminal in `get_non_terminal_set()`: every such non-terminal is a member (`nts_eq`)"⟩,
  ⟨"analysis/productivity.rs", "trace_result_vector", "index", 1, "well-formedness", .offpath, [],
    "only called inside `trace!`"⟩,
  ⟨"analysis/reachability.rs", "nt_producing_productions", "unwrap", 1, "unmodelled", .open, [],
    "`reachable_of.get(n).unwrap()`: public helper, not on the generation path; the map has an entry per member of the non-terminal set"⟩,
  ⟨"analysis/reachability.rs", "reachable_from_production", "index", 1, "unmodelled", .open, [],
    "`cfg.pr[prod_num]`: public helper (used by parol-ls and tests), not called by `check_and_transform_grammar`"⟩,
  ⟨"grammar/cfg.rs", "Cfg::get_alternation_index_of_production", "index", 1, "unmodelled", .localguard, [],
    "behind `prod_num >= self.pr.len()` → `Err`"⟩,
  ⟨"grammar/cfg.rs", "Cfg::get_alternations_count", "index", 1, "unmodelled", .localguard, [],
    "behind `prod_num >= self.pr.len()` → `Err`"⟩,
  ⟨"grammar/cfg.rs", "Cfg::get_non_terminal_index_function", "unwrap", 1, "first/follow", .theorem, ["ParolModel.KS.mem_ntsOf"],
    "the closure is applied to left-hand sides and right-hand-side non-terminals of the same grammar, all of which are members of `get_non_terminal_set` (`mem_ntsOf`)"⟩,
  ⟨"grammar/cfg.rs", "Cfg::get_non_terminal_ordering", "expect", 1, "well-formedness", .theorem, ["ParolModel.code_panics_iff", "ParolModel.Panic.pre_established_ordering"],
    "`Start symbol not found in any production`: modelled as `.panic` of `nullableCode`/`leftRecCode`; reached through `check_and_transform_grammar` only after the productivity check, which guarantees a production for the start symbol"⟩,
  ⟨"grammar/cfg.rs", "Cfg::get_ordered_terminals", "index", 2, "unmodelled", .localguard, [],
    "`acc[pos]` with `pos` from `position` on `acc`"⟩,
  ⟨"grammar/cfg.rs", "Cfg::get_primary_non_terminal_finder", "index", 1, "unmodelled", .localguard, [],
    "`p.1[0]` behind `p.1.len() == 1`"⟩,
  ⟨"grammar/cfg.rs", "Cfg::get_primary_non_terminal_finder", "unwrap", 1, "unmodelled", .open, [],
    "`p.0.get_n().unwrap()`: the left-hand side of a `Pr` is always `Symbol::N` (constructor invariant of the unmodelled `Pr::new`)"⟩,
  ⟨"grammar/cfg.rs", "Cfg::get_terminal_index_function", "unwrap", 1, "first/follow", .open, [],
    "lookup of a terminal in `get_ordered_terminals` of the same grammar (called through `CompiledTerminal::create` by first_k/follow_k and by the generators); present because `get_ordered_terminals` merges with the same `behaves_like` test, which is not modelled (finding F11 was in a sibling of this lookup). Explored only"⟩,
  ⟨"grammar/cfg.rs", "Cfg::index", "index", 1, "unmodelled", .open, [],
    "`impl Index<usize> for Cfg`: panics for an index ≥ number of productions; callers (`calculate_lookahead_dfas`, generators) pass production numbers of the same grammar. Explored only"⟩,
  ⟨"grammar/cfg.rs", "top-level", "expect", 1, "cfg", .constant, [],
    "Regex::new on the literal `[0-9]+$`"⟩,
  ⟨"transformation/canonicalization.rs", "eliminate_single_grp", "index", 10, "canonicalization", .theorem, ["ParolModel.locate_spec", "ParolModel.Panic.stage_total_canon"],
    "as for repetitions; `group.0[0]` under `group.0.len() == 1`"⟩,
  ⟨"transformation/canonicalization.rs", "eliminate_single_grp", "panic!", 2, "canonicalization", .theorem, ["ParolModel.groupInner_eq"],
    "the factor at the found position is a `Group` (both panics)"⟩,
  ⟨"transformation/canonicalization.rs", "eliminate_single_opt", "index", 11, "canonicalization", .theorem, ["ParolModel.locate_spec", "ParolModel.Panic.stage_total_canon"],
    "as for repetitions; the one index that CAN be out of range (`production1a.rhs.0[0].0.remove(opt_index_in_alt)`, case 2) is the model's `.panic` branch, unreachable because `extract_options` leaves no optional (`stage_total_canon`)"⟩,
  ⟨"transformation/canonicalization.rs", "eliminate_single_opt", "panic!", 1, "canonicalization", .theorem, ["ParolModel.optInner_eq"],
    "the factor at the found position is an `Optional`"⟩,
  ⟨"transformation/canonicalization.rs", "eliminate_single_rep", "index", 8, "canonicalization", .theorem, ["ParolModel.locate_spec", "ParolModel.Panic.stage_total_canon"],
    "alt_index / rpt_index_in_alt come from `find_production_with_factor` and `position`; `rhs_p2[0]` under `repeat.0.len() == 1`"⟩,
  ⟨"transformation/canonicalization.rs", "eliminate_single_rep", "panic!", 1, "canonicalization", .theorem, ["ParolModel.repInner_eq"],
    "the factor at the position found with `matches!(f, Factor::Repeat(_))` is a `Repeat` (model: `locate Factor.repInner` hands over the inner alternations)"⟩,
  ⟨"transformation/canonicalization.rs", "extract_options", "expect", 1, "canonicalization", .localguard, [],
    "`inner_alts_mut()` in the match arm `Factor::Group(_) | Factor::Repeat(_)`, for which it returns `Some`"⟩,
  ⟨"transformation/canonicalization.rs", "finalize", "unwrap", 1, "canonicalization", .localguard, [],
    "`e.pop().unwrap()` directly after `if e.len() != 1 { bail!(…) }`; the model's `finalizeProd` answers `finalizeError` in that case"⟩,
  ⟨"transformation/canonicalization.rs", "find_production_with_factor", "index", 1, "canonicalization", .theorem, ["ParolModel.locate_spec"],
    "index returned by `position` on the same slice; `locate_spec`: the located production is a member at exactly that place"⟩,
  ⟨"transformation/canonicalization.rs", "find_production_with_factor", "unwrap", 1, "canonicalization", .theorem, ["ParolModel.locate_spec"],
    "second `position` with the predicate that the first one just satisfied for this production"⟩,
  ⟨"transformation/canonicalization.rs", "top-level", "expect", 1, "canonicalization", .constant, [],
    "Regex::new on the literal `Opt[0-9]*$`; fails only if the literal were not a regex"⟩,
  ⟨"transformation/left_factoring.rs", "find_prefix", "index", 4, "left_factoring", .localguard, [],
    "`&c[..n]` behind `filter(|c| c.len() >= n)`; `groups[c]` for keys inserted three lines above; `&p1[..]`, `&p2[..]` are full-range slices"⟩,
  ⟨"transformation/left_factoring.rs", "left_factor", "expect", 3, "left_factoring", .offpath, [],
    "arguments of `trace!`: evaluated only when trace logging is enabled; `format_symbols`/`format_productions` fail only on a formatter error"⟩,
  ⟨"transformation/left_factoring.rs", "left_factor", "index", 3, "left_factoring", .localguard, [],
    "`pr.get_r()[0..prefix_len]` behind `pr.len() < prefix_len ||`; `rules[0]` after the `rules.is_empty()` panic check"⟩,
  ⟨"transformation/left_factoring.rs", "left_factor", "panic!", 1, "left_factoring", .theorem, ["ParolModel.factor_out_total"],
    "`rules.is_empty()` in `mod_factor`: `factor_out_prefix` passes the productions of a non-terminal that `find_longest_prefixes` found a shared prefix for; the model's `factorOutPrefix` returns the grammar unchanged when there are none and `factor_out_total` shows one round always yields a result"⟩,
  ⟨"utils/mod.rs", "generate_name", "index", 1, "names", .localguard, [],
    "`preferred_name[0..match_.start()]`: a regex match offset of the same string (a char boundary)"⟩
]

/-- One link of the chain "the previous stage's `Ok` establishes this stage's precondition". -/
structure ChainLink where
  stage : String
  code : String
  pre : String
  totalBy : Option String
  preEstablishedBy : Option String
  note : String

def chain : List ChainLink := [
  ⟨"canonicalization", "transform_productions (canonicalization.rs)",
   "none (every production list the front end builds)",
   some "ParolModel.Panic.stage_total_canon", some "ParolModel.Panic.stage_total_canon",
   "no panic for every input; termination of the rewriting loops is NOT proved (the model takes fuel)"⟩,
  ⟨"names", "utils::generate_name",
   "none",
   some "ParolModel.Panic.stage_total_generate_name", some "ParolModel.Panic.stage_total_generate_name",
   "the counter is an unbounded Nat in the model: `num += 1` overflows for a numeric suffix of 2^64-1 with overflow checks on (finding F35)"⟩,
  ⟨"well-formedness", "check_and_transform_grammar_with_ignored: non_productive_non_terminals, unreachable_non_terminals, detect_left_recursive_non_terminals (+ Cfg::get_non_terminal_ordering, calculate_nullable_non_terminals)",
   "for the two functions that go through get_non_terminal_ordering: the start symbol has a production",
   some "ParolModel.Panic.stage_total_check", some "ParolModel.Panic.pre_established_ordering",
   "always a verdict; the productivity check runs first and rejects a start symbol without production"⟩,
  ⟨"left_factoring", "left_factor (LL(k) only)",
   "none for one round",
   some "ParolModel.Panic.stage_total_left_factor_round", some "ParolModel.Panic.stage_total_left_factor_round",
   "every round yields a result; that the number of rounds is finite is NOT proved (C10: LeftFactorTerminates)"⟩,
  ⟨"lr_augmentation", "augment_grammar (LALR(1) only)",
   "none",
   some "ParolModel.Panic.stage_total_augment", some "ParolModel.Panic.stage_total_augment",
   "lr_augmentation.rs contains no panic site"⟩,
  ⟨"terminals", "Terminals::new / KTupleBuilder / KTuplesBuilder (k_tuple.rs, k_tuples.rs)",
   "max_terminal_index = number of terminals + 5 ≤ 4094, k ≤ MAX_K, arguments are terminal indices of the grammar",
   some "ParolModel.Panic.stage_total_terminals", none,
   "NOT established: nothing limits the number of terminals (finding F10, `f10_witness`); k ≤ MAX_K is checked by Builder::max_lookahead only, not by the public function calculate_lookahead_dfas (finding F37)"⟩,
  ⟨"first/follow", "first_k, follow_k (through FirstCache/FollowCache)",
   "no terminal 0 on a right-hand side, every non-terminal productive and reachable, no (hidden) left recursion — the class in which C06 proves the sets exact",
   none, some "ParolModel.Panic.pre_established_analysis",
   "the precondition IS established by the well-formedness stage (LL); the models of first_k/follow_k have no panic branch at all (vectors are total lists), and that the fixpoint loops terminate is not proved (fuel). The terminal numbering `≥ 5` (no terminal 0) is a front-end fact, assumed"⟩,
  ⟨"decision", "decidable / calculate_k_tuples",
   "as first/follow",
   none, some "ParolModel.Panic.pre_established_analysis",
   "C05 proves the verdict exact in this class; the model has the outcomes ok / MaxKExceeded / fuel and no panic branch"⟩,
  ⟨"lookahead-automata", "LookaheadDFA::from_k_tuples, unite (lookahead_dfa.rs)",
   "the tuple sets of one non-terminal are non-empty, pairwise disjoint and prefix-free",
   some "ParolModel.Panic.stage_total_unite", none,
   "that the sets `calculate_k_tuples` hands over satisfy this is decided per explored case by C07's oracle (`setsOk`), not proved across the two models"⟩,
  ⟨"minimisation", "CompiledDFA::from_lookahead_dfa (compiled_la_dfa.rs)",
   "accepting states are leaves",
   none, none,
   "the model has the panic branches; that they are not taken is observed (C07 tie), not proved"⟩
]

/-! ## protocol -/

def keyLt (a b : String × String) : Bool := a.1 < b.1 || (a.1 == b.1 && a.2 < b.2)

/-- insert `(key, n)` into a list sorted by key, adding up equal keys -/
def insKey (k : String × String) (n : Nat) : List ((String × String) × Nat) → List ((String × String) × Nat)
  | [] => [(k, n)]
  | (k', n') :: rest =>
    if k == k' then (k', n' + n) :: rest
    else if keyLt k k' then (k, n) :: (k', n') :: rest
    else (k', n') :: insKey k n rest

/-- `<function>/<kind>=<count>` of one file, sorted by (function, kind), joined by `,`; `-` if none -/
def sitesOfFile (file : String) : String :=
  let m := (panicSites.filter (·.file == file)).foldl (fun acc s => insKey (s.func, s.kind) s.count acc) []
  if m.isEmpty then "-"
  else ",".intercalate (m.map fun (k, n) => k.1 ++ "/" ++ k.2 ++ "=" ++ toString n)

def modelledFiles : List String := [
  "transformation/canonicalization.rs", "transformation/left_factoring.rs",
  "transformation/lr_augmentation.rs", "grammar/cfg.rs", "analysis/productivity.rs",
  "analysis/reachability.rs", "analysis/left_recursion.rs", "analysis/first.rs", "analysis/follow.rs",
  "analysis/k_decision.rs", "analysis/k_tuple.rs", "analysis/k_tuples.rs",
  "analysis/compiled_terminal.rs", "analysis/lookahead_dfa.rs", "analysis/compiled_la_dfa.rs",
  "utils/mod.rs"]

end ParolModel.Panic

namespace ParolModel

-- @handler sites Panic.sitesHandler
/-- `sites <file>` → the table's counts for that file (`no-such-file` for a file that is not modelled). -/
def Panic.sitesHandler : List String → Option String
  | [file] => if Panic.modelledFiles.contains file then some (Panic.sitesOfFile file) else some "no-such-file"
  | _ => none

-- @handler c26-summary Panic.summaryHandler
/-- `c26-summary` → `sites=<n> theorem=<n> localguard=<n> constant=<n> offpath=<n> open=<n> links=<n> total=<n> pre=<n>` -/
def Panic.summaryHandler : List String → Option String
  | [] =>
    let cnt (h : Panic.How) := ((Panic.panicSites.filter (·.how == h)).map (·.count)).foldl (· + ·) 0
    let all := (Panic.panicSites.map (·.count)).foldl (· + ·) 0
    some s!"sites={all} theorem={cnt .theorem} localguard={cnt .localguard} constant={cnt .constant} offpath={cnt .offpath} open={cnt .open} links={Panic.chain.length} total={(Panic.chain.filter (·.totalBy.isSome)).length} pre={(Panic.chain.filter (·.preEstablishedBy.isSome)).length}"
  | _ => none

end ParolModel
