import ParolModel.Model.Proto
/-! # L12 (part) — protocol machine of the language server's diagnostics (C29)

Mirror of `crates/parol-ls/src/server.rs`: `handle_open_document`, `handle_change_document`,
`analyze`, `check_grammar` and the three `notify_*` functions.

What the server really does, statement by statement:

* `handle_open_document` / `handle_change_document` (main loop, one notification at a time) store
  the new text, then call `analyze`: parse with the server's own parser, then `check_grammar`
  (parol's parser, `GrammarConfig::try_from`, `check_and_transform_grammar_with_ignored`). These
  steps are the **synchronous part**. If any of them fails, the handler publishes the error
  diagnostics tagged with the notification's version (`notify_analysis_error`) and nothing else
  happens for this version.
* If the synchronous part succeeds, `check_grammar` **first spawns** a thread (`thread::spawn`)
  that owns the grammar configuration, the connection, the uri and the version `v` it was started
  for, and returns; only **then** the handler publishes the empty diagnostics list tagged `v`
  (`notify_analysis_ok`). Nothing orders the thread's publish after the handler's one.
* The thread runs the expensive analysis (LL: `calculate_lookahead_dfas` up to `max_k`; LALR:
  `calculate_lalr1_parse_table`). LL failure or LALR failure → `notify_analysis_error` (error
  diagnostics tagged `v`); LALR success with resolved conflicts → `notify_resolved_conflicts` (one
  warning diagnostic tagged `v`); LL success, or LALR success without conflicts → **nothing** is
  published (in particular no diagnostics are cleared). The thread never looks at the document's
  current version.

The machine below has one event per step of either thread:

* `open v t` / `change v t` — the synchronous part for text `t` at version `v`, including the
  spawn of the analysis task when it succeeds; the synchronous result is *pending*;
* `mainPublish` — the handler publishes the pending synchronous result;
* `bgFinish i` — the `i`-th spawned task (0-based, in spawn order) finishes: it publishes its
  diagnostics if its analysis yields any.

`open v t; mainPublish` is what the task description calls "on open/change the main thread
publishes `sync(v)` and has already spawned task `i`"; keeping the two steps apart makes the
window between spawn and publish visible (finding F38). The verdicts of the two analyses are
uninterpreted functions of the text (`Sem`), and so is the content of the diagnostics
(`Payload.sync t`, `Payload.async t`).

`Fixes`: counterfactual repairs. `f8` — a finishing task whose version is not the document's
current version publishes nothing. `f35` — the synchronous result is published before the task is
spawned. With both switches off the machine is the faithful image of the code. -/
namespace ParolModel.Ls29

/-- What a `publishDiagnostics` notification carries, up to the uninterpreted diagnostic content. -/
inductive Payload (Text : Type) where
  /-- the empty list (`notify_analysis_ok`) -/
  | ok
  /-- the diagnostics of the failed synchronous part for text `t` -/
  | sync (t : Text)
  /-- the diagnostics the background analysis of text `t` yields (LL/LALR error, LALR warnings) -/
  | async (t : Text)
  deriving DecidableEq, Repr

structure Pub (Text : Type) where
  version : Nat
  payload : Payload Text
  deriving DecidableEq, Repr

/-- The two uninterpreted verdicts of a text. -/
structure Sem (Text : Type) where
  /-- the synchronous part (both parsers, grammar checks and transformation) fails -/
  syncFails : Text → Bool
  /-- the background analysis publishes something (only meaningful if `syncFails t = false`) -/
  asyncYields : Text → Bool

inductive Ev (Text : Type) where
  | open (v : Nat) (t : Text)
  | change (v : Nat) (t : Text)
  | mainPublish
  | bgFinish (i : Nat)
  deriving DecidableEq, Repr

structure Task (Text : Type) where
  version : Nat
  text : Text
  deriving DecidableEq, Repr

structure Fixes where
  f8 : Bool
  f35 : Bool
  deriving DecidableEq, Repr

/-- The code as it is. -/
def faithful : Fixes := ⟨false, false⟩

structure St (Text : Type) where
  /-- version and text of the last open/change notification -/
  cur : Option (Nat × Text)
  /-- synchronous result not yet published by the handler -/
  pending : Option (Pub Text)
  /-- spawned tasks in spawn order -/
  tasks : List (Task Text)
  /-- indices of finished tasks -/
  done : List Nat
  /-- published notifications, newest first -/
  out : List (Pub Text)
  deriving DecidableEq, Repr

def St.init {Text : Type} : St Text := ⟨none, none, [], [], []⟩

def syncPub {Text : Type} (sem : Sem Text) (v : Nat) (t : Text) : Pub Text :=
  ⟨v, if sem.syncFails t then .sync t else .ok⟩

/-- `open` and `change` behave alike (the only difference in the code is how the text is stored). -/
def edit {Text : Type} (fx : Fixes) (sem : Sem Text) (st : St Text) (v : Nat) (t : Text) :
    Option (St Text) :=
  if st.pending.isSome then none            -- the main loop handles one notification at a time
  else
    let p := syncPub sem v t
    some { cur := some (v, t)
           pending := some p
           tasks := if sem.syncFails t then st.tasks else st.tasks ++ [⟨v, t⟩]
           done := st.done
           out := if fx.f35 then p :: st.out else st.out }

/-- "the task's version is not the current one" -/
def stale {Text : Type} (st : St Text) (tk : Task Text) : Bool :=
  match st.cur with
  | some (v, _) => v != tk.version
  | none => true

def step {Text : Type} (fx : Fixes) (sem : Sem Text) (st : St Text) : Ev Text → Option (St Text)
  | .open v t => edit fx sem st v t
  | .change v t => edit fx sem st v t
  | .mainPublish =>
    match st.pending with
    | none => none
    | some p => some { st with pending := none, out := if fx.f35 then st.out else p :: st.out }
  | .bgFinish i =>
    if st.done.contains i then none
    else match st.tasks[i]? with
      | none => none
      | some tk =>
        let publishes := sem.asyncYields tk.text && !(fx.f8 && stale st tk)
        some { st with done := i :: st.done
                       out := if publishes then ⟨tk.version, .async tk.text⟩ :: st.out else st.out }

/-- Runs a schedule; `none` = the schedule is not one the two threads can produce. -/
def run {Text : Type} (fx : Fixes) (sem : Sem Text) : List (Ev Text) → St Text → Option (St Text)
  | [], st => some st
  | ev :: rest, st =>
    match step fx sem st ev with
    | none => none
    | some st' => run fx sem rest st'

/-- "once all background analyses have finished" (and the handler has returned). -/
def St.quiescent {Text : Type} (st : St Text) : Bool :=
  st.pending.isNone && (List.range st.tasks.length).all (fun i => st.done.contains i)

/-- The diagnostics of a text alone: what a server that analysed only this text would show. -/
def expected {Text : Type} (sem : Sem Text) (t : Text) : Payload Text :=
  if sem.syncFails t then .sync t else if sem.asyncYields t then .async t else .ok

/-- The LSP requires document versions to increase; `lo` is the smallest admissible next version. -/
def versionsFrom {Text : Type} : Nat → List (Ev Text) → Prop
  | _, [] => True
  | lo, .open v _ :: rest => lo ≤ v ∧ versionsFrom (v + 1) rest
  | lo, .change v _ :: rest => lo ≤ v ∧ versionsFrom (v + 1) rest
  | lo, _ :: rest => versionsFrom lo rest

def isEdit {Text : Type} : Ev Text → Bool
  | .open _ _ => true
  | .change _ _ => true
  | _ => false

/-! ## Restricted schedules (for the partial theorems) -/

/-- No task finishes inside the window between its spawn and the handler's publish. -/
def gNoEarly {Text : Type} (st : St Text) : Ev Text → Bool
  | .bgFinish _ => st.pending.isNone
  | _ => true

/-- Every task finishes before the next notification is handled. -/
def gSequential {Text : Type} (st : St Text) (ev : Ev Text) : Bool :=
  gNoEarly st ev &&
  (!isEdit ev || (List.range st.tasks.length).all (fun i => st.done.contains i))

/-- No task that was spawned for an earlier notification yields diagnostics. -/
def gNoAsyncEarlier {Text : Type} (sem : Sem Text) (st : St Text) (ev : Ev Text) : Bool :=
  gNoEarly st ev &&
  (!isEdit ev || st.tasks.all (fun tk => !sem.asyncYields tk.text))

/-- The weakest of the three: when a notification arrives, every task that yields diagnostics has
    already finished. -/
def gTimely {Text : Type} (sem : Sem Text) (st : St Text) (ev : Ev Text) : Bool :=
  gNoEarly st ev &&
  (!isEdit ev || (List.range st.tasks.length).all (fun i =>
      st.done.contains i ||
      match st.tasks[i]? with
      | some tk => !sem.asyncYields tk.text
      | none => true))

/-- `run` restricted to schedules in which every step satisfies the guard `g`. -/
def runG {Text : Type} (g : St Text → Ev Text → Bool) (fx : Fixes) (sem : Sem Text) :
    List (Ev Text) → St Text → Option (St Text)
  | [], st => some st
  | ev :: rest, st =>
    if g st ev then
      match step fx sem st ev with
      | none => none
      | some st' => runG g fx sem rest st'
    else none

/-! ## Line protocol

Documents are numbered; the request carries their verdicts as a table
`<name>=<sync>/<async>,…` where `<name>` identifies the text in the harness's catalogue (ignored
here), `<sync>` is `-` (the synchronous part succeeds) or the signature of its
error diagnostics, `<async>` is `-` (the background analysis publishes nothing) or the signature of
what it publishes. Events: `o<d>` open with document `d`, `c<d>` change to document `d`, `p`
mainPublish, `f<i>` bgFinish of the `i`-th spawned task; versions are 1, 2, … in the order of the
open/change events (as `LsSession` numbers them). A published trace is `<version>:<signature>,…`
oldest first (`ok` = empty diagnostics), `-` if nothing was published. -/

structure DocRow where
  sync : Option String
  async : Option String

def parseOptSig (s : String) : Option String := if s == "-" then none else some s

def parseDocs (s : String) : Option (List DocRow) :=
  (s.splitOn ",").mapM (fun e =>
    match e.splitOn "=" with
    | [name, verdicts] =>
      if name.isEmpty then none else
      match verdicts.splitOn "/" with
      | [a, b] => if a.isEmpty || b.isEmpty then none else some ⟨parseOptSig a, parseOptSig b⟩
      | _ => none
    | _ => none)

def tableSem (docs : List DocRow) : Sem Nat where
  syncFails d := match docs[d]? with | some r => r.sync.isSome | none => false
  asyncYields d := match docs[d]? with | some r => r.async.isSome | none => false

/-- Events with versions assigned in order; `none` on a malformed word or unknown document. -/
def parseEvents (ndocs : Nat) : List String → Nat → Option (List (Ev Nat))
  | [], _ => some []
  | w :: ws, v =>
    if w == "p" then (parseEvents ndocs ws v).map (Ev.mainPublish :: ·)
    else if w.startsWith "o" then do
      let d ← (w.drop 1).toString.toNat?
      if d < ndocs then (parseEvents ndocs ws (v + 1)).map (Ev.open v d :: ·) else none
    else if w.startsWith "c" then do
      let d ← (w.drop 1).toString.toNat?
      if d < ndocs then (parseEvents ndocs ws (v + 1)).map (Ev.change v d :: ·) else none
    else if w.startsWith "f" then do
      let i ← (w.drop 1).toString.toNat?
      (parseEvents ndocs ws v).map (Ev.bgFinish i :: ·)
    else none

def parseSchedule (ndocs : Nat) (s : String) : Option (List (Ev Nat)) :=
  if s == "-" then some [] else parseEvents ndocs (s.splitOn ",") 1

def showPayload (docs : List DocRow) : Payload Nat → String
  | .ok => "ok"
  | .sync d => match docs[d]? with | some ⟨some s, _⟩ => s | _ => "?"
  | .async d => match docs[d]? with | some ⟨_, some s⟩ => s | _ => "?"

def showPub (docs : List DocRow) (p : Pub Nat) : String :=
  s!"{p.version}:{showPayload docs p.payload}"

def showTrace (docs : List DocRow) (out : List (Pub Nat)) : String :=
  if out.isEmpty then "-" else ",".intercalate (out.reverse.map (showPub docs))

/-- The verdict of the property on a finished run: `none` = holds; `some (last, wanted)` otherwise.
    `lastShown` is the last element of a shown trace (or `-`). -/
def lastWanted (docs : List DocRow) (st : St Nat) : String :=
  match st.cur with
  | none => "-"
  | some (v, d) => showPub docs ⟨v, expected (tableSem docs) d⟩

def lastOfTrace (tr : String) : String :=
  if tr == "-" then "-" else (tr.splitOn ",").getLast!

/-- Does the machine with repairs `fx` satisfy the property on this schedule? -/
def holdsWith (fx : Fixes) (docs : List DocRow) (evs : List (Ev Nat)) : String :=
  match run fx (tableSem docs) evs St.init with
  | none => "ill-formed"
  | some st =>
    if lastOfTrace (showTrace docs st.out) == lastWanted docs st then "ok" else "fail"

end ParolModel.Ls29

namespace ParolModel
open Ls29

-- @handler ls29 Ls29.handleLs29
/-- Protocol: `ls29 <docs> <events> <lazy|eager>` → the published trace of the FAITHFUL machine,
    `ill-formed` if the schedule is impossible, `not-quiescent` if it does not end with everything
    finished. The last word only tells the harness when to let the analyses compute (before or
    after later edits); the machine has no notion of it. -/
def Ls29.handleLs29 : List String → Option String
  | [ds, es, mode] => do
    if mode != "lazy" && mode != "eager" then none
    let docs ← parseDocs ds
    let evs ← parseSchedule docs.length es
    match run faithful (tableSem docs) evs St.init with
    | none => some "ill-formed"
    | some st => if st.quiescent then some (showTrace docs st.out) else some "not-quiescent"
  | _ => none

-- @handler ls29-check Ls29.handleLs29Check
/-- Property oracle on the implementation's trace:
    `ls29-check <docs> <events> <lazy|eager> <published trace>` → `ok` iff the LAST published notification is
    the diagnostics of the final text alone, tagged with the final version. On failure the reply
    says whether the faithful machine reproduces the implementation's trace and under which
    repairs the machine satisfies the property on this schedule (used for attribution):
    `fail last=<l> expected=<e> model=<agrees|differs> f8=<…> f35=<…> both=<…>`. -/
def Ls29.handleLs29Check : List String → Option String
  | [ds, es, _, tr] => do
    let docs ← parseDocs ds
    let evs ← parseSchedule docs.length es
    match run faithful (tableSem docs) evs St.init with
    | none => some "fail ill-formed-schedule"
    | some st =>
      if !st.quiescent then some "fail schedule-not-quiescent"
      else
        let want := lastWanted docs st
        let last := lastOfTrace tr
        if last == want then some "ok"
        else
          let agrees := if showTrace docs st.out == tr then "agrees" else "differs"
          some s!"fail last={last} expected={want} model={agrees} f8={holdsWith ⟨true, false⟩ docs evs} f35={holdsWith ⟨false, true⟩ docs evs} both={holdsWith ⟨true, true⟩ docs evs}"
  | _ => none

end ParolModel
