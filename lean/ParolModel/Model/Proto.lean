/-! Line-protocol helpers shared by all model handlers. Import-free. -/
namespace ParolModel.Proto

/-- `-` is the empty list; otherwise comma-separated naturals. `none` on any malformed item. -/
def parseNats (s : String) : Option (List Nat) :=
  if s == "-" then some [] else
  (s.splitOn ",").mapM (fun x => x.toNat?)

def parseInt (s : String) : Option Int :=
  if s.startsWith "-" then (s.drop 1).toNat?.map (fun n => - (Int.ofNat n))
  else s.toNat?.map Int.ofNat

def parseInts (s : String) : Option (List Int) :=
  if s == "-" then some [] else
  (s.splitOn ",").mapM parseInt

def showNats (l : List Nat) : String :=
  if l.isEmpty then "-" else ",".intercalate (l.map toString)

def showInts (l : List Int) : String :=
  if l.isEmpty then "-" else ",".intercalate (l.map toString)

def parseBool (s : String) : Option Bool :=
  if s == "1" then some true else if s == "0" then some false else none

def words (line : String) : List String :=
  (line.trimAscii.toString.splitOn " ").filter (· ≠ "")

end ParolModel.Proto
