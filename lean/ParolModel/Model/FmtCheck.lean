import ParolModel.Model.ParInst
import ParolModel.Model.LsUtils
/-! C27 — the decision procedure for one formatter run (translation validation).

The harness sends, for one (text, options) case, what the REAL parol-ls scanner delivers for the
original and for the formatted text: the significant tokens (type + text) and the comment tokens
(type + text), plus the flag "formatting the formatted text again gave the same text".
`fmtCheck` decides the three clauses of the property on that:
  same significant tokens in the same order ∧ same comments in the same order ∧ idempotent.
Line comments are compared without their line end (the token of a line comment includes the line
break that terminates it; a line comment at the very end of the original has none, and the formatter
is free to emit `\n` for `\r\n`).

`labelSig` (used by `Props/C27.sameSignificant_sound`): names every significant token by its index
among the significant tokens, the naming under which "the same action trace" is meaningful for two
different texts. -/
namespace ParolModel.Ls27

structure LexTok where
  ty : Nat
  text : List Nat      -- UTF-8 bytes
  deriving DecidableEq, Repr

def parseLexTok (s : String) : Option LexTok :=
  match s.splitOn ":" with
  | [ty, hex] => do
    let ty ← ty.toNat?
    let bs ← LsUtils.hexBytes hex.toList
    some ⟨ty, bs.map (·.toNat)⟩
  | _ => none

def parseLexToks (s : String) : Option (List LexTok) :=
  if s == "-" then some [] else (s.splitOn ",").mapM parseLexTok

def isLineEnd (c : Nat) : Bool := c == 10 || c == 13

def stripLineEnd (l : List Nat) : List Nat := (l.reverse.dropWhile isLineEnd).reverse

/-- Comments are compared modulo the line end that terminates a line comment (token type 3). -/
def normComment (t : LexTok) : LexTok := if t.ty == 3 then { t with text := stripLineEnd t.text } else t

inductive FmtVerdict
  | ok
  | tokensChanged (i : Nat)
  | commentsChanged (i : Nat)
  /-- the comment tokens differ, but the comment characters, concatenated in order, are the same:
      comments were only split into tokens differently (e.g. two adjacent comments lexed as one) -/
  | commentsMerged (i : Nat)
  | notIdempotent
  deriving DecidableEq, Repr

/-- Index of the first position where the lists differ (a missing element counts). -/
def firstDiff {α : Type} [DecidableEq α] : List α → List α → Nat → Option Nat
  | [], [], _ => none
  | [], _ :: _, i => some i
  | _ :: _, [], i => some i
  | a :: as, b :: bs, i => if a = b then firstDiff as bs (i + 1) else some i

def fmtCheck (sigO cmO sigF cmF : List LexTok) (idem : Bool) : FmtVerdict :=
  match firstDiff sigO sigF 0 with
  | some i => .tokensChanged i
  | none =>
    let co := cmO.map normComment
    let cf := cmF.map normComment
    match firstDiff co cf 0 with
    | some i =>
      if (co.flatMap (·.text)) = (cf.flatMap (·.text)) then .commentsMerged i else .commentsChanged i
    | none => if idem then .ok else .notIdempotent

def showBytes (l : List Nat) : String :=
  String.ofList (l.map fun b => if 32 ≤ b && b < 127 && b != 32 then Char.ofNat b else '_')

def showTokAt (l : List LexTok) (i : Nat) : String :=
  match l[i]? with
  | some t => s!"{t.ty}:{showBytes t.text}"
  | none => "none"

-- @handler fmt-check Ls27.handleFmtCheck
/-- `fmt-check <sig orig> <comments orig> <sig formatted> <comments formatted> <idempotent>` → `ok` | `fail …`. -/
def handleFmtCheck : List String → Option String
  | [so, co, sf, cf, idem] => do
    let so ← parseLexToks so
    let co ← parseLexToks co
    let sf ← parseLexToks sf
    let cf ← parseLexToks cf
    let idem ← Proto.parseBool idem
    match fmtCheck so co sf cf idem with
    | .ok => some "ok"
    | .tokensChanged i =>
      some s!"fail significant-token-changed index={i} orig={showTokAt so i} formatted={showTokAt sf i} count={so.length}/{sf.length}"
    | .commentsChanged i =>
      some s!"fail comment-changed index={i} orig={showTokAt co i} formatted={showTokAt cf i} count={co.length}/{cf.length}"
    | .commentsMerged i =>
      some s!"fail comments-merged index={i} orig={showTokAt co i} formatted={showTokAt cf i} count={co.length}/{cf.length}"
    | .notIdempotent => some "fail not-idempotent"
  | _ => none

/-! ### Naming significant tokens by their index among the significant tokens -/

def labelFrom : Nat → List MTok → List MTok
  | _, [] => []
  | i, t :: ts => if t.skip then t :: labelFrom i ts else { t with id := i } :: labelFrom (i + 1) ts

def labelSig (toks : List MTok) : List MTok := labelFrom 0 toks

def relabel : Nat → List MTok → List MTok
  | _, [] => []
  | i, t :: ts => { t with id := i } :: relabel (i + 1) ts

/-- What the parser can see of a significant token. -/
def sigKey (toks : List MTok) : List (Nat × Bool) := (sigToks toks).map fun t => (t.ty, t.comment)

end ParolModel.Ls27
