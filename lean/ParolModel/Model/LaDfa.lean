import ParolModel.Model.Proto
/-! Model of `parol_runtime::parser::lookahead_dfa::LookaheadDFA::eval` (C08).
`stop = true` is the code as it is now (after the `fix:` for finding F2: the outer loop is left
when no transition matched); `stop = false` is the behaviour before the repair, kept so that the
counterexample stays a checked theorem and a regression can be attributed. -/
namespace ParolModel

structure Trans where
  src : Nat
  term : Nat
  dst : Nat
  prod : Int
  deriving DecidableEq, Repr

structure LaDfa where
  prod0 : Int
  trans : List Trans
  k : Nat
  deriving Repr

/-- The inner `for` loop over the transition slice for (state, tok): skip entries of other states
    until the first entry of `state` was seen (`any_matching_found`), stop when leaving the block,
    stop on `Greater`, take on `Equal`. -/
def scan (state tok : Nat) : List Trans → Bool → Option Trans
  | [], _ => none
  | tr :: rest, seen =>
    if tr.src ≠ state then
      if seen then none else scan state tok rest false
    else if tr.term = tok then some tr
    else if tr.term > tok then none
    else scan state tok rest true

structure St where
  state : Nat
  prodNum : Int
  lastProd : Int
  lastAcc : Option Nat
  deriving Repr

/-- The outer loop `for i in 0..k` over the k significant lookahead token types. -/
def evalLoop (d : LaDfa) (stop : Bool) : List Nat → St → St
  | [], s => s
  | tok :: rest, s =>
    match scan s.state tok d.trans false with
    | some tr =>
      let s' : St :=
        if tr.prod > -1 then ⟨tr.dst, tr.prod, tr.prod, some tr.dst⟩
        else ⟨tr.dst, tr.prod, s.lastProd, s.lastAcc⟩
      evalLoop d stop rest s'
    | none => if stop then s else evalLoop d stop rest s

def evalInit (d : LaDfa) : St := ⟨0, d.prod0, -1, if d.prod0 > -1 then some 0 else none⟩

inductive EvalRes
  | ok (p : Int)
  | predictError
  /-- `debug_assert!(last_prod_num > INVALID_PROD)` fails (debug builds panic; release builds would
      return `-1 as usize`). Only reachable when state 0 is accepting *and* has outgoing transitions. -/
  | assertFail
  deriving DecidableEq, Repr

/-- `eval`: `la` are the token types `lookahead_token_type(0..k)` would deliver (EOI-padded). -/
def eval (d : LaDfa) (stop : Bool) (la : List Nat) : EvalRes :=
  let s := evalLoop d stop (la.take d.k) (evalInit d)
  if s.prodNum > -1 then .ok s.prodNum
  else match s.lastAcc with
    | some _ => if s.lastProd > -1 then .ok s.lastProd else .assertFail
    | none => .predictError

/-- Reference semantics: the transition relation read as a (partial) function, first match. -/
def stepRef (d : LaDfa) (state tok : Nat) : Option Trans :=
  d.trans.find? (fun tr => tr.src = state ∧ tr.term = tok)

/-- `runRef d st p w`: run from state `st` (whose production annotation is `p`) over all of `w`;
    the result is the annotation of the reached state if it is accepting. -/
def runRef (d : LaDfa) : Nat → Int → List Nat → Option Int
  | _, p, [] => if p > -1 then some p else none
  | st, _, tok :: rest =>
    match stepRef d st tok with
    | some tr => runRef d tr.dst tr.prod rest
    | none => none

/-- `p` is predicted by some prefix (length ≤ k) of the lookahead. -/
def acceptsPrefix (d : LaDfa) (la : List Nat) (p : Int) : Bool :=
  (List.range (d.k + 1)).any (fun n => runRef d 0 d.prod0 (la.take n) == some p)

def noPrefixAccepted (d : LaDfa) (la : List Nat) : Bool :=
  (List.range (d.k + 1)).all (fun n => (runRef d 0 d.prod0 (la.take n)).isNone)

/-- Well-formedness the generator establishes: sorted by (src, term), strictly (hence deterministic). -/
def sortedTrans : List Trans → Bool
  | a :: b :: rest => (a.src < b.src || (a.src == b.src && a.term < b.term)) && sortedTrans (b :: rest)
  | _ => true

def parseTrans (s : String) : Option (List Trans) :=
  if s == "-" then some [] else
  (s.splitOn ";").mapM (fun t =>
    match t.splitOn ":" with
    | [a, b, c, p] => do
      let a ← a.toNat?; let b ← b.toNat?; let c ← c.toNat?; let p ← Proto.parseInt p
      some ⟨a, b, c, p⟩
    | _ => none)

def showRes : EvalRes → String
  | .ok p => s!"ok {p}"
  | .predictError => "predict-error"
  | .assertFail => "panic"

-- @handler eval handleEval
/-- Protocol: `eval <prod0> <trans> <k> <la>` → `ok <p>` | `predict-error`. -/
def handleEval : List String → Option String
  | [p0, tr, k, la] => do
    let p0 ← Proto.parseInt p0
    let tr ← parseTrans tr
    let k ← k.toNat?
    let la ← Proto.parseNats la
    some (showRes (eval ⟨p0, tr, k⟩ true la))
  | _ => none

-- @handler eval-check handleEvalCheck
/-- Property oracle: `eval-check <prod0> <trans> <k> <la> <reply…>` → `ok` iff the reply is a production
    accepted by a prefix (≤ k) of the lookahead, or a prediction error while no prefix is accepted. -/
def handleEvalCheck : List String → Option String
  | p0 :: tr :: k :: la :: reply => do
    let p0 ← Proto.parseInt p0
    let tr ← parseTrans tr
    let k ← k.toNat?
    let la ← Proto.parseNats la
    let d : LaDfa := ⟨p0, tr, k⟩
    -- the property quantifies over automata parol produces (sorted); malformed ones only test totality
    -- (a panic is tolerated exactly where the model says the debug assertion fires)
    if !sortedTrans tr then
      (if reply == ["panic"] && eval d true la != .assertFail then some "fail panic" else some "ok") else
    match reply with
    | ["ok", p] => do
      let p ← Proto.parseInt p
      if acceptsPrefix d (la.take k) p then some "ok" else some "fail predicted-production-not-accepted-by-any-lookahead-prefix"
    | ["predict-error"] =>
      if noPrefixAccepted d (la.take k) then some "ok" else some "fail prediction-error-although-a-prefix-is-accepted"
    | ["panic"] =>
      -- tolerated only where the model says the debug assertion fires (state 0 accepting with outgoing transitions)
      if eval d true la == .assertFail then some "ok" else some "fail panic"
    | _ => some "fail unexpected-reply"
  | _ => none

end ParolModel
