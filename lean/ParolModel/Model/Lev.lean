import ParolModel.Model.Proto
/-! Model of `parol_runtime::parser::recovery::Recovery::levenshtein_distance` (C31).
Import-free (core Lean only) so that the driver links natively. -/
namespace ParolModel

inductive Op | keep | insert | delete | replace
  deriving DecidableEq, Repr

/-- `dist xs ys` = d[i][j] of the Rust table where `xs`/`ys` are the *reversed* prefixes
    act[0..i] / exp[0..j] (head = last element). Tie order as in the code:
    start with Delete (d[i-1][j]+1), take Insert if strictly smaller, then Replace if strictly smaller. -/
def cell : List Nat → List Nat → Nat × Op
  | [], [] => (0, .insert)            -- ops[0][0] is overwritten by the j-loop: Insert
  | [], _ :: ys => (ys.length + 1, .insert)
  | _ :: xs, [] => (xs.length + 1, .delete)
  | x :: xs, y :: ys =>
    if x = y then ((cell xs ys).1, .keep)
    else
      let del := (cell xs (y :: ys)).1 + 1
      let ins := (cell (x :: xs) ys).1 + 1
      let rep := (cell xs ys).1 + 1
      let (m, o) := (del, Op.delete)
      let (m, o) := if ins < m then (ins, Op.insert) else (m, o)
      let (m, o) := if rep < m then (rep, Op.replace) else (m, o)
      (m, o)
termination_by xs ys => xs.length + ys.length

def dist (xs ys : List Nat) : Nat := (cell xs ys).1

/-- Backtracking from cell (xs, ys) to (0,0); ops in backtracking order (last op first). -/
def back : List Nat → List Nat → List Op
  | [], [] => []
  | [], _ :: ys => .insert :: back [] ys
  | _ :: xs, [] => .delete :: back xs []
  | x :: xs, y :: ys =>
    match (cell (x :: xs) (y :: ys)).2 with
    | .keep => .keep :: back xs ys
    | .replace => .replace :: back xs ys
    | .insert => .insert :: back (x :: xs) ys
    | .delete => .delete :: back xs (y :: ys)
termination_by xs ys => xs.length + ys.length

def cost (s : List Op) : Nat := (s.filter (· ≠ .keep)).length

/-- The public function: three early returns, DP table, backtracking, final `reverse`.
    (The early returns coincide with the general case; kept explicit to mirror the code.) -/
def lev (act exp : List Nat) : Nat × List Op :=
  if act.isEmpty && exp.isEmpty then (0, [])
  else if act.isEmpty then (exp.length, List.replicate exp.length .insert)
  else if exp.isEmpty then (act.length, List.replicate act.length .delete)
  else (dist act.reverse exp.reverse, (back act.reverse exp.reverse).reverse)

/-- Forward application of an edit script: `Keep` copies (and requires equality with the expected
    token), `Replace`/`Insert` take from `exp`, `Delete` drops from `act`; both inputs must be
    consumed completely. Returns the produced sequence. -/
def applyOps : List Op → List Nat → List Nat → Option (List Nat)
  | [], [], [] => some []
  | [], _, _ => none
  | .keep :: s, x :: xs, y :: ys => if x = y then (applyOps s xs ys).map (x :: ·) else none
  | .replace :: s, _ :: xs, y :: ys => (applyOps s xs ys).map (y :: ·)
  | .insert :: s, xs, y :: ys => (applyOps s xs ys).map (y :: ·)
  | .delete :: s, _ :: xs, ys => applyOps s xs ys
  | _ :: _, _, _ => none

def Op.code : Op → String
  | .keep => "K" | .insert => "I" | .delete => "D" | .replace => "R"

-- @handler lev handleLev
/-- Protocol: `lev <act> <exp>` → `<d> <ops>`. -/
def handleLev : List String → Option String
  | [a, e] => do
    let a ← Proto.parseNats a
    let e ← Proto.parseNats e
    let (d, ops) := lev a e
    some s!"{d} {if ops.isEmpty then "-" else ",".intercalate (ops.map Op.code)}"
  | _ => none

def Op.ofCode : String → Option Op
  | "K" => some .keep | "I" => some .insert | "D" => some .delete | "R" => some .replace | _ => none

-- @handler lev-check handleLevCheck
/-- Property oracle for one implementation reply. Protocol: `lev-check <act> <exp> <d> <ops>` →
    `ok` iff the script transforms `act` into `exp`, its cost is `d`, and `d` is the minimal
    distance (`(lev act exp).1`, proved minimal in Props/C31). -/
def handleLevCheck : List String → Option String
  | [a, e, d, ops] => do
    let a ← Proto.parseNats a
    let e ← Proto.parseNats e
    let d ← d.toNat?
    let ops ← if ops == "-" then some [] else (ops.splitOn ",").mapM Op.ofCode
    if applyOps ops a e != some e then some "fail script-does-not-transform"
    else if cost ops != d then some "fail cost-differs-from-reported-distance"
    else if (lev a e).1 != d then some "fail reported-distance-not-minimal"
    else some "ok"
  | _ => none

end ParolModel
