import ParolModel.Model.LaDfa
/-! Model of the generator side of the lookahead automata (C07):

* `crates/parol/src/analysis/lookahead_dfa.rs`: `LookaheadDFA::from_k_tuples` (`fromKTuples`),
  `add_transition` (`addTransition`), `unite` (`unite`, with the state mapping and the
  unconditional `coin_state`);
* `crates/parol/src/analysis/compiled_la_dfa.rs`: `CompiledDFA::from_lookahead_dfa`
  (`compileRaw` followed by `minimizeC`), `From<CompiledDFA> for AdjacencyList` (`adjOfCompiled`),
  `Neighbors::{add_neighbor, rename_neighbor, append}`, `AdjacencyList::{remove_state, rename_state,
  combine_two_states, combine_states, minimize, combine_equivalent_states, renumber_states,
  as_compiled_dfa}`.

`BTreeMap`s are association lists kept in key order (iteration order matters for the result);
where the Rust code iterates a `HashMap` (`group_by(..).drain()`), the model consumes an explicit
stream of choices (`List Nat`): every iteration order the hash map can produce corresponds to some
stream. The output type is C08's `LaDfa`. -/
namespace ParolModel

deriving instance DecidableEq for LaDfa

/-! ### `LookaheadDFA` -/

structure Edge where
  src : Nat
  term : Nat
  dst : Nat
  deriving DecidableEq, Repr

/-- `states[i].prod_num` for `i < prods.length`; `transitions` flattened in `BTreeMap` iteration
    order (ascending from-state, then ascending terminal); `k`. -/
structure LDfa where
  prods : List Int
  trans : List Edge
  k : Nat
  deriving DecidableEq, Repr

abbrev Tuple := List Nat

def lkp (l : List Edge) (src term : Nat) : Option Nat :=
  (l.find? (fun e => e.src = src ∧ e.term = term)).map (·.dst)

def edgeLt (a b : Edge) : Bool := a.src < b.src || (a.src == b.src && a.term < b.term)

/-- `BTreeMap` insertion of a key that is not present yet. -/
def insertEdge (e : Edge) : List Edge → List Edge
  | [] => [e]
  | x :: xs => if edgeLt e x then e :: x :: xs else x :: insertEdge e xs

/-- `add_transition`: the existing target, or a fresh state (`new_state`) and a new entry. The
    cases `OtherTransitions` and `NoTransition` differ only in how the nested map is extended. -/
def addTransition (d : LDfa) (src term : Nat) : LDfa × Nat :=
  match lkp d.trans src term with
  | some dst => (d, dst)
  | none =>
    let dst := d.prods.length
    ({ d with prods := d.prods ++ [-1], trans := insertEdge ⟨src, term, dst⟩ d.trans }, dst)

def addPath (d : LDfa) (cur : Nat) : List Nat → LDfa × Nat
  | [] => (d, cur)
  | t :: ts => addPath (addTransition d cur t).1 (addTransition d cur t).2 ts

/-- Loop body of `from_k_tuples`. The ε-tuple is `[]`: no transition, state 0 is marked. -/
def addTuple (p : Int) (d : LDfa) (t : Tuple) : LDfa :=
  let r := addPath d 0 t
  { r.1 with prods := r.1.prods.set r.2 p, k := max r.1.k t.length }

/-! `KTuples::sorted()`: derived `Ord` of `KTuple` = (`Incomplete` < `Complete`, then `Terminals`:
first the length, then the packed `u128`, in which the *last* terminal is the most significant
digit). The place of the ε-tuple in this order is not observable (it creates no state), the model
puts it first. -/

def tupleComplete (k : Nat) (t : Tuple) : Bool :=
  !t.isEmpty && (k ≤ t.length || t.getLast? == some 0)

def lexLt : List Nat → List Nat → Bool
  | [], [] => false
  | [], _ :: _ => true
  | _ :: _, [] => false
  | a :: as, b :: bs => a < b || (a == b && lexLt as bs)

def tupleLt (k : Nat) (a b : Tuple) : Bool :=
  let ca := tupleComplete k a
  let cb := tupleComplete k b
  (!ca && cb) || (ca == cb && (a.length < b.length || (a.length == b.length && lexLt a.reverse b.reverse)))

def insertTuple (k : Nat) (t : Tuple) : List Tuple → List Tuple
  | [] => [t]
  | x :: xs => if tupleLt k t x then t :: x :: xs else x :: insertTuple k t xs

def sortTuples (k : Nat) (l : List Tuple) : List Tuple := l.foldr (insertTuple k) []

def LDfa.init (p0 : Int) : LDfa := ⟨[p0], [], 0⟩

/-- `LookaheadDFA::from_k_tuples(k_tuples, prod_num)`; `k` is the lookahead size the tuples were
    built for (it only decides Complete/Incomplete, hence the order in which states are numbered). -/
def fromKTuples (k : Nat) (tuples : List Tuple) (p : Nat) : LDfa :=
  (sortTuples k tuples).foldl (addTuple p) (LDfa.init (if tuples.isEmpty then (p : Int) else -1))

/-! ### `unite` -/

inductive Err
  | conflict
  | panic
  | fuel
  deriving DecidableEq, Repr

def mapGet (m : List (Nat × Nat)) (k : Nat) : Option Nat := (m.find? (fun x => x.1 = k)).map (·.2)

/-- `BTreeMap::insert` (overwrites). -/
def mapSet : List (Nat × Nat) → Nat → Nat → List (Nat × Nat)
  | [], k, v => [(k, v)]
  | x :: xs, k, v => if x.1 = k then (k, v) :: xs else x :: mapSet xs k v

structure UState where
  res : LDfa
  map : List (Nat × Nat)
  changed : Bool
  deriving DecidableEq, Repr

/-- Body of the inner `for (terminal, to_state)` loop (the from-state's image is looked up per edge;
    the Rust code looks it up once per from-state, which is the same unless `other` has a self-loop —
    impossible for automata built by `from_k_tuples`/`unite`, whose edges go to larger states). -/
def uniteEdge (other : LDfa) (s : UState) (e : Edge) : Except Err UState :=
  match mapGet s.map e.src with
  | none => .ok s
  | some rs =>
    let r := addTransition s.res rs e.term
    let map' := mapSet s.map e.dst r.2
    if (mapGet s.map e.dst).isNone then
      match other.prods[e.dst]?, r.1.prods[r.2]? with
      | some op, some rp =>
        if op ≥ 0 ∧ rp ≥ 0 ∧ op ≠ rp then .error .conflict
        else .ok ⟨{ r.1 with prods := r.1.prods.set r.2 op }, map', true⟩   -- `coin_state`, unconditional
      | _, _ => .error .panic
    else .ok ⟨r.1, map', s.changed⟩

def unitePass (other : LDfa) (s : UState) : Except Err UState :=
  other.trans.foldlM (uniteEdge other) { s with changed := false }

def uniteLoop (other : LDfa) : Nat → UState → Except Err LDfa
  | 0, _ => .error .fuel
  | fuel + 1, s =>
    match unitePass other s with
    | .error e => .error e
    | .ok s' => if s'.changed then uniteLoop other fuel s' else .ok s'.res

/-- `self.unite(&other)`. `fixK = true` is the code as it is now (after the `fix:` commit
    "LookaheadDFA::unite keeps the larger lookahead size of both operands"): `k` is the maximum of
    both; `fixK = false` is the behaviour before the repair (the result kept `self.k`), kept so that
    the counterexample stays a checked theorem and a regression can be attributed. Every pass that reports a change maps a
    new to-state of `other`, so `other.trans.length + 2` passes suffice. -/
def unite (fixK : Bool) (self other : LDfa) : Except Err LDfa :=
  match uniteLoop other (other.trans.length + 2) ⟨self, [(0, 0)], false⟩ with
  | .error e => .error e
  | .ok d => .ok (if fixK then { d with k := max d.k other.k } else d)

/-- `calculate_lookahead_dfas` for one non-terminal: productions in ascending index order, the
    first trie is `self`, the others are united into it. -/
def uniteAll (fixK : Bool) (k : Nat) : List (Nat × List Tuple) → Option (Except Err LDfa)
  | [] => none
  | (p, ts) :: rest =>
    some (rest.foldlM (fun acc (q : Nat × List Tuple) => unite fixK acc (fromKTuples k q.2 q.1)) (fromKTuples k ts p))

/-! ### `CompiledDFA::from_lookahead_dfa` — conversion -/

def annot (prods : List Int) (s : Nat) : Int :=
  match prods[s]? with
  | some p => if p ≥ 0 then p else -1
  | none => -1

def compileRaw (d : LDfa) : LaDfa :=
  ⟨annot d.prods 0, d.trans.map (fun e => ⟨e.src, e.term, e.dst, annot d.prods e.dst⟩), d.k⟩

/-! ### `AdjacencyList` -/

section bm
variable {β : Type}

def bmGet (m : List (Nat × β)) (k : Nat) : Option β := (m.find? (fun x => x.1 == k)).map (·.2)

def bmRemove (m : List (Nat × β)) (k : Nat) : List (Nat × β) := m.filter (fun x => x.1 != k)

def bmInsertSorted (k : Nat) (v : β) : List (Nat × β) → List (Nat × β)
  | [] => [(k, v)]
  | x :: xs => if k < x.1 then (k, v) :: x :: xs else x :: bmInsertSorted k v xs

def bmInsert (m : List (Nat × β)) (k : Nat) (v : β) : List (Nat × β) := bmInsertSorted k v (bmRemove m k)

end bm

abbrev Nbrs := List (Nat × Nat)

def pairLe (a b : Nat × Nat) : Bool := a.1 < b.1 || (a.1 == b.1 && a.2 ≤ b.2)

def insertPair (x : Nat × Nat) : Nbrs → Nbrs
  | [] => [x]
  | y :: ys => if pairLe x y then x :: y :: ys else y :: insertPair x ys

/-- `Vec<(StateId, TerminalIndex)>::sort()`. -/
def sortPairs (l : Nbrs) : Nbrs := l.foldr insertPair []

/-- `rename_neighbor`. -/
def nbRename (nb : Nbrs) (id new : Nat) : Nbrs :=
  if nb.any (fun x => x.1 == id) then sortPairs (nb.map (fun x => if x.1 == id then (new, x.2) else x)) else nb

/-- `Neighbors::append`. -/
def nbAppend (a b : Nbrs) : Nbrs :=
  let r := b.foldl (fun acc n => if acc.contains n then acc else acc ++ [n]) a
  if r.length != a.length then sortPairs r else a

structure Adj where
  list : List (Nat × Nbrs)
  prods : List (Nat × Int)
  k : Nat
  deriving DecidableEq, Repr

/-- `impl From<CompiledDFA> for AdjacencyList`. -/
def adjOfCompiled (c : LaDfa) : Adj :=
  let list0 := c.trans.foldl (fun m t => bmInsert m t.dst ([] : Nbrs)) [(0, [])]
  let prods := c.trans.foldl (fun m t => bmInsert m t.dst t.prod) [(0, c.prod0)]
  let list := c.trans.foldl (fun m t =>
    match bmGet m t.src with
    | some nb => bmInsert m t.src (sortPairs (nb ++ [(t.dst, t.term)]))
    | none => m) list0
  ⟨list, prods, c.k⟩

def Adj.removeState (a : Adj) (id : Nat) : Adj :=
  { a with list := bmRemove a.list id, prods := bmRemove a.prods id }

def Adj.renameState (a : Adj) (id new : Nat) : Adj :=
  let list1 := match bmGet a.list id with
    | some e => bmInsert (bmRemove a.list id) new e
    | none => a.list
  let list2 := list1.map (fun x => (x.1, nbRename x.2 id new))
  let prods := match bmGet a.prods id with
    | some p => bmInsert (bmRemove a.prods id) new p
    | none => a.prods
  { a with list := list2, prods := prods }

/-- `combine_two_states`; `none` = a debug assertion fails. -/
def Adj.combineTwo (a : Adj) (keep merge : Nat) : Option Adj :=
  if keep = merge then none else
  match bmGet a.list keep, bmGet a.list merge, bmGet a.prods keep, bmGet a.prods merge with
  | some lk, some lm, some pk, some pm =>
    if pk ≠ pm then none else
    some (({ a with list := bmInsert a.list keep (nbAppend lk lm) }.removeState merge).renameState merge keep)
  | _, _, _, _ => none

/-- `combine_states`. -/
def Adj.combineStates (a : Adj) : List Nat → Option Adj
  | [] => some a
  | keep :: rest => rest.foldlM (fun (a : Adj) m => a.combineTwo keep m) a

/-- `group_by` up to the order of the groups: groups in first-occurrence order, members in input order. -/
def groupInsert {α κ : Type} [DecidableEq κ] (k : κ) (x : α) : List (κ × List α) → List (κ × List α)
  | [] => [(k, [x])]
  | g :: gs => if g.1 = k then (g.1, g.2 ++ [x]) :: gs else g :: groupInsert k x gs

def groupBy {α κ : Type} [DecidableEq κ] (key : α → κ) (l : List α) : List (κ × List α) :=
  l.foldl (fun acc x => groupInsert (key x) x acc) []

/-- Next choice from the stream, reduced to `0..n-1` (`n > 0`); an exhausted stream yields 0. -/
def pick (ch : List Nat) (n : Nat) : Nat × List Nat :=
  match ch with
  | [] => (0, [])
  | c :: cs => (c % n, cs)

/-- An iteration order of a hash map with the entries `l`. -/
def permute {α : Type} : Nat → List Nat → List α → List α × List Nat
  | 0, ch, _ => ([], ch)
  | n + 1, ch, l =>
    match l[(pick ch l.length).1]? with
    | none => ([], ch)
    | some x =>
      let r := permute n (pick ch l.length).2 (l.eraseIdx (pick ch l.length).1)
      (x :: r.1, r.2)

/-- First part of `minimize`: the accepting states of each production are combined. -/
def Adj.mergeFinals (a : Adj) (ch : List Nat) : Option (Adj × List Nat) :=
  let finals := a.prods.filter (fun x => x.2 != -1)
  let groups := groupBy (fun x => x.2) finals
  let ordered := permute groups.length ch groups
  (ordered.1.foldlM (fun (a : Adj) (g : Int × List (Nat × Int)) => a.combineStates (g.2.map (·.1))) a).map (fun a => (a, ordered.2))

/-- The candidate groups of one round of `combine_equivalent_states`: non-accepting states with
    equal neighbour lists, more than one member. `none` = `productions.get(s).unwrap()` panics. -/
def Adj.equivGroups (a : Adj) : Option (List (Nbrs × List (Nat × Nbrs))) :=
  if a.list.all (fun x => (bmGet a.prods x.1).isSome) then
    some ((groupBy (fun x => x.2) (a.list.filter (fun x => bmGet a.prods x.1 == some (-1)))).filter (fun g => g.2.length > 1))
  else none

/-- `combine_equivalent_states`: each round takes the first group with more than one member in hash
    order, i.e. an arbitrary one. Every round removes a state. -/
def Adj.combineEquiv : Nat → Adj → List Nat → Option (Adj × List Nat)
  | 0, _, _ => none
  | fuel + 1, a, ch =>
    match a.equivGroups with
    | none => none
    | some [] => some (a, ch)
    | some (g :: gs) =>
      match (g :: gs)[(pick ch (g :: gs).length).1]? with
      | none => none
      | some grp =>
        match a.combineStates (grp.2.map (·.1)) with
        | none => none
        | some a' => Adj.combineEquiv fuel a' (pick ch (g :: gs).length).2

def firstMismatch : Nat → List (Nat × Int) → Option Nat
  | _, [] => none
  | i, x :: r => if x.1 ≠ i then some x.1 else firstMismatch (i + 1) r

/-- `find_first_free_state_number`; `none` = `panic!("No free state number found!")`. -/
def firstFree (prods : List (Nat × Int)) : Option Nat :=
  (List.range' 1 (prods.length - 1)).find? (fun i => (bmGet prods i).isNone)

/-- `renumber_states`. Each round puts one more state in its place. `none` = panic or fuel. -/
def Adj.renumber : Nat → Adj → Option Adj
  | 0, _ => none
  | fuel + 1, a =>
    match firstMismatch 0 a.prods with
    | none => some a
    | some s =>
      match firstFree a.prods with
      | none => none
      | some new => Adj.renumber fuel (a.renameState s new)

def transLe (a b : Trans) : Bool := a.src < b.src || (a.src == b.src && a.term ≤ b.term)

def insertTrans (x : Trans) : List Trans → List Trans
  | [] => [x]
  | y :: ys => if transLe x y then x :: y :: ys else y :: insertTrans x ys

/-- `sort_by_key(|s| (s.from_state, s.term))` (stable). -/
def sortTransList (l : List Trans) : List Trans := l.foldr insertTrans []

/-- The transitions in the order `as_compiled_dfa` pushes them (before sorting). -/
def Adj.rawTrans (a : Adj) : List (Nat × Nat × Nat) :=
  a.list.flatMap (fun x => x.2.map (fun n => (x.1, n)))

/-- `as_compiled_dfa`; `none` = an `unwrap` panics. -/
def Adj.asCompiled (a : Adj) : Option LaDfa :=
  if a.rawTrans.all (fun y => (bmGet a.prods y.2.1).isSome) then
    match bmGet a.prods 0 with
    | some p0 =>
      some ⟨p0, sortTransList (a.rawTrans.filterMap
        (fun y => (bmGet a.prods y.2.1).map (fun p => (⟨y.1, y.2.2, y.2.1, p⟩ : Trans)))), a.k⟩
    | none => none
  else none

/-- `AdjacencyList::minimize` (with `ch` = the hash-map iteration orders). -/
def Adj.minimize (a : Adj) (ch : List Nat) : Option Adj :=
  match a.mergeFinals ch with
  | none => none
  | some (a1, ch1) =>
    match Adj.combineEquiv (a1.list.length + 1) a1 ch1 with
    | none => none
    | some (a2, _) => Adj.renumber (a2.list.length + 1) a2

/-- `CompiledDFA::minimize`. -/
def minimizeC (c : LaDfa) (ch : List Nat) : Option LaDfa :=
  match (adjOfCompiled c).minimize ch with
  | none => none
  | some a => a.asCompiled

/-- `CompiledDFA::from_lookahead_dfa`. -/
def compileDfa (d : LDfa) (ch : List Nat) : Option LaDfa := minimizeC (compileRaw d) ch

/-! ### Specification side: tuple sets -/

/-- The production whose tuple set contains `w` (first one). -/
def setsLookup : List (Nat × List Tuple) → List Nat → Option Int
  | [], _ => none
  | (p, ts) :: rest, w => if ts.contains w then some (p : Int) else setsLookup rest w

def isPrefixOf' : List Nat → List Nat → Bool
  | [], _ => true
  | _ :: _, [] => false
  | a :: as, b :: bs => a == b && isPrefixOf' as bs

/-- Non-empty, pairwise disjoint and prefix-free: every production has a tuple (in an accepted
    grammar every production is productive and every non-terminal reachable, so FIRST_k·FOLLOW_k is
    not empty), no tuple (of any production) is a proper prefix of another, and no tuple belongs to
    two productions. -/
def setsOk (sets : List (Nat × List Tuple)) : Bool :=
  let all := sets.flatMap (fun s => s.2.map (fun t => (s.1, t)))
  sets.all (fun s => !s.2.isEmpty) && all.all (fun a => all.all (fun b =>
    (if a.2 == b.2 then a.1 == b.1 else true) && (a.2 == b.2 || !isPrefixOf' a.2 b.2)))

def setsDepth (sets : List (Nat × List Tuple)) : Nat :=
  (sets.flatMap (·.2)).foldl (fun m t => max m t.length) 0

def dedupNat (l : List Nat) : List Nat := l.foldl (fun acc x => if acc.contains x then acc else acc ++ [x]) []

/-- All strings of length ≤ n over `alpha`. -/
def allStrings (alpha : List Nat) : Nat → List (List Nat)
  | 0 => [[]]
  | n + 1 => [] :: (allStrings alpha n).flatMap (fun w => alpha.map (fun a => a :: w))

/-- The property on one automaton: for every string up to depth + 1 over the alphabet of the tuple
    sets, the automaton's terminals and one foreign terminal, the reference run predicts `p` exactly
    when the string is one of `p`'s tuples. Returns the first offending string. -/
def langCheck (sets : List (Nat × List Tuple)) (d : LaDfa) : Option (List Nat) :=
  let alpha0 := dedupNat ((sets.flatMap (·.2)).flatten ++ d.trans.map (·.term))
  let alpha := alpha0 ++ [alpha0.foldl max 0 + 1]
  (allStrings alpha (setsDepth sets + 1)).find? (fun w => runRef d 0 d.prod0 w != setsLookup sets w)

/-! ### Protocol -/

def parseTuple (s : String) : Option Tuple :=
  if s == "e" then some [] else
  match Proto.parseNats s with
  | some [] => none
  | r => r

def parseSets (s : String) : Option (List (Nat × List Tuple)) :=
  (s.splitOn ";").mapM (fun part =>
    match part.splitOn "=" with
    | [p, ts] => do
      let p ← p.toNat?
      let ts ← if ts == "-" then some [] else (ts.splitOn "|").mapM parseTuple
      some (p, ts)
    | _ => none)

/-- Tuples as the real `KTuplesBuilder` keeps them: at most `k` terminals, EOI (0) only last. -/
def tupleNormal (k : Nat) (t : Tuple) : Bool := t.length ≤ k && !(t.dropLast.contains 0)

def setsNormal (k : Nat) (sets : List (Nat × List Tuple)) : Bool :=
  sets.all (fun s => s.2.all (tupleNormal k))

def showEdges (l : List Edge) : String :=
  if l.isEmpty then "-" else ";".intercalate (l.map (fun e => s!"{e.src}:{e.term}:{e.dst}"))

def showTransList (l : List Trans) : String :=
  if l.isEmpty then "-" else ";".intercalate (l.map (fun t => s!"{t.src}:{t.term}:{t.dst}:{t.prod}"))

def showErr : Err → String
  | .conflict => "conflict"
  | .panic => "panic"
  | .fuel => "fuel-exhausted"

def showAuto (d : LaDfa) (sep : String) : String :=
  s!"{d.prod0}{sep}{showTransList d.trans}{sep}{d.k}"

def parseEdges (s : String) : Option (List Edge) :=
  if s == "-" then some [] else
  (s.splitOn ";").mapM (fun t =>
    match t.splitOn ":" with
    | [a, b, c] => do
      let a ← a.toNat?; let b ← b.toNat?; let c ← c.toNat?
      some ⟨a, b, c⟩
    | _ => none)

-- @handler lad handleLad
/-- `lad <k> <maxterm> <sets>` → `ok <k> <prods> <edges>` | `conflict`. -/
def handleLad : List String → Option String
  | [k, _maxterm, sets] => do
    let k ← k.toNat?
    let sets ← parseSets sets
    if !setsNormal k sets then none else
    match ← uniteAll true k sets with
    | .ok d => some s!"ok {d.k} {Proto.showInts d.prods} {showEdges d.trans}"
    | .error e => some (showErr e)
  | _ => none

def compileSets (k : Nat) (sets : List (Nat × List Tuple)) (sep : String) : Option String :=
  match uniteAll true k sets with
  | none => none
  | some (.error e) => some (showErr e)
  | some (.ok d) =>
    match compileDfa d [] with
    | none => some "panic"
    | some c => some ("ok" ++ sep ++ showAuto c sep)

-- @handler cmp handleCmp
/-- `cmp <k> <maxterm> <sets>` → `ok <prod0> <trans> <k>` | `conflict`. -/
def handleCmp : List String → Option String
  | [k, _maxterm, sets] => do
    let k ← k.toNat?
    let sets ← parseSets sets
    if !setsNormal k sets then none else compileSets k sets " "
  | _ => none

/-- Edges as a `BTreeMap<_, BTreeMap<_, _>>` built by successive `insert`s (later entries overwrite). -/
def edgesToMap (l : List Edge) : List Edge :=
  l.foldl (fun acc e => insertEdge e (acc.filter (fun x => !(x.src == e.src && x.term == e.term)))) []

-- @handler min handleMin
/-- `min <k> <prods> <edges>` → `ok <prod0> <trans> <k>`: compile + minimise a given `LookaheadDFA`. -/
def handleMin : List String → Option String
  | [k, prods, edges] => do
    let k ← k.toNat?
    let prods ← Proto.parseInts prods
    let edges ← parseEdges edges
    match compileDfa ⟨prods, edgesToMap edges, k⟩ [] with
    | none => some "panic"
    | some c => some ("ok " ++ showAuto c " ")
  | _ => none

structure Block where
  nt : Nat
  k : Nat
  sets : List (Nat × List Tuple)

def parseBlocks (s : String) : Option (List Block) :=
  (s.splitOn "/").mapM (fun b =>
    match b.splitOn "@" with
    | [nt, k, _maxterm, sets] => do
      let nt ← nt.toNat?; let k ← k.toNat?; let sets ← parseSets sets
      some ⟨nt, k, sets⟩
    | _ => none)

-- @handler e2e handleE2e
/-- `e2e <maxk> <start> <prods> <blocks>` → `ok <nt>@<prod0>@<trans>@<k>/…`: the automata the model
    builds from the tuple sets the real analysis computed (the grammar itself is not used here). -/
def handleE2e : List String → Option String
  | [_maxk, _start, _prods, blocks] => do
    let bs ← parseBlocks blocks
    let rs ← bs.mapM (fun b =>
      match compileSets b.k b.sets "@" with
      | some r => if r.startsWith "ok@" then some s!"{b.nt}@{r.drop 3}" else none
      | none => none)
    some ("ok " ++ "/".intercalate rs)
  | _ => none

/-- Oracle on one automaton given as words `<prod0> <trans> <k>`. -/
def checkAuto (sets : List (Nat × List Tuple)) (p0 tr k : String) : Option String := do
  let p0 ← Proto.parseInt p0
  let tr ← parseTrans tr
  let k ← k.toNat?
  let d : LaDfa := ⟨p0, tr, k⟩
  if !sortedTrans tr then some "fail transitions-not-strictly-sorted" else
  match langCheck sets d with
  | some w => some s!"fail string-{Proto.showNats w}-predicts-{(runRef d 0 p0 w).getD (-1)}-but-tuple-sets-say-{(setsLookup sets w).getD (-1)}"
  | none => if k < setsDepth sets then some s!"fail k-field-{k}-below-depth-{setsDepth sets}" else
            if k > setsDepth sets then some s!"fail k-field-{k}-above-depth-{setsDepth sets}" else some "ok"

-- @handler c07-check handleC07Check
/-- Property oracle. `c07-check <sets> <reply…>`: for pairwise disjoint prefix-free sets the reply
    must be an automaton that predicts `p` on exactly `p`'s tuples (all strings up to depth + 1 over
    the alphabet plus a foreign terminal), strictly sorted, `k` = depth. Other sets: no panic. -/
def handleC07Check : List String → Option String
  | sets :: reply => do
    let sets ← parseSets sets
    if !setsOk sets then (if reply == ["panic"] then some "fail panic" else some "ok") else
    match reply with
    | ["ok", p0, tr, k] => checkAuto sets p0 tr k
    | _ => some "fail no-automaton-for-disjoint-prefix-free-sets"
  | _ => none

-- @handler c07-check-e2e handleC07CheckE2e
/-- `c07-check-e2e <blocks> <reply…>`: `c07-check` for every non-terminal of a grammar. -/
def handleC07CheckE2e : List String → Option String
  | [blocks, "ok", autos] => do
    let bs ← parseBlocks blocks
    let as := autos.splitOn "/"
    if as.length != bs.length then some "fail number-of-automata" else
    let rs ← (bs.zip as).mapM (fun (ba : Block × String) =>
      match ba.2.splitOn "@" with
      | [nt, p0, tr, k] =>
        if nt.toNat? != some ba.1.nt then some "fail non-terminal-order" else
        if !setsOk ba.1.sets then some s!"fail nt-{ba.1.nt}-tuple-sets-not-disjoint-prefix-free" else
        (checkAuto ba.1.sets p0 tr k).map (fun r => if r == "ok" then r else s!"{r}-nt-{ba.1.nt}")
      | _ => none)
    -- language failures first, then k-field failures
    match rs.find? (fun r => r != "ok" && !r.startsWith "fail k-field") with
    | some r => some r
    | none => some ((rs.find? (· != "ok")).getD "ok")
  | _ :: _ :: _ => some "fail no-automata"
  | _ => none

/-- Hypothesis of `minimize_preserves_run` on a compiled automaton: accepting states have no
    outgoing transitions (true of tries of prefix-free tuple sets). -/
def finalsAreLeaves (c : LaDfa) : Bool :=
  (c.prod0 == -1 || c.trans.all (fun t => t.src != 0)) &&
  c.trans.all (fun t => t.prod == -1 || c.trans.all (fun u => u.src != t.dst))

-- @handler c07-lad-check handleC07LadCheck
/-- `c07-lad-check <sets> <reply…>`: the un-minimised automaton (trie + unite) already predicts `p`
    on exactly `p`'s tuples, for pairwise disjoint prefix-free sets. -/
def handleC07LadCheck : List String → Option String
  | sets :: reply => do
    let sets ← parseSets sets
    if !setsOk sets then (if reply == ["panic"] then some "fail panic" else some "ok") else
    match reply with
    | ["ok", k, prods, edges] => do
      let k ← k.toNat?
      let prods ← Proto.parseInts prods
      let edges ← parseEdges edges
      let d := compileRaw ⟨prods, edges, k⟩
      if !sortedTrans d.trans then some "fail transitions-not-strictly-sorted" else
      match langCheck sets d with
      | some w => some s!"fail string-{Proto.showNats w}-predicts-{(runRef d 0 d.prod0 w).getD (-1)}-but-tuple-sets-say-{(setsLookup sets w).getD (-1)}"
      | none => if k < setsDepth sets then some s!"fail k-field-{k}-below-depth-{setsDepth sets}" else
                if k > setsDepth sets then some s!"fail k-field-{k}-above-depth-{setsDepth sets}" else some "ok"
    | _ => some "fail no-automaton-for-disjoint-prefix-free-sets"
  | _ => none

-- @handler c07-min-check handleC07MinCheck
/-- `c07-min-check <k> <prods> <edges> <reply…>`: minimisation does not change which production any
    token string predicts (all strings up to length 4 over the automaton's terminals plus a foreign
    one), keeps `k`, and yields a strictly sorted transition list — for inputs whose accepting
    states are leaves. -/
def handleC07MinCheck : List String → Option String
  | k :: prods :: edges :: reply => do
    let k ← k.toNat?
    let prods ← Proto.parseInts prods
    let edges ← parseEdges edges
    let c := compileRaw ⟨prods, edgesToMap edges, k⟩
    if !finalsAreLeaves c then (if reply == ["panic"] then some "fail panic" else some "ok") else
    match reply with
    | ["ok", p0, tr, k'] => do
      let p0 ← Proto.parseInt p0
      let tr ← parseTrans tr
      let k' ← k'.toNat?
      let d : LaDfa := ⟨p0, tr, k'⟩
      let alpha0 := dedupNat (c.trans.map (·.term))
      let alpha := alpha0 ++ [alpha0.foldl max 0 + 1]
      if !sortedTrans tr then some "fail transitions-not-strictly-sorted" else
      if k' != k then some "fail k-changed" else
      match (allStrings alpha 4).find? (fun w => runRef d 0 p0 w != runRef c 0 c.prod0 w) with
      | some w => some s!"fail string-{Proto.showNats w}-predicts-{(runRef d 0 p0 w).getD (-1)}-after-and-{(runRef c 0 c.prod0 w).getD (-1)}-before-minimisation"
      | none => some "ok"
    | _ => some "fail no-automaton"
  | _ => none

/-- Iteration orders tried by the `ord` request. -/
def ordStreams : List (List Nat) :=
  [[], List.replicate 24 1, [2, 3, 5, 7, 11, 13, 1, 4, 9, 6, 8, 10], [7, 6, 5, 4, 3, 2, 1, 0, 7, 6, 5, 4],
   List.replicate 24 1000003, [0, 1, 0, 2, 0, 3, 0, 4, 0, 5, 0, 6]]

-- @handler ord handleOrd
/-- `ord <k> <prods> <edges>` → `ok <prod0> <trans> <k>` if compile + minimise gives the same automaton
    under every iteration order in `ordStreams` (the real code: in 8 repetitions), else `differ`. -/
def handleOrd : List String → Option String
  | [k, prods, edges] => do
    let k ← k.toNat?
    let prods ← Proto.parseInts prods
    let edges ← parseEdges edges
    let d : LDfa := ⟨prods, edgesToMap edges, k⟩
    match compileDfa d [] with
    | none => some "panic"
    | some c =>
      if ordStreams.all (fun ch => compileDfa d ch == some c) then some ("ok " ++ showAuto c " ") else some "differ"
  | _ => none

end ParolModel
