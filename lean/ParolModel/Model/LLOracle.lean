import ParolModel.Model.LLProto
import ParolModel.Model.LangOracle
/-! Verified checker for the table hypothesis of `ll_sound` and the C01 oracle handler. -/
namespace ParolModel

/-- Productions an automaton can predict: `prod0` and the annotations of its transitions. -/
def dfaProds (d : LaDfa) : List Int := d.prod0 :: d.trans.map (·.prod)

/-- Decidable form of `TablesSound` (Proofs/LL.lean): every predictable production of the automaton
    of non-terminal `a` has left-hand side `a`; no right-hand side contains `T(0)`. -/
def tablesSoundB (T : LLTables) : Bool :=
  (T.dfas.zipIdx.all fun (d, a) =>
    (dfaProds d).all fun p =>
      p ≤ -1 || (match T.prods[p.toNat]? with
                 | some pr => pr.lhs == a
                 | none => true)) &&
  (T.prods.all fun pr => !(pr.rhsRev.contains (PT.t 0)))

/-- Every index the run can touch is in range, right-hand sides contain no end-of-production
    marker and no `T(0)`, every automaton is sorted, and an automaton whose start state is accepting
    has no transitions (otherwise the runtime's `debug_assert!(last_prod_num > INVALID_PROD)` could
    fire). With this the model never answers `internal` — no index panic, no parse-tree-stack
    underflow, for any input (`ll_no_internal`, Props/C19). -/
def tablesInRangeB (T : LLTables) : Bool :=
  (T.start < T.dfas.length) &&
  (T.prods.all fun pr => pr.lhs < T.dfas.length &&
    pr.rhsRev.all fun s => match s with
      | .n a => a < T.dfas.length
      | .t a => a != 0
      | .e _ => false) &&
  (T.dfas.all fun d => sortedTrans d.trans && (d.prod0 ≤ -1 || d.trans.isEmpty) &&
    (dfaProds d).all fun p => p ≤ -1 || p.toNat < T.prods.length)

-- @handler ll-verdict handleLLVerdict
/-- `ll-verdict <start> <prods> <dfas> <gstart> <gprods> <w> <verdict-word>`:
    `ok` iff the real tables satisfy the checked hypotheses of `ll_sound` and the real parser's
    verdict on `w` equals membership of `w` in the language of the ORIGINAL grammar. -/
def handleLLVerdict : List String → Option String
  | [st, ps, ds, gst, gps, w, v] => do
    let st ← st.toNat?
    let ps ← parseLLProds ps
    let ds ← parseDfas ds
    let T : LLTables := ⟨st, ps, ds⟩
    if !tablesSoundB T then some "fail tables-not-sound" else
    if !tablesInRangeB T then some "fail tables-index-out-of-range-or-unsorted" else
    handleLangVerdict [gst, gps, w, v]
  | _ => none

-- @handler ll-tables-ok handleLLTablesOk
/-- `ll-tables-ok <start> <prods> <dfas>` → `ok` iff the real table set passes `tablesSoundB` and
    `tablesInRangeB` (the hypotheses of `ll_sound` and `ll_no_internal`). -/
def handleLLTablesOk : List String → Option String
  | [st, ps, ds] => do
    let st ← st.toNat?
    let ps ← parseLLProds ps
    let ds ← parseDfas ds
    let T : LLTables := ⟨st, ps, ds⟩
    if !tablesSoundB T then some "fail tables-not-sound"
    else if !tablesInRangeB T then some "fail tables-index-out-of-range-or-unsorted"
    else some "ok"
  | _ => none

end ParolModel
