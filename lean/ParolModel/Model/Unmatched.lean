import ParolModel.Model.Tokens
import ParolModel.Generated.ScannerConsts
/-! C16, scanner level: handlers for runs with stray characters. Uses the regenerated constant
`Generated.errorTokenRe`. -/
namespace ParolModel

-- @handler scan16 handleScan16
/-- `scan16 <k> <allow> <grammar> <modes> <text>` → delivered tokens as `scan` (no peeking). -/
def handleScan16 : List String → Option String
  | [k, _, g, m, w] => handleScan [k, "0", g, m, w]
  | _ => none

def parseDelivered (s : String) : Option (List (LTok × Bool)) :=
  if s == "-" then some [] else
  (s.splitOn ",").mapM fun t => match t.splitOn ":" with
    | [a, b, c, f] => do
      let f ← if f == "s" then some true else if f == "c" then some false else none
      some (⟨← a.toNat?, ← b.toNat?, ← c.toNat?, false⟩, f)
    | _ => none

/-- The mode ends with the catch-all: the regenerated ERROR_TOKEN regex, no lookahead, and a token
    type that no other terminal of any mode has. -/
def modeHasCatchAll (modes : List ScanMode) (m : ScanMode) : Bool :=
  match m.terms.getLast? with
  | some t => t.re == Generated.errorTokenRe && t.la.isNone &&
      modes.all fun m' => m'.terms.all fun u => u.tok < t.tok || (u.tok == t.tok && u.re == Generated.errorTokenRe)
  | none => false

/-- Code points of the text inside byte span `[a, b)`. -/
def cpsInSpan (w : List Nat) (a b : Nat) : List Nat :=
  let offs := byteOffsets w
  (w.zip offs).filterMap fun p => if a ≤ p.2 && p.2 < b then some p.1 else none

-- @handler c16-check handleC16Check
/-- Property oracle (scanner level): `c16-check <allow> <modes> <text> <delivered>`.
    allow = 0: every mode ends with the catch-all and NO gap token is delivered (every character is
    covered; unmatched ones by the error token); allow = 1: no mode has the catch-all, the delivered
    tokens are the documented ones with the unmatched stretches as gap tokens, delivered as skip
    tokens, and together they cover the text without holes. -/
def handleC16Check : List String → Option String
  | [allow, m, w, d] => do
    let allow ← Proto.parseBool allow
    let m ← parseScanModes m
    let w ← Proto.parseNats w
    let del ← parseDelivered d
    let gaps := del.filter (·.1.ty == invalidTy)
    if !allow then
      if !(m.all (modeHasCatchAll m)) then some "fail no-catch-all"
      else if gaps.isEmpty then some "ok"
      else
        let cs := dedupNatR (gaps.flatMap fun g => cpsInSpan w g.1.start g.1.stop)
        some ("fail gap-chars=" ++ Proto.showNats cs)
    else
      if m.any (modeHasCatchAll m) then some "fail catch-all-despite-allow"
      else match tokenizeSpec m w with
        | none => some "fuel-exhausted"
        | some ts =>
          let ref := deliveredRef (toLToks m w ts) (utf8Total w)
          let strip := fun (l : List (LTok × Bool)) => l.map fun p => (p.1.ty, p.1.start, p.1.stop, p.2)
          if strip ref != strip del then some "fail differs-from-documented-rule"
          else if gaps.any (!·.2) then some "fail gap-not-skipped"
          else
            -- contiguity: each token starts where the previous one ended, from 0 to the end
            let rec go (pos : Nat) : List (LTok × Bool) → Bool
              | [] => pos == utf8Total w
              | p :: r => p.1.start == pos && go p.1.stop r
            if go 0 del then some "ok" else some "fail hole"
  | _ => none

end ParolModel
