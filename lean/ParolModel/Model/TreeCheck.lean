import ParolModel.Model.LLProto
/-! Executable statement of "the parse tree is a derivation tree and the semantic actions are its
post-order" (C02, C03) and of "the leaves are exactly the tokens" (C14), evaluated on the REAL
parser's output. Independent of the parser models: it only reads the production table, the token
sequence, the reported action list and the tree events. -/
namespace ParolModel

inductive Child
  | tok (id : Nat)
  | nt (lhs : Nat)
  deriving DecidableEq, Repr

/-- Nodes in post-order (emitted when closed): label (`none` = artificial root) and children. -/
def postNodes : List TreeEv → List (Option Nat × List Child) → List (Option Nat × List Child) →
    Option (List (Option Nat × List Child))
  | [], [], out => some out.reverse
  | [], _ :: _, _ => none
  | .open_ l :: rest, stack, out => postNodes rest ((l, []) :: stack) out
  | .tok id :: rest, (l, ch) :: stack, out => postNodes rest ((l, .tok id :: ch) :: stack) out
  | .tok _ :: _, [], _ => none
  | .close :: rest, (l, ch) :: stack, out =>
    let node := (l, ch.reverse)
    match l, stack with
    | some a, (l2, ch2) :: stack' => postNodes rest ((l2, .nt a :: ch2) :: stack') (node :: out)
    | none, [] => postNodes rest [] (node :: out)
    | _, _ => none
  | .close :: _, [], _ => none

def leafIds : List TreeEv → List Nat
  | [] => []
  | .tok id :: rest => id :: leafIds rest
  | _ :: rest => leafIds rest

def parseChild (s : String) : Option Child :=
  if s.startsWith "t" then (s.drop 1).toNat?.map Child.tok
  else if s.startsWith "n" then (s.drop 1).toNat?.map Child.nt
  else none

/-- `p(c,c);p()` -/
def parseActions (s : String) : Option (List (Nat × List Child)) :=
  if s == "-" then some [] else
  (s.splitOn ";").mapM (fun a =>
    match a.splitOn "(" with
    | [p, rest] => do
      let p ← p.toNat?
      let inner := (rest.dropEnd 1).toString
      if !rest.endsWith ")" then none else
      let ch ← if inner == "" then some [] else (inner.splitOn ",").mapM parseChild
      some (p, ch)
    | _ => none)

/-- Tree events from `or,o3,t0,t1,c,t2,c` (open root, open nt 3, token 0, …, close). -/
def parseTree (s : String) : Option (List TreeEv) :=
  if s == "-" then some [] else
  (s.splitOn ",").mapM (fun w =>
    if w == "or" then some (TreeEv.open_ none)
    else if w == "c" then some TreeEv.close
    else if w.startsWith "o" then (w.drop 1).toNat?.map (fun n => TreeEv.open_ (some n))
    else if w.startsWith "t" then (w.drop 1).toNat?.map TreeEv.tok
    else none)

def symOfPT : PT → Option (Sum Nat Nat)   -- inl terminal type, inr non-terminal
  | .t a => some (.inl a)
  | .n a => some (.inr a)
  | .e _ => none

/-- Does the (significant part of the) child list of a node match the right-hand side of `pr`? -/
def childrenMatch (toks : List MTok) (rhs : List PT) (ch : List Child) : Bool :=
  let sig := ch.filter fun c => match c with
    | .tok id => match toks[id]? with
      | some t => !t.skip
      | none => true
    | .nt _ => true
  sig.length == rhs.length &&
  (sig.zip rhs).all fun (c, s) => match c, s with
    | .tok id, .t a => (toks[id]?).map (·.ty) == some a
    | .nt l, .n a => l == a
    | _, _ => false

def sigChildren (toks : List MTok) (ch : List Child) : List Child :=
  ch.filter fun c => match c with
    | .tok id => match toks[id]? with
      | some t => !t.skip
      | none => true
    | .nt _ => true

/-- The derivation-tree / post-order check. `lhsOf p`, `rhsOf p` give the production table in
    natural order. Returns `none` if everything holds, else a reason. -/
def treeCheck (start : Nat) (lhsOf : Nat → Option Nat) (rhsOf : Nat → Option (List PT))
    (toks : List MTok) (acts : List (Nat × List Child)) (tree : List TreeEv) : Option String :=
  match postNodes tree [] [] with
  | none => some "tree-events-not-well-bracketed"
  | some nodes =>
    match nodes.reverse with
    | [] => some "no-root"
    | root :: innerRev =>
      let inner := innerRev.reverse
      if root.1 != none then some "last-closed-node-is-not-the-root" else
      if sigChildren toks root.2 != [.nt start] then some "root-does-not-have-exactly-the-start-symbol" else
      if inner.length != acts.length then some "number-of-actions-differs-from-number-of-production-nodes" else
      let bad := (inner.zip acts).find? fun (node, (p, args)) =>
        match node.1, lhsOf p, rhsOf p with
        | some l, some l', some rhs =>
          !(l == l' && childrenMatch toks rhs node.2 && sigChildren toks node.2 == args)
        | _, _, _ => true
      match bad with
      | some (_, (p, _)) => some s!"node-or-action-mismatch-at-production-{p}"
      | none =>
        if leafIds tree != List.range toks.length then some "leaves-are-not-exactly-the-tokens-in-order" else none

-- @handler ll-tree-check handleLLTreeCheck
/-- `ll-tree-check <start> <prods> <dfas> <tokens> <actions> <tree>` (successful, untrimmed LL run). -/
def handleLLTreeCheck : List String → Option String
  | [st, ps, _ds, toks, acts, tree] => do
    let st ← st.toNat?
    let ps ← parseLLProds ps
    let toks ← parseToks toks
    let acts ← parseActions acts
    let tree ← parseTree tree
    match treeCheck st (fun p => ps[p]?.map (·.lhs)) (fun p => ps[p]?.map (·.rhsRev.reverse)) toks acts tree with
    | none => some "ok"
    | some why => some s!"fail {why}"
  | _ => none

-- @handler lr-tree-check handleLRTreeCheck
/-- `lr-tree-check <start> <tprods> <tokens> <actions> <tree>` (successful, untrimmed LR run);
    `tprods` are the transformed grammar's productions with their symbols (`lhs:sym,sym;…`). -/
def handleLRTreeCheck : List String → Option String
  | [st, gps, toks, acts, tree] => do
    let st ← st.toNat?
    let gps ← parseRules gps
    let toks ← parseToks toks
    let acts ← parseActions acts
    let tree ← parseTree tree
    let rhsOf := fun (p : Nat) => gps[p]?.map (fun r => r.rhs.map (fun s => match s with
      | .t a => PT.t a
      | .n a => PT.n a))
    match treeCheck st (fun p => gps[p]?.map (·.lhs)) rhsOf toks acts tree with
    | none => some "ok"
    | some why => some s!"fail {why}"
  | _ => none

end ParolModel
