import ParolModel.Proofs.LLComplete
import ParolModel.Model.LLOracle
/-! Protocol handler for the hypothesis of the LL completeness theorems (C01, `ll_complete`,
`ll_accepts_iff_checked`): the verified checker `tablesExactB` evaluated on a REAL table set.
(Imports a proof file, which is core-only, because the checker is defined next to its soundness
proof `tablesExactB_sound`.) -/
namespace ParolModel

-- @handler ll-tables-exact handleLLTablesExact
/-- `ll-tables-exact <start> <prods> <dfas>` → `ok` iff the real table set passes `tablesSoundB` and
    `tablesExactB` (fuel 400 for the reference FIRST_k / FOLLOW_k fixpoints): then, by
    `ll_accepts_iff_checked`, the model parser accepts EXACTLY the language of the production table. -/
def handleLLTablesExact : List String → Option String
  | [st, ps, ds] => do
    let st ← st.toNat?
    let ps ← parseLLProds ps
    let ds ← parseDfas ds
    let T : LLTables := ⟨st, ps, ds⟩
    if !tablesSoundB T then some "fail tables-not-sound"
    else if !tablesExactB T 400 then some "fail tables-not-exact"
    else some "ok"
  | _ => none

end ParolModel
