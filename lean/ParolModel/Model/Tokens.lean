import ParolModel.Model.Regex
/-! L11 — tokens, `TokenBuffer` and the read-ahead of `TokenStream` (C13, C16).

Mirrors crates/parol_runtime/src/lexer/{token_iter,token_buffer,token_stream}.rs:
* `TokenIter`: the scanner's matches, then at most `k` EOI tokens located at `len..len`, then nothing;
* `TokenBuffer::add`: a gap token (`INVALID_TOKEN`) is inserted when the new token does not start
  where the last one ended;
* `TokenStream::read_tokens(n)`: reads until `n` non-skip tokens were added, then pads with filler
  EOIs located at `0..0`; `ensure_buffer`, `consume`, `take_skip_tokens`;
* the parser's access pattern: take the skip tokens, consume one token, until EOI.
Positions are byte offsets. Import-free. -/
namespace ParolModel

def eoiTy : Nat := 0
def invalidTy : Nat := 65534        -- INVALID_TOKEN = TerminalIndex::MAX - 1
def firstUserTy : Nat := 5

structure LTok where
  ty : Nat
  start : Nat
  stop : Nat
  stateSkip : Bool := false
  deriving DecidableEq, Repr

/-- `Token::is_skip_token`. -/
def isSkipTy (ty : Nat) : Bool := (decide (0 < ty) && decide (ty < firstUserTy)) || ty == invalidTy

/-- `Token::is_effectively_skip_token`. -/
def LTok.effSkip (t : LTok) : Bool := isSkipTy t.ty || t.stateSkip

structure TBuf where
  toks : List LTok := []
  lastEnd : Nat := 0
  deriving DecidableEq, Repr

/-- `TokenBuffer::add`. -/
def TBuf.add (b : TBuf) (t : LTok) : TBuf :=
  let toks := if b.lastEnd < t.start then b.toks ++ [⟨invalidTy, b.lastEnd, t.start, false⟩] else b.toks
  { toks := toks ++ [t], lastEnd := t.stop }

/-- `TokenBuffer::len`: only non-skip tokens count. -/
def TBuf.len (b : TBuf) : Nat := (b.toks.filter (!·.effSkip)).length

structure TStream where
  src : List LTok          -- what `TokenIter` will still deliver (matches, then k located EOIs)
  buf : TBuf
  k : Nat
  deriving Repr

/-- The `while let Some(..) = token_iter.next()` loop of `read_tokens`: returns the rest of the
    source, the buffer and the number of non-skip tokens read. -/
def bumpRead (t : LTok) (r : Nat) : Nat := if t.effSkip then r else r + 1

def readLoop : List LTok → TBuf → Nat → Nat → List LTok × TBuf × Nat
  | [], b, r, _ => ([], b, r)
  | t :: src, b, r, n =>
    if bumpRead t r ≥ n then (src, b.add t, bumpRead t r) else readLoop src (b.add t) (bumpRead t r) n

/-- Filler EOIs (`Token::eoi(TokenNumber::MAX)`, location `0..0`). -/
def fillEoi : Nat → TBuf → TBuf
  | 0, b => b
  | n + 1, b => fillEoi n (b.add ⟨eoiTy, 0, 0, false⟩)

/-- `TokenStream::read_tokens`. -/
def TStream.readTokens (s : TStream) (n : Nat) : TStream :=
  let (src, b, r) := readLoop s.src s.buf 0 n
  { s with src := src, buf := fillEoi (n - r) b }

/-- `TokenStream::ensure_buffer`. -/
def TStream.ensureBuffer (s : TStream) : TStream :=
  if s.buf.len < s.k then s.readTokens (s.k - s.buf.len) else s

/-- `TokenStream::take_skip_tokens`. -/
def TStream.takeSkip (s : TStream) : List LTok × TStream :=
  (s.buf.toks.takeWhile (·.effSkip), { s with buf := { s.buf with toks := s.buf.toks.dropWhile (·.effSkip) } })

/-- `TokenStream::consume` (`none` = one of its internal errors). -/
def TStream.consume (s : TStream) : Option (LTok × TStream) :=
  let s := s.ensureBuffer
  match s.buf.toks with
  | [] => none
  | t :: rest =>
    if s.buf.toks.all (·.effSkip) then none       -- "Consume on empty buffer is impossible"
    else if t.effSkip then none                    -- skip tokens at the beginning of the buffer
    else some (t, ({ s with buf := { s.buf with toks := rest } } : TStream).ensureBuffer)

/-- `TokenStream::new`: `k` is clamped to at least 1, the iterator delivers `k` located EOIs. -/
def TStream.new (ms : List LTok) (len k : Nat) : TStream :=
  let k := max 1 k
  ({ src := ms ++ List.replicate k (⟨eoiTy, len, len, false⟩ : LTok), buf := {}, k := k } : TStream).readTokens k

/-- `lookahead(n)`: `ensure_buffer`, then the n-th non-skip token. -/
def TStream.lookahead (s : TStream) (n : Nat) : Option (LTok × TStream) :=
  if n ≥ s.k then none else
  let s := s.ensureBuffer
  ((s.buf.toks.filter (!·.effSkip))[n]?).map (·, s)

/-- The parser's access pattern, as the harness drives it: (optionally peek at all `k` lookahead
    positions,) take the skip tokens, consume one token; stop after the first EOI. Each delivered
    token is flagged `true` if it came out of `take_skip_tokens`. -/
def deliver (peek : Bool) : Nat → TStream → Option (List (LTok × Bool))
  | 0, _ => none
  | f + 1, s =>
    let s? : Option TStream :=
      if peek then (List.range s.k).foldlM (fun s n => (s.lookahead n).map (·.2)) s else some s
    match s? with
    | none => none
    | some s =>
      let (sk, s) := s.takeSkip
      match s.consume with
      | none => none
      | some (t, s) =>
        let out := sk.map (·, true) ++ [(t, false)]
        if t.ty == eoiTy then some out else (deliver peek f s).map (out ++ ·)

/-- What every `k` and every schedule must deliver: all matches with the gaps filled, the gap
    before the end of input, and the first EOI. -/
def deliveredRef (ms : List LTok) (len : Nat) : List (LTok × Bool) :=
  let b := (ms ++ [(⟨eoiTy, len, len, false⟩ : LTok)]).foldl TBuf.add ({} : TBuf)
  b.toks.map fun t => (t, t.effSkip)

/-- Matches of the spec tokenizer as located tokens (byte offsets), with the state-skip flag of the
    mode the token was read in. -/
def toLToks (modes : List ScanMode) (w : List Nat) (ts : List ScanTok) : List LTok :=
  let offs := byteOffsets w
  ts.map fun t =>
    { ty := t.tok, start := offs.getD t.start 0, stop := offs.getD t.stop 0,
      stateSkip := ((modes[t.mode]?.map (·.skips)).getD []).contains t.tok }

def showDelivered (l : List (LTok × Bool)) : String :=
  if l.isEmpty then "-" else
  ",".intercalate (l.map fun p => s!"{p.1.ty}:{p.1.start}:{p.1.stop}:{if p.2 then "s" else "c"}")

def utf8Total (w : List Nat) : Nat := (w.map utf8Len).foldl (· + ·) 0

-- @handler scan handleScan
/-- `scan <k> <peek> <grammar> <modes> <text>` → tokens delivered by the model of `TokenStream` over
    the spec tokenizer (faithful to scnr2 0.5.2: `scnr2Text`, `scnr2Modes`): `type:start:end:s|c,…`. The grammar
    word is for the implementation only. -/
def handleScan : List String → Option String
  | [k, peek, _, m, w] => do
    let k ← k.toNat?
    let peek ← Proto.parseBool peek
    let m ← parseScanModes m
    let w ← Proto.parseNats w
    match tokenizeSpec (scnr2Modes m) (scnr2Text w) with
    | none => some "fuel-exhausted"
    | some ts =>
      let lt := toLToks m w ts
      match deliver peek (2 * lt.length + 8) (TStream.new lt (utf8Total w) k) with
      | none => some "stream-error"
      | some out => some (showDelivered out)
  | _ => none

-- @handler scan-check handleScanCheck
/-- Property oracle: `scan-check <modes> <text> <delivered>`: the implementation's delivered tokens
    must be those of the documented rule (`tokenizeSpec`, without any scanner quirk), with gaps
    filled and one EOI at the end — whatever `k` and the schedule were. -/
def handleScanCheck : List String → Option String
  | [m, w, d] => do
    let m ← parseScanModes m
    let w ← Proto.parseNats w
    match tokenizeSpec m w with
    | none => some "fuel-exhausted"
    | some ts =>
      let exp := showDelivered (deliveredRef (toLToks m w ts) (utf8Total w))
      if exp == d then some "ok" else some s!"fail expected={exp}"
  | _ => none

/-! ### `generate_build_information`: the order of the terminals of one scanner mode -/

structure ModeCfg where
  state : Nat
  autoNewline : Bool
  autoWs : Bool
  hasLineComments : Bool
  hasBlockComments : Bool
  allowUnmatched : Bool
  deriving Repr

/-- Token types of the terminal mappings in the order `generate_build_information` pushes them:
    newline, whitespace, line comment, block comment, the user terminals that belong to this state
    in index order (`i + FIRST_USER_TOKEN`), and last the error token (`terminal_names.len() - 1`)
    unless `allow_unmatched`. `termStates[i]` are the scanner states of user terminal `i`. -/
def buildOrder (c : ModeCfg) (termStates : List (List Nat)) (nNames : Nat) : List Nat :=
  (if c.autoNewline then [1] else []) ++
  (if c.autoWs then [2] else []) ++
  (if c.hasLineComments then [3] else []) ++
  (if c.hasBlockComments then [4] else []) ++
  ((List.range termStates.length).filter fun i => ((termStates[i]?).getD []).contains c.state).map (· + firstUserTy) ++
  (if c.allowUnmatched then [] else [nNames - 1])

def parseStatesList (s : String) : Option (List (List Nat)) :=
  if s == "-" then some [] else
  (s.splitOn ";").mapM fun t => if t.isEmpty then some [] else (t.splitOn ".").mapM String.toNat?

-- @handler order handleOrder
/-- `order <grammar> <mode> <autoNl> <autoWs> <hasLine> <hasBlock> <allow> <term-states> <nNames>` →
    the token types of the mode's terminal mappings, in order. -/
def handleOrder : List String → Option String
  | [_, st, a, b, c, d, e, ts, n] => do
    let cfg : ModeCfg := ⟨← st.toNat?, ← Proto.parseBool a, ← Proto.parseBool b, ← Proto.parseBool c,
      ← Proto.parseBool d, ← Proto.parseBool e⟩
    some (Proto.showNats (buildOrder cfg (← parseStatesList ts) (← n.toNat?)))
  | _ => none

end ParolModel
