import ParolModel.Model.LR
import ParolModel.Model.LLOracle
/-! # Parser descriptions, their comparer and range checker; the terminal index function (C18, C21)

`ParserDesc` is ONE abstract description of a generated parser: grammar type, start symbol,
productions (left-hand side, right-hand-side symbols with terminal indices, push flag), lookahead
automata or LR action list and rows, terminal names, non-terminal names, skip lists per scanner
state, scanner modes (ordered token list `(regex text, token type, lookahead)` + transitions) and
the lookahead size handed to the token stream.

The harness produces such a description per grammar from three independent sources — the analysis
objects, the JSON export model and the TEXT of the generated Rust parser — and `descAgree`
reports the first difference; `descInRange` checks every index. A source that does not state a
component leaves a *wildcard*: `unk` for a right-hand-side symbol (LR `PRODUCTIONS` only carry the
length), `none` for a terminal name (the export model has no names), `none` for the regex of a
built-in comment token (the export model has only the comment delimiters), `none` for the
lookahead size.

Strings (names, regex texts) are kept in their wire form (`%HH`-escaped words, injective), so that
equality of words is equality of texts.

The second part is the model of `Cfg::get_ordered_terminals` / `get_terminal_index_function`
(`crates/parol/src/grammar/cfg.rs`) over a list of terminal occurrences. -/
namespace ParolModel.Tbl

-- ---------------------------------------------------------------------------------------------
-- descriptions

inductive PKind
  | ll
  | lr
  deriving DecidableEq, Repr

/-- Right-hand-side symbol of a description; `unk`: a symbol is there, the source does not say which. -/
inductive PSym
  | t (i : Nat)
  | n (i : Nat)
  | unk
  deriving DecidableEq, Repr

structure DProd where
  lhs : Nat
  rhs : List PSym          -- in grammar order
  push : Bool
  deriving DecidableEq, Repr

/-- Lookahead automaton with the non-terminal index its source declares for it. -/
structure DAuto where
  nt : Nat
  prod0 : Int
  k : Nat
  trans : List Trans
  deriving DecidableEq, Repr

/-- LR state as generated: `(terminal, index into the action list)`, `(non-terminal, state)`. -/
structure DRow where
  acts : List (Nat × Nat)
  gotos : List (Nat × Nat)
  deriving DecidableEq, Repr

structure DTok where
  rx : Option String
  ty : Nat
  la : Option (Bool × String)
  deriving DecidableEq, Repr

inductive TrKind
  | enter
  | push
  | pop
  deriving DecidableEq, Repr

structure DTrans where
  ty : Nat
  kind : TrKind
  target : Nat             -- mode index; 0 for `pop`
  deriving DecidableEq, Repr

structure DMode where
  name : String
  toks : List DTok
  trans : List DTrans
  deriving DecidableEq, Repr

structure ParserDesc where
  kind : PKind
  start : Nat
  prods : List DProd
  autos : List DAuto
  lrActs : List LRAct
  lrRows : List DRow
  tnames : List (Option String)
  ntnames : List String
  skips : List (List Nat)
  modes : List DMode
  maxk : Option Nat
  deriving Repr

-- ---------------------------------------------------------------------------------------------
-- decoding into the tables of the run-time models

def symToPT : PSym → Option PT
  | .t i => some (.t i)
  | .n i => some (.n i)
  | .unk => none

def toLLProd (p : DProd) : Option LLProd :=
  (p.rhs.mapM symToPT).map fun r => ⟨p.lhs, r.reverse, p.push⟩

def autoDfa (a : DAuto) : LaDfa := ⟨a.prod0, a.trans, a.k⟩

/-- The `LLTables` an LL description denotes (`none`: not LL, or a symbol is not stated). -/
def toLL (d : ParserDesc) : Option LLTables :=
  if d.kind = .ll then
    (d.prods.mapM toLLProd).map fun ps => ⟨d.start, ps, d.autos.map autoDfa⟩
  else none

/-- A row with the action indices resolved through the action list. -/
def resolveRow (acts : List LRAct) (r : DRow) : Option (List (Nat × LRAct) × List (Nat × Nat)) :=
  (r.acts.mapM fun (p : Nat × Nat) => (acts[p.2]?).map fun a => (p.1, a)).map fun a => (a, r.gotos)

def resolvedRows (d : ParserDesc) : List (Option (List (Nat × LRAct) × List (Nat × Nat))) :=
  d.lrRows.map (resolveRow d.lrActs)

def lrProd (p : DProd) : LRProd := ⟨p.lhs, p.rhs.length, p.push⟩

/-- The `LRTables` an LR description denotes (`none`: not LR, or an action index is out of range). -/
def toLR (d : ParserDesc) : Option LRTables :=
  if d.kind = .lr then
    ((resolvedRows d).mapM id).map fun rows =>
      ⟨d.start, d.prods.map lrProd, rows.map fun r => ⟨r.1, r.2⟩⟩
  else none

-- ---------------------------------------------------------------------------------------------
-- comparer

def chk (c : Bool) (msg : String) : Option String := if c then none else some msg

def firstSome : List (Option String) → Option String
  | [] => none
  | none :: rest => firstSome rest
  | some m :: _ => some m

/-- Index of the first position where the lists differ under `eqf` (a missing element differs). -/
def listDiff {α : Type} (eqf : α → α → Bool) : List α → List α → Nat → Option Nat
  | [], [], _ => none
  | x :: xs, y :: ys, i => if eqf x y then listDiff eqf xs ys (i + 1) else some i
  | _, _, i => some i

def diffMsg {α : Type} (what : String) (eqf : α → α → Bool) (a b : List α) : Option String :=
  match listDiff eqf a b 0 with
  | none => none
  | some i => some s!"{what}[{i}]"

/-- Wildcard-aware agreement of optional components. -/
def optAgree {α : Type} [DecidableEq α] : Option α → Option α → Bool
  | some x, some y => decide (x = y)
  | _, _ => true

def symAgree : PSym → PSym → Bool
  | .unk, _ => true
  | _, .unk => true
  | a, b => decide (a = b)

/-- Productions agree: exactly for LL; up to unstated symbols (equal length) for LR. -/
def prodAgree (k : PKind) (a b : DProd) : Bool :=
  match k with
  | .ll => decide (a = b)
  | .lr => a.lhs == b.lhs && a.push == b.push && (listDiff symAgree a.rhs b.rhs 0).isNone

def tokAgree (a b : DTok) : Bool :=
  a.ty == b.ty && decide (a.la = b.la) && optAgree a.rx b.rx

def modeAgree (a b : DMode) : Bool :=
  a.name == b.name && (listDiff tokAgree a.toks b.toks 0).isNone && decide (a.trans = b.trans)

/-- `none` iff the two descriptions describe the same parser; otherwise the first difference. -/
def descAgree (a b : ParserDesc) : Option String :=
  firstSome [
    chk (decide (a.kind = b.kind)) "kind",
    chk (a.start == b.start) "start",
    diffMsg "production" (prodAgree a.kind) a.prods b.prods,
    diffMsg "automaton" (fun x y => decide (x = y)) a.autos b.autos,
    diffMsg "lr-state" (fun x y => decide (x = y)) (resolvedRows a) (resolvedRows b),
    diffMsg "terminal-name" optAgree a.tnames b.tnames,
    diffMsg "non-terminal-name" (fun x y => decide (x = y)) a.ntnames b.ntnames,
    diffMsg "skip-list" (fun x y => decide (x = y)) a.skips b.skips,
    diffMsg "scanner-mode" modeAgree a.modes b.modes,
    chk (optAgree a.maxk b.maxk) "max-k"]

-- ---------------------------------------------------------------------------------------------
-- range checker

def ntok (d : ParserDesc) : Nat := d.tnames.length

/-- A terminal a production / skip list / transition may name: a user terminal (not a built-in
    token 0..4, not the error token, which is the last one). -/
def userTerm (d : ParserDesc) (i : Nat) : Bool := 5 ≤ i && i + 1 < ntok d

/-- A terminal a lookahead automaton or LR action may name: end of input or a user terminal. -/
def laTerm (d : ParserDesc) (i : Nat) : Bool := i == 0 || userTerm d i

def symInRange (d : ParserDesc) : PSym → Bool
  | .t i => userTerm d i
  | .n i => i < d.ntnames.length
  | .unk => true

def autosAligned : List DAuto → Nat → Bool
  | [], _ => true
  | a :: rest, i => a.nt == i && autosAligned rest (i + 1)

def actInRange (d : ParserDesc) : LRAct → Bool
  | .shift s => s < d.lrRows.length
  | .reduce n p => n < d.ntnames.length && (match d.prods[p]? with
      | some pr => pr.lhs == n
      | none => false)
  | .accept => true

/-- The three conjuncts of `tablesInRangeB`, separately (for separate messages). -/
def llStartOk (T : LLTables) : Bool := T.start < T.dfas.length
def llProdsOk (T : LLTables) : Bool :=
  T.prods.all fun pr => pr.lhs < T.dfas.length &&
    pr.rhsRev.all fun s => match s with
      | .n a => a < T.dfas.length
      | .t a => a != 0
      | .e _ => false
def llDfasOk (T : LLTables) : Bool :=
  T.dfas.all fun d => sortedTrans d.trans && (d.prod0 ≤ -1 || d.trans.isEmpty) &&
    (dfaProds d).all fun p => p ≤ -1 || p.toNat < T.prods.length

def kindChecks (d : ParserDesc) : List (Option String) :=
  match d.kind with
  | .ll =>
    match toLL d with
    | none => [some "ll: a production symbol is not stated"]
    | some T => [
        chk (d.autos.length == d.ntnames.length) "ll: number of automata differs from number of non-terminals",
        chk (autosAligned d.autos 0) "ll: automaton is not at the position of its non-terminal",
        chk (llStartOk T) "ll: start symbol has no automaton",
        chk (llProdsOk T) "ll: production refers to a non-terminal without automaton",
        chk (llDfasOk T) "ll: automaton unsorted or predicts a production out of range",
        chk (tablesSoundB T) "ll: automaton predicts a production of another non-terminal, or T(0) in a production",
        chk (d.autos.all fun a => a.trans.all fun t => laTerm d t.term) "ll: automaton transition on a terminal out of range",
        chk (match d.maxk with
             | some m => d.autos.all fun a => a.k ≤ m
             | none => true) "ll: MAX_K smaller than the k of an automaton",
        chk (d.lrActs.isEmpty && d.lrRows.isEmpty) "ll: description has LR parts"]
  | .lr =>
    match toLR d with
    | none => [some "lr: action index out of range"]
    | some _ => [
        chk (!d.lrRows.isEmpty) "lr: no states",
        chk (d.lrActs.all (actInRange d)) "lr: action refers to a state / production / non-terminal out of range",
        chk (d.lrRows.all fun r => r.acts.all fun (p : Nat × Nat) => laTerm d p.1) "lr: action on a terminal out of range",
        chk (d.lrRows.all fun r => r.gotos.all fun (p : Nat × Nat) => p.1 < d.ntnames.length && p.2 < d.lrRows.length)
          "lr: goto out of range",
        chk (match d.maxk with
             | some m => 1 ≤ m
             | none => true) "lr: lookahead size 0",
        chk d.autos.isEmpty "lr: description has LL parts"]

/-- `none` iff every index of the description is in range; otherwise the first problem. -/
def descInRange (d : ParserDesc) : Option String :=
  firstSome ([
    chk (6 ≤ ntok d) "fewer than 6 token types",
    chk (d.start < d.ntnames.length) "start symbol out of range",
    chk (d.prods.all fun p => p.lhs < d.ntnames.length) "production: left-hand side out of range",
    chk (d.prods.all fun p => p.rhs.all (symInRange d)) "production: symbol out of range",
    chk (!d.modes.isEmpty) "no scanner mode",
    chk (d.skips.length == d.modes.length) "number of skip lists differs from number of scanner modes",
    chk (d.skips.all fun l => l.all (userTerm d)) "skip list: terminal out of range",
    chk (d.modes.all fun m => m.toks.all fun t => 1 ≤ t.ty && t.ty < ntok d) "scanner mode: token type out of range",
    chk (d.modes.all fun m => m.trans.all fun t => userTerm d t.ty && t.target < d.modes.length)
      "scanner transition: terminal or target mode out of range"] ++ kindChecks d)

-- ---------------------------------------------------------------------------------------------
-- wire format: eleven words
-- `<ll|lr> <start> <prods> <autos> <lracts> <lrrows> <tnames> <ntnames> <skips> <modes> <maxk>`
-- prods   `lhs:push:sym,sym;…`          sym = `t<n>` | `n<n>` | `x`; empty list `-`
-- autos   `nt/prod0/k/trans;…`          trans = `-` | `from:term:to:prod+…`; empty list `-`
-- lracts  `S:<state>,R:<nt>:<prod>,A`   empty list `-`
-- lrrows  `acts/gotos;…`                acts = `-` | `term:idx+…`, gotos = `-` | `nt:state+…`
-- tnames  `<word>,…` with `?` for an unstated name;  ntnames `<word>,…`
-- skips   `<nats>;…` (one per scanner state, `-` for an empty one); no scanner state at all: `~`
-- modes   `name|toks|trans;…`  toks = `-` | `rx:ty:la+…` (rx = word | `?`; la = `-` | `p.<word>` | `n.<word>`)
--                              trans = `-` | `ty:e:<mode>+ty:u:<mode>+ty:o`
-- maxk    `<n>` | `?`

def listOf {α : Type} (sep : String) (f : String → Option α) (s : String) : Option (List α) :=
  if s == "-" then some [] else (s.splitOn sep).mapM f

def parseSym (s : String) : Option PSym :=
  if s == "x" then some .unk
  else if s.startsWith "t" then (s.drop 1).toNat?.map PSym.t
  else if s.startsWith "n" then (s.drop 1).toNat?.map PSym.n
  else none

def parseDProd (s : String) : Option DProd :=
  match s.splitOn ":" with
  | [l, p, r] => do
    let l ← l.toNat?
    let p ← Proto.parseBool p
    let r ← if r == "" then some [] else (r.splitOn ",").mapM parseSym
    some ⟨l, r, p⟩
  | _ => none

def parseDAuto (s : String) : Option DAuto :=
  match s.splitOn "/" with
  | [n, p0, k, tr] => do
    let n ← n.toNat?
    let p0 ← Proto.parseInt p0
    let k ← k.toNat?
    let tr ← if tr == "-" then some [] else parseTrans (tr.replace "+" ";")
    some ⟨n, p0, k, tr⟩
  | _ => none

def parseAct (s : String) : Option LRAct :=
  match s.splitOn ":" with
  | ["S", st] => st.toNat?.map LRAct.shift
  | ["R", n, p] => do some (.reduce (← n.toNat?) (← p.toNat?))
  | ["A"] => some .accept
  | _ => none

def parsePair (s : String) : Option (Nat × Nat) :=
  match s.splitOn ":" with
  | [a, b] => do some (← a.toNat?, ← b.toNat?)
  | _ => none

def parseDRow (s : String) : Option DRow :=
  match s.splitOn "/" with
  | [a, g] => do some ⟨← listOf "+" parsePair a, ← listOf "+" parsePair g⟩
  | _ => none

def parseOptWord (s : String) : Option (Option String) :=
  if s == "?" then some none else if s == "" then none else some (some s)

def parseWord (s : String) : Option String := if s == "" || s == "?" then none else some s

def parseLa (s : String) : Option (Option (Bool × String)) :=
  if s == "-" then some none
  else if s.startsWith "p." then some (some (true, (s.drop 2).toString))
  else if s.startsWith "n." then some (some (false, (s.drop 2).toString))
  else none

def parseDTok (s : String) : Option DTok :=
  match s.splitOn ":" with
  | [rx, ty, la] => do some ⟨← parseOptWord rx, ← ty.toNat?, ← parseLa la⟩
  | _ => none

def parseDTrans (s : String) : Option DTrans :=
  match s.splitOn ":" with
  | [ty, "e", m] => do some ⟨← ty.toNat?, .enter, ← m.toNat?⟩
  | [ty, "u", m] => do some ⟨← ty.toNat?, .push, ← m.toNat?⟩
  | [ty, "o"] => do some ⟨← ty.toNat?, .pop, 0⟩
  | _ => none

def parseDMode (s : String) : Option DMode :=
  match s.splitOn "|" with
  | [n, ts, tr] => do some ⟨← parseWord n, ← listOf "+" parseDTok ts, ← listOf "+" parseDTrans tr⟩
  | _ => none

def parseDesc : List String → Option ParserDesc
  | [k, st, ps, au, la, lr, tn, nn, sk, mo, mk] => do
    let k ← if k == "ll" then some PKind.ll else if k == "lr" then some PKind.lr else none
    let st ← st.toNat?
    let ps ← listOf ";" parseDProd ps
    let au ← listOf ";" parseDAuto au
    let la ← listOf "," parseAct la
    let lr ← listOf ";" parseDRow lr
    let tn ← listOf "," parseOptWord tn
    let nn ← listOf "," parseWord nn
    let sk ← if sk == "~" then some [] else (sk.splitOn ";").mapM Proto.parseNats
    let mo ← listOf ";" parseDMode mo
    let mk ← if mk == "?" then some none else mk.toNat?.map some
    some ⟨k, st, ps, au, la, lr, tn, nn, sk, mo, mk⟩
  | _ => none

def descWords : Nat := 11

/-- Splits `n` descriptions off the front of a word list. -/
def takeDescs : Nat → List String → Option (List ParserDesc × List String)
  | 0, ws => some ([], ws)
  | n + 1, ws =>
    if ws.length < descWords then none else do
      let d ← parseDesc (ws.take descWords)
      let (ds, rest) ← takeDescs n (ws.drop descWords)
      some (d :: ds, rest)

def verdict : Option String → String
  | none => "ok"
  | some m => "fail " ++ m.replace " " "_"

-- ---------------------------------------------------------------------------------------------
-- the terminal index function

/-- `TerminalKind` (`grammar/symbol.rs`): `".."`, `/../`, `'..'`. -/
inductive TKind
  | legacy
  | regex
  | raw
  deriving DecidableEq, Repr

/-- `TerminalKind::behaves_like`. -/
def TKind.behavesLike : TKind → TKind → Bool
  | .raw, .raw => true
  | .raw, _ => false
  | _, .raw => false
  | _, _ => true

/-- `LookaheadExpression` (derived `PartialEq`: all three fields, the kind compared exactly). -/
structure LaExpr where
  positive : Bool
  pattern : String
  kind : TKind
  deriving DecidableEq, Repr

/-- A terminal occurrence `Terminal::Trm(text, kind, scanner states, …, lookahead)`. -/
structure TOcc where
  text : String
  kind : TKind
  la : Option LaExpr
  states : List Nat
  deriving DecidableEq, Repr

/-- The predicate of both `position` calls: equal text, kinds that behave alike, equal lookahead. -/
def sameTerm (a b : TOcc) : Bool :=
  a.text == b.text && a.kind.behavesLike b.kind && decide (a.la = b.la)

/-- `for st in s { if !acc[pos].3.contains(st) { acc[pos].3.push(*st) } }`. -/
def uniteStates : List Nat → List Nat → List Nat
  | acc, [] => acc
  | acc, s :: rest => uniteStates (if acc.contains s then acc else acc ++ [s]) rest

/-- One step of the fold in `get_ordered_terminals`: unite the scanner states with the first entry
    that behaves like the occurrence, else append the occurrence. -/
def insertOcc : List TOcc → TOcc → List TOcc
  | [], o => [o]
  | e :: rest, o =>
    if sameTerm e o then { e with states := uniteStates e.states o.states } :: rest
    else e :: insertOcc rest o

/-- `Cfg::get_ordered_terminals` on the terminal occurrences of the productions, in order. -/
def orderedTerminals (occs : List TOcc) : List TOcc := occs.foldl insertOcc []

/-- `get_terminal_index_function`: position of the first entry that behaves like the query plus
    `FIRST_USER_TOKEN`; `none` is the failing `.unwrap()`. -/
def termIdx (occs : List TOcc) (q : TOcc) : Option Nat :=
  ((orderedTerminals occs).findIdx? fun e => sameTerm q e).map (· + 5)

def parseTKind (s : String) : Option TKind :=
  if s == "l" then some .legacy else if s == "x" then some .regex else if s == "r" then some .raw else none

/-- `text/kind/states/lasign/lakind/latext` with states `-` | `1.2`, lasign `-` | `p` | `n`. -/
def parseTOcc (s : String) : Option TOcc :=
  match s.splitOn "/" with
  | t :: k :: st :: ls :: lk :: lt :: _ => do
    let t ← parseWord t
    let k ← parseTKind k
    let st ← if st == "-" then some [] else (st.splitOn ".").mapM (·.toNat?)
    let la ← if ls == "-" then some none else do
      let pos ← if ls == "p" then some true else if ls == "n" then some false else none
      some (some ⟨pos, ← parseWord lt, ← parseTKind lk⟩)
    some ⟨t, k, la, st⟩
  | _ => none

def showStates (l : List Nat) : String := if l.isEmpty then "-" else ".".intercalate (l.map toString)

end ParolModel.Tbl

namespace ParolModel
open Tbl

-- @handler desc-agree Tbl.handleDescAgree
/-- `desc-agree <desc> <desc>` → `ok` | `fail <first difference>`. -/
def Tbl.handleDescAgree (ws : List String) : Option String := do
  let (ds, rest) ← takeDescs 2 ws
  match ds, rest with
  | [a, b], [] => some (verdict (descAgree a b))
  | _, _ => none

-- @handler desc-range Tbl.handleDescRange
/-- `desc-range <desc>` → `ok` | `fail <first problem>`. -/
def Tbl.handleDescRange (ws : List String) : Option String := do
  let d ← parseDesc ws
  some (verdict (descInRange d))

/-- Range check of each of the three descriptions (analysis `A`, export model `M`, source text `S`),
    then pairwise comparison; the first problem, tagged with its origin. -/
def Tbl.threeCheck (a m s : ParserDesc) : Option String :=
  let tag (t : String) (r : Option String) : Option String := r.map fun x => t ++ ":" ++ x
  firstSome [
    tag "range(A)" (descInRange a), tag "range(M)" (descInRange m), tag "range(S)" (descInRange s),
    tag "A/S" (descAgree a s), tag "A/M" (descAgree a m), tag "M/S" (descAgree m s)]

-- @handler d3 Tbl.handleD3
/-- Differential slot of a `d3` case: the model reads the three descriptions; the harness answers
    `same` when it reproduces them from the grammar text. -/
def Tbl.handleD3 : List String → Option String
  | _ :: _ :: ws => do
    let (_, rest) ← takeDescs 3 ws
    if rest.isEmpty then some "same" else none
  | _ => none

-- @handler d3-check Tbl.handleD3Check
/-- `d3-check <par> <k> <A> <M> <S>` → `ok` | `fail <origin>:<first problem>`. -/
def Tbl.handleD3Check : List String → Option String
  | _ :: _ :: ws => do
    let (ds, rest) ← takeDescs 3 ws
    match ds, rest with
    | [a, m, s], [] => some (verdict (Tbl.threeCheck a m s))
    | _, _ => none
  | _ => none

-- @handler termidx Tbl.handleTermIdx
/-- `termidx <occs> <queries>` (both `;`-separated occurrences) →
    `<ordered terminals as text/kind/states …;…> <index per query, `x` for a failing unwrap>`. -/
def Tbl.handleTermIdx : List String → Option String
  | [os, qs] => do
    let occs ← listOf ";" parseTOcc os
    let qs ← listOf ";" parseTOcc qs
    let ord := orderedTerminals occs
    let showK : TKind → String := fun k => match k with | .legacy => "l" | .regex => "x" | .raw => "r"
    let o := if ord.isEmpty then "-" else
      ";".intercalate (ord.map fun t => s!"{t.text}/{showK t.kind}/{showStates t.states}")
    let r := if qs.isEmpty then "-" else
      ",".intercalate (qs.map fun q => match termIdx occs q with | some i => toString i | none => "x")
    some s!"{o} {r}"
  | _ => none

end ParolModel
