import ParolModel.Model.Augment
/-! C12: augmentation must not depend on how a non-terminal occurrence is decorated in the grammar
text (`N^`, `N@member`, `N : Type`, the attributes canonicalisation leaves). The model works on plain
symbols, so the decorated request has the answer of the plain one; the implementation side builds
the `Cfg` with decorated `Symbol::N` occurrences. -/
namespace ParolModel

-- @handler augment-attr handleAugmentAttr
/-- `augment-attr <ignored> <start> <prods> <decoration mask>` → the reply of `augment` on the same
    grammar: decorations are irrelevant. -/
def handleAugmentAttr : List String → Option String
  | [ign, st, ps, mask] => do
    let _ ← mask.toNat?
    handleAugment [ign, st, ps]
  | _ => none

end ParolModel
