import ParolModel.Model.KSets
/-! Line-protocol handlers for C06 / C05: the faithful models (tie D) and the oracles (verified
reference lfp compared with the implementation's reply). Tuple `e` = ε, set `-` = ∅, tuples
separated by `;`, tokens by `,`; lists of sets by `|`. -/
namespace ParolModel.KS

/-! ## printing -/

def tupLt : Tup → Tup → Bool
  | [], [] => false
  | [], _ :: _ => true
  | _ :: _, [] => false
  | a :: as, b :: bs => a < b || (a == b && tupLt as bs)

def insertTup (x : Tup) : TSet → TSet
  | [] => [x]
  | y :: ys => if tupLt x y then x :: y :: ys else if x == y then y :: ys else y :: insertTup x ys

def sortSet (S : TSet) : TSet := S.foldr insertTup []

def showTup (t : Tup) : String :=
  if t.isEmpty then "e" else ",".intercalate (t.map toString)

def showSet (S : TSet) : String :=
  if S.isEmpty then "-" else ";".intercalate ((sortSet S).map showTup)

def joinOrDash (l : List String) : String :=
  if l.isEmpty then "-" else "|".intercalate l

def showEnv (E : Env) : String :=
  joinOrDash (E.map fun (A, s) => s!"{A}={showSet s}")

def showFirstVec (V : FirstVec) (sep : String) : String :=
  joinOrDash (V.prods.map showSet) ++ sep ++ showEnv V.nts

def showFollow (G : Grammar) (v : List TSet × Env) (sep : String) : String :=
  showEnv v.2 ++ sep ++
    joinOrDash (((followEqs G).zip v.1).map fun (e, s) => s!"{e.prod}.{e.sym}={showSet s}")

/-! ## parsing of implementation replies (for the oracles) -/

def parseTup (s : String) : Option Tup :=
  if s == "e" then some [] else (s.splitOn ",").mapM fun x => x.toNat?

def parseSet (s : String) : Option TSet :=
  if s == "-" then some [] else (s.splitOn ";").mapM parseTup

def parseSetList (s : String) : Option (List TSet) :=
  if s == "-" then some [] else (s.splitOn "|").mapM parseSet

def parseKeyed (s : String) : Option (List (String × TSet)) :=
  if s == "-" then some [] else
  (s.splitOn "|").mapM fun item =>
    match item.splitOn "=" with
    | [k, v] => (parseSet v).map fun S => (k, S)
    | _ => none

def parseEnv (s : String) : Option Env := do
  let l ← parseKeyed s
  l.mapM fun (k, S) => k.toNat?.map fun a => (a, S)

/-- fuel of all fixpoint iterations run by the driver; exhaustion is reported, never defaulted -/
def driverFuel : Nat := 100000

/-! ## faithful side of the tie -/

end ParolModel.KS

namespace ParolModel
open KS

-- @handler c06-first handleC06First
/-- `c06-first <start> <prods> <k>` → `ok <production sets> <non-terminal sets>` -/
def handleC06First : List String → Option String
  | [st, ps, k] => do
    let G ← parseGrammar st ps
    let k ← k.toNat?
    if G.prods.isEmpty || k > 10 then none else
    match firstCode G driverFuel k with
    | some V => some ("ok " ++ showFirstVec V " ")
    | none => some "fuel-exhausted"
  | _ => none

-- @handler c06-follow handleC06Follow
/-- `c06-follow <start> <prods> <k>` → `ok <non-terminal sets> <position map>` -/
def handleC06Follow : List String → Option String
  | [st, ps, k] => do
    let G ← parseGrammar st ps
    let k ← k.toNat?
    if G.prods.isEmpty || k > 10 then none else
    match followCode G driverFuel k with
    | some v => some ("ok " ++ showFollow G v " ")
    | none => some "fuel-exhausted"
  | _ => none

namespace KS

/-- `f<k>` = `FirstCache::get`, `w<k>` = `FollowCache::get` (its result is not observable from
    outside the crate and is printed as `-`), `W<k>` = a direct `follow_k` call on the shared caches. -/
def parseCReq (s : String) : Option Req :=
  let n := (s.drop 1).toNat?
  if s.startsWith "f" then n.map .first
  else if s.startsWith "w" then n.map .follow
  else if s.startsWith "W" then n.map .followDirect
  else none

def parseCReqs (s : String) : Option (List Req) :=
  if s == "-" then some [] else (s.splitOn ",").mapM parseCReq

def showReply (G : Grammar) : Req → Reply → String
  | .follow _, _ => "-"
  | _, .first v => showFirstVec v "#"
  | _, .follow v => showFollow G v "#"

def reqK : Req → Nat
  | .first k => k
  | .follow k => k
  | .followDirect k => k

end KS

-- @handler c06-cache handleC06Cache
/-- `c06-cache <start> <prods> <reqs>` → `ok <reply>/<reply>/…` -/
def handleC06Cache : List String → Option String
  | [st, ps, reqs] => do
    let G ← parseGrammar st ps
    let reqs ← parseCReqs reqs
    if G.prods.isEmpty then none else
    if reqs.any (fun r => reqK r > 10) then none else
    match runReqs G driverFuel reqs Caches.empty with
    | some l =>
      let l := (reqs.zip l).map fun (q, r) => showReply G q r
      some ("ok " ++ (if l.isEmpty then "-" else "/".intercalate l))
    | none => some "fuel-exhausted"
  | _ => none

/-! ## oracles: the implementation's sets against the verified reference -/

namespace KS

def checkEnvAgainst (what : String) (impl : Env) (ref : Env) : Option String :=
  if impl.map (·.1) != ref.map (·.1) then some s!"{what}:non-terminal-list"
  else
    match (impl.zip ref).find? fun (a, b) => !sameSet a.2 b.2 with
    | some (a, b) => some s!"{what}:n{a.1}:impl={showSet a.2}:spec={showSet b.2}"
    | none => none

/-- FIRST oracle: every production slot and every non-terminal slot equals the reference lfp
    (`firstK_lfp_eq_spec`: = the declarative FIRST_k); also reports whether the faithful seeded model
    agrees (`seededAgreesWithLfp`). -/
def firstCheck (G : Grammar) (k : Nat) (implProds : List TSet) (implNts : Env) : String :=
  match firstK_lfp G k driverFuel with
  | none => "fuel-exhausted"
  | some E =>
    let refProds := G.prods.map fun p => firstSeqRef k (envGet E) p.rhs
    if implProds.length != refProds.length then "fail production-count" else
    match ((List.range refProds.length).zip (implProds.zip refProds)).find? fun (_, a, b) => !sameSet a b with
    | some (i, a, b) => s!"fail production:{i}:impl={showSet a}:spec={showSet b}"
    | none =>
      match checkEnvAgainst "first" implNts E with
      | some why => "fail " ++ why
      | none => "ok"

/-- Per-instance check that the faithful seeded iteration ends in the reference lfp. -/
def seededAgreesWithLfp (G : Grammar) (k fuel : Nat) : Option Bool := seededAgrees G k fuel

/-- FOLLOW oracle. For k = 0 the code's FOLLOW set of the start symbol contains the one-token
    tuple `[0]` (built by `KTuplesBuilder::end()`, which does not truncate) where the definition
    gives the 0-truncation ε; this single deviation is answered `ok-k0-eoi` (reported by the check
    as an observation), everything else must match exactly. -/
def followCheck (G : Grammar) (k : Nat) (implNts : Env) : String :=
  match followK_lfp G k driverFuel with
  | none => "fuel-exhausted"
  | some E =>
    match checkEnvAgainst "follow" implNts E with
    | none => "ok"
    | some why =>
      if k == 0 then
        let trunc : Env := implNts.map fun (a, s) => (a, dedup (s.map fun t => t.take 0))
        match checkEnvAgainst "follow" trunc E with
        | none => "ok-k0-eoi"
        | some why' => "fail " ++ why'
      else "fail " ++ why

end KS

-- @handler c06-first-check handleC06FirstCheck
/-- `c06-first-check <start> <prods> <k> ok <production sets> <non-terminal sets>` -/
def handleC06FirstCheck : List String → Option String
  | [st, ps, k, "ok", prods, nts] => do
    let G ← parseGrammar st ps
    let k ← k.toNat?
    let P ← parseSetList prods
    let N ← parseEnv nts
    let r := firstCheck G k P N
    if r != "ok" then some r else
    match seededAgreesWithLfp G k driverFuel with
    | some true => some "ok"
    | some false => some "fail seeded-model-differs-from-lfp"
    | none => some "fuel-exhausted"
  | [_, _, _, other] => some s!"fail impl-reply:{other}"
  | _ => none

-- @handler c06-follow-check handleC06FollowCheck
/-- `c06-follow-check <start> <prods> <k> <lenient> ok <non-terminal sets> <position map>`;
    with `lenient` = 1 the k = 0 end-of-input deviation (`ok-k0-eoi`) is answered `ok`. -/
def handleC06FollowCheck : List String → Option String
  | [st, ps, k, len, "ok", nts, _pos] => do
    let G ← parseGrammar st ps
    let k ← k.toNat?
    let len ← Proto.parseBool len
    let N ← parseEnv nts
    let r := followCheck G k N
    some (if len && r == "ok-k0-eoi" then "ok" else r)
  | [_, _, _, _, other] => some s!"fail impl-reply:{other}"
  | _ => none

namespace KS

def cacheReplyCheck (G : Grammar) (lenient : Bool) : Req → String → Option String
  | .follow _, r => if r == "-" then some "ok" else none
  | .first k, r =>
    match r.splitOn "#" with
    | [prods, nts] => do
      let P ← parseSetList prods
      let N ← parseEnv nts
      some (firstCheck G k P N)
    | _ => none
  | .followDirect k, r =>
    match r.splitOn "#" with
    | [nts, _] => do
      let N ← parseEnv nts
      let r := followCheck G k N
      some (if lenient && r == "ok-k0-eoi" then "ok" else r)
    | _ => none

def cacheCheckAll (G : Grammar) (lenient : Bool) : List (Req × String) → Option String
  | [] => some "ok"
  | (q, r) :: rest =>
    match cacheReplyCheck G lenient q r with
    | none => none
    | some "ok" => cacheCheckAll G lenient rest
    | some why => some why

end KS

-- @handler c06-cache-check handleC06CacheCheck
/-- `c06-cache-check <start> <prods> <reqs> <lenient> ok <replies>`: every observable reply of the
    request sequence equals the reference sets for its k. -/
def handleC06CacheCheck : List String → Option String
  | [st, ps, reqs, len, "ok", replies] => do
    let G ← parseGrammar st ps
    let reqs ← parseCReqs reqs
    let len ← Proto.parseBool len
    let rs := if replies == "-" then [] else replies.splitOn "/"
    if rs.length != reqs.length then some "fail reply-count" else
    cacheCheckAll G len (reqs.zip rs)
  | [_, _, _, _, other] => some s!"fail impl-reply:{other}"
  | _ => none

end ParolModel
