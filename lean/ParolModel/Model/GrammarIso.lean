import ParolModel.Spec.Cfg
import ParolModel.Model.LL
import ParolModel.Model.RegexDfa
/-! C34 — verified checkers for "two table-driven parsers accept the same texts".

* `grammarOf`: the context-free grammar a production table denotes (same as `gOf`, Proofs/LL.lean).
* `inlineNT` / `inlineAll`: unfolding of non-terminals that have exactly one, non-recursive
  production and are not the start symbol (`ProductionLHS` in parol_ls.par).
* `grammarIso`: a candidate pair of symbol maps (found by the harness, unverified) is a pair of
  production-preserving maps in both directions whose terminal parts are inverse to each other.
* `termMapOk`: corresponding terminals of two scanners have equivalent regexes (syntactically equal
  or accepted by the bisimulation checker `reEquiv`), equal lookahead conditions, and wherever the
  declaration order of two terminals differs between the scanners their languages are disjoint
  (`reDisjoint`), so that "first declared wins on equal length" can never decide differently.

Soundness: `Props/C34.lean` (`inline_preserves_lang`, `grammarIso_sound`, `termMap_sound`). -/
namespace ParolModel.Ls27

def symOfPT : PT → Option Sym
  | .t i => some (.t i)
  | .n i => some (.n i)
  | .e _ => none

/-- The grammar denoted by a production table (right-hand sides are stored reversed). -/
def grammarOf (T : LLTables) : Grammar :=
  ⟨T.start, T.prods.map fun p => ⟨p.lhs, p.rhsRev.reverse.filterMap symOfPT⟩⟩

/-! ### Inlining -/

def substSyms (x : Nat) (body : List Sym) : List Sym → List Sym
  | [] => []
  | .n y :: ss => if y = x then body ++ substSyms x body ss else .n y :: substSyms x body ss
  | .t a :: ss => .t a :: substSyms x body ss

def inlineNT (G : Grammar) (x : Nat) (body : List Sym) : Grammar :=
  ⟨G.start, (G.prods.filter fun p => p.lhs != x).map fun p => ⟨p.lhs, substSyms x body p.rhs⟩⟩

/-- The right-hand side of the only production of `x`, provided `x` is not the start symbol and the
    production does not mention `x`. -/
def inlineBody (G : Grammar) (x : Nat) : Option (List Sym) :=
  match G.prods.filter fun p => p.lhs == x with
  | [p] => if x != G.start && !(p.rhs.contains (.n x)) then some p.rhs else none
  | _ => none

def inlineAll (G : Grammar) : List Nat → Option Grammar
  | [] => some G
  | x :: xs =>
    match inlineBody G x with
    | some b => inlineAll (inlineNT G x b) xs
    | none => none

/-! ### Symbol maps -/

/-- A finite map given as a list (index ↦ entry), the identity outside the list. -/
def applyMap (l : List Nat) (i : Nat) : Nat := l.getD i i

def mapSym (f g : Nat → Nat) : Sym → Sym
  | .t a => .t (g a)
  | .n a => .n (f a)

def mapRule (f g : Nat → Nat) (p : Rule) : Rule := ⟨f p.lhs, p.rhs.map (mapSym f g)⟩

/-- `f`/`g` map the start symbol to the start symbol and every production of `G1` to a production of `G2`. -/
def simulatesB (G1 G2 : Grammar) (f g : Nat → Nat) : Bool :=
  f G1.start == G2.start && G1.prods.all fun p => G2.prods.contains (mapRule f g p)

/-- `l'` undoes `l` everywhere (both are the identity beyond their common length). -/
def inverseOnB (l l' : List Nat) : Bool :=
  l.length == l'.length && (List.range l.length).all fun a => applyMap l' (applyMap l a) == a

def grammarIso (G1 G2 : Grammar) (nt ntInv tm tmInv : List Nat) : Bool :=
  simulatesB G1 G2 (applyMap nt) (applyMap tm) &&
  simulatesB G2 G1 (applyMap ntInv) (applyMap tmInv) &&
  inverseOnB tm tmInv

/-- The whole check for two production tables: inline the listed non-terminals on each side, then `grammarIso`. -/
def tablesIso (T1 T2 : LLTables) (inl1 inl2 nt ntInv tm tmInv : List Nat) : Bool :=
  match inlineAll (grammarOf T1) inl1, inlineAll (grammarOf T2) inl2 with
  | some G1, some G2 => grammarIso G1 G2 nt ntInv tm tmInv
  | _, _ => false

/-! ### Terminal maps between scanners -/

def relDisj (a b : Bool) : Bool := !(a && b)

/-- No string is matched by both regexes (verified: `reDisjoint_sound`). -/
def reDisjoint (r s : Re) (fuel : Nat := 4000) : Bool := autRel relDisj reAut reAut r s fuel

def reSame (r s : Re) : Bool := r == s || reEquiv r s

/-- Lookahead conditions are compared syntactically. -/
def laSame (a b : Option (Bool × Re)) : Bool := decide (a = b)

def termSame (g : Nat → Nat) (t1 t2 : ScanTerm) : Bool :=
  t2.tok == g t1.tok && reSame t1.re t2.re && laSame t1.la t2.la

/-- `a` occurs in `l` and `b` occurs after that (first) occurrence. -/
def before (l : List Nat) (a b : Nat) : Bool :=
  match l.dropWhile (· != a) with
  | [] => false
  | _ :: rest => rest.contains b

def nodupB : List Nat → Bool
  | [] => true
  | x :: xs => !xs.contains x && nodupB xs

def modePairOk (g : Nat → Nat) (m1 m2 : ScanMode) : Bool :=
  let k1 := m1.terms.map (·.tok)
  let k2 := m2.terms.map (·.tok)
  nodupB k1 && nodupB k2 &&
  (m1.terms.all fun t1 => m2.terms.any fun t2 => termSame g t1 t2) &&
  (m2.terms.all fun t2 => m1.terms.any fun t1 => termSame g t1 t2) &&
  (m1.terms.all fun a => m1.terms.all fun b =>
    !(before k1 a.tok b.tok && before k2 (g b.tok) (g a.tok)) || reDisjoint a.re b.re) &&
  m2.trans == m1.trans.map fun p => (g p.1, p.2)

def modesOk (g : Nat → Nat) : List ScanMode → List ScanMode → Bool
  | [], [] => true
  | a :: as, b :: bs => modePairOk g a b && modesOk g as bs
  | _, _ => false

def termMapOk (ms1 ms2 : List ScanMode) (tm tmInv : List Nat) : Bool :=
  inverseOnB tm tmInv && modesOk (applyMap tm) ms1 ms2

/-- Renaming of the token type of a scanned token. -/
def mapTok (g : Nat → Nat) (t : ScanTok) : ScanTok := { t with tok := g t.tok }

/-- The inverted pairs (for the evidence): terminals whose relative order differs. -/
def invertedPairs (g : Nat → Nat) (m1 m2 : ScanMode) : List (Nat × Nat) :=
  let k1 := m1.terms.map (·.tok)
  let k2 := m2.terms.map (·.tok)
  k1.flatMap fun a => (k1.filter fun b => before k1 a b && before k2 (g b) (g a)).map fun b => (a, b)

end ParolModel.Ls27
