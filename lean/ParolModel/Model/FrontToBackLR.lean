import ParolModel.Model.FrontToBack
import ParolModel.Model.Augment
import ParolModel.Model.LRCert
import ParolModel.Model.LRTermCheck
/-! # parol's LALR(1) path as ONE function, from the EBNF grammar as written to the grammar handed to lalry (C03d)

`parolLRGrammar E st fuel` composes the EXISTING models in the order in which parol composes the real
functions for a grammar of type `%grammar_type 'LALR(1)'`:

1. `GrammarConfig::try_from(ParolGrammar)` (reached through `obtain_grammar_config`): the front end
   refuses empty brackets, two aliases of one terminal and a start symbol without production
   (`frontEndRejects`, as in `fbFront`), then `transform_productions(productions, LALR1)` =
   `canon .lr` (Model/Canon.lean: repetitions become LEFT-recursive helpers);
2. `check_and_transform_grammar_with_ignored(cfg, LALR1, {})` (`generators/grammar_trans.rs`):
   `non_productive_non_terminals`, `unreachable_non_terminals` in this order, the first non-empty
   set is the error = `checkGrammar · false []` (Model/Fixpoints.lean) on the grammar numbered as in
   C01d (`numberG`); **no left-recursion check and no left factoring on this branch**; then
   `check_and_transform_lr` = `augment_grammar(cfg)` (`transformation/lr_augmentation.rs`), which
   works on NAMES: `augmentN` below (the numbered model `augmentGrammar` of Model/Augment.lean
   fixes the naming convention `N<i>` of the C12 harness; `augmentN` is the same function with
   `generate_name(cfg.get_non_terminal_set(), cfg.st)` = `generateName (ntNames B st) st` of
   Model/Canon.lean for arbitrary names);
3. `GrammarConfig::update_cfg`, `calculate_lalr1_parse_table`: `GrammarLalr::from(&Cfg)`
   (`analysis/lalr1_parse_table.rs`) numbers the AUGMENTED grammar with
   `get_non_terminal_index_function` (position in the sorted set of names) and
   `get_terminal_index_function` (5 + position in order of first occurrence) = `numberG`
   (Model/FrontToBack.lean); rule `i` of the `Cfg` is action `i`.

The result is the numbered, augmented plain grammar that lalry sees and against which the real table
is validated (`lrTableValid`, `lrCompleteCertB`). The table construction itself (external crate
lalry) is NOT modelled: the table is a validated input of `parol_lr_end_to_end` (Props/C03d.lean). -/
namespace ParolModel
open KS

/-! ## `augment_grammar` on names -/

/-- `cfg.matching_productions(&cfg.st).len()` -/
def startCountN (B : List RuleN) (st : Name) : Nat := (B.filter (fun r => r.lhs = st)).length

def SymN.isNT (st : Name) : SymN → Bool
  | .n A _ => A = st
  | .t _ => false

/-- `start_symbol_used_on_rhs` -/
def usedOnRhsN (B : List RuleN) (st : Name) : Bool := B.any fun r => r.rhs.any (SymN.isNT st)

/-- `augment_grammar(cfg)`: the grammar is kept iff the start symbol has exactly one production and
    occurs on no right-hand side; otherwise `S' → S` (no attributes) is put in front and `S'` — the
    name `generate_name(cfg.get_non_terminal_set(), cfg.st)` — becomes the start symbol.
    `none`: the name search ran out of fuel (never: `augmentN_total`). -/
def augmentN (B : List RuleN) (st : Name) : Option (List RuleN × Name) :=
  if startCountN B st = 1 ∧ usedOnRhsN B st = false then some (B, st)
  else (generateName (ntNames B st) st).map fun st' => (⟨st', [.n st .none], .none⟩ :: B, st')

/-! ## the pipeline -/

/-- the plain productions `obtain_grammar_config` puts into the `Cfg` of a LALR(1) grammar -/
def fbFrontLR (E : List EProd) (st : Name) (fuel : Nat) : Except FbErr (List RuleN) :=
  if frontEndRejects E || !(E.any (fun p => p.lhs == st)) then .error .rejected else
  match canon .lr fuel E with
  | .ok B => .ok B
  | .fuel => .error .fuel
  | .panic => .error .panic
  | .finalizeError => .error .finalize

/-- `check_and_transform_grammar(cfg, LALR1)`: two checks, then `augment_grammar` -/
def fbTransformLR (B0 : List RuleN) (st : Name) : Except FbErr (List RuleN × Name) :=
  match checkGrammar (numberG B0 st) false [] with
  | .fuel => .error .fuel
  | .panic => .error .panic
  | .ok .passed =>
    match augmentN B0 st with
    | none => .error .fuel
    | some r => .ok r
  | .ok r => .error (.check r)

/-- the augmented plain productions with names and the (possibly new) start symbol: what
    `update_cfg` stores for a LALR(1) grammar -/
def parolLRNamed (E : List EProd) (st : Name) (fuel : Nat) : Except FbErr (List RuleN × Name) :=
  match fbFrontLR E st fuel with
  | .error e => .error e
  | .ok B0 => fbTransformLR B0 st

/-- **The LALR(1) path of parol up to the table construction**: EBNF productions as written (with
    start symbol `st`) → the numbered, augmented plain grammar handed to lalry (`G.prods` is the
    `gprods` of `lrTableValid` / `lrCompleteCertB`, `G.start` the start symbol of the parser). -/
def parolLRGrammar (E : List EProd) (st : Name) (fuel : Nat) : Except FbErr Grammar :=
  match parolLRNamed E st fuel with
  | .error e => .error e
  | .ok (B, st') => .ok (numberG B st')

/-- the terminal numbering of the generated LALR(1) parser: `E`'s terminal `a` is token type
    `parolLRTermNum E st fuel a` -/
def parolLRTermNum (E : List EProd) (st : Name) (fuel : Nat) (a : Nat) : Nat :=
  match parolLRNamed E st fuel with
  | .ok (B, _) => termNum (termOrder B) a
  | .error _ => 0

/-! ## protocol -/

/-- the name table the check errors refer to (that of the canonicalised grammar) -/
def fbCheckTableLR (E : List EProd) (st : Name) (fuel : Nat) : List Name :=
  match fbFrontLR E st fuel with
  | .ok B0 => ntNames B0 st
  | .error _ => []

-- @handler parol-lr-grammar handleParolLRGrammar
/-- `parol-lr-grammar <start> <ebnf>` → `<start'> <prods>`: the numbered augmented grammar in the
    encoding of Model/CfgProto.lean | `err <kind>[:<names>]` | `panic` | `fuel-exhausted` -/
def handleParolLRGrammar : List String → Option String
  | [st, g] => do
    let st ← parseName st
    let ps ← parseEGrammar g
    match parolLRGrammar ps st driverFuel with
    | .ok G => some (showGrammar G)
    | .error e => some (showFbErr (fbCheckTableLR ps st driverFuel) e)
  | _ => none

-- @handler parol-lr-named handleParolLRNamed
/-- `parol-lr-named <start> <ebnf>` → `ok <start'> <rules> <names> <terminals>`: the augmented plain
    productions with names and the two numbering tables (diagnostic view of `parol-lr-grammar`) -/
def handleParolLRNamed : List String → Option String
  | [st, g] => do
    let st ← parseName st
    let ps ← parseEGrammar g
    match parolLRNamed ps st driverFuel with
    | .ok (B, st') =>
      some s!"ok {String.ofList st'} {showRulesN B} {",".intercalate ((ntNames B st').map String.ofList)} {Proto.showNats (termOrder B)}"
    | .error e => some (showFbErr (fbCheckTableLR ps st driverFuel) e)
  | _ => none

/-- first word on which the LR table `T` (tokens numbered by `τ`) and the plain grammar `G` (the
    model's canonical form of the EBNF grammar, language-equivalent by `canon_preserves_lang`)
    disagree. `complete = false` (a conflict was resolved): only acceptance of a non-sentence counts.
    A run that exhausts its fuel on a table with a reduce loop (finding F24, C19) is skipped. -/
def fbLRFirstDiff (T : LRTables) (τ : Nat → Nat) (G : Grammar) (noLoop complete : Bool)
    (fuelOf : List MTok → Nat) : List (List Nat) → Except String (Option (List Nat))
  | [] => .ok none
  | w :: ws =>
    let toks : List MTok := (w.map τ).zipIdx.map fun (t, i) => ⟨t, false, false, i⟩
    match (lrRun T ⟨false, false, none⟩ (fuelOf toks) toks).res, memberB G w with
    | .fuel, _ =>
      if noLoop then .error "parser-fuel-exhausted" else fbLRFirstDiff T τ G noLoop complete fuelOf ws
    | .internal, _ => .error "parser-internal-error"
    | r, some b =>
      if (r == .ok) == b || (!complete && r != .ok) then fbLRFirstDiff T τ G noLoop complete fuelOf ws
      else .ok (some w)
    | _, none => .error "member-fuel-exhausted"

-- @handler parol-lr-check handleParolLRCheck
/-- `parol-lr-check <n> <start> <ebnf> <conflicts> <tstart> <lrprods> <rows>` → `ok` | `fail <why>`:
    the hypotheses and the statement of `parol_lr_end_to_end` decided on the table the REAL pipeline
    (`calculate_lalr1_parse_table`, lalry) produced, against the MODEL's grammar: the model pipeline
    succeeds, `T.start = G.start`, `lrTableValid T G.prods`, and — when no conflict was resolved —
    `lrCompleteCertB T G.prods`; then for every word `w` of length ≤ n over the grammar's terminals
    plus one foreign terminal the model of `LRParser::parse_into` on the real table accepts the token
    types `w.map parolLRTermNum` iff `w` is a sentence of the EBNF grammar as written (verified
    recogniser `member` on the model's canonical form, `canon_preserves_lang`); with resolved
    conflicts only "accepted ⇒ sentence". A reply that is not a table (`err …`): `ok` (the theorem
    claims nothing), `panic`: `fail`. -/
def handleParolLRCheck : List String → Option String
  | n :: st :: g :: reply => do
    let n ← n.toNat?
    let st ← parseName st
    let ps ← parseEGrammar g
    match reply with
    | [cf, rst, rps, rrs] => do
      let cf ← cf.toNat?
      let rst ← rst.toNat?
      let rps ← parseLRProds rps
      let rrs ← parseLRRows rrs
      let T : LRTables := ⟨rst, rps, rrs⟩
      match parolLRGrammar ps st driverFuel, canon .lr driverFuel ps, parolLRNamed ps st driverFuel with
      | .ok G, .ok B0, .ok (B, _) =>
        if T.start ≠ G.start then some "fail start-symbol-differs" else
        if !lrTableValid T G.prods then some "fail lr-table-not-valid" else
        if cf == 0 && !lrCompleteCertB T G.prods then some s!"fail lr-cert:{lcWhy T G.prods}" else
        let tt := termOrder B    -- `parolLRTermNum ps st driverFuel = termNum tt`
        let ts := termsN B0
        let foreign := ts.foldl (fun m a => max m (a + 1)) 0
        let G0 := toGrammarTbl (st :: namesN B0).eraseDups st B0
        let noLoop := lrNoReduceLoopB T
        let S := lrSummOf T
        let fuelOf : List MTok → Nat := if noLoop then S.fuel else lrFuel T
        match fbLRFirstDiff T (termNum tt) G0 noLoop (cf == 0) fuelOf (allStringsT (ts ++ [foreign]) n) with
        | .ok none => some "ok"
        | .ok (some w) => some s!"fail language-differs-on {Proto.showNats w}"
        | .error e => some s!"fail {e}"
      | .error e, _, _ =>
        some s!"fail model-pipeline-answers:{(showFbErr (fbCheckTableLR ps st driverFuel) e).replace " " "-"}"
      | _, _, _ => some "fail model-canon-not-ok"
    | ["panic"] => some "fail panic"
    | _ => some "ok"
  | _ => none

end ParolModel
