import ParolModel.Model.Tables
/-! # The per-grammar oracle of C18: `tid-check`

Input: the TRANSFORMED grammar as a list of productions whose terminals are full occurrences
(text, kind, scanner states, lookahead, plus the expansions `TerminalKind::expand` yields for text
and lookahead pattern), the `%on` / `%skip` directives of the PAR text resolved to the productions
of their primary non-terminals, facts observed by scanning each plain terminal's own text with the
scanner built from the generated `scanner!` text, shortest sentences per production, and ONE
parser description (from the generated source, the export model or the analysis objects).

Decided here, with the verified index function `termIdx` (Props/C18) as the reference:
1. production table: every terminal occurrence at (production, position) carries `termIdx` of that
   occurrence; non-terminals, left-hand sides, push flags and lengths match;
2. the terminal-name table has `5 + #terminals + 1` entries;
3. scanner modes: the user tokens of mode `s` are exactly the ordered terminals that list state `s`,
   numbered `i + 5`, with the expanded text and lookahead of the representing occurrence, in order;
   built-in tokens come first, the error token last;
4. scanner transitions and 5. skip lists of every state carry `termIdx` of the terminal of the
   directive's primary non-terminal;
6. scanning a plain terminal's own text in each of its states yields its number (or the number of
   an earlier pattern of the mode that matches the same text), and the pattern registered under its
   number matches it;
7. every sentence — written with the numbers `termIdx` assigns — is accepted by the run-time model
   (`llRun` / `lrRun`) on the described tables: production table, automata / LR table and index
   function agree on terminal identity;
8. LR: every terminal is shifted somewhere. -/
namespace ParolModel.Tbl

structure XOcc where
  occ : TOcc
  xtext : String
  xla : Option String
  deriving Repr

inductive GSym
  | n (i : Nat)
  | t (o : XOcc)
  deriving Repr

structure GProd where
  lhs : Nat
  push : Bool
  rhs : List GSym
  deriving Repr

def parseGSym (s : String) : Option GSym :=
  if s.startsWith "n" then (s.drop 1).toNat?.map GSym.n
  else match s.splitOn "/" with
    | "t" :: rest =>
      match rest with
      | [_, _, _, _, _, _, xt, xl] => do
        let o ← parseTOcc ("/".intercalate rest)
        let xt ← parseWord xt
        let xl ← if xl == "-" then some none else (parseWord xl).map some
        some (.t ⟨o, xt, xl⟩)
      | _ => none
    | _ => none

def parseGProd (s : String) : Option GProd :=
  match s.splitOn ":" with
  | [l, p, r] => do
    let l ← l.toNat?
    let p ← Proto.parseBool p
    let r ← if r == "" then some [] else (r.splitOn "+").mapM parseGSym
    some ⟨l, p, r⟩
  | _ => none

def gOccs (g : List GProd) : List XOcc :=
  g.flatMap fun p => p.rhs.filterMap fun s => match s with
    | .t o => some o
    | .n _ => none

/-- The occurrence of the primary non-terminal's production `p` (single terminal on the right). -/
def primaryOcc (g : List GProd) (p : Nat) : Option XOcc :=
  match g[p]? with
  | some ⟨_, _, [.t o]⟩ => some o
  | _ => none

def occAt (g : List GProd) (p j : Nat) : Option XOcc :=
  match (g[p]?).bind (·.rhs[j]?) with
  | some (.t o) => some o
  | _ => none

/-- the symbol a description's production table has at (production, position) -/
def tableSym (d : ParserDesc) (p j : Nat) : Option PSym := (d.prods[p]?).bind (·.rhs[j]?)

/-- expected directive `(production of the primary non-terminal, kind, target)` -/
def parseDirective (s : String) : Option (Nat × TrKind × Nat) :=
  match s.splitOn ":" with
  | [p, "e", m] => do some (← p.toNat?, .enter, ← m.toNat?)
  | [p, "u", m] => do some (← p.toNat?, .push, ← m.toNat?)
  | [p, "o"] => do some (← p.toNat?, .pop, 0)
  | _ => none

structure ScanFact where
  p : Nat
  j : Nat
  state : Nat
  full : Option Nat        -- type the generated scanner gives to the terminal's own text (whole text)
  single : Option Nat      -- type given by the scanner reduced to the pattern registered under the expected number
  winnerAlone : Bool       -- the winning pattern, alone, matches the whole text as well
  deriving Repr

def parseOptNat (s : String) : Option (Option Nat) := if s == "x" then some none else s.toNat?.map some

def parseScanFact (s : String) : Option ScanFact :=
  match s.splitOn ":" with
  | [pj, st, a, b, w] =>
    match pj.splitOn "." with
    | [p, j] => do some ⟨← p.toNat?, ← j.toNat?, ← st.toNat?, ← parseOptNat a, ← parseOptNat b, ← Proto.parseBool w⟩
    | _ => none
  | _ => none

def parsePos (s : String) : Option (Nat × Nat) :=
  match s.splitOn "." with
  | [p, j] => do some (← p.toNat?, ← j.toNat?)
  | _ => none

def allOcc (g : List GProd) : List TOcc := (gOccs g).map (·.occ)

def trKey (t : DTrans) : Nat × Nat × Nat :=
  (t.ty, (match t.kind with | .enter => 0 | .push => 1 | .pop => 2), t.target)

def keyLe (a b : Nat × Nat × Nat) : Bool :=
  a.1 < b.1 || (a.1 == b.1 && (a.2.1 < b.2.1 || (a.2.1 == b.2.1 && a.2.2 ≤ b.2.2)))

def insertSorted {α : Type} (le : α → α → Bool) (x : α) : List α → List α
  | [] => [x]
  | y :: ys => if le x y then x :: y :: ys else y :: insertSorted le x ys

def sortBy {α : Type} (le : α → α → Bool) (l : List α) : List α := l.foldr (insertSorted le) []

def dedupSorted : List Nat → List Nat
  | a :: b :: rest => if a == b then dedupSorted (b :: rest) else a :: dedupSorted (b :: rest)
  | l => l

def showSym : PSym → String
  | .t i => s!"t{i}"
  | .n i => s!"n{i}"
  | .unk => "x"

/-- 1. the production table against the grammar and the index function -/
def checkProds (g : List GProd) (d : ParserDesc) : Option String :=
  let occs := allOcc g
  if g.length ≠ d.prods.length then some "production-count" else
  firstSome ((g.zip d.prods).zipIdx.map fun ((gp, dp), p) =>
    if gp.lhs ≠ dp.lhs then some s!"production[{p}].lhs"
    else if gp.push ≠ dp.push then some s!"production[{p}].push"
    else if gp.rhs.length ≠ dp.rhs.length then some s!"production[{p}].len"
    else firstSome ((gp.rhs.zip dp.rhs).zipIdx.map fun ((gs, ds), j) =>
      match gs with
      | .n i => chk (symAgree (.n i) ds && (d.kind == .lr || ds != .unk)) s!"production[{p}].rhs[{j}]:table={showSym ds},grammar=n{i}"
      | .t o =>
        match termIdx occs o.occ with
        | none => some s!"production[{p}].rhs[{j}]:index-function-fails"
        | some i => chk (symAgree (.t i) ds && (d.kind == .lr || ds != .unk))
            s!"production[{p}].rhs[{j}]:table={showSym ds},index-function={i}"))

def isUserTok (d : ParserDesc) (t : DTok) : Bool := userTerm d t.ty

/-- 3. the user tokens of every mode against the ordered terminal list -/
def expectedModeToks (g : List GProd) (s : Nat) : List (Option DTok) :=
  let xs := gOccs g
  ((orderedTerminals (allOcc g)).zipIdx.filter fun (e, _) => e.states.contains s).map fun (e, i) =>
    (xs.find? fun x => sameTerm e x.occ).map fun x => ⟨some x.xtext, i + 5, e.la.bind fun l => x.xla.map fun p => (l.positive, p)⟩

def strictlyIncreasing : List Nat → Bool
  | a :: b :: rest => a < b && strictlyIncreasing (b :: rest)
  | _ => true

def checkModes (g : List GProd) (d : ParserDesc) : Option String :=
  let ord := orderedTerminals (allOcc g)
  firstSome ([
    chk (ntok d == ord.length + 6) s!"terminal-name-count={ntok d},terminals={ord.length}",
    chk (ord.all fun e => e.states.all fun s => s < d.modes.length) "terminal-in-unknown-scanner-state"] ++
    d.modes.zipIdx.map fun (m, s) =>
      let users := (m.toks.filter (isUserTok d)).map some
      let builtin := (m.toks.takeWhile fun t => t.ty < 5).map (·.ty)
      let rest := m.toks.dropWhile fun t => t.ty < 5
      let afterUsers := rest.dropWhile (isUserTok d)
      firstSome [
        (match listDiff (fun (a b : Option DTok) => match a, b with
            | some x, some y => tokAgree x y
            | _, _ => false) (expectedModeToks g s) users 0 with
         | none => none
         | some i => some s!"mode[{s}].user-token[{i}]"),
        chk (strictlyIncreasing builtin && builtin.all (1 ≤ ·)) s!"mode[{s}].builtin-tokens",
        chk (afterUsers.isEmpty || afterUsers.map (·.ty) == [ntok d - 1]) s!"mode[{s}].token-order"])

/-- 4. + 5. transitions and skip lists against the directives -/
def checkDirectives (g : List GProd) (d : ParserDesc) (tr : List (List (Nat × TrKind × Nat)))
    (sk : List (List Nat)) : Option String :=
  let occs := allOcc g
  let idx (p : Nat) : Option Nat := (primaryOcc g p).bind fun o => termIdx occs o.occ
  if tr.length ≠ d.modes.length then some "transition-list-count" else
  if sk.length ≠ d.skips.length then some "skip-list-count" else
  firstSome (
    ((tr.zip d.modes).zipIdx.map fun ((ex, m), s) =>
      match ex.mapM (fun (p, k, t) => (idx p).map fun i => (⟨i, k, t⟩ : DTrans)) with
      | none => some s!"mode[{s}].transition:primary-non-terminal-without-terminal"
      | some exs => chk (sortBy keyLe (exs.map trKey) == sortBy keyLe (m.trans.map trKey)) s!"mode[{s}].transitions") ++
    ((sk.zip d.skips).zipIdx.map fun ((ex, l), s) =>
      match ex.mapM idx with
      | none => some s!"skip[{s}]:primary-non-terminal-without-terminal"
      | some exs => chk (dedupSorted (sortBy (· ≤ ·) exs) == l) s!"skip[{s}]"))

/-- The same comparison against GIVEN token numbers (what `to_grammar_config.rs` resolved on the
    untransformed grammar): used to attribute a failure of `checkDirectives` to finding F29. -/
def checkDirectivesGiven (d : ParserDesc) (tr : List (List DTrans)) (sk : List (List Nat)) : Option String :=
  if tr.length ≠ d.modes.length then some "transition-list-count" else
  if sk.length ≠ d.skips.length then some "skip-list-count" else
  firstSome (
    ((tr.zip d.modes).zipIdx.map fun ((exs, m), s) =>
      chk (sortBy keyLe (exs.map trKey) == sortBy keyLe (m.trans.map trKey)) s!"mode[{s}].transitions") ++
    ((sk.zip d.skips).zipIdx.map fun ((exs, l), s) =>
      chk (dedupSorted (sortBy (· ≤ ·) exs) == l) s!"skip[{s}]"))

def modePos (m : DMode) (ty : Nat) : Option Nat := m.toks.findIdx? (·.ty == ty)

/-- 6. what the generated scanner does with a plain terminal's own text -/
def checkScan (g : List GProd) (d : ParserDesc) (fs : List ScanFact) : Option String :=
  let occs := allOcc g
  firstSome (fs.map fun f =>
    match (occAt g f.p f.j).bind fun o => termIdx occs o.occ with
    | none => some s!"scan[{f.p}.{f.j}]:no-such-occurrence"
    | some i =>
      if f.single ≠ some i then some s!"scan[{f.p}.{f.j}]:state={f.state},pattern-numbered-{i}-does-not-match-the-terminal's-text"
      else if f.full == some i then none
      else match f.full, d.modes[f.state]? with
        | some a, some m =>
          chk (f.winnerAlone && (match modePos m a, modePos m i with
            | some pa, some pi => pa < pi
            | _, _ => false)) s!"scan[{f.p}.{f.j}]:state={f.state},scanner={a},index-function={i}"
        | _, _ => some s!"scan[{f.p}.{f.j}]:state={f.state},scanner=none,index-function={i}")

def mkToks (l : List Nat) : List MTok := l.zipIdx.map fun (t, i) => ⟨t, false, false, i⟩

/-- 7. sentences written with the numbers of the index function are accepted by the tables -/
def checkSentences (g : List GProd) (d : ParserDesc) (ss : List (List (Nat × Nat))) : Option String :=
  let occs := allOcc g
  let o : Opts := ⟨false, false, none⟩
  firstSome (ss.zipIdx.map fun (s, n) =>
    match s.mapM (fun (p, j) => (occAt g p j).bind fun o => termIdx occs o.occ) with
    | none => some s!"sentence[{n}]:no-such-occurrence"
    | some w =>
      let toks := mkToks w
      match d.kind with
      | .ll =>
        match toLL d with
        | none => some "sentence:tables-do-not-decode"
        | some T =>
          let r := llRun T o (llFuel T toks) toks
          chk (r.res == .ok) s!"sentence[{n}]:{Proto.showNats w}:{showLLRes r.res}"
      | .lr =>
        match toLR d with
        | none => some "sentence:tables-do-not-decode"
        | some T =>
          let r := lrRun T o (lrFuel T toks) toks
          chk (r.res == .ok) s!"sentence[{n}]:{Proto.showNats w}:{showLLRes r.res}")

/-- 8. LR: every terminal of the grammar is shifted in some state -/
def checkShifts (g : List GProd) (d : ParserDesc) : Option String :=
  match d.kind with
  | .ll => none
  | .lr =>
    let n := (orderedTerminals (allOcc g)).length
    let shifted : List Nat := (resolvedRows d).flatMap fun r => match r with
      | some (acts, _) => acts.filterMap fun (t, a) => match a with
        | .shift _ => some t
        | _ => none
      | none => []
    firstSome ((List.range n).map fun i => chk (shifted.contains (i + 5)) s!"lr:terminal-{i + 5}-is-never-shifted")

def tidCheck (g : List GProd) (tr : List (List (Nat × TrKind × Nat))) (sk : List (List Nat))
    (fs : List ScanFact) (ss : List (List (Nat × Nat))) (d : ParserDesc) : Option String :=
  firstSome [checkProds g d, checkModes g d, checkDirectives g d tr sk, checkScan g d fs,
    checkShifts g d, checkSentences g d ss]

/-- The property of the index function on a reply of the REAL functions: `ord` is what
    `get_ordered_terminals` returned (as identities), `idx` the index per query (`none`: the
    `.unwrap()` panicked). Decides totality on occurrences, range, and `idx a = idx b ↔ behaves alike`
    for all pairs of queries that occur. -/
def termIdxCheck (occs qs : List TOcc) (nOrdered : Nat) (idx : List (Option Nat)) : Option String :=
  if idx.length ≠ qs.length then some "reply-length" else
  let qi := qs.zip idx
  firstSome (
    (qi.map fun (q, i) =>
      let occurs := occs.any fun o => sameTerm q o
      match i with
      | none => chk (!occurs) "unwrap-fails-for-an-occurring-terminal"
      | some n => chk (occurs && 5 ≤ n && n < 5 + nOrdered && nOrdered ≤ occs.length) "index-out-of-range-or-for-a-terminal-that-does-not-occur") ++
    (qi.flatMap fun (a, ia) => qi.map fun (b, ib) =>
      match ia, ib with
      | some x, some y => chk ((x == y) == sameTerm a b) "same-number-iff-same-behaviour-violated"
      | _, _ => none))

/-- `tidCheck` with the directive check replaced by the comparison against the stale numbers. -/
def tidCheckStale (g : List GProd) (tr : List (List DTrans)) (sk : List (List Nat))
    (fs : List ScanFact) (ss : List (List (Nat × Nat))) (d : ParserDesc) : Option String :=
  firstSome [checkProds g d, checkModes g d, checkDirectivesGiven d tr sk, checkScan g d fs,
    checkShifts g d, checkSentences g d ss]

def listOfT {α : Type} (sep : String) (f : String → Option α) (s : String) : Option (List α) :=
  if s == "~" then some [] else (s.splitOn sep).mapM f

end ParolModel.Tbl

namespace ParolModel
open Tbl

-- @handler termidx-check Tbl.handleTermIdxCheck
/-- `termidx-check <occs> <queries> <ordered> <indices>` (the reply of the real functions). -/
def Tbl.handleTermIdxCheck : List String → Option String
  | [os, qs, ord, ix] => do
    let occs ← listOf ";" parseTOcc os
    let qs ← listOf ";" parseTOcc qs
    let n := if ord == "-" then 0 else (ord.splitOn ";").length
    let ix ← listOf "," parseOptNat ix
    some (verdict (termIdxCheck occs qs n ix))
  | _ => none

/-- the five grammar-side words and three descriptions of a `tid` case -/
structure TidCase where
  g : List GProd
  tr : List (List (Nat × TrKind × Nat))
  sk : List (List Nat)
  trStale : List (List DTrans)
  skStale : List (List Nat)
  fs : List ScanFact
  ss : List (List (Nat × Nat))
  descs : List ParserDesc

def Tbl.parseTid (ws : List String) : Option TidCase :=
  match ws with
  | g :: tr :: sk :: tro :: sko :: fs :: ss :: dw => do
    let g ← listOf ";" parseGProd g
    let tr ← listOfT ";" (listOf "+" parseDirective) tr
    let sk ← listOfT ";" Proto.parseNats sk
    let tro ← listOfT ";" (listOf "+" parseDTrans) tro
    let sko ← listOfT ";" Proto.parseNats sko
    let fs ← listOf ";" parseScanFact fs
    let ss ← listOfT ";" (listOf "," parsePos) ss
    let (ds, rest) ← takeDescs 3 dw
    if rest.isEmpty then some ⟨g, tr, sk, tro, sko, fs, ss, ds⟩ else none
  | _ => none

-- @handler tid Tbl.handleTid
/-- Differential slot of a `tid` case (`tid <par> <k> <grammar> <directives> <skips>
    <stale-directives> <stale-skips> <scan-facts> <sentences> <A> <M> <S>`): the model reads everything; the harness answers `same` when it
    reproduces the line from the grammar text. -/
def Tbl.handleTid : List String → Option String
  | _ :: _ :: ws => (Tbl.parseTid ws).map fun _ => "same"
  | _ => none

-- @handler tid-check3 Tbl.handleTidCheck3
/-- `tid-check3 <par> <k> …` → `ok` | `fail <A|M|S>:<first problem>`: `tidCheck` on the description
    from the source text, the export model and the analysis objects. -/
def Tbl.handleTidCheck3 : List String → Option String
  | _ :: _ :: ws => do
    let c ← Tbl.parseTid ws
    match c.descs with
    | [a, m, s] =>
      let tag (t : String) (r : Option String) : Option String := r.map fun x => t ++ ":" ++ x
      let f := tidCheck c.g c.tr c.sk c.fs c.ss
      some (verdict (firstSome [tag "S" (f s), tag "M" (f m), tag "A" (f a)]))
    | _ => none
  | _ => none

-- @handler tid-stale Tbl.handleTidStale
/-- Attribution to finding F29: `ok` iff every description passes `tidCheck` once the `%on` / `%skip`
    expectation is replaced by the numbers resolved on the UNTRANSFORMED grammar (the generated lists
    are exactly the stale numbers, and nothing else is wrong). -/
def Tbl.handleTidStale : List String → Option String
  | _ :: _ :: ws => do
    let c ← Tbl.parseTid ws
    match c.descs with
    | [a, m, s] =>
      let tag (t : String) (r : Option String) : Option String := r.map fun x => t ++ ":" ++ x
      let f := tidCheckStale c.g c.trStale c.skStale c.fs c.ss
      some (verdict (firstSome [tag "S" (f s), tag "M" (f m), tag "A" (f a)]))
    | _ => none
  | _ => none

-- @handler tid-check Tbl.handleTidCheck
/-- `tid-check <grammar> <directives> <skips> <scan-facts> <sentences> <desc (11 words)>` (one description)
    * grammar     `lhs:push:sym+sym;…`, sym = `n<i>` | `t/text/kind/states/lasign/lakind/latext/xtext/xla`
    * directives  per scanner state `;`-separated: `-` | `prod:e:mode+prod:u:mode+prod:o`; no state: `~`
    * skips       per scanner state `;`-separated: `-` | `prod,prod`; no state: `~`
    * scan-facts  `-` | `p.j:state:full:single:winnerAlone;…`
    * sentences   `~` | `;`-separated, each `-` | `p.j,p.j,…`
    → `ok` | `fail <first problem>`. -/
def Tbl.handleTidCheck : List String → Option String
  | g :: tr :: sk :: fs :: ss :: dw => do
    let g ← listOf ";" parseGProd g
    let tr ← listOfT ";" (listOf "+" parseDirective) tr
    let sk ← listOfT ";" Proto.parseNats sk
    let fs ← listOf ";" parseScanFact fs
    let ss ← listOfT ";" (listOf "," parsePos) ss
    let d ← parseDesc dw
    some (verdict (tidCheck g tr sk fs ss d))
  | _ => none

end ParolModel
