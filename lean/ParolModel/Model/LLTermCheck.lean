import ParolModel.Model.LLOracle
/-! Executable termination hypothesis for the LL(k) parser model (C19): the production table is free
of left recursion, including left recursion hidden behind nullable prefixes.

The checker does not decide reachability. It COMPUTES a candidate certificate — a set `N` of
non-terminals (flags by index) that is closed under "every symbol of some right-hand side is in `N`"
(a superset of the nullable non-terminals) and a weight `w A ≥ 2` per non-terminal — and then
VERIFIES it production by production (`termCertB`):

* if every symbol of the right-hand side of `A → X1 … Xn` is `N`-nullable, then `A ∈ N`;
* `w A ≥ 2 + Σ w Xi` over the `N`-nullable prefix `X1 … X(i-1)` and the first non-nullable `Xi`
  (terminals and end-of-production markers weigh 1).

A certificate exists iff no non-terminal can reach itself at the left end of a sentential form
(`w` is then a ranking: every non-terminal of the nullable prefix and the first symbol after it
weigh strictly less than `A`). Soundness of the verification step is all the termination proof
needs (Proofs/LLTerm.lean); the two fixpoint computations below carry no proof obligation — if
they came out wrong the verification step would answer `false`. -/
namespace ParolModel

/-- Weight of a stack symbol under the weight table `w`. -/
def ltW (w : List Nat) : PT → Nat
  | .n a => w[a]?.getD 0
  | _ => 1

/-- A symbol that can leave the stack without a token being consumed: a flagged non-terminal or an
    end-of-production marker. -/
def ltNull (N : List Bool) : PT → Bool
  | .n a => N[a]?.getD false
  | .e _ => true
  | .t _ => false

/-- Sum of the weights of the nullable prefix and of the first non-nullable symbol (top first). -/
def ltPre (w : List Nat) (N : List Bool) : List PT → Nat
  | [] => 0
  | X :: r => ltW w X + (if ltNull N X then ltPre w N r else 0)

/-- Maximum of the weights of the nullable prefix and of the first non-nullable symbol. -/
def ltPreMax (w : List Nat) (N : List Bool) : List PT → Nat
  | [] => 0
  | X :: r => if ltNull N X then max (ltW w X) (ltPreMax w N r) else ltW w X

/-- Sum of all weights. -/
def ltTot (w : List Nat) : List PT → Nat
  | [] => 0
  | X :: r => ltW w X + ltTot w r

/-- The certificate condition for one production. -/
def ltProdOk (w : List Nat) (N : List Bool) (pr : LLProd) : Bool :=
  (!(pr.rhsRev.reverse.all (ltNull N)) || N[pr.lhs]?.getD false) &&
  decide (ltPre w N pr.rhsRev.reverse + 2 ≤ w[pr.lhs]?.getD 0)

/-- `(w, N)` is a certificate of "no left recursion" for the production table. -/
def termCertB (T : LLTables) (w : List Nat) (N : List Bool) : Bool :=
  T.prods.all (ltProdOk w N)

/-- Number of non-terminal indices the certificate covers. -/
def ltNtCount (T : LLTables) : Nat :=
  T.prods.foldl (fun m pr => max m (pr.lhs + 1)) T.dfas.length

/-- The right-hand sides (in reading order) grouped by left-hand side. -/
def ltByLhs (T : LLTables) : List (List (List PT)) :=
  (List.range (ltNtCount T)).map fun a =>
    (T.prods.filter fun pr => pr.lhs == a).map fun pr => pr.rhsRev.reverse

/-- One round of the nullable computation (every flag recomputed from the previous round: cheap to
    evaluate in the kernel as well, `decide +kernel` in Props/C19d.lean). -/
def ltNullStep (G : List (List (List PT))) (N : List Bool) : List Bool :=
  G.map fun rs => rs.any fun rhs => rhs.all (ltNull N)

def ltNullIter (G : List (List (List PT))) : Nat → List Bool → List Bool
  | 0, N => N
  | f + 1, N =>
    let N' := ltNullStep G N
    if N' == N then N else ltNullIter G f N'

/-- Candidate nullable flags: least fixpoint, at most one round per non-terminal (plus one). -/
def ltNullable (T : LLTables) : List Bool :=
  ltNullIter (ltByLhs T) (ltNtCount T + 1) (List.replicate (ltNtCount T) false)

/-- One round of the weight computation. -/
def ltWeightStep (G : List (List (List PT))) (N : List Bool) (w : List Nat) : List Nat :=
  G.map fun rs => rs.foldl (fun m rhs => max m (ltPre w N rhs + 2)) 0

def ltWeightIter (G : List (List (List PT))) (N : List Bool) : Nat → List Nat → List Nat
  | 0, w => w
  | f + 1, w =>
    let w' := ltWeightStep G N w
    if w' == w then w else ltWeightIter G N f w'

/-- Candidate weights: iterate from 0; without left recursion this is stable after at most one round
    per non-terminal (plus one), with left recursion it never is and the certificate check fails. -/
def ltWeights (T : LLTables) : List Nat :=
  ltWeightIter (ltByLhs T) (ltNullable T) (ltNtCount T + 1) (List.replicate (ltNtCount T) 0)

/-- **The checked termination hypothesis**: the production table has no left recursion, including
    through nullable prefixes — witnessed by the computed certificate. -/
def noLeftRecB (T : LLTables) : Bool :=
  termCertB T (ltWeights T) (ltNullable T)

/-- Upper bound of all symbol weights. -/
def ltMaxW (w : List Nat) : Nat := w.foldr max 1

/-- Upper bound of the total weight of a right-hand side. -/
def ltMaxRhs (T : LLTables) (w : List Nat) : Nat :=
  (T.prods.map fun pr => ltTot w pr.rhsRev.reverse).foldr max 0

/-- Fuel that suffices for `llRun` on an input of `n` delivered tokens (skip tokens included), given
    a certificate with weights `w`: linear in `n`. -/
def llFuelBoundW (T : LLTables) (w : List Nat) (n : Nat) : Nat :=
  ltMaxRhs T w * ltMaxW w * (n + 1) + ltMaxRhs T w + 2

/-- The explicit fuel bound for the computed certificate. -/
def llFuelBound (T : LLTables) (n : Nat) : Nat := llFuelBoundW T (ltWeights T) n

-- @handler ll-term-ok handleLLTermOk
/-- `ll-term-ok <start> <prods> <dfas>` → `ok` iff the real table set passes `noLeftRecB` (and
    `tablesSoundB`, the other hypothesis of `ll_terminates`). -/
def handleLLTermOk : List String → Option String
  | [st, ps, ds] => do
    let st ← st.toNat?
    let ps ← parseLLProds ps
    let ds ← parseDfas ds
    let T : LLTables := ⟨st, ps, ds⟩
    if !tablesSoundB T then some "fail tables-not-sound"
    else if !termCertB T (ltWeights T) (ltNullable T) then
      (if ltNullStep (ltByLhs T) (ltNullable T) != ltNullable T then some "fail nullable-not-stable"
       else some "fail left-recursion")
    else some "ok"
  | _ => none

end ParolModel
