import ParolModel.Spec.Cfg
/-! Verified membership recogniser for plain CFGs (span fixpoint): the independent oracle used by the
searches of C01, C03, C04, C09, C10, C12, C34. Correctness: `member_iff` in Proofs/Member.lean. -/
namespace ParolModel

/-- substring w[i..j) -/
def sub (w : List Nat) (i j : Nat) : List Nat := (w.drop i).take (j - i)

abbrev Triple := Nat × Nat × Nat

/-- Does the symbol string `ss` match w[i..j) given the non-terminal spans in `S`? -/
def matchSeq (S : List Triple) (w : List Nat) : List Sym → Nat → Nat → Bool
  | [], i, j => i == j && decide (j ≤ w.length)
  | .t a :: ss, i, j => decide (i < j) && (w[i]? == some a) && matchSeq S w ss (i+1) j
  | .n A :: ss, i, j =>
      (List.range (j - i + 1)).any fun d => S.contains (A, i, i+d) && matchSeq S w ss (i+d) j

def candidates (G : Grammar) (w : List Nat) : List (Rule × Nat × Nat) :=
  G.prods.flatMap fun p =>
    (List.range (w.length + 1)).flatMap fun i =>
      (List.range (w.length + 1)).map fun j => (p, i, j)

def newTriples (G : Grammar) (w : List Nat) (S : List Triple) : List Triple :=
  (candidates G w).filterMap fun (p, i, j) =>
    if matchSeq S w p.rhs i j && !S.contains (p.lhs, i, j) then some (p.lhs, i, j) else none

def iterate (G : Grammar) (w : List Nat) : Nat → List Triple → Option (List Triple)
  | 0, _ => none
  | f+1, S =>
    let nw := newTriples G w S
    if nw.isEmpty then some S else iterate G w f (S ++ nw)

/-- `none` = fuel exhausted (reported, never defaulted). -/
def member (G : Grammar) (w : List Nat) (fuel : Nat) : Option Bool :=
  (iterate G w fuel []).map fun S => S.contains (G.start, 0, w.length)

end ParolModel
