import ParolModel.Model.Proto
/-! L9 — regular expressions over code points (C13, C15, C16).

`Re` is the abstract syntax the harness lowers `regex-syntax` HIR to (the parser scnr2 itself
uses). Semantics are derivative based: `deriv` (Brzozowski, with similarity-normalising smart
constructors so that the set of iterated derivatives stays small), `nullable`, `matchesRe`.
`tokenizeSpec` *is* the documented tokenisation rule: longest match among the terminals of the
current mode, first declared wins on equal length, lookahead conditions are tested at the end of
the match, matches are never empty, one character is skipped when nothing matches, mode switches
(enter/push/pop; pop on an empty stack keeps the mode) happen at match time.
Import-free (core Lean only). -/
namespace ParolModel

/-- A character class atom: inclusive ranges of code points, possibly negated. -/
structure Cls where
  ranges : List (Nat × Nat)
  neg : Bool
  deriving DecidableEq, Repr

def Cls.mem (c : Cls) (x : Nat) : Bool :=
  (c.ranges.any fun r => decide (r.1 ≤ x) && decide (x ≤ r.2)) != c.neg

inductive Re where
  | empty                 -- matches nothing
  | eps                   -- matches the empty string
  | cls (c : Cls)         -- one code point of the class
  | cat (a b : Re)
  | alt (a b : Re)
  | star (a : Re)
  deriving DecidableEq, Repr

namespace Re
def chr (c : Nat) : Re := .cls ⟨[(c, c)], false⟩
def notChr (cs : List Nat) : Re := .cls ⟨cs.map fun c => (c, c), true⟩
def lit : List Nat → Re
  | [] => .eps
  | [c] => chr c
  | c :: cs => .cat (chr c) (lit cs)
def plus (r : Re) : Re := .cat r (.star r)
def opt (r : Re) : Re := .alt r .eps
def seq : List Re → Re
  | [] => .eps
  | [r] => r
  | r :: rs => .cat r (seq rs)
def alts : List Re → Re
  | [] => .empty
  | [r] => r
  | r :: rs => .alt r (alts rs)
end Re

/-! ### A total order on `Re`, used only to put alternatives into a canonical order -/

def cmpRanges : List (Nat × Nat) → List (Nat × Nat) → Ordering
  | [], [] => .eq
  | [], _ :: _ => .lt
  | _ :: _, [] => .gt
  | a :: l, b :: m => (compare a.1 b.1).then ((compare a.2 b.2).then (cmpRanges l m))

def Cls.cmp (c d : Cls) : Ordering :=
  (compare c.neg.toNat d.neg.toNat).then (cmpRanges c.ranges d.ranges)

def Re.tag : Re → Nat
  | .empty => 0 | .eps => 1 | .cls _ => 2 | .cat _ _ => 3 | .alt _ _ => 4 | .star _ => 5

def Re.cmp : Re → Re → Ordering
  | .cls c, .cls d => Cls.cmp c d
  | .cat a b, .cat c d => (Re.cmp a c).then (Re.cmp b d)
  | .alt a b, .alt c d => (Re.cmp a c).then (Re.cmp b d)
  | .star a, .star b => Re.cmp a b
  | a, b => compare a.tag b.tag

/-! ### Smart constructors (language preserving; see `Proofs/Regex.lean`) -/

/-- Concatenation, right-nested, with `∅·r = r·∅ = ∅` and `ε·r = r·ε = r`. -/
def catAssoc : Re → Re → Re
  | .empty, _ => .empty
  | .eps, b => b
  | .cat a1 a2, b => .cat a1 (catAssoc a2 b)
  | a, b => .cat a b

def mkCat (a b : Re) : Re :=
  match b with
  | .empty => .empty
  | .eps => a
  | _ => catAssoc a b

def altList : Re → List Re
  | .alt a b => altList a ++ altList b
  | .empty => []
  | r => [r]

def insertRe (r : Re) : List Re → List Re
  | [] => [r]
  | x :: xs =>
    if r = x then x :: xs
    else match Re.cmp r x with
      | .lt => r :: x :: xs
      | _ => x :: insertRe r xs

def ofAltList : List Re → Re
  | [] => .empty
  | [r] => r
  | r :: rs => .alt r (ofAltList rs)

/-- Alternation modulo associativity, commutativity, idempotence and `∅`. -/
def mkAlt (a b : Re) : Re := ofAltList ((altList a ++ altList b).foldr insertRe [])

def nullable : Re → Bool
  | .empty => false
  | .eps => true
  | .cls _ => false
  | .cat a b => nullable a && nullable b
  | .alt a b => nullable a || nullable b
  | .star _ => true

/-- Brzozowski derivative with respect to one code point. -/
def deriv : Re → Nat → Re
  | .empty, _ => .empty
  | .eps, _ => .empty
  | .cls c, x => if c.mem x then .eps else .empty
  | .cat a b, x =>
    if nullable a then mkAlt (mkCat (deriv a x) b) (deriv b x) else mkCat (deriv a x) b
  | .alt a b, x => mkAlt (deriv a x) (deriv b x)
  | .star a, x => mkCat (deriv a x) (.star a)

def derivs (r : Re) (w : List Nat) : Re := w.foldl deriv r

/-- `w ∈ L(r)`. -/
def matchesRe (r : Re) (w : List Nat) : Bool := nullable (derivs r w)

/-! ### Longest match -/

/-- Scans `w` with derivatives of `r`; `n` characters have been consumed so far. Returns the
    greatest `m > n` such that the first `m - n` characters of `w` take `r` to a nullable
    derivative and `ok` holds for the remaining input, else `best`. -/
def longestFrom (ok : List Nat → Bool) : Re → List Nat → Nat → Option Nat → Option Nat
  | _, [], _, best => best
  | r, x :: xs, n, best =>
    let r' := deriv r x
    longestFrom ok r' xs (n + 1) (if nullable r' && ok xs then some (n + 1) else best)

/-- Same, but stops as soon as the derivative is syntactically `∅` (used by the driver; equal to
    `longestFrom` by `longestFromFast_eq`). -/
def longestFromFast (ok : List Nat → Bool) : Re → List Nat → Nat → Option Nat → Option Nat
  | _, [], _, best => best
  | r, x :: xs, n, best =>
    let r' := deriv r x
    if r' = .empty then best
    else longestFromFast ok r' xs (n + 1) (if nullable r' && ok xs then some (n + 1) else best)

/-- Length of the longest non-empty prefix of `w` matched by `r` (scnr2 tests acceptance only
    after consuming a character, so the empty prefix is never a match). -/
def longestMatch (r : Re) (w : List Nat) : Option Nat := longestFrom (fun _ => true) r w 0 none

/-- A lookahead regex "matches at" a position iff some non-empty prefix of the rest matches. -/
def prefixMatchNE (r : Re) (rest : List Nat) : Bool := (longestFromFast (fun _ => true) r rest 0 none).isSome

/-- Optional lookahead: `(true, r)` = followed by `r`, `(false, r)` = not followed by `r`. -/
def laHolds : Option (Bool × Re) → List Nat → Bool
  | none, _ => true
  | some (pos, r), rest => prefixMatchNE r rest == pos

structure ScanTerm where
  re : Re
  tok : Nat
  la : Option (Bool × Re)
  deriving Repr

/-- Longest non-empty match of one terminal whose lookahead condition holds at its end. -/
def ScanTerm.matchLen (t : ScanTerm) (w : List Nat) : Option Nat :=
  longestFromFast (laHolds t.la) t.re w 0 none

def ScanTerm.matchLenSpec (t : ScanTerm) (w : List Nat) : Option Nat :=
  longestFrom (laHolds t.la) t.re w 0 none

/-- Longest match among the terminals; on equal length the terminal declared first wins. -/
def bestOf (len : ScanTerm → Option Nat) : List ScanTerm → Option (Nat × Nat) → Option (Nat × Nat)
  | [], best => best
  | t :: ts, best =>
    match len t, best with
    | none, _ => bestOf len ts best
    | some n, none => bestOf len ts (some (n, t.tok))
    | some n, some (m, k) => bestOf len ts (if n > m then some (n, t.tok) else some (m, k))

inductive ModeOp | enter (m : Nat) | push (m : Nat) | pop
  deriving DecidableEq, Repr

structure ScanMode where
  terms : List ScanTerm
  trans : List (Nat × ModeOp)
  skips : List Nat := []
  deriving Repr

structure ScanSt where
  mode : Nat
  stack : List Nat
  deriving DecidableEq, Repr

/-- ScanMode transition at match time. `pop` on an empty stack keeps the current mode. -/
def applyModeOp (st : ScanSt) : Option ModeOp → ScanSt
  | none => st
  | some (.enter m) => { st with mode := m }
  | some (.push m) => { mode := m, stack := st.mode :: st.stack }
  | some .pop => match st.stack with
    | [] => st
    | m :: s => { mode := m, stack := s }

def lookupModeOp (trans : List (Nat × ModeOp)) (tok : Nat) : Option ModeOp :=
  (trans.find? (·.1 == tok)).map (·.2)

/-- A scanned token: type, start and end as character indices, and the mode it was read in. -/
structure ScanTok where
  tok : Nat
  start : Nat
  stop : Nat
  mode : Nat
  deriving DecidableEq, Repr

/-- One step of the documented rule at the head of `w`: `some (len, tok)` for a match. -/
def stepMatch (modes : List ScanMode) (st : ScanSt) (w : List Nat) : Option (Nat × Nat) :=
  match modes[st.mode]? with
  | none => none
  | some m => bestOf (·.matchLen w) m.terms none

/-- The tokenizer, fuelled by the number of characters left (+1). `none` = fuel exhausted, which
    `tokenize_total` excludes for `tokenizeSpec`. -/
def tokenizeFuel (modes : List ScanMode) : Nat → ScanSt → List Nat → Nat → Option (List ScanTok)
  | _, _, [], _ => some []
  | 0, _, _ :: _, _ => none
  | f + 1, st, x :: xs, pos =>
    match stepMatch modes st (x :: xs) with
    | none => tokenizeFuel modes f st xs (pos + 1)          -- nothing matches: skip one character
    | some (n, tok) =>
      let tr := (modes[st.mode]?.map (·.trans)).getD []
      let st' := applyModeOp st (lookupModeOp tr tok)
      -- `n ≥ 1` always (see `stepMatch_pos`); written `n - 1` so that the recursion is visibly on `xs`
      (tokenizeFuel modes f st' (xs.drop (n - 1)) (pos + n)).map
        (⟨tok, pos, pos + n, st.mode⟩ :: ·)

def tokenizeSpec (modes : List ScanMode) (w : List Nat) : Option (List ScanTok) :=
  tokenizeFuel modes (w.length + 1) ⟨0, []⟩ w 0

/-- scnr2 0.5.2 as observed (finding F21): U+10FFFF belongs to no character class of a generated
    scanner (off-by-one at `char::MAX` in `scnr2_generate::character_classes`), so no terminal ever
    matches it. The faithful model of the scanner therefore sees it as a value outside every
    (lowered, hence bounded by U+10FFFF) class. The specification does not do this. -/
def scnr2Text (w : List Nat) : List Nat := w.map fun c => if c = 0x10FFFF then 0x110000 else c

mutual
/-- scnr2 0.5.2 as observed (finding F25): while building the NFA of an alternation, an alternative
    that is added to a still-empty NFA REPLACES it, so empty alternatives at the head of an
    alternation are dropped: `(|a)` behaves as `a`. (`(a|)` is handled correctly.) Only the faithful
    model of the scanner applies this; the specification does not. -/
def scnr2Re : Re → Re
  | .alt a b => if a = .eps then scnr2Re b else .alt (scnr2Re a) (scnr2ReTail b)
  | .cat a b => .cat (scnr2Re a) (scnr2Re b)
  | .star a => .star (scnr2Re a)
  | r => r
/-- the alternatives after the first one (right spine of the lowered alternation) -/
def scnr2ReTail : Re → Re
  | .alt a b => .alt (scnr2Re a) (scnr2ReTail b)
  | r => scnr2Re r
end

def scnr2Term (t : ScanTerm) : ScanTerm :=
  { t with re := scnr2Re t.re, la := t.la.map fun p => (p.1, scnr2Re p.2) }

def scnr2Modes (ms : List ScanMode) : List ScanMode := ms.map fun m => { m with terms := m.terms.map scnr2Term }

/-! ### UTF-8 byte offsets (the implementation reports byte offsets) -/

def utf8Len (c : Nat) : Nat :=
  if c < 0x80 then 1 else if c < 0x800 then 2 else if c < 0x10000 then 3 else 4

/-- `byteOffsets w = [0, |w₀|, |w₀|+|w₁|, …]` (length `w.length + 1`). -/
def byteOffsets (w : List Nat) : List Nat :=
  (w.foldl (fun (acc : List Nat × Nat) c => ((acc.2 + utf8Len c) :: acc.1, acc.2 + utf8Len c)) ([0], 0)).1.reverse

/-! ### One-word protocol encoding of `Re` (prefix notation, no spaces)

`z` = ∅, `e` = ε, `[lo-hi,lo-hi]` / `[^lo-hi]` = class, `.XY` = concatenation, `|XY` = alternation,
`*X` = star. -/

def Cls.enc (c : Cls) : String :=
  "[" ++ (if c.neg then "^" else "") ++ ",".intercalate (c.ranges.map fun r => s!"{r.1}-{r.2}") ++ "]"

def Re.enc : Re → String
  | .empty => "z"
  | .eps => "e"
  | .cls c => c.enc
  | .cat a b => "." ++ a.enc ++ b.enc
  | .alt a b => "|" ++ a.enc ++ b.enc
  | .star a => "*" ++ a.enc

def parseRange (s : String) : Option (Nat × Nat) :=
  match s.splitOn "-" with
  | [a, b] => do some (← a.toNat?, ← b.toNat?)
  | _ => none

def parseCls (neg : Bool) (inside : List Char) : Option Cls :=
  if inside.isEmpty then some ⟨[], neg⟩
  else do
    let rs ← ((String.ofList inside).splitOn ",").mapM parseRange
    some ⟨rs, neg⟩

def parseRe : Nat → List Char → Option (Re × List Char)
  | 0, _ => none
  | _ + 1, 'z' :: r => some (.empty, r)
  | _ + 1, 'e' :: r => some (.eps, r)
  | _ + 1, '[' :: r =>
    let (neg, r) := match r with | '^' :: r' => (true, r') | _ => (false, r)
    let inside := r.takeWhile (· ≠ ']')
    match r.dropWhile (· ≠ ']') with
    | ']' :: rest => (parseCls neg inside).map fun c => (.cls c, rest)
    | _ => none
  | f + 1, '.' :: r => do
    let (a, r1) ← parseRe f r
    let (b, r2) ← parseRe f r1
    some (.cat a b, r2)
  | f + 1, '|' :: r => do
    let (a, r1) ← parseRe f r
    let (b, r2) ← parseRe f r1
    some (.alt a b, r2)
  | f + 1, '*' :: r => do
    let (a, r1) ← parseRe f r
    some (.star a, r1)
  | _ + 1, _ => none

def Re.dec (s : String) : Option Re :=
  match parseRe (s.length + 1) s.toList with
  | some (r, []) => some r
  | _ => none

/-! ### Protocol encoding of scanner descriptions

term  = `<tok>~<re>` | `<tok>~<re>~+<re>` (followed by) | `<tok>~<re>~!<re>` (not followed by)
trans = `<tok>>e<mode>` | `<tok>>p<mode>` | `<tok>>o`
mode  = `<term>;…/<trans>;…/<skip>;…`  (sections may be empty), modes are joined by `_`. -/

def parseScanTerm (s : String) : Option ScanTerm :=
  match s.splitOn "~" with
  | [t, r] => do some ⟨← Re.dec r, ← t.toNat?, none⟩
  | [t, r, l] => do
    let pos ← if l.startsWith "+" then some true else if l.startsWith "!" then some false else none
    some ⟨← Re.dec r, ← t.toNat?, some (pos, ← Re.dec (l.drop 1).toString)⟩
  | _ => none

def parseModeTrans (s : String) : Option (Nat × ModeOp) :=
  match s.splitOn ">" with
  | [t, o] => do
    let t ← t.toNat?
    if o == "o" then some (t, .pop)
    else if o.startsWith "e" then some (t, .enter (← (o.drop 1).toString.toNat?))
    else if o.startsWith "p" then some (t, .push (← (o.drop 1).toString.toNat?))
    else none
  | _ => none

def parseScanSection {α} (f : String → Option α) (s : String) : Option (List α) :=
  if s.isEmpty then some [] else (s.splitOn ";").mapM f

def parseScanMode (s : String) : Option ScanMode :=
  match s.splitOn "/" with
  | [a, b, c] => do
    some { terms := ← parseScanSection parseScanTerm a, trans := ← parseScanSection parseModeTrans b,
           skips := ← parseScanSection String.toNat? c }
  | _ => none

def parseScanModes (s : String) : Option (List ScanMode) := (s.splitOn "_").mapM parseScanMode

def showToks (w : List Nat) (ts : List ScanTok) : String :=
  let offs := byteOffsets w
  if ts.isEmpty then "-" else
  ",".intercalate (ts.map fun t => s!"{t.tok}:{offs.getD t.start 0}:{offs.getD t.stop 0}")

-- @handler re-match handleReMatch
/-- `re-match <re> <text>` → `1`/`0`. -/
def handleReMatch : List String → Option String
  | [r, w] => do
    let r ← Re.dec r
    let w ← Proto.parseNats w
    some (if matchesRe r w then "1" else "0")
  | _ => none

-- @handler tokenize handleTokenize
/-- `tokenize <modes> <text>` → the raw matches of the spec tokenizer, `type:start:end,…` with
    byte offsets (reusable by parser-level checks). -/
def handleTokenize : List String → Option String
  | [m, w] => do
    let m ← parseScanModes m
    let w ← Proto.parseNats w
    match tokenizeSpec m w with
    | none => some "fuel-exhausted"
    | some ts => some (showToks w ts)
  | _ => none

end ParolModel
