import ParolModel.Model.Comments
import ParolModel.Model.Tokens
/-! C13b — a model of `ScannerConfig::generate_build_information`
(crates/parol/src/generators/scanner_config.rs) and of `TerminalKind::expand` /
`TerminalKind::escape_raw_terminal` (crates/parol/src/grammar/symbol.rs).

The scanner description C13 hands to `tokenizeSpec` is re-derived from the REAL output of
`generate_build_information`; a defect inside that function therefore reaches both sides of the C13
tie. This file models the function itself: from the SOURCE-level data of a grammar configuration
(the ordered terminals as written: text, kind, optional lookahead with its OWN kind, scanner states;
per scanner state the flags and the comment delimiters) it computes the terminal mappings — exact
regex texts, exact order, exact token numbers.

* `regexEscapeChar` is `regex::escape` on one character (`regex_syntax::is_meta_character`).
* `escapeRawTerminal` mirrors the loop of `escape_raw_terminal`: a backslash followed by `u{`, at
  least one ASCII hex digit and `}` is re-emitted as `\u{<digits>}` and the iterator jumps behind the
  `}` (modelled by the skip counter of `escapeRawGo`); every other character goes through
  `regex::escape`.
* `buildInfo` mirrors the pushes of `generate_build_information` in order, including the places
  where the code indexes `terminal_names` (a short slice panics: `BinfoErr.panic`) and where
  `format_block_comment` fails (`BinfoErr.fmt`, first failing pair, `?`).
  Not modelled: the `as TerminalIndex` (u16) casts — fewer than 65531 terminals are assumed — and the
  scanner transitions, which the function merely clones.
Import-free (core Lean only). -/
namespace ParolModel

/-- `TerminalKind` -/
inductive TermKind where
  | legacy   -- `"…"`
  | regex    -- `/…/`
  | raw      -- `'…'`
  deriving DecidableEq, Repr

/-- `regex_syntax::is_meta_character` (regex-syntax 0.8). -/
def metaCharacters : List Char :=
  ['\\', '.', '+', '*', '?', '(', ')', '|', '[', ']', '{', '}', '^', '$', '#', '&', '-', '~']

def isMetaCharacter (c : Char) : Bool := metaCharacters.contains c

/-- `regex::escape(&ch.to_string())`. -/
def regexEscapeChar (c : Char) : List Char := if isMetaCharacter c then ['\\', c] else [c]

/-- `char::is_ascii_hexdigit`. -/
def isAsciiHexDigit (c : Char) : Bool :=
  (decide (48 ≤ c.toNat) && decide (c.toNat ≤ 57)) || (decide (65 ≤ c.toNat) && decide (c.toNat ≤ 70)) ||
  (decide (97 ≤ c.toNat) && decide (c.toNat ≤ 102))

/-- The `for c in lookahead.by_ref()` loop: the hex digits up to the closing `}`; `none` if another
    character or the end of the text comes first. -/
def scanHexDigits : List Char → Option (List Char)
  | [] => none
  | c :: r =>
    if c = '}' then some []
    else if isAsciiHexDigit c then (scanHexDigits r).map (c :: ·)
    else none

/-- The test made after a backslash (argument: the characters behind the backslash): `u`, `{`, a
    NON-EMPTY run of hex digits, `}`. Returns the digits. -/
def unicodeEscapeDigits : List Char → Option (List Char)
  | a :: b :: r =>
    if a = 'u' ∧ b = '{' then
      match scanHexDigits r with
      | some (d :: ds) => some (d :: ds)
      | _ => none
    else none
  | _ => none

/-- The loop of `escape_raw_terminal`. `skip` = number of characters the iterator has already been
    moved over (`chars = lookahead`). -/
def escapeRawGo : Nat → List Char → List Char
  | _, [] => []
  | skip + 1, _ :: r => escapeRawGo skip r
  | 0, c :: r =>
    if c = '\\' then
      match unicodeEscapeDigits r with
      | some ds => ['\\', 'u', '{'] ++ ds ++ ['}'] ++ escapeRawGo (ds.length + 3) r
      | none => regexEscapeChar c ++ escapeRawGo 0 r
    else regexEscapeChar c ++ escapeRawGo 0 r

/-- `TerminalKind::escape_raw_terminal`. -/
def escapeRawTerminal (t : List Char) : List Char := escapeRawGo 0 t

/-- `TerminalKind::expand`. -/
def TermKind.expand : TermKind → List Char → List Char
  | .legacy, t => t
  | .regex, t => t
  | .raw, t => escapeRawTerminal t

/-! ### What a raw terminal denotes -/

def hexDigitVal (c : Char) : Nat :=
  if c.toNat ≤ 57 then c.toNat - 48 else if c.toNat ≤ 70 then c.toNat - 55 else c.toNat - 87

def hexVal (ds : List Char) : Nat := ds.foldl (fun a c => 16 * a + hexDigitVal c) 0

/-- The string a raw terminal stands for: its characters, except that a preserved `\u{…}` stands
    for the code point it names (same traversal as `escapeRawGo`). -/
def rawMeaningGo : Nat → List Char → List Nat
  | _, [] => []
  | skip + 1, _ :: r => rawMeaningGo skip r
  | 0, c :: r =>
    if c = '\\' then
      match unicodeEscapeDigits r with
      | some ds => hexVal ds :: rawMeaningGo (ds.length + 3) r
      | none => c.toNat :: rawMeaningGo 0 r
    else c.toNat :: rawMeaningGo 0 r

def rawMeaning (t : List Char) : List Nat := rawMeaningGo 0 t

/-- Unicode scalar value. -/
def isScalar (n : Nat) : Bool := decide (n < 0xD800) || (decide (0xDFFF < n) && decide (n ≤ 0x10FFFF))

/-- A reader for the LITERAL fragment of regex syntax: a non-meta character stands for itself, a
    backslash followed by a meta character for that character, `\u{hex+}` for the code point; anything
    else is not a literal regex (`none`). This is how regex-syntax reads these texts (tied by the
    `rawlit` requests). -/
def readLiteralGo : Nat → List Char → Option (List Nat)
  | _, [] => some []
  | skip + 1, _ :: r => readLiteralGo skip r
  | 0, c :: r =>
    if c = '\\' then
      match r with
      | [] => none
      | d :: _ =>
        if isMetaCharacter d then (readLiteralGo 1 r).map (d.toNat :: ·)
        else match unicodeEscapeDigits r with
          | some ds => (readLiteralGo (ds.length + 3) r).map (hexVal ds :: ·)
          | none => none
    else if isMetaCharacter c then none
    else (readLiteralGo 0 r).map (c.toNat :: ·)

def readLiteralRx (rx : List Char) : Option (List Nat) := readLiteralGo 0 rx

/-! ### `generate_build_information` -/

/-- `LookaheadExpression` -/
structure LaSrc where
  positive : Bool
  kind : TermKind
  pattern : List Char
  deriving DecidableEq, Repr

/-- One element of `Cfg::get_ordered_terminals()`. -/
structure TermSrc where
  text : List Char
  kind : TermKind
  la : Option LaSrc
  states : List Nat
  deriving DecidableEq, Repr

/-- The fields of `ScannerConfig` the terminal mappings depend on. -/
structure ScannerSrc where
  state : Nat
  autoNewline : Bool
  autoWs : Bool
  lineComments : List (List Char)
  blockComments : List (List Char × List Char)
  allowUnmatched : Bool
  deriving Repr

/-- `TerminalMapping` -/
structure TermMapping where
  rx : List Char
  tok : Nat
  la : Option (Bool × List Char)
  name : String
  deriving Repr

inductive BinfoErr where
  | panic                 -- index out of bounds on `terminal_names`
  | fmt (e : FmtErr)      -- `format_block_comment` failed
  deriving DecidableEq, Repr

/-- `NEW_LINE_TOKEN` = `\r\n|\r|\n` -/
def newLineTokenRx : List Char := ['\\', 'r', '\\', 'n', '|', '\\', 'r', '|', '\\', 'n']
/-- `WHITESPACE_TOKEN` = `[\s--\r\n]+` -/
def whitespaceTokenRx : List Char := ['[', '\\', 's', '-', '-', '\\', 'r', '\\', 'n', ']', '+']
/-- `ERROR_TOKEN` = `.` -/
def errorTokenRx : List Char := ['.']
/-- `.*(\r\n|\r|\n)?` -/
def lineCommentTail : List Char :=
  ['.', '*', '(', '\\', 'r', '\\', 'n', '|', '\\', 'r', '|', '\\', 'n', ')', '?']

/-- `.join("|")` -/
def joinBar : List (List Char) → List Char
  | [] => []
  | [a] => a
  | a :: b :: r => a ++ '|' :: joinBar (b :: r)

/-- `format!(r###"{s}.*(\r\n|\r|\n)?"###)` -/
def lineCommentAlt (s : List Char) : List Char := s ++ lineCommentTail

/-- `line_comments_rx` -/
def lineCommentsRx (starts : List (List Char)) : List Char := joinBar (starts.map lineCommentAlt)

/-- `.map(|(s, e)| Self::format_block_comment(s, e)).collect::<Result<Vec<String>>>()?` -/
def blockCommentAlts : List (List Char × List Char) → Except BinfoErr (List (List Char))
  | [] => .ok []
  | (s, e) :: r =>
    match formatBlockComment (String.ofList s) (String.ofList e) with
    | .error err => .error (.fmt err)
    | .ok rx =>
      match blockCommentAlts r with
      | .error err => .error err
      | .ok rs => .ok (rx.render.toList :: rs)

/-- A pushed tuple; `terminal_names[tok].clone()` panics on a short slice. -/
def mkMapping (names : List String) (rx : List Char) (tok : Nat) (la : Option (Bool × List Char)) :
    Except BinfoErr TermMapping :=
  match names[tok]? with
  | some n => .ok ⟨rx, tok, la, n⟩
  | none => .error .panic

def singletonMapping (m : Except BinfoErr TermMapping) : Except BinfoErr (List TermMapping) := m.map ([·])

def newlinePart (names : List String) (sc : ScannerSrc) : Except BinfoErr (List TermMapping) :=
  if sc.autoNewline then singletonMapping (mkMapping names newLineTokenRx 1 none) else .ok []

def whitespacePart (names : List String) (sc : ScannerSrc) : Except BinfoErr (List TermMapping) :=
  if sc.autoWs then singletonMapping (mkMapping names whitespaceTokenRx 2 none) else .ok []

def lineCommentPart (names : List String) (sc : ScannerSrc) : Except BinfoErr (List TermMapping) :=
  if sc.lineComments.isEmpty then .ok [] else singletonMapping (mkMapping names (lineCommentsRx sc.lineComments) 3 none)

def blockCommentPart (names : List String) (sc : ScannerSrc) : Except BinfoErr (List TermMapping) :=
  if sc.blockComments.isEmpty then .ok []
  else match blockCommentAlts sc.blockComments with
    | .error e => .error e
    | .ok alts => singletonMapping (mkMapping names (joinBar alts) 4 none)

/-- `l.as_ref().map(|l| (l.is_positive, l.kind.expand(&l.pattern)))` -/
def expandLookahead (l : Option LaSrc) : Option (Bool × List Char) :=
  l.map fun l => (l.positive, l.kind.expand l.pattern)

/-- The fold over `cfg.get_ordered_terminals().iter().enumerate()`; `i` = index of the head. -/
def userPart (names : List String) (state : Nat) : Nat → List TermSrc → Except BinfoErr (List TermMapping)
  | _, [] => .ok []
  | i, t :: ts =>
    if t.states.contains state then
      match mkMapping names (t.kind.expand t.text) (i + firstUserTy) (expandLookahead t.la) with
      | .error e => .error e
      | .ok m =>
        match userPart names state (i + 1) ts with
        | .error e => .error e
        | .ok r => .ok (m :: r)
    else userPart names state (i + 1) ts

/-- The error token, index `terminal_names.len() - 1` (an empty slice: arithmetic overflow / index
    panic — `names[0]?` of the empty list is `none` as well). -/
def errorPart (names : List String) (sc : ScannerSrc) : Except BinfoErr (List TermMapping) :=
  if sc.allowUnmatched then .ok [] else singletonMapping (mkMapping names errorTokenRx (names.length - 1) none)

/-- The terminal mappings of `generate_build_information`. -/
def buildInfo (names : List String) (terms : List TermSrc) (sc : ScannerSrc) :
    Except BinfoErr (List TermMapping) :=
  match newlinePart names sc with
  | .error e => .error e
  | .ok a =>
  match whitespacePart names sc with
  | .error e => .error e
  | .ok b =>
  match lineCommentPart names sc with
  | .error e => .error e
  | .ok c =>
  match blockCommentPart names sc with
  | .error e => .error e
  | .ok d =>
  match userPart names sc.state 0 terms with
  | .error e => .error e
  | .ok u =>
  match errorPart names sc with
  | .error e => .error e
  | .ok z => .ok (a ++ b ++ c ++ d ++ u ++ z)

/-- The `ModeCfg` (Model/Tokens.lean) of a scanner state. -/
def ScannerSrc.modeCfg (sc : ScannerSrc) : ModeCfg :=
  ⟨sc.state, sc.autoNewline, sc.autoWs, !sc.lineComments.isEmpty, !sc.blockComments.isEmpty, sc.allowUnmatched⟩

/-! ### Protocol

string   = code points `c,c,…` (`-` = empty)
term     = `<kind>:<text>:<states>` | `<kind>:<text>:<states>:<sign><kind>:<pattern>`
           kind = `l` | `r` | `w` (legacy, regex, raw), states = `s.s.…` (`-` = none), sign = `+` | `!`
terms    = `<term>;…` (`-` = none)
scanner  = `<state>:<auto_newline><auto_ws><allow_unmatched>:<line comments>:<block comments>`
           flags `0`/`1`; line comments = `<string>/…`, block comments = `<string>|<string>/…`, `*` = none
scanners = `<scanner>;…`
names    = `n,n,…` (`-` = none)
reply    = per scanner state (joined by `_`): `err:<why>` or the mappings `<tok>:<regex>:<la>:<name>;…`
           with la = `n` | `+<regex>` | `!<regex>`; `panic` if any state panics. -/

def parseTermKind (s : String) : Option TermKind :=
  if s == "l" then some .legacy else if s == "r" then some .regex else if s == "w" then some .raw else none

def parseCpChars (s : String) : Option (List Char) := (Proto.parseNats s).map (·.map Char.ofNat)

def parseDotStates (s : String) : Option (List Nat) :=
  if s == "-" then some [] else (s.splitOn ".").mapM String.toNat?

def parseTermSrc (s : String) : Option TermSrc :=
  match s.splitOn ":" with
  | [k, t, st] => do some ⟨← parseCpChars t, ← parseTermKind k, none, ← parseDotStates st⟩
  | [k, t, st, lk, lp] => do
    let pos ← if lk.startsWith "+" then some true else if lk.startsWith "!" then some false else none
    let la : LaSrc := ⟨pos, ← parseTermKind (lk.drop 1).toString, ← parseCpChars lp⟩
    some ⟨← parseCpChars t, ← parseTermKind k, some la, ← parseDotStates st⟩
  | _ => none

def parseTermSrcs (s : String) : Option (List TermSrc) :=
  if s == "-" then some [] else (s.splitOn ";").mapM parseTermSrc

def parseScannerFlags (s : String) : Option (Bool × Bool × Bool) :=
  match s.toList with
  | [a, b, c] => do
    some (← Proto.parseBool a.toString, ← Proto.parseBool b.toString, ← Proto.parseBool c.toString)
  | _ => none

def parseLineComments (s : String) : Option (List (List Char)) :=
  if s == "*" then some [] else (s.splitOn "/").mapM parseCpChars

def parseBlockComments (s : String) : Option (List (List Char × List Char)) :=
  if s == "*" then some [] else
  (s.splitOn "/").mapM fun p => match p.splitOn "|" with
    | [a, b] => do some (← parseCpChars a, ← parseCpChars b)
    | _ => none

def parseScannerSrc (s : String) : Option ScannerSrc :=
  match s.splitOn ":" with
  | [st, fl, lc, bc] => do
    let (nl, ws, allow) ← parseScannerFlags fl
    some ⟨← st.toNat?, nl, ws, ← parseLineComments lc, ← parseBlockComments bc, allow⟩
  | _ => none

def parseScannerSrcs (s : String) : Option (List ScannerSrc) := (s.splitOn ";").mapM parseScannerSrc

def parseTerminalNames (s : String) : List String := if s == "-" then [] else s.splitOn ","

def showCpChars (l : List Char) : String := Proto.showNats (l.map Char.toNat)

def showTermMapping (m : TermMapping) : String :=
  let la := match m.la with
    | none => "n"
    | some (pos, r) => (if pos then "+" else "!") ++ showCpChars r
  s!"{m.tok}:{showCpChars m.rx}:{la}:{m.name}"

def showFmtErr : FmtErr → String
  | .dangling => "err:dangling"
  | .emptyEnd => "err:empty"
  | .tooLong => "err:too-long"

/-- `none` = the state panics. -/
def showBuildInfo : Except BinfoErr (List TermMapping) → Option String
  | .error .panic => none
  | .error (.fmt e) => some (showFmtErr e)
  | .ok ms => some (if ms.isEmpty then "-" else ";".intercalate (ms.map showTermMapping))

-- @handler binfo handleBinfo
/-- `binfo <names> <terms> <scanners> …` → the terminal mappings of every scanner state, computed from
    the source-level data (further words — the grammar text and the probe texts — are for the
    implementation side and the oracle stage). -/
def handleBinfo : List String → Option String
  | names :: terms :: scanners :: _ => do
    let names := parseTerminalNames names
    let terms ← parseTermSrcs terms
    let scs ← parseScannerSrcs scanners
    match scs.mapM fun sc => showBuildInfo (buildInfo names terms sc) with
    | none => some "panic"
    | some parts => some ("_".intercalate parts)
  | _ => none

-- @handler rawlit handleRawLit
/-- `rawlit <text>` → `<regex> lit <code points>`: `TerminalKind::Raw.expand(text)` and the literal
    string it denotes, or `<regex> not-literal` if a preserved `\u{…}` names no Unicode scalar value. -/
def handleRawLit : List String → Option String
  | [t] => do
    let t ← parseCpChars t
    let rx := showCpChars (escapeRawTerminal t)
    let m := rawMeaning t
    if m.all isScalar then some s!"{rx} lit {Proto.showNats m}" else some s!"{rx} not-literal"
  | _ => none

/-! ### The oracle on the real scanner's output -/

/-- `<re>` | `<re>~<re>` (regex and lookahead regex, lowered by the harness from the MODEL's regex
    texts). -/
def parseLoweredTerm (s : String) : Option (Re × Option Re) :=
  match s.splitOn "~" with
  | [r] => do some (← Re.dec r, none)
  | [r, l] => do some (← Re.dec r, some (← Re.dec l))
  | _ => none

def parseLoweredModes (s : String) : Option (List (List (Re × Option Re))) :=
  (s.splitOn "_").mapM (parseScanSection parseLoweredTerm)

/-- `<trans>;…/<skip>;…` per mode, modes joined by `_` (as in Model/Regex.lean). -/
def parseModeAux (s : String) : Option (List (Nat × ModeOp) × List Nat) :=
  match s.splitOn "/" with
  | [a, b] => do some (← parseScanSection parseModeTrans a, ← parseScanSection String.toNat? b)
  | _ => none

/-- Token number and lookahead sign come from the model's mapping, the `Re`s from the lowering of
    the model's regex texts; `none` if the shapes differ. -/
def zipLowered : List TermMapping → List (Re × Option Re) → Option (List ScanTerm)
  | [], [] => some []
  | m :: ms, (r, l) :: rs =>
    match m.la, l with
    | none, none => (zipLowered ms rs).map (⟨r, m.tok, none⟩ :: ·)
    | some (pos, _), some lr => (zipLowered ms rs).map (⟨r, m.tok, some (pos, lr)⟩ :: ·)
    | _, _ => none
  | _, _ => none

/-- For a raw terminal (raw lookahead) the meaning does not depend on the harness: the lowered regex
    must be the literal `rawMeaning`. -/
def rawLoweringOk (state : Nat) : List TermSrc → List ScanTerm → Bool
  | [], _ => true
  | t :: ts, sts =>
    if t.states.contains state then
      match sts with
      | [] => false
      | s :: sts' =>
        (t.kind != .raw || s.re == Re.lit (rawMeaning t.text)) &&
        (match t.la, s.la with
          | some l, some (_, lr) => l.kind != .raw || lr == Re.lit (rawMeaning l.pattern)
          | none, none => true
          | _, _ => false) &&
        rawLoweringOk state ts sts'
    else rawLoweringOk state ts sts

def scanModesOf (names : List String) (terms : List TermSrc) :
    List ScannerSrc → List (List (Re × Option Re)) → List (List (Nat × ModeOp) × List Nat) →
    Except String (List ScanMode)
  | [], [], [] => .ok []
  | sc :: scs, lw :: lws, (tr, sk) :: auxs =>
    match buildInfo names terms sc with
    | .error _ => .error "model-build-info-error"
    | .ok ms =>
      match zipLowered ms lw with
      | none => .error "lowered-shape"
      | some sts =>
        let user := sts.filter fun s => decide (firstUserTy ≤ s.tok) && decide (s.tok + 1 < names.length)
        if !rawLoweringOk sc.state terms user then .error "raw-lowering-mismatch"
        else match scanModesOf names terms scs lws auxs with
          | .error e => .error e
          | .ok rest => .ok ({ terms := sts, trans := tr, skips := sk } :: rest)
  | _, _, _ => .error "mode-count"

-- @handler binfo-scan-check handleBinfoScanCheck
/-- Property oracle: `binfo-scan-check <names> <terms> <scanners> <lowered> <aux> <text> <delivered>`.
    `delivered` is what the REAL scanner (scnr2 tables built from the REAL
    `generate_build_information`, REAL `TokenStream`) delivered for `text`. The expected sequence is
    computed from the SOURCE-level data: the model's mappings give the terminals of every mode, their
    order, token numbers and lookahead signs; their regex texts are lowered by the harness
    (`lowered`); `tokenizeSpec` is the documented rule. -/
def handleBinfoScanCheck : List String → Option String
  | [names, terms, scanners, lowered, aux, w, d] => do
    let names := parseTerminalNames names
    let terms ← parseTermSrcs terms
    let scs ← parseScannerSrcs scanners
    let lws ← parseLoweredModes lowered
    let auxs ← (aux.splitOn "_").mapM parseModeAux
    let w ← Proto.parseNats w
    match scanModesOf names terms scs lws auxs with
    | .error e => some s!"fail {e}"
    | .ok modes =>
      match tokenizeSpec modes w with
      | none => some "fuel-exhausted"
      | some ts =>
        let exp := showDelivered (deliveredRef (toLToks modes w ts) (utf8Total w))
        if exp == d then some "ok" else some s!"fail expected={exp}"
  | _ => none

end ParolModel
