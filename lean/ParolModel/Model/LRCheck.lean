import ParolModel.Model.LR
import ParolModel.Model.LangOracle
/-! Verified validity checker for LALR(1) parse tables (C03, C04): a table that passes `lrTableValid`
makes the LR parser model sound for EVERY input (`lr_sound`, Proofs/LR.lean), whether or not
conflicts were resolved while building it. All clauses are local or walk backwards over at most
|rhs| transitions. -/
namespace ParolModel

/-- All transitions `(from, symbol, to)` of the automaton: shifts and gotos. -/
def lrEdges (T : LRTables) : List (Nat × Sym × Nat) :=
  T.rows.zipIdx.flatMap fun (row, s) =>
    (row.acts.filterMap fun (t, a) => match a with
      | .shift s' => some (s, Sym.t t, s')
      | _ => none) ++
    (row.gotos.map fun (a, s') => (s, Sym.n a, s'))

/-- Accessing symbol of a state: the symbol of the first transition into it. -/
def lrAccOf (T : LRTables) (q : Nat) : Option Sym :=
  ((lrEdges T).find? (fun e => e.2.2 == q)).map (·.2.1)

def preds (T : LRTables) (q : Nat) : List Nat :=
  ((lrEdges T).filter (fun e => e.2.2 == q)).map (·.1)

/-- Every transition into a state carries that state's accessing symbol. -/
def accConsistent (T : LRTables) : Bool :=
  (lrEdges T).all fun e => lrAccOf T e.2.2 == some e.2.1

/-- Every backward path from `q` spells `rr` (the right-hand side REVERSED), and the states reached
    after walking it all satisfy `final`. -/
def backSpells (T : LRTables) (final : Nat → Bool) : Nat → List Sym → Bool
  | q, [] => final q
  | q, X :: rest => lrAccOf T q == some X && (preds T q).all (fun s => backSpells T final s rest)

/-- Table validity relative to the productions with their symbols (`gprods`, index-aligned with the
    runtime production table): lengths and left-hand sides agree; accessing symbols are consistent;
    state 0 has no incoming transition; every `Reduce(A, p)` sits in a state all of whose backward
    paths of length |rhs p| spell rhs p, with `lhs p = A`; `Accept` occurs only on EOI (terminal 0)
    and only where all backward paths spell the right-hand side of the FIRST production of the start
    symbol and end in state 0; no shift on EOI. -/
def lrTableValid (T : LRTables) (gprods : List Rule) : Bool :=
  gprods.length == T.prods.length &&
  ((gprods.zip T.prods).all fun (r, p) => r.lhs == p.lhs && r.rhs.length == p.len) &&
  accConsistent T &&
  (preds T 0).isEmpty &&
  (T.rows.zipIdx.all fun (row, q) =>
    row.acts.all fun (t, a) => match a with
      | .shift _ => t != 0
      | .reduce a p =>
        match gprods[p]? with
        | some r => r.lhs == a && backSpells T (fun _ => true) q r.rhs.reverse
        | none => false
      | .accept =>
        t == 0 &&
        match T.prods.findIdx? (·.lhs == T.start) with
        | some p0 =>
          match gprods[p0]? with
          | some r => backSpells T (fun s => s == 0) q r.rhs.reverse
          | none => false
        | none => false)

-- @handler lr-verdict handleLRVerdict
/-- `lr-verdict <start> <prods> <rows> <gprods> <gstart> <gprods0> <w> <verdict-word>`: `ok` iff the
    real table passes `lrTableValid` (with the transformed grammar's productions `gprods`, in parol's
    own terminal/non-terminal numbering) and the real parser's verdict on `w` equals membership of
    `w` in the language of the ORIGINAL grammar. -/
def handleLRVerdict : List String → Option String
  | [st, ps, rs, gps, gst, gps0, w, v] => do
    let st ← st.toNat?
    let ps ← parseLRProds ps
    let rs ← parseLRRows rs
    let gps ← parseRules gps
    let T : LRTables := ⟨st, ps, rs⟩
    if !lrTableValid T gps then some "fail lr-table-not-valid" else
    handleLangVerdict [gst, gps0, w, v]
  | _ => none

-- @handler lr-table-valid handleLRTableValid
/-- `lr-table-valid <start> <prods> <rows> <gprods>` → `ok` iff `lrTableValid`. -/
def handleLRTableValid : List String → Option String
  | [st, ps, rs, gps] => do
    let st ← st.toNat?
    let ps ← parseLRProds ps
    let rs ← parseLRRows rs
    let gps ← parseRules gps
    if lrTableValid ⟨st, ps, rs⟩ gps then some "ok" else some "fail lr-table-not-valid"
  | _ => none

end ParolModel
