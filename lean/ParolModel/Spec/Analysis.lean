import ParolModel.Spec.Cfg
/-! Declarative definitions of the four non-terminal sets that C11 talks about, on top of the
big-step semantics `Yield` and of sentential-form derivations `Derives`. Nothing here is
executable; `Proofs/Fixpoints.lean` relates these definitions to the computations of
`Model/Fixpoints.lean`. -/
namespace ParolModel

/-- `A ⇒* ε`. -/
def Nullable (G : Grammar) (A : Nat) : Prop := Yield G [.n A] []

/-- `∃ w ∈ T*, A ⇒* w`. -/
def Productive (G : Grammar) (A : Nat) : Prop := ∃ w, Yield G [.n A] w

/-- One derivation step on sentential forms: `x A y ⇒ x α y` for a production `A → α`
    (any occurrence, not only the leftmost). -/
inductive Step (G : Grammar) : List Sym → List Sym → Prop
  | mk (x y : List Sym) (p : Rule) : p ∈ G.prods → Step G (x ++ .n p.lhs :: y) (x ++ p.rhs ++ y)

/-- `⇒*` on sentential forms. -/
inductive Derives (G : Grammar) : List Sym → List Sym → Prop
  | refl (a : List Sym) : Derives G a a
  | head {a b c : List Sym} : Step G a b → Derives G b c → Derives G a c

/-- `S ⇒* α A β`. -/
def Reachable (G : Grammar) (A : Nat) : Prop :=
  ∃ x y, Derives G [.n G.start] (x ++ .n A :: y)

/-- `A ⇒⁺ A γ`: at least one step, after which `A` stands at the left end. (Whatever stood in
    front of that `A` on the way has been derived to ε — "nullable-hidden" left recursion is
    included, as is indirect left recursion.) -/
def LeftRec (G : Grammar) (A : Nat) : Prop :=
  ∃ b y, Step G [.n A] b ∧ Derives G b (.n A :: y)

/-! The combinatorial characterisation used by the proofs (and by the code): `A` *can start with*
`B` if some production `A → C₁ … Cₙ B β` has nullable `C₁ … Cₙ`. -/

/-- `StartsIn G r B`: `r = C₁ … Cₙ B β` with all `Cᵢ` nullable non-terminals. -/
inductive StartsIn (G : Grammar) : List Sym → Nat → Prop
  | here (B : Nat) (r : List Sym) : StartsIn G (.n B :: r) B
  | skip {C : Nat} {r : List Sym} {B : Nat} : Nullable G C → StartsIn G r B → StartsIn G (.n C :: r) B

def Starts (G : Grammar) (A B : Nat) : Prop := ∃ p, p ∈ G.prods ∧ p.lhs = A ∧ StartsIn G p.rhs B

/-- Transitive closure of `Starts`. -/
inductive StartsPlus (G : Grammar) : Nat → Nat → Prop
  | single {A B : Nat} : Starts G A B → StartsPlus G A B
  | head {A B C : Nat} : Starts G A B → StartsPlus G B C → StartsPlus G A C

end ParolModel
