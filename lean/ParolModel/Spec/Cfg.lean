namespace ParolModel

inductive Sym | t (i : Nat) | n (i : Nat)
  deriving DecidableEq, Repr

structure Rule where
  lhs : Nat
  rhs : List Sym
  deriving DecidableEq, Repr

structure Grammar where
  start : Nat
  prods : List Rule

/-- Sequence-level big-step derivation: `Yield G ss w` iff the symbol string `ss` derives `w`. -/
inductive Yield (G : Grammar) : List Sym → List Nat → Prop
  | nil : Yield G [] []
  | term (a : Nat) {ss w} : Yield G ss w → Yield G (.t a :: ss) (a :: w)
  | nonterm (p : Rule) {ss u v} : p ∈ G.prods → Yield G p.rhs u → Yield G ss v →
      Yield G (.n p.lhs :: ss) (u ++ v)

def Lang (G : Grammar) (w : List Nat) : Prop := Yield G [.n G.start] w

theorem Yield.append {G : Grammar} {a b : List Sym} {u v : List Nat}
    (h1 : Yield G a u) (h2 : Yield G b v) : Yield G (a ++ b) (u ++ v) := by
  induction h1 with
  | nil => simpa using h2
  | term x _ ih => simpa using Yield.term x ih
  | nonterm p hp hr _ _ ih2 =>
    rw [List.append_assoc]
    exact Yield.nonterm p hp hr ih2

theorem Yield.split {G : Grammar} {a b : List Sym} {w : List Nat}
    (h : Yield G (a ++ b) w) : ∃ u v, w = u ++ v ∧ Yield G a u ∧ Yield G b v := by
  induction a generalizing w with
  | nil => exact ⟨[], w, rfl, .nil, h⟩
  | cons s a ih =>
    cases h with
    | term x h' =>
      obtain ⟨u, v, rfl, hu, hv⟩ := ih h'
      exact ⟨x :: u, v, rfl, .term x hu, hv⟩
    | nonterm p hp hr hs =>
      obtain ⟨u, v, rfl, hu, hv⟩ := ih hs
      exact ⟨_ ++ u, v, by simp, .nonterm p hp hr hu, hv⟩

/-- Monotonicity in the production set. -/
theorem Yield.mono {G G' : Grammar} (hsub : ∀ p, p ∈ G.prods → p ∈ G'.prods)
    {ss w} (h : Yield G ss w) : Yield G' ss w := by
  induction h with
  | nil => exact .nil
  | term x _ ih => exact .term x ih
  | nonterm p hp _ _ ih1 ih2 => exact .nonterm p (hsub p hp) ih1 ih2

/-- Model of `augment_grammar` (fixed variant: new start `s'` with single production s' → s). -/
def augment (G : Grammar) (s' : Nat) : Grammar :=
  { start := s', prods := ⟨s', [.n G.start]⟩ :: G.prods }

def usesNT (G : Grammar) (x : Nat) : Prop :=
  x = G.start ∨ ∃ p ∈ G.prods, p.lhs = x ∨ Sym.n x ∈ p.rhs

/-- Removing a fresh production: derivations from strings not mentioning `s'` never use it. -/
theorem yield_of_augment {G : Grammar} {s' : Nat} (hfresh : ¬ usesNT G s')
    {ss w} (h : Yield (augment G s') ss w) (hss : Sym.n s' ∉ ss) : Yield G ss w := by
  induction h with
  | nil => exact .nil
  | term x _ ih =>
    exact .term x (ih (fun hm => hss (List.mem_cons_of_mem _ hm)))
  | nonterm p hp _ _ ih1 ih2 =>
    have hp' : p ∈ G.prods := by
      simp only [augment, List.mem_cons] at hp
      rcases hp with rfl | hp
      · exact absurd (List.mem_cons_self) hss
      · exact hp
    refine .nonterm p hp' (ih1 ?_) (ih2 (fun hm => hss (List.mem_cons_of_mem _ hm)))
    intro hm
    exact hfresh (Or.inr ⟨p, hp', Or.inr hm⟩)

theorem yield_nt_inv {G : Grammar} {x : Nat} {w : List Nat} (h : Yield G [.n x] w) :
    ∃ p, p ∈ G.prods ∧ p.lhs = x ∧ Yield G p.rhs w := by
  generalize hs : [Sym.n x] = ss at h
  cases h with
  | nil => cases hs
  | term a _ => cases hs
  | nonterm p hp hr htl =>
    injection hs with h1 h2
    subst h2
    cases htl
    injection h1 with h1
    exact ⟨p, hp, h1.symm, by simpa using hr⟩

theorem augment_preserves_lang (G : Grammar) (s' : Nat) (hfresh : ¬ usesNT G s') (w : List Nat) :
    Lang (augment G s') w ↔ Lang G w := by
  constructor
  · intro h
    obtain ⟨p, hp, hl, hr⟩ := yield_nt_inv h
    simp only [augment, List.mem_cons] at hp
    rcases hp with rfl | hp
    · apply yield_of_augment hfresh hr
      simp only [List.mem_singleton, Sym.n.injEq]
      intro h; exact hfresh (Or.inl h)
    · exfalso
      exact hfresh (Or.inr ⟨p, hp, Or.inl hl⟩)
  · intro h
    have h' : Yield (augment G s') [.n G.start] w :=
      Yield.mono (fun p hp => List.mem_cons_of_mem _ hp) h
    have := Yield.nonterm (G := augment G s') ⟨s', [.n G.start]⟩ (ss := []) (List.mem_cons_self) h' .nil
    simpa [Lang, augment] using this


end ParolModel
