import ParolModel.Proofs.FixNullable
/-! Correctness of the productivity computation (Jacobi iteration on a Boolean vector). -/
namespace ParolModel

theorem lookupB_map (ntl : List Nat) (g : Nat → Bool) (A : Nat) :
    lookupB ntl (ntl.map g) A = if A ∈ ntl then g A else false := by
  induction ntl with
  | nil => simp [lookupB]
  | cons n ns ih =>
    simp only [List.map_cons, lookupB]
    by_cases h : n = A
    · subst h; simp
    · have h' : ¬ A = n := fun e => h e.symm
      simp [h, h', ih]

theorem lookupB_map_of_mem {ntl : List Nat} {g : Nat → Bool} {A : Nat} (h : A ∈ ntl) :
    lookupB ntl (ntl.map g) A = g A := by
  rw [lookupB_map]; simp [h]

theorem falseNames_map (ntl : List Nat) (g : Nat → Bool) :
    falseNames ntl (ntl.map g) = ntl.filter (fun a => !g a) := by
  induction ntl with
  | nil => simp [falseNames]
  | cons n ns ih =>
    simp only [List.map_cons, falseNames, List.filter_cons]
    cases g n <;> simp [ih]

/-! ### Yield helpers -/

theorem yield_of_all_term {G : Grammar} {r : List Sym} (h : r.all isTerm = true) :
    ∃ w, Yield G r w := by
  induction r with
  | nil => exact ⟨[], .nil⟩
  | cons s r ih =>
    simp only [List.all_cons, Bool.and_eq_true] at h
    obtain ⟨w, hw⟩ := ih h.2
    cases s with
    | t a => exact ⟨a :: w, .term a hw⟩
    | n a => simp [isTerm] at h

theorem yield_of_all_productive {G : Grammar} {r : List Sym}
    (h : ∀ a ∈ rhsNts r, Productive G a) : ∃ w, Yield G r w := by
  induction r with
  | nil => exact ⟨[], .nil⟩
  | cons s r ih =>
    cases s with
    | t a =>
      obtain ⟨w, hw⟩ := ih (fun b hb => h b (by simpa [rhsNts] using hb))
      exact ⟨a :: w, .term a hw⟩
    | n a =>
      obtain ⟨w, hw⟩ := ih (fun b hb => h b (by simp [rhsNts, hb]))
      obtain ⟨u, hu⟩ := h a (by simp [rhsNts])
      exact ⟨u ++ w, by simpa using Yield.append hu hw⟩

theorem productive_of_prod {G : Grammar} {p : Rule} (hp : p ∈ G.prods) {w : List Nat}
    (h : Yield G p.rhs w) : Productive G p.lhs := by
  have := Yield.nonterm p hp h (.nil)
  exact ⟨_, this⟩

theorem rhsNts_nil_of_all_term {r : List Sym} (h : r.all isTerm = true) : rhsNts r = [] := by
  induction r with
  | nil => rfl
  | cons s r ih =>
    simp only [List.all_cons, Bool.and_eq_true] at h
    cases s with
    | t a => simpa [rhsNts] using ih h.2
    | n a => simp [isTerm] at h

/-! ### The equation -/

/-- `prodEq` in propositional form. -/
theorem prodEq_iff {G : Grammar} {ntl : List Nat} {rv : List Bool} {A : Nat} :
    prodEq G ntl rv A = true ↔
      ∃ p ∈ G.prods, p.lhs = A ∧ ∀ a ∈ rhsNts p.rhs, lookupB ntl rv a = true := by
  unfold prodEq
  simp only []
  constructor
  · intro h
    split at h
    · cases h
    · split at h
      · rename_i h2
        simp only [List.any_eq_true, mem_matching] at h2
        obtain ⟨p, ⟨hp, hl⟩, ht⟩ := h2
        refine ⟨p, hp, hl, ?_⟩
        rw [rhsNts_nil_of_all_term ht]; simp
      · simp only [List.any_eq_true, mem_matching, List.all_eq_true] at h
        obtain ⟨p, ⟨hp, hl⟩, ha⟩ := h
        exact ⟨p, hp, hl, ha⟩
  · rintro ⟨p, hp, hl, ha⟩
    have hm : p ∈ matching G A := mem_matching.mpr ⟨hp, hl⟩
    split
    · rename_i he
      rw [List.isEmpty_iff] at he
      rw [he] at hm; cases hm
    · split
      · rfl
      · simp only [List.any_eq_true, List.all_eq_true]
        exact ⟨p, hm, ha⟩

/-- The state of the loop is always `ntl.map g`. -/
def ProdInv (G : Grammar) (rv : List Bool) : Prop :=
  ∃ g : Nat → Bool, rv = (nts G).map g ∧
    (∀ A ∈ nts G, g A = true → Productive G A) ∧
    (∀ A ∈ nts G, g A = true → prodEq G (nts G) ((nts G).map g) A = true)

theorem prodEq_sound {G : Grammar} {g : Nat → Bool}
    (hs : ∀ A ∈ nts G, g A = true → Productive G A) {A : Nat}
    (h : prodEq G (nts G) ((nts G).map g) A = true) : Productive G A := by
  obtain ⟨p, hp, hl, ha⟩ := prodEq_iff.mp h
  subst hl
  have : ∀ a ∈ rhsNts p.rhs, Productive G a := by
    intro a hm
    have hn : a ∈ nts G := rhs_mem_nts hp (mem_rhsNts.mp hm)
    have := ha a hm
    rw [lookupB_map_of_mem hn] at this
    exact hs a hn this
  obtain ⟨w, hw⟩ := yield_of_all_productive this
  exact productive_of_prod hp hw

theorem prodEq_mono {G : Grammar} {g g' : Nat → Bool}
    (hle : ∀ A ∈ nts G, g A = true → g' A = true) {A : Nat}
    (h : prodEq G (nts G) ((nts G).map g) A = true) :
    prodEq G (nts G) ((nts G).map g') A = true := by
  obtain ⟨p, hp, hl, ha⟩ := prodEq_iff.mp h
  refine prodEq_iff.mpr ⟨p, hp, hl, ?_⟩
  intro a hm
  have hn : a ∈ nts G := rhs_mem_nts hp (mem_rhsNts.mp hm)
  have := ha a hm
  rw [lookupB_map_of_mem hn] at this ⊢
  exact hle a hn this

theorem prodInv_initial (G : Grammar) : ProdInv G ((nts G).map (fun _ => false)) :=
  ⟨fun _ => false, rfl, by simp, by simp⟩

theorem prodInv_step {G : Grammar} {rv : List Bool} (h : ProdInv G rv) :
    ProdInv G (prodStep G (nts G) rv) := by
  obtain ⟨g, rfl, hs, hm⟩ := h
  refine ⟨prodEq G (nts G) ((nts G).map g), rfl, ?_, ?_⟩
  · intro A _ hA
    exact prodEq_sound hs hA
  · intro A _ hA
    exact prodEq_mono hm hA

/-- Completeness at a fixpoint. -/
theorem productive_complete {G : Grammar} {g : Nat → Bool}
    (hfix : ∀ A ∈ nts G, prodEq G (nts G) ((nts G).map g) A = g A)
    {ss : List Sym} {w : List Nat} (h : Yield G ss w) :
    ∀ a ∈ rhsNts ss, g a = true := by
  induction h with
  | nil => simp [rhsNts]
  | term a _ ih => simpa [rhsNts] using ih
  | @nonterm p ss u v hp _ _ ih1 ih2 =>
    intro a ha
    simp only [rhsNts, List.mem_cons] at ha
    rcases ha with rfl | ha
    · rw [← hfix _ (lhs_mem_nts hp)]
      refine prodEq_iff.mpr ⟨p, hp, rfl, ?_⟩
      intro b hb
      rw [lookupB_map_of_mem (rhs_mem_nts hp (mem_rhsNts.mp hb))]
      exact ih1 b hb
    · exact ih2 a ha

theorem prodIter_some {G : Grammar} {fuel : Nat} {rv R : List Bool} (hI : ProdInv G rv)
    (h : prodIter G (nts G) fuel rv = some R) :
    ProdInv G R ∧ prodStep G (nts G) R = R := by
  induction fuel generalizing rv with
  | zero => simp [prodIter] at h
  | succ f ih =>
    simp only [prodIter] at h
    split at h
    · rename_i he
      injection h with h
      subst h
      exact ⟨hI, he⟩
    · exact ih (prodInv_step hI) h

theorem nonProductiveCore_spec {G : Grammar} {fuel : Nat} {l : List Nat}
    (h : nonProductiveCore G fuel = some l) :
    ∀ A, A ∈ l ↔ A ∈ nts G ∧ ¬ Productive G A := by
  unfold nonProductiveCore at h
  simp only [Option.map_eq_some_iff] at h
  obtain ⟨R, hR, rfl⟩ := h
  obtain ⟨⟨g, rfl, hs, _⟩, hfix⟩ := prodIter_some (prodInv_initial G) hR
  have hfix' : ∀ A ∈ nts G, prodEq G (nts G) ((nts G).map g) A = g A := by
    intro A hA
    unfold prodStep at hfix
    exact List.map_inj_left.mp hfix A hA
  intro A
  rw [falseNames_map, List.mem_filter]
  constructor
  · rintro ⟨hA, hg⟩
    refine ⟨hA, ?_⟩
    rintro ⟨w, hw⟩
    have := productive_complete hfix' hw A (by simp [rhsNts])
    simp [this] at hg
  · rintro ⟨hA, hnp⟩
    refine ⟨hA, ?_⟩
    cases hg : g A
    · rfl
    · exact absurd (hs A hA hg) hnp

theorem nonProductiveSet_sorted {G : Grammar} {l : List Nat} (h : nonProductiveSet G = some l) :
    l.Pairwise (· < ·) := by
  unfold nonProductiveSet nonProductiveCore at h
  simp only [Option.map_eq_some_iff] at h
  obtain ⟨R, hR, rfl⟩ := h
  obtain ⟨⟨g, rfl, _, _⟩, _⟩ := prodIter_some (prodInv_initial G) hR
  rw [falseNames_map]
  exact (nts_sorted G).filter _

/-! ### Termination -/

theorem filter_length_le_of_imp {l : List Nat} {g g' : Nat → Bool}
    (hle : ∀ A ∈ l, g A = true → g' A = true) :
    (l.filter g).length ≤ (l.filter g').length := by
  induction l with
  | nil => simp
  | cons a l ih =>
    have ih' := ih (fun A hA => hle A (List.mem_cons_of_mem _ hA))
    have ha := hle a (List.mem_cons_self)
    simp only [List.filter_cons]
    cases hg : g a <;> cases hg' : g' a <;> simp_all <;> omega

theorem filter_length_lt_of_ne {l : List Nat} {g g' : Nat → Bool}
    (hle : ∀ A ∈ l, g A = true → g' A = true) (hne : l.map g' ≠ l.map g) :
    (l.filter g).length < (l.filter g').length := by
  induction l with
  | nil => simp at hne
  | cons a l ih =>
    have hle' : ∀ A ∈ l, g A = true → g' A = true := fun A hA => hle A (List.mem_cons_of_mem _ hA)
    have ha := hle a (List.mem_cons_self)
    have hmono := filter_length_le_of_imp hle'
    simp only [List.filter_cons]
    by_cases he : g' a = g a
    · have hne' : l.map g' ≠ l.map g := by
        intro e; apply hne; simp [he, e]
      have := ih hle' hne'
      cases hg : g a <;> simp_all
    · cases hg : g a <;> cases hg' : g' a <;> simp_all <;> omega

theorem prodIter_isSome {G : Grammar} {fuel : Nat} {g : Nat → Bool}
    (hm : ∀ A ∈ nts G, g A = true → prodEq G (nts G) ((nts G).map g) A = true)
    (hf : (nts G).length + 1 ≤ fuel + ((nts G).filter g).length) :
    (prodIter G (nts G) fuel ((nts G).map g)).isSome := by
  induction fuel generalizing g with
  | zero =>
    have := List.length_filter_le g (nts G)
    omega
  | succ f ih =>
    simp only [prodIter]
    split
    · rfl
    · rename_i hne
      unfold prodStep at hne ⊢
      apply ih
      · intro A _ hA
        exact prodEq_mono hm hA
      · have := filter_length_lt_of_ne (l := nts G) (g := g)
          (g' := prodEq G (nts G) ((nts G).map g)) hm hne
        omega

theorem nonProductiveSet_isSome (G : Grammar) : (nonProductiveSet G).isSome := by
  unfold nonProductiveSet nonProductiveCore
  rw [Option.isSome_map]
  apply prodIter_isSome
  · simp
  · unfold nonProductiveFuel; omega

end ParolModel
