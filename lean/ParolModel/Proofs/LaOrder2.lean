import ParolModel.Proofs.LaOrder
/-! Proofs (C07/C24), part 5b: order independence of `minimize` — soundness and completeness of the
merging phases with respect to an equivalence, uniqueness of the result. -/
namespace ParolModel

theorem nodup_snd_inj : ∀ {nb : Nbrs}, (nb.map Prod.snd).Nodup → ∀ {y y' : Nat × Nat}, y ∈ nb → y' ∈ nb → y.2 = y'.2 → y = y' := by
  intro nb
  induction nb with
  | nil => intro _ y y' hy; cases hy
  | cons x xs ih =>
    intro h y y' hy hy' e
    simp only [List.map_cons, List.nodup_cons] at h
    rcases List.mem_cons.1 hy with h1 | h1
    · rcases List.mem_cons.1 hy' with h2 | h2
      · rw [h1, h2]
      · exfalso
        apply h.1
        rw [← h1, e]
        exact List.mem_map_of_mem h2
    · rcases List.mem_cons.1 hy' with h2 | h2
      · exfalso
        apply h.1
        rw [← h2, ← e]
        exact List.mem_map_of_mem h1
      · exact ih h.2 h1 h2 e

/-- A quotient all of whose classes lie inside the equivalence `R`. -/
structure QS (a0 : Adj) (R : Nat → Nat → Prop) (rep : Nat → Nat) (a : Adj) : Prop where
  q : Quot a0 rep a
  wf : AdjWF a
  sound : ∀ s, R s (rep s)

section
variable {a0 : Adj} {R : Nat → Nat → Prop}

theorem combineTwo_qs (hR : Equivalence R) {a a' : Adj} {rep : Nat → Nat} {keep merge : Nat}
    (qs : QS a0 R rep a) (h : a.combineTwo keep merge = some a')
    (hsame : ∀ lm lk, bmGet a.list merge = some lm → bmGet a.list keep = some lk → lm = lk)
    (hlt : keep < merge) (hrel : R merge keep) : QS a0 R (hmap merge keep ∘ rep) a' := by
  refine ⟨combineTwo_quot qs.wf qs.q h hsame hlt, combineTwo_wf qs.wf h hsame (by omega), ?_⟩
  intro s
  simp only [Function.comp, hmap]
  by_cases hs : rep s = merge
  · simp only [hs, if_true]
    exact hR.trans (hs ▸ qs.sound s) hrel
  · simp only [hs, if_false]
    exact qs.sound s

theorem present_fixed {a : Adj} {rep : Nat → Nat} (q : Quot a0 rep a) {r : Nat} (h : (bmGet a.list r).isSome) : rep r = r := by
  rw [q.get_list] at h
  by_cases hr : rep r = r
  · exact hr
  · simp [hr] at h

theorem combineFold_qs (hR : Equivalence R) (keep : Nat) : ∀ (rest : List Nat) {a a' : Adj} {rep : Nat → Nat},
    QS a0 R rep a → rest.foldlM (fun (a : Adj) m => a.combineTwo keep m) a = some a' →
    (∀ m ∈ rest, ∀ lm lk, bmGet a.list m = some lm → bmGet a.list keep = some lk → lm = lk) →
    (∀ m ∈ rest, keep < m) →
    (∀ m ∈ rest, ∀ (rep : Nat → Nat) (a : Adj), QS a0 R rep a →
      (∀ lm lk, bmGet a.list m = some lm → bmGet a.list keep = some lk → lm = lk) →
      (bmGet a.list m).isSome → (bmGet a.list keep).isSome → R m keep) →
    ∃ rep', QS a0 R rep' a' ∧ (∀ s t, rep s = rep t → rep' s = rep' t) ∧
      (rest ≠ [] → ∀ m ∈ rest, rep' m = rep' keep) := by
  intro rest
  induction rest with
  | nil =>
    intro a a' rep qs h _ _ _
    simp only [List.foldlM_nil] at h
    injection h with h
    subst h
    exact ⟨rep, qs, fun _ _ h => h, fun h => absurd rfl h⟩
  | cons m ms ih =>
    intro a a' rep qs h hsame hlt hjust
    rw [foldlM_option_cons] at h
    cases h1 : a.combineTwo keep m with
    | none => simp [h1] at h
    | some a1 =>
      simp only [h1, Option.bind_some] at h
      have hs1 := hsame m List.mem_cons_self
      obtain ⟨_, ⟨l, pk, e1, e2, _, _⟩, _⟩ := combineTwo_eq h1 hs1
      have hrel := hjust m List.mem_cons_self rep a qs hs1 (by simp [e2]) (by simp [e1])
      have qs1 := combineTwo_qs hR qs h1 hs1 (hlt m List.mem_cons_self) hrel
      have hsame1 : ∀ m' ∈ ms, ∀ lm lk, bmGet a1.list m' = some lm → bmGet a1.list keep = some lk → lm = lk := by
        intro m' hm' lm lk e1' e2'
        rw [combineTwo_get_list h1 hs1] at e1' e2'
        by_cases hm1 : m' = m
        · simp [hm1] at e1'
        · by_cases hk1 : keep = m
          · simp [hk1] at e2'
          · simp only [hm1, hk1, if_false] at e1' e2'
            cases g1 : bmGet a.list m' with
            | none => simp [g1] at e1'
            | some lm0 =>
              cases g2 : bmGet a.list keep with
              | none => simp [g2] at e2'
              | some lk0 =>
                simp only [g1, g2, Option.map_some, Option.some.injEq] at e1' e2'
                have := hsame m' (List.mem_cons_of_mem _ hm') lm0 lk0 g1 g2
                subst this
                rw [← e1', ← e2']
      obtain ⟨rep', qs', hmono, hall⟩ := ih qs1 h hsame1 (fun m' hm' => hlt m' (List.mem_cons_of_mem _ hm'))
        (fun m' hm' => hjust m' (List.mem_cons_of_mem _ hm'))
      refine ⟨rep', qs', fun s t e => hmono s t (by simp only [Function.comp]; rw [e]), ?_⟩
      intro _ m' hm'
      rcases List.mem_cons.1 hm' with rfl | hm'
      · apply hmono
        have hm : rep m' = m' := present_fixed qs.q (by simp [e2])
        have hk : rep keep = keep := present_fixed qs.q (by simp [e1])
        have hne : keep ≠ m' := by have := hlt m' List.mem_cons_self; omega
        simp [Function.comp, hmap, hm, hk, hne]
      · cases ms with
        | nil => cases hm'
        | cons x xs => exact hall (by simp) m' hm'

theorem combineStates_qs (hR : Equivalence R) {a a' : Adj} {rep : Nat → Nat} {states : List Nat}
    (qs : QS a0 R rep a) (h : a.combineStates states = some a')
    (hsame : ∀ m ∈ states, ∀ m' ∈ states, ∀ lm lk, bmGet a.list m = some lm → bmGet a.list m' = some lk → lm = lk)
    (hsorted : states.Pairwise (· < ·))
    (hjust : ∀ m ∈ states, ∀ m' ∈ states, ∀ (rep : Nat → Nat) (a : Adj), QS a0 R rep a →
      (∀ lm lk, bmGet a.list m = some lm → bmGet a.list m' = some lk → lm = lk) →
      (bmGet a.list m).isSome → (bmGet a.list m').isSome → R m m') :
    ∃ rep', QS a0 R rep' a' ∧ (∀ s t, rep s = rep t → rep' s = rep' t) ∧
      (∀ m ∈ states, ∀ m' ∈ states, rep' m = rep' m') := by
  cases states with
  | nil =>
    simp only [Adj.combineStates] at h
    injection h with h
    subst h
    exact ⟨rep, qs, fun _ _ e => e, fun m hm => by cases hm⟩
  | cons keep rest =>
    simp only [Adj.combineStates] at h
    obtain ⟨rep', qs', hmono, hall⟩ := combineFold_qs hR keep rest qs h
      (fun m hm lm lk e1 e2 => hsame m (List.mem_cons_of_mem _ hm) keep List.mem_cons_self lm lk e1 e2)
      (fun m hm => (List.pairwise_cons.1 hsorted).1 m hm)
      (fun m hm rep a qs' hs' p1 p2 => hjust m (List.mem_cons_of_mem _ hm) keep List.mem_cons_self rep a qs' hs' p1 p2)
    refine ⟨rep', qs', hmono, ?_⟩
    have hk : ∀ m ∈ keep :: rest, rep' m = rep' keep := by
      intro m hm
      rcases List.mem_cons.1 hm with rfl | hm
      · rfl
      · cases rest with
        | nil => cases hm
        | cons x xs => exact hall (by simp) m hm
    intro m hm m' hm'
    rw [hk m hm, hk m' hm']

end

/-! ### Completeness of `group_by` and of the iteration order -/

theorem groupInsert_keys {α κ : Type} [DecidableEq κ] (k : κ) (x : α) : ∀ (gs : List (κ × List α)),
    (groupInsert k x gs).map Prod.fst = if k ∈ gs.map Prod.fst then gs.map Prod.fst else gs.map Prod.fst ++ [k] := by
  intro gs
  induction gs with
  | nil => simp [groupInsert]
  | cons g gs ih =>
    simp only [groupInsert]
    split
    · rename_i hk
      simp [hk]
    · rename_i hk
      simp only [List.map_cons, ih, List.mem_cons]
      by_cases hin : k ∈ gs.map Prod.fst
      · simp [hin]
      · have : ¬ (k = g.1 ∨ k ∈ gs.map Prod.fst) := by
          rintro (h | h)
          · exact hk h.symm
          · exact hin h
        have hk' : ¬ k = g.1 := fun e => hk e.symm
        simp [hin, hk']

theorem mem_groupInsert_self {α κ : Type} [DecidableEq κ] (k : κ) (x : α) : ∀ (gs : List (κ × List α)),
    ∃ g ∈ groupInsert k x gs, g.1 = k ∧ x ∈ g.2 := by
  intro gs
  induction gs with
  | nil => exact ⟨(k, [x]), by simp [groupInsert], rfl, by simp⟩
  | cons g gs ih =>
    simp only [groupInsert]
    split
    · rename_i hk
      exact ⟨(g.1, g.2 ++ [x]), List.mem_cons_self, hk, by simp⟩
    · obtain ⟨g', hg', h1, h2⟩ := ih
      exact ⟨g', List.mem_cons_of_mem _ hg', h1, h2⟩

theorem mem_groupInsert_old {α κ : Type} [DecidableEq κ] (k : κ) (x : α) : ∀ (gs : List (κ × List α)) (g : κ × List α),
    g ∈ gs → ∃ g' ∈ groupInsert k x gs, g'.1 = g.1 ∧ ∀ y ∈ g.2, y ∈ g'.2 := by
  intro gs
  induction gs with
  | nil => intro g hg; cases hg
  | cons g0 gs ih =>
    intro g hg
    simp only [groupInsert]
    split
    · rcases List.mem_cons.1 hg with rfl | hg
      · exact ⟨(g.1, g.2 ++ [x]), List.mem_cons_self, rfl, fun y hy => by simp [hy]⟩
      · exact ⟨g, List.mem_cons_of_mem _ hg, rfl, fun _ h => h⟩
    · rcases List.mem_cons.1 hg with rfl | hg
      · exact ⟨g, List.mem_cons_self, rfl, fun _ h => h⟩
      · obtain ⟨g', hg', h1, h2⟩ := ih g hg
        exact ⟨g', List.mem_cons_of_mem _ hg', h1, h2⟩

/-- Every element lies in a group with its key, and group keys are pairwise different. -/
theorem groupBy_complete {α κ : Type} [DecidableEq κ] (key : α → κ) : ∀ (l : List α) (acc : List (κ × List α)),
    (acc.map Prod.fst).Nodup →
    ((l.foldl (fun acc x => groupInsert (key x) x acc) acc).map Prod.fst).Nodup ∧
    (∀ x ∈ l, ∃ g ∈ l.foldl (fun acc x => groupInsert (key x) x acc) acc, g.1 = key x ∧ x ∈ g.2) ∧
    (∀ g ∈ acc, ∃ g' ∈ l.foldl (fun acc x => groupInsert (key x) x acc) acc, g'.1 = g.1 ∧ ∀ y ∈ g.2, y ∈ g'.2) := by
  intro l
  induction l with
  | nil =>
    intro acc h
    exact ⟨h, fun x hx => (by cases hx), fun g hg => ⟨g, hg, rfl, fun _ h => h⟩⟩
  | cons x xs ih =>
    intro acc h
    simp only [List.foldl_cons]
    have hnd : ((groupInsert (key x) x acc).map Prod.fst).Nodup := by
      rw [groupInsert_keys]
      split
      · exact h
      · rename_i hk
        rw [List.nodup_append]
        refine ⟨h, by simp, ?_⟩
        intro a ha b hb
        simp only [List.mem_singleton] at hb
        subst hb
        intro e; subst e; exact hk ha
    obtain ⟨h1, h2, h3⟩ := ih (groupInsert (key x) x acc) hnd
    refine ⟨h1, ?_, ?_⟩
    · intro y hy
      rcases List.mem_cons.1 hy with rfl | hy
      · obtain ⟨g, hg, hk, hx⟩ := mem_groupInsert_self (key y) y acc
        obtain ⟨g', hg', hk', hsub⟩ := h3 g hg
        exact ⟨g', hg', hk'.trans hk, hsub y hx⟩
      · exact h2 y hy
    · intro g hg
      obtain ⟨g1, hg1, hk1, hs1⟩ := mem_groupInsert_old (key x) x acc g hg
      obtain ⟨g2, hg2, hk2, hs2⟩ := h3 g1 hg1
      exact ⟨g2, hg2, hk2.trans hk1, fun y hy => hs2 y (hs1 y hy)⟩

theorem nodup_fst_eq {κ β : Type} {l : List (κ × β)} (h : (l.map Prod.fst).Nodup) {g g' : κ × β}
    (hg : g ∈ l) (hg' : g' ∈ l) (e : g.1 = g'.1) : g = g' := by
  induction l with
  | nil => cases hg
  | cons x xs ih =>
    simp only [List.map_cons, List.nodup_cons] at h
    rcases List.mem_cons.1 hg with h1 | h1
    · rcases List.mem_cons.1 hg' with h2 | h2
      · rw [h1, h2]
      · exfalso
        apply h.1
        rw [← h1, e]
        exact List.mem_map_of_mem h2
    · rcases List.mem_cons.1 hg' with h2 | h2
      · exfalso
        apply h.1
        rw [← h2, ← e]
        exact List.mem_map_of_mem h1
      · exact ih h.2 h1 h2

/-- Two elements with the same key lie in the same group. -/
theorem groupBy_same {α κ : Type} [DecidableEq κ] (key : α → κ) (l : List α) {x y : α} (hx : x ∈ l) (hy : y ∈ l)
    (e : key x = key y) : ∃ g ∈ groupBy key l, x ∈ g.2 ∧ y ∈ g.2 := by
  obtain ⟨hnd, hall, _⟩ := groupBy_complete key l [] (by simp)
  obtain ⟨g, hg, hk, hxg⟩ := hall x hx
  obtain ⟨g', hg', hk', hyg⟩ := hall y hy
  have : g = g' := nodup_fst_eq hnd hg hg' (by rw [hk, hk', e])
  subst this
  exact ⟨g, hg, hxg, hyg⟩

theorem eraseIdx_perm {α : Type} : ∀ (l : List α) (i : Nat) (x : α), l[i]? = some x → (x :: l.eraseIdx i).Perm l := by
  intro l
  induction l with
  | nil => intro i x h; simp at h
  | cons a as ih =>
    intro i x h
    cases i with
    | zero =>
      simp only [List.getElem?_cons_zero, Option.some.injEq] at h
      subst h
      simp
    | succ i =>
      simp only [List.getElem?_cons_succ] at h
      simp only [List.eraseIdx_cons_succ]
      exact (List.Perm.swap a x _).trans (List.Perm.cons a (ih i x h))

theorem permute_perm {α : Type} : ∀ (n : Nat) (ch : List Nat) (l : List α), l.length = n → ((permute n ch l).1).Perm l := by
  intro n
  induction n with
  | zero =>
    intro ch l h
    have : l = [] := List.eq_nil_of_length_eq_zero h
    subst this
    simp [permute]
  | succ n ih =>
    intro ch l h
    simp only [permute]
    have hidx : (pick ch l.length).1 < l.length := by
      unfold pick
      cases ch with
      | nil => simp; omega
      | cons c cs => simp only; exact Nat.mod_lt _ (by omega)
    have hsome : l[(pick ch l.length).1]? = some (l[(pick ch l.length).1]'hidx) := List.getElem?_eq_getElem hidx
    rw [hsome]
    simp only
    have hlen : (l.eraseIdx (pick ch l.length).1).length = n := by
      rw [List.length_eraseIdx]
      simp only [hidx, if_true]
      omega
    exact (List.Perm.cons _ (ih _ _ hlen)).trans (eraseIdx_perm l _ _ hsome)

end ParolModel
