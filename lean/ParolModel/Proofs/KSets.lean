import ParolModel.Model.KSets
/-! Helper lemmas for C06 / C05: set operations on tuple lists, the declarative FIRST_k / FOLLOW_k,
correctness of the reference least-fixpoint computation. -/
namespace ParolModel.KS

/-! ## tuple-set operations -/

theorem mem_insertNew {t x : Tup} {S : TSet} : t ∈ insertNew x S ↔ t = x ∨ t ∈ S := by
  unfold insertNew
  split
  · rename_i h
    have : x ∈ S := by simpa using h
    constructor
    · intro h; exact Or.inr h
    · rintro (rfl | h)
      · exact this
      · exact h
  · simp

theorem mem_dedup {t : Tup} {S : TSet} : t ∈ dedup S ↔ t ∈ S := by
  induction S with
  | nil => simp [dedup]
  | cons x xs ih => simp [dedup, mem_insertNew, ih]

theorem mem_union {t : Tup} {X Y : TSet} : t ∈ union X Y ↔ t ∈ X ∨ t ∈ Y := by
  simp [union, mem_dedup]

theorem mem_unionAll {t : Tup} {L : List TSet} : t ∈ unionAll L ↔ ∃ S ∈ L, t ∈ S := by
  simp [unionAll, mem_dedup]

theorem mem_kcatSetRef {k : Nat} {t : Tup} {X Y : TSet} :
    t ∈ kcatSetRef k X Y ↔ ∃ x ∈ X, ∃ y ∈ Y, t = (x ++ y).take k := by
  simp only [kcatSetRef, mem_dedup, List.mem_flatMap, List.mem_map]
  constructor
  · rintro ⟨x, hx, y, hy, rfl⟩; exact ⟨x, hx, y, hy, rfl⟩
  · rintro ⟨x, hx, y, hy, rfl⟩; exact ⟨x, hx, y, hy, rfl⟩

theorem mem_kcatSetQ {k : Nat} {t : Tup} {X Y : TSet} :
    t ∈ kcatSetQ k X Y ↔
      ∃ x ∈ X, (tupComplete k x = true ∧ t = x) ∨ (tupComplete k x = false ∧ ∃ y ∈ Y, t = kcat k x y) := by
  simp only [kcatSetQ, mem_dedup, List.mem_flatMap]
  constructor
  · rintro ⟨x, hx, h⟩
    refine ⟨x, hx, ?_⟩
    split at h
    · rename_i hc
      left; exact ⟨hc, by simpa using h⟩
    · rename_i hc
      right
      simp only [List.mem_map] at h
      obtain ⟨y, hy, rfl⟩ := h
      exact ⟨by simpa using hc, y, hy, rfl⟩
  · rintro ⟨x, hx, h⟩
    refine ⟨x, hx, ?_⟩
    rcases h with ⟨hc, rfl⟩ | ⟨hc, y, hy, rfl⟩
    · simp [hc]
    · simp only [hc]
      simp only [Bool.false_eq_true, ↓reduceIte, List.mem_map]
      exact ⟨y, hy, rfl⟩

theorem subSet_iff {X Y : TSet} : subSet X Y = true ↔ ∀ x ∈ X, x ∈ Y := by
  simp [subSet]

/-- extensional equality of tuple sets -/
def SetEq (X Y : TSet) : Prop := ∀ t, t ∈ X ↔ t ∈ Y

theorem sameSet_iff {X Y : TSet} : sameSet X Y = true ↔ SetEq X Y := by
  simp only [sameSet, Bool.and_eq_true, subSet_iff, SetEq]
  constructor
  · rintro ⟨h1, h2⟩ t; exact ⟨h1 t, h2 t⟩
  · intro h; exact ⟨fun t ht => (h t).1 ht, fun t ht => (h t).2 ht⟩

theorem SetEq.refl (X : TSet) : SetEq X X := fun _ => Iff.rfl
theorem SetEq.symm {X Y : TSet} (h : SetEq X Y) : SetEq Y X := fun t => (h t).symm
theorem SetEq.trans {X Y Z : TSet} (h1 : SetEq X Y) (h2 : SetEq Y Z) : SetEq X Z :=
  fun t => (h1 t).trans (h2 t)

/-- pointwise extensional equality of lists of tuple sets -/
inductive AllSetEq : List TSet → List TSet → Prop
  | nil : AllSetEq [] []
  | cons {x y xs ys} : SetEq x y → AllSetEq xs ys → AllSetEq (x :: xs) (y :: ys)

theorem listSame_iff {L M : List TSet} : listSame L M = true ↔ AllSetEq L M := by
  induction L generalizing M with
  | nil =>
    cases M with
    | nil => simp [listSame]; exact .nil
    | cons y ys => simp [listSame]; intro h; cases h
  | cons x xs ih =>
    cases M with
    | nil => simp [listSame]; intro h; cases h
    | cons y ys =>
      simp only [listSame, Bool.and_eq_true, ih, sameSet_iff]
      constructor
      · rintro ⟨h1, h2⟩; exact .cons h1 h2
      · intro h; cases h with | cons h1 h2 => exact ⟨h1, h2⟩

/-! ## environments -/

theorem envGet_map (f : Nat → TSet) (l : List Nat) (A : Nat) :
    envGet (l.map fun B => (B, f B)) A = if A ∈ l then f A else [] := by
  induction l with
  | nil => simp [envGet]
  | cons b bs ih =>
    simp only [List.map_cons, envGet, List.mem_cons]
    by_cases h : b = A
    · subst h; simp
    · have h' : ¬ A = b := fun e => h e.symm
      simp [h, h', ih]

/-- same keys and pointwise equal sets ⇒ `envGet` agrees extensionally -/
theorem envGet_setEq_of_same {E E' : Env} (hk : E.map (·.1) = E'.map (·.1))
    (hs : AllSetEq (envSets E) (envSets E')) (A : Nat) :
    SetEq (envGet E A) (envGet E' A) := by
  induction E generalizing E' with
  | nil =>
    cases E' with
    | nil => exact SetEq.refl _
    | cons y ys => simp at hk
  | cons x xs ih =>
    cases E' with
    | nil => simp at hk
    | cons y ys =>
      obtain ⟨b, s⟩ := x
      obtain ⟨b', s'⟩ := y
      simp only [List.map_cons, List.cons.injEq] at hk
      obtain ⟨hb, hk⟩ := hk
      subst hb
      simp only [envSets, List.map_cons] at hs
      cases hs with
      | cons h1 h2 =>
        simp only [envGet]
        split
        · exact h1
        · exact ih hk h2

theorem envSame_iff {E E' : Env} : envSame E E' = true ↔ AllSetEq (envSets E) (envSets E') := by
  simp [envSame, listSame_iff]

/-! ## ntsOf -/

theorem mem_insertSortedNat {a b : Nat} {l : List Nat} : a ∈ insertSortedNat b l ↔ a = b ∨ a ∈ l := by
  induction l with
  | nil => simp [insertSortedNat]
  | cons c cs ih =>
    simp only [insertSortedNat]
    split
    · simp
    · split
      · rename_i h; subst h; simp
      · simp [ih]; constructor
        · rintro (h | h | h) <;> simp [h]
        · rintro (h | h | h) <;> simp [h]

theorem mem_foldr_insertSortedNat {a : Nat} {l : List Nat} : a ∈ l.foldr insertSortedNat [] ↔ a ∈ l := by
  induction l with
  | nil => simp
  | cons b bs ih => simp [mem_insertSortedNat, ih]

theorem mem_symNts {A : Nat} {ss : List Sym} : A ∈ symNts ss ↔ Sym.n A ∈ ss := by
  induction ss with
  | nil => simp [symNts]
  | cons s ss ih =>
    cases s with
    | t a => simp [symNts, ih]
    | n a => simp [symNts, ih]

theorem mem_ntsOf {G : Grammar} {A : Nat} :
    A ∈ ntsOf G ↔ A = G.start ∨ ∃ p ∈ G.prods, A = p.lhs ∨ Sym.n A ∈ p.rhs := by
  simp only [ntsOf, mem_foldr_insertSortedNat, List.mem_cons, List.mem_flatMap, mem_symNts]

theorem start_mem_ntsOf (G : Grammar) : G.start ∈ ntsOf G := mem_ntsOf.2 (Or.inl rfl)

theorem lhs_mem_ntsOf {G : Grammar} {p : Rule} (hp : p ∈ G.prods) : p.lhs ∈ ntsOf G :=
  mem_ntsOf.2 (Or.inr ⟨p, hp, Or.inl rfl⟩)

theorem rhs_mem_ntsOf {G : Grammar} {p : Rule} {A : Nat} (hp : p ∈ G.prods) (h : Sym.n A ∈ p.rhs) :
    A ∈ ntsOf G :=
  mem_ntsOf.2 (Or.inr ⟨p, hp, Or.inr h⟩)

/-! ## take lemmas -/

theorem take_take_append_ge (k m : Nat) (hm : k ≤ m) (u v : List Nat) :
    (u.take k ++ v.take m).take k = (u ++ v).take k := by
  induction u generalizing k with
  | nil =>
    simp only [List.take_nil, List.nil_append, List.take_take]
    congr 1; omega
  | cons a u ih =>
    cases k with
    | zero => simp
    | succ k =>
      simp only [List.take_succ_cons, List.cons_append]
      congr 1
      exact ih k (by omega)

theorem take_take_append (k : Nat) (u v : List Nat) :
    (u.take k ++ v.take k).take k = (u ++ v).take k :=
  take_take_append_ge k k (Nat.le_refl _) u v

theorem take_append_take_left (k : Nat) (u v : List Nat) :
    (u.take k ++ v).take k = (u ++ v).take k := by
  induction u generalizing k with
  | nil => simp
  | cons a u ih =>
    cases k with
    | zero => simp
    | succ k => simp only [List.take_succ_cons, List.cons_append]; congr 1; exact ih k

theorem take_append_take_right_ge (k m : Nat) (hm : k ≤ m) (u v : List Nat) :
    (u ++ v.take m).take k = (u ++ v).take k := by
  induction u generalizing k with
  | nil =>
    simp only [List.nil_append, List.take_take]
    congr 1; omega
  | cons a u ih =>
    cases k with
    | zero => simp
    | succ k =>
      simp only [List.cons_append, List.take_succ_cons]
      congr 1
      exact ih k (by omega)

theorem take_append_take_right (k : Nat) (u v : List Nat) :
    (u ++ v.take k).take k = (u ++ v).take k :=
  take_append_take_right_ge k k (Nat.le_refl _) u v

/-! ## declarative FIRST_k and FOLLOW_k -/

/-- FIRST_k(α) = { k-prefix of w | α ⇒* w } -/
def FirstK (G : Grammar) (k : Nat) (α : List Sym) (t : Tup) : Prop :=
  ∃ w, Yield G α w ∧ t = w.take k

/-- Right contexts: `FollowCtx G A γ` iff `start ⇒* α A γ'` where `γ` is the not yet expanded right
    context (every sentential-form context of `A` derives the same terminal strings as one of these;
    see `followCtx_iff_derives`). -/
inductive FollowCtx (G : Grammar) : Nat → List Sym → Prop
  | start : FollowCtx G G.start []
  | step (p : Rule) (hp : p ∈ G.prods) (α β γ : List Sym) (B : Nat) :
      p.rhs = α ++ Sym.n B :: β → FollowCtx G p.lhs γ → FollowCtx G B (β ++ γ)

/-- FOLLOW_k(A) via right contexts, end of input (token 0) appended before truncation. -/
def FollowKc (G : Grammar) (k : Nat) (A : Nat) (t : Tup) : Prop :=
  ∃ γ v, FollowCtx G A γ ∧ Yield G γ v ∧ t = (v ++ [0]).take k

theorem yield_nil_inv {G : Grammar} {w : List Nat} (h : Yield G [] w) : w = [] := by
  generalize hs : ([] : List Sym) = ss at h
  cases h with
  | nil => rfl
  | term a _ => cases hs
  | nonterm p _ _ _ => cases hs

theorem yield_cons_t_inv {G : Grammar} {a : Nat} {ss : List Sym} {w : List Nat}
    (h : Yield G (.t a :: ss) w) : ∃ w', w = a :: w' ∧ Yield G ss w' := by
  generalize hs : (Sym.t a :: ss) = xs at h
  cases h with
  | nil => cases hs
  | term b h' =>
    injection hs with h1 h2
    injection h1 with h1
    subst h1; subst h2
    exact ⟨_, rfl, h'⟩
  | nonterm p _ _ _ => injection hs with h1 _; cases h1

theorem yield_cons_n_inv {G : Grammar} {A : Nat} {ss : List Sym} {w : List Nat}
    (h : Yield G (.n A :: ss) w) :
    ∃ p u v, p ∈ G.prods ∧ p.lhs = A ∧ Yield G p.rhs u ∧ Yield G ss v ∧ w = u ++ v := by
  generalize hs : (Sym.n A :: ss) = xs at h
  cases h with
  | nil => cases hs
  | term b _ => injection hs with h1 _; cases h1
  | nonterm p hp hr htl =>
    injection hs with h1 h2
    injection h1 with h1
    subst h2
    exact ⟨p, _, _, hp, h1.symm, hr, htl, rfl⟩

theorem yield_single {G : Grammar} {p : Rule} (hp : p ∈ G.prods) {u : List Nat}
    (h : Yield G p.rhs u) : Yield G [.n p.lhs] u := by
  have := Yield.nonterm p hp h (Yield.nil (G := G))
  simpa using this

/-! ## reference FIRST: soundness and completeness -/

theorem firstSeqRef_sound {G : Grammar} {k : Nat} {env : Nat → TSet}
    (henv : ∀ A t, t ∈ env A → FirstK G k [.n A] t) :
    ∀ ss t, t ∈ firstSeqRef k env ss → FirstK G k ss t := by
  intro ss
  induction ss with
  | nil =>
    intro t ht
    simp only [firstSeqRef, List.mem_singleton] at ht
    exact ⟨[], .nil, by simp [ht]⟩
  | cons s ss ih =>
    intro t ht
    cases s with
    | t a =>
      simp only [firstSeqRef, mem_dedup, List.mem_map] at ht
      obtain ⟨v, hv, rfl⟩ := ht
      obtain ⟨w, hw, rfl⟩ := ih v hv
      refine ⟨a :: w, .term a hw, ?_⟩
      have := take_append_take_right k [a] w
      simpa using this
    | n A =>
      simp only [firstSeqRef, mem_kcatSetRef] at ht
      obtain ⟨x, hx, y, hy, rfl⟩ := ht
      obtain ⟨u, hu, rfl⟩ := henv A x hx
      obtain ⟨v, hv, rfl⟩ := ih y hy
      refine ⟨u ++ v, ?_, take_take_append k u v⟩
      have := Yield.append hu hv
      simpa using this

/-- every production's reference FIRST set is contained in the slot of its left-hand side -/
def ClosedFirstRef (G : Grammar) (k : Nat) (env : Nat → TSet) : Prop :=
  ∀ p ∈ G.prods, ∀ t, t ∈ firstSeqRef k env p.rhs → t ∈ env p.lhs

theorem firstSeqRef_complete {G : Grammar} {k : Nat} {env : Nat → TSet}
    (hcl : ClosedFirstRef G k env) {ss : List Sym} {w : List Nat} (h : Yield G ss w) :
    w.take k ∈ firstSeqRef k env ss := by
  induction h with
  | nil => simp [firstSeqRef]
  | @term a ss w _ ih =>
    simp only [firstSeqRef, mem_dedup, List.mem_map]
    refine ⟨w.take k, ih, ?_⟩
    have := take_append_take_right k [a] w
    simpa using this
  | @nonterm p ss u v hp _ _ ih1 ih2 =>
    simp only [firstSeqRef, mem_kcatSetRef]
    exact ⟨u.take k, hcl p hp _ ih1, v.take k, ih2, (take_take_append k u v).symm⟩

theorem envGet_stepFirstRef (G : Grammar) (k : Nat) (E : Env) (A : Nat) :
    envGet (stepFirstRef G k E) A =
      if A ∈ ntsOf G then
        unionAll ((G.prods.filter fun p => p.lhs = A).map fun p => firstSeqRef k (envGet E) p.rhs)
      else [] := by
  unfold stepFirstRef
  exact envGet_map _ _ A

theorem keys_stepFirstRef (G : Grammar) (k : Nat) (E : Env) :
    (stepFirstRef G k E).map (·.1) = ntsOf G := by
  simp [stepFirstRef, Function.comp_def]

theorem keys_botEnv (G : Grammar) : (botEnv G).map (·.1) = ntsOf G := by
  simp [botEnv, Function.comp_def]

theorem envGet_botEnv (G : Grammar) (A : Nat) : envGet (botEnv G) A = [] := by
  unfold botEnv
  rw [envGet_map]; simp

def SoundFirst (G : Grammar) (k : Nat) (E : Env) : Prop :=
  ∀ A t, t ∈ envGet E A → FirstK G k [.n A] t

theorem stepFirstRef_sound {G : Grammar} {k : Nat} {E : Env} (h : SoundFirst G k E) :
    SoundFirst G k (stepFirstRef G k E) := by
  intro A t ht
  rw [envGet_stepFirstRef] at ht
  split at ht
  · simp only [mem_unionAll, List.mem_map, List.mem_filter] at ht
    obtain ⟨S, ⟨p, ⟨hp, hl⟩, rfl⟩, ht⟩ := ht
    have hl : p.lhs = A := by simpa using hl
    obtain ⟨w, hw, rfl⟩ := firstSeqRef_sound h p.rhs t ht
    exact ⟨w, hl ▸ yield_single hp hw, rfl⟩
  · simp at ht

theorem iterFirstRef_spec {G : Grammar} {k : Nat} :
    ∀ (fuel : Nat) (E R : Env), E.map (·.1) = ntsOf G → SoundFirst G k E →
      iterFirstRef G k fuel E = some R →
      R.map (·.1) = ntsOf G ∧ SoundFirst G k R ∧ envSame (stepFirstRef G k R) R = true := by
  intro fuel
  induction fuel with
  | zero => intro E R _ _ h; simp [iterFirstRef] at h
  | succ f ih =>
    intro E R hk hs h
    simp only [iterFirstRef] at h
    split at h
    · rename_i hsame
      injection h with h; subst h
      exact ⟨hk, hs, hsame⟩
    · exact ih _ R (keys_stepFirstRef G k E) (stepFirstRef_sound hs) h

theorem closed_of_fix {G : Grammar} {k : Nat} {R : Env} (hk : R.map (·.1) = ntsOf G)
    (hfix : envSame (stepFirstRef G k R) R = true) : ClosedFirstRef G k (envGet R) := by
  intro p hp t ht
  have hA : p.lhs ∈ ntsOf G := lhs_mem_ntsOf hp
  have h1 : t ∈ envGet (stepFirstRef G k R) p.lhs := by
    rw [envGet_stepFirstRef]; simp only [hA, ↓reduceIte, mem_unionAll, List.mem_map, List.mem_filter]
    exact ⟨_, ⟨p, ⟨hp, by simp⟩, rfl⟩, ht⟩
  have := envGet_setEq_of_same ((keys_stepFirstRef G k R).trans hk.symm) (envSame_iff.1 hfix) p.lhs
  exact (this t).1 h1

/-- The reference Kleene iteration computes exactly the declarative FIRST_k, for every grammar. -/
theorem firstK_lfp_correct {G : Grammar} {k fuel : Nat} {E : Env} (h : firstK_lfp G k fuel = some E) :
    (∀ A t, t ∈ envGet E A ↔ FirstK G k [.n A] t) ∧
    (∀ α t, t ∈ firstSeqRef k (envGet E) α ↔ FirstK G k α t) := by
  unfold firstK_lfp at h
  have hbot : SoundFirst G k (botEnv G) := by
    intro A t ht; rw [envGet_botEnv] at ht; simp at ht
  obtain ⟨hk, hs, hfix⟩ := iterFirstRef_spec fuel _ E (keys_botEnv G) hbot h
  have hcl := closed_of_fix hk hfix
  refine ⟨fun A t => ⟨hs A t, ?_⟩, fun α t => ⟨firstSeqRef_sound hs α t, ?_⟩⟩
  · rintro ⟨w, hw, rfl⟩
    obtain ⟨p, hp, hl, hr⟩ := yield_nt_inv hw
    exact hl ▸ hcl p hp _ (firstSeqRef_complete hcl hr)
  · rintro ⟨w, hw, rfl⟩
    exact firstSeqRef_complete hcl hw

/-! ## reference FOLLOW: soundness and completeness -/

theorem mem_suffixOccs {lhs : Nat} {rhs : List Sym} {o : Nat × Nat × List Sym} :
    o ∈ suffixOccs lhs rhs ↔ o.1 = lhs ∧ ∃ α, rhs = α ++ Sym.n o.2.1 :: o.2.2 := by
  induction rhs with
  | nil => simp [suffixOccs]
  | cons s ss ih =>
    cases s with
    | t a =>
      simp only [suffixOccs, ih]
      constructor
      · rintro ⟨h1, α, h2⟩; exact ⟨h1, .t a :: α, by simp [h2]⟩
      · rintro ⟨h1, α, h2⟩
        refine ⟨h1, ?_⟩
        cases α with
        | nil => simp at h2
        | cons x xs =>
          simp only [List.cons_append, List.cons.injEq] at h2
          exact ⟨xs, h2.2⟩
    | n B =>
      simp only [suffixOccs, List.mem_cons, ih]
      constructor
      · rintro (h | ⟨h1, α, h2⟩)
        · subst h; exact ⟨rfl, [], rfl⟩
        · exact ⟨h1, .n B :: α, by simp [h2]⟩
      · rintro ⟨h1, α, h2⟩
        cases α with
        | nil =>
          left
          simp only [List.nil_append, List.cons.injEq, Sym.n.injEq] at h2
          obtain ⟨l, b, β⟩ := o
          simp only at h1 h2 ⊢
          rw [h1, h2.1, h2.2]
        | cons x xs =>
          right
          simp only [List.cons_append, List.cons.injEq] at h2
          exact ⟨h1, xs, h2.2⟩

theorem mem_occurrences {G : Grammar} {o : Nat × Nat × List Sym} :
    o ∈ occurrences G ↔ ∃ p ∈ G.prods, o.1 = p.lhs ∧ ∃ α, p.rhs = α ++ Sym.n o.2.1 :: o.2.2 := by
  simp only [occurrences, List.mem_flatMap, mem_suffixOccs]

theorem envGet_stepFollowRef (G : Grammar) (k : Nat) (fe : Nat → TSet) (E : Env) (A : Nat) :
    envGet (stepFollowRef G k fe E) A =
      if A ∈ ntsOf G then
        union (followInitRef G k A)
          (unionAll (((occurrences G).filter fun o => o.2.1 = A).map fun o =>
            kcatSetRef k (firstSeqRef k fe o.2.2) (envGet E o.1)))
      else [] := by
  unfold stepFollowRef
  exact envGet_map _ _ A

theorem keys_stepFollowRef (G : Grammar) (k : Nat) (fe : Nat → TSet) (E : Env) :
    (stepFollowRef G k fe E).map (·.1) = ntsOf G := by
  simp [stepFollowRef, Function.comp_def]

def SoundFollow (G : Grammar) (k : Nat) (E : Env) : Prop :=
  ∀ A t, t ∈ envGet E A → FollowKc G k A t

theorem stepFollowRef_sound {G : Grammar} {k : Nat} {fe : Nat → TSet} {E : Env}
    (hfe : ∀ α t, t ∈ firstSeqRef k fe α → FirstK G k α t)
    (h : SoundFollow G k E) : SoundFollow G k (stepFollowRef G k fe E) := by
  intro A t ht
  rw [envGet_stepFollowRef] at ht
  split at ht
  · rw [mem_union] at ht
    rcases ht with ht | ht
    · unfold followInitRef at ht
      split at ht
      · rename_i hA
        simp only [List.mem_singleton] at ht
        subst hA
        exact ⟨[], [], .start, .nil, by simpa using ht⟩
      · simp at ht
    · simp only [mem_unionAll, List.mem_map, List.mem_filter] at ht
      obtain ⟨S, ⟨o, ⟨ho, hA⟩, rfl⟩, ht⟩ := ht
      have hA : o.2.1 = A := by simpa using hA
      obtain ⟨p, hp, hl, α, hr⟩ := mem_occurrences.1 ho
      obtain ⟨x, hx, y, hy, rfl⟩ := mem_kcatSetRef.1 ht
      obtain ⟨v1, hv1, rfl⟩ := hfe _ _ hx
      obtain ⟨γ, v2, hc, hv2, rfl⟩ := h _ _ hy
      refine ⟨o.2.2 ++ γ, v1 ++ v2, ?_, Yield.append hv1 hv2, ?_⟩
      · rw [← hA]
        exact FollowCtx.step p hp α o.2.2 γ o.2.1 hr (hl ▸ hc)
      · rw [take_take_append, List.append_assoc]
  · simp at ht

theorem iterFollowRef_spec {G : Grammar} {k : Nat} {fe : Nat → TSet}
    (hfe : ∀ α t, t ∈ firstSeqRef k fe α → FirstK G k α t) :
    ∀ (fuel : Nat) (E R : Env), E.map (·.1) = ntsOf G → SoundFollow G k E →
      iterFollowRef G k fe fuel E = some R →
      R.map (·.1) = ntsOf G ∧ SoundFollow G k R ∧ envSame (stepFollowRef G k fe R) R = true := by
  intro fuel
  induction fuel with
  | zero => intro E R _ _ h; simp [iterFollowRef] at h
  | succ f ih =>
    intro E R hk hs h
    simp only [iterFollowRef] at h
    split at h
    · rename_i hsame
      injection h with h; subst h
      exact ⟨hk, hs, hsame⟩
    · exact ih _ R (keys_stepFollowRef G k fe E) (stepFollowRef_sound hfe hs) h

theorem followRef_complete {G : Grammar} {k : Nat} {fe : Nat → TSet} {R : Env}
    (hfe : ∀ α w, Yield G α w → w.take k ∈ firstSeqRef k fe α)
    (hk : R.map (·.1) = ntsOf G) (hfix : envSame (stepFollowRef G k fe R) R = true)
    {A : Nat} {γ : List Sym} (hc : FollowCtx G A γ) :
    ∀ v, Yield G γ v → (v ++ [0]).take k ∈ envGet R A := by
  have hstep : ∀ B t, t ∈ envGet (stepFollowRef G k fe R) B → t ∈ envGet R B := fun B t ht =>
    ((envGet_setEq_of_same ((keys_stepFollowRef G k fe R).trans hk.symm) (envSame_iff.1 hfix) B) t).1 ht
  induction hc with
  | start =>
    intro v hv
    have := yield_nil_inv hv
    subst this
    apply hstep
    rw [envGet_stepFollowRef]
    simp [start_mem_ntsOf, mem_union, followInitRef]
  | step p hp α β γ B hr _ ih =>
    intro v hv
    obtain ⟨v1, v2, rfl, hv1, hv2⟩ := Yield.split hv
    apply hstep
    have hB : B ∈ ntsOf G := rhs_mem_ntsOf hp (by rw [hr]; simp)
    rw [envGet_stepFollowRef]
    simp only [hB, ↓reduceIte, mem_union, mem_unionAll, List.mem_map, List.mem_filter]
    right
    refine ⟨_, ⟨(p.lhs, B, β), ⟨mem_occurrences.2 ⟨p, hp, rfl, α, hr⟩, by simp⟩, rfl⟩, ?_⟩
    rw [mem_kcatSetRef]
    refine ⟨v1.take k, hfe _ _ hv1, ((v2 ++ [0]).take k), ih v2 hv2, ?_⟩
    rw [take_take_append, List.append_assoc]

/-- The reference FOLLOW iteration computes exactly the declarative FOLLOW_k, for every grammar. -/
theorem followK_lfp_correct {G : Grammar} {k fuel : Nat} {E : Env} (h : followK_lfp G k fuel = some E) :
    ∀ A t, t ∈ envGet E A ↔ FollowKc G k A t := by
  unfold followK_lfp at h
  cases hf : firstK_lfp G k fuel with
  | none => simp [hf] at h
  | some fe =>
    simp only [hf, Option.bind_some] at h
    obtain ⟨_, hfirst⟩ := firstK_lfp_correct hf
    have hbot : SoundFollow G k (botEnv G) := by
      intro A t ht; rw [envGet_botEnv] at ht; simp at ht
    obtain ⟨hk, hs, hfix⟩ :=
      iterFollowRef_spec (fun α t ht => (hfirst α t).1 ht) fuel _ E (keys_botEnv G) hbot h
    intro A t
    refine ⟨hs A t, ?_⟩
    rintro ⟨γ, v, hc, hv, rfl⟩
    exact followRef_complete (fun α w hw => (hfirst α _).2 ⟨w, hw, rfl⟩) hk hfix hc v hv

end ParolModel.KS
