import ParolModel.Model.Pipeline
import ParolModel.Proofs.LLComplete
import ParolModel.Proofs.Fixpoints
import ParolModel.Proofs.LaMain
/-! Lemmas for C01c, part 1 (grammar side): the table layout of `genTables` denotes the grammar
itself (dense non-terminal numbers), inversion of `genTables` / `genAutos` / `genAuto` /
`decidableM`, and the lookahead sets `laSets` at the decided `k` as the declarative strong-LL(k)
lookahead sets `KS.LA` — non-empty, pairwise disjoint, prefix-free (`SetsOk`, the hypothesis of
C07's theorems). -/
namespace ParolModel
open KS

/-! ## `ntIndex` on dense non-terminal numbers -/

theorem idxOf_range' : ∀ (n s a : Nat), s ≤ a → a < s + n → (List.range' s n).idxOf a = a - s := by
  intro n
  induction n with
  | zero => intro s a h1 h2; omega
  | succ n ih =>
    intro s a h1 h2
    rw [List.range'_succ, List.idxOf_cons]
    by_cases h : s = a
    · subst h; simp
    · have hb : (s == a) = false := by simpa using h
      rw [hb]
      simp only [cond_false]
      rw [ih (s + 1) a (by omega) (by omega)]
      omega

theorem idxOf_range {n a : Nat} (h : a < n) : (List.range n).idxOf a = a := by
  rw [List.range_eq_range']
  have := idxOf_range' n 0 a (Nat.zero_le _) (by omega)
  simpa using this

/-- the non-terminals are exactly `0..n-1` -/
def NtsDense (G : Grammar) : Prop := ntsOf G = List.range (ntsOf G).length

theorem ntsDense_of_B {G : Grammar} (h : ntsDenseB G = true) : NtsDense G := by
  simpa [ntsDenseB, NtsDense] using h

theorem noEoi_of_B {G : Grammar} (h : noEoiB G = true) : NoEoi G := by
  intro p hp
  simp only [noEoiB, List.all_eq_true, Bool.not_eq_true', List.contains_eq_mem,
    decide_eq_false_iff_not] at h
  exact h p hp

theorem NtsDense.lt {G : Grammar} (hd : NtsDense G) {A : Nat} (hA : A ∈ ntsOf G) : A < (ntsOf G).length := by
  rw [hd] at hA
  simpa using hA

theorem NtsDense.ntIndex {G : Grammar} (hd : NtsDense G) {A : Nat} (hA : A ∈ ntsOf G) : ntIndex G A = A := by
  unfold ParolModel.ntIndex
  have := hd.lt hA
  rw [hd]
  exact idxOf_range (by simpa using this)

theorem NtsDense.getElem? {G : Grammar} (hd : NtsDense G) {A : Nat} (hA : A ∈ ntsOf G) :
    (ntsOf G)[A]? = some A := by
  have := hd.lt hA
  rw [hd, List.getElem?_range (by simpa using this)]

theorem NtsDense.of_getElem? {G : Grammar} (hd : NtsDense G) {i A : Nat} (h : (ntsOf G)[i]? = some A) :
    A = i ∧ A ∈ ntsOf G := by
  have hm := List.mem_of_getElem? h
  rw [hd] at h
  rw [List.getElem?_eq_some_iff] at h
  obtain ⟨hi, h⟩ := h
  simp only [List.getElem_range] at h
  exact ⟨h.symm, hm⟩

/-! ## the production table denotes the grammar -/

theorem stackSyms_map_genSym {G : Grammar} (hd : NtsDense G) :
    ∀ (ss : List Sym), (∀ B, Sym.n B ∈ ss → B ∈ ntsOf G) → stackSyms (ss.map (genSym G)) = ss := by
  intro ss
  induction ss with
  | nil => intro _; rfl
  | cons s ss ih =>
    intro h
    have ih' := ih (fun B hB => h B (List.mem_cons_of_mem _ hB))
    cases s with
    | t a => simp [genSym, ih']
    | n B =>
      have := hd.ntIndex (h B List.mem_cons_self)
      simp [genSym, ih', this]

theorem ruleOf_genProd {G : Grammar} (hd : NtsDense G) {r : Rule} (hr : r ∈ G.prods) :
    ruleOf (genProd G r) = r := by
  unfold ruleOf genProd
  simp only [List.reverse_reverse]
  rw [stackSyms_map_genSym hd r.rhs (fun B hB => rhs_mem_ntsOf hr hB), hd.ntIndex (lhs_mem_ntsOf hr)]

theorem map_ruleOf_genProd {G : Grammar} (hd : NtsDense G) :
    (G.prods.map (genProd G)).map ruleOf = G.prods := by
  rw [List.map_map]
  conv => rhs; rw [← List.map_id G.prods]
  apply List.map_congr_left
  intro r hr
  exact ruleOf_genProd hd hr

theorem genProd_lhs {G : Grammar} (hd : NtsDense G) {r : Rule} (hr : r ∈ G.prods) :
    (genProd G r).lhs = r.lhs := hd.ntIndex (lhs_mem_ntsOf hr)

theorem genProd_noMarker (G : Grammar) (r : Rule) : ∀ x ∈ (genProd G r).rhsRev, PT.isE x = false := by
  intro x hx
  simp only [genProd, List.mem_reverse, List.mem_map] at hx
  obtain ⟨s, _, rfl⟩ := hx
  cases s <;> rfl

theorem genProd_noEoi {G : Grammar} (hno : NoEoi G) {r : Rule} (hr : r ∈ G.prods) :
    PT.t 0 ∉ (genProd G r).rhsRev := by
  intro hx
  simp only [genProd, List.mem_reverse, List.mem_map] at hx
  obtain ⟨s, hs, he⟩ := hx
  cases s with
  | t a =>
    simp only [genSym, PT.t.injEq] at he
    subst he
    exact hno r hr hs
  | n B => simp [genSym] at he

/-! ## inversion of the generator -/

theorem genAutos_spec {G : Grammar} {fuel K : Nat} :
    ∀ (l : List Nat) (ds : List LaDfa), genAutos G fuel K l = .ok ds →
      ∀ (i A : Nat), l[i]? = some A → ∃ c, ds[i]? = some c ∧ genAuto G fuel K A = .ok c := by
  intro l
  induction l with
  | nil => intro ds _ i A h; simp at h
  | cons B rest ih =>
    intro ds h i A hi
    simp only [genAutos] at h
    split at h
    · cases h
    · rename_i c hc
      split at h
      · cases h
      · rename_i cs hcs
        injection h with h
        subst h
        cases i with
        | zero =>
          simp only [List.getElem?_cons_zero, Option.some.injEq] at hi
          subst hi
          exact ⟨c, by simp, hc⟩
        | succ i =>
          simp only [List.getElem?_cons_succ] at hi ⊢
          exact ih cs hcs i A hi

theorem genAutos_length {G : Grammar} {fuel K : Nat} :
    ∀ (l : List Nat) (ds : List LaDfa), genAutos G fuel K l = .ok ds → ds.length = l.length := by
  intro l
  induction l with
  | nil => intro ds h; simp only [genAutos] at h; injection h with h; subst h; rfl
  | cons B rest ih =>
    intro ds h
    simp only [genAutos] at h
    split at h
    · cases h
    · split at h
      · cases h
      · rename_i cs hcs
        injection h with h
        subst h
        simp [ih cs hcs]

theorem genTables_inv {G : Grammar} {K fuel : Nat} {T : LLTables} (h : genTables G K fuel = .ok T) :
    ∃ ds, genAutos G fuel K (ntsOf G) = .ok ds ∧
      T = ⟨ntIndex G G.start, G.prods.map (genProd G), ds⟩ := by
  unfold genTables at h
  split at h
  · cases h
  · split at h
    · cases h
    · rename_i ds hds
      injection h with h
      exact ⟨ds, hds, h.symm⟩

theorem genAuto_inv {G : Grammar} {fuel K A : Nat} {c : LaDfa} (h : genAuto G fuel K A = .ok c) :
    ∃ k sets d, decidableM G fuel A K = .ok k ∧ laSets G fuel A k = some sets ∧
      uniteAll true k sets = some (.ok d) ∧ compileDfa d [] = some c := by
  unfold genAuto at h
  split at h
  · rename_i k hk
    split at h
    · cases h
    · rename_i sets hsets
      split at h
      · cases h
      · cases h
      · rename_i d hd
        split at h
        · cases h
        · rename_i c' hc
          injection h with h
          subst h
          exact ⟨k, sets, d, hk, hsets, hd, hc⟩
  · cases h

/-- what a successful `decLoop` has computed -/
theorem decLoop_ok_inv {G : Grammar} {fuel A : Nat} :
    ∀ (n cur k : Nat), decLoop G fuel A n cur = .ok k →
      cur ≤ k ∧ ∃ sets, laSets G fuel A k = some sets ∧ pairwiseDisjoint sets = true := by
  intro n
  induction n with
  | zero => intro cur k h; cases h
  | succ n ih =>
    intro cur k h
    simp only [decLoop] at h
    split at h
    · cases h
    · rename_i sets hs
      split at h
      · rename_i hd
        injection h with h
        subst h
        exact ⟨Nat.le_refl _, sets, hs, hd⟩
      · obtain ⟨h1, h2⟩ := ih (cur + 1) k h
        exact ⟨by omega, h2⟩

/-- `decidable` answered `Ok(k)`: one alternative and `k = 0`, or at least two alternatives,
    `k ≥ 1` and the lookahead sets at `k` are pairwise disjoint -/
theorem decidableM_ok_inv {G : Grammar} {fuel A K k : Nat} (h : decidableM G fuel A K = .ok k) :
    (k = 0 ∧ ∃ pi, prodIdxs G A = [pi]) ∨
    (1 ≤ k ∧ ∃ sets, laSets G fuel A k = some sets ∧ pairwiseDisjoint sets = true) := by
  unfold decidableM at h
  split at h
  · cases h
  · rename_i pi hpi
    injection h with h
    exact Or.inl ⟨h.symm, pi, hpi⟩
  · obtain ⟨h1, h2⟩ := decLoop_ok_inv K 1 k h
    exact Or.inr ⟨h1, h2⟩

/-! ## the lookahead sets at `k ≥ 1` are the declarative ones -/

/-- membership in one computed lookahead set (the `key` step of `laSets_disjoint_iff_strongLL`) -/
theorem mem_laSet_iff_LA {G : Grammar} {k A : Nat} (hk : 1 ≤ k) (hno : NoEoi G) {fv : FirstVec}
    {fw : List TSet × Env}
    (hfirst : ∀ i p, G.prods[i]? = some p → ∀ t, t ∈ fv.prods.getD i [] ↔ FirstK G k p.rhs t)
    (hfollow : ∀ A t, t ∈ envGet fw.2 A ↔ FollowK G k A t) (hne : ∃ f, FollowK G k A f)
    {i : Nat} {p : Rule} (hp : G.prods[i]? = some p) (t : Tup) :
    t ∈ kcatSetQ k (fv.prods.getD i []) (envGet fw.2 A) ↔ LA G k A p.rhs t := by
  have hY : envGet fw.2 A ≠ [] := by
    obtain ⟨f, hf⟩ := hne
    intro e
    have := (hfollow A f).2 hf
    rw [e] at this; cases this
  have hX : ∀ x ∈ fv.prods.getD i [], 0 ∉ x ∧ x.length ≤ k := by
    intro x hx
    obtain ⟨u, hu, rfl⟩ := (hfirst i p hp x).1 hx
    have hpm : p ∈ G.prods := List.mem_of_getElem? hp
    have := yield_no_eoi hno hu (hno p hpm)
    exact ⟨fun h => this (List.mem_of_mem_take h), by simp [List.length_take]; omega⟩
  rw [mem_kcatSetQ_wf hk hX hY]
  constructor
  · rintro ⟨x, hx, y, hy, rfl⟩
    obtain ⟨u, hu, rfl⟩ := (hfirst i p hp x).1 hx
    exact ⟨u, y, hu, (hfollow A y).1 hy, take_append_take_left k u y⟩
  · rintro ⟨u, f, hu, hf, rfl⟩
    exact ⟨u.take k, (hfirst i p hp _).2 ⟨u, hu, rfl⟩, f, (hfollow A f).2 hf,
      (take_append_take_left k u f).symm⟩

/-- The tuple sets of the productions of `A` and their meaning. -/
structure LaSpec (G : Grammar) (k A : Nat) (sets : List (Nat × TSet)) : Prop where
  keys : sets.map (·.1) = prodIdxs G A
  mem : ∀ q ∈ sets, ∃ p, G.prods[q.1]? = some p ∧ p.lhs = A ∧ ∀ t, t ∈ q.2 ↔ LA G k A p.rhs t

theorem LaSpec.of_prod {G : Grammar} {k A : Nat} {sets : List (Nat × TSet)} (h : LaSpec G k A sets)
    {i : Nat} {p : Rule} (hp : G.prods[i]? = some p) (hl : p.lhs = A) :
    ∃ S, (i, S) ∈ sets ∧ ∀ t, t ∈ S ↔ LA G k A p.rhs t := by
  have hi : i ∈ prodIdxs G A := mem_prodIdxs.2 ⟨p, hp, hl⟩
  rw [← h.keys] at hi
  obtain ⟨q, hq, rfl⟩ := List.mem_map.1 hi
  obtain ⟨p', hp', _, hmem⟩ := h.mem q hq
  rw [hp] at hp'
  injection hp' with hp'
  subst hp'
  exact ⟨q.2, hq, hmem⟩

theorem laSets_spec {G : Grammar} {fuel k A : Nat} (hk : 1 ≤ k) (hno : NoEoi G)
    (hspec : SetsAreSpecAt G fuel k) (hne : ∃ f, FollowK G k A f) {sets : List (Nat × TSet)}
    (h : laSets G fuel A k = some sets) : LaSpec G k A sets := by
  obtain ⟨fv, fw, hfv, hfw, hfirst, hfollow⟩ := hspec
  simp only [laSets, hfv, hfw, Option.bind_some, Option.map_some, Option.some.injEq] at h
  subst h
  refine ⟨by simp [Function.comp_def], ?_⟩
  intro q hq
  obtain ⟨i, hi, rfl⟩ := List.mem_map.1 hq
  obtain ⟨p, hp, hl⟩ := mem_prodIdxs.1 hi
  exact ⟨p, hp, hl, fun t => mem_laSet_iff_LA hk hno hfirst hfollow hne hp t⟩

/-- every alternative has a lookahead string (productive alternative, inhabited FOLLOW) -/
theorem yield_rhs_exists {G : Grammar} (hprod : KS.Productive G) {p : Rule} (hp : p ∈ G.prods) :
    ∃ u, Yield G p.rhs u := by
  have : ∀ ss : List Sym, (∀ s ∈ ss, s ∈ p.rhs) → ∃ u, Yield G ss u := by
    intro ss
    induction ss with
    | nil => intro _; exact ⟨[], .nil⟩
    | cons s ss ih =>
      intro h
      obtain ⟨u, hu⟩ := ih (fun s' hs' => h s' (List.mem_cons_of_mem _ hs'))
      obtain ⟨w, hw⟩ := yield_sym_exists hprod hp (h s List.mem_cons_self)
      exact ⟨w ++ u, by simpa using Yield.append hw hu⟩
  exact this p.rhs (fun s hs => hs)

theorem LA_inhabited {G : Grammar} (hprod : KS.Productive G) (hreach : KS.Reachable G) {p : Rule}
    (hp : p ∈ G.prods) (k : Nat) : ∃ t, LA G k p.lhs p.rhs t := by
  obtain ⟨u, hu⟩ := yield_rhs_exists hprod hp
  obtain ⟨f, hf⟩ := followKc_inh hreach hp k
  exact ⟨_, u, f, hu, followK_iff_ctx.2 hf, rfl⟩

theorem LA_length_le {G : Grammar} {k A : Nat} {α : List Sym} {t : Tup} (h : LA G k A α t) :
    t.length ≤ k := by
  obtain ⟨u, f, _, _, rfl⟩ := h
  simp [List.length_take]
  omega

/-- **The computed sets satisfy C07's hypothesis**: non-empty, pairwise disjoint (this is what
    `decidable` tested), prefix-free (k-prefixes of EOI-terminated strings). -/
theorem setsOk_of_laSpec {G : Grammar} {k A : Nat} {sets : List (Nat × TSet)} (hno : NoEoi G)
    (hprod : KS.Productive G) (hreach : KS.Reachable G) (hs : LaSpec G k A sets)
    (hdis : pairwiseDisjoint sets = true) : SetsOk sets := by
  have hdis' := pairwiseDisjoint_iff.1 hdis
  refine ⟨?_, ?_, ?_⟩
  · intro q hq he
    obtain ⟨p, hp, hl, hmem⟩ := hs.mem q hq
    obtain ⟨t, ht⟩ := LA_inhabited hprod hreach (List.mem_of_getElem? hp) k
    rw [hl] at ht
    have := (hmem t).2 ht
    rw [he] at this
    cases this
  · intro q hq q' hq' t ht ht'
    rcases hdis' q hq q' hq' with h | h
    · exact h
    · exact absurd ⟨ht, ht'⟩ (h t)
  · intro q hq q' hq' t u ht htu
    obtain ⟨p, hp, _, hmem⟩ := hs.mem q hq
    obtain ⟨p', hp', _, hmem'⟩ := hs.mem q' hq'
    obtain ⟨w, hw0, hw⟩ := LA_shape hno (hno p (List.mem_of_getElem? hp)) ((hmem t).1 ht)
    obtain ⟨w', hw0', hw'⟩ := LA_shape hno (hno p' (List.mem_of_getElem? hp')) ((hmem' _).1 htu)
    have hpre : (w ++ [0]).take k <+: (w' ++ [0]).take k := by
      rw [← hw, ← hw']; exact List.prefix_append t u
    have := tuple_prefix_eq hw0' hpre
    rw [← hw, ← hw'] at this
    have hl := congrArg List.length this
    simp only [List.length_append] at hl
    exact List.eq_nil_of_length_eq_zero (by omega)

/-! ## the depth of the automaton does not change the sets -/

/-- If every lookahead string of `α` at `k` has length ≤ `m ≤ k`, then the strings at `m` are the
    same strings: truncation at `m` changes nothing. -/
theorem LA_eq_of_short {G : Grammar} {k m A : Nat} {α : List Sym} (hmk : m ≤ k)
    (hshort : ∀ t, LA G k A α t → t.length ≤ m) (t : Tup) : LA G m A α t ↔ LA G k A α t := by
  -- both sides are prefixes of the same `u·v·EOI`
  have key : ∀ (u : List Nat) (γ : List Sym) (v : List Nat), Yield G α u → FollowCtx G A γ → Yield G γ v →
      (u ++ v ++ [0]).take m = (u ++ v ++ [0]).take k := by
    intro u γ v hu hc hv
    have hlen := hshort _ (LA_of_ctx (k := k) hu hc hv)
    simp only [List.length_take] at hlen
    by_cases hs : (u ++ v ++ [0]).length ≤ m
    · rw [List.take_of_length_le hs, List.take_of_length_le (by omega)]
    · have : k = m := by omega
      rw [this]
  constructor
  · rintro ⟨u, f, hu, hf, rfl⟩
    obtain ⟨γ, v, hc, hv, rfl⟩ := followK_iff_ctx.1 hf
    have := LA_of_ctx (k := k) hu hc hv
    rw [← key u γ v hu hc hv] at this
    rwa [take_append_take_right, ← List.append_assoc]
  · rintro ⟨u, f, hu, hf, rfl⟩
    obtain ⟨γ, v, hc, hv, rfl⟩ := followK_iff_ctx.1 hf
    have := LA_of_ctx (k := m) hu hc hv
    rw [key u γ v hu hc hv] at this
    rwa [take_append_take_right, ← List.append_assoc]

/-! ## `k = 0`: one alternative -/

theorem laSets_zero_nil {G : Grammar} {fuel A : Nat} (hno : NoEoi G) {sets : List (Nat × TSet)}
    (h : laSets G fuel A 0 = some sets) :
    sets.map (·.1) = prodIdxs G A ∧ ∀ q ∈ sets, ∀ t ∈ q.2, t = [] := by
  unfold laSets at h
  cases hfv : firstCode G fuel 0 with
  | none => simp [hfv] at h
  | some fv =>
    cases hfw : followCode G fuel 0 with
    | none => simp [hfv, hfw] at h
    | some fw =>
      simp only [hfv, hfw, Option.bind_some, Option.map_some, Option.some.injEq] at h
      subst h
      refine ⟨by simp [Function.comp_def], ?_⟩
      intro q hq
      obtain ⟨i, hi, rfl⟩ := List.mem_map.1 hq
      obtain ⟨p, hp, _⟩ := mem_prodIdxs.1 hi
      obtain ⟨hwf, hfix⟩ := firstCode_fix hno 0 fv hfv
      have hff := fixFacts hwf.1 hfix
      apply kcatSetQ_zero_nil
      intro x hx
      have hx' := ((hff.prods i p hp) x).2 hx
      exact evalPartsFrom_zero_nil _ [[]] (by intro y hy; simpa using hy) x hx'

/-! ## without the density hypothesis: the tables denote the renamed grammar -/

def renameSym (f : Nat → Nat) : Sym → Sym
  | .t a => .t a
  | .n B => .n (f B)

/-- `G` with every non-terminal `A` replaced by `f A` -/
def renameG (f : Nat → Nat) (G : Grammar) : Grammar :=
  ⟨f G.start, G.prods.map fun r => ⟨f r.lhs, r.rhs.map (renameSym f)⟩⟩

theorem stackSyms_map_genSym_general (G : Grammar) (ss : List Sym) :
    stackSyms (ss.map (genSym G)) = ss.map (renameSym (ntIndex G)) := by
  induction ss with
  | nil => rfl
  | cons s ss ih => cases s <;> simp [genSym, renameSym, ih]

theorem genTables_gOf {G : Grammar} {K fuel : Nat} {T : LLTables} (h : genTables G K fuel = .ok T) :
    gOf T = renameG (ntIndex G) G := by
  obtain ⟨ds, _, rfl⟩ := genTables_inv h
  simp only [gOf, renameG, List.map_map]
  congr 1
  apply List.map_congr_left
  intro r _
  simp [ruleOf, genProd, stackSyms_map_genSym_general]

end ParolModel
