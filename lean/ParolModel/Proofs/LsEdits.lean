import ParolModel.Model.LsEdits
/-! Helper lemmas for `Props/C28`: sorting of edits, order independence of `applyFlat` /
`applyEdits`, and `applySorted` on the edits of a set of tokens. Core Lean only. -/
namespace ParolModel.Ls28

/-! ## splitting into lines loses nothing -/

theorem flatten_splitLinesAux : ∀ (u acc : List Nat) (cr : Bool),
    flatten (splitLinesAux u acc cr) = acc.reverse ++ (if cr then [13] else []) ++ u
  | [], acc, cr => by
    cases cr <;> simp [splitLinesAux, flatten]
  | x :: r, acc, cr => by
    unfold splitLinesAux
    cases cr with
    | true =>
      simp only [if_true]
      split
      · rename_i h; subst h
        simp [flatten, List.flatMap_cons] at *
        have := flatten_splitLinesAux r [] false
        simp [flatten] at this
        rw [this]
      · split
        · rename_i _ h; subst h
          have := flatten_splitLinesAux r [] true
          simp [flatten] at this ⊢
          rw [this]
        · have := flatten_splitLinesAux r [x] false
          simp [flatten] at this ⊢
          rw [this]
    | false =>
      simp only [Bool.false_eq_true, if_false]
      split
      · rename_i h; subst h
        have := flatten_splitLinesAux r [] false
        simp [flatten] at this ⊢
        rw [this]
      · split
        · rename_i _ h; subst h
          have := flatten_splitLinesAux r acc true
          simp [flatten] at this ⊢
          rw [this]
        · have := flatten_splitLinesAux r (x :: acc) false
          simp [flatten] at this ⊢
          rw [this]

theorem flatten_splitLines' (u : List Nat) : flatten (splitLines u) = u := by
  simp [splitLines, flatten_splitLinesAux]

/-! ## insertion sort -/

def SortedLe (l : List Edit) : Prop := l.Pairwise (fun a b => a.start ≤ b.start)
def SortedLt (l : List Edit) : Prop := l.Pairwise (fun a b => a.start < b.start)

theorem insertE_perm (e : Edit) : ∀ l : List Edit, (insertE e l).Perm (e :: l)
  | [] => List.Perm.refl _
  | x :: xs => by
    unfold insertE
    split
    · exact List.Perm.refl _
    · exact ((insertE_perm e xs).cons x).trans (List.Perm.swap e x xs)

theorem sortE_perm : ∀ l : List Edit, (sortE l).Perm l
  | [] => List.Perm.refl _
  | e :: es => (insertE_perm e (sortE es)).trans ((sortE_perm es).cons e)

theorem insertE_sorted (e : Edit) : ∀ l : List Edit, SortedLe l → SortedLe (insertE e l)
  | [], _ => by simp [insertE, SortedLe]
  | x :: xs, h => by
    unfold insertE
    have hx := List.pairwise_cons.mp h
    split
    · rename_i hle
      refine List.pairwise_cons.mpr ⟨?_, h⟩
      intro a ha
      rcases List.mem_cons.mp ha with rfl | ha
      · exact hle
      · exact Nat.le_trans hle (hx.1 a ha)
    · rename_i hnle
      refine List.pairwise_cons.mpr ⟨?_, insertE_sorted e xs hx.2⟩
      intro a ha
      rcases List.mem_cons.mp ((insertE_perm e xs).mem_iff.mp ha) with rfl | ha
      · omega
      · exact hx.1 a ha

theorem sortE_sorted : ∀ l : List Edit, SortedLe (sortE l)
  | [] => List.Pairwise.nil
  | e :: es => insertE_sorted e (sortE es) (sortE_sorted es)

theorem insertE_of_le (e : Edit) : ∀ l : List Edit, (∀ a ∈ l, e.start ≤ a.start) → insertE e l = e :: l
  | [], _ => rfl
  | x :: xs, h => by
    unfold insertE
    rw [if_pos (h x (List.mem_cons_self ..))]

theorem sortE_of_sorted : ∀ l : List Edit, SortedLe l → sortE l = l
  | [], _ => rfl
  | e :: es, h => by
    have hx := List.pairwise_cons.mp h
    unfold sortE
    rw [sortE_of_sorted es hx.2]
    exact insertE_of_le e es hx.1

/-! ## `applySorted` accepts only strictly increasing starts -/

theorem applySorted_strict : ∀ (es : List Edit) (units : List Nat) (off lo : Nat) (r : List Nat),
    applySorted units off lo es = some r → SortedLt es ∧ ∀ e ∈ es, lo ≤ e.start
  | [], _, _, _, _, _ => ⟨List.Pairwise.nil, by simp⟩
  | e :: es, units, off, lo, r, h => by
    unfold applySorted at h
    split at h
    · rename_i hc
      cases hr : applySorted (units.drop (e.stop - off)) e.stop (max e.stop (e.start + 1)) es with
      | none => simp [hr] at h
      | some r' =>
        obtain ⟨hs, hlo⟩ := applySorted_strict es _ _ _ r' hr
        refine ⟨List.pairwise_cons.mpr ⟨?_, hs⟩, ?_⟩
        · intro a ha
          have := hlo a ha
          omega
        · intro a ha
          rcases List.mem_cons.mp ha with rfl | ha
          · exact hc.1
          · have := hlo a ha
            omega
    · cases h

theorem sortedLt_inj : ∀ (l : List Edit), SortedLt l → ∀ a ∈ l, ∀ b ∈ l, a.start = b.start → a = b
  | [], _, a, ha, _, _, _ => by cases ha
  | x :: xs, h, a, ha, b, hb, hab => by
    have hx := List.pairwise_cons.mp h
    rcases List.mem_cons.mp ha with ha' | ha'
    · rcases List.mem_cons.mp hb with hb' | hb'
      · rw [ha', hb']
      · have := hx.1 b hb'; rw [ha'] at hab; omega
    · rcases List.mem_cons.mp hb with hb' | hb'
      · have := hx.1 a ha'; rw [hb'] at hab; omega
      · exact sortedLt_inj xs hx.2 a ha' b hb' hab

/-- Two sorted permutations of each other, one of them without repeated starts, are equal. -/
theorem sorted_perm_eq (l1 l2 : List Edit) (hp : l1.Perm l2) (h1 : SortedLe l1) (h2 : SortedLe l2)
    (hs : SortedLt l1) : l1 = l2 := by
  refine List.Perm.eq_of_pairwise ?_ h1 h2 hp
  intro a b ha hb hab hba
  exact sortedLt_inj l1 hs a ha b (hp.mem_iff.mpr hb) (Nat.le_antisymm hab hba)

theorem applyFlat_perm (units : List Nat) (es1 es2 : List Edit) (hp : es1.Perm es2) :
    applyFlat units es1 = applyFlat units es2 := by
  unfold applyFlat
  have hp' : (sortE es1).Perm (sortE es2) := (sortE_perm es1).trans (hp.trans (sortE_perm es2).symm)
  cases h1 : applySorted units 0 0 (sortE es1) with
  | some r =>
    have hs := (applySorted_strict _ _ _ _ _ h1).1
    have heq := sorted_perm_eq _ _ hp' (sortE_sorted es1) (sortE_sorted es2) hs
    rw [← heq, h1]
  | none =>
    cases h2 : applySorted units 0 0 (sortE es2) with
    | none => rfl
    | some r =>
      have hs := (applySorted_strict _ _ _ _ _ h2).1
      have heq := sorted_perm_eq _ _ hp'.symm (sortE_sorted es2) (sortE_sorted es1) hs
      rw [heq, h1] at h2
      cases h2

/-! ## `mapOpt` and permutations -/

theorem mapOpt_perm {α β : Type} (f : α → Option β) {l1 l2 : List α} (hp : l1.Perm l2) :
    (mapOpt f l1 = none ∧ mapOpt f l2 = none) ∨
    ∃ r1 r2, mapOpt f l1 = some r1 ∧ mapOpt f l2 = some r2 ∧ r1.Perm r2 := by
  induction hp with
  | nil => exact Or.inr ⟨[], [], rfl, rfl, List.Perm.refl _⟩
  | cons x _ ih =>
    rename_i l1 l2
    cases hx : f x with
    | none => left; simp [mapOpt, hx]
    | some b =>
      rcases ih with ⟨h1, h2⟩ | ⟨r1, r2, h1, h2, hr⟩
      · left; simp [mapOpt, hx, h1, h2]
      · right; exact ⟨b :: r1, b :: r2, by simp [mapOpt, hx, h1], by simp [mapOpt, hx, h2], hr.cons b⟩
  | swap x y l =>
    cases hx : f x <;> cases hy : f y <;> cases hl : mapOpt f l <;>
      simp [mapOpt, hx, hy, hl]
    exact List.Perm.swap ..
  | trans _ _ ih1 ih2 =>
    rcases ih1 with ⟨h1, h2⟩ | ⟨r1, r2, h1, h2, hr⟩
    · rcases ih2 with ⟨h3, h4⟩ | ⟨r3, r4, h3, h4, hr'⟩
      · exact Or.inl ⟨h1, h4⟩
      · rw [h2] at h3; cases h3
    · rcases ih2 with ⟨h3, h4⟩ | ⟨r3, r4, h3, h4, hr'⟩
      · rw [h2] at h3; cases h3
      · rw [h2] at h3; cases h3
        exact Or.inr ⟨r1, r4, h1, h4, hr.trans hr'⟩

/-! ## the edits of a set of tokens -/

theorem renameSpec_starts (sel : Tok → Bool) (new : List Nat) :
    ∀ (toks : List Tok) (units : List Nat) (off : Nat) (r : List Nat),
      renameSpec sel new units off toks = some r → ∀ tk ∈ toks, off ≤ tk.start
  | [], _, _, _, _, tk, h => by cases h
  | t :: rest, units, off, r, h, tk, hm => by
    unfold renameSpec at h
    split at h
    · rename_i hc
      cases hr : renameSpec sel new (units.drop (t.stop - off)) t.stop rest with
      | none => simp [hr] at h
      | some r' =>
        rcases List.mem_cons.mp hm with rfl | hm
        · exact hc.1
        · have := renameSpec_starts sel new rest _ _ r' hr tk hm
          omega
    · cases h

theorem renameSpec_sorted (sel : Tok → Bool) (new : List Nat) :
    ∀ (toks : List Tok) (units : List Nat) (off : Nat) (r : List Nat),
      renameSpec sel new units off toks = some r →
      toks.Pairwise (fun a b => a.start ≤ b.start)
  | [], _, _, _, _ => List.Pairwise.nil
  | t :: rest, units, off, r, h => by
    unfold renameSpec at h
    split at h
    · rename_i hc
      cases hr : renameSpec sel new (units.drop (t.stop - off)) t.stop rest with
      | none => simp [hr] at h
      | some r' =>
        refine List.pairwise_cons.mpr ⟨?_, renameSpec_sorted sel new rest _ _ r' hr⟩
        intro a ha
        have := renameSpec_starts sel new rest _ _ r' hr a ha
        omega
    · cases h

/-- Dropping a prefix that no edit touches. -/
theorem applySorted_shift (units : List Nat) (off lo n : Nat) (es : List Edit)
    (hn : n ≤ units.length) (hes : ∀ e ∈ es, off + n ≤ e.start) :
    applySorted units off lo es =
      (applySorted (units.drop n) (off + n) lo es).map (fun r => units.take n ++ r) := by
  cases es with
  | nil => simp [applySorted]
  | cons e es =>
    have he := hes e (List.mem_cons_self ..)
    unfold applySorted
    have hlen : (units.drop n).length = units.length - n := List.length_drop
    by_cases hc : lo ≤ e.start ∧ off ≤ e.start ∧ e.start ≤ e.stop ∧ e.stop ≤ off + units.length
    · have hc' : lo ≤ e.start ∧ off + n ≤ e.start ∧ e.start ≤ e.stop ∧
          e.stop ≤ off + n + (units.drop n).length := by
        rw [hlen]; omega
      rw [if_pos hc, if_pos hc']
      have hd : (units.drop n).drop (e.stop - (off + n)) = units.drop (e.stop - off) := by
        rw [List.drop_drop]; congr 1; omega
      rw [hd]
      have ht : units.take (e.start - off) =
          units.take n ++ (units.drop n).take (e.start - (off + n)) := by
        have : e.start - off = n + (e.start - (off + n)) := by omega
        rw [this, List.take_add]
      rw [ht]
      cases applySorted (units.drop (e.stop - off)) e.stop (max e.stop (e.start + 1)) es with
      | none => rfl
      | some r => simp [List.append_assoc]
    · have hc' : ¬ (lo ≤ e.start ∧ off + n ≤ e.start ∧ e.start ≤ e.stop ∧
          e.stop ≤ off + n + (units.drop n).length) := by
        rw [hlen]; omega
      rw [if_neg hc, if_neg hc']
      rfl

theorem mem_tokEdits (sel : Tok → Bool) (new : List Nat) (toks : List Tok) (e : Edit)
    (h : e ∈ tokEdits sel new toks) : ∃ tk ∈ toks, e.start = tk.start := by
  unfold tokEdits at h
  obtain ⟨tk, htk, rfl⟩ := List.mem_map.mp h
  exact ⟨tk, (List.mem_filter.mp htk).1, rfl⟩

theorem applySorted_tokEdits (sel : Tok → Bool) (new : List Nat) :
    ∀ (toks : List Tok) (units : List Nat) (off lo : Nat) (r : List Nat),
      renameSpec sel new units off toks = some r →
      (∀ tk ∈ toks, sel tk = true → tk.start < tk.stop) → lo ≤ off →
      applySorted units off lo (tokEdits sel new toks) = some r
  | [], units, off, lo, r, h, _, _ => by
    simp only [renameSpec] at h
    simpa [tokEdits, applySorted] using h
  | t :: rest, units, off, lo, r, h, hne, hlo => by
    unfold renameSpec at h
    split at h
    · rename_i hc
      cases hr : renameSpec sel new (units.drop (t.stop - off)) t.stop rest with
      | none => simp [hr] at h
      | some r' =>
        simp only [hr, Option.map_some, Option.some.injEq] at h
        have hne' : ∀ tk ∈ rest, sel tk = true → tk.start < tk.stop :=
          fun tk htk => hne tk (List.mem_cons_of_mem _ htk)
        cases hsel : sel t with
        | true =>
          have hlt := hne t (List.mem_cons_self ..) hsel
          have ih := applySorted_tokEdits sel new rest (units.drop (t.stop - off)) t.stop
            (max t.stop (t.start + 1)) r' hr hne' (by omega)
          have hte : tokEdits sel new (t :: rest) = ⟨t.start, t.stop, new⟩ :: tokEdits sel new rest := by
            simp [tokEdits, hsel]
          rw [hte]
          unfold applySorted
          have hc2 : lo ≤ t.start ∧ off ≤ t.start ∧ t.start ≤ t.stop ∧ t.stop ≤ off + units.length := by
            omega
          simp only [hc2, and_self, if_true, ih, Option.map_some]
          simp only [hsel, if_true] at h
          rw [← h]
        | false =>
          have hte : tokEdits sel new (t :: rest) = tokEdits sel new rest := by
            simp [tokEdits, hsel]
          rw [hte]
          have hstarts := renameSpec_starts sel new rest _ _ r' hr
          have hn : t.stop - off ≤ units.length := by omega
          rw [applySorted_shift units off lo (t.stop - off) _ hn (by
            intro e he
            obtain ⟨tk, htk, hst⟩ := mem_tokEdits sel new rest e he
            have := hstarts tk htk
            omega)]
          have hoff : off + (t.stop - off) = t.stop := by omega
          rw [hoff]
          have ih := applySorted_tokEdits sel new rest (units.drop (t.stop - off)) t.stop lo r' hr hne'
            (by omega)
          rw [ih]
          simp only [Option.map_some, Option.some.injEq]
          simp only [hsel, Bool.false_eq_true, if_false] at h
          rw [← h]
          have : t.stop - off = (t.start - off) + (t.stop - t.start) := by omega
          rw [this, List.take_add, List.append_assoc]
    · cases h

theorem tokEdits_sorted (sel : Tok → Bool) (new : List Nat) (toks : List Tok)
    (h : toks.Pairwise (fun a b => a.start ≤ b.start)) : SortedLe (tokEdits sel new toks) := by
  unfold tokEdits SortedLe
  exact List.Pairwise.map _ (fun a b hab => hab) (List.Pairwise.filter _ h)

end ParolModel.Ls28
