import ParolModel.Model.Regex
/-! Lemmas about the spec tokenizer (C13): progress, totality, "longest, first declared". -/
namespace ParolModel

theorem longestFromFast_bounds (ok : List Nat → Bool) :
    ∀ (w : List Nat) (r : Re) (n : Nat) (best : Option Nat) (m : Nat),
      longestFromFast ok r w n best = some m → best = some m ∨ (n < m ∧ m ≤ n + w.length) := by
  intro w
  induction w with
  | nil => intro r n best m h; left; simpa [longestFromFast] using h
  | cons x xs ih =>
    intro r n best m h
    simp only [longestFromFast] at h
    split at h
    · left; exact h
    · rcases ih _ _ _ _ h with h' | ⟨h1, h2⟩
      · split at h'
        · right
          have : n + 1 = m := by simpa using h'
          simp only [List.length_cons]; omega
        · left; exact h'
      · right; simp only [List.length_cons]; omega

theorem longestFrom_empty (ok : List Nat → Bool) :
    ∀ (w : List Nat) (n : Nat) (best : Option Nat), longestFrom ok .empty w n best = best := by
  intro w
  induction w with
  | nil => intro n best; rfl
  | cons x xs ih => intro n best; simp [longestFrom, deriv, nullable, ih]

/-- The early exit on a syntactically empty derivative does not change the result. -/
theorem longestFromFast_eq (ok : List Nat → Bool) :
    ∀ (w : List Nat) (r : Re) (n : Nat) (best : Option Nat),
      longestFromFast ok r w n best = longestFrom ok r w n best := by
  intro w
  induction w with
  | nil => intro r n best; rfl
  | cons x xs ih =>
    intro r n best
    simp only [longestFromFast, longestFrom]
    split
    · rename_i he
      rw [he]
      simp [nullable, longestFrom_empty]
    · exact ih _ _ _

theorem ScanTerm.matchLen_eq_spec (t : ScanTerm) (w : List Nat) : t.matchLen w = t.matchLenSpec w :=
  longestFromFast_eq _ _ _ _ _

theorem ScanTerm.matchLen_bounds (t : ScanTerm) (w : List Nat) (m : Nat) (h : t.matchLen w = some m) :
    1 ≤ m ∧ m ≤ w.length := by
  rcases longestFromFast_bounds _ _ _ _ _ _ h with h' | ⟨h1, h2⟩
  · cases h'
  · omega

/-- `bestOf` returns a longest match, and among the longest the terminal declared first. -/
theorem bestOf_spec (len : ScanTerm → Option Nat) :
    ∀ (ts : List ScanTerm) (best : Option (Nat × Nat)) (n tok : Nat),
      bestOf len ts best = some (n, tok) →
      (best = some (n, tok) ∧ ∀ u ∈ ts, ∀ m, len u = some m → m ≤ n) ∨
      (∃ pre t post, ts = pre ++ t :: post ∧ t.tok = tok ∧ len t = some n ∧
        (∀ p, best = some p → p.1 < n) ∧
        (∀ u ∈ pre, ∀ m, len u = some m → m < n) ∧
        (∀ u ∈ post, ∀ m, len u = some m → m ≤ n)) := by
  intro ts
  induction ts with
  | nil => intro best n tok h; left; exact ⟨by simpa [bestOf] using h, by simp⟩
  | cons t ts ih =>
    intro best n tok h
    simp only [bestOf] at h
    split at h
    · -- len t = none
      rename_i hl
      rcases ih _ _ _ h with ⟨hb, hall⟩ | ⟨pre, t', post, hts, htok, hlen, hbest, hpre, hpost⟩
      · left; refine ⟨hb, ?_⟩
        intro u hu m hm
        rcases List.mem_cons.mp hu with rfl | hu'
        · rw [hl] at hm; cases hm
        · exact hall u hu' m hm
      · right; refine ⟨t :: pre, t', post, by simp [hts], htok, hlen, hbest, ?_, hpost⟩
        intro u hu m hm
        rcases List.mem_cons.mp hu with rfl | hu'
        · rw [hl] at hm; cases hm
        · exact hpre u hu' m hm
    · -- len t = some n', best = none
      rename_i n' hl
      rcases ih _ _ _ h with ⟨hb, hall⟩ | ⟨pre, t', post, hts, htok, hlen, hbest, hpre, hpost⟩
      · right
        have hb' : n' = n ∧ t.tok = tok := by simpa using hb
        refine ⟨[], t, ts, rfl, hb'.2, by rw [hl, hb'.1], by simp, by simp, hall⟩
      · right
        have := hbest (n', t.tok) rfl
        refine ⟨t :: pre, t', post, by simp [hts], htok, hlen, by simp, ?_, hpost⟩
        intro u hu m hm
        rcases List.mem_cons.mp hu with rfl | hu'
        · rw [hl] at hm; cases hm; exact this
        · exact hpre u hu' m hm
    · -- len t = some n', best = some (m0, k0)
      rename_i n' m0 k0 hl
      split at h
      · -- n' > m0: t becomes the candidate
        rename_i hgt
        rcases ih _ _ _ h with ⟨hb, hall⟩ | ⟨pre, t', post, hts, htok, hlen, hbest, hpre, hpost⟩
        · right
          have hb' : n' = n ∧ t.tok = tok := by simpa using hb
          refine ⟨[], t, ts, rfl, hb'.2, by rw [hl, hb'.1], ?_, by simp, hall⟩
          intro p hp; cases hp; simp only; omega
        · right
          have := hbest (n', t.tok) rfl
          refine ⟨t :: pre, t', post, by simp [hts], htok, hlen, ?_, ?_, hpost⟩
          · intro p hp; cases hp; simp only at this ⊢; omega
          · intro u hu m hm
            rcases List.mem_cons.mp hu with rfl | hu'
            · rw [hl] at hm; cases hm; exact this
            · exact hpre u hu' m hm
      · -- n' ≤ m0: the earlier candidate stays
        rename_i hle
        rcases ih _ _ _ h with ⟨hb, hall⟩ | ⟨pre, t', post, hts, htok, hlen, hbest, hpre, hpost⟩
        · left
          refine ⟨hb, ?_⟩
          have hb' : m0 = n ∧ k0 = tok := by simpa using hb
          intro u hu m hm
          rcases List.mem_cons.mp hu with rfl | hu'
          · rw [hl] at hm; cases hm; omega
          · exact hall u hu' m hm
        · right
          have := hbest (m0, k0) rfl
          refine ⟨t :: pre, t', post, by simp [hts], htok, hlen, hbest, ?_, hpost⟩
          intro u hu m hm
          rcases List.mem_cons.mp hu with rfl | hu'
          · rw [hl] at hm; cases hm; simp only at this; omega
          · exact hpre u hu' m hm

theorem stepMatch_bounds (modes : List ScanMode) (st : ScanSt) (w : List Nat) (n tok : Nat)
    (h : stepMatch modes st w = some (n, tok)) : 1 ≤ n ∧ n ≤ w.length := by
  unfold stepMatch at h
  split at h
  · cases h
  · rename_i m _
    rcases bestOf_spec _ _ _ _ _ h with ⟨hb, _⟩ | ⟨_, t, _, _, _, hlen, _⟩
    · cases hb
    · exact ScanTerm.matchLen_bounds t w n hlen

theorem tokenizeFuel_progress (modes : List ScanMode) :
    ∀ (f : Nat) (st : ScanSt) (w : List Nat) (pos : Nat) (ts : List ScanTok),
      tokenizeFuel modes f st w pos = some ts →
      (∀ t ∈ ts, pos ≤ t.start ∧ t.start < t.stop ∧ t.stop ≤ pos + w.length) ∧
      ts.Pairwise (fun a b => a.stop ≤ b.start) := by
  intro f
  induction f with
  | zero =>
    intro st w pos ts h
    cases w with
    | nil => simp [tokenizeFuel] at h; subst h; simp
    | cons x xs => simp [tokenizeFuel] at h
  | succ f ih =>
    intro st w pos ts h
    cases w with
    | nil => simp [tokenizeFuel] at h; subst h; simp
    | cons x xs =>
      simp only [tokenizeFuel] at h
      split at h
      · -- skip one character
        obtain ⟨h1, h2⟩ := ih _ _ _ _ h
        refine ⟨?_, h2⟩
        intro t ht
        have := h1 t ht
        simp only [List.length_cons]; omega
      · rename_i n tok hm
        obtain ⟨hn1, hn2⟩ := stepMatch_bounds _ _ _ _ _ hm
        simp only [List.length_cons] at hn2
        simp only [Option.map_eq_some_iff] at h
        obtain ⟨ts', hrec, rfl⟩ := h
        obtain ⟨h1, h2⟩ := ih _ _ _ _ hrec
        have hlen : (xs.drop (n - 1)).length = xs.length - (n - 1) := by simp
        constructor
        · intro t ht
          rcases List.mem_cons.mp ht with rfl | ht'
          · simp only [List.length_cons]; omega
          · have := h1 t ht'
            simp only [List.length_cons]; omega
        · refine List.Pairwise.cons ?_ h2
          intro t ht
          have := h1 t ht
          simp only; omega

theorem tokenizeFuel_total (modes : List ScanMode) :
    ∀ (f : Nat) (st : ScanSt) (w : List Nat) (pos : Nat), w.length < f →
      (tokenizeFuel modes f st w pos).isSome := by
  intro f
  induction f with
  | zero => intro st w pos h; omega
  | succ f ih =>
    intro st w pos h
    cases w with
    | nil => simp [tokenizeFuel]
    | cons x xs =>
      simp only [List.length_cons] at h
      simp only [tokenizeFuel]
      split
      · exact ih _ _ _ (by omega)
      · rename_i n tok hm
        have := ih (applyModeOp st (lookupModeOp ((modes[st.mode]?.map (·.trans)).getD []) tok))
          (xs.drop (n - 1)) (pos + n) (by simp; omega)
        simp only [Option.isSome_map]
        exact this

end ParolModel

namespace ParolModel

theorem longestFromFast_isSome_of_best (ok : List Nat → Bool) :
    ∀ (w : List Nat) (r : Re) (n : Nat) (best : Option Nat), best.isSome →
      (longestFromFast ok r w n best).isSome := by
  intro w
  induction w with
  | nil => intro r n best h; simpa [longestFromFast] using h
  | cons x xs ih =>
    intro r n best h
    simp only [longestFromFast]
    split
    · exact h
    · apply ih
      split
      · rfl
      · exact h

theorem bestOf_isSome_of_best (len : ScanTerm → Option Nat) :
    ∀ (ts : List ScanTerm) (best : Option (Nat × Nat)), best.isSome → (bestOf len ts best).isSome := by
  intro ts
  induction ts with
  | nil => intro best h; simpa [bestOf] using h
  | cons t ts ih =>
    intro best h
    simp only [bestOf]
    split
    · exact ih _ h
    · exact ih _ rfl
    · apply ih; split <;> rfl

theorem bestOf_isSome_of_mem (len : ScanTerm → Option Nat) :
    ∀ (ts : List ScanTerm) (best : Option (Nat × Nat)) (t : ScanTerm), t ∈ ts → (len t).isSome →
      (bestOf len ts best).isSome := by
  intro ts
  induction ts with
  | nil => intro best t ht; cases ht
  | cons u ts ih =>
    intro best t ht hl
    rcases List.mem_cons.mp ht with rfl | ht'
    · simp only [bestOf]
      split
      · rename_i hn; rw [hn] at hl; cases hl
      · exact bestOf_isSome_of_best _ _ _ rfl
      · apply bestOf_isSome_of_best; split <;> rfl
    · simp only [bestOf]
      split
      · exact ih _ t ht' hl
      · exact ih _ t ht' hl
      · exact ih _ t ht' hl

/-- A terminal without lookahead whose regex matches the single character `c` has a match at
    every position that starts with `c`. -/
theorem matchLen_isSome_of_single (t : ScanTerm) (hla : t.la = none) (c : Nat) (rest : List Nat)
    (hm : matchesRe t.re [c] = true) : (t.matchLen (c :: rest)).isSome := by
  have hn : nullable (deriv t.re c) = true := by simpa [matchesRe, derivs] using hm
  simp only [ScanTerm.matchLen, longestFromFast]
  split
  · rename_i he; rw [he] at hn; cases hn
  · apply longestFromFast_isSome_of_best
    simp [hn, hla, laHolds]

end ParolModel

namespace ParolModel

/-- `longestFrom` returns the greatest length `j ≥ 1` such that the first `j` characters are matched
    by `r` and `ok` holds for the rest — or `best` if there is no such `j`. -/
theorem longestFrom_char (ok : List Nat → Bool) :
    ∀ (w : List Nat) (r : Re) (n : Nat) (best : Option Nat),
    ((∀ j, 1 ≤ j → j ≤ w.length → ¬ (matchesRe r (w.take j) = true ∧ ok (w.drop j) = true)) ∧
        longestFrom ok r w n best = best) ∨
    (∃ j, 1 ≤ j ∧ j ≤ w.length ∧ matchesRe r (w.take j) = true ∧ ok (w.drop j) = true ∧
        longestFrom ok r w n best = some (n + j) ∧
        ∀ j', j < j' → j' ≤ w.length → ¬ (matchesRe r (w.take j') = true ∧ ok (w.drop j') = true)) := by
  intro w
  induction w with
  | nil => intro r n best; left; exact ⟨fun j h1 h2 => by simp at h2; omega, rfl⟩
  | cons x xs ih =>
    intro r n best
    have hshift : ∀ j, matchesRe r ((x :: xs).take (j + 1)) = matchesRe (deriv r x) (xs.take j) := by
      intro j; simp [matchesRe, derivs]
    have hone : matchesRe r ((x :: xs).take 1) = nullable (deriv r x) := by simp [matchesRe, derivs]
    simp only [longestFrom]
    rcases ih (deriv r x) (n + 1) (if nullable (deriv r x) && ok xs then some (n + 1) else best) with
      ⟨hno, hres⟩ | ⟨j, hj1, hj2, hm, hok, hres, hmax⟩
    · by_cases hc : (nullable (deriv r x) && ok xs) = true
      · right
        rw [if_pos hc] at hres ⊢
        refine ⟨1, Nat.le_refl _, by simp, ?_, ?_, by rw [hres], ?_⟩
        · rw [hone]; simp only [Bool.and_eq_true] at hc; exact hc.1
        · simp only [Bool.and_eq_true] at hc; simpa using hc.2
        · intro j' h1 h2
          obtain ⟨j'', rfl⟩ : ∃ j'', j' = j'' + 1 := ⟨j' - 1, by omega⟩
          rw [hshift]
          simp only [List.length_cons] at h2
          simpa using hno j'' (by omega) (by omega)
      · left
        rw [if_neg hc] at hres ⊢
        refine ⟨?_, hres⟩
        intro j h1 h2
        obtain ⟨j'', rfl⟩ : ∃ j'', j = j'' + 1 := ⟨j - 1, by omega⟩
        simp only [List.length_cons] at h2
        by_cases h0 : j'' = 0
        · subst h0
          rw [hone]
          simpa [Bool.and_eq_true] using hc
        · rw [hshift]
          simpa using hno j'' (by omega) (by omega)
    · right
      refine ⟨j + 1, by omega, by simp; omega, ?_, ?_, ?_, ?_⟩
      · rw [hshift]; exact hm
      · simpa using hok
      · rw [hres]; congr 1; omega
      · intro j' h1 h2
        obtain ⟨j'', rfl⟩ : ∃ j'', j' = j'' + 1 := ⟨j' - 1, by omega⟩
        simp only [List.length_cons] at h2
        rw [hshift]
        simpa using hmax j'' (by omega) (by omega)

/-- The match length of a terminal is the greatest `n ≥ 1` such that the first `n` characters belong
    to the language of its regex and its lookahead condition holds for the rest. -/
theorem matchLenSpec_some (t : ScanTerm) (w : List Nat) (n : Nat) (h : t.matchLenSpec w = some n) :
    1 ≤ n ∧ n ≤ w.length ∧ matchesRe t.re (w.take n) = true ∧ laHolds t.la (w.drop n) = true ∧
    ∀ m, n < m → m ≤ w.length → ¬ (matchesRe t.re (w.take m) = true ∧ laHolds t.la (w.drop m) = true) := by
  rcases longestFrom_char (laHolds t.la) w t.re 0 none with ⟨_, hres⟩ | ⟨j, h1, h2, hm, hok, hres, hmax⟩
  · simp only [ScanTerm.matchLenSpec] at h; rw [hres] at h; cases h
  · simp only [ScanTerm.matchLenSpec] at h
    rw [hres] at h
    have : j = n := by simpa using h
    subst this
    exact ⟨h1, h2, hm, hok, hmax⟩

theorem matchLenSpec_none (t : ScanTerm) (w : List Nat) (h : t.matchLenSpec w = none) :
    ∀ j, 1 ≤ j → j ≤ w.length → ¬ (matchesRe t.re (w.take j) = true ∧ laHolds t.la (w.drop j) = true) := by
  rcases longestFrom_char (laHolds t.la) w t.re 0 none with ⟨hno, _⟩ | ⟨j, _, _, _, _, hres, _⟩
  · exact hno
  · simp only [ScanTerm.matchLenSpec] at h; rw [hres] at h; cases h

end ParolModel
