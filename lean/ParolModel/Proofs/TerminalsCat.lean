import ParolModel.Proofs.TerminalsOps
/-! # L7 refinement: `Terminals::of` and `k_concat` -/
namespace ParolModel
namespace Tm

/-! ## `of` -/

theorem copyMask_eq {t : BitVec 128} (h : WF t) (i : Nat) (hi : i ≤ 10) :
    copyMask (bits t) (mask t) i = maskS (off t i) := by
  induction i with
  | zero => rw [copyMask, off_zero]; exact maskS_zero.symm
  | succ i ih =>
    rw [copyMask, ih (by omega), mask_eq, copyMask_step _ _ (bits_le12 h) (off_le_108 h (by omega)), off_succ]

theorem of_spec {t : BitVec 128} (h : WF t) (k : Nat) :
    ∃ t', «of» k t = some t' ∧ WF t' ∧ bits t' = bits t ∧ abs t' = specOf k (abs t) := by
  have hlen := h.len_le
  have hi : kLen t k ≤ 10 := by simp only [kLen]; omega
  have hile : kLen t k ≤ len t := by simp only [kLen]; omega
  let i := kLen t k
  let t0 := t &&& maskS (off t i)
  let t' := setNextIndex (setBitsRaw t0 (bits t)) (BitVec.ofNat 8 i)
  have hi15 : BitVec.ofNat 8 i ≤ 15 := by
    have : i ≤ 10 := hi
    bv_omega
  have hb' : bits t' = bits t := by
    show bits (setNextIndex _ _) = _
    rw [bits_setNextIndex _ _ hi15, bits_setBitsRaw _ _ (by have := bits_le12 h; bv_omega)]
  have hn' : nextIndex t' = BitVec.ofNat 8 i := nextIndex_setNextIndex _ _ hi15
  have hpay : t' &&& PAYLOAD = t0 &&& PAYLOAD := by
    show setNextIndex _ _ &&& PAYLOAD = _
    rw [payload_setNextIndex, payload_setBitsRaw]
  have hz' : zeroAbove t' (BitVec.ofNat 8 (i * (bits t).toNat)) := by
    rw [zeroAbove_congr hpay]
    exact zeroAbove_and_maskS t (off t i) (off_le_120 h hi)
  obtain ⟨hw', hl'⟩ := wf_intro t' (bits t) i hb' hn' (bits_ge1 h) (bits_le12 h) hi hz'
  refine ⟨t', ?_, hw', hb', ?_⟩
  · unfold «of»
    simp only [copyMask_eq h _ hi]
    rw [setBits_eq _ _ (bits_ge1 h) (by have := bits_le12 h; bv_omega)]
  · apply abs_eq_of
    · simp only [hl', specOf, List.length_take, abs_length, i, kLen]; omega
    · intro j hj
      simp only [specOf, List.length_take, abs_length] at hj
      have hji : j < i := by simp only [i, kLen]; omega
      simp only [specOf, List.getElem_take, abs_getElem]
      apply symAt_congr hw' h (by omega) (by omega) hb'
      rw [hb', off_congr hb']
      have hj10 : j < 10 := by omega
      rw [eltS_congr hpay _ _ (bits_le12 h) (off_le_108 h hj10) (off_add_bits_le_120 h hj10)]
      exact eltS_and_maskS t (bits t) (off t j) (off t i) (bits_le12 h) (off_le_108 h hj10) (off_le_120 h hi)
        (off_add_bits_le h hji hi)

/-! ## `k_concat` -/

theorem isEmpty_spec (t : BitVec 128) : isEmpty t = (abs t == []) := by
  rw [Bool.eq_iff_iff, isEmpty_iff]
  simp only [beq_iff_eq]
  constructor
  · intro h; apply List.eq_nil_of_length_eq_zero; simp [h]
  · intro h; rw [← abs_length, h]; rfl

/-- the main case: the left operand is not k-complete, the right one is neither ε nor empty -/
theorem kConcat_main {t o : BitVec 128} (ht : WF t) (ho : WF o) (hb : bits o = bits t) {k : Nat} (hk : k ≤ 10)
    (hlt : len t < k) (hne : 0 < len o) :
    let c := min (k - len t) (min (len o) k)
    let t' := setBitsRaw (setNextIndex (catS t o (off t (len t)) (off t c)) (BitVec.ofNat 8 (len t + c))) (bits t)
    WF t' ∧ bits t' = bits t ∧ abs t' = (abs t ++ abs o).take k := by
  intro c t'
  have hc1 : 1 ≤ c := by simp only [c]; omega
  have hc : len t + c ≤ k := by simp only [c]; omega
  have hco : c ≤ len o := by simp only [c]; omega
  have hn10 : len t + c ≤ 10 := by omega
  have hi15 : BitVec.ofNat 8 (len t + c) ≤ 15 := by bv_omega
  have hb12 := bits_le12 ht
  have hb' : bits t' = bits t := bits_setBitsRaw _ _ (by bv_omega)
  have hn' : nextIndex t' = BitVec.ofNat 8 (len t + c) := by
    show nextIndex (setBitsRaw _ _) = _
    rw [nextIndex_setBitsRaw, nextIndex_setNextIndex _ _ hi15]
  have hpay : t' &&& PAYLOAD = catS t o (off t (len t)) (off t c) &&& PAYLOAD := by
    show setBitsRaw _ _ &&& PAYLOAD = _
    rw [payload_setBitsRaw, payload_setNextIndex]
  have hs := off_le_120 ht (show len t ≤ 10 by omega)
  have hsc := off_le_120 ht (show c ≤ 10 by omega)
  have hsum : off t (len t) + off t c ≤ 120 := by rw [← off_add]; exact off_le_120 ht hn10
  have hz' : zeroAbove t' (BitVec.ofNat 8 ((len t + c) * (bits t).toNat)) := by
    rw [zeroAbove_congr hpay]
    have := zeroAbove_catS t o _ _ hs hsc hsum (wf_zeroAbove ht)
    rw [← off_add] at this
    exact this
  obtain ⟨hw', hl'⟩ := wf_intro t' (bits t) (len t + c) hb' hn' (bits_ge1 ht) hb12 hn10 hz'
  refine ⟨hw', hb', ?_⟩
  apply abs_eq_of
  · simp only [hl', List.length_take, List.length_append, abs_length, c]; omega
  · intro j hj
    simp only [List.length_take, List.length_append, abs_length] at hj
    have hjn : j < len t + c := by simp only [c]; omega
    have hj10 : j < 10 := by omega
    rw [List.getElem_take]
    have hoffo : ∀ x, off o x = off t x := fun x => off_congr hb x
    by_cases hlow : j < len t
    · rw [List.getElem_append_left (by simpa using hlow), abs_getElem]
      apply symAt_congr hw' ht (by omega) (by omega) hb'
      rw [hb', off_congr hb']
      rw [eltS_congr hpay _ _ hb12 (off_le_108 ht hj10) (off_add_bits_le_120 ht hj10)]
      exact eltS_catS_below t o (bits t) _ _ _ hb12 hs hsc (off_le_108 ht hj10)
        (off_add_bits_le ht hlow (by omega))
    · rw [List.getElem_append_right (by simpa using hlow), abs_getElem]
      simp only [abs_length]
      have hd : j - len t < c := by omega
      have hd10 : j - len t < 10 := by omega
      apply symAt_congr hw' ho (by omega) (by omega) (by rw [hb', hb])
      rw [hb', hb, off_congr hb', hoffo]
      rw [eltS_congr hpay _ _ hb12 (off_le_108 ht hj10) (off_add_bits_le_120 ht hj10)]
      have hjsplit : off t j = off t (len t) + off t (j - len t) := by
        rw [← off_add]; congr 1; omega
      rw [hjsplit]
      exact eltS_catS_above t o (bits t) _ _ _ hb12 hs hsc hsum (off_le_108 ht hd10)
        (off_add_bits_le ht hd (by omega)) (wf_zeroAbove ht)

theorem specIsKComplete_false {l : List TSym} {k : Nat} (hne : (l == [TSym.eps]) = false)
    (h : specIsKComplete l k = false) : l.length < k := by
  simp only [specIsKComplete, hne, Bool.not_false, Bool.true_and, Bool.or_eq_false_iff, decide_eq_false_iff_not] at h
  omega

theorem kConcat_spec {t o : BitVec 128} (ht : WF t) (ho : WF o) (hb : bits o = bits t) {k : Nat} (hk : k ≤ 10) :
    ∃ t', kConcat t o k = some t' ∧ WF t' ∧ bits t' = bits t ∧ abs t' = specKConcat (abs t) (abs o) k := by
  have hb0 : ¬ bits t = 0 := by have := bits_ge1 ht; bv_omega
  have hbne : ¬ bits o ≠ bits t := by simp [hb]
  unfold kConcat specKConcat
  simp only [hbne, if_false, hb0]
  rw [isEps_spec ho, isEmpty_spec o]
  unfold specIsEps
  by_cases hskip : ((abs o == [TSym.eps]) || (abs o == [])) = true
  · exact ⟨t, by simp only [hskip, if_true], ht, rfl, by simp only [hskip, if_true]⟩
  · have hskip' : ((abs o == [TSym.eps]) || (abs o == [])) = false := by simpa using hskip
    simp only [hskip', Bool.false_eq_true, if_false]
    -- the possibly cleared left operand
    have hclr : ∃ t1, (if isEps t = true then clear t else some t) = some t1 ∧ WF t1 ∧ bits t1 = bits t ∧
        abs t1 = (if (abs t == [TSym.eps]) = true then [] else abs t) ∧ (abs t1 == [TSym.eps]) = false := by
      rw [isEps_spec ht]; unfold specIsEps
      by_cases he : (abs t == [TSym.eps]) = true
      · obtain ⟨t1, h1, h2, h3, h4⟩ := clear_spec ht
        exact ⟨t1, by simp only [he, if_true, h1], h2, h3, by simp only [he, if_true, h4], by rw [h4]; rfl⟩
      · have he' : (abs t == [TSym.eps]) = false := by simpa using he
        exact ⟨t, by simp only [he', Bool.false_eq_true, if_false], ht, rfl,
          by simp only [he', Bool.false_eq_true, if_false], he'⟩
    obtain ⟨t1, hc1, hw1, hb1, ha1, hne1⟩ := hclr
    rw [hc1]
    simp only [← ha1]
    rw [isKComplete_spec hw1]
    by_cases hcomp : specIsKComplete (abs t1) k = true
    · exact ⟨t1, by simp only [hcomp], hw1, hb1, by simp only [hcomp, if_true]⟩
    · have hcomp' : specIsKComplete (abs t1) k = false := by simpa using hcomp
      simp only [hcomp', Bool.false_eq_true, if_false]
      have hlt : len t1 < k := by simpa using specIsKComplete_false hne1 hcomp'
      have hone : 0 < len o := by
        have : ¬ abs o = [] := by
          intro hh; simp [hh] at hskip'
        rcases Nat.eq_zero_or_pos (len o) with h0 | h0
        · exfalso; apply this; apply List.eq_nil_of_length_eq_zero; simp [h0]
        · exact h0
      have hbo : bits o = bits t1 := by rw [hb, hb1]
      obtain ⟨hw', hb', ha'⟩ := kConcat_main hw1 ho hbo hk hlt hone
      refine ⟨_, ?_, hw', by rw [hb', hb1], ha'⟩
      -- the model computes exactly that word
      have hlen1 := hw1.len_le
      have hkl : kLen t1 k = len t1 := by simp only [kLen]; omega
      have hko : kLen o k = min (len o) k := rfl
      simp only [hkl, hko]
      have hc0 : ¬ min (k - len t1) (min (len o) k) = 0 := by omega
      simp only [hc0, if_false]
      have hcle : min (k - len t1) (min (len o) k) ≤ 10 := by omega
      have h1 := mul_le_120 hw1 hcle
      have h2 := mul_le_120 hw1 (show len t1 ≤ 10 by omega)
      have hsum : len t1 + min (k - len t1) (min (len o) k) ≤ 10 := by omega
      have hidx : ¬ (BitVec.ofNat 8 (len t1 + min (k - len t1) (min (len o) k))).toNat > MAX_K := by
        rw [MAX_K_eq]; simp only [BitVec.toNat_ofNat]; omega
      simp only [shl?, if_pos (show min (k - len t1) (min (len o) k) * (bits t1).toNat < 128 by omega),
        if_pos (show len t1 * (bits t1).toNat < 128 by omega), hidx, if_false]
      rw [setBits_eq _ _ (bits_ge1 hw1) (by have := bits_le12 hw1; bv_omega)]
      rw [shl_nat _ _ (by omega), shl_nat _ _ (by omega)]
      rfl

end Tm
end ParolModel
