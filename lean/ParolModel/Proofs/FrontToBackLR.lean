import ParolModel.Model.FrontToBackLR
import ParolModel.Proofs.FrontToBack
import ParolModel.Proofs.GenName
import ParolModel.Proofs.Augment
/-! Lemmas for C03d (Props/C03d.lean): `augment_grammar` on names (`augmentN`) — totality, shape,
its image under any numbering of the names that is injective on the name table is the `augment` of
Spec/Cfg (so `augment_preserves_lang` and `isolated_augment` of C12 apply), the start symbol of the
result is isolated — and the inversion of `parolLRGrammar`. -/
namespace ParolModel
open KS

/-! ## `augmentN` -/

/-- the name search of `augment_grammar` always succeeds -/
theorem augmentN_total (B : List RuleN) (st : Name) : ∃ r, augmentN B st = some r := by
  unfold augmentN
  split
  · exact ⟨_, rfl⟩
  · obtain ⟨X, hX⟩ := generateName_total (ntNames B st) st
    exact ⟨_, by rw [hX]; rfl⟩

/-- either the grammar is kept (start symbol already isolated) or `S' → S` is put in front, `S'` a
    name that is not in the grammar's name table -/
theorem augmentN_shape {B B' : List RuleN} {st st' : Name} (h : augmentN B st = some (B', st')) :
    (B' = B ∧ st' = st ∧ startCountN B st = 1 ∧ usedOnRhsN B st = false) ∨
    (¬ (startCountN B st = 1 ∧ usedOnRhsN B st = false) ∧ st' ∉ ntNames B st ∧
      B' = ⟨st', [.n st .none], .none⟩ :: B) := by
  unfold augmentN at h
  split at h
  · rename_i hc
    simp only [Option.some.injEq, Prod.mk.injEq] at h
    exact .inl ⟨h.1.symm, h.2.symm, hc⟩
  · rename_i hc
    simp only [Option.map_eq_some_iff, Prod.mk.injEq] at h
    obtain ⟨X, hX, rfl, rfl⟩ := h
    exact .inr ⟨hc, generateName_not_mem hX, rfl⟩

/-- numbering commutes with augmentation: the numbered `S' → S :: B` is `augment` (Spec/Cfg) of the
    numbered `B` -/
theorem toGrammar_augment (ν : Name → Nat) (st st' : Name) (B : List RuleN) :
    toGrammar ν st' (⟨st', [.n st .none], .none⟩ :: B) = augment (toGrammar ν st B) (ν st') := rfl

/-- a name outside the name table is numbered outside the grammar (injective numbering) -/
theorem fresh_of_not_mem_ntNames {ν : Name → Nat} {V : List Name} (hinj : InjOn ν V)
    {B : List RuleN} {st st' : Name} (hV : ∀ x ∈ ntNames B st, x ∈ V) (hst' : st' ∈ V)
    (hn : st' ∉ ntNames B st) : ¬ usesNT (toGrammar ν st B) (ν st') := by
  intro hu
  have hm : ν st' ∈ ntsOf (toGrammar ν st B) := by
    rw [mem_ntsOf]
    rcases hu with h | ⟨p, hp, h | h⟩
    · exact .inl h
    · exact .inr ⟨p, hp, .inl h.symm⟩
    · exact .inr ⟨p, hp, .inr h⟩
  obtain ⟨x, hx, e⟩ := mem_ntsOf_toGrammar.1 hm
  have := hinj st' hst' x (hV x hx) e
  exact hn (this ▸ hx)

theorem namesN_cons_start {B : List RuleN} {st st' x : Name} :
    x ∈ namesN (⟨st', [.n st .none], .none⟩ :: B) ↔ x = st' ∨ x = st ∨ x ∈ namesN B := by
  simp [namesN, RuleN.names]

/-- **`augment_grammar` preserves the language**, on the shared semantics `Lang`, for every
    numbering of the names that is injective on a set containing the names of the result. -/
theorem augmentN_lang {B B' : List RuleN} {st st' : Name} (h : augmentN B st = some (B', st'))
    (ν : Name → Nat) (V : List Name) (hinj : InjOn ν V) (hV : ∀ x ∈ namesN B', x ∈ V)
    (hstV : st' ∈ V) (hst : st ∈ V) (w : List Nat) :
    Lang (toGrammar ν st' B') w ↔ Lang (toGrammar ν st B) w := by
  rcases augmentN_shape h with ⟨rfl, rfl, _⟩ | ⟨_, hn, rfl⟩
  · exact Iff.rfl
  · rw [toGrammar_augment]
    apply augment_preserves_lang
    apply fresh_of_not_mem_ntNames hinj _ hstV hn
    intro x hx
    rcases mem_ntNames.1 hx with rfl | hx
    · exact hst
    · exact hV x (namesN_cons_start.2 (.inr (.inr hx)))

/-! ## isolation of the start symbol -/

theorem isolatedB_mapTerms (τ : Nat → Nat) {G : Grammar} (h : isolatedB G = true) :
    isolatedB (mapTerms τ G) = true := by
  rw [isolatedB_iff] at h ⊢
  obtain ⟨h1, h2⟩ := h
  constructor
  · simp only [mapTerms, List.filter_map, List.length_map]
    exact h1
  · intro p hp hm
    obtain ⟨q, hq, rfl⟩ := List.mem_map.1 hp
    obtain ⟨s, hs, e⟩ := List.mem_map.1 hm
    cases s with
    | t a => simp [Sym.mapT] at e
    | n A =>
      simp only [Sym.mapT, Sym.n.injEq] at e
      subst e
      exact h2 q hq hs

theorem isolatedB_toGrammar_kept {ν : Name → Nat} {V : List Name} (hinj : InjOn ν V)
    {B : List RuleN} {st : Name} (hV : ∀ x ∈ namesN B, x ∈ V) (hst : st ∈ V)
    (h1 : startCountN B st = 1) (h2 : usedOnRhsN B st = false) :
    isolatedB (toGrammar ν st B) = true := by
  rw [isolatedB_iff]
  constructor
  · simp only [toGrammar, List.filter_map, List.length_map]
    rw [← h1, startCountN]
    congr 1
    apply List.filter_congr
    intro r hr
    simp only [Function.comp, RuleN.toRule]
    apply decide_eq_decide.2
    constructor
    · exact hinj _ (hV _ (namesN_spec hr).1) _ hst
    · intro e; rw [e]
  · intro p hp hm
    obtain ⟨r, hr, rfl⟩ := List.mem_map.1 hp
    obtain ⟨s, hs, e⟩ := List.mem_map.1 hm
    cases s with
    | t a => simp [SymN.toSym] at e
    | n A sa =>
      simp only [SymN.toSym, toGrammar, Sym.n.injEq] at e
      have hA : A ∈ namesN B := (namesN_spec hr).2 A (by
        simp only [symsNames, List.mem_flatMap]
        exact ⟨_, hs, by simp [SymN.names]⟩)
      have := hinj A (hV A hA) st hst e
      subst this
      have : usedOnRhsN B A = true := by
        simp only [usedOnRhsN, List.any_eq_true]
        exact ⟨r, hr, _, hs, by simp [SymN.isNT]⟩
      rw [h2] at this
      cases this

/-- **`augment_grammar` isolates the start symbol** (in parol's numbering of the result) -/
theorem augmentN_isolated {B B' : List RuleN} {st st' : Name} (h : augmentN B st = some (B', st')) :
    isolatedB (numberG B' st') = true := by
  unfold numberG
  apply isolatedB_mapTerms
  have hinj := indexIn_injOn (ntNames B' st')
  have hV : ∀ x ∈ namesN B', x ∈ ntNames B' st' := fun _ hx => mem_ntNames.2 (.inr hx)
  have hstV : st' ∈ ntNames B' st' := mem_ntNames.2 (.inl rfl)
  rcases augmentN_shape h with ⟨rfl, rfl, h1, h2⟩ | ⟨_, hn, rfl⟩
  · exact isolatedB_toGrammar_kept hinj hV hstV h1 h2
  · rw [toGrammar_augment]
    apply isolated_augment
    rw [← usesNT_iff_mem_nts]
    apply fresh_of_not_mem_ntNames hinj _ hstV hn
    intro x hx
    apply hV
    rcases mem_ntNames.1 hx with rfl | hx
    · exact namesN_cons_start.2 (.inr (.inl rfl))
    · exact namesN_cons_start.2 (.inr (.inr hx))

/-- the added production carries no terminal: the terminal numbering is that of the canonicalised
    grammar -/
theorem augmentN_termOrder {B B' : List RuleN} {st st' : Name} (h : augmentN B st = some (B', st')) :
    termOrder B' = termOrder B := by
  rcases augmentN_shape h with ⟨rfl, _, _⟩ | ⟨_, _, rfl⟩
  · rfl
  · simp [termOrder, termOccsN]

/-! ## inversion of `parolLRGrammar` -/

theorem fbFrontLR_inv {E : List EProd} {st : Name} {fuel : Nat} {B0 : List RuleN}
    (h : fbFrontLR E st fuel = .ok B0) :
    canon .lr fuel E = .ok B0 ∧ st ∈ variableNames E ∧ frontEndRejects E = false := by
  unfold fbFrontLR at h
  split at h
  · cases h
  · rename_i hrej
    simp only [Bool.or_eq_true, Bool.not_eq_true', not_or, Bool.not_eq_true,
      Bool.not_eq_false] at hrej
    obtain ⟨hrej, hany⟩ := hrej
    obtain ⟨p, hp, hl⟩ := List.any_eq_true.1 hany
    have hst : st ∈ variableNames E :=
      mem_variableNames.2 ⟨p, hp, .inl (beq_iff_eq.1 hl).symm⟩
    split at h
    · rename_i B hc
      injection h with h
      subst h
      exact ⟨hc, hst, hrej⟩
    · cases h
    · cases h
    · cases h

theorem fbTransformLR_inv {B0 B : List RuleN} {st st' : Name}
    (h : fbTransformLR B0 st = .ok (B, st')) :
    checkGrammar (numberG B0 st) false [] = .ok .passed ∧ augmentN B0 st = some (B, st') := by
  unfold fbTransformLR at h
  split at h
  · cases h
  · cases h
  · rename_i hc
    split at h
    · cases h
    · rename_i r ha
      injection h with h
      subst h
      exact ⟨hc, ha⟩
  · cases h

theorem parolLRNamed_inv {E : List EProd} {st st' : Name} {fuel : Nat} {B : List RuleN}
    (h : parolLRNamed E st fuel = .ok (B, st')) :
    ∃ B0, fbFrontLR E st fuel = .ok B0 ∧ fbTransformLR B0 st = .ok (B, st') := by
  unfold parolLRNamed at h
  split at h
  · cases h
  · rename_i B0 h0
    exact ⟨B0, h0, h⟩

theorem parolLRGrammar_inv {E : List EProd} {st : Name} {fuel : Nat} {G : Grammar}
    (h : parolLRGrammar E st fuel = .ok G) :
    ∃ B st', parolLRNamed E st fuel = .ok (B, st') ∧ G = numberG B st' := by
  unfold parolLRGrammar at h
  split at h
  · cases h
  · rename_i B st' hn
    injection h with h
    exact ⟨B, st', hn, h.symm⟩

end ParolModel
