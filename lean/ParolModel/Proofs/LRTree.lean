import ParolModel.Model.LRTree
import ParolModel.Proofs.LRSim
/-! The LR parser model builds a derivation tree and reports its post-order (C03, tree/action half).

* `DTree` basics: induction principle, list forms of the traversals.
* `dtree_yield`: a well-formed tree derives its frontier (`Yield`).
* `dtree_rightmost_ctx`: the post-order production list of a well-formed tree, read backwards, is a
  rightmost derivation of the frontier from the root symbol.
* `postNodes_events`: what `postNodes` (Model/TreeCheck.lean) reads off the event rendering of a tree;
  `treeCheck_dtree`: `treeCheck` accepts the rendering + post-order actions of every well-formed tree
  over the token sequence.
The invariant of `lrLoop` (`TreeInv`, `lrRun_tree`) is in Proofs/LRTreeRun.lean. -/
namespace ParolModel

namespace DTree

theorem induct {motive : DTree → Prop} (leaf : ∀ t, motive (.leaf t))
    (node : ∀ p lhs kids, (∀ k ∈ kids, motive k) → motive (.node p lhs kids)) (d : DTree) : motive d :=
  DTree.rec (motive_1 := motive) (motive_2 := fun l => ∀ k ∈ l, motive k)
    leaf (fun p lhs kids ih => node p lhs kids ih) (fun k hk => by cases hk)
    (fun hd tl h1 h2 k hk => by
      rcases List.mem_cons.1 hk with rfl | hk
      · exact h1
      · exact h2 k hk) d

@[simp] theorem eventsL_eq (l : List DTree) : eventsL l = l.flatMap events := by
  induction l with
  | nil => rfl
  | cons k ks ih => simp [eventsL, ih]

@[simp] theorem leavesL_eq (l : List DTree) : leavesL l = l.flatMap leaves := by
  induction l with
  | nil => rfl
  | cons k ks ih => simp [leavesL, ih]

@[simp] theorem nodesL_eq (l : List DTree) : nodesL l = l.flatMap nodes := by
  induction l with
  | nil => rfl
  | cons k ks ih => simp [nodesL, ih]

theorem events_node (p lhs : Nat) (kids : List DTree) :
    (node p lhs kids).events = .open_ (some lhs) :: kids.flatMap events ++ [.close] := by
  simp [events]

theorem leaves_node (p lhs : Nat) (kids : List DTree) : (node p lhs kids).leaves = kids.flatMap leaves := by
  simp [leaves]

theorem nodes_node (p lhs : Nat) (kids : List DTree) :
    (node p lhs kids).nodes = kids.flatMap nodes ++ [⟨p, lhs, kids⟩] := by
  simp [nodes]

@[simp] theorem nodes_leaf (t : MTok) : (leaf t).nodes = [] := rfl
@[simp] theorem leaves_leaf (t : MTok) : (leaf t).leaves = [t] := rfl
@[simp] theorem events_leaf (t : MTok) : (leaf t).events = [.tok t.id] := rfl

theorem itemSym_arg (d : DTree) : itemSym d.arg = d.sym := by cases d <;> rfl

theorem childOfItem_arg (d : DTree) : childOfItem d.arg = d.child := by cases d <;> rfl

theorem wf_leaf (gprods : List Rule) (t : MTok) : (leaf t).wf gprods = true := rfl

theorem wf_node {gprods : List Rule} {p lhs : Nat} {kids : List DTree} :
    (node p lhs kids).wf gprods = true ↔
      (∀ k ∈ kids, k.wf gprods = true) ∧ ProdApp.ok gprods ⟨p, lhs, kids⟩ = true := by
  simp only [wf, nodes_node, List.all_append, List.all_flatMap, Bool.and_eq_true, List.all_eq_true,
    List.mem_singleton, forall_eq]

/-- Non-counting subtrees are skipped-token leaves. -/
theorem of_not_sig {d : DTree} (h : d.sig = false) : ∃ t, d = leaf t ∧ t.skip = true := by
  cases d with
  | leaf t => exact ⟨t, rfl, by simpa [sig] using h⟩
  | node _ _ _ => cases h

end DTree

theorem ProdApp.ok_iff {gprods : List Rule} {n : ProdApp} :
    n.ok gprods = true ↔ ∃ r, gprods[n.prod]? = some r ∧ r.lhs = n.lhs ∧ n.syms = r.rhs := by
  unfold ProdApp.ok
  cases gprods[n.prod]? with
  | none => simp
  | some r => simp

-- ---------------------------------------------------------------------------------------------
-- a well-formed tree is a derivation of its frontier

theorem sigTypes_append (a b : List MTok) : sigTypes (a ++ b) = sigTypes a ++ sigTypes b := by
  simp [sigTypes, sigToks]

/-- Forest form: the counting subtrees, as symbols, derive the significant leaves. -/
theorem dforest_yield (G : Grammar) : ∀ (ks : List DTree),
    (∀ k ∈ ks, k.sig = true → Yield G [k.sym] (sigTypes k.leaves)) →
    Yield G ((ks.filter DTree.sig).map DTree.sym) (sigTypes (ks.flatMap DTree.leaves)) := by
  intro ks
  induction ks with
  | nil => intro _; exact .nil
  | cons k ks ih =>
    intro h
    have ih' := ih (fun k' hk' => h k' (List.mem_cons_of_mem _ hk'))
    rw [List.flatMap_cons, sigTypes_append]
    cases hs : k.sig with
    | true =>
      rw [List.filter_cons_of_pos hs, List.map_cons]
      exact Yield.append (a := [k.sym]) (h k List.mem_cons_self hs) ih'
    | false =>
      obtain ⟨t, rfl, ht⟩ := DTree.of_not_sig hs
      rw [List.filter_cons_of_neg (by simp [hs])]
      simpa [sigTypes, sigToks, ht] using ih'

/-- **A well-formed tree is a derivation tree**: its root symbol derives its frontier in the grammar
    of the productions. -/
theorem dtree_yield (start : Nat) (gprods : List Rule) (d : DTree) :
    d.wf gprods = true → d.sig = true → Yield ⟨start, gprods⟩ [d.sym] (sigTypes d.leaves) := by
  induction d using DTree.induct with
  | leaf t =>
    intro _ hs
    have : t.skip = false := by simpa [DTree.sig] using hs
    simpa [DTree.sym, sigTypes, sigToks, this] using Yield.term (G := ⟨start, gprods⟩) t.ty .nil
  | node p lhs kids ih =>
    intro hwf _
    obtain ⟨hk, hok⟩ := DTree.wf_node.1 hwf
    obtain ⟨r, hr, hl, hsyms⟩ := ProdApp.ok_iff.1 hok
    simp only [ProdApp.syms] at hsyms hl
    have hy := dforest_yield ⟨start, gprods⟩ kids (fun k hkm hs => ih k hkm (hk k hkm) hs)
    rw [hsyms] at hy
    have := Yield.nonterm (G := ⟨start, gprods⟩) r (ss := []) (List.mem_of_getElem? hr) hy .nil
    simpa [DTree.sym, DTree.leaves_node, hl] using this

-- ---------------------------------------------------------------------------------------------
-- post-order read backwards = rightmost derivation

/-- One rightmost derivation step with production `p`: `α A w ⇒ α rhs(p) w`, where `w` consists of
    terminals only. -/
inductive RmStep (gprods : List Rule) (p : Nat) : List Sym → List Sym → Prop
  | mk (r : Rule) (α : List Sym) (w : List Nat) : gprods[p]? = some r →
      RmStep gprods p (α ++ Sym.n r.lhs :: w.map Sym.t) (α ++ r.rhs ++ w.map Sym.t)

/-- A rightmost derivation that applies the productions `ps` in this order. -/
inductive RmDeriv (gprods : List Rule) : List Nat → List Sym → List Sym → Prop
  | nil (α : List Sym) : RmDeriv gprods [] α α
  | cons {p : Nat} {ps : List Nat} {α β γ : List Sym} :
      RmStep gprods p α β → RmDeriv gprods ps β γ → RmDeriv gprods (p :: ps) α γ

theorem RmDeriv.append {gprods : List Rule} {ps qs : List Nat} {α β γ : List Sym}
    (h1 : RmDeriv gprods ps α β) (h2 : RmDeriv gprods qs β γ) : RmDeriv gprods (ps ++ qs) α γ := by
  induction h1 with
  | nil _ => exact h2
  | cons hs _ ih => exact .cons hs (ih h2)

def prodSeq (ns : List ProdApp) : List Nat := ns.map (·.prod)

/-- Forest form of `dtree_rightmost_ctx`, in an arbitrary left context `α` and terminal right context `w`. -/
theorem dforest_rightmost (gprods : List Rule) : ∀ (ks : List DTree),
    (∀ k ∈ ks, k.sig = true → ∀ (α : List Sym) (w : List Nat),
      RmDeriv gprods (prodSeq k.nodes).reverse (α ++ k.sym :: w.map Sym.t)
        (α ++ (sigTypes k.leaves ++ w).map Sym.t)) →
    ∀ (α : List Sym) (w : List Nat),
      RmDeriv gprods (prodSeq (ks.flatMap DTree.nodes)).reverse
        (α ++ (ks.filter DTree.sig).map DTree.sym ++ w.map Sym.t)
        (α ++ (sigTypes (ks.flatMap DTree.leaves) ++ w).map Sym.t) := by
  intro ks
  induction ks with
  | nil => intro _ α w; simpa [prodSeq, sigTypes, sigToks] using RmDeriv.nil _
  | cons k ks ih =>
    intro h α w
    have ih' := ih (fun k' hk' => h k' (List.mem_cons_of_mem _ hk'))
    rw [List.flatMap_cons, List.flatMap_cons, sigTypes_append]
    have hseq : (prodSeq (k.nodes ++ ks.flatMap DTree.nodes)).reverse =
        (prodSeq (ks.flatMap DTree.nodes)).reverse ++ (prodSeq k.nodes).reverse := by
      simp [prodSeq]
    rw [hseq]
    cases hs : k.sig with
    | true =>
      rw [List.filter_cons_of_pos hs, List.map_cons]
      -- first the right siblings (rightmost!), then `k` with their frontier as right context
      have h1 := ih' (α ++ [k.sym]) w
      have h2 := h k List.mem_cons_self hs α (sigTypes (ks.flatMap DTree.leaves) ++ w)
      refine RmDeriv.append (β := α ++ k.sym :: (sigTypes (ks.flatMap DTree.leaves) ++ w).map Sym.t) ?_ ?_
      · simpa [List.append_assoc] using h1
      · simpa [List.append_assoc] using h2
    | false =>
      obtain ⟨t, rfl, ht⟩ := DTree.of_not_sig hs
      rw [List.filter_cons_of_neg (by simp [hs])]
      simpa [prodSeq, sigTypes, sigToks, ht] using ih' α w

/-- **Post-order = reverse rightmost derivation**: for a well-formed tree, applying the productions
    of its post-order list in REVERSE order is a rightmost derivation of the frontier from the root
    symbol (in any left context `α` and terminal right context `w`). -/
theorem dtree_rightmost_ctx (gprods : List Rule) (d : DTree) :
    d.wf gprods = true → d.sig = true → ∀ (α : List Sym) (w : List Nat),
      RmDeriv gprods (prodSeq d.nodes).reverse (α ++ d.sym :: w.map Sym.t)
        (α ++ (sigTypes d.leaves ++ w).map Sym.t) := by
  induction d using DTree.induct with
  | leaf t =>
    intro _ hs α w
    have : t.skip = false := by simpa [DTree.sig] using hs
    simpa [prodSeq, DTree.sym, sigTypes, sigToks, this] using RmDeriv.nil _
  | node p lhs kids ih =>
    intro hwf _ α w
    obtain ⟨hk, hok⟩ := DTree.wf_node.1 hwf
    obtain ⟨r, hr, hl, hsyms⟩ := ProdApp.ok_iff.1 hok
    simp only [ProdApp.syms] at hsyms hl
    have hf := dforest_rightmost gprods kids (fun k hkm hs => ih k hkm (hk k hkm) hs) α w
    rw [hsyms] at hf
    have hstep : RmStep gprods p (α ++ Sym.n lhs :: w.map Sym.t) (α ++ r.rhs ++ w.map Sym.t) := by
      rw [← hl]; exact RmStep.mk r α w hr
    have hseq : (prodSeq (DTree.node p lhs kids).nodes).reverse =
        p :: (prodSeq (kids.flatMap DTree.nodes)).reverse := by
      simp [prodSeq, DTree.nodes_node]
    rw [hseq, DTree.leaves_node]
    exact RmDeriv.cons hstep hf

-- ---------------------------------------------------------------------------------------------
-- `treeCheck` accepts the rendering of a well-formed tree

/-- The node entry `postNodes` produces for a production application. -/
def ProdApp.pnode (n : ProdApp) : Option Nat × List Child := (some n.lhs, n.kids.map DTree.child)

theorem postNodes_forest : ∀ (ks : List DTree),
    (∀ k ∈ ks, ∀ rest l ch stack out,
      postNodes (k.events ++ rest) ((l, ch) :: stack) out =
        postNodes rest ((l, k.child :: ch) :: stack) ((k.nodes.map ProdApp.pnode).reverse ++ out)) →
    ∀ rest l ch stack out,
      postNodes (ks.flatMap DTree.events ++ rest) ((l, ch) :: stack) out =
        postNodes rest ((l, (ks.map DTree.child).reverse ++ ch) :: stack)
          (((ks.flatMap DTree.nodes).map ProdApp.pnode).reverse ++ out) := by
  intro ks
  induction ks with
  | nil => intro _ rest l ch stack out; rfl
  | cons k ks ih =>
    intro h rest l ch stack out
    have ih' := ih (fun k' hk' => h k' (List.mem_cons_of_mem _ hk'))
    rw [List.flatMap_cons, List.append_assoc, h k List.mem_cons_self, ih']
    simp

/-- `postNodes` on the events of a tree: the tree becomes one child of the open node and its
    production applications are emitted in post-order. -/
theorem postNodes_events (d : DTree) : ∀ rest l ch stack out,
    postNodes (d.events ++ rest) ((l, ch) :: stack) out =
      postNodes rest ((l, d.child :: ch) :: stack) ((d.nodes.map ProdApp.pnode).reverse ++ out) := by
  induction d using DTree.induct with
  | leaf t => intro rest l ch stack out; simp [postNodes, DTree.child]
  | node p lhs kids ih =>
    intro rest l ch stack out
    rw [DTree.events_node]
    simp only [List.cons_append, List.append_assoc, postNodes]
    rw [postNodes_forest kids ih]
    simp [postNodes, DTree.nodes_node, ProdApp.pnode, DTree.child]

theorem flatMap_leaf_events (pre : List MTok) :
    (pre.map DTree.leaf).flatMap DTree.events = pre.map tokEvOf := by
  induction pre with
  | nil => rfl
  | cons t pre ih => simp only [List.map_cons, List.flatMap_cons, ih]; rfl

theorem flatMap_leaf_leaves (pre : List MTok) : (pre.map DTree.leaf).flatMap DTree.leaves = pre := by
  induction pre with
  | nil => rfl
  | cons t pre ih => simp only [List.map_cons, List.flatMap_cons, ih]; rfl

theorem flatMap_leaf_nodes (pre : List MTok) : (pre.map DTree.leaf).flatMap DTree.nodes = [] := by
  induction pre with
  | nil => rfl
  | cons t pre ih => simp only [List.map_cons, List.flatMap_cons, ih]; rfl

theorem leafIds_append (a b : List TreeEv) : leafIds (a ++ b) = leafIds a ++ leafIds b := by
  induction a with
  | nil => rfl
  | cons e a ih => cases e <;> simp [leafIds, ih]

theorem leafIds_events (d : DTree) : leafIds d.events = d.leaves.map (·.id) := by
  induction d using DTree.induct with
  | leaf t => rfl
  | node p lhs kids ih =>
    rw [DTree.events_node, DTree.leaves_node]
    simp only [leafIds, leafIds_append, List.append_nil]
    induction kids with
    | nil => rfl
    | cons k ks ihk =>
      simp only [List.flatMap_cons, leafIds_append, List.map_append]
      rw [ih k List.mem_cons_self, ihk (fun k' hk' => ih k' (List.mem_cons_of_mem _ hk'))]

theorem leafIds_forest (ks : List DTree) : leafIds (ks.flatMap DTree.events) = (ks.flatMap DTree.leaves).map (·.id) := by
  induction ks with
  | nil => rfl
  | cons k ks ih => simp only [List.flatMap_cons, leafIds_append, List.map_append, leafIds_events, ih]

/-- Every token leaf that is a direct child of some node is a leaf of the tree. -/
theorem DTree.kid_leaf_mem (d : DTree) : ∀ n ∈ d.nodes, ∀ t, DTree.leaf t ∈ n.kids → t ∈ d.leaves := by
  induction d using DTree.induct with
  | leaf t => intro n hn; cases hn
  | node p lhs kids ih =>
    intro n hn t ht
    rw [DTree.nodes_node] at hn
    rw [DTree.leaves_node, List.mem_flatMap]
    rcases List.mem_append.1 hn with hn | hn
    · obtain ⟨k, hk, hnk⟩ := List.mem_flatMap.1 hn
      exact ⟨k, hk, ih k hk n hnk t ht⟩
    · simp only [List.mem_singleton] at hn
      subst hn
      exact ⟨_, ht, by simp⟩

/-- The token with id = position lookup used by `treeCheck`. -/
def TokAt (toks : List MTok) (k : DTree) : Prop := ∀ t, k = DTree.leaf t → toks[t.id]? = some t

theorem sigChildren_kids (toks : List MTok) : ∀ (ks : List DTree), (∀ k ∈ ks, TokAt toks k) →
    sigChildren toks (ks.map DTree.child) = (ks.filter DTree.sig).map DTree.child := by
  intro ks
  induction ks with
  | nil => intro _; rfl
  | cons k ks ih =>
    intro h
    have ih' := ih (fun k' hk' => h k' (List.mem_cons_of_mem _ hk'))
    unfold sigChildren at ih' ⊢
    cases k with
    | leaf t =>
      have ht := h _ List.mem_cons_self t rfl
      cases hs : t.skip <;> simp [DTree.child, DTree.sig, ht, hs, ih']
    | node p lhs kids =>
      rw [List.filter_cons_of_pos (by rfl)]
      simp [DTree.child, ih']

theorem childrenMatch_kids (toks : List MTok) (ks : List DTree) (h : ∀ k ∈ ks, TokAt toks k) :
    childrenMatch toks (((ks.filter DTree.sig).map DTree.sym).map lrSymPT) (ks.map DTree.child) = true := by
  have hsc := sigChildren_kids toks ks h
  unfold childrenMatch
  unfold sigChildren at hsc
  simp only [hsc, List.length_map, beq_self_eq_true, Bool.true_and]
  have h' : ∀ k ∈ ks.filter DTree.sig, TokAt toks k := fun k hk => h k (List.mem_filter.1 hk).1
  generalize ks.filter DTree.sig = ks' at h'
  induction ks' with
  | nil => rfl
  | cons k ks' ih =>
    simp only [List.map_cons, List.zip_cons_cons, List.all_cons, Bool.and_eq_true]
    refine ⟨?_, ih (fun k' hk' => h' k' (List.mem_cons_of_mem _ hk'))⟩
    cases k with
    | leaf t =>
      have ht := h' _ List.mem_cons_self t rfl
      simp [DTree.child, DTree.sym, lrSymPT, ht]
    | node p lhs kids => simp [DTree.child, DTree.sym, lrSymPT]

/-- **The executable statement holds for every well-formed tree**: `treeCheck` (as instantiated by the
    handler `lr-tree-check`) accepts the post-order actions and the event rendering `root( skipped
    tokens, d )` of a well-formed tree `d` rooted at the start symbol, if the leaves are the tokens and
    token ids are positions. -/
theorem treeCheck_dtree (start : Nat) (gprods : List Rule) (toks pre : List MTok) (p : Nat) (kids : List DTree)
    (hid : toks.map (·.id) = List.range toks.length)
    (hwf : (DTree.node p start kids).wf gprods = true) (hpre : ∀ t ∈ pre, t.skip = true)
    (hleaves : pre ++ (DTree.node p start kids).leaves = toks) :
    lrTreeCheck start gprods toks (DTree.node p start kids).postActs
      (.open_ none :: pre.map tokEvOf ++ (DTree.node p start kids).events ++ [.close]) = none := by
  generalize hd : DTree.node p start kids = d at hwf hleaves ⊢
  have hat : ∀ t ∈ toks, toks[t.id]? = some t := by
    intro t ht
    obtain ⟨i, hi⟩ := List.mem_iff_getElem?.1 ht
    have h1 : (toks.map (·.id))[i]? = some t.id := by simp [hi]
    rw [hid] at h1
    have hlt : i < toks.length := by
      rcases Nat.lt_or_ge i toks.length with h | h
      · exact h
      · rw [List.getElem?_eq_none (by simpa using h)] at hi; cases hi
    rw [List.getElem?_range hlt] at h1
    injection h1 with h1
    rw [← h1]; exact hi
  -- the top-level forest: leading skipped tokens, then the tree
  let top : List DTree := pre.map DTree.leaf ++ [d]
  have htop_ev : pre.map tokEvOf ++ d.events = top.flatMap DTree.events := by
    simp [top, List.flatMap_append, flatMap_leaf_events]
  have htop_nodes : top.flatMap DTree.nodes = d.nodes := by
    simp [top, List.flatMap_append, flatMap_leaf_nodes]
  have htop_leaves : top.flatMap DTree.leaves = toks := by
    rw [← hleaves]; simp [top, List.flatMap_append, flatMap_leaf_leaves]
  have hpost : postNodes (.open_ none :: pre.map tokEvOf ++ d.events ++ [.close]) [] [] =
      some (d.nodes.map ProdApp.pnode ++ [(none, top.map DTree.child)]) := by
    rw [List.cons_append, List.cons_append, htop_ev]
    simp only [postNodes]
    rw [postNodes_forest top (fun k _ => postNodes_events k), htop_nodes]
    simp [postNodes]
  have hrootkids : ∀ k ∈ top, TokAt toks k := by
    intro k hk t hkt
    subst hkt
    apply hat
    rw [← htop_leaves]
    exact List.mem_flatMap.2 ⟨_, hk, by simp⟩
  have hroot : sigChildren toks (top.map DTree.child) = [Child.nt start] := by
    rw [sigChildren_kids toks top hrootkids]
    have : (pre.map DTree.leaf).filter DTree.sig = [] := by
      rw [List.filter_eq_nil_iff]
      intro k hk
      obtain ⟨t, ht, rfl⟩ := List.mem_map.1 hk
      simp [DTree.sig, hpre t ht]
    have h2 : top.filter DTree.sig = [d] := by
      simp only [top, List.filter_append, this, List.nil_append]
      rw [← hd]; rfl
    rw [h2, ← hd]; rfl
  have hleafIds : leafIds (.open_ none :: pre.map tokEvOf ++ d.events ++ [.close]) = List.range toks.length := by
    rw [List.cons_append, List.cons_append, htop_ev]
    simp only [leafIds, leafIds_append, List.append_nil]
    rw [leafIds_forest, htop_leaves, hid]
  have hnodeskids : ∀ n ∈ d.nodes, ∀ k ∈ n.kids, TokAt toks k := by
    intro n hn k hk t hkt
    subst hkt
    apply hat
    rw [← hleaves]
    exact List.mem_append_right _ (DTree.kid_leaf_mem d n hn t hk)
  have hzip : (d.nodes.map ProdApp.pnode).zip (actionsAsChildren d.postActs) =
      d.nodes.map (fun n => (n.pnode, (n.prod, n.action.2.map childOfItem))) := by
    simp only [actionsAsChildren, DTree.postActs, List.map_map]
    rw [List.zip_map']
    rfl
  unfold lrTreeCheck treeCheck
  simp only [hpost, List.reverse_append, List.reverse_cons, List.reverse_nil, List.nil_append,
    List.singleton_append, List.reverse_reverse, hroot, hleafIds]
  have hlen : (actionsAsChildren d.postActs).length = d.nodes.length := by
    simp [actionsAsChildren, DTree.postActs]
  simp only [bne_self_eq_false, Bool.false_eq_true, if_false, List.length_map, hlen, hzip]
  split
  · rename_i x0 p0 a0 hf
    exfalso
    have hmem := List.mem_of_find?_eq_some hf
    have hp := List.find?_some hf
    obtain ⟨n, hn, hx⟩ := List.mem_map.1 hmem
    have hok : n.ok gprods = true := by
      have := hwf
      simp only [DTree.wf, List.all_eq_true] at this
      exact this n hn
    obtain ⟨r, hr, hl, hsyms⟩ := ProdApp.ok_iff.1 hok
    have hk := hnodeskids n hn
    have h1 := childrenMatch_kids toks n.kids hk
    simp only [ProdApp.syms] at hsyms
    rw [hsyms] at h1
    have h2 := sigChildren_kids toks n.kids hk
    have h3 : (n.kids.filter DTree.sig).map DTree.child = (n.action.2).map childOfItem := by
      simp only [ProdApp.action, List.map_map]
      apply List.map_congr_left
      intro k _; exact (DTree.childOfItem_arg k).symm
    simp only [Prod.mk.injEq] at hx
    obtain ⟨hx1, hx2, hx3⟩ := hx
    subst hx1; subst hx2; subst hx3
    simp only [ProdApp.pnode, hr, Option.map_some, h1, h2, h3, hl, beq_self_eq_true, Bool.true_and,
      Bool.not_true, Bool.false_eq_true] at hp
  · rfl

end ParolModel
