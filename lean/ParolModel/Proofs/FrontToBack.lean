import ParolModel.Model.FrontToBack
import ParolModel.Proofs.PipelineMain
import ParolModel.Proofs.LeftFactor
import ParolModel.Proofs.Canon
/-! Lemmas for C01d (Props/C01d.lean): the numbering `numberG` of a plain grammar with names
(`ntNames` is a duplicate-free table of exactly the names, `indexIn` is injective on it and maps it
onto `0..n-1`, so the numbered grammar has dense non-terminal numbers; terminals are ≥ 5), the
language of a grammar with renamed terminals (`mapTerms`), the `is_push_production` flags do not
matter for the table predicates, and the inversion of `parolLL`. -/
namespace ParolModel
open KS

/-! ## sorting and de-duplication -/

theorem insertName_perm (x : Name) : ∀ l : List Name, (insertName x l).Perm (x :: l)
  | [] => .refl _
  | y :: ys => by
    unfold insertName
    split
    · exact ((insertName_perm x ys).cons y).trans (List.Perm.swap x y ys)
    · exact .refl _

theorem sortNames_perm : ∀ l : List Name, (sortNames l).Perm l
  | [] => .refl _
  | x :: l => by
    show (insertName x (sortNames l)).Perm (x :: l)
    exact (insertName_perm x _).trans ((sortNames_perm l).cons x)

theorem mem_fbDedup {α} [DecidableEq α] {x : α} : ∀ {l : List α}, x ∈ fbDedup l ↔ x ∈ l
  | [] => by simp [fbDedup]
  | a :: l => by
    simp only [fbDedup, List.mem_cons, List.mem_filter, mem_fbDedup (l := l), decide_eq_true_eq]
    by_cases h : x = a <;> simp [h]

theorem fbDedup_nodup {α} [DecidableEq α] : ∀ l : List α, (fbDedup l).Nodup
  | [] => by simp [fbDedup]
  | a :: l => by
    simp only [fbDedup, List.nodup_cons, List.mem_filter, decide_eq_true_eq]
    exact ⟨fun h => h.2 rfl, List.Pairwise.filter _ (fbDedup_nodup l)⟩

theorem mem_ntNames {B : List RuleN} {st x : Name} : x ∈ ntNames B st ↔ x = st ∨ x ∈ namesN B := by
  unfold ntNames
  rw [(sortNames_perm _).mem_iff, mem_fbDedup, List.mem_cons]

theorem ntNames_nodup (B : List RuleN) (st : Name) : (ntNames B st).Nodup :=
  (sortNames_perm _).nodup_iff.2 (fbDedup_nodup _)

/-! ## `indexIn` on a duplicate-free table -/

theorem indexIn_lt {tbl : List Name} {x : Name} (h : x ∈ tbl) : indexIn tbl x < tbl.length :=
  List.findIdx_lt_length_of_exists ⟨x, h, by simp⟩

theorem indexIn_lookup {tbl : List Name} {x : Name} (h : x ∈ tbl) :
    tbl[indexIn tbl x]? = some x := by
  have hl := indexIn_lt h
  rw [List.getElem?_eq_getElem hl]
  have := List.findIdx_getElem (w := hl)
  simp only [beq_iff_eq] at this
  exact congrArg some this

theorem indexIn_injOn (tbl : List Name) : InjOn (indexIn tbl) tbl := by
  intro a ha b hb e
  have h1 := indexIn_lookup ha
  have h2 := indexIn_lookup hb
  rw [e, h2] at h1
  injection h1 with h1
  exact h1.symm

theorem indexIn_cons_self (a : Name) (t : List Name) : indexIn (a :: t) a = 0 := by
  simp [indexIn, List.findIdx_cons]

theorem indexIn_cons_ne {a x : Name} (t : List Name) (h : a ≠ x) :
    indexIn (a :: t) x = indexIn t x + 1 := by
  have : (a == x) = false := by simpa using h
  simp [indexIn, List.findIdx_cons, this]

/-- on a duplicate-free table `indexIn` enumerates `0..n-1` -/
theorem map_indexIn_nodup : ∀ {tbl : List Name}, tbl.Nodup →
    tbl.map (indexIn tbl) = List.range tbl.length
  | [], _ => rfl
  | a :: t, h => by
    rw [List.nodup_cons] at h
    have ih := map_indexIn_nodup h.2
    rw [List.map_cons, indexIn_cons_self, List.length_cons, List.range_succ_eq_map, ← ih,
      List.map_map]
    congr 1
    apply List.map_congr_left
    intro x hx
    have : a ≠ x := fun e => h.1 (e ▸ hx)
    simp [indexIn_cons_ne t this]

/-! ## strictly sorted lists of naturals -/

theorem insertSortedNat_sorted (a : Nat) : ∀ {l : List Nat}, l.Pairwise (· < ·) →
    (insertSortedNat a l).Pairwise (· < ·)
  | [], _ => by simp [insertSortedNat]
  | b :: bs, h => by
    have h' := List.pairwise_cons.1 h
    simp only [insertSortedNat]
    split
    · refine List.pairwise_cons.2 ⟨?_, h⟩
      intro x hx
      rcases List.mem_cons.1 hx with rfl | hx
      · assumption
      · have := h'.1 x hx; omega
    · split
      · exact h
      · refine List.pairwise_cons.2 ⟨?_, insertSortedNat_sorted a h'.2⟩
        intro x hx
        rcases mem_insertSortedNat.1 hx with rfl | hx
        · omega
        · exact h'.1 x hx

theorem foldr_insertSortedNat_sorted : ∀ l : List Nat,
    (l.foldr insertSortedNat []).Pairwise (· < ·)
  | [] => by simp
  | a :: l => insertSortedNat_sorted a (foldr_insertSortedNat_sorted l)

theorem sortedNat_ext : ∀ {l1 l2 : List Nat}, l1.Pairwise (· < ·) → l2.Pairwise (· < ·) →
    (∀ a, a ∈ l1 ↔ a ∈ l2) → l1 = l2
  | [], [], _, _, _ => rfl
  | [], b :: l2, _, _, h => by simpa using (h b).2 List.mem_cons_self
  | a :: l1, [], _, _, h => by simpa using (h a).1 List.mem_cons_self
  | a :: l1, b :: l2, h1, h2, h => by
    have h1' := List.pairwise_cons.1 h1
    have h2' := List.pairwise_cons.1 h2
    have hab : a = b := by
      rcases List.mem_cons.1 ((h a).1 List.mem_cons_self) with e | ha
      · exact e
      · rcases List.mem_cons.1 ((h b).2 List.mem_cons_self) with e | hb
        · exact e.symm
        · have := h2'.1 a ha
          have := h1'.1 b hb
          omega
    subst hab
    congr 1
    apply sortedNat_ext h1'.2 h2'.2
    intro x
    constructor
    · intro hx
      rcases List.mem_cons.1 ((h x).1 (List.mem_cons_of_mem _ hx)) with e | hx'
      · have := h1'.1 x hx; omega
      · exact hx'
    · intro hx
      rcases List.mem_cons.1 ((h x).2 (List.mem_cons_of_mem _ hx)) with e | hx'
      · have := h2'.1 x hx; omega
      · exact hx'

/-! ## terminal renaming -/

theorem yield_mapTerms (τ : Nat → Nat) {G : Grammar} {ss : List Sym} {w : List Nat}
    (h : Yield G ss w) : Yield (mapTerms τ G) (ss.map (Sym.mapT τ)) (w.map τ) := by
  induction h with
  | nil => exact .nil
  | term a _ ih => exact .term (τ a) ih
  | nonterm p hp _ _ ih1 ih2 =>
    rw [List.map_append]
    exact Yield.nonterm (G := mapTerms τ G) ⟨p.lhs, p.rhs.map (Sym.mapT τ)⟩
      (List.mem_map.2 ⟨p, hp, rfl⟩) ih1 ih2

theorem yield_of_mapTerms (τ : Nat → Nat) {G : Grammar} {ss' : List Sym} {u : List Nat}
    (h : Yield (mapTerms τ G) ss' u) :
    ∀ ss : List Sym, ss' = ss.map (Sym.mapT τ) → ∃ w, u = w.map τ ∧ Yield G ss w := by
  induction h with
  | nil =>
    intro ss e
    cases ss with
    | nil => exact ⟨[], rfl, .nil⟩
    | cons s ss => simp at e
  | term a _ ih =>
    intro ss e
    cases ss with
    | nil => simp at e
    | cons s ss =>
      simp only [List.map_cons, List.cons.injEq] at e
      cases s with
      | n A => simp [Sym.mapT] at e
      | t b =>
        simp only [Sym.mapT, Sym.t.injEq] at e
        obtain ⟨rfl, e2⟩ := e
        obtain ⟨w, rfl, hw⟩ := ih ss e2
        exact ⟨b :: w, rfl, .term b hw⟩
  | nonterm p hp _ _ ih1 ih2 =>
    intro ss e
    cases ss with
    | nil => simp at e
    | cons s ss =>
      simp only [List.map_cons, List.cons.injEq] at e
      cases s with
      | t b => simp [Sym.mapT] at e
      | n A =>
        simp only [Sym.mapT, Sym.n.injEq] at e
        obtain ⟨e1, e2⟩ := e
        obtain ⟨q, hq, rfl⟩ := List.mem_map.1 hp
        simp only at e1
        subst e1
        obtain ⟨w1, rfl, hw1⟩ := ih1 q.rhs rfl
        obtain ⟨w2, rfl, hw2⟩ := ih2 ss e2
        exact ⟨w1 ++ w2, by simp, .nonterm q hq hw1 hw2⟩

/-- **Renaming the terminals renames the sentences**, for any `τ` (injective or not). -/
theorem lang_mapTerms (τ : Nat → Nat) (G : Grammar) (u : List Nat) :
    Lang (mapTerms τ G) u ↔ ∃ w, u = w.map τ ∧ Lang G w := by
  constructor
  · intro h
    exact yield_of_mapTerms τ h [.n G.start] rfl
  · rintro ⟨w, rfl, h⟩
    exact yield_mapTerms τ h

/-- every token of a derived string stands in the symbol string or on some right-hand side -/
theorem yield_terms {G : Grammar} {ss : List Sym} {w : List Nat} (h : Yield G ss w) :
    ∀ a ∈ w, Sym.t a ∈ ss ∨ ∃ p ∈ G.prods, Sym.t a ∈ p.rhs := by
  induction h with
  | nil => simp
  | term b _ ih =>
    intro a ha
    rcases List.mem_cons.1 ha with rfl | ha
    · exact .inl List.mem_cons_self
    · rcases ih a ha with h | h
      · exact .inl (List.mem_cons_of_mem _ h)
      · exact .inr h
  | nonterm p hp _ _ ih1 ih2 =>
    intro a ha
    rcases List.mem_append.1 ha with ha | ha
    · rcases ih1 a ha with h | h
      · exact .inr ⟨p, hp, h⟩
      · exact .inr h
    · rcases ih2 a ha with h | h
      · exact .inl (List.mem_cons_of_mem _ h)
      · exact .inr h

theorem idxOf_inj_of_mem : ∀ (tt : List Nat) {a b : Nat}, b ∈ tt → tt.idxOf a = tt.idxOf b → a = b
  | [], _, _, hb, _ => by simp at hb
  | c :: tt, a, b, hb, e => by
    rw [List.idxOf_cons, List.idxOf_cons] at e
    by_cases h1 : c = a
    · subst h1
      by_cases h2 : c = b
      · exact h2
      · have h2' : (c == b) = false := by simpa using h2
        rw [h2'] at e
        simp at e
    · have h1' : (c == a) = false := by simpa using h1
      rw [h1'] at e
      by_cases h2 : c = b
      · subst h2
        simp at e
      · have h2' : (c == b) = false := by simpa using h2
        rw [h2'] at e
        simp only [cond_false, Nat.add_right_cancel_iff] at e
        rcases List.mem_cons.1 hb with rfl | hb
        · exact absurd rfl h2
        · exact idxOf_inj_of_mem tt hb e

/-- parol's terminal numbering is injective as soon as one side is a terminal of the grammar -/
theorem termNum_inj {tt : List Nat} {a b : Nat} (hb : b ∈ tt) (e : termNum tt a = termNum tt b) :
    a = b := idxOf_inj_of_mem tt hb (by unfold termNum at e; omega)

theorem map_termNum_inj {tt : List Nat} : ∀ {w w' : List Nat}, (∀ b ∈ w', b ∈ tt) →
    w.map (termNum tt) = w'.map (termNum tt) → w = w'
  | [], [], _, _ => rfl
  | [], _ :: _, _, e => by simp at e
  | _ :: _, [], _, e => by simp at e
  | a :: w, b :: w', h, e => by
    simp only [List.map_cons, List.cons.injEq] at e
    rw [termNum_inj (h b List.mem_cons_self) e.1,
      map_termNum_inj (fun x hx => h x (List.mem_cons_of_mem _ hx)) e.2]

/-! ## the numbered grammar -/

theorem mem_termOrder {B : List RuleN} {a : Nat} :
    a ∈ termOrder B ↔ ∃ r ∈ B, SymN.t a ∈ r.rhs := by
  unfold termOrder termOccsN
  rw [mem_fbDedup, List.mem_flatMap]
  constructor
  · rintro ⟨r, hr, ha⟩
    obtain ⟨s, hs, hsa⟩ := List.mem_filterMap.1 ha
    cases s with
    | t b => simp at hsa; subst hsa; exact ⟨r, hr, hs⟩
    | n A sa => simp at hsa
  · rintro ⟨r, hr, ha⟩
    exact ⟨r, hr, List.mem_filterMap.2 ⟨_, ha, rfl⟩⟩

theorem toGrammar_terms {ν : Name → Nat} {st : Name} {B : List RuleN} {a : Nat}
    (h : ∃ p ∈ (toGrammar ν st B).prods, Sym.t a ∈ p.rhs) : a ∈ termOrder B := by
  obtain ⟨p, hp, ha⟩ := h
  obtain ⟨r, hr, rfl⟩ := List.mem_map.1 hp
  obtain ⟨s, hs, hsa⟩ := List.mem_map.1 ha
  cases s with
  | t b =>
    simp only [SymN.toSym, Sym.t.injEq] at hsa
    subst hsa
    exact mem_termOrder.2 ⟨r, hr, hs⟩
  | n A sa => simp [SymN.toSym] at hsa

/-- **numbering preserves the language up to the terminal renaming** (no hypothesis) -/
theorem lang_numberG (B : List RuleN) (st : Name) (u : List Nat) :
    Lang (numberG B st) u ↔
      ∃ w, u = w.map (termNum (termOrder B)) ∧ Lang (toGrammar (indexIn (ntNames B st)) st B) w :=
  lang_mapTerms _ _ u

/-- … in the form `Lang (number B) (w.map idx) ↔ Lang B w`, for every `w` (terminals foreign to
    the grammar included: they all get the number `5 + #terminals`, which no production carries). -/
theorem lang_numberG_map (B : List RuleN) (st : Name) (w : List Nat) :
    Lang (numberG B st) (w.map (termNum (termOrder B))) ↔
      Lang (toGrammar (indexIn (ntNames B st)) st B) w := by
  rw [lang_numberG]
  constructor
  · rintro ⟨w', e, h⟩
    have hw' : ∀ b ∈ w', b ∈ termOrder B := by
      intro b hb
      rcases yield_terms h b hb with h1 | h1
      · simp at h1
      · exact toGrammar_terms h1
    rw [map_termNum_inj hw' e]
    exact h
  · intro h
    exact ⟨w, rfl, h⟩

theorem noEoiB_numberG (B : List RuleN) (st : Name) : noEoiB (numberG B st) = true := by
  simp only [noEoiB, List.all_eq_true, Bool.not_eq_true', List.contains_eq_mem,
    decide_eq_false_iff_not]
  intro p hp h0
  obtain ⟨q, _, rfl⟩ := List.mem_map.1 hp
  obtain ⟨s, _, hs⟩ := List.mem_map.1 h0
  cases s with
  | t a => simp [Sym.mapT, termNum] at hs
  | n A => simp [Sym.mapT] at hs

theorem symNts_map_mapT (τ : Nat → Nat) (ss : List Sym) : symNts (ss.map (Sym.mapT τ)) = symNts ss := by
  induction ss with
  | nil => rfl
  | cons s ss ih => cases s <;> simp [symNts, Sym.mapT] at ih ⊢ <;> exact ih

theorem ntsOf_mapTerms (τ : Nat → Nat) (G : Grammar) : ntsOf (mapTerms τ G) = ntsOf G := by
  simp only [ntsOf, mapTerms, List.flatMap_map, symNts_map_mapT]

/-- the non-terminal numbers of a grammar numbered through its own name table are the images of
    the table -/
theorem mem_ntsOf_toGrammar {B : List RuleN} {st : Name} {ν : Name → Nat} {a : Nat} :
    a ∈ ntsOf (toGrammar ν st B) ↔ ∃ x ∈ ntNames B st, a = ν x := by
  rw [mem_ntsOf]
  constructor
  · rintro (h | ⟨p, hp, h⟩)
    · exact ⟨st, mem_ntNames.2 (.inl rfl), h⟩
    · obtain ⟨r, hr, rfl⟩ := List.mem_map.1 hp
      rcases h with h | h
      · exact ⟨r.lhs, mem_ntNames.2 (.inr (namesN_spec hr).1), h⟩
      · obtain ⟨s, hs, hsa⟩ := List.mem_map.1 h
        cases s with
        | t b => simp [SymN.toSym] at hsa
        | n A sa =>
          simp only [SymN.toSym, Sym.n.injEq] at hsa
          refine ⟨A, mem_ntNames.2 (.inr ((namesN_spec hr).2 A ?_)), hsa.symm⟩
          exact List.mem_flatMap.2 ⟨_, hs, by simp [SymN.names]⟩
  · rintro ⟨x, hx, rfl⟩
    rcases mem_ntNames.1 hx with rfl | hx
    · exact .inl rfl
    · obtain ⟨r, hr, h⟩ := mem_namesN.1 hx
      refine .inr ⟨r.toRule ν, List.mem_map.2 ⟨r, hr, rfl⟩, ?_⟩
      rcases h with rfl | h
      · exact .inl rfl
      · right
        obtain ⟨s, hs, hxs⟩ := List.mem_flatMap.1 h
        cases s with
        | t b => simp [SymN.names] at hxs
        | n A sa =>
          simp only [SymN.names, List.mem_singleton] at hxs
          subst hxs
          exact List.mem_map.2 ⟨_, hs, rfl⟩

/-- **parol's alphabetical numbering is dense**: the non-terminals of the numbered grammar are
    exactly `0..n-1`. -/
theorem ntsOf_numberG (B : List RuleN) (st : Name) :
    ntsOf (numberG B st) = List.range (ntNames B st).length := by
  unfold numberG
  rw [ntsOf_mapTerms]
  apply sortedNat_ext (l1 := ntsOf _) (foldr_insertSortedNat_sorted _) List.pairwise_lt_range
  intro a
  rw [mem_ntsOf_toGrammar, ← map_indexIn_nodup (ntNames_nodup B st), List.mem_map]
  constructor
  · rintro ⟨x, hx, rfl⟩; exact ⟨x, hx, rfl⟩
  · rintro ⟨x, hx, rfl⟩; exact ⟨x, hx, rfl⟩

theorem ntsDenseB_numberG (B : List RuleN) (st : Name) : ntsDenseB (numberG B st) = true := by
  simp [ntsDenseB, ntsOf_numberG]

/-! ## `is_push_production` does not matter for the table predicates -/

theorem applyPush_map_ruleOf : ∀ (ps : List LLProd) (bs : List Bool),
    (applyPush ps bs).map ruleOf = ps.map ruleOf
  | [], _ => by cases ‹List Bool› <;> rfl
  | _ :: _, [] => rfl
  | p :: ps, b :: bs => by
    simp only [applyPush, List.map_cons, applyPush_map_ruleOf ps bs]
    rfl

theorem applyPush_getElem? : ∀ (ps : List LLProd) (bs : List Bool) (j : Nat) (q : LLProd),
    (applyPush ps bs)[j]? = some q → ∃ p, ps[j]? = some p ∧ q.lhs = p.lhs ∧ q.rhsRev = p.rhsRev
  | [], bs, j, q, h => by cases bs <;> simp [applyPush] at h
  | p :: ps, [], j, q, h => ⟨q, h, rfl, rfl⟩
  | p :: ps, b :: bs, 0, q, h => by
    simp only [applyPush, List.getElem?_cons_zero, Option.some.injEq] at h
    subst h
    exact ⟨p, rfl, rfl, rfl⟩
  | p :: ps, b :: bs, j+1, q, h => by
    simp only [applyPush, List.getElem?_cons_succ] at h
    simpa using applyPush_getElem? ps bs j q h

theorem applyPush_getElem?_rev : ∀ (ps : List LLProd) (bs : List Bool) (j : Nat) (p : LLProd),
    ps[j]? = some p → ∃ q, (applyPush ps bs)[j]? = some q ∧ q.lhs = p.lhs ∧ q.rhsRev = p.rhsRev
  | [], bs, j, p, h => by simp at h
  | p :: ps, [], j, q, h => ⟨q, h, rfl, rfl⟩
  | p :: ps, b :: bs, 0, q, h => by
    simp only [List.getElem?_cons_zero, Option.some.injEq] at h
    subst h
    exact ⟨_, rfl, rfl, rfl⟩
  | p :: ps, b :: bs, j+1, q, h => by
    simp only [List.getElem?_cons_succ] at h
    simpa [applyPush] using applyPush_getElem?_rev ps bs j q h

theorem applyPush_mem {ps : List LLProd} {bs : List Bool} {q : LLProd} (h : q ∈ applyPush ps bs) :
    ∃ p ∈ ps, q.lhs = p.lhs ∧ q.rhsRev = p.rhsRev := by
  obtain ⟨j, hj⟩ := List.getElem?_of_mem h
  obtain ⟨p, hp, h1, h2⟩ := applyPush_getElem? ps bs j q hj
  exact ⟨p, List.mem_of_getElem? hp, h1, h2⟩

theorem ruleOf_congr {p q : LLProd} (h1 : q.lhs = p.lhs) (h2 : q.rhsRev = p.rhsRev) :
    ruleOf q = ruleOf p := by
  simp [ruleOf, h1, h2]

theorem gOf_withPush (T : LLTables) (B : List RuleN) : gOf (withPush T B) = gOf T := by
  simp [gOf, withPush, applyPush_map_ruleOf]

theorem setsExact_withPush {T : LLTables} (B : List RuleN) (h : SetsExact T) :
    SetsExact (withPush T B) := by
  refine ⟨?_, ?_, ?_⟩
  · intro pr hpr x hx
    obtain ⟨p, hp, _, h2⟩ := applyPush_mem hpr
    exact h.noMarker p hp x (h2 ▸ hx)
  · intro pr hpr
    obtain ⟨p, hp, _, h2⟩ := applyPush_mem hpr
    rw [h2]
    exact h.noEoi p hp
  · intro pr hpr
    obtain ⟨p, hp, h1, _⟩ := applyPush_mem hpr
    obtain ⟨d, hd, hs, hacc⟩ := h.auto p hp
    rw [h1]
    refine ⟨d, hd, hs, ?_⟩
    intro t q
    rw [hacc t q, gOf_withPush]
    constructor
    · rintro ⟨j, pq, rfl, hj, hl, hla⟩
      obtain ⟨pq', hj', h1', h2'⟩ := applyPush_getElem?_rev T.prods (pushFlags B) j pq hj
      exact ⟨j, pq', rfl, hj', h1'.trans hl, by rw [ruleOf_congr h1' h2']; exact hla⟩
    · rintro ⟨j, pq', rfl, hj', hl, hla⟩
      obtain ⟨pq, hj, h1', h2'⟩ := applyPush_getElem? T.prods (pushFlags B) j pq' hj'
      exact ⟨j, pq, rfl, hj, h1'.symm.trans hl, by rw [← ruleOf_congr h1' h2']; exact hla⟩

theorem tablesSound_withPush {T : LLTables} (B : List RuleN) (h : TablesSound T) :
    TablesSound (withPush T B) := by
  constructor
  · intro a d hd p hp hgt pr hpr
    obtain ⟨pr0, hpr0, h1, _⟩ := applyPush_getElem? T.prods (pushFlags B) _ pr hpr
    rw [h1]
    exact h.lhs_ok a d hd p hp hgt pr0 hpr0
  · intro pr hpr
    obtain ⟨p, hp, _, h2⟩ := applyPush_mem hpr
    rw [h2]
    exact h.no_eoi p hp

/-! ## inversion of `parolLL` -/

theorem fbFront_inv {E : List EProd} {st : Name} {fuel : Nat} {B0 : List RuleN}
    (h : fbFront E st fuel = .ok B0) :
    canon .ll fuel E = .ok B0 ∧ st ∈ variableNames E ∧ frontEndRejects E = false := by
  unfold fbFront at h
  split at h
  · cases h
  · rename_i hrej
    simp only [Bool.or_eq_true, Bool.not_eq_true', not_or, Bool.not_eq_true,
      Bool.not_eq_false] at hrej
    obtain ⟨hrej, hany⟩ := hrej
    obtain ⟨p, hp, hl⟩ := List.any_eq_true.1 hany
    have hst : st ∈ variableNames E :=
      mem_variableNames.2 ⟨p, hp, .inl (beq_iff_eq.1 hl).symm⟩
    split at h
    · rename_i B hc
      injection h with h
      subst h
      exact ⟨hc, hst, hrej⟩
    · cases h
    · cases h
    · cases h

theorem fbTransform_inv {B0 B1 : List RuleN} {st : Name} {fuel : Nat}
    (h : fbTransform B0 st fuel = .ok B1) :
    checkGrammar (numberG B0 st) true [] = .ok .passed ∧ leftFactor id fuel B0 = some B1 := by
  unfold fbTransform at h
  split at h
  · cases h
  · cases h
  · rename_i hc
    split at h
    · cases h
    · rename_i B hl
      injection h with h
      subst h
      exact ⟨hc, hl⟩
  · cases h

theorem fbGenerate_inv {B1 : List RuleN} {st : Name} {K fuel : Nat} {T : LLTables}
    (h : fbGenerate B1 st K fuel = .ok T) :
    ∃ T0, genTables (numberG B1 st) K fuel = .ok T0 ∧ T = withPush T0 B1 := by
  unfold fbGenerate at h
  split at h
  · rename_i T0 hg
    injection h with h
    exact ⟨T0, hg, h.symm⟩
  · cases h

theorem parolLL_inv {E : List EProd} {st : Name} {K fuel : Nat} {T : LLTables}
    (h : parolLL E st K fuel = .ok T) :
    ∃ B0 B1 T0, fbFront E st fuel = .ok B0 ∧ fbTransform B0 st fuel = .ok B1 ∧
      parolLLGrammar E st fuel = .ok B1 ∧
      genTables (numberG B1 st) K fuel = .ok T0 ∧ T = withPush T0 B1 := by
  unfold parolLL at h
  split at h
  · cases h
  · rename_i B0 h0
    split at h
    · cases h
    · rename_i B1 h1
      obtain ⟨T0, hg, hT⟩ := fbGenerate_inv h
      exact ⟨B0, B1, T0, h0, h1, by simp [parolLLGrammar, h0, h1], hg, hT⟩

end ParolModel
