import ParolModel.Proofs.LaOrder2
/-! Proofs (C07/C24), part 5c: the two merging phases of `minimize` compute the quotient by a fixed
equivalence (accepting states of one production; least equivalence closed under "equal neighbour
lists"), whatever the iteration order; hence the result of `minimize` is unique. -/
namespace ParolModel

theorem rep_unique {a0 a1 a2 : Adj} {R : Nat → Nat → Prop} {rep1 rep2 : Nat → Nat}
    (q1 : QS a0 R rep1 a1) (q2 : QS a0 R rep2 a2)
    (c1 : ∀ s t, R s t → rep1 s = rep1 t) (c2 : ∀ s t, R s t → rep2 s = rep2 t) : a1 = a2 := by
  have hrep : rep1 = rep2 := by
    funext s
    have h1 : rep2 s = rep2 (rep1 s) := c2 _ _ (q1.sound s)
    have h2 : rep1 s = rep1 (rep2 s) := c1 _ _ (q2.sound s)
    have l1 := q2.q.le (rep1 s)
    have l2 := q1.q.le (rep2 s)
    omega
  subst hrep
  have hl := q1.q.list.trans q2.q.list.symm
  have hp := q1.q.prods.trans q2.q.prods.symm
  have hk := q1.q.k.trans q2.q.k.symm
  cases a1; cases a2
  simp only at hl hp hk
  subst hl; subst hp; subst hk
  rfl

theorem quotList_sorted (a0 : Adj) (rep : Nat → Nat) : ∀ x ∈ quotList a0 rep, sortPairs x.2 = x.2 := by
  intro x hx
  unfold quotList at hx
  obtain ⟨y, _, rfl⟩ := List.mem_map.1 hx
  exact sortPairs_idem _

/-! ### Phase 1 -/

/-- Accepting states of the same production. -/
inductive EqF (a : Adj) : Nat → Nat → Prop
  | refl (s : Nat) : EqF a s s
  | symm {s t : Nat} : EqF a s t → EqF a t s
  | trans {s t u : Nat} : EqF a s t → EqF a t u → EqF a s u
  | rule {s t : Nat} {p : Int} : bmGet a.prods s = some p → bmGet a.prods t = some p → p ≠ -1 → EqF a s t

theorem EqF.equiv (a : Adj) : Equivalence (EqF a) := ⟨EqF.refl, EqF.symm, EqF.trans⟩

theorem groupsFold_qs {a0 : Adj} (hwf0 : AdjWF a0) : ∀ (gs : List (Int × List (Nat × Int))) {a a' : Adj} {rep : Nat → Nat},
    QS a0 (EqF a0) rep a →
    gs.foldlM (fun (a : Adj) (g : Int × List (Nat × Int)) => a.combineStates (g.2.map (·.1))) a = some a' →
    (∀ g ∈ gs, g.2.Sublist a0.prods ∧ ∀ x ∈ g.2, x.2 = g.1 ∧ x.2 ≠ -1) →
    ∃ rep', QS a0 (EqF a0) rep' a' ∧ (∀ s t, rep s = rep t → rep' s = rep' t) ∧
      (∀ g ∈ gs, ∀ x ∈ g.2, ∀ y ∈ g.2, rep' x.1 = rep' y.1) := by
  intro gs
  induction gs with
  | nil =>
    intro a a' rep qs h _
    simp only [List.foldlM_nil] at h
    injection h with h
    subst h
    exact ⟨rep, qs, fun _ _ e => e, fun g hg => by cases hg⟩
  | cons g gs ih =>
    intro a a' rep qs h hg
    rw [foldlM_option_cons] at h
    cases h1 : a.combineStates (g.2.map (·.1)) with
    | none => simp [h1] at h
    | some a1 =>
      simp only [h1, Option.bind_some] at h
      obtain ⟨hsub, hkey⟩ := hg g List.mem_cons_self
      have hstatic : ∀ m ∈ g.2.map (·.1), bmGet a0.prods m = some g.1 := by
        intro m hm
        obtain ⟨x, hx, rfl⟩ := List.mem_map.1 hm
        rw [← (hkey x hx).1]
        exact bmGet_of_mem hwf0.ksp (by cases x; exact hsub.subset hx)
      have hg1 : g.2 ≠ [] → g.1 ≠ -1 := by
        intro hne
        obtain ⟨x, hx⟩ := List.exists_mem_of_ne_nil _ hne
        rw [← (hkey x hx).1]; exact (hkey x hx).2
      have hgne : ∀ m ∈ g.2.map (·.1), g.1 ≠ -1 := by
        intro m hm
        apply hg1
        intro he
        rw [he] at hm
        cases hm
      have hleaf : ∀ (rep : Nat → Nat) (a : Adj), QS a0 (EqF a0) rep a → ∀ m ∈ g.2.map (·.1), ∀ lm, bmGet a.list m = some lm → lm = [] := by
        intro rep a qs m hm lm e
        have hfix : rep m = m := present_fixed qs.q (by simp [e])
        have hp : bmGet a.prods m = some g.1 := by
          rw [qs.q.get_prods, hfix]
          simp only [if_true]
          exact hstatic m hm
        have := qs.wf.leaves m g.1 hp (hgne m hm)
        rw [e] at this
        injection this
      obtain ⟨rep1, qs1, hmono1, hall1⟩ := combineStates_qs (EqF.equiv a0) qs h1
        (fun m hm m' hm' lm lk e1 e2 => by rw [hleaf rep a qs m hm lm e1, hleaf rep a qs m' hm' lk e2])
        (by
          have : KS g.2 := hwf0.ksp.sublist hsub
          simpa [KS] using this)
        (fun m hm m' hm' _ _ _ _ _ _ => EqF.rule (hstatic m hm) (hstatic m' hm') (hgne m hm))
      obtain ⟨rep2, qs2, hmono2, hall2⟩ := ih qs1 h (fun g' hg' => hg g' (List.mem_cons_of_mem _ hg'))
      refine ⟨rep2, qs2, fun s t e => hmono2 s t (hmono1 s t e), ?_⟩
      intro g' hg' x hx y hy
      rcases List.mem_cons.1 hg' with rfl | hg'
      · exact hmono2 _ _ (hall1 x.1 (List.mem_map_of_mem hx) y.1 (List.mem_map_of_mem hy))
      · exact hall2 g' hg' x hx y hy

theorem mergeFinals_qs {a a' : Adj} {ch ch' : List Nat} (hwf : AdjWF a) (hs : ListsSorted a)
    (h : a.mergeFinals ch = some (a', ch')) :
    ∃ rep, QS a (EqF a) rep a' ∧ ∀ s t, EqF a s t → rep s = rep t := by
  unfold Adj.mergeFinals at h
  simp only [Option.map_eq_some_iff, Prod.mk.injEq] at h
  obtain ⟨a1, hfold, rfl, _⟩ := h
  have q0 : QS a (EqF a) id a := ⟨quot_id hs, hwf, fun s => EqF.refl s⟩
  have hperm := permute_perm (groupBy (fun x : Nat × Int => x.2) (a.prods.filter (fun x => x.2 != -1))).length ch _ rfl
  obtain ⟨rep, qs, _, hall⟩ := groupsFold_qs hwf _ q0 hfold (by
    intro g hg
    have hg' := hperm.mem_iff.1 hg
    obtain ⟨hsub, hkey⟩ := groupBy_mem (fun x : Nat × Int => x.2) _ hg'
    refine ⟨hsub.trans List.filter_sublist, ?_⟩
    intro x hx
    refine ⟨hkey x hx, ?_⟩
    have := (List.mem_filter.1 (hsub.subset hx)).2
    simpa using this)
  refine ⟨rep, qs, ?_⟩
  intro s t hst
  induction hst with
  | refl s => rfl
  | symm _ ih => exact ih.symm
  | trans _ _ ih1 ih2 => exact ih1.trans ih2
  | @rule s t p h1 h2 hp =>
    have m1 : (s, p) ∈ a.prods.filter (fun x => x.2 != -1) := List.mem_filter.2 ⟨bmGet_some_mem h1, by simpa using hp⟩
    have m2 : (t, p) ∈ a.prods.filter (fun x => x.2 != -1) := List.mem_filter.2 ⟨bmGet_some_mem h2, by simpa using hp⟩
    obtain ⟨g, hg, hx, hy⟩ := groupBy_same (fun x : Nat × Int => x.2) _ m1 m2 rfl
    exact hall g (hperm.mem_iff.2 hg) (s, p) hx (t, p) hy

/-! ### Phase 2 -/

/-- The least equivalence in which non-accepting states with neighbour lists that are equal up to
    the equivalence are related. -/
inductive EqR (a : Adj) : Nat → Nat → Prop
  | refl (s : Nat) : EqR a s s
  | symm {s t : Nat} : EqR a s t → EqR a t s
  | trans {s t u : Nat} : EqR a s t → EqR a t u → EqR a s u
  | rule {s t : Nat} {nbs nbt : Nbrs} : bmGet a.list s = some nbs → bmGet a.list t = some nbt →
      bmGet a.prods s = some (-1) → bmGet a.prods t = some (-1) →
      (∀ x ∈ nbs, ∃ y ∈ nbt, y.2 = x.2) → (∀ y ∈ nbt, ∃ x ∈ nbs, x.2 = y.2) →
      (∀ x ∈ nbs, ∀ y ∈ nbt, x.2 = y.2 → EqR a x.1 y.1) → EqR a s t

theorem EqR.equiv (a : Adj) : Equivalence (EqR a) := ⟨EqR.refl, EqR.symm, EqR.trans⟩

theorem mem_mapNb (f : Nat → Nat) (nb : Nbrs) (z : Nat × Nat) : z ∈ mapNb f nb ↔ ∃ x ∈ nb, z = (f x.1, x.2) := by
  unfold mapNb
  rw [List.mem_map]
  constructor
  · rintro ⟨x, hx, rfl⟩; exact ⟨x, hx, rfl⟩
  · rintro ⟨x, hx, rfl⟩; exact ⟨x, hx, rfl⟩

theorem mapNb_snd (f : Nat → Nat) (nb : Nbrs) : (mapNb f nb).map Prod.snd = nb.map Prod.snd := by
  simp [mapNb, List.map_map, Function.comp_def]

/-- Two present states of a sound quotient with equal neighbour lists are related. -/
theorem eqR_of_lists {a1 a : Adj} {rep : Nat → Nat} (hwf1 : AdjWF a1) (qs : QS a1 (EqR a1) rep a) {m m' : Nat}
    (hp : bmGet a1.prods m = some (-1)) (hp' : bmGet a1.prods m' = some (-1))
    (hsame : ∀ lm lk, bmGet a.list m = some lm → bmGet a.list m' = some lk → lm = lk)
    (h1 : (bmGet a.list m).isSome) (h2 : (bmGet a.list m').isSome) : EqR a1 m m' := by
  have f1 := present_fixed qs.q h1
  have f2 := present_fixed qs.q h2
  have g1 := qs.q.get_list m
  have g2 := qs.q.get_list m'
  rw [f1] at g1; rw [f2] at g2
  simp only [if_true] at g1 g2
  cases hn1 : bmGet a1.list m with
  | none => rw [g1, hn1] at h1; cases h1
  | some nbs =>
    cases hn2 : bmGet a1.list m' with
    | none => rw [g2, hn2] at h2; cases h2
    | some nbt =>
      rw [hn1] at g1; rw [hn2] at g2
      simp only [Option.map_some] at g1 g2
      have heq := hsame _ _ g1 g2
      have hperm : (mapNb rep nbs).Perm (mapNb rep nbt) :=
        ((sortPairs_perm _).symm.trans (heq ▸ List.Perm.refl _)).trans (sortPairs_perm _)
      have hd1 := hwf1.det m nbs hn1
      have hd2 := hwf1.det m' nbt hn2
      refine EqR.rule hn1 hn2 hp hp' ?_ ?_ ?_
      · intro x hx
        have : (rep x.1, x.2) ∈ mapNb rep nbt := hperm.mem_iff.1 ((mem_mapNb _ _ _).2 ⟨x, hx, rfl⟩)
        obtain ⟨y, hy, he⟩ := (mem_mapNb _ _ _).1 this
        simp only [Prod.mk.injEq] at he
        exact ⟨y, hy, he.2.symm⟩
      · intro y hy
        have : (rep y.1, y.2) ∈ mapNb rep nbs := hperm.mem_iff.2 ((mem_mapNb _ _ _).2 ⟨y, hy, rfl⟩)
        obtain ⟨x, hx, he⟩ := (mem_mapNb _ _ _).1 this
        simp only [Prod.mk.injEq] at he
        exact ⟨x, hx, he.2.symm⟩
      · intro x hx y hy hxy
        have : (rep x.1, x.2) ∈ mapNb rep nbt := hperm.mem_iff.1 ((mem_mapNb _ _ _).2 ⟨x, hx, rfl⟩)
        obtain ⟨y', hy', he⟩ := (mem_mapNb _ _ _).1 this
        simp only [Prod.mk.injEq] at he
        have : y' = y := nodup_snd_inj hd2 hy' hy (he.2.symm.trans hxy)
        subst this
        have r1 := qs.sound x.1
        have r2 := qs.sound y'.1
        rw [he.1] at r1
        exact EqR.trans r1 (EqR.symm r2)

theorem combineEquiv_qs {a1 : Adj} (hwf1 : AdjWF a1) : ∀ (fuel : Nat) {a a' : Adj} {rep : Nat → Nat} {ch ch' : List Nat},
    QS a1 (EqR a1) rep a → Adj.combineEquiv fuel a ch = some (a', ch') →
    ∃ rep', QS a1 (EqR a1) rep' a' ∧ a'.equivGroups = some [] := by
  intro fuel
  induction fuel with
  | zero => intro a a' rep ch ch' _ h; simp [Adj.combineEquiv] at h
  | succ fuel ih =>
    intro a a' rep ch ch' qs h
    simp only [Adj.combineEquiv] at h
    split at h
    · cases h
    · rename_i heq
      injection h with h
      injection h with h1 _
      subst h1
      exact ⟨rep, qs, heq⟩
    · rename_i g gs heq
      split at h
      · cases h
      · rename_i grp hgrp
        split at h
        · cases h
        · rename_i a2 h1
          have hmem : grp ∈ g :: gs := List.mem_of_getElem? hgrp
          have hcand : grp ∈ (groupBy (fun x : Nat × Nbrs => x.2)
              (a.list.filter (fun x => bmGet a.prods x.1 == some (-1)))) := by
            unfold Adj.equivGroups at heq
            split at heq
            · injection heq with heq
              rw [← heq] at hmem
              exact (List.mem_filter.1 hmem).1
            · cases heq
          obtain ⟨hsub, hkey⟩ := groupBy_mem (fun x : Nat × Nbrs => x.2) _ hcand
          have hsub2 : grp.2.Sublist a.list := hsub.trans List.filter_sublist
          have hstatic : ∀ m ∈ grp.2.map (·.1), bmGet a1.prods m = some (-1) := by
            intro m hm
            obtain ⟨x, hx, rfl⟩ := List.mem_map.1 hm
            have hf := (List.mem_filter.1 (hsub.subset hx)).2
            have hp : bmGet a.prods x.1 = some (-1) := by simpa using hf
            rw [qs.q.get_prods] at hp
            by_cases hr : rep x.1 = x.1
            · simpa [hr] using hp
            · simp [hr] at hp
          obtain ⟨rep2, qs2, _, _⟩ := combineStates_qs (EqR.equiv a1) qs h1
            (by
              intro m hm m' hm' lm lk e1 e2
              obtain ⟨x, hx, rfl⟩ := List.mem_map.1 hm
              obtain ⟨y, hy, rfl⟩ := List.mem_map.1 hm'
              have ex : bmGet a.list x.1 = some x.2 := bmGet_of_mem qs.wf.ksl (by cases x; exact hsub2.subset hx)
              have ey : bmGet a.list y.1 = some y.2 := bmGet_of_mem qs.wf.ksl (by cases y; exact hsub2.subset hy)
              rw [ex] at e1; rw [ey] at e2
              injection e1 with e1; injection e2 with e2
              rw [← e1, ← e2, hkey x hx, hkey y hy])
            (by
              have : KS grp.2 := qs.wf.ksl.sublist hsub2
              simpa [KS] using this)
            (fun m hm m' hm' rep' a' qs' hs' p1 p2 =>
              eqR_of_lists hwf1 qs' (hstatic m hm) (hstatic m' hm') hs' p1 p2)
          exact ih qs2 h

theorem length_gt_one {α : Type} {l : List α} {x y : α} (hx : x ∈ l) (hy : y ∈ l) (hne : x ≠ y) : l.length > 1 := by
  cases l with
  | nil => cases hx
  | cons a t =>
    cases t with
    | nil =>
      simp only [List.mem_singleton] at hx hy
      exact absurd (hx.trans hy.symm) hne
    | cons b t' => simp

/-- When no candidate group is left, the quotient is closed under the rule of `EqR`. -/
theorem equiv_complete {a1 a : Adj} {rep : Nat → Nat} (hwf1 : AdjWF a1) (qs : QS a1 (EqR a1) rep a)
    (hdone : a.equivGroups = some []) : ∀ s t, EqR a1 s t → rep s = rep t := by
  intro s t hst
  induction hst with
  | refl s => rfl
  | symm _ ih => exact ih.symm
  | trans _ _ ih1 ih2 => exact ih1.trans ih2
  | @rule s t nbs nbt hs ht hps hpt hterm1 hterm2 _ ih =>
    apply Classical.byContradiction
    intro hne
    obtain ⟨nbs', hns', hcs⟩ := qs.q.coh s nbs hs
    obtain ⟨nbt', hnt', hct⟩ := qs.q.coh t nbt ht
    -- the mapped lists of s and t are permutations of each other
    have hnd : ∀ (nb : Nbrs), (nb.map Prod.snd).Nodup → (mapNb rep nb).Nodup := by
      intro nb h
      have : ((mapNb rep nb).map Prod.snd).Nodup := by rw [mapNb_snd]; exact h
      exact List.Pairwise.of_map Prod.snd (fun a b hab e => hab (e ▸ rfl)) this
    have hperm : (mapNb rep nbs).Perm (mapNb rep nbt) := by
      rw [List.perm_ext_iff_of_nodup (hnd nbs (hwf1.det s nbs hs)) (hnd nbt (hwf1.det t nbt ht))]
      intro z
      rw [mem_mapNb, mem_mapNb]
      constructor
      · rintro ⟨x, hx, rfl⟩
        obtain ⟨y, hy, hyx⟩ := hterm1 x hx
        exact ⟨y, hy, by rw [ih x hx y hy hyx.symm, hyx]⟩
      · rintro ⟨y, hy, rfl⟩
        obtain ⟨x, hx, hxy⟩ := hterm2 y hy
        exact ⟨x, hx, by rw [← ih x hx y hy hxy, hxy]⟩
    have hL : sortPairs (mapNb rep nbs') = sortPairs (mapNb rep nbt') := by
      rw [← hcs, ← hct]; exact sortPairs_congr hperm
    have gs := qs.q.get_list (rep s)
    have gt := qs.q.get_list (rep t)
    rw [qs.q.idem, hns'] at gs
    rw [qs.q.idem, hnt'] at gt
    simp only [if_true, Option.map_some] at gs gt
    rw [← hL] at gt
    have ps : bmGet a.prods (rep s) = some (-1) := by
      rw [qs.q.get_prods, qs.q.idem]
      simp only [if_true]
      rw [qs.q.cohp s (by simp [hs]), hps]
    have pt : bmGet a.prods (rep t) = some (-1) := by
      rw [qs.q.get_prods, qs.q.idem]
      simp only [if_true]
      rw [qs.q.cohp t (by simp [ht]), hpt]
    have m1 : (rep s, sortPairs (mapNb rep nbs')) ∈ a.list.filter (fun x => bmGet a.prods x.1 == some (-1)) :=
      List.mem_filter.2 ⟨bmGet_some_mem gs, by simp [ps]⟩
    have m2 : (rep t, sortPairs (mapNb rep nbs')) ∈ a.list.filter (fun x => bmGet a.prods x.1 == some (-1)) :=
      List.mem_filter.2 ⟨bmGet_some_mem gt, by simp [pt]⟩
    obtain ⟨g, hg, hx, hy⟩ := groupBy_same (fun x : Nat × Nbrs => x.2) _ m1 m2 rfl
    have hlen : g.2.length > 1 := length_gt_one hx hy (by
      intro e
      simp only [Prod.mk.injEq] at e
      exact hne e.1)
    unfold Adj.equivGroups at hdone
    split at hdone
    · injection hdone with hdone
      have : g ∈ (groupBy (fun x : Nat × Nbrs => x.2) (a.list.filter (fun x => bmGet a.prods x.1 == some (-1)))).filter
          (fun g => g.2.length > 1) := List.mem_filter.2 ⟨hg, by simpa using hlen⟩
      rw [hdone] at this
      cases this
    · cases hdone

/-- **`AdjacencyList::minimize` does not depend on the iteration orders.** -/
theorem minimize_unique {a r1 r2 : Adj} {ch1 ch2 : List Nat} (hwf : AdjWF a) (hs : ListsSorted a)
    (h1 : a.minimize ch1 = some r1) (h2 : a.minimize ch2 = some r2) : r1 = r2 := by
  unfold Adj.minimize at h1 h2
  split at h1
  · cases h1
  · rename_i a1 c1 hm1
    split at h2
    · cases h2
    · rename_i a1' c1' hm1'
      obtain ⟨rep, qs, hc⟩ := mergeFinals_qs hwf hs hm1
      obtain ⟨rep', qs', hc'⟩ := mergeFinals_qs hwf hs hm1'
      have e1 : a1 = a1' := rep_unique qs qs' hc hc'
      subst e1
      split at h1
      · cases h1
      · rename_i a2 c2 hq
        split at h2
        · cases h2
        · rename_i a2' c2' hq'
          have hwf1 := qs.wf
          have hs1 : ListsSorted a1 := by
            intro x hx
            rw [qs.q.list] at hx
            exact quotList_sorted a rep x hx
          have q0 : QS a1 (EqR a1) id a1 := ⟨quot_id hs1, hwf1, fun s => EqR.refl s⟩
          obtain ⟨rp, qp, hd⟩ := combineEquiv_qs hwf1 _ q0 hq
          obtain ⟨rp', qp', hd'⟩ := combineEquiv_qs hwf1 _ q0 hq'
          have e2 : a2 = a2' := rep_unique qp qp' (equiv_complete hwf1 qp hd) (equiv_complete hwf1 qp' hd')
          subst e2
          rw [h1] at h2
          injection h2


theorem mem_bmInsert {β : Type} {m : List (Nat × β)} {k : Nat} {v : β} {y : Nat × β} (h : y ∈ bmInsert m k v) :
    y = (k, v) ∨ y ∈ m := by
  unfold bmInsert at h
  rcases (mem_insertSorted k v _ y).1 h with h | h
  · exact Or.inl h
  · exact Or.inr (List.mem_filter.1 h).1

theorem adjOfCompiled_sorted (c : LaDfa) : ListsSorted (adjOfCompiled c) := by
  rw [adjOfCompiled_eq]
  unfold ListsSorted
  simp only
  obtain ⟨hk0, hg0⟩ := list0Of_spec c
  have := foldl_inv listStep (fun _ m => ∀ x ∈ m, sortPairs x.2 = x.2) c.trans [] (list0Of c) ?_ ?_
  · simpa using this
  · intro x hx
    have hget : bmGet (list0Of c) x.1 = some x.2 := bmGet_of_mem hk0 (by cases x; exact hx)
    rw [hg0] at hget
    split at hget
    · injection hget with hget
      rw [← hget]; rfl
    · cases hget
  · intro pre t m _ hm
    unfold listStep
    cases hsrc : bmGet m t.src with
    | none => exact hm
    | some nb =>
      simp only
      intro x hx
      rcases mem_bmInsert hx with rfl | hx
      · exact sortPairs_idem _
      · exact hm x hx

/-- **`CompiledDFA::minimize` does not depend on the iteration orders.** -/
theorem minimizeC_unique {c c1 c2 : LaDfa} {ch1 ch2 : List Nat} (hc : CompiledOk c)
    (h1 : minimizeC c ch1 = some c1) (h2 : minimizeC c ch2 = some c2) : c1 = c2 := by
  unfold minimizeC at h1 h2
  split at h1
  · cases h1
  · rename_i r1 hm1
    split at h2
    · cases h2
    · rename_i r2 hm2
      have := minimize_unique (adjOfCompiled_wf hc) (adjOfCompiled_sorted c) hm1 hm2
      subst this
      rw [h1] at h2
      injection h2

end ParolModel
