import ParolModel.Proofs.Ebnf
/-! Bridge between plain productions with names (`RuleN`, semantics through `YieldE` on their EBNF
image) and the shared `Grammar`/`Yield`/`Lang` of `Spec/Cfg` (non-terminals numbered by `ν`). -/
namespace ParolModel

def SymN.names : SymN → List Name
  | .t _ => []
  | .n A _ => [A]

def symsNames (ss : List SymN) : List Name := ss.flatMap SymN.names

theorem namesN_spec {rs : List RuleN} {r : RuleN} (hr : r ∈ rs) :
    r.lhs ∈ namesN rs ∧ ∀ x ∈ symsNames r.rhs, x ∈ namesN rs := by
  constructor
  · exact List.mem_flatMap.2 ⟨r, hr, by simp [RuleN.names]⟩
  · intro x hx
    refine List.mem_flatMap.2 ⟨r, hr, ?_⟩
    simp only [RuleN.names, List.mem_cons, List.mem_filterMap]
    right
    obtain ⟨s, hs, hxs⟩ := List.mem_flatMap.1 hx
    refine ⟨s, hs, ?_⟩
    cases s with
    | t a => simp [SymN.names] at hxs
    | n A sa => simp [SymN.names] at hxs; simp [hxs]

/-- `ν` is injective on the names in `V`. -/
def InjOn (ν : Name → Nat) (V : List Name) : Prop := ∀ a ∈ V, ∀ b ∈ V, ν a = ν b → a = b

theorem yieldE_to_yield (ν : Name → Nat) (st : Name) (rs : List RuleN) :
    ∀ {fs : List Factor} {w : List Nat}, YieldE (rs.map RuleN.toEProd) fs w →
      ∀ ss : List SymN, fs = ss.map SymN.toFactor →
        Yield (toGrammar ν st rs) (ss.map (SymN.toSym ν)) w := by
  intro fs w h
  induction h with
  | nil =>
    intro ss e
    cases ss with
    | nil => exact .nil
    | cons s ss => simp at e
  | term a _ ih =>
    intro ss e
    cases ss with
    | nil => simp at e
    | cons s ss =>
      simp only [List.map_cons, List.cons.injEq] at e
      cases s with
      | t b =>
        simp only [SymN.toFactor, Factor.t.injEq] at e
        obtain ⟨rfl, e2⟩ := e
        exact .term a (ih ss e2)
      | n A sa => simp [SymN.toFactor] at e
  | nonterm p alt sa hp ha _ _ ih1 ih2 =>
    intro ss e
    cases ss with
    | nil => simp at e
    | cons s ss =>
      simp only [List.map_cons, List.cons.injEq] at e
      cases s with
      | t b => simp [SymN.toFactor] at e
      | n A sa' =>
        simp only [SymN.toFactor, Factor.n.injEq] at e
        obtain ⟨⟨rfl, rfl⟩, e2⟩ := e
        obtain ⟨r, hr, rfl⟩ := List.mem_map.1 hp
        simp only [RuleN.toEProd, List.mem_singleton] at ha
        subst ha
        have h1 := ih1 r.rhs rfl
        have h2 := ih2 ss e2
        have hmem : r.toRule ν ∈ (toGrammar ν st rs).prods := List.mem_map.2 ⟨r, hr, rfl⟩
        exact Yield.nonterm (r.toRule ν) hmem h1 h2
  | group alts alt _ _ _ _ _ =>
    intro ss e
    cases ss with
    | nil => simp at e
    | cons s ss => cases s <;> simp [SymN.toFactor] at e
  | optSome alts alt _ _ _ _ _ =>
    intro ss e
    cases ss with
    | nil => simp at e
    | cons s ss => cases s <;> simp [SymN.toFactor] at e
  | optNone alts _ _ =>
    intro ss e
    cases ss with
    | nil => simp at e
    | cons s ss => cases s <;> simp [SymN.toFactor] at e
  | repStop alts _ _ =>
    intro ss e
    cases ss with
    | nil => simp at e
    | cons s ss => cases s <;> simp [SymN.toFactor] at e
  | repStep alts alt _ _ _ _ _ =>
    intro ss e
    cases ss with
    | nil => simp at e
    | cons s ss => cases s <;> simp [SymN.toFactor] at e

theorem yield_to_yieldE (ν : Name → Nat) (st : Name) (rs : List RuleN) (V : List Name)
    (hinj : InjOn ν V) (hV : ∀ x ∈ namesN rs, x ∈ V) :
    ∀ {ss' : List Sym} {w : List Nat}, Yield (toGrammar ν st rs) ss' w →
      ∀ ss : List SymN, ss' = ss.map (SymN.toSym ν) → (∀ x ∈ symsNames ss, x ∈ V) →
        YieldE (rs.map RuleN.toEProd) (ss.map SymN.toFactor) w := by
  intro ss' w h
  induction h with
  | nil =>
    intro ss e _
    cases ss with
    | nil => exact .nil
    | cons s ss => simp at e
  | term a _ ih =>
    intro ss e hss
    cases ss with
    | nil => simp at e
    | cons s ss =>
      simp only [List.map_cons, List.cons.injEq] at e
      cases s with
      | t b =>
        simp only [SymN.toSym, Sym.t.injEq] at e
        obtain ⟨rfl, e2⟩ := e
        exact .term a (ih ss e2 (fun x hx => hss x (by simp [symsNames] at hx ⊢; exact .inr hx)))
      | n A sa => simp [SymN.toSym] at e
  | nonterm p hp _ _ ih1 ih2 =>
    intro ss e hss
    cases ss with
    | nil => simp at e
    | cons s ss =>
      simp only [List.map_cons, List.cons.injEq] at e
      cases s with
      | t b => simp [SymN.toSym] at e
      | n A sa =>
        simp only [SymN.toSym, Sym.n.injEq] at e
        obtain ⟨e1, e2⟩ := e
        obtain ⟨r, hr, rfl⟩ := List.mem_map.1 hp
        have hA : A ∈ V := hss A (by simp [symsNames, SymN.names])
        obtain ⟨hl, hrhs⟩ := namesN_spec hr
        have : r.lhs = A := hinj _ (hV _ hl) _ hA e1
        subst this
        have h1 := ih1 r.rhs rfl (fun x hx => hV x (hrhs x hx))
        have h2 := ih2 ss e2 (fun x hx => hss x (by simp [symsNames] at hx ⊢; exact .inr hx))
        exact YieldE.nonterm r.toEProd ⟨r.rhs.map SymN.toFactor, r.attr⟩ sa
          (List.mem_map.2 ⟨r, hr, rfl⟩) (by simp [RuleN.toEProd]) h1 h2

/-- The language of a plain grammar with names, through any numbering that is injective on its
    names and the start symbol, is its `LangE`. -/
theorem lang_toGrammar (ν : Name → Nat) (st : Name) (rs : List RuleN) (V : List Name)
    (hinj : InjOn ν V) (hV : ∀ x ∈ namesN rs, x ∈ V) (hst : st ∈ V) (w : List Nat) :
    Lang (toGrammar ν st rs) w ↔ LangE (rs.map RuleN.toEProd) st w := by
  constructor
  · intro h
    have := yield_to_yieldE ν st rs V hinj hV h [.n st .none] rfl
      (by simp [symsNames, SymN.names, hst])
    simpa [LangE, SymN.toFactor] using this
  · intro h
    have := yieldE_to_yield ν st rs h [.n st .none] rfl
    simpa [Lang, toGrammar, SymN.toSym] using this

end ParolModel
