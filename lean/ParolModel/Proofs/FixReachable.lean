import ParolModel.Proofs.FixNullable
/-! Sentential-form derivations and correctness of the reachability computation. -/
namespace ParolModel

/-! ## `Step` / `Derives` -/

theorem Step.ctx {G : Grammar} {a b : List Sym} (z1 z2 : List Sym) (h : Step G a b) :
    Step G (z1 ++ a ++ z2) (z1 ++ b ++ z2) := by
  cases h with
  | mk x y p hp =>
    have := Step.mk (z1 ++ x) (y ++ z2) p hp
    simpa [List.append_assoc] using this

theorem Derives.single {G : Grammar} {a b : List Sym} (h : Step G a b) : Derives G a b :=
  .head h (.refl b)

theorem Derives.trans {G : Grammar} {a b c : List Sym} (h1 : Derives G a b) (h2 : Derives G b c) :
    Derives G a c := by
  induction h1 with
  | refl => exact h2
  | head hs _ ih => exact .head hs (ih h2)

theorem Derives.tail {G : Grammar} {a b c : List Sym} (h1 : Derives G a b) (h2 : Step G b c) :
    Derives G a c :=
  h1.trans (.single h2)

theorem Derives.ctx {G : Grammar} {a b : List Sym} (z1 z2 : List Sym) (h : Derives G a b) :
    Derives G (z1 ++ a ++ z2) (z1 ++ b ++ z2) := by
  induction h with
  | refl => exact .refl _
  | head hs _ ih => exact .head (hs.ctx z1 z2) ih

theorem Derives.append_right {G : Grammar} {a b : List Sym} (z : List Sym) (h : Derives G a b) :
    Derives G (a ++ z) (b ++ z) := by
  simpa using h.ctx [] z

theorem Derives.append_left {G : Grammar} {a b : List Sym} (z : List Sym) (h : Derives G a b) :
    Derives G (z ++ a) (z ++ b) := by
  simpa using h.ctx z []

theorem Step.of_prod {G : Grammar} {p : Rule} (hp : p ∈ G.prods) : Step G [.n p.lhs] p.rhs := by
  simpa using Step.mk [] [] p hp

/-- Big-step derivations are sentential-form derivations. -/
theorem derives_of_yield {G : Grammar} {ss : List Sym} {w : List Nat} (h : Yield G ss w) :
    Derives G ss (w.map Sym.t) := by
  induction h with
  | nil => exact .refl _
  | term a _ ih => simpa using ih.append_left [Sym.t a]
  | @nonterm p ss u v hp _ _ ih1 ih2 =>
    have s1 : Derives G (Sym.n p.lhs :: ss) (p.rhs ++ ss) := by
      simpa using (Derives.single (Step.of_prod hp)).append_right ss
    have s2 : Derives G (p.rhs ++ ss) (u.map Sym.t ++ ss) := ih1.append_right ss
    have s3 : Derives G (u.map Sym.t ++ ss) (u.map Sym.t ++ v.map Sym.t) := ih2.append_left _
    simpa using s1.trans (s2.trans s3)

/-- Inversion of a step from a single non-terminal. -/
theorem Step.from_single {G : Grammar} {A : Nat} {b : List Sym} (h : Step G [.n A] b) :
    ∃ p, p ∈ G.prods ∧ p.lhs = A ∧ b = p.rhs := by
  generalize ha : [Sym.n A] = a at h
  cases h with
  | mk x y p hp =>
    cases x with
    | nil =>
      simp only [List.nil_append, List.cons.injEq, Sym.n.injEq] at ha
      obtain ⟨h1, h2⟩ := ha
      subst h2
      exact ⟨p, hp, h1.symm, by simp⟩
    | cons s x =>
      simp only [List.cons_append, List.cons.injEq] at ha
      have := ha.2
      cases x <;> simp at this

/-! ## Reachable -/

def ReachInv (G : Grammar) (R : List Nat) : Prop :=
  R.Nodup ∧ (∀ a ∈ R, a ∈ nts G) ∧ (∀ a ∈ R, Reachable G a) ∧ G.start ∈ R

theorem reachable_start (G : Grammar) : Reachable G G.start :=
  ⟨[], [], by simpa using Derives.refl _⟩

theorem reachable_of_prod {G : Grammar} {p : Rule} (hp : p ∈ G.prods) (hl : Reachable G p.lhs)
    {a : Nat} (ha : Sym.n a ∈ p.rhs) : Reachable G a := by
  obtain ⟨x, y, hd⟩ := hl
  obtain ⟨r1, r2, hr⟩ := List.append_of_mem ha
  refine ⟨x ++ r1, r2 ++ y, ?_⟩
  have := hd.tail (Step.mk x y p hp)
  rw [hr] at this
  simpa [List.append_assoc] using this

theorem reachInv_initial (G : Grammar) : ReachInv G [G.start] := by
  refine ⟨by simp, ?_, ?_, by simp⟩
  · intro a ha; simp only [List.mem_singleton] at ha; subst ha; exact start_mem_nts G
  · intro a ha; simp only [List.mem_singleton] at ha; subst ha; exact reachable_start G

theorem reachInv_sweep (G : Grammar) (R : List Nat) (h : ReachInv G R) :
    ReachInv G (reachSweep G R) := by
  obtain ⟨hn, hs, hr, hst⟩ := h
  unfold reachSweep
  refine ⟨nodup_sweepG hn, ?_, ?_, subset_sweepG _ _ _ _ hst⟩
  · apply sweepG_inv (fun a => a ∈ nts G) hs
    intro p hp S' _ a ha
    split at ha
    · exact rhs_mem_nts hp (mem_rhsNts.mp ha)
    · simp at ha
  · apply sweepG_inv (fun a => Reachable G a) hr
    intro p hp S' hS' a ha
    split at ha
    · rename_i hl
      exact reachable_of_prod hp (hS' _ hl) (mem_rhsNts.mp ha)
    · simp at ha

/-- Completeness at a closed set containing the start symbol. -/
theorem reachable_complete {G : Grammar} {R : List Nat}
    (hcl : ∀ p ∈ G.prods, p.lhs ∈ R → ∀ a, Sym.n a ∈ p.rhs → a ∈ R)
    {a b : List Sym} (h : Derives G a b) (ha : ∀ n, Sym.n n ∈ a → n ∈ R) :
    ∀ n, Sym.n n ∈ b → n ∈ R := by
  induction h with
  | refl => exact ha
  | head hs _ ih =>
    apply ih
    cases hs with
    | mk x y p hp =>
      intro n hn
      simp only [List.mem_append] at hn
      rcases hn with (hn | hn) | hn
      · exact ha n (by simp [hn])
      · exact hcl p hp (ha p.lhs (by simp)) n hn
      · exact ha n (by simp [hn])

theorem reachableCore_spec {G : Grammar} {fuel : Nat} {R : List Nat}
    (h : reachableCore G fuel = some R) : ∀ A, A ∈ R ↔ Reachable G A := by
  unfold reachableCore at h
  obtain ⟨S₀, hinv, hRe, hlen⟩ :=
    iterG_some (ReachInv G) (reachInv_sweep G) (reachInv_initial G) h
  obtain ⟨hfix, hcl⟩ := sweepG_fix
    (cand := fun (p : Rule) R => if p.lhs ∈ R then rhsNts p.rhs else [])
    (xs := G.prods) (S := S₀) hlen
  have hRS : R = S₀ := hRe.trans hfix
  subst hRS
  intro A
  constructor
  · exact hinv.2.2.1 A
  · rintro ⟨x, y, hd⟩
    have hcl' : ∀ p ∈ G.prods, p.lhs ∈ R → ∀ a, Sym.n a ∈ p.rhs → a ∈ R := by
      intro p hp hl a ha
      have := hcl p hp a
      simp only [hl, if_true] at this
      exact this (mem_rhsNts.mpr ha)
    apply reachable_complete hcl' hd
    · intro n hn
      simp only [List.mem_singleton, Sym.n.injEq] at hn
      subst hn; exact hinv.2.2.2
    · simp

theorem reachableCore_isSome (G : Grammar) : (reachableCore G (reachFuel G)).isSome := by
  unfold reachableCore
  apply iterG_isSome (ReachInv G) (nts G).length (reachInv_sweep G)
  · intro S hS
    exact length_le_of_nodup_subset hS.1 hS.2.1
  · exact reachInv_initial G
  · unfold reachFuel; simp

theorem reachable_mem_nts {G : Grammar} {A : Nat} (h : Reachable G A) : A ∈ nts G := by
  have hs := reachableCore_isSome G
  obtain ⟨R, hR⟩ := Option.isSome_iff_exists.mp hs
  have hmem := (reachableCore_spec hR A).mpr h
  unfold reachableCore at hR
  obtain ⟨S₀, hinv, hRe, hlen⟩ :=
    iterG_some (ReachInv G) (reachInv_sweep G) (reachInv_initial G) hR
  have := (reachInv_sweep G S₀ hinv).2.1
  rw [← hRe] at this
  exact this A hmem

theorem unreachableSet_spec {G : Grammar} {l : List Nat} (h : unreachableSet G = some l) :
    ∀ A, A ∈ l ↔ A ∈ nts G ∧ ¬ Reachable G A := by
  unfold unreachableSet at h
  simp only [Option.map_eq_some_iff] at h
  obtain ⟨R, hR, rfl⟩ := h
  intro A
  simp [List.mem_filter, reachableCore_spec hR A]

theorem reachableSet_spec {G : Grammar} {l : List Nat} (h : reachableSet G = some l) :
    ∀ A, A ∈ l ↔ Reachable G A := by
  unfold reachableSet at h
  simp only [Option.map_eq_some_iff] at h
  obtain ⟨R, hR, rfl⟩ := h
  intro A
  rw [mem_sortSet, reachableCore_spec hR A]

theorem unreachableSet_isSome (G : Grammar) : (unreachableSet G).isSome := by
  unfold unreachableSet
  rw [Option.isSome_map]
  exact reachableCore_isSome G

theorem unreachableSet_sorted {G : Grammar} {l : List Nat} (h : unreachableSet G = some l) :
    l.Pairwise (· < ·) := by
  unfold unreachableSet at h
  simp only [Option.map_eq_some_iff] at h
  obtain ⟨R, _, rfl⟩ := h
  exact (nts_sorted G).filter _

end ParolModel
