import ParolModel.Proofs.FrontToBackWf
import ParolModel.Proofs.LfOrder
/-! Left factoring preserves the class `WFN` (productive, reachable, no left recursion — what
parol's grammar checks establish BEFORE left factoring and what the LL(k) analysis needs AFTER it).

One step `factor_out_prefix` (`A → π β₁ | π β₂ | γ` becomes `A → π A'`, `A' → β₁ | β₂`, `A → γ`)
preserves it provided at least one rule of `A` really starts with `π` (`findPrefix` only returns
prefixes shared by two candidates); then the fold of one round (the prefixes of one round belong to
pairwise different non-terminals and were computed before any of them is applied) and the loop. -/
namespace ParolModel
open KS

/-! ## what one `factor_out_prefix` does to the rule list -/

structure FStep (rs rs' : List RuleN) (A X : Name) (pre : List SymN) : Prop where
  fresh : X ∉ namesN rs
  old : ∀ r ∈ rs, ¬ (r.lhs = A ∧ ∃ suf, r.rhs = pre ++ suf) → r ∈ rs'
  fact : ∀ r ∈ rs, r.lhs = A → ∀ suf, r.rhs = pre ++ suf → ⟨X, suf, r.attr⟩ ∈ rs'
  newA : (⟨A, pre ++ [.n X .none], .none⟩ : RuleN) ∈ rs'
  inv : ∀ r' ∈ rs', (r' ∈ rs ∧ ¬ (r'.lhs = A ∧ ∃ suf, r'.rhs = pre ++ suf)) ∨
    r' = ⟨A, pre ++ [.n X .none], .none⟩ ∨
    ∃ r ∈ rs, r.lhs = A ∧ ∃ suf, r.rhs = pre ++ suf ∧ r' = ⟨X, suf, r.attr⟩
  ok : StepOK (rs.map RuleN.toEProd) (rs'.map RuleN.toEProd)

theorem factorOutPrefix_fstep {rs rs' : List RuleN} {A : Name} {pre : List SymN}
    (h : factorOutPrefix rs A pre = some rs') :
    rs' = rs ∨ ∃ X, FStep rs rs' A X pre := by
  have hok := factorOutPrefix_ok h
  unfold factorOutPrefix at h
  split at h
  · split at h
    · cases h
    · rename_i X hX
      have h := Option.some.inj h
      right
      refine ⟨X, ?_⟩
      have hmem : ∀ r', r' ∈ rs' ↔ (r' ∈ rs ∧ r'.lhs ≠ A) ∨ r' = ⟨A, pre ++ [.n X .none], .none⟩ ∨
          ∃ r ∈ rs, r.lhs = A ∧ r' = factorOutRule X pre r := by
        intro r'; rw [← h]; exact mem_factored
      refine ⟨generateName_not_mem hX, ?_, ?_, (hmem _).2 (.inr (.inl rfl)), ?_, hok⟩
      · intro r hr hno
        by_cases hA : r.lhs = A
        · rcases factorOutRule_cases X pre r with ⟨he, _⟩ | ⟨suf, hs, _⟩
          · exact (hmem _).2 (.inr (.inr ⟨r, hr, hA, he.symm⟩))
          · exact absurd ⟨hA, suf, hs⟩ hno
        · exact (hmem _).2 (.inl ⟨hr, hA⟩)
      · intro r hr hA suf hs
        rcases factorOutRule_cases X pre r with ⟨_, hno⟩ | ⟨suf', hs', he⟩
        · exact absurd ⟨suf, hs⟩ hno
        · have : suf' = suf := List.append_cancel_left (hs'.symm.trans hs)
          subst this
          exact (hmem _).2 (.inr (.inr ⟨r, hr, hA, he.symm⟩))
      · intro r' hr'
        rcases (hmem r').1 hr' with ⟨h1, h2⟩ | h1 | ⟨r, hr, hA, he⟩
        · exact .inl ⟨h1, fun hc => h2 hc.1⟩
        · exact .inr (.inl h1)
        · rcases factorOutRule_cases X pre r with ⟨he', hno⟩ | ⟨suf, hs, he'⟩
          · rw [he'] at he
            subst he
            exact .inl ⟨hr, fun hc => hno hc.2⟩
          · exact .inr (.inr ⟨r, hr, hA, suf, hs, he.trans he'⟩)
  · left
    exact (Option.some.inj h).symm

/-! ## one step preserves the class -/

section step
variable {rs rs' : List RuleN} {A X : Name} {pre : List SymN}

theorem FStep.eqv (S : FStep rs rs' A X pre) {ss : List SymN} {w : List Nat}
    (hss : ∀ x ∈ symsNames ss, x ∈ namesN rs) :
    YieldE (rs.map RuleN.toEProd) (ss.map SymN.toFactor) w ↔
      YieldE (rs'.map RuleN.toEProd) (ss.map SymN.toFactor) w :=
  S.ok.equiv _ w (fun x hx => by
    rw [altVars_toFactor] at hx
    exact variableNames_toEProd.2 (hss x hx))

theorem FStep.lhs_ne (S : FStep rs rs' A X pre) {r : RuleN} (hr : r ∈ rs) : r.lhs ≠ X :=
  fun e => S.fresh (e ▸ (namesN_spec hr).1)

theorem FStep.rhs_ne (S : FStep rs rs' A X pre) {r : RuleN} (hr : r ∈ rs) {Y : Name}
    (hY : Y ∈ symsNames r.rhs) : Y ≠ X :=
  fun e => S.fresh (e ▸ (namesN_spec hr).2 Y hY)

theorem symsNames_sub_left {a b : List SymN} {Y : Name} (h : Y ∈ symsNames a) :
    Y ∈ symsNames (a ++ b) := by
  rw [symsNames_append]; exact List.mem_append_left _ h

theorem symsNames_sub_right {a b : List SymN} {Y : Name} (h : Y ∈ symsNames b) :
    Y ∈ symsNames (a ++ b) := by
  rw [symsNames_append]; exact List.mem_append_right _ h

theorem FStep.prodN (S : FStep rs rs' A X pre)
    (hp : ∃ r0 ∈ rs, r0.lhs = A ∧ ∃ suf0, r0.rhs = pre ++ suf0) (h : ProdN rs) : ProdN rs' := by
  obtain ⟨r0, hr0, hA0, suf0, hs0⟩ := hp
  -- an old name used on an old right-hand side stays productive
  have hold : ∀ r ∈ rs, ∀ Y ∈ symsNames r.rhs,
      ∃ w, YieldE (rs'.map RuleN.toEProd) [.n Y .none] w := by
    intro r hr Y hY
    obtain ⟨w, hw⟩ := h r hr Y hY
    refine ⟨w, ?_⟩
    have := (S.eqv (ss := [.n Y .none]) (w := w) (by
      intro x hx
      simp only [symsNames, List.flatMap_cons, SymN.names, List.flatMap_nil, List.append_nil,
        List.mem_singleton] at hx
      subst hx
      exact (namesN_spec hr).2 _ hY)).1 (by simpa [SymN.toFactor] using hw)
    simpa [SymN.toFactor] using this
  -- the new non-terminal is productive: `X → suf0`
  have hX : ∃ w, YieldE (rs'.map RuleN.toEProd) [.n X .none] w := by
    obtain ⟨w, hw⟩ := yieldE_of_prodNames (G := rs'.map RuleN.toEProd) suf0 (fun Y hY =>
      hold r0 hr0 Y (by rw [hs0]; exact symsNames_sub_right hY))
    exact ⟨w, (der_of_rule (r := ⟨X, suf0, r0.attr⟩) (S.fact r0 hr0 hA0 suf0 hs0) hw).yield .none⟩
  intro r' hr' Y hY
  rcases S.inv r' hr' with ⟨h1, _⟩ | rfl | ⟨r, hr, _, suf, hs, rfl⟩
  · exact hold r' h1 Y hY
  · simp only [symsNames_append, List.mem_append] at hY
    rcases hY with hY | hY
    · exact hold r0 hr0 Y (by rw [hs0]; exact symsNames_sub_left hY)
    · simp only [symsNames, List.flatMap_cons, SymN.names, List.flatMap_nil, List.append_nil,
        List.mem_singleton] at hY
      subst hY
      exact hX
  · exact hold r hr Y (by rw [hs]; exact symsNames_sub_right hY)

theorem FStep.rn (S : FStep rs rs' A X pre) {st Y : Name} (h : RN rs st Y) : RN rs' st Y := by
  induction h with
  | start => exact .start
  | step r Y hr _ hY ih =>
    by_cases hc : r.lhs = A ∧ ∃ suf, r.rhs = pre ++ suf
    · obtain ⟨hA, suf, hs⟩ := hc
      rw [hs, symsNames_append, List.mem_append] at hY
      have hRA : RN rs' st (⟨A, pre ++ [.n X .none], .none⟩ : RuleN).lhs := hA ▸ ih
      rcases hY with hY | hY
      · exact .step _ Y S.newA hRA (symsNames_sub_left hY)
      · have hRX : RN rs' st X := .step _ X S.newA hRA (symsNames_sub_right (by
          simp [symsNames, SymN.names]))
        exact .step ⟨X, suf, r.attr⟩ Y (S.fact r hr hA suf hs) hRX hY
    · exact .step r Y (S.old r hr hc) ih hY

theorem FStep.reachN (S : FStep rs rs' A X pre)
    (hp : ∃ r0 ∈ rs, r0.lhs = A ∧ ∃ suf0, r0.rhs = pre ++ suf0) {st : Name} (h : ReachN rs st) :
    ReachN rs' st := by
  obtain ⟨r0, hr0, hA0, _⟩ := hp
  have hRA : RN rs' st (⟨A, pre ++ [.n X .none], .none⟩ : RuleN).lhs := hA0 ▸ S.rn (h r0 hr0)
  intro r' hr'
  rcases S.inv r' hr' with ⟨h1, _⟩ | rfl | ⟨r, hr, hA, suf, hs, rfl⟩
  · exact S.rn (h r' h1)
  · exact hRA
  · exact .step _ X S.newA hRA (symsNames_sub_right (by simp [symsNames, SymN.names]))

theorem le_sum_map_of_mem {α} (f : α → Nat) : ∀ {l : List α} {a : α}, a ∈ l → f a ≤ (l.map f).sum
  | [], _, h => by simp at h
  | b :: l, a, h => by
    simp only [List.map_cons, List.sum_cons]
    rcases List.mem_cons.1 h with rfl | h
    · omega
    · have := le_sum_map_of_mem f h; omega

theorem mem_symsNames_mid (α : List SymN) (Y : Name) (sa : SAttr) (β : List SymN) :
    Y ∈ symsNames (α ++ .n Y sa :: β) :=
  symsNames_sub_right (by rw [symsNames_cons]; simp [SymN.names])

theorem FStep.noLRN (S : FStep rs rs' A X pre)
    (hp : ∃ r0 ∈ rs, r0.lhs = A ∧ ∃ suf0, r0.rhs = pre ++ suf0) (h : NoLRN rs) : NoLRN rs' := by
  obtain ⟨r0, hr0, hA0, suf0, hs0⟩ := hp
  obtain ⟨ρ, hρ⟩ := h
  have hAX : A ≠ X := hA0 ▸ S.lhs_ne hr0
  have hnull : ∀ {α : List SymN}, (∀ x ∈ symsNames α, x ∈ namesN rs) →
      YieldE (rs'.map RuleN.toEProd) (α.map SymN.toFactor) [] →
      YieldE (rs.map RuleN.toEProd) (α.map SymN.toFactor) [] := fun hα h => (S.eqv hα).2 h
  -- facts shared by both cases
  have hunch : ∀ r' ∈ rs, ∀ (α : List SymN) (Y : Name) (sa : SAttr) (β : List SymN),
      r'.rhs = α ++ .n Y sa :: β → YieldE (rs'.map RuleN.toEProd) (α.map SymN.toFactor) [] →
      ρ Y < ρ r'.lhs ∧ Y ≠ X ∧ r'.lhs ≠ X := by
    intro r' h1 α Y sa β hrhs hn
    have hY : Y ∈ symsNames r'.rhs := by rw [hrhs]; exact mem_symsNames_mid α Y sa β
    have hα : ∀ x ∈ symsNames α, x ∈ namesN rs := fun x hx =>
      (namesN_spec h1).2 x (by rw [hrhs]; exact symsNames_sub_left hx)
    exact ⟨hρ r' h1 α Y sa β hrhs (hnull hα hn), S.rhs_ne h1 hY, S.lhs_ne h1⟩
  -- a non-terminal inside the prefix is a left corner of `A` already in `rs` (through `r0`)
  have hinpre : ∀ (α : List SymN) (Y : Name) (sa : SAttr) (β0 : List SymN),
      pre = α ++ .n Y sa :: β0 → YieldE (rs'.map RuleN.toEProd) (α.map SymN.toFactor) [] →
      ρ Y < ρ A ∧ Y ≠ X := by
    intro α Y sa β0 hpre hn
    have hr0rhs : r0.rhs = α ++ .n Y sa :: (β0 ++ suf0) := by rw [hs0, hpre]; simp
    obtain ⟨h1, h2, _⟩ := hunch r0 hr0 α Y sa _ hr0rhs hn
    exact ⟨hA0 ▸ h1, h2⟩
  -- the shape of an occurrence in the new rule `A → pre X`
  have hnewA : ∀ (α : List SymN) (Y : Name) (sa : SAttr) (β : List SymN),
      pre ++ [SymN.n X .none] = α ++ .n Y sa :: β →
      (α = pre ∧ Y = X) ∨ ∃ β0, pre = α ++ .n Y sa :: β0 := by
    intro α Y sa β hrhs
    rcases List.eq_nil_or_concat β with rfl | ⟨β0, last, rfl⟩
    · obtain ⟨hpre, hl⟩ := List.append_inj' hrhs (by simp)
      simp only [List.cons.injEq, SymN.n.injEq, and_true] at hl
      exact .inl ⟨hpre.symm, hl.1.symm⟩
    · rw [List.concat_eq_append] at hrhs
      have : pre ++ [SymN.n X .none] = (α ++ .n Y sa :: β0) ++ [last] := by simpa using hrhs
      exact .inr ⟨β0, (List.append_inj' this (by simp)).1⟩
  by_cases hpn : YieldE (rs.map RuleN.toEProd) (pre.map SymN.toFactor) []
  · refine ⟨fun Y => if Y = X then 2 * ρ A + 1 else 2 * ρ Y + 2, ?_⟩
    intro r' hr' α Y sa β hrhs hn
    rcases S.inv r' hr' with ⟨h1, _⟩ | rfl | ⟨r, hr, hA, suf, hs, rfl⟩
    · obtain ⟨h2, h3, h4⟩ := hunch r' h1 α Y sa β hrhs hn
      simp only [if_neg h3, if_neg h4]
      omega
    · rcases hnewA α Y sa β hrhs with ⟨_, rfl⟩ | ⟨β0, hpre⟩
      · simp only [if_neg hAX, if_true]
        omega
      · obtain ⟨h2, h3⟩ := hinpre α Y sa β0 hpre hn
        simp only [if_neg h3, if_neg hAX]
        omega
    · simp only at hrhs
      have hrr : r.rhs = (pre ++ α) ++ .n Y sa :: β := by rw [hs, hrhs]; simp
      have hY : Y ∈ symsNames r.rhs := by rw [hrr]; exact mem_symsNames_mid _ Y sa β
      have hα : ∀ x ∈ symsNames α, x ∈ namesN rs := fun x hx =>
        (namesN_spec hr).2 x (by rw [hrr]; exact symsNames_sub_left (symsNames_sub_right hx))
      have hn2 : YieldE (rs.map RuleN.toEProd) ((pre ++ α).map SymN.toFactor) [] := by
        simpa using YieldE.append hpn (hnull hα hn)
      have := hρ r hr (pre ++ α) Y sa β hrr hn2
      rw [hA] at this
      simp only [if_neg (S.rhs_ne hr hY), if_true]
      omega
  · refine ⟨fun Y => if Y = X then ((namesN rs).map (fun Z => 2 * ρ Z + 2)).sum + 1
        else 2 * ρ Y + 2, ?_⟩
    intro r' hr' α Y sa β hrhs hn
    rcases S.inv r' hr' with ⟨h1, _⟩ | rfl | ⟨r, hr, hA, suf, hs, rfl⟩
    · obtain ⟨h2, h3, h4⟩ := hunch r' h1 α Y sa β hrhs hn
      simp only [if_neg h3, if_neg h4]
      omega
    · rcases hnewA α Y sa β hrhs with ⟨rfl, _⟩ | ⟨β0, hpre⟩
      · exfalso
        apply hpn
        apply hnull _ hn
        intro x hx
        exact (namesN_spec hr0).2 x (by rw [hs0]; exact symsNames_sub_left hx)
      · obtain ⟨h2, h3⟩ := hinpre α Y sa β0 hpre hn
        simp only [if_neg h3, if_neg hAX]
        omega
    · simp only at hrhs
      have hY : Y ∈ symsNames r.rhs := by
        rw [hs, hrhs]; exact symsNames_sub_right (mem_symsNames_mid _ Y sa β)
      have hmem : Y ∈ namesN rs := (namesN_spec hr).2 Y hY
      have := le_sum_map_of_mem (fun Z => 2 * ρ Z + 2) hmem
      simp only [if_neg (S.rhs_ne hr hY), if_true]
      omega

theorem FStep.wfn (S : FStep rs rs' A X pre)
    (hp : ∃ r0 ∈ rs, r0.lhs = A ∧ ∃ suf0, r0.rhs = pre ++ suf0) {st : Name} (h : WFN rs st) :
    WFN rs' st :=
  ⟨S.prodN hp h.prod, S.reachN hp h.reach, S.noLRN hp h.nolr⟩

end step

/-! ## `find_prefix` returns a prefix of a candidate -/

theorem findPrefixN_mem (cands : List (List SymN)) (n : Nat) :
    findPrefixN cands n = [] ∨ findPrefixN cands n ∈ prefixesOfLen cands n := by
  unfold findPrefixN
  simp only
  split
  · exact .inl rfl
  · split
    · rename_i k v hb
      split
      · exact .inr ((bestFirst_spec _).2 k v hb).1
      · exact .inl rfl
    · exact .inl rfl

theorem prefixesOfLen_prefix {cands : List (List SymN)} {n : Nat} {k : List SymN}
    (h : k ∈ prefixesOfLen cands n) : ∃ c ∈ cands, ∃ suf, c = k ++ suf := by
  simp only [prefixesOfLen, List.mem_filterMap] at h
  obtain ⟨c, hc, hk⟩ := h
  split at hk
  · injection hk with hk
    subst hk
    exact ⟨c, hc, c.drop n, (List.take_append_drop n c).symm⟩
  · cases hk

theorem findLongestPrefix_mem (cands : List (List SymN)) : ∀ (f n : Nat),
    findLongestPrefix cands f n = [] ∨ ∃ m, findLongestPrefix cands f n ∈ prefixesOfLen cands m
  | 0, _ => .inl rfl
  | f+1, n => by
    simp only [findLongestPrefix]
    split
    · exact .inl rfl
    · split
      · exact (findPrefixN_mem cands n).imp id (fun h => ⟨n, h⟩)
      · split
        · exact (findPrefixN_mem cands (n + 1)).imp id (fun h => ⟨n + 1, h⟩)
        · exact findLongestPrefix_mem cands f (n + 2)

theorem findPrefix_is_prefix {cands : List (List SymN)} (h : findPrefix cands ≠ []) :
    ∃ c ∈ cands, ∃ suf, c = findPrefix cands ++ suf := by
  rcases findLongestPrefix_mem cands (maxLen cands + 1) 1 with h0 | ⟨m, hm⟩
  · exact absurd h0 h
  · exact prefixesOfLen_prefix hm

/-! ## the prefixes of one round -/

/-- the keys are pairwise different and every prefix is the beginning of a rule of its key -/
def PrefOK (acc : List RuleN) (l : List (Name × List SymN)) : Prop :=
  (l.map (·.1)).Nodup ∧ ∀ x ∈ l, ∃ r0 ∈ acc, r0.lhs = x.1 ∧ ∃ suf, r0.rhs = x.2 ++ suf

theorem filterMap_fst_sublist {β γ : Type} (f : Name × β → Option (Name × γ))
    (hf : ∀ x y, f x = some y → y.1 = x.1) : ∀ l : List (Name × β),
    ((l.filterMap f).map (·.1)).Sublist (l.map (·.1))
  | [] => by simp
  | x :: l => by
    simp only [List.filterMap_cons]
    split
    · exact (filterMap_fst_sublist f hf l).cons _
    · rename_i y hy
      simp only [List.map_cons]
      rw [hf x y hy]
      exact (filterMap_fst_sublist f hf l).cons_cons _

theorem prefOK_init (rs : List RuleN) : PrefOK rs (findLongestPrefixes id rs) := by
  unfold findLongestPrefixes
  constructor
  · have hsub := filterMap_fst_sublist (β := List RuleN) (γ := List SymN)
      (fun x : Name × List RuleN =>
        if (findPrefix (x.2.map (·.rhs))).isEmpty then none
        else some (x.1, findPrefix (x.2.map (·.rhs))))
      (by
        intro x y h
        split at h
        · cases h
        · injection h with h; rw [← h])
      (groupByLhs rs)
    have hkeys : (groupByLhs rs).map (·.1) = firstOccs (rs.map (·.lhs)) := by
      simp [groupByLhs, List.map_map, Function.comp_def]
    rw [hkeys] at hsub
    exact hsub.nodup (firstOccs_nodup _)
  · intro x hx
    simp only [id, List.mem_filterMap] at hx
    obtain ⟨⟨A, g⟩, hg, hx⟩ := hx
    simp only at hx
    split at hx
    · cases hx
    · rename_i hne
      injection hx with hx
      subst hx
      simp only [groupByLhs, List.mem_map] at hg
      obtain ⟨A', _, hA'⟩ := hg
      injection hA' with h1 h2
      subst h1
      subst h2
      have hne' : findPrefix ((rs.filter fun r => r.lhs = A').map (·.rhs)) ≠ [] := by
        simpa using hne
      obtain ⟨c, hc, suf, hs⟩ := findPrefix_is_prefix hne'
      obtain ⟨r0, hr0, rfl⟩ := List.mem_map.1 hc
      simp only [List.mem_filter, decide_eq_true_eq] at hr0
      exact ⟨r0, hr0.1, hr0.2, suf, hs⟩

/-! ## the fold of one round and the loop -/

theorem foldlM_factor_wfn {st : Name} : ∀ (l : List (Name × List SymN)) (rs rs' : List RuleN),
    l.foldlM (fun acc (x : Name × List SymN) => factorOutPrefix acc x.1 x.2) rs = some rs' →
    PrefOK rs l → WFN rs st → WFN rs' st
  | [], rs, rs', h, _, hw => by
    simp only [List.foldlM_nil, Option.pure_def, Option.some.injEq] at h
    exact h ▸ hw
  | (A, pre) :: ps, rs, rs', h, hok, hw => by
    simp only [List.foldlM_cons, Option.bind_eq_bind, Option.bind_eq_some_iff] at h
    obtain ⟨rs1, h1, h2⟩ := h
    have hp := hok.2 (A, pre) List.mem_cons_self
    have hnd := List.nodup_cons.1 (by simpa using hok.1 : (A :: ps.map (·.1)).Nodup)
    rcases factorOutPrefix_fstep h1 with rfl | ⟨X, S⟩
    · exact foldlM_factor_wfn ps _ _ h2
        ⟨hnd.2, fun x hx => hok.2 x (List.mem_cons_of_mem _ hx)⟩ hw
    · refine foldlM_factor_wfn ps rs1 rs' h2 ⟨hnd.2, fun x hx => ?_⟩ (S.wfn hp hw)
      obtain ⟨r0, hr0, hl, suf, hs⟩ := hok.2 x (List.mem_cons_of_mem _ hx)
      have hne : x.1 ≠ A := fun e => hnd.1 (e ▸ List.mem_map.2 ⟨x, hx, rfl⟩)
      exact ⟨r0, S.old r0 hr0 (fun hc => hne (hl ▸ hc.1)), hl, suf, hs⟩

theorem factorOut_wfn {st : Name} {rs rs' : List RuleN} {m : Bool}
    (h : factorOut id rs = some (rs', m)) (hw : WFN rs st) : WFN rs' st := by
  unfold factorOut at h
  simp only [Option.map_eq_some_iff, Prod.mk.injEq] at h
  obtain ⟨rs1, h1, rfl, _⟩ := h
  exact foldlM_factor_wfn _ _ _ h1 (prefOK_init rs) hw

/-- **Left factoring preserves the class** that parol's grammar checks establish: after a
    terminated run every non-terminal used is still productive, every left-hand side still
    reachable, and the left-corner relation still has a rank function. -/
theorem leftFactor_wfn {st : Name} : ∀ (fuel : Nat) (rs rs' : List RuleN),
    leftFactor id fuel rs = some rs' → WFN rs st → WFN rs' st
  | 0, _, _, h, _ => by simp [leftFactor, leftFactorLoop] at h
  | f+1, rs, rs', h, hw => by
    simp only [leftFactor, leftFactorLoop] at h
    split at h
    · cases h
    · rename_i rs1 h1
      exact leftFactor_wfn f rs1 rs' h (factorOut_wfn h1 hw)
    · rename_i rs1 h1
      injection h with h
      subst h
      exact factorOut_wfn h1 hw

end ParolModel
