import ParolModel.Proofs.FixProductive
import ParolModel.Proofs.FixLeftRec
/-! Collects the correctness results of the four fixpoint computations and evaluates the model of
`check_and_transform_grammar_with_ignored` in terms of the four (specified) sets. -/
namespace ParolModel

theorem startHasProd_of_productive {G : Grammar} (h : Productive G G.start) :
    startHasProd G = true := by
  obtain ⟨w, hw⟩ := h
  obtain ⟨p, hp, hl, _⟩ := yield_nt_inv hw
  simp only [startHasProd, List.any_eq_true, decide_eq_true_eq]
  exact ⟨p, hp, hl⟩

/-- The verdict as a function of the three sets. -/
def verdict (np ur lr : List Nat) (ll : Bool) (ign : List Nat) : CheckRes :=
  if !np.isEmpty then .nonProductive np
  else if !(ur.filter (fun a => a ∉ ign)).isEmpty then .unreachable (ur.filter (fun a => a ∉ ign))
  else if ll && !lr.isEmpty then .leftRecursion lr
  else .passed

/-- The check neither panics nor runs out of fuel, and its result is `verdict` of the three sets. -/
theorem checkGrammar_eq {G : Grammar} {np ur lr : List Nat}
    (hnp : nonProductiveSet G = some np) (hur : unreachableSet G = some ur)
    (hlr : leftRecSet G = some lr) (ll : Bool) (ign : List Nat) :
    checkGrammar G ll ign = .ok (verdict np ur lr ll ign) := by
  unfold checkGrammar verdict
  simp only [hnp, hur]
  by_cases h1 : np.isEmpty
  · simp only [h1, Bool.not_true, Bool.false_eq_true, if_false]
    by_cases h2 : (ur.filter (fun a => a ∉ ign)).isEmpty
    · simp only [h2, Bool.not_true, Bool.false_eq_true, if_false]
      cases ll with
      | false => simp
      | true =>
        have hst : startHasProd G = true := by
          apply startHasProd_of_productive
          have hnil : np = [] := List.isEmpty_iff.mp h1
          have hns : G.start ∉ np := by rw [hnil]; simp
          apply Classical.byContradiction
          intro hnp'
          exact hns ((nonProductiveCore_spec hnp G.start).mpr ⟨start_mem_nts G, hnp'⟩)
        simp only [leftRecCode, hst, if_true, hlr, Outcome.ofOption, Bool.true_and]
        by_cases h3 : lr.isEmpty <;> simp [h3]
    · have h2' := Bool.eq_false_iff.mpr h2
      simp only [h2', Bool.not_false, if_true]
  · have h1' := Bool.eq_false_iff.mpr h1
    simp only [h1', Bool.not_false, if_true]

end ParolModel
