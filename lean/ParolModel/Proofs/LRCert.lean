import ParolModel.Model.LRCert
import ParolModel.Proofs.LRSim
/-! Completeness of the LR parser model for tables with a completeness certificate (C03).

`LcCert T gprods M` is the Prop-level content of a verified certificate: `M q p d a` reads "the
LR(1) item (production `p`, dot `d`, lookahead `a`) belongs to state `q`". The main lemma `lc_sim`
is the classical "the LR parser simulates the derivation tree bottom-up": by induction on the
sequence-level derivation `Yield ss u`, a parser whose top state holds an item `A → α . ss, a` and
whose input starts with (tokens of type) `u` followed by the terminal `a` performs the shifts and
reductions of the tree and ends, on the SAME stack below, in a state that holds `A → α ss ., a`.
No viable-prefix theory and no rightmost derivations are needed. -/
namespace ParolModel

/-- What a verified certificate guarantees. `FIRST` is used semantically here (every terminal that
    can actually start the rest of the right-hand side, or the item's own lookahead if the rest can
    vanish); the executable check uses a verified over-approximation (Proofs/LRCertCheck.lean). -/
structure LcCert (T : LRTables) (gprods : List Rule) (M : Nat → Nat → Nat → Nat → Prop) : Prop where
  align : ∀ (p : Nat) (r : Rule), gprods[p]? = some r →
    ∃ pr : LRProd, T.prods[p]? = some pr ∧ pr.len = r.rhs.length
  isolated : ∀ r : Rule, r ∈ gprods → Sym.n T.start ∉ r.rhs
  init : ∀ (p : Nat) (r : Rule), gprods[p]? = some r → r.lhs = T.start → M 0 p 0 0
  complete : ∀ (q p a : Nat) (r : Rule), M q p r.rhs.length a → gprods[p]? = some r →
    ∃ row : LRRow, T.rows[q]? = some row ∧
      if r.lhs = T.start ∧ a = 0 then
        findAct row 0 = some .accept ∧
        ∃ p0, T.prods.findIdx? (·.lhs == T.start) = some p0 ∧ gprods[p0]? = some r
      else ∃ p', findAct row a = some (.reduce r.lhs p') ∧ gprods[p']? = some r
  term : ∀ (q p d a : Nat) (r : Rule) (x : Nat), M q p d a → gprods[p]? = some r → r.rhs[d]? = some (.t x) →
    ∃ (row : LRRow) (q' : Nat), T.rows[q]? = some row ∧ findAct row x = some (.shift q') ∧ M q' p (d + 1) a
  nonterm : ∀ (q p d a : Nat) (r : Rule) (b : Nat), M q p d a → gprods[p]? = some r → r.rhs[d]? = some (.n b) →
    ∃ (row : LRRow) (g : Nat), T.rows[q]? = some row ∧ findGoto row b = some g ∧ M g p (d + 1) a ∧
      ∀ (p' : Nat) (r' : Rule) (u : List Nat), gprods[p']? = some r' → r'.lhs = b →
        Yield (gOfLR T gprods) (r.rhs.drop (d + 1)) u → M q p' 0 (u.head?.getD a)

/-- No skipped token anywhere in the input. -/
def NoSkip (l : List MTok) : Prop := ∀ t ∈ l, t.skip = false

theorem NoSkip.drained {l : List MTok} (h : NoSkip l) : Drained l := by
  intro t rest hl
  exact h t (by rw [hl]; exact List.mem_cons_self)

theorem NoSkip.tail {t : MTok} {l : List MTok} (h : NoSkip (t :: l)) : NoSkip l :=
  fun x hx => h x (List.mem_cons_of_mem _ hx)

theorem NoSkip.right {l1 l2 : List MTok} (h : NoSkip (l1 ++ l2)) : NoSkip l2 :=
  fun x hx => h x (List.mem_append_right _ hx)

theorem noSkip_sigToks (toks : List MTok) : NoSkip (sigToks toks) := by
  intro t ht
  simp only [sigToks, List.mem_filter, Bool.not_eq_true'] at ht
  exact ht.2

theorem coreStep_noskip (T : LRTables) {c : LRCore} (h : NoSkip c.input) :
    coreStep T none c = coreAct T c := by
  unfold coreStep
  have : coreDepthExceeded none c = false := rfl
  rw [this, coreDrainSt_of_drained h.drained]
  rfl

/-- `c'` is reached from `c` by `next` steps of the (depth-unlimited) core loop. -/
inductive LcReach (T : LRTables) : LRCore → LRCore → Prop
  | refl (c : LRCore) : LcReach T c c
  | step {c c' c'' : LRCore} : coreStep T none c = .next c' → LcReach T c' c'' → LcReach T c c''

theorem LcReach.trans {T : LRTables} {a b c : LRCore} (h1 : LcReach T a b) (h2 : LcReach T b c) :
    LcReach T a c := by
  induction h1 with
  | refl _ => exact h2
  | step hs _ ih => exact .step hs (ih h2)

theorem LcReach.snoc {T : LRTables} {a b c : LRCore} (h1 : LcReach T a b)
    (h2 : coreStep T none b = .next c) : LcReach T a c :=
  h1.trans (.step h2 (.refl c))

theorem LcReach.run_ok {T : LRTables} {c c' c'' : LRCore} (h : LcReach T c c')
    (hfin : coreStep T none c' = .fin c'') : ∃ fuel, ∀ steps, (lrCore T none fuel c steps).res = .ok := by
  induction h with
  | refl c =>
    refine ⟨1, fun steps => ?_⟩
    rw [lrCore, hfin]; rfl
  | step hs _ ih =>
    obtain ⟨fuel, hf⟩ := ih hfin
    refine ⟨fuel + 1, fun steps => ?_⟩
    rw [lrCore, hs]; exact hf _

theorem lc_drop_cons {α : Type} : ∀ {l : List α} {d : Nat} {x : α} {s : List α},
    l.drop d = x :: s → l[d]? = some x ∧ l.drop (d + 1) = s := by
  intro l
  induction l with
  | nil => intro d x s h; simp at h
  | cons y l ih =>
    intro d x s h
    cases d with
    | zero =>
      simp only [List.drop_zero, List.cons.injEq] at h
      obtain ⟨rfl, rfl⟩ := h
      simp
    | succ d =>
      simp only [List.drop_succ_cons] at h
      simpa using ih h

theorem lc_nextTerm_append {tu rest : List MTok} {u : List Nat} {a : Nat}
    (hu : tu.map (·.ty) = u) (ha : nextTerm rest = a) : nextTerm (tu ++ rest) = u.head?.getD a := by
  subst hu
  cases tu with
  | nil => simpa using ha
  | cons t tu => simp [nextTerm]

theorem lc_shift_step {T : LRTables} {q q1 : Nat} {stk : List Nat} {t : MTok} {inp : List MTok}
    {its : List PTItem} {acts : List (Nat × List PTItem)} {cm : List Nat} {row : LRRow}
    (hns : NoSkip (t :: inp)) (hrow : T.rows[q]? = some row)
    (hact : findAct row t.ty = some (.shift q1)) :
    coreStep T none ⟨q :: stk, t :: inp, its, acts, cm⟩ =
      .next ⟨q1 :: q :: stk, inp, .tok t.id t.ty :: its, acts, cm⟩ := by
  rw [coreStep_noskip T hns]
  simp [coreAct, hrow, nextTerm, hact]

theorem lc_reduce_step {T : LRTables} {q q1 g A p' : Nat} {qs stk tl : List Nat} {inp : List MTok}
    {its1 its : List PTItem} {acts : List (Nat × List PTItem)} {cm : List Nat} {row row1 : LRRow}
    {pr : LRProd}
    (hns : NoSkip inp) (hst : qs ++ q :: stk = q1 :: tl) (hrow1 : T.rows[q1]? = some row1)
    (hact : findAct row1 (nextTerm inp) = some (.reduce A p')) (hpr : T.prods[p']? = some pr)
    (hqs : qs.length = pr.len) (hits : its1.length = pr.len)
    (hrow : T.rows[q]? = some row) (hgoto : findGoto row A = some g) :
    coreStep T none ⟨qs ++ q :: stk, inp, its1 ++ its, acts, cm⟩ =
      .next ⟨g :: q :: stk, inp, .nt pr.lhs :: its, (p', its1.reverse) :: acts, cm⟩ := by
  rw [coreStep_noskip T hns]
  unfold coreAct
  simp only [hst, hrow1, hact]
  have hlen : pr.len ≤ (⟨q1 :: tl, inp, its1 ++ its, acts, cm⟩ : LRCore).items.length := by
    simp; omega
  rw [coreAction_some hpr hlen]
  simp only
  have hdrop : (coreReduced ⟨q1 :: tl, inp, its1 ++ its, acts, cm⟩ p' pr).states.drop pr.len = q :: stk := by
    simp only [coreReduced, ← hst]
    exact List.drop_left' hqs
  have hg : (T.rows[q]?).bind (fun r => findGoto r A) = some g := by simp [hrow, hgoto]
  rw [coreGoto_next hdrop hg]
  simp only [coreReduced, List.drop_left' hits, List.take_left' hits]

theorem lc_accept_step {T : LRTables} {q1 p0 : Nat} {tl : List Nat} {inp : List MTok}
    {its : List PTItem} {acts : List (Nat × List PTItem)} {cm : List Nat} {row1 : LRRow} {pr : LRProd}
    (hns : NoSkip inp) (hrow1 : T.rows[q1]? = some row1)
    (hact : findAct row1 (nextTerm inp) = some .accept)
    (hp0 : T.prods.findIdx? (·.lhs == T.start) = some p0) (hpr : T.prods[p0]? = some pr)
    (hits : pr.len ≤ its.length) :
    ∃ c', coreStep T none ⟨q1 :: tl, inp, its, acts, cm⟩ = .fin c' := by
  rw [coreStep_noskip T hns]
  unfold coreAct
  simp only [hrow1, hact, hp0]
  rw [coreAction_some hpr (by simpa using hits)]
  exact ⟨_, rfl⟩

/-- **The LR parser simulates a derivation bottom-up.** -/
theorem lc_sim {T : LRTables} {gprods : List Rule} {M : Nat → Nat → Nat → Nat → Prop}
    (hc : LcCert T gprods M) {ss : List Sym} {u : List Nat} (hy : Yield (gOfLR T gprods) ss u) :
    ∀ (p d a q : Nat) (r : Rule) (stk : List Nat) (its : List PTItem) (tu rest : List MTok)
      (acts : List (Nat × List PTItem)) (cm : List Nat),
      gprods[p]? = some r → r.rhs.drop d = ss → M q p d a → tu.map (·.ty) = u →
      NoSkip (tu ++ rest) → nextTerm rest = a →
      ∃ (qs : List Nat) (its' : List PTItem) (acts' : List (Nat × List PTItem)) (q' : Nat) (tl : List Nat),
        qs.length = ss.length ∧ its'.length = ss.length ∧ qs ++ q :: stk = q' :: tl ∧
        M q' p (d + ss.length) a ∧
        LcReach T ⟨q :: stk, tu ++ rest, its, acts, cm⟩ ⟨qs ++ q :: stk, rest, its' ++ its, acts', cm⟩ := by
  induction hy with
  | nil =>
    intro p d a q r stk its tu rest acts cm _ _ hM htu _ _
    have : tu = [] := by simpa using htu
    subst this
    exact ⟨[], [], acts, q, stk, rfl, rfl, rfl, by simpa using hM, .refl _⟩
  | @term x ss' w _ ih =>
    intro p d a q r stk its tu rest acts cm hgp hdrop hM htu hns hnext
    obtain ⟨hget, hdrop'⟩ := lc_drop_cons hdrop
    obtain ⟨t, tu', rfl, hty, htu'⟩ := List.map_eq_cons_iff.1 htu
    obtain ⟨row, q1, hrow, hact, hM1⟩ := hc.term q p d a r x hM hgp hget
    have hns' : NoSkip (t :: (tu' ++ rest)) := by simpa using hns
    have hstep := lc_shift_step (T := T) (stk := stk) (its := its) (acts := acts) (cm := cm)
      hns' hrow (by rw [hty]; exact hact)
    obtain ⟨qs, its', acts', q', tl, hl1, hl2, hhd, hM', hreach⟩ :=
      ih p (d + 1) a q1 r (q :: stk) (.tok t.id t.ty :: its) tu' rest acts cm hgp hdrop' hM1 htu'
        hns'.tail hnext
    refine ⟨qs ++ [q1], its' ++ [.tok t.id t.ty], acts', q', tl, by simp [hl1], by simp [hl2], ?_, ?_, ?_⟩
    · rw [List.append_assoc]; exact hhd
    · have : d + (ss'.length + 1) = d + 1 + ss'.length := by omega
      simp only [List.length_cons]
      rw [this]; exact hM'
    · rw [List.append_assoc, List.append_assoc]
      exact .step hstep hreach
  | @nonterm r' ss' u1 u2 hr' hy1 hy2 ih1 ih2 =>
    intro p d a q r stk its tu rest acts cm hgp hdrop hM htu hns hnext
    obtain ⟨hget, hdrop'⟩ := lc_drop_cons hdrop
    obtain ⟨tu1, tu2, rfl, htu1, htu2⟩ := List.map_eq_append_iff.1 htu
    obtain ⟨p', hgp'⟩ := List.mem_iff_getElem?.1 (show r' ∈ gprods from hr')
    obtain ⟨row, g, hrow, hgoto, hMg, hclos⟩ := hc.nonterm q p d a r r'.lhs hM hgp hget
    have hMb := hclos p' r' u2 hgp' rfl (by rw [hdrop']; exact hy2)
    have hns2 : NoSkip (tu2 ++ rest) := by
      rw [List.append_assoc] at hns; exact hns.right
    have hnext2 : nextTerm (tu2 ++ rest) = u2.head?.getD a := lc_nextTerm_append htu2 hnext
    obtain ⟨qs1, its1, acts1, q1, tl1, hl1, hl1', hhd1, hM1, hreach1⟩ :=
      ih1 p' 0 (u2.head?.getD a) q r' stk its tu1 (tu2 ++ rest) acts cm hgp' (by simp) hMb htu1
        (by rw [← List.append_assoc]; exact hns) hnext2
    -- the reduction of `r'`
    obtain ⟨row1, hrow1, hif⟩ := hc.complete q1 p' (u2.head?.getD a) r' (by simpa using hM1) hgp'
    have hne : r'.lhs ≠ T.start := by
      intro he
      have hmem : Sym.n r'.lhs ∈ r.rhs := List.mem_of_getElem? hget
      rw [he] at hmem
      exact hc.isolated r (List.mem_of_getElem? hgp) hmem
    rw [if_neg (fun h => hne h.1)] at hif
    obtain ⟨p'', hact1, hgp''⟩ := hif
    obtain ⟨pr, hpr, hprlen⟩ := hc.align p'' r' hgp''
    have hstep := lc_reduce_step (T := T) (its := its) (acts := acts1) (cm := cm) hns2 hhd1 hrow1
      (by rw [hnext2]; exact hact1) hpr (by rw [hl1, hprlen]) (by rw [hl1', hprlen]) hrow hgoto
    obtain ⟨qs2, its2, acts2, q2, tl2, hl2, hl2', hhd2, hM2, hreach2⟩ :=
      ih2 p (d + 1) a g r (q :: stk) (.nt pr.lhs :: its) tu2 rest ((p'', its1.reverse) :: acts1) cm
        hgp hdrop' hMg htu2 hns2 hnext
    refine ⟨qs2 ++ [g], its2 ++ [.nt pr.lhs], acts2, q2, tl2, by simp [hl2], by simp [hl2'], ?_, ?_, ?_⟩
    · rw [List.append_assoc]; exact hhd2
    · have : d + (ss'.length + 1) = d + 1 + ss'.length := by omega
      simp only [List.length_cons]
      rw [this]; exact hM2
    · rw [List.append_assoc, List.append_assoc, List.append_assoc]
      exact (hreach1.snoc hstep).trans hreach2

/-- Completeness on the tree-free core loop, for inputs without skipped tokens. -/
theorem lc_core_complete {T : LRTables} {gprods : List Rule} {M : Nat → Nat → Nat → Nat → Prop}
    (hc : LcCert T gprods M) (toks : List MTok) (hns : NoSkip toks)
    (hl : Lang (gOfLR T gprods) (toks.map (·.ty))) :
    ∃ fuel, (lrCoreRun T none fuel toks).res = .ok := by
  obtain ⟨r, hr, hlhs, hy⟩ := yield_nt_inv hl
  obtain ⟨p, hgp⟩ := List.mem_iff_getElem?.1 (show r ∈ gprods from hr)
  have hM0 := hc.init p r hgp hlhs
  obtain ⟨qs, its', acts', q', tl, hl1, hl2, hhd, hM', hreach⟩ :=
    lc_sim hc hy p 0 0 0 r [] [] toks [] [] [] hgp (by simp) hM0 rfl (by simpa using hns) rfl
  obtain ⟨row1, hrow1, hif⟩ := hc.complete q' p 0 r (by simpa using hM') hgp
  rw [if_pos ⟨hlhs, rfl⟩] at hif
  obtain ⟨hact, p0, hp0, hgp0⟩ := hif
  obtain ⟨pr, hpr, hprlen⟩ := hc.align p0 r hgp0
  rw [hhd] at hreach
  obtain ⟨c', hfin⟩ := lc_accept_step (T := T) (tl := tl) (inp := []) (its := its' ++ [])
    (acts := acts') (cm := []) (fun _ h => by cases h) hrow1 hact hp0 hpr (by simp; omega)
  obtain ⟨fuel, hf⟩ := hreach.run_ok hfin
  refine ⟨fuel, ?_⟩
  have := hf 0
  simpa [lrCoreRun] using this

/-- Completeness of `lrRun` from a Prop-level certificate. -/
theorem lc_run_complete {T : LRTables} {gprods : List Rule} {M : Nat → Nat → Nat → Nat → Prop}
    (hc : LcCert T gprods M) (o : Opts) (toks : List MTok) (hd : o.maxDepth = none)
    (hl : Lang (gOfLR T gprods) (sigTypes toks)) : ∃ fuel, (lrRun T o fuel toks).res = .ok := by
  obtain ⟨fuel, hf⟩ := lc_core_complete hc (sigToks toks) (noSkip_sigToks toks) hl
  refine ⟨fuel, ?_⟩
  have h1 := lrCoreRun_skip_irrelevant T none fuel toks
  have h2 := lrRun_core T o fuel toks
  rw [hd] at h2
  have h3 : (lrCoreRun T none fuel toks).res = .ok := by
    have := congrArg (·.1) h1
    simp only [CoreOut.ra] at this
    rw [← this]; exact hf
  have : (lrRun T o fuel toks).core.res = .ok := by rw [h2]; exact h3
  exact this

end ParolModel
