import ParolModel.Model.Adapter
/-! Helper lemmas for C23 (`Props/C23.lean`): the adapter stack machine of `Model/Adapter.lean` run over
the post-order trace of a derivation forest computes the declarative AST `spec`. -/
namespace ParolModel.Ast

/-! ## lists, flatten -/

theorem flattenL_append (a b : List Ast) : flattenL (a ++ b) = flattenL a ++ flattenL b := by
  induction a with
  | nil => simp [flattenL]
  | cons x xs ih => simp [flattenL, ih]

@[simp] theorem flattenL_nil : flattenL [] = [] := by simp [flattenL]
@[simp] theorem flattenL_cons (a : Ast) (l : List Ast) : flattenL (a :: l) = a.flatten ++ flattenL l := by
  simp [flattenL]

@[simp] theorem flatten_vec (l : List Ast) : (Ast.vec l).flatten = flattenL l := by simp [Ast.flatten]
@[simp] theorem flatten_struct (l : List Ast) : (Ast.struct l).flatten = flattenL l := by simp [Ast.flatten]
@[simp] theorem flatten_variant (p : Nat) (l : List Ast) : (Ast.variant p l).flatten = flattenL l := by
  simp [Ast.flatten]
@[simp] theorem flatten_tok (i : Nat) : (Ast.tok i).flatten = [i] := by simp [Ast.flatten]
@[simp] theorem flatten_clipped : Ast.clipped.flatten = [] := by simp [Ast.flatten]
@[simp] theorem flatten_optNone : (Ast.opt none).flatten = [] := by simp [Ast.flatten]
@[simp] theorem flatten_optSome (a : Ast) : (Ast.opt (some a)).flatten = a.flatten := by simp [Ast.flatten]

theorem revVec_revVec (a : Ast) : a.revVec.revVec = a := by
  cases a <;> simp [Ast.revVec]

theorem isVec_iff (a : Ast) : a.isVec = true ↔ ∃ l, a = .vec l := by
  cases a <;> simp [Ast.isVec]

/-! ## forests -/

@[simp] theorem Forest.append_nil_left (g : Forest) : Forest.nil.append g = g := rfl

theorem Forest.append_nil (f : Forest) : f.append .nil = f := by
  induction f with
  | nil => rfl
  | tok id ty r ih => simp [Forest.append, ih]
  | node p l ch r _ ih => simp [Forest.append, ih]

theorem wf_nil_syms (G : AGrammar) (f : Forest) (h : wf G [] f = true) : f = .nil := by
  cases f <;> simp [wf] at h ⊢

theorem wf_cons_inv (G : AGrammar) (s : ASym) (ss : List ASym) (f : Forest) (h : wf G (s :: ss) f = true) :
    (∃ id ty r, f = .tok id ty r ∧ s.sym = .t ty ∧ wf G ss r = true) ∨
    (∃ p l ch r pr, f = .node p l ch r ∧ s.sym = .n l ∧ G.prods[p]? = some pr ∧ pr.lhs = l ∧
      wf G pr.rhs ch = true ∧ wf G ss r = true) := by
  cases f with
  | nil => simp [wf] at h
  | tok id ty r =>
    simp only [wf, Bool.and_eq_true, beq_iff_eq] at h
    exact Or.inl ⟨id, ty, r, rfl, h.1, h.2⟩
  | node p l ch r =>
    simp only [wf, Bool.and_eq_true, beq_iff_eq] at h
    obtain ⟨⟨h1, h2⟩, h3⟩ := h
    cases hp : G.prods[p]? with
    | none => simp [hp] at h2
    | some pr =>
      simp only [hp, Bool.and_eq_true, beq_iff_eq] at h2
      exact Or.inr ⟨p, l, ch, r, pr, rfl, h1, hp, h2.1, h2.2, h3⟩

theorem wf_tok_inv {G : AGrammar} {syms : List ASym} {id ty : Nat} {r : Forest}
    (h : wf G syms (.tok id ty r) = true) :
    ∃ s ss, syms = s :: ss ∧ s.sym = .t ty ∧ wf G ss r = true := by
  cases syms with
  | nil => simp [wf] at h
  | cons s ss =>
    simp only [wf, Bool.and_eq_true, beq_iff_eq] at h
    exact ⟨s, ss, rfl, h.1, h.2⟩

theorem wf_node_inv {G : AGrammar} {syms : List ASym} {p l : Nat} {ch r : Forest}
    (h : wf G syms (.node p l ch r) = true) :
    ∃ s ss pr, syms = s :: ss ∧ s.sym = .n l ∧ G.prods[p]? = some pr ∧ pr.lhs = l ∧
      wf G pr.rhs ch = true ∧ wf G ss r = true := by
  cases syms with
  | nil => simp [wf] at h
  | cons s ss =>
    simp only [wf, Bool.and_eq_true, beq_iff_eq] at h
    obtain ⟨⟨h1, h2⟩, h3⟩ := h
    cases hp : G.prods[p]? with
    | none => simp [hp] at h2
    | some pr =>
      simp only [hp, Bool.and_eq_true, beq_iff_eq] at h2
      exact ⟨s, ss, pr, rfl, h1, rfl, h2.1, h2.2, h3⟩

/-- A derivation forest of `a ++ b` splits into one of `a` and one of `b`. -/
theorem wf_append_split (G : AGrammar) : ∀ (a b : List ASym) (f : Forest), wf G (a ++ b) f = true →
    ∃ fa fb, f = fa.append fb ∧ wf G a fa = true ∧ wf G b fb = true := by
  intro a
  induction a with
  | nil => intro b f h; exact ⟨.nil, f, rfl, by simp [wf], by simpa using h⟩
  | cons s ss ih =>
    intro b f h
    rcases wf_cons_inv G s (ss ++ b) f (by simpa using h) with ⟨id, ty, r, rfl, hs, hr⟩ | ⟨p, l, ch, r, pr, rfl, hs, hp, hl, hch, hr⟩
    · obtain ⟨fa, fb, rfl, h1, h2⟩ := ih b r hr
      exact ⟨.tok id ty fa, fb, rfl, by simp [wf, hs, h1], h2⟩
    · obtain ⟨fa, fb, rfl, h1, h2⟩ := ih b r hr
      exact ⟨.node p l ch fa, fb, rfl, by simp [wf, hs, hp, hl, hch, h1], h2⟩

theorem spec_nil_syms (G : AGrammar) (f : Forest) : spec G [] f = [] := by
  cases f <;> simp [spec]

theorem spec_append (G : AGrammar) : ∀ (a b : List ASym) (fa fb : Forest), wf G a fa = true →
    spec G (a ++ b) (fa.append fb) = spec G a fa ++ spec G b fb := by
  intro a
  induction a with
  | nil =>
    intro b fa fb h
    rw [wf_nil_syms G fa h]; simp [spec_nil_syms]
  | cons s ss ih =>
    intro b fa fb h
    rcases wf_cons_inv G s ss fa h with ⟨id, ty, r, rfl, _, hr⟩ | ⟨p, l, ch, r, pr, rfl, _, _, _, _, hr⟩
    · simp [Forest.append, spec, ih b r fb hr]
    · simp [Forest.append, spec, ih b r fb hr]

/-! ## what `attrsWF` gives -/

theorem mem_of_getElem?' {α} {l : List α} {i : Nat} {a : α} (h : l[i]? = some a) : a ∈ l :=
  List.mem_of_getElem? h

theorem attrsWF_prod {G : AGrammar} (h : attrsWF G = true) {p : Nat} {pr : AProd}
    (hp : G.prods[p]? = some pr) : rhsOK G pr = true ∧ ntOK G pr = true := by
  simp only [attrsWF, Bool.and_eq_true, List.all_eq_true] at h
  exact h.1 pr (List.mem_of_getElem? hp)

theorem attrsWF_start {G : AGrammar} (h : attrsWF G = true) {p : Nat} {pr : AProd}
    (hp : G.prods[p]? = some pr) (hl : pr.lhs = G.start) : pr.attr = .none := by
  simp only [attrsWF, Bool.and_eq_true, List.all_eq_true] at h
  have := h.2 pr (by simp [prodsOf, List.mem_filter, List.mem_of_getElem? hp, hl])
  simpa using this

theorem mem_prodsOf {G : AGrammar} {p : Nat} {pr : AProd} (hp : G.prods[p]? = some pr) :
    pr ∈ prodsOf G pr.lhs := by
  simp [prodsOf, List.mem_filter, List.mem_of_getElem? hp]

theorem isColl_isOpt_false {a : PAttr} (h1 : a.isColl = true) (h2 : a.isOpt = true) : False := by
  cases a <;> simp [PAttr.isColl, PAttr.isOpt] at h1 h2

/-- In a grammar with the attribute discipline a production of a collection non-terminal is a
    collection production. -/
theorem coll_of_isCollNt {G : AGrammar} (h : attrsWF G = true) {q : Nat} {prq : AProd}
    (hq : G.prods[q]? = some prq) (hc : isCollNt G prq.lhs = true) : prq.attr.isColl = true := by
  obtain ⟨_, hnt⟩ := attrsWF_prod h hq
  simp only [isCollNt, List.any_eq_true] at hc
  obtain ⟨x, hx, hxc⟩ := hc
  unfold ntOK at hnt
  cases ha : prq.attr with
  | none =>
    simp only [ha, List.all_eq_true, beq_iff_eq] at hnt
    have := hnt x hx
    rw [this] at hxc; simp [PAttr.isColl] at hxc
  | collStart => rfl
  | addToColl => rfl
  | optSome =>
    simp only [ha, Bool.and_eq_true, List.all_eq_true] at hnt
    exact absurd (isColl_isOpt_false hxc (hnt.1.1.2 x hx)) id
  | optNone =>
    simp only [ha, Bool.and_eq_true, List.all_eq_true] at hnt
    exact absurd (isColl_isOpt_false hxc (hnt.1.1.2 x hx)) id

theorem isCollNt_of_coll {G : AGrammar} {q : Nat} {prq : AProd}
    (hq : G.prods[q]? = some prq) (hc : prq.attr.isColl = true) : isCollNt G prq.lhs = true := by
  simp only [isCollNt, List.any_eq_true]
  exact ⟨prq, mem_prodsOf hq, hc⟩

theorem opt_of_isOptNt {G : AGrammar} (h : attrsWF G = true) {q : Nat} {prq : AProd}
    (hq : G.prods[q]? = some prq) (hc : isOptNt G prq.lhs = true) : prq.attr.isOpt = true := by
  obtain ⟨_, hnt⟩ := attrsWF_prod h hq
  simp only [isOptNt, List.any_eq_true] at hc
  obtain ⟨x, hx, hxc⟩ := hc
  unfold ntOK at hnt
  cases ha : prq.attr with
  | none =>
    simp only [ha, List.all_eq_true, beq_iff_eq] at hnt
    have := hnt x hx
    rw [this] at hxc; simp [PAttr.isOpt] at hxc
  | optSome => rfl
  | optNone => rfl
  | collStart =>
    simp only [ha, Bool.and_eq_true, List.all_eq_true] at hnt
    exact absurd (isColl_isOpt_false (hnt.1.1.2 x hx) hxc) id
  | addToColl =>
    simp only [ha, Bool.and_eq_true, List.all_eq_true] at hnt
    exact absurd (isColl_isOpt_false (hnt.1.1.2 x hx) hxc) id

/-! ## shape of member values -/

/-- What `specNode` / `build` need from the member values of an attributed production. -/
def specNodeOK (G : AGrammar) (pr : AProd) (ms : List Ast) : Prop :=
  match pr.attr with
  | .collStart => ms = []
  | .optNone => ms = []
  | .addToColl => if G.ll then ∃ b l, ms = b ++ [.vec l] else ∃ l r, ms = .vec l :: r
  | _ => True

/-- every top-level application of the forest has well-shaped member values -/
def AllTop (G : AGrammar) : Forest → Prop
  | .nil => True
  | .tok _ _ r => AllTop G r
  | .node p _ ch r => (∀ pr, G.prods[p]? = some pr → specNodeOK G pr (spec G pr.rhs ch)) ∧ AllTop G r

theorem AllTop_append (G : AGrammar) (fa fb : Forest) :
    AllTop G (fa.append fb) ↔ AllTop G fa ∧ AllTop G fb := by
  induction fa with
  | nil => simp [Forest.append, AllTop]
  | tok id ty r ih => simp [Forest.append, AllTop, ih]
  | node p l ch r _ ih => simp [Forest.append, AllTop, ih, and_assoc]

theorem specNode_isVec {G : AGrammar} {p : Nat} {pr : AProd} {ms : List Ast}
    (hok : specNodeOK G pr ms) (hc : pr.attr.isColl = true) : ∃ l, specNode G p pr ms = .vec l := by
  unfold specNodeOK at hok
  unfold specNode
  cases ha : pr.attr with
  | collStart => exact ⟨[], rfl⟩
  | addToColl =>
    simp only [ha] at hok
    by_cases hll : G.ll = true
    · simp only [hll, if_true] at hok ⊢
      obtain ⟨b, l, rfl⟩ := hok
      exact ⟨.struct b :: l, by simp⟩
    · simp only [hll] at hok ⊢
      obtain ⟨l, r, rfl⟩ := hok
      exact ⟨l ++ [.struct r], by simp⟩
  | none => simp [ha, PAttr.isColl] at hc
  | optSome => simp [ha, PAttr.isColl] at hc
  | optNone => simp [ha, PAttr.isColl] at hc

theorem dropLast_append_of_getLast? {α} {l : List α} {a : α} (h : l.getLast? = some a) :
    l.dropLast ++ [a] = l := by
  have hne : l ≠ [] := by intro e; simp [e] at h
  have h2 := List.dropLast_concat_getLast hne
  rw [List.getLast?_eq_some_getLast hne] at h
  injection h with h; rw [← h]; exact h2

/-- The right-hand side of an LL `AddToCollection` production: `body ++ [R']`. -/
theorem rhs_addToColl_ll {G : AGrammar} {pr : AProd} (h : rhsOK G pr = true) (ha : pr.attr = .addToColl)
    (hll : G.ll = true) :
    pr.rhs = pr.rhs.dropLast ++ [⟨.n pr.lhs, .none⟩] ∧ ∀ s ∈ pr.rhs.dropLast, plainOK G s = true := by
  simp only [rhsOK, ha, hll, if_true, Bool.and_eq_true, beq_iff_eq, List.all_eq_true] at h
  exact ⟨(dropLast_append_of_getLast? h.1).symm, h.2⟩

/-- The right-hand side of an LALR `AddToCollection` production: `R' :: body`. -/
theorem rhs_addToColl_lr {G : AGrammar} {pr : AProd} (h : rhsOK G pr = true) (ha : pr.attr = .addToColl)
    (hll : G.ll = false) :
    pr.rhs = ⟨.n pr.lhs, .none⟩ :: pr.rhs.tail ∧ ∀ s ∈ pr.rhs.tail, plainOK G s = true := by
  simp only [rhsOK, ha, hll, Bool.false_eq_true, if_false, Bool.and_eq_true, beq_iff_eq, List.all_eq_true] at h
  refine ⟨?_, h.2⟩
  cases hr : pr.rhs with
  | nil => simp [hr] at h
  | cons x xs => simp [hr] at h ⊢; exact h.1

theorem rhs_empty {G : AGrammar} {pr : AProd} (h : rhsOK G pr = true)
    (ha : pr.attr = .collStart ∨ pr.attr = .optNone) : pr.rhs = [] := by
  rcases ha with ha | ha <;> simpa [rhsOK, ha] using h

theorem rhs_plain {G : AGrammar} {pr : AProd} (h : rhsOK G pr = true)
    (ha : pr.attr = .none ∨ pr.attr = .optSome) : ∀ s ∈ pr.rhs, plainOK G s = true := by
  rcases ha with ha | ha <;> simpa [rhsOK, ha, List.all_eq_true] using h

/-- Member values of attributed productions have the shape `specNode` / `build` rely on. -/
theorem spec_shape {G : AGrammar} (h : attrsWF G = true) :
    ∀ (f : Forest) (syms : List ASym), wf G syms f = true → AllTop G f := by
  intro f
  induction f with
  | nil => intro _ _; trivial
  | tok id ty r ih =>
    intro syms hw
    obtain ⟨s, ss, rfl, _, hr⟩ := wf_tok_inv hw
    exact ih ss hr
  | node p l ch r ihch ihr =>
    intro syms hw
    obtain ⟨s, ss, pr, rfl, hs, hp, hl, hch, hr⟩ := wf_node_inv hw
    refine ⟨?_, ihr ss hr⟩
    intro pr' hp'
    have : pr' = pr := by rw [hp] at hp'; injection hp' with e; exact e.symm
    subst this
    have hall := ihch pr'.rhs hch
    obtain ⟨hrhs, hnt⟩ := attrsWF_prod h hp
    unfold specNodeOK
    cases ha : pr'.attr with
    | none => trivial
    | optSome => trivial
    | collStart => simp only []; rw [rhs_empty hrhs (Or.inl ha)]; exact spec_nil_syms G ch
    | optNone => simp only []; rw [rhs_empty hrhs (Or.inr ha)]; exact spec_nil_syms G ch
    | addToColl =>
      simp only []
      have hcoll : isCollNt G pr'.lhs = true := isCollNt_of_coll hp (by simp [ha, PAttr.isColl])
      by_cases hll : G.ll = true
      · simp only [hll, if_true]
        obtain ⟨hr1, _⟩ := rhs_addToColl_ll hrhs ha hll
        rw [hr1] at hch
        obtain ⟨fa, fb, rfl, hwa, hwb⟩ := wf_append_split G _ _ ch hch
        obtain ⟨_, hfb⟩ := (AllTop_append G fa fb).1 hall
        rcases wf_cons_inv G _ _ fb hwb with ⟨id, ty, r', rfl, hs', _⟩ | ⟨q, l', chq, r', prq, rfl, hs', hq, hlq, hchq, hr'⟩
        · simp at hs'
        · have hr'nil : r' = .nil := wf_nil_syms G r' hr'
          subst hr'nil
          simp only [Sym.n.injEq] at hs'
          have hqc : prq.attr.isColl = true := coll_of_isCollNt h hq (by rw [hlq, ← hs']; exact hcoll)
          obtain ⟨items, hitems⟩ := specNode_isVec (p := q) (hfb.1 prq hq) hqc
          rw [hr1, spec_append G _ _ fa _ hwa]
          refine ⟨spec G pr'.rhs.dropLast fa, items, ?_⟩
          simp [spec, hq, hitems]
      · have hll' : G.ll = false := by simpa using hll
        simp only [hll', Bool.false_eq_true, if_false]
        obtain ⟨hr1, _⟩ := rhs_addToColl_lr hrhs ha hll'
        rw [hr1] at hch
        rcases wf_cons_inv G _ _ ch hch with ⟨id, ty, r', rfl, hs', _⟩ | ⟨q, l', chq, r', prq, rfl, hs', hq, hlq, hchq, hr'⟩
        · simp at hs'
        · simp only [Sym.n.injEq] at hs'
          have hqc : prq.attr.isColl = true := coll_of_isCollNt h hq (by rw [hlq, ← hs']; exact hcoll)
          obtain ⟨items, hitems⟩ := specNode_isVec (p := q) (hall.1 prq hq) hqc
          rw [hr1]
          exact ⟨items, spec G pr'.rhs.tail r', by simp [spec, hq, hitems]⟩

theorem specNode_flatten {G : AGrammar} {p : Nat} {pr : AProd} {ms : List Ast}
    (hok : specNodeOK G pr ms) : (specNode G p pr ms).flatten = flattenL ms := by
  unfold specNodeOK at hok
  unfold specNode
  cases ha : pr.attr with
  | none => simp only []; split <;> simp
  | optSome => simp
  | collStart => simp only [ha] at hok; simp [hok]
  | optNone => simp only [ha] at hok; simp [hok]
  | addToColl =>
    simp only [ha] at hok
    by_cases hll : G.ll = true
    · simp only [hll, if_true] at hok ⊢
      obtain ⟨b, l, rfl⟩ := hok
      simp [flattenL_append]
    · simp only [hll] at hok ⊢
      obtain ⟨l, r, rfl⟩ := hok
      simp [flattenL_append]

/-- The tokens of the declarative AST, read in order, are the non-clipped tokens of the derivation. -/
theorem flatten_spec {G : AGrammar} (h : attrsWF G = true) :
    ∀ (f : Forest) (syms : List ASym), wf G syms f = true → flattenL (spec G syms f) = expToks G syms f := by
  intro f
  induction f with
  | nil => intro syms _; cases syms <;> simp [spec, expToks]
  | tok id ty r ih =>
    intro syms hw
    obtain ⟨s, ss, rfl, _, hr⟩ := wf_tok_inv hw
    simp only [spec, expToks, flattenL_cons, ih ss hr]
    split <;> simp
  | node p l ch r ihch ihr =>
    intro syms hw
    have hall := spec_shape h _ _ hw
    obtain ⟨s, ss, pr, rfl, hs, hp, hl, hch, hr⟩ := wf_node_inv hw
    simp only [spec, expToks, flattenL_cons, ihr ss hr, hp]
    split
    · simp
    · rw [specNode_flatten (hall.1 pr hp), ihch pr.rhs hch]

/-! ## the machine: values it pushes, stack after a trace -/

/-- The value the machine pushes for one application of production `p` with children `ch`: the
    declarative value, except that an LL collection is still in reverse order (it is reversed once,
    at the `RepetitionAnchor`). -/
def raw (G : AGrammar) (p : Nat) (ch : Forest) : Ast :=
  match G.prods[p]? with
  | some pr =>
    let v := specNode G p pr (spec G pr.rhs ch)
    if G.ll && pr.attr.isColl then v.revVec else v
  | none => .clipped

/-- The items the trace of a forest leaves on the stack (top first). -/
def nodeStack (G : AGrammar) : Forest → Stack
  | .nil => []
  | .tok _ _ r => nodeStack G r
  | .node p l ch r => nodeStack G r ++ [(l, raw G p ch)]

/-- The member value the parent's adapter function obtains for a non-terminal child. -/
def mval1 (G : AGrammar) (s : ASym) (p : Nat) (ch : Forest) : Ast :=
  if s.attr = .clipped then .clipped
  else if s.attr = .repAnchor ∧ G.ll = true then (raw G p ch).revVec else raw G p ch

def mvals (G : AGrammar) : List ASym → Forest → List Ast
  | s :: ss, .tok id _ r => (if s.attr = .clipped then Ast.clipped else .tok id) :: mvals G ss r
  | s :: ss, .node p _ ch r => mval1 G s p ch :: mvals G ss r
  | _, _ => []

theorem mvals_nil_syms (G : AGrammar) (f : Forest) : mvals G [] f = [] := by
  cases f <;> simp [mvals]

theorem mvals_append (G : AGrammar) : ∀ (a b : List ASym) (fa fb : Forest), wf G a fa = true →
    mvals G (a ++ b) (fa.append fb) = mvals G a fa ++ mvals G b fb := by
  intro a
  induction a with
  | nil =>
    intro b fa fb h
    rw [wf_nil_syms G fa h]; simp [mvals_nil_syms]
  | cons s ss ih =>
    intro b fa fb h
    rcases wf_cons_inv G s ss fa h with ⟨id, ty, r, rfl, _, hr⟩ | ⟨p, l, ch, r, pr, rfl, _, _, _, _, hr⟩
    · simp [Forest.append, mvals, ih b r fb hr]
    · simp [Forest.append, mvals, ih b r fb hr]

/-- every `RepetitionAnchor` symbol is a collection non-terminal -/
def anchorsOK (G : AGrammar) (syms : List ASym) : Prop :=
  ∀ s ∈ syms, s.attr = .repAnchor → ∃ a, s.sym = .n a ∧ isCollNt G a = true

theorem plain_anchor {G : AGrammar} {s : ASym} (h : plainOK G s = true) (ha : s.attr = .repAnchor) :
    ∃ a, s.sym = .n a ∧ isCollNt G a = true := by
  unfold plainOK at h
  cases hs : s.sym with
  | t i => simp [hs, ha] at h
  | n a =>
    simp only [hs, ha, Bool.and_eq_true, beq_iff_eq] at h
    exact ⟨a, rfl, by simpa using h.1⟩

theorem rhs_anchorsOK {G : AGrammar} {pr : AProd} (h : rhsOK G pr = true) : anchorsOK G pr.rhs := by
  intro s hs ha
  cases hat : pr.attr with
  | none => exact plain_anchor (rhs_plain h (Or.inl hat) s hs) ha
  | optSome => exact plain_anchor (rhs_plain h (Or.inr hat) s hs) ha
  | collStart => rw [rhs_empty h (Or.inl hat)] at hs; cases hs
  | optNone => rw [rhs_empty h (Or.inr hat)] at hs; cases hs
  | addToColl =>
    by_cases hll : G.ll = true
    · obtain ⟨hr1, hpl⟩ := rhs_addToColl_ll h hat hll
      rw [hr1] at hs
      rcases List.mem_append.1 hs with hs | hs
      · exact plain_anchor (hpl s hs) ha
      · simp only [List.mem_singleton] at hs; subst hs; simp at ha
    · have hll' : G.ll = false := by simpa using hll
      obtain ⟨hr1, hpl⟩ := rhs_addToColl_lr h hat hll'
      rw [hr1] at hs
      rcases List.mem_cons.1 hs with hs | hs
      · subst hs; simp at ha
      · exact plain_anchor (hpl s hs) ha

/-- The raw value of a collection application is a vector. -/
theorem raw_isVec {G : AGrammar} {p : Nat} {pr : AProd} {ch : Forest}
    (hp : G.prods[p]? = some pr) (hc : pr.attr.isColl = true)
    (hall : specNodeOK G pr (spec G pr.rhs ch)) : ∃ l, raw G p ch = .vec l := by
  obtain ⟨l, hl⟩ := specNode_isVec (p := p) hall hc
  unfold raw
  simp only [hp, hl, hc, Bool.and_true]
  by_cases hll : G.ll = true
  · exact ⟨l.reverse, by simp [hll, Ast.revVec]⟩
  · exact ⟨l, by simp [hll]⟩

theorem pair_items (G : AGrammar) : ∀ (f : Forest) (syms : List ASym), wf G syms f = true →
    pair syms f.items = some (syms.zip f.items) := by
  intro f
  induction f with
  | nil => intro syms h; cases syms <;> simp [wf] at h ⊢; simp [pair]
  | tok id ty r ih =>
    intro syms hw
    obtain ⟨s, ss, rfl, _, hr⟩ := wf_tok_inv hw
    simp [pair, Forest.items, ih ss hr]
  | node p l ch r _ ihr =>
    intro syms hw
    obtain ⟨s, ss, pr, rfl, _, _, _, _, hr⟩ := wf_node_inv hw
    simp [pair, Forest.items, ihr ss hr]

theorem popArgs_append (ll : Bool) : ∀ (a b : List (ASym × PTItem)) (st : Stack) (acc : List Ast),
    popArgs ll (a ++ b) st acc =
      match popArgs ll a st acc with
      | some (acc', st') => popArgs ll b st' acc'
      | none => none := by
  intro a
  induction a with
  | nil => intro b st acc; simp [popArgs]
  | cons x xs ih =>
    intro b st acc
    obtain ⟨s, c⟩ := x
    simp only [List.cons_append, popArgs]
    cases hs : s.sym with
    | t i =>
      simp only []
      split
      · exact ih b st _
      · cases c with
        | tok id ty => exact ih b st _
        | nt l => rfl
    | n a =>
      simp only []
      split
      · exact ih b _ _
      · cases st with
        | nil => rfl
        | cons top st' =>
          obtain ⟨b', v⟩ := top
          simp only []
          split
          · rfl
          · split
            · split
              · exact ih b st' _
              · rfl
            · exact ih b st' _

/-- the `pop_and_reverse_item!` sites find vectors -/
def PopOK (G : AGrammar) : List ASym → Forest → Prop
  | _ :: ss, .tok _ _ r => PopOK G ss r
  | s :: ss, .node p _ ch r =>
    (s.attr = .repAnchor → G.ll = true → ∃ l, raw G p ch = .vec l) ∧ PopOK G ss r
  | _, _ => True

theorem popOK_of {G : AGrammar} (h : attrsWF G = true) :
    ∀ (f : Forest) (syms : List ASym), wf G syms f = true → anchorsOK G syms → PopOK G syms f := by
  intro f
  induction f with
  | nil => intro syms _ _; cases syms <;> simp [PopOK]
  | tok id ty r ih =>
    intro syms hw ha
    obtain ⟨s, ss, rfl, _, hr⟩ := wf_tok_inv hw
    exact ih ss hr (fun x hx => ha x (List.mem_cons_of_mem _ hx))
  | node p l ch r _ ihr =>
    intro syms hw ha
    have hall := spec_shape h _ _ hw
    obtain ⟨s, ss, pr, rfl, hs, hp, hl, hch, hr⟩ := wf_node_inv hw
    refine ⟨?_, ihr ss hr (fun x hx => ha x (List.mem_cons_of_mem _ hx))⟩
    intro hat _
    obtain ⟨a, hsa, hca⟩ := ha s List.mem_cons_self hat
    rw [hs] at hsa
    injection hsa with hsa
    subst hsa
    exact raw_isVec hp (coll_of_isCollNt h hp (by rw [hl]; exact hca)) (hall.1 pr hp)

theorem popArgs_nodeStack (G : AGrammar) : ∀ (f : Forest) (syms : List ASym) (st : Stack) (acc : List Ast),
    wf G syms f = true → PopOK G syms f →
    popArgs G.ll (syms.zip f.items).reverse (nodeStack G f ++ st) acc = some (mvals G syms f ++ acc, st) := by
  intro f
  induction f with
  | nil =>
    intro syms st acc hw _
    cases syms <;> simp [wf] at hw
    simp [Forest.items, popArgs, nodeStack, mvals]
  | tok id ty r ih =>
    intro syms st acc hw hpop
    obtain ⟨s, ss, rfl, hs, hr⟩ := wf_tok_inv hw
    simp only [Forest.items, List.zip_cons_cons, List.reverse_cons, popArgs_append, nodeStack]
    rw [ih ss st acc hr hpop]
    simp only [popArgs, hs, mvals]
    split <;> simp
  | node p l ch r _ ihr =>
    intro syms st acc hw hpop
    obtain ⟨s, ss, pr, rfl, hs, hp, hl, hch, hr⟩ := wf_node_inv hw
    obtain ⟨hv, hpop'⟩ := hpop
    simp only [Forest.items, List.zip_cons_cons, List.reverse_cons, popArgs_append, nodeStack,
      List.append_assoc, List.singleton_append]
    rw [ihr ss _ acc hr hpop']
    simp only [popArgs, hs, mvals, mval1]
    by_cases hc : s.attr = .clipped
    · simp [hc]
    · simp only [hc, if_false, ne_eq, not_true_eq_false]
      by_cases ha : s.attr = .repAnchor ∧ G.ll = true
      · obtain ⟨l', hl'⟩ := hv ha.1 ha.2
        simp [ha, hl', Ast.isVec]
      · simp [ha]

theorem plain_nt {G : AGrammar} {s : ASym} {a : Nat} (h : plainOK G s = true) (hs : s.sym = .n a) :
    (isCollNt G a = true ↔ s.attr = .repAnchor) ∧ (isOptNt G a = true ↔ s.attr = .option) := by
  unfold plainOK at h
  simp only [hs, Bool.and_eq_true, beq_iff_eq] at h
  constructor
  · constructor
    · intro hc; have := h.1; rw [hc] at this; simpa using this.symm
    · intro ha; have := h.1; simpa [ha] using this
  · constructor
    · intro hc; have := h.2; rw [hc] at this; simpa using this.symm
    · intro ha; have := h.2; simpa [ha] using this

/-- Outside the recursive position of an LL `AddToCollection` production the member values the
    machine obtains are the declarative ones: collections are reversed exactly at their anchors. -/
theorem mvals_eq_spec {G : AGrammar} (h : attrsWF G = true) :
    ∀ (f : Forest) (syms : List ASym), wf G syms f = true → (∀ s ∈ syms, plainOK G s = true) →
    mvals G syms f = spec G syms f := by
  intro f
  induction f with
  | nil => intro syms _ _; cases syms <;> simp [mvals, spec]
  | tok id ty r ih =>
    intro syms hw hpl
    obtain ⟨s, ss, rfl, _, hr⟩ := wf_tok_inv hw
    simp [mvals, spec, ih ss hr (fun x hx => hpl x (List.mem_cons_of_mem _ hx))]
  | node p l ch r _ ihr =>
    intro syms hw hpl
    obtain ⟨s, ss, pr, rfl, hs, hp, hl, hch, hr⟩ := wf_node_inv hw
    simp only [mvals, spec, ihr ss hr (fun x hx => hpl x (List.mem_cons_of_mem _ hx)), hp,
      List.cons.injEq, and_true]
    obtain ⟨hcoll, _⟩ := plain_nt (hpl s List.mem_cons_self) hs
    unfold mval1 raw
    simp only [hp]
    by_cases hc : s.attr = .clipped
    · simp [hc]
    · simp only [hc, if_false]
      by_cases ha : s.attr = .repAnchor
      · have hpc : pr.attr.isColl = true := coll_of_isCollNt h hp (by rw [hl]; exact hcoll.2 ha)
        by_cases hll : G.ll = true
        · simp [ha, hll, hpc, revVec_revVec]
        · simp [ha, hll]
      · have hpc : pr.attr.isColl = false := by
          cases hx : pr.attr.isColl with
          | false => rfl
          | true => exact absurd (hcoll.1 (by rw [← hl]; exact isCollNt_of_coll hp hx)) ha
        simp [ha, hpc]

/-- the user-action call one application makes -/
def nodeCalls (G : AGrammar) (p : Nat) (pr : AProd) (ch : Forest) : List Call :=
  if pr.attr = .none ∧ pr.lhs ∈ G.userNts then [⟨pr.lhs, specNode G p pr (spec G pr.rhs ch)⟩] else []

/-- `build` applied to the member values the machine obtained yields the raw value. -/
theorem build_raw {G : AGrammar} (h : attrsWF G = true) {p : Nat} {pr : AProd} {ch : Forest}
    (hp : G.prods[p]? = some pr) (hch : wf G pr.rhs ch = true) :
    build G p pr (mvals G pr.rhs ch) = some (raw G p ch, nodeCalls G p pr ch) := by
  obtain ⟨hrhs, hnt⟩ := attrsWF_prod h hp
  have hall := spec_shape h _ _ hch
  unfold build raw nodeCalls
  simp only [hp]
  cases ha : pr.attr with
  | none =>
    rw [mvals_eq_spec h _ _ hch (rhs_plain hrhs (Or.inl ha))]
    simp [specNode, ha, PAttr.isColl]
  | optSome =>
    rw [mvals_eq_spec h _ _ hch (rhs_plain hrhs (Or.inr ha))]
    simp [specNode, ha, PAttr.isColl]
  | optNone => simp [specNode, ha, PAttr.isColl]
  | collStart =>
    simp only [specNode, ha, PAttr.isColl, Bool.and_true]
    by_cases hll : G.ll = true <;> simp [hll, Ast.revVec]
  | addToColl =>
    have hcoll : isCollNt G pr.lhs = true := isCollNt_of_coll hp (by simp [ha, PAttr.isColl])
    by_cases hll : G.ll = true
    · obtain ⟨hr1, hpl⟩ := rhs_addToColl_ll hrhs ha hll
      have hch' := hch
      rw [hr1] at hch'
      obtain ⟨fa, fb, rfl, hwa, hwb⟩ := wf_append_split G _ _ ch hch'
      obtain ⟨_, hfb⟩ := (AllTop_append G fa fb).1 hall
      rcases wf_cons_inv G _ _ fb hwb with ⟨id, ty, r', rfl, hs', _⟩ | ⟨q, l', chq, r', prq, rfl, hs', hq, hlq, hchq, hr'⟩
      · simp at hs'
      · have hr'nil : r' = .nil := wf_nil_syms G r' hr'
        subst hr'nil
        simp only [Sym.n.injEq] at hs'
        have hqc : prq.attr.isColl = true := coll_of_isCollNt h hq (by rw [hlq, ← hs']; exact hcoll)
        obtain ⟨items, hitems⟩ := specNode_isVec (p := q) (hfb.1 prq hq) hqc
        have hm : mvals G pr.rhs (fa.append (.node q l' chq .nil)) =
            spec G pr.rhs.dropLast fa ++ [.vec items.reverse] := by
          rw [hr1, mvals_append G _ _ fa _ hwa, mvals_eq_spec h _ _ hwa hpl]
          simp [mvals, mval1, raw, hq, hitems, hqc, hll, Ast.revVec]
        have hsp : spec G pr.rhs (fa.append (.node q l' chq .nil)) =
            spec G pr.rhs.dropLast fa ++ [.vec items] := by
          rw [hr1, spec_append G _ _ fa _ hwa]
          simp [spec, hq, hitems]
        rw [hm, hsp]
        simp [specNode, ha, hll, PAttr.isColl, Ast.revVec]
    · have hll' : G.ll = false := by simpa using hll
      obtain ⟨hr1, hpl⟩ := rhs_addToColl_lr hrhs ha hll'
      have hch' := hch
      rw [hr1] at hch'
      rcases wf_cons_inv G _ _ ch hch' with ⟨id, ty, r', rfl, hs', _⟩ | ⟨q, l', chq, r', prq, rfl, hs', hq, hlq, hchq, hr'⟩
      · simp at hs'
      · simp only [Sym.n.injEq] at hs'
        have hqc : prq.attr.isColl = true := coll_of_isCollNt h hq (by rw [hlq, ← hs']; exact hcoll)
        obtain ⟨items, hitems⟩ := specNode_isVec (p := q) (hall.1 prq hq) hqc
        have hm : mvals G pr.rhs (.node q l' chq r') = .vec items :: spec G pr.rhs.tail r' := by
          rw [hr1]
          simp only [mvals, List.tail_cons]
          rw [mvals_eq_spec h _ _ hr' hpl]
          simp [mval1, raw, hq, hitems, hll']
        have hsp : spec G pr.rhs (.node q l' chq r') = .vec items :: spec G pr.rhs.tail r' := by
          rw [hr1]
          simp [spec, hq, hitems]
        rw [hm, hsp]
        simp [specNode, ha, hll', PAttr.isColl]

/-- One adapter function applied when the children's items are on top of the stack. -/
theorem step_node {G : AGrammar} (h : attrsWF G = true) {p : Nat} {pr : AProd} {ch : Forest} (st : Stack)
    (hp : G.prods[p]? = some pr) (hch : wf G pr.rhs ch = true) :
    step G (nodeStack G ch ++ st) (p, ch.items) = some ((pr.lhs, raw G p ch) :: st, nodeCalls G p pr ch) := by
  obtain ⟨hrhs, _⟩ := attrsWF_prod h hp
  unfold step
  simp only [hp, pair_items G ch pr.rhs hch]
  rw [popArgs_nodeStack G ch pr.rhs st [] hch (popOK_of h ch pr.rhs hch (rhs_anchorsOK hrhs))]
  simp only [List.append_nil]
  rw [build_raw h hp hch]

theorem run_append (G : AGrammar) : ∀ (a b : List Act) (st : Stack),
    run G (a ++ b) st =
      match run G a st with
      | some (st', c1) =>
        (match run G b st' with
         | some (st'', c2) => some (st'', c1 ++ c2)
         | none => none)
      | none => none := by
  intro a
  induction a with
  | nil =>
    intro b st
    simp only [List.nil_append, run]
    cases run G b st with
    | none => rfl
    | some x => simp
  | cons x xs ih =>
    intro b st
    simp only [List.cons_append, run]
    cases hs : step G st x with
    | none => rfl
    | some r =>
      obtain ⟨st', c⟩ := r
      simp only []
      rw [ih b st']
      cases run G xs st' with
      | none => rfl
      | some r2 =>
        obtain ⟨st2, c2⟩ := r2
        simp only []
        cases run G b st2 with
        | none => rfl
        | some r3 => simp

/-- The calls of a forest in terms of `nodeCalls`. -/
theorem specCalls_node (G : AGrammar) {p l : Nat} {pr : AProd} {ch r : Forest}
    (hp : G.prods[p]? = some pr) (hl : pr.lhs = l) :
    specCalls G (.node p l ch r) = specCalls G ch ++ nodeCalls G p pr ch ++ specCalls G r := by
  simp [specCalls, hp, nodeCalls, hl]

/-- **The adapter over the post-order trace of a derivation forest** leaves, on top of the stack it
    started with, one item per tree (the raw values) and makes exactly the declarative calls. -/
theorem run_trace {G : AGrammar} (h : attrsWF G = true) :
    ∀ (f : Forest) (syms : List ASym) (st : Stack), wf G syms f = true →
    run G f.trace st = some (nodeStack G f ++ st, specCalls G f) := by
  intro f
  induction f with
  | nil => intro syms st _; simp [Forest.trace, run, nodeStack, specCalls]
  | tok id ty r ih =>
    intro syms st hw
    obtain ⟨s, ss, rfl, _, hr⟩ := wf_tok_inv hw
    simpa [Forest.trace, nodeStack, specCalls] using ih ss st hr
  | node p l ch r ihch ihr =>
    intro syms st hw
    obtain ⟨s, ss, pr, rfl, hs, hp, hl, hch, hr⟩ := wf_node_inv hw
    simp only [Forest.trace]
    rw [run_append, ihch pr.rhs st hch]
    simp only [run]
    rw [step_node h st hp hch]
    simp only []
    rw [ihr ss _ hr, specCalls_node G hp hl, hl]
    simp [nodeStack]

/-! ## user-action calls and applications of a non-terminal -/

theorem attr_none_of_user {G : AGrammar} (h : attrsWF G = true) {p : Nat} {pr : AProd}
    (hp : G.prods[p]? = some pr) (hu : pr.lhs ∈ G.userNts) : pr.attr = .none := by
  obtain ⟨_, hnt⟩ := attrsWF_prod h hp
  unfold ntOK at hnt
  cases ha : pr.attr with
  | none => rfl
  | collStart => simp [ha] at hnt; exact absurd hu hnt.2
  | addToColl => simp [ha] at hnt; exact absurd hu hnt.2
  | optSome => simp [ha] at hnt; exact absurd hu hnt.2
  | optNone => simp [ha] at hnt; exact absurd hu hnt.2

/-- A non-terminal with a user action gets one call per application. -/
theorem calls_count {G : AGrammar} (h : attrsWF G = true) {a : Nat} (ha : a ∈ G.userNts) :
    ∀ (f : Forest) (syms : List ASym), wf G syms f = true →
    ((specCalls G f).filter (fun c => c.nt == a)).length = occ a f := by
  intro f
  induction f with
  | nil => intro _ _; simp [specCalls, occ]
  | tok id ty r ih =>
    intro syms hw
    obtain ⟨s, ss, rfl, _, hr⟩ := wf_tok_inv hw
    simpa [specCalls, occ] using ih ss hr
  | node p l ch r ihch ihr =>
    intro syms hw
    obtain ⟨s, ss, pr, rfl, hs, hp, hl, hch, hr⟩ := wf_node_inv hw
    rw [specCalls_node G hp hl]
    simp only [List.filter_append, List.length_append, ihch pr.rhs hch, ihr ss hr, occ]
    by_cases hla : l = a
    · subst hla
      have hn : pr.attr = .none := attr_none_of_user h hp (by rw [hl]; exact ha)
      simp [nodeCalls, hn, hl, ha]
      omega
    · have : ((nodeCalls G p pr ch).filter (fun c => c.nt == a)).length = 0 := by
        unfold nodeCalls
        split
        · simp [hl, hla]
        · simp
      simp [this, hla]

/-- A non-terminal that is on no right-hand side reachable without passing the start symbol is not
    applied below symbols other than itself and the start symbol. -/
theorem occ_zero {G : AGrammar} {a st : Nat}
    (h1 : ∀ pr ∈ G.prods, pr.lhs ≠ st → ∀ s ∈ pr.rhs, s.sym ≠ .n a)
    (h2 : ∀ pr ∈ G.prods, ∀ s ∈ pr.rhs, s.sym ≠ .n st) :
    ∀ (f : Forest) (syms : List ASym), wf G syms f = true →
    (∀ s ∈ syms, s.sym ≠ .n a ∧ s.sym ≠ .n st) → occ a f = 0 := by
  intro f
  induction f with
  | nil => intro _ _ _; rfl
  | tok id ty r ih =>
    intro syms hw hP
    obtain ⟨s, ss, rfl, _, hr⟩ := wf_tok_inv hw
    exact ih ss hr (fun x hx => hP x (List.mem_cons_of_mem _ hx))
  | node p l ch r ihch ihr =>
    intro syms hw hP
    obtain ⟨s, ss, pr, rfl, hs, hp, hl, hch, hr⟩ := wf_node_inv hw
    obtain ⟨hna, hnst⟩ := hP s List.mem_cons_self
    rw [hs] at hna hnst
    have hla : l ≠ a := fun e => hna (by rw [e])
    have hlst : pr.lhs ≠ st := fun e => hnst (by rw [← hl, e])
    have hmem := List.mem_of_getElem? hp
    simp only [occ, hla, if_false]
    rw [ihch pr.rhs hch (fun x hx => ⟨h1 pr hmem hlst x hx, h2 pr hmem x hx⟩),
      ihr ss hr (fun x hx => hP x (List.mem_cons_of_mem _ hx))]

/-- What `startIsolated` says about a derivation of the start symbol: the root applies a production
    of the start symbol, and either the user's start symbol is the start symbol and is not applied
    below the root, or (augmented grammar `S' → S`) the root has the single child `S`, applied by
    `q`, and `S` is not applied below that child. -/
theorem start_shape {G : AGrammar} (h : startIsolated G = true) (f : Forest)
    (hw : wf G [⟨.n G.start, .none⟩] f = true) :
    ∃ p ch pr, f = .node p G.start ch .nil ∧ G.prods[p]? = some pr ∧ pr.lhs = G.start ∧
      wf G pr.rhs ch = true ∧
      ((G.userStart = G.start ∧ occ G.start ch = 0) ∨
       (G.userStart ≠ G.start ∧ pr.rhs = [⟨.n G.userStart, .none⟩] ∧
         ∃ q chq prq, ch = .node q G.userStart chq .nil ∧ G.prods[q]? = some prq ∧
           prq.lhs = G.userStart ∧ wf G prq.rhs chq = true ∧ occ G.userStart chq = 0)) := by
  simp only [startIsolated, Bool.and_eq_true, List.all_eq_true, Bool.or_eq_true, beq_iff_eq, bne_iff_ne] at h
  obtain ⟨⟨_, h2⟩, h3⟩ := h
  rcases wf_cons_inv G _ _ f hw with ⟨id, ty, r, rfl, hs, _⟩ | ⟨p, l, ch, r, pr, rfl, hs, hp, hl, hch, hr⟩
  · simp at hs
  · have hrn := wf_nil_syms G r hr
    subst hrn
    simp only [Sym.n.injEq] at hs
    subst hs
    have hmem := List.mem_of_getElem? hp
    refine ⟨p, ch, pr, rfl, hp, hl, hch, ?_⟩
    have hA : occ G.start ch = 0 :=
      occ_zero (G := G) (a := G.start) (st := G.start) (fun pr hpr _ => h2 pr hpr) h2 ch pr.rhs hch
        (fun x hx => ⟨h2 pr hmem x hx, h2 pr hmem x hx⟩)
    by_cases hus : G.userStart = G.start
    · exact Or.inl ⟨hus, hA⟩
    · rcases h3 with h3 | h3
      · exact absurd h3 hus
      · right
        have h1 : ∀ pr ∈ G.prods, pr.lhs ≠ G.start → ∀ s ∈ pr.rhs, s.sym ≠ .n G.userStart := by
          intro pr' hpr' hne x hx
          have := h3 pr' hpr'
          simp only [hne, if_false, List.all_eq_true, bne_iff_ne] at this
          simpa using this x hx
        have hp3 : pr.rhs = [⟨.n G.userStart, .none⟩] := by
          have := h3 pr hmem
          simpa [hl] using this
        refine ⟨hus, hp3, ?_⟩
        rw [hp3] at hch
        rcases wf_cons_inv G _ _ ch hch with ⟨id, ty, r', rfl, hs', _⟩ | ⟨q, l', chq, r', prq, rfl, hs', hq, hlq, hchq, hr'⟩
        · simp at hs'
        · have hrn' := wf_nil_syms G r' hr'
          subst hrn'
          simp only [Sym.n.injEq] at hs'
          subst hs'
          have hqmem := List.mem_of_getElem? hq
          have hqne : prq.lhs ≠ G.start := by rw [hlq]; exact hus
          exact ⟨q, chq, prq, rfl, hq, hlq, hchq,
            occ_zero (G := G) (a := G.userStart) (st := G.start) h1 h2 chq prq.rhs hchq
              (fun x hx => ⟨h1 prq hqmem hqne x hx, h2 prq hqmem x hx⟩)⟩

/-- With an isolated start symbol the user's start symbol is applied exactly once. -/
theorem occ_start {G : AGrammar} (h : startIsolated G = true) (f : Forest)
    (hw : wf G [⟨.n G.start, .none⟩] f = true) : occ G.userStart f = 1 := by
  obtain ⟨p, ch, pr, rfl, hp, hl, hch, hcase⟩ := start_shape h f hw
  rcases hcase with ⟨hus, ho⟩ | ⟨hus, _, q, chq, prq, rfl, hq, hlq, hchq, ho⟩
  · rw [hus]; simp [occ, ho]
  · have hne' : ¬ G.start = G.userStart := fun e => hus e.symm
    simp [occ, ho, hne']

theorem filter_calls_nil {G : AGrammar} (h : attrsWF G = true) {a : Nat} (ha : a ∈ G.userNts)
    {f : Forest} {syms : List ASym} (hw : wf G syms f = true) (ho : occ a f = 0) :
    (specCalls G f).filter (fun c => c.nt == a) = [] := by
  have := calls_count h ha f syms hw
  rw [ho] at this
  exact List.eq_nil_of_length_eq_zero this

/-! ## repetitions: the iterations of a collection, in input order -/

/-- `Iterations G a t bodies`: `t` is a derivation tree of the collection non-terminal `a` — the
    chain `R' → body R' → … → ε` (LL) resp. `R' → R' body → … ` (LALR) — and `bodies` lists, **in
    input order**, the member values of the bodies of its iterations (`spec` of the body's
    sub-forest: in an LL application the body forest `fb` stands left of, i.e. before, the rest of
    the chain; in an LALR application right of, i.e. after, the chain so far). -/
inductive Iterations (G : AGrammar) (a : Nat) : Forest → List (List Ast) → Prop
  | start {p : Nat} {pr : AProd} : G.prods[p]? = some pr → pr.lhs = a → pr.attr = .collStart →
      Iterations G a (.node p a .nil .nil) []
  | ll {p : Nat} {pr : AProd} {fb next : Forest} {its : List (List Ast)} :
      G.ll = true → G.prods[p]? = some pr → pr.lhs = a → pr.attr = .addToColl →
      wf G pr.rhs.dropLast fb = true → Iterations G a next its →
      Iterations G a (.node p a (fb.append next) .nil) (spec G pr.rhs.dropLast fb :: its)
  | lr {p : Nat} {pr : AProd} {fb next : Forest} {its : List (List Ast)} :
      G.ll = false → G.prods[p]? = some pr → pr.lhs = a → pr.attr = .addToColl →
      wf G pr.rhs.tail fb = true → Iterations G a next its →
      Iterations G a (.node p a (next.append fb) .nil) (its ++ [spec G pr.rhs.tail fb])

/-- every top-level collection application is an iteration chain whose declarative value lists the
    iterations in input order -/
def AllIter (G : AGrammar) : Forest → Prop
  | .nil => True
  | .tok _ _ r => AllIter G r
  | .node p l ch r =>
    (∀ pr, G.prods[p]? = some pr → pr.attr.isColl = true →
      ∃ its, Iterations G l (.node p l ch .nil) its ∧
        specNode G p pr (spec G pr.rhs ch) = .vec (its.map Ast.struct)) ∧ AllIter G r

theorem AllIter_append (G : AGrammar) (fa fb : Forest) :
    AllIter G (fa.append fb) ↔ AllIter G fa ∧ AllIter G fb := by
  induction fa with
  | nil => simp [Forest.append, AllIter]
  | tok id ty r ih => simp [Forest.append, AllIter, ih]
  | node p l ch r _ ih => simp [Forest.append, AllIter, ih, and_assoc]

theorem iterations_all {G : AGrammar} (h : attrsWF G = true) :
    ∀ (f : Forest) (syms : List ASym), wf G syms f = true → AllIter G f := by
  intro f
  induction f with
  | nil => intro _ _; trivial
  | tok id ty r ih =>
    intro syms hw
    obtain ⟨s, ss, rfl, _, hr⟩ := wf_tok_inv hw
    exact ih ss hr
  | node p l ch r ihch ihr =>
    intro syms hw
    obtain ⟨s, ss, pr, rfl, hs, hp, hl, hch, hr⟩ := wf_node_inv hw
    refine ⟨?_, ihr ss hr⟩
    intro pr' hp' hc
    have : pr' = pr := by rw [hp] at hp'; injection hp' with e; exact e.symm
    subst this
    have hall := ihch pr'.rhs hch
    obtain ⟨hrhs, _⟩ := attrsWF_prod h hp
    have hcoll : isCollNt G pr'.lhs = true := isCollNt_of_coll hp hc
    cases ha : pr'.attr with
    | none => simp [ha, PAttr.isColl] at hc
    | optSome => simp [ha, PAttr.isColl] at hc
    | optNone => simp [ha, PAttr.isColl] at hc
    | collStart =>
      have hre := rhs_empty hrhs (Or.inl ha)
      rw [hre] at hch
      have hcn := wf_nil_syms G ch hch
      subst hcn
      exact ⟨[], .start hp hl ha, by simp [specNode, ha]⟩
    | addToColl =>
      by_cases hll : G.ll = true
      · obtain ⟨hr1, _⟩ := rhs_addToColl_ll hrhs ha hll
        have hch' := hch
        rw [hr1] at hch'
        obtain ⟨fa, fb, rfl, hwa, hwb⟩ := wf_append_split G _ _ ch hch'
        obtain ⟨_, hfb⟩ := (AllIter_append G fa fb).1 hall
        rcases wf_cons_inv G _ _ fb hwb with ⟨id, ty, r', rfl, hs', _⟩ | ⟨q, l', chq, r', prq, rfl, hs', hq, hlq, hchq, hr'⟩
        · simp at hs'
        · have hr'nil : r' = .nil := wf_nil_syms G r' hr'
          subst hr'nil
          simp only [Sym.n.injEq] at hs'
          have hqc : prq.attr.isColl = true := coll_of_isCollNt h hq (by rw [hlq, ← hs']; exact hcoll)
          obtain ⟨its, hit, hval⟩ := hfb.1 prq hq hqc
          have hll' : l' = l := by rw [← hs', hl]
          subst hll'
          refine ⟨spec G pr'.rhs.dropLast fa :: its, .ll hll hp hl ha hwa hit, ?_⟩
          have hsp : spec G pr'.rhs (fa.append (.node q l' chq .nil)) =
              spec G pr'.rhs.dropLast fa ++ [.vec (its.map Ast.struct)] := by
            rw [hr1, spec_append G _ _ fa _ hwa]
            simp [spec, hq, hval]
          rw [hsp]
          simp [specNode, ha, hll]
      · have hll' : G.ll = false := by simpa using hll
        obtain ⟨hr1, _⟩ := rhs_addToColl_lr hrhs ha hll'
        have hch' := hch
        rw [hr1] at hch'
        rcases wf_cons_inv G _ _ ch hch' with ⟨id, ty, r', rfl, hs', _⟩ | ⟨q, l', chq, r', prq, rfl, hs', hq, hlq, hchq, hr'⟩
        · simp at hs'
        · simp only [Sym.n.injEq] at hs'
          have hqc : prq.attr.isColl = true := coll_of_isCollNt h hq (by rw [hlq, ← hs']; exact hcoll)
          obtain ⟨its, hit, hval⟩ := hall.1 prq hq hqc
          have hl'l : l' = l := by rw [← hs', hl]
          subst hl'l
          refine ⟨its ++ [spec G pr'.rhs.tail r'], ?_, ?_⟩
          · have := Iterations.lr (fb := r') hll' hp hl ha hr' hit
            simpa [Forest.append] using this
          · have hsp : spec G pr'.rhs (.node q l' chq r') =
                .vec (its.map Ast.struct) :: spec G pr'.rhs.tail r' := by
              rw [hr1]
              simp [spec, hq, hval]
            rw [hsp]
            simp [specNode, ha, hll']

/-! ## the non-clipped tokens among all tokens -/

theorem expToks_sublist (G : AGrammar) : ∀ (f : Forest) (syms : List ASym), wf G syms f = true →
    (expToks G syms f).Sublist f.allToks := by
  intro f
  induction f with
  | nil => intro syms _; cases syms <;> simp [expToks, Forest.allToks]
  | tok id ty r ih =>
    intro syms hw
    obtain ⟨s, ss, rfl, _, hr⟩ := wf_tok_inv hw
    simp only [expToks, Forest.allToks]
    split
    · exact List.Sublist.cons _ (by simpa using ih ss hr)
    · exact List.Sublist.cons_cons _ (by simpa using ih ss hr)
  | node p l ch r ihch ihr =>
    intro syms hw
    obtain ⟨s, ss, pr, rfl, hs, hp, hl, hch, hr⟩ := wf_node_inv hw
    simp only [expToks, Forest.allToks, hp]
    apply List.Sublist.append _ (ihr ss hr)
    split
    · exact List.nil_sublist _
    · exact ihch pr.rhs hch

theorem expToks_noclip {G : AGrammar} (hn : ∀ pr ∈ G.prods, ∀ s ∈ pr.rhs, s.attr ≠ .clipped) :
    ∀ (f : Forest) (syms : List ASym), wf G syms f = true → (∀ s ∈ syms, s.attr ≠ .clipped) →
    expToks G syms f = f.allToks := by
  intro f
  induction f with
  | nil => intro syms _ _; cases syms <;> simp [expToks, Forest.allToks]
  | tok id ty r ih =>
    intro syms hw hc
    obtain ⟨s, ss, rfl, _, hr⟩ := wf_tok_inv hw
    simp [expToks, Forest.allToks, hc s List.mem_cons_self,
      ih ss hr (fun x hx => hc x (List.mem_cons_of_mem _ hx))]
  | node p l ch r ihch ihr =>
    intro syms hw hc
    obtain ⟨s, ss, pr, rfl, hs, hp, hl, hch, hr⟩ := wf_node_inv hw
    simp [expToks, Forest.allToks, hp, hc s List.mem_cons_self,
      ihch pr.rhs hch (hn pr (List.mem_of_getElem? hp)),
      ihr ss hr (fun x hx => hc x (List.mem_cons_of_mem _ hx))]

/-! ## options -/

theorem spec_option {G : AGrammar} (h : attrsWF G = true) {s : ASym} {ss : List ASym} {q l : Nat}
    {ch r : Forest} {prq : AProd} (hw : wf G (s :: ss) (.node q l ch r) = true)
    (hpl : plainOK G s = true) (hopt : s.attr = .option) (hq : G.prods[q]? = some prq) :
    (prq.attr = .optSome ∧
      spec G (s :: ss) (.node q l ch r) = .opt (some (.struct (spec G prq.rhs ch))) :: spec G ss r) ∨
    (prq.attr = .optNone ∧ ch = .nil ∧
      spec G (s :: ss) (.node q l ch r) = .opt none :: spec G ss r) := by
  obtain ⟨s', ss', pr, heq, hs, hp, hl, hch, hr⟩ := wf_node_inv hw
  injection heq with e1 e2
  subst e1; subst e2
  have : pr = prq := by rw [hp] at hq; injection hq
  subst this
  obtain ⟨_, hoptnt⟩ := plain_nt hpl hs
  have hisopt : pr.attr.isOpt = true := opt_of_isOptNt h hp (by rw [hl]; exact hoptnt.2 hopt)
  obtain ⟨hrhs, _⟩ := attrsWF_prod h hp
  cases ha : pr.attr with
  | none => simp [ha, PAttr.isOpt] at hisopt
  | collStart => simp [ha, PAttr.isOpt] at hisopt
  | addToColl => simp [ha, PAttr.isOpt] at hisopt
  | optSome =>
    left
    simp [spec, hopt, hp, specNode, ha]
  | optNone =>
    right
    have hre := rhs_empty hrhs (Or.inr ha)
    rw [hre] at hch
    exact ⟨rfl, wf_nil_syms G ch hch, by simp [spec, hopt, hp, specNode, ha]⟩

end ParolModel.Ast
