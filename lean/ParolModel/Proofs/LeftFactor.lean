import ParolModel.Model.LeftFactor
import ParolModel.Proofs.Canon
import ParolModel.Proofs.Bnf
/-! Left factoring (C10): one `factor_out_prefix` step preserves the language, the loop does, and
on exit no two non-empty alternatives of a non-terminal start with the same symbol. -/
namespace ParolModel

/-! ## names of the EBNF image of plain rules -/

theorem altVars_toFactor (ss : List SymN) : altVars (ss.map SymN.toFactor) = symsNames ss := by
  induction ss with
  | nil => rfl
  | cons s ss ih =>
    cases s <;> simp [altVars, Factor.vars, SymN.toFactor, symsNames, SymN.names] at ih ⊢ <;>
      simpa [symsNames] using ih

theorem mem_namesN {x : Name} {rs : List RuleN} :
    x ∈ namesN rs ↔ ∃ r ∈ rs, x = r.lhs ∨ x ∈ symsNames r.rhs := by
  simp only [namesN, List.mem_flatMap, RuleN.names, List.mem_cons, List.mem_filterMap, symsNames]
  constructor
  · rintro ⟨r, hr, h | ⟨s, hs, hx⟩⟩
    · exact ⟨r, hr, .inl h⟩
    · refine ⟨r, hr, .inr ⟨s, hs, ?_⟩⟩
      cases s <;> simp [SymN.names] at hx ⊢
      exact hx.symm
  · rintro ⟨r, hr, h | ⟨s, hs, hx⟩⟩
    · exact ⟨r, hr, .inl h⟩
    · refine ⟨r, hr, .inr ⟨s, hs, ?_⟩⟩
      cases s <;> simp [SymN.names] at hx ⊢
      exact hx.symm

theorem variableNames_toEProd {x : Name} {rs : List RuleN} :
    x ∈ variableNames (rs.map RuleN.toEProd) ↔ x ∈ namesN rs := by
  rw [mem_variableNames, mem_namesN]
  constructor
  · rintro ⟨p, hp, h⟩
    obtain ⟨r, hr, rfl⟩ := List.mem_map.1 hp
    refine ⟨r, hr, ?_⟩
    rcases h with h | ⟨alt, ha, hx⟩
    · exact .inl h
    · simp only [RuleN.toEProd, List.mem_singleton] at ha
      subst ha
      exact .inr (by simpa [altVars_toFactor] using hx)
  · rintro ⟨r, hr, h⟩
    refine ⟨r.toEProd, List.mem_map.2 ⟨r, hr, rfl⟩, ?_⟩
    rcases h with h | h
    · exact .inl h
    · exact .inr ⟨⟨r.rhs.map SymN.toFactor, r.attr⟩, by simp [RuleN.toEProd],
        by simpa [altVars_toFactor] using h⟩

theorem symsNames_append (a b : List SymN) : symsNames (a ++ b) = symsNames a ++ symsNames b := by
  simp [symsNames]

/-! ## membership in the result of one `factor_out_prefix` -/

theorem factorOutRule_cases (X : Name) (pre : List SymN) (r : RuleN) :
    (factorOutRule X pre r = r ∧ ¬ (∃ suf, r.rhs = pre ++ suf)) ∨
      (∃ suf, r.rhs = pre ++ suf ∧ factorOutRule X pre r = ⟨X, suf, r.attr⟩) := by
  unfold factorOutRule
  by_cases hlen : r.rhs.length < pre.length
  · left
    simp only [hlen, decide_true, Bool.true_or, if_true, true_and]
    rintro ⟨suf, hs⟩
    rw [hs, List.length_append] at hlen
    omega
  · by_cases htake : r.rhs.take pre.length = pre
    · right
      refine ⟨r.rhs.drop pre.length, ?_, ?_⟩
      · conv => lhs; rw [← List.take_append_drop pre.length r.rhs, htake]
      · simp [hlen, htake]
    · left
      simp only [hlen, decide_false, Bool.false_or, ne_eq, htake, not_false_eq_true, decide_true,
        if_true, true_and]
      rintro ⟨suf, hs⟩
      apply htake
      rw [hs]
      simp

theorem mem_takeWhile_imp' {α} (p : α → Bool) : ∀ (l : List α) (x : α), x ∈ l.takeWhile p → p x = true
  | [], _, h => by simp at h
  | a :: l, x, h => by
    simp only [List.takeWhile_cons] at h
    split at h
    · rename_i hp
      simp only [List.mem_cons] at h
      rcases h with rfl | h
      · exact hp
      · exact mem_takeWhile_imp' p l x h
    · simp at h

theorem mem_factored {rs : List RuleN} {A X : Name} {pre : List SymN} {r' : RuleN} :
    r' ∈ rs.takeWhile (fun r => r.lhs ≠ A) ++
        modFactor X A pre ((rs.dropWhile (fun r => r.lhs ≠ A)).filter (fun r => r.lhs = A)) ++
        (rs.dropWhile (fun r => r.lhs ≠ A)).filter (fun r => r.lhs ≠ A) ↔
      (r' ∈ rs ∧ r'.lhs ≠ A) ∨ r' = ⟨A, pre ++ [.n X .none], .none⟩ ∨
        ∃ r ∈ rs, r.lhs = A ∧ r' = factorOutRule X pre r := by
  have hsplit := List.takeWhile_append_dropWhile (p := fun r : RuleN => decide (r.lhs ≠ A)) (l := rs)
  have htw : ∀ r ∈ rs.takeWhile (fun r => r.lhs ≠ A), r.lhs ≠ A := by
    intro r hr
    simpa using mem_takeWhile_imp' _ _ _ hr
  have hmem : ∀ r, r ∈ rs ↔ r ∈ rs.takeWhile (fun r => r.lhs ≠ A) ∨
      r ∈ rs.dropWhile (fun r => r.lhs ≠ A) := by
    intro r
    rw [← List.mem_append, List.takeWhile_append_dropWhile]
  simp only [List.mem_append, modFactor, List.mem_cons, List.mem_map, List.mem_filter,
    decide_eq_true_eq]
  constructor
  · rintro ((h | h | ⟨r, ⟨hr, hA⟩, rfl⟩) | ⟨h, hA⟩)
    · exact .inl ⟨(hmem _).2 (.inl h), htw _ h⟩
    · exact .inr (.inl h)
    · exact .inr (.inr ⟨r, (hmem _).2 (.inr hr), hA, rfl⟩)
    · exact .inl ⟨(hmem _).2 (.inr h), hA⟩
  · rintro (⟨h, hA⟩ | h | ⟨r, hr, hA, rfl⟩)
    · rcases (hmem _).1 h with h | h
      · exact .inl (.inl h)
      · exact .inr ⟨h, hA⟩
    · exact .inl (.inr (.inl h))
    · rcases (hmem _).1 hr with h | h
      · exact absurd hA (htw _ h)
      · exact .inl (.inr (.inr ⟨r, ⟨h, hA⟩, rfl⟩))

/-! ## one step -/

theorem toEProd_alts (r : RuleN) : r.toEProd.alts = [⟨r.rhs.map SymN.toFactor, r.attr⟩] := rfl
theorem toEProd_lhs (r : RuleN) : r.toEProd.lhs = r.lhs := rfl

theorem der_of_rule {rs : List RuleN} {r : RuleN} (hr : r ∈ rs) {u : List Nat}
    (hu : YieldE (rs.map RuleN.toEProd) (r.rhs.map SymN.toFactor) u) :
    Der (rs.map RuleN.toEProd) r.lhs u :=
  ⟨r.toEProd, List.mem_map.2 ⟨r, hr, rfl⟩, rfl, ⟨r.rhs.map SymN.toFactor, r.attr⟩,
    by simp [toEProd_alts], hu⟩

/-- the factored-out suffixes as one group -/
def suffixGroup (rs : List RuleN) (A : Name) (pre : List SymN) : Alts :=
  (rs.filter (fun r => r.lhs = A)).filterMap fun r =>
    if r.rhs.take pre.length = pre ∧ pre.length ≤ r.rhs.length then
      some ((r.rhs.drop pre.length).map SymN.toFactor) else none

theorem mem_suffixGroup {rs : List RuleN} {A : Name} {pre : List SymN} {alt : Alt} :
    alt ∈ suffixGroup rs A pre ↔
      ∃ r ∈ rs, r.lhs = A ∧ ∃ suf, r.rhs = pre ++ suf ∧ alt = suf.map SymN.toFactor := by
  simp only [suffixGroup, List.mem_filterMap, List.mem_filter, decide_eq_true_eq]
  constructor
  · rintro ⟨r, ⟨hr, hA⟩, h⟩
    split at h
    · rename_i hc
      injection h with h
      refine ⟨r, hr, hA, r.rhs.drop pre.length, ?_, h.symm⟩
      conv => lhs; rw [← List.take_append_drop pre.length r.rhs, hc.1]
    · cases h
  · rintro ⟨r, hr, hA, suf, hs, rfl⟩
    refine ⟨r, ⟨hr, hA⟩, ?_⟩
    rw [hs]
    simp

theorem factorOutPrefix_ok {rs rs' : List RuleN} {A : Name} {pre : List SymN}
    (h : factorOutPrefix rs A pre = some rs') :
    StepOK (rs.map RuleN.toEProd) (rs'.map RuleN.toEProd) := by
  unfold factorOutPrefix at h
  split at h
  · rename_i hany
    have hAex : ∃ r ∈ rs, r.lhs = A := by
      simpa only [List.any_eq_true, decide_eq_true_eq] using hany
    split at h
    · cases h
    · rename_i X hX
      have h := Option.some.inj h
      subst h
      have hfresh : X ∉ namesN rs := generateName_not_mem hX
      have hXlhs : ∀ r ∈ rs, r.lhs ≠ X := by
        intro r hr e
        exact hfresh (mem_namesN.2 ⟨r, hr, .inl e.symm⟩)
      have hXrhs : ∀ r ∈ rs, X ∉ symsNames r.rhs := by
        intro r hr e
        exact hfresh (mem_namesN.2 ⟨r, hr, .inr e⟩)
      have hAX : A ≠ X := by
        obtain ⟨r, hr, hA⟩ := hAex
        exact hA ▸ hXlhs r hr
      -- abbreviations
      generalize hres : rs.takeWhile (fun r => r.lhs ≠ A) ++
        modFactor X A pre ((rs.dropWhile (fun r => r.lhs ≠ A)).filter (fun r => r.lhs = A)) ++
        (rs.dropWhile (fun r => r.lhs ≠ A)).filter (fun r => r.lhs ≠ A) = res
      have hmem : ∀ r', r' ∈ res ↔ (r' ∈ rs ∧ r'.lhs ≠ A) ∨ r' = ⟨A, pre ++ [.n X .none], .none⟩ ∨
          ∃ r ∈ rs, r.lhs = A ∧ r' = factorOutRule X pre r := by
        intro r'; rw [← hres]; exact mem_factored
      have hprefix : (⟨A, pre ++ [.n X .none], .none⟩ : RuleN) ∈ res := (hmem _).2 (.inr (.inl rfl))
      have hXpre : (∃ r ∈ rs, r.lhs = A ∧ ∃ suf, r.rhs = pre ++ suf) → X ∉ symsNames pre := by
        rintro ⟨r, hr, _, suf, hs⟩ hx
        apply hXrhs r hr
        rw [hs, symsNames_append]
        exact List.mem_append_left _ hx
      refine ⟨fun fs w hfs => ⟨?_, ?_⟩, ?_, ?_⟩
      · -- old → new
        apply yieldE_sim
        intro p hp alt ha u hu
        obtain ⟨r, hr, rfl⟩ := List.mem_map.1 hp
        simp only [toEProd_alts, List.mem_singleton] at ha
        subst ha
        simp only at hu
        by_cases hA : r.lhs = A
        · rcases factorOutRule_cases X pre r with ⟨he, _⟩ | ⟨suf, hs, he⟩
          · have : r ∈ res := (hmem _).2 (.inr (.inr ⟨r, hr, hA, he.symm⟩))
            exact der_of_rule this hu
          · have hsufrule : (⟨X, suf, r.attr⟩ : RuleN) ∈ res :=
              (hmem _).2 (.inr (.inr ⟨r, hr, hA, he.symm⟩))
            rw [hs, List.map_append] at hu
            obtain ⟨u1, u2, rfl, h1, h2⟩ := YieldE.split hu
            have hX2 : Der (res.map RuleN.toEProd) X u2 := der_of_rule hsufrule h2
            have := der_of_rule hprefix (u := u1 ++ u2) (by
              simp only [List.map_append, List.map_cons, List.map_nil, SymN.toFactor]
              exact YieldE.append h1 (hX2.yield _))
            simpa [toEProd_lhs, hA] using this
        · exact der_of_rule ((hmem _).2 (.inl ⟨hr, hA⟩)) hu
      · -- new → old
        intro hnew
        have hXfs : X ∉ altVars fs := fun hx =>
          hfresh (variableNames_toEProd.1 (hfs X hx))
        have := yieldE_translate (G' := res.map RuleN.toEProd) (G := rs.map RuleN.toEProd) X
          [.group (suffixGroup rs A pre)] ?_ ?_ hnew
        · rwa [substAlt_fresh X _ fs hXfs] at this
        · -- productions with a left-hand side other than X
          intro q hq hne alt ha u hu
          obtain ⟨r', hr', rfl⟩ := List.mem_map.1 hq
          simp only [toEProd_alts, List.mem_singleton] at ha
          subst ha
          simp only [toEProd_lhs] at hne hu ⊢
          have old : ∀ r ∈ rs, YieldE (rs.map RuleN.toEProd)
              (substAlt X [.group (suffixGroup rs A pre)] (r.rhs.map SymN.toFactor)) u →
              Der (rs.map RuleN.toEProd) r.lhs u := by
            intro r hr hu
            rw [substAlt_fresh X _ _ (by rw [altVars_toFactor]; exact hXrhs r hr)] at hu
            exact der_of_rule hr hu
          rcases (hmem _).1 hr' with ⟨hr, _⟩ | rfl | ⟨r, hr, hA, rfl⟩
          · exact old r' hr hu
          · -- the prefix rule A → pre X
            simp only [List.map_append, List.map_cons, List.map_nil, SymN.toFactor,
              substAlt_append, substAlt, Factor.subst, if_true, List.append_nil] at hu
            obtain ⟨u1, u2, rfl, h1, h2⟩ := YieldE.split hu
            obtain ⟨alt, ha, h2'⟩ := yieldE_group_inv h2
            obtain ⟨r, hr, hA, suf, hs, rfl⟩ := mem_suffixGroup.1 ha
            have hxp : X ∉ symsNames pre := hXpre ⟨r, hr, hA, suf, hs⟩
            rw [substAlt_fresh X _ _ (by rw [altVars_toFactor]; exact hxp)] at h1
            have := der_of_rule hr (u := u1 ++ u2) (by
              rw [hs, List.map_append]; exact YieldE.append h1 h2')
            simpa [hA] using this
          · rcases factorOutRule_cases X pre r with ⟨he, _⟩ | ⟨suf, hs, he⟩
            · rw [he] at hu ⊢
              exact old r hr hu
            · rw [he] at hne
              exact absurd rfl hne
        · -- productions of X
          intro q hq he alt ha u hu
          obtain ⟨r', hr', rfl⟩ := List.mem_map.1 hq
          simp only [toEProd_alts, List.mem_singleton] at ha
          subst ha
          simp only [toEProd_lhs] at he hu
          rcases (hmem _).1 hr' with ⟨hr, _⟩ | rfl | ⟨r, hr, hA, rfl⟩
          · exact absurd he (hXlhs r' hr)
          · exact absurd he hAX
          · rcases factorOutRule_cases X pre r with ⟨he', _⟩ | ⟨suf, hs, he'⟩
            · rw [he'] at he
              exact absurd he (hXlhs r hr)
            · rw [he'] at hu
              simp only at hu
              have hxs : X ∉ symsNames suf := by
                intro hx
                apply hXrhs r hr
                rw [hs, symsNames_append]
                exact List.mem_append_right _ hx
              rw [substAlt_fresh X _ _ (by rw [altVars_toFactor]; exact hxs)] at hu
              exact yieldE_group_intro (mem_suffixGroup.2 ⟨r, hr, hA, suf, hs, rfl⟩) hu
      · -- names are kept
        intro x hx
        rw [variableNames_toEProd] at hx ⊢
        obtain ⟨r, hr, h⟩ := mem_namesN.1 hx
        by_cases hA : r.lhs = A
        · rcases factorOutRule_cases X pre r with ⟨he, _⟩ | ⟨suf, hs, he⟩
          · exact mem_namesN.2 ⟨r, (hmem _).2 (.inr (.inr ⟨r, hr, hA, he.symm⟩)), h⟩
          · rcases h with h | h
            · exact mem_namesN.2 ⟨_, hprefix, .inl (by simp [h, hA])⟩
            · rw [hs, symsNames_append, List.mem_append] at h
              rcases h with h | h
              · exact mem_namesN.2 ⟨_, hprefix, .inr (by
                  simp only [symsNames_append, List.mem_append]; exact .inl h)⟩
              · exact mem_namesN.2 ⟨_, (hmem _).2 (.inr (.inr ⟨r, hr, hA, he.symm⟩)), .inr h⟩
        · exact mem_namesN.2 ⟨r, (hmem _).2 (.inl ⟨hr, hA⟩), h⟩
      · -- left-hand sides
        intro q hq
        obtain ⟨r', hr', rfl⟩ := List.mem_map.1 hq
        simp only [toEProd_lhs, List.map_map]
        obtain ⟨rA, hrA, hAA⟩ := hAex
        rcases (hmem _).1 hr' with ⟨hr, _⟩ | rfl | ⟨r, hr, hA, rfl⟩
        · exact .inl (List.mem_map.2 ⟨r', hr, rfl⟩)
        · exact .inl (List.mem_map.2 ⟨rA, hrA, by simp [toEProd_lhs, hAA]⟩)
        · rcases factorOutRule_cases X pre r with ⟨he, _⟩ | ⟨suf, hs, he⟩
          · rw [he]; exact .inl (List.mem_map.2 ⟨r, hr, rfl⟩)
          · rw [he]; exact .inr (fun hx => hfresh (variableNames_toEProd.1 hx))
  · have h := Option.some.inj h
    subst h
    exact StepOK.refl _

/-! ## the fold and the loop -/

theorem foldlM_factor_ok : ∀ (prefixes : List (Name × List SymN)) (rs rs' : List RuleN),
    prefixes.foldlM (fun acc (x : Name × List SymN) => factorOutPrefix acc x.1 x.2) rs = some rs' →
      StepOK (rs.map RuleN.toEProd) (rs'.map RuleN.toEProd)
  | [], rs, rs', h => by
    simp only [List.foldlM_nil, Option.pure_def, Option.some.injEq] at h
    subst h
    exact StepOK.refl _
  | (A, pre) :: ps, rs, rs', h => by
    simp only [List.foldlM_cons, Option.bind_eq_bind, Option.bind_eq_some_iff] at h
    obtain ⟨rs1, h1, h2⟩ := h
    exact (factorOutPrefix_ok h1).trans (foldlM_factor_ok ps rs1 rs' h2)

theorem factorOut_ok {ord : GroupOrd} {rs rs' : List RuleN} {m : Bool}
    (h : factorOut ord rs = some (rs', m)) :
    StepOK (rs.map RuleN.toEProd) (rs'.map RuleN.toEProd) := by
  unfold factorOut at h
  simp only [Option.map_eq_some_iff, Prod.mk.injEq] at h
  obtain ⟨rs1, h1, rfl, _⟩ := h
  exact foldlM_factor_ok _ _ _ h1

theorem leftFactorLoop_ok {ord : GroupOrd} : ∀ (fuel : Nat) (rs rs' : List RuleN),
    leftFactorLoop ord fuel rs = some rs' → StepOK (rs.map RuleN.toEProd) (rs'.map RuleN.toEProd)
  | 0, _, _, h => by simp [leftFactorLoop] at h
  | f+1, rs, rs', h => by
    simp only [leftFactorLoop] at h
    split at h
    · cases h
    · rename_i rs1 h1
      exact (factorOut_ok h1).trans (leftFactorLoop_ok f rs1 rs' h)
    · rename_i rs1 h1
      injection h with h
      subst h
      exact factorOut_ok h1

/-- the last round of a terminated run found nothing to factor -/
theorem leftFactorLoop_exit {ord : GroupOrd} : ∀ (fuel : Nat) (rs rs' : List RuleN),
    leftFactorLoop ord fuel rs = some rs' → findLongestPrefixes ord rs' = []
  | 0, _, _, h => by simp [leftFactorLoop] at h
  | f+1, rs, rs', h => by
    simp only [leftFactorLoop] at h
    split at h
    · cases h
    · rename_i rs1 h1
      exact leftFactorLoop_exit f rs1 rs' h
    · rename_i rs1 h1
      injection h with h
      subst h
      unfold factorOut at h1
      simp only [Option.map_eq_some_iff, Prod.mk.injEq, Bool.not_eq_false', List.isEmpty_iff] at h1
      obtain ⟨rs2, h2, rfl, he⟩ := h1
      rw [he] at h2
      simp only [List.foldlM_nil, Option.pure_def, Option.some.injEq] at h2
      subst h2
      exact he

/-! ## `find_prefix` returns nothing only if no first symbol is shared -/

/-- the step function of `bestFirst` for an arbitrary counting function -/
def bfStep (cnt : List SymN → Nat) (best : Option (List SymN × Nat)) (c : List SymN) :
    Option (List SymN × Nat) :=
  match best with
  | none => some (c, cnt c)
  | some (_, b) => if cnt c > b then some (c, cnt c) else best

theorem bestFirst_fold (cnt : List SymN → Nat) :
    ∀ (l : List (List SymN)) (best : Option (List SymN × Nat)),
      (∀ c ∈ l, ∃ k v, l.foldl (bfStep cnt) best = some (k, v) ∧ cnt c ≤ v) ∧
      (∀ k b, best = some (k, b) → ∃ k' v, l.foldl (bfStep cnt) best = some (k', v) ∧ b ≤ v) ∧
      (∀ k v, l.foldl (bfStep cnt) best = some (k, v) → (best = some (k, v)) ∨ (k ∈ l ∧ v = cnt k))
  | [], best => by
    refine ⟨?_, ?_, ?_⟩
    · intro c hc; cases hc
    · intro k b h; exact ⟨k, b, h, Nat.le_refl _⟩
    · intro k v h; exact .inl h
  | c :: l, best => by
    simp only [List.foldl_cons]
    obtain ⟨h1, h2, h3⟩ := bestFirst_fold cnt l (bfStep cnt best c)
    have hstep : (∃ k b, best = some (k, b) ∧ ¬ cnt c > b ∧ bfStep cnt best c = best) ∨
        (bfStep cnt best c = some (c, cnt c) ∧ ∀ k b, best = some (k, b) → b ≤ cnt c) := by
      cases best with
      | none => exact .inr ⟨rfl, fun k b h => by cases h⟩
      | some kb =>
        obtain ⟨k0, b0⟩ := kb
        by_cases hgt : cnt c > b0
        · right
          refine ⟨by simp [bfStep, hgt], ?_⟩
          intro k b h
          simp only [Option.some.injEq, Prod.mk.injEq] at h
          omega
        · left
          exact ⟨k0, b0, rfl, hgt, by simp [bfStep, hgt]⟩
    refine ⟨?_, ?_, ?_⟩
    · intro c' hc'
      simp only [List.mem_cons] at hc'
      rcases hc' with rfl | hc'
      · rcases hstep with ⟨k, b, hb, hle, he⟩ | ⟨he, _⟩
        · obtain ⟨k', v, hr, hv⟩ := h2 k b (he.trans hb)
          exact ⟨k', v, hr, by omega⟩
        · obtain ⟨k', v, hr, hv⟩ := h2 c' (cnt c') he
          exact ⟨k', v, hr, hv⟩
      · exact h1 c' hc'
    · intro k b hb
      rcases hstep with ⟨k0, b0, hb0, hle, he⟩ | ⟨he, hle⟩
      · obtain ⟨k', v, hr, hv⟩ := h2 k b (he.trans hb)
        exact ⟨k', v, hr, hv⟩
      · obtain ⟨k', v, hr, hv⟩ := h2 c (cnt c) he
        exact ⟨k', v, hr, Nat.le_trans (hle k b hb) hv⟩
    · intro k v hr
      rcases h3 k v hr with h | ⟨h, hv⟩
      · rcases hstep with ⟨k0, b0, hb0, hle, he⟩ | ⟨he, hle⟩
        · exact .inl (he.symm.trans h)
        · rw [he] at h
          simp only [Option.some.injEq, Prod.mk.injEq] at h
          obtain ⟨rfl, rfl⟩ := h
          exact .inr ⟨by simp, rfl⟩
      · exact .inr ⟨by simp [h], hv⟩

theorem bestFirst_eq (cs : List (List SymN)) :
    bestFirst cs = cs.foldl (bfStep (fun c => cs.count c)) none := rfl

theorem bestFirst_spec (cs : List (List SymN)) :
    (∀ c ∈ cs, ∃ k v, bestFirst cs = some (k, v) ∧ cs.count c ≤ v) ∧
    (∀ k v, bestFirst cs = some (k, v) → k ∈ cs ∧ v = cs.count k) := by
  obtain ⟨h1, _, h3⟩ := bestFirst_fold (fun c => cs.count c) cs none
  rw [bestFirst_eq]
  refine ⟨h1, ?_⟩
  intro k v h
  rcases h3 k v h with h | h
  · cases h
  · exact h

theorem mem_prefixesOfLen {cands : List (List SymN)} {n : Nat} {k : List SymN}
    (h : k ∈ prefixesOfLen cands n) : k.length = n := by
  simp only [prefixesOfLen, List.mem_filterMap] at h
  obtain ⟨c, _, hc⟩ := h
  split at hc
  · injection hc with hc
    subst hc
    simp; omega
  · cases hc

/-- `find_prefix(candidates, n)` for `n ≥ 1` is empty only if every prefix of length `n` occurs
    at most once among the candidates -/
theorem findPrefixN_nil {cands : List (List SymN)} {n : Nat} (hn : 0 < n)
    (h : findPrefixN cands n = []) : ∀ c, (prefixesOfLen cands n).count c ≤ 1 := by
  intro c
  unfold findPrefixN at h
  simp only at h
  by_cases hm : c ∈ prefixesOfLen cands n
  · split at h
    · rename_i hlen
      have : (prefixesOfLen cands n).count c ≤ (prefixesOfLen cands n).length := List.count_le_length
      omega
    · obtain ⟨h1, h2⟩ := bestFirst_spec (prefixesOfLen cands n)
      obtain ⟨k, v, hb, hv⟩ := h1 c hm
      rw [hb] at h
      simp only at h
      split at h
      · have hk := mem_prefixesOfLen (h2 k v hb).1
        rw [h] at hk
        simp at hk
        omega
      · omega
  · rw [List.count_eq_zero_of_not_mem hm]
    omega

theorem findLongestPrefix_nil {cands : List (List SymN)} {f n : Nat}
    (h : findLongestPrefix cands (f + 1) n = []) : findPrefixN cands n = [] := by
  simp only [findLongestPrefix] at h
  split at h
  · rename_i hc
    simp only [Bool.and_eq_true, List.isEmpty_iff] at hc
    exact hc.1
  · split at h
    · exact h
    · rename_i hne1 hne2
      split at h
      · exact absurd (by simpa using h) hne2
      · rename_i hp3
        exact absurd (by simpa using h) hp3

theorem count_prefixes_one (cands : List (List SymN)) (s : SymN) :
    (prefixesOfLen cands 1).count [s] = (cands.filter (fun c => c.head? == some s)).length := by
  induction cands with
  | nil => simp [prefixesOfLen]
  | cons c cands ih =>
    simp only [prefixesOfLen] at ih ⊢
    cases c with
    | nil => simpa using ih
    | cons a c =>
      by_cases ha : a = s
      · subst ha
        simp [ih]
      · have : ¬ (s = a) := fun e => ha e.symm
        simp [ih, ha]

theorem mem_firstOccs {x : Name} : ∀ {l : List Name}, x ∈ firstOccs l ↔ x ∈ l
  | [] => by simp [firstOccs]
  | a :: l => by
    simp only [firstOccs, List.mem_cons, List.mem_filter, decide_eq_true_eq, mem_firstOccs (l := l)]
    constructor
    · rintro (h | ⟨h, _⟩)
      · exact .inl h
      · exact .inr h
    · rintro (h | h)
      · exact .inl h
      · by_cases e : x = a
        · exact .inl e
        · exact .inr ⟨h, e⟩

/-- an order parameter that loses no group (every permutation does) -/
def KeepsAll (ord : GroupOrd) : Prop := ∀ l x, x ∈ l → x ∈ ord l

theorem exit_no_common_first {ord : GroupOrd} (hord : KeepsAll ord) {rs : List RuleN}
    (h : findLongestPrefixes ord rs = []) (A : Name) (s : SymN) :
    (rs.filter (fun r => r.lhs = A && r.rhs.head? == some s)).length ≤ 1 := by
  by_cases hA : ∃ r ∈ rs, r.lhs = A
  · obtain ⟨r, hr, hrA⟩ := hA
    have hg : (A, rs.filter (fun r => r.lhs = A)) ∈ ord (groupByLhs rs) := by
      apply hord
      simp only [groupByLhs, List.mem_map]
      exact ⟨A, mem_firstOccs.2 (List.mem_map.2 ⟨r, hr, hrA⟩), rfl⟩
    unfold findLongestPrefixes at h
    rw [List.filterMap_eq_nil_iff] at h
    have := h _ hg
    simp only at this
    split at this
    · rename_i hp
      simp only [List.isEmpty_iff] at hp
      unfold findPrefix at hp
      have h1 := findPrefixN_nil (by omega) (findLongestPrefix_nil hp) [s]
      rw [count_prefixes_one] at h1
      have e : (rs.filter (fun r => r.lhs = A && r.rhs.head? == some s)).length =
          (((rs.filter (fun r => r.lhs = A)).map (·.rhs)).filter
            (fun c => c.head? == some s)).length := by
        rw [List.filter_map, List.length_map, List.filter_filter]
        congr 2
        funext r
        simp [Bool.and_comm]
      omega
    · cases this
  · have : rs.filter (fun r => r.lhs = A && r.rhs.head? == some s) = [] := by
      rw [List.filter_eq_nil_iff]
      intro r hr
      simp only [Bool.and_eq_true, decide_eq_true_eq, not_and]
      intro e
      exact absurd ⟨r, hr, e⟩ hA
    simp [this]

/-! ## fuel -/

theorem leftFactorLoop_fuel_mono {ord : GroupOrd} : ∀ (f : Nat) (rs rs' : List RuleN),
    leftFactorLoop ord f rs = some rs' → ∀ f', f ≤ f' → leftFactorLoop ord f' rs = some rs'
  | 0, _, _, h, _, _ => by simp [leftFactorLoop] at h
  | f+1, rs, rs', h, f', hle => by
    obtain ⟨g, rfl⟩ : ∃ g, f' = g + 1 := ⟨f' - 1, by omega⟩
    rw [leftFactorLoop] at h ⊢
    cases hfo : factorOut ord rs with
    | none => rw [hfo] at h; cases h
    | some p =>
      obtain ⟨rs1, m⟩ := p
      rw [hfo] at h
      cases m with
      | true => exact leftFactorLoop_fuel_mono f rs1 rs' h g (by omega)
      | false => exact h

theorem le_foldl_max (cands : List (List SymN)) : ∀ (m : Nat),
    m ≤ cands.foldl (fun m c => max m c.length) m ∧
      ∀ c ∈ cands, c.length ≤ cands.foldl (fun m c => max m c.length) m := by
  induction cands with
  | nil => intro m; exact ⟨Nat.le_refl _, fun c hc => nomatch hc⟩
  | cons a cands ih =>
    intro m
    simp only [List.foldl_cons]
    obtain ⟨h1, h2⟩ := ih (max m a.length)
    refine ⟨by omega, ?_⟩
    intro c hc
    simp only [List.mem_cons] at hc
    rcases hc with rfl | hc
    · omega
    · exact h2 c hc

theorem findPrefixN_beyond {cands : List (List SymN)} {n : Nat} (h : maxLen cands < n) :
    findPrefixN cands n = [] := by
  have : prefixesOfLen cands n = [] := by
    simp only [prefixesOfLen, List.filterMap_eq_nil_iff]
    intro c hc
    have := (le_foldl_max cands 0).2 c hc
    simp only [maxLen] at h
    split
    · omega
    · rfl
  simp [findPrefixN, this]

/-- any fuel above the longest candidate's length gives the same result: the `[]` of exhausted
    fuel is never what decides the outcome of `findPrefix` -/
theorem findLongestPrefix_fuel (cands : List (List SymN)) : ∀ (f n : Nat), maxLen cands < n + f →
    findLongestPrefix cands f n = findLongestPrefix cands (f + 1) n
  | 0, n, h => by
    simp [findLongestPrefix, findPrefixN_beyond (cands := cands) (n := n) (by omega),
      findPrefixN_beyond (cands := cands) (n := n + 1) (by omega)]
  | f+1, n, h => by
    rw [findLongestPrefix, findLongestPrefix]
    rw [findLongestPrefix_fuel cands f (n + 2) (by omega)]

end ParolModel
