import ParolModel.Model.LeftFactor
import ParolModel.Proofs.Canon
import ParolModel.Proofs.Bnf
/-! Left factoring (C10): one `factor_out_prefix` step preserves the language, the loop does, and
on exit no two non-empty alternatives of a non-terminal start with the same symbol. -/
namespace ParolModel

/-! ## names of the EBNF image of plain rules -/

theorem altVars_toFactor (ss : List SymN) : altVars (ss.map SymN.toFactor) = symsNames ss := by
  induction ss with
  | nil => rfl
  | cons s ss ih =>
    cases s <;> simp [altVars, Factor.vars, SymN.toFactor, symsNames, SymN.names] at ih ⊢ <;>
      simpa [symsNames] using ih

theorem mem_namesN {x : Name} {rs : List RuleN} :
    x ∈ namesN rs ↔ ∃ r ∈ rs, x = r.lhs ∨ x ∈ symsNames r.rhs := by
  simp only [namesN, List.mem_flatMap, RuleN.names, List.mem_cons, List.mem_filterMap, symsNames]
  constructor
  · rintro ⟨r, hr, h | ⟨s, hs, hx⟩⟩
    · exact ⟨r, hr, .inl h⟩
    · refine ⟨r, hr, .inr ⟨s, hs, ?_⟩⟩
      cases s <;> simp [SymN.names] at hx ⊢
      exact hx.symm
  · rintro ⟨r, hr, h | ⟨s, hs, hx⟩⟩
    · exact ⟨r, hr, .inl h⟩
    · refine ⟨r, hr, .inr ⟨s, hs, ?_⟩⟩
      cases s <;> simp [SymN.names] at hx ⊢
      exact hx.symm

theorem variableNames_toEProd {x : Name} {rs : List RuleN} :
    x ∈ variableNames (rs.map RuleN.toEProd) ↔ x ∈ namesN rs := by
  rw [mem_variableNames, mem_namesN]
  constructor
  · rintro ⟨p, hp, h⟩
    obtain ⟨r, hr, rfl⟩ := List.mem_map.1 hp
    refine ⟨r, hr, ?_⟩
    rcases h with h | ⟨alt, ha, hx⟩
    · exact .inl h
    · simp only [RuleN.toEProd, List.mem_singleton] at ha
      subst ha
      exact .inr (by simpa [altVars_toFactor] using hx)
  · rintro ⟨r, hr, h⟩
    refine ⟨r.toEProd, List.mem_map.2 ⟨r, hr, rfl⟩, ?_⟩
    rcases h with h | h
    · exact .inl h
    · exact .inr ⟨⟨r.rhs.map SymN.toFactor, r.attr⟩, by simp [RuleN.toEProd],
        by simpa [altVars_toFactor] using h⟩

theorem symsNames_append (a b : List SymN) : symsNames (a ++ b) = symsNames a ++ symsNames b := by
  simp [symsNames]

/-! ## membership in the result of one `factor_out_prefix` -/

theorem factorOutRule_cases (X : Name) (pre : List SymN) (r : RuleN) :
    (factorOutRule X pre r = r ∧ ¬ (∃ suf, r.rhs = pre ++ suf)) ∨
      (∃ suf, r.rhs = pre ++ suf ∧ factorOutRule X pre r = ⟨X, suf, r.attr⟩) := by
  unfold factorOutRule
  by_cases hlen : r.rhs.length < pre.length
  · left
    simp only [hlen, decide_true, Bool.true_or, if_true, true_and]
    rintro ⟨suf, hs⟩
    rw [hs, List.length_append] at hlen
    omega
  · by_cases htake : r.rhs.take pre.length = pre
    · right
      refine ⟨r.rhs.drop pre.length, ?_, ?_⟩
      · conv => lhs; rw [← List.take_append_drop pre.length r.rhs, htake]
      · simp [hlen, htake]
    · left
      simp only [hlen, decide_false, Bool.false_or, ne_eq, htake, not_false_eq_true, decide_true,
        if_true, true_and]
      rintro ⟨suf, hs⟩
      apply htake
      rw [hs]
      simp

theorem mem_takeWhile_imp' {α} (p : α → Bool) : ∀ (l : List α) (x : α), x ∈ l.takeWhile p → p x = true
  | [], _, h => by simp at h
  | a :: l, x, h => by
    simp only [List.takeWhile_cons] at h
    split at h
    · rename_i hp
      simp only [List.mem_cons] at h
      rcases h with rfl | h
      · exact hp
      · exact mem_takeWhile_imp' p l x h
    · simp at h

theorem mem_factored {rs : List RuleN} {A X : Name} {pre : List SymN} {r' : RuleN} :
    r' ∈ rs.takeWhile (fun r => r.lhs ≠ A) ++
        modFactor X A pre ((rs.dropWhile (fun r => r.lhs ≠ A)).filter (fun r => r.lhs = A)) ++
        (rs.dropWhile (fun r => r.lhs ≠ A)).filter (fun r => r.lhs ≠ A) ↔
      (r' ∈ rs ∧ r'.lhs ≠ A) ∨ r' = ⟨A, pre ++ [.n X .none], .none⟩ ∨
        ∃ r ∈ rs, r.lhs = A ∧ r' = factorOutRule X pre r := by
  have hsplit := List.takeWhile_append_dropWhile (p := fun r : RuleN => decide (r.lhs ≠ A)) (l := rs)
  have htw : ∀ r ∈ rs.takeWhile (fun r => r.lhs ≠ A), r.lhs ≠ A := by
    intro r hr
    simpa using mem_takeWhile_imp' _ _ _ hr
  have hmem : ∀ r, r ∈ rs ↔ r ∈ rs.takeWhile (fun r => r.lhs ≠ A) ∨
      r ∈ rs.dropWhile (fun r => r.lhs ≠ A) := by
    intro r
    rw [← List.mem_append, List.takeWhile_append_dropWhile]
  simp only [List.mem_append, modFactor, List.mem_cons, List.mem_map, List.mem_filter,
    decide_eq_true_eq]
  constructor
  · rintro ((h | h | ⟨r, ⟨hr, hA⟩, rfl⟩) | ⟨h, hA⟩)
    · exact .inl ⟨(hmem _).2 (.inl h), htw _ h⟩
    · exact .inr (.inl h)
    · exact .inr (.inr ⟨r, (hmem _).2 (.inr hr), hA, rfl⟩)
    · exact .inl ⟨(hmem _).2 (.inr h), hA⟩
  · rintro (⟨h, hA⟩ | h | ⟨r, hr, hA, rfl⟩)
    · rcases (hmem _).1 h with h | h
      · exact .inl (.inl h)
      · exact .inr ⟨h, hA⟩
    · exact .inl (.inr (.inl h))
    · rcases (hmem _).1 hr with h | h
      · exact absurd hA (htw _ h)
      · exact .inl (.inr (.inr ⟨r, ⟨h, hA⟩, rfl⟩))

/-! ## one step -/

theorem toEProd_alts (r : RuleN) : r.toEProd.alts = [⟨r.rhs.map SymN.toFactor, r.attr⟩] := rfl
theorem toEProd_lhs (r : RuleN) : r.toEProd.lhs = r.lhs := rfl

theorem der_of_rule {rs : List RuleN} {r : RuleN} (hr : r ∈ rs) {u : List Nat}
    (hu : YieldE (rs.map RuleN.toEProd) (r.rhs.map SymN.toFactor) u) :
    Der (rs.map RuleN.toEProd) r.lhs u :=
  ⟨r.toEProd, List.mem_map.2 ⟨r, hr, rfl⟩, rfl, ⟨r.rhs.map SymN.toFactor, r.attr⟩,
    by simp [toEProd_alts], hu⟩

/-- the factored-out suffixes as one group -/
def suffixGroup (rs : List RuleN) (A : Name) (pre : List SymN) : Alts :=
  (rs.filter (fun r => r.lhs = A)).filterMap fun r =>
    if r.rhs.take pre.length = pre ∧ pre.length ≤ r.rhs.length then
      some ((r.rhs.drop pre.length).map SymN.toFactor) else none

theorem mem_suffixGroup {rs : List RuleN} {A : Name} {pre : List SymN} {alt : Alt} :
    alt ∈ suffixGroup rs A pre ↔
      ∃ r ∈ rs, r.lhs = A ∧ ∃ suf, r.rhs = pre ++ suf ∧ alt = suf.map SymN.toFactor := by
  simp only [suffixGroup, List.mem_filterMap, List.mem_filter, decide_eq_true_eq]
  constructor
  · rintro ⟨r, ⟨hr, hA⟩, h⟩
    split at h
    · rename_i hc
      injection h with h
      refine ⟨r, hr, hA, r.rhs.drop pre.length, ?_, h.symm⟩
      conv => lhs; rw [← List.take_append_drop pre.length r.rhs, hc.1]
    · cases h
  · rintro ⟨r, hr, hA, suf, hs, rfl⟩
    refine ⟨r, ⟨hr, hA⟩, ?_⟩
    rw [hs]
    simp

theorem factorOutPrefix_ok {rs rs' : List RuleN} {A : Name} {pre : List SymN}
    (h : factorOutPrefix rs A pre = some rs') :
    StepOK (rs.map RuleN.toEProd) (rs'.map RuleN.toEProd) := by
  unfold factorOutPrefix at h
  split at h
  · rename_i hany
    have hAex : ∃ r ∈ rs, r.lhs = A := by
      simpa only [List.any_eq_true, decide_eq_true_eq] using hany
    split at h
    · cases h
    · rename_i X hX
      have h := Option.some.inj h
      subst h
      have hfresh : X ∉ namesN rs := generateName_not_mem hX
      have hXlhs : ∀ r ∈ rs, r.lhs ≠ X := by
        intro r hr e
        exact hfresh (mem_namesN.2 ⟨r, hr, .inl e.symm⟩)
      have hXrhs : ∀ r ∈ rs, X ∉ symsNames r.rhs := by
        intro r hr e
        exact hfresh (mem_namesN.2 ⟨r, hr, .inr e⟩)
      have hAX : A ≠ X := by
        obtain ⟨r, hr, hA⟩ := hAex
        exact hA ▸ hXlhs r hr
      -- abbreviations
      generalize hres : rs.takeWhile (fun r => r.lhs ≠ A) ++
        modFactor X A pre ((rs.dropWhile (fun r => r.lhs ≠ A)).filter (fun r => r.lhs = A)) ++
        (rs.dropWhile (fun r => r.lhs ≠ A)).filter (fun r => r.lhs ≠ A) = res
      have hmem : ∀ r', r' ∈ res ↔ (r' ∈ rs ∧ r'.lhs ≠ A) ∨ r' = ⟨A, pre ++ [.n X .none], .none⟩ ∨
          ∃ r ∈ rs, r.lhs = A ∧ r' = factorOutRule X pre r := by
        intro r'; rw [← hres]; exact mem_factored
      have hprefix : (⟨A, pre ++ [.n X .none], .none⟩ : RuleN) ∈ res := (hmem _).2 (.inr (.inl rfl))
      have hXpre : (∃ r ∈ rs, r.lhs = A ∧ ∃ suf, r.rhs = pre ++ suf) → X ∉ symsNames pre := by
        rintro ⟨r, hr, _, suf, hs⟩ hx
        apply hXrhs r hr
        rw [hs, symsNames_append]
        exact List.mem_append_left _ hx
      refine ⟨fun fs w hfs => ⟨?_, ?_⟩, ?_, ?_⟩
      · -- old → new
        apply yieldE_sim
        intro p hp alt ha u hu
        obtain ⟨r, hr, rfl⟩ := List.mem_map.1 hp
        simp only [toEProd_alts, List.mem_singleton] at ha
        subst ha
        simp only at hu
        by_cases hA : r.lhs = A
        · rcases factorOutRule_cases X pre r with ⟨he, _⟩ | ⟨suf, hs, he⟩
          · have : r ∈ res := (hmem _).2 (.inr (.inr ⟨r, hr, hA, he.symm⟩))
            exact der_of_rule this hu
          · have hsufrule : (⟨X, suf, r.attr⟩ : RuleN) ∈ res :=
              (hmem _).2 (.inr (.inr ⟨r, hr, hA, he.symm⟩))
            rw [hs, List.map_append] at hu
            obtain ⟨u1, u2, rfl, h1, h2⟩ := YieldE.split hu
            have hX2 : Der (res.map RuleN.toEProd) X u2 := der_of_rule hsufrule h2
            have := der_of_rule hprefix (u := u1 ++ u2) (by
              simp only [List.map_append, List.map_cons, List.map_nil, SymN.toFactor]
              exact YieldE.append h1 (hX2.yield _))
            simpa [toEProd_lhs, hA] using this
        · exact der_of_rule ((hmem _).2 (.inl ⟨hr, hA⟩)) hu
      · -- new → old
        intro hnew
        have hXfs : X ∉ altVars fs := fun hx =>
          hfresh (variableNames_toEProd.1 (hfs X hx))
        have := yieldE_translate (G' := res.map RuleN.toEProd) (G := rs.map RuleN.toEProd) X
          [.group (suffixGroup rs A pre)] ?_ ?_ hnew
        · rwa [substAlt_fresh X _ fs hXfs] at this
        · -- productions with a left-hand side other than X
          intro q hq hne alt ha u hu
          obtain ⟨r', hr', rfl⟩ := List.mem_map.1 hq
          simp only [toEProd_alts, List.mem_singleton] at ha
          subst ha
          simp only [toEProd_lhs] at hne hu ⊢
          have old : ∀ r ∈ rs, YieldE (rs.map RuleN.toEProd)
              (substAlt X [.group (suffixGroup rs A pre)] (r.rhs.map SymN.toFactor)) u →
              Der (rs.map RuleN.toEProd) r.lhs u := by
            intro r hr hu
            rw [substAlt_fresh X _ _ (by rw [altVars_toFactor]; exact hXrhs r hr)] at hu
            exact der_of_rule hr hu
          rcases (hmem _).1 hr' with ⟨hr, _⟩ | rfl | ⟨r, hr, hA, rfl⟩
          · exact old r' hr hu
          · -- the prefix rule A → pre X
            simp only [List.map_append, List.map_cons, List.map_nil, SymN.toFactor,
              substAlt_append, substAlt, Factor.subst, if_true, List.append_nil] at hu
            obtain ⟨u1, u2, rfl, h1, h2⟩ := YieldE.split hu
            obtain ⟨alt, ha, h2'⟩ := yieldE_group_inv h2
            obtain ⟨r, hr, hA, suf, hs, rfl⟩ := mem_suffixGroup.1 ha
            have hxp : X ∉ symsNames pre := hXpre ⟨r, hr, hA, suf, hs⟩
            rw [substAlt_fresh X _ _ (by rw [altVars_toFactor]; exact hxp)] at h1
            have := der_of_rule hr (u := u1 ++ u2) (by
              rw [hs, List.map_append]; exact YieldE.append h1 h2')
            simpa [hA] using this
          · rcases factorOutRule_cases X pre r with ⟨he, _⟩ | ⟨suf, hs, he⟩
            · rw [he] at hu ⊢
              exact old r hr hu
            · rw [he] at hne
              exact absurd rfl hne
        · -- productions of X
          intro q hq he alt ha u hu
          obtain ⟨r', hr', rfl⟩ := List.mem_map.1 hq
          simp only [toEProd_alts, List.mem_singleton] at ha
          subst ha
          simp only [toEProd_lhs] at he hu
          rcases (hmem _).1 hr' with ⟨hr, _⟩ | rfl | ⟨r, hr, hA, rfl⟩
          · exact absurd he (hXlhs r' hr)
          · exact absurd he hAX
          · rcases factorOutRule_cases X pre r with ⟨he', _⟩ | ⟨suf, hs, he'⟩
            · rw [he'] at he
              exact absurd he (hXlhs r hr)
            · rw [he'] at hu
              simp only at hu
              have hxs : X ∉ symsNames suf := by
                intro hx
                apply hXrhs r hr
                rw [hs, symsNames_append]
                exact List.mem_append_right _ hx
              rw [substAlt_fresh X _ _ (by rw [altVars_toFactor]; exact hxs)] at hu
              exact yieldE_group_intro (mem_suffixGroup.2 ⟨r, hr, hA, suf, hs, rfl⟩) hu
      · -- names are kept
        intro x hx
        rw [variableNames_toEProd] at hx ⊢
        obtain ⟨r, hr, h⟩ := mem_namesN.1 hx
        by_cases hA : r.lhs = A
        · rcases factorOutRule_cases X pre r with ⟨he, _⟩ | ⟨suf, hs, he⟩
          · exact mem_namesN.2 ⟨r, (hmem _).2 (.inr (.inr ⟨r, hr, hA, he.symm⟩)), h⟩
          · rcases h with h | h
            · exact mem_namesN.2 ⟨_, hprefix, .inl (by simp [h, hA])⟩
            · rw [hs, symsNames_append, List.mem_append] at h
              rcases h with h | h
              · exact mem_namesN.2 ⟨_, hprefix, .inr (by
                  simp only [symsNames_append, List.mem_append]; exact .inl h)⟩
              · exact mem_namesN.2 ⟨_, (hmem _).2 (.inr (.inr ⟨r, hr, hA, he.symm⟩)), .inr h⟩
        · exact mem_namesN.2 ⟨r, (hmem _).2 (.inl ⟨hr, hA⟩), h⟩
      · -- left-hand sides
        intro q hq
        obtain ⟨r', hr', rfl⟩ := List.mem_map.1 hq
        simp only [toEProd_lhs, List.map_map]
        obtain ⟨rA, hrA, hAA⟩ := hAex
        rcases (hmem _).1 hr' with ⟨hr, _⟩ | rfl | ⟨r, hr, hA, rfl⟩
        · exact .inl (List.mem_map.2 ⟨r', hr, rfl⟩)
        · exact .inl (List.mem_map.2 ⟨rA, hrA, by simp [toEProd_lhs, hAA]⟩)
        · rcases factorOutRule_cases X pre r with ⟨he, _⟩ | ⟨suf, hs, he⟩
          · rw [he]; exact .inl (List.mem_map.2 ⟨r, hr, rfl⟩)
          · rw [he]; exact .inr (fun hx => hfresh (variableNames_toEProd.1 hx))
  · have h := Option.some.inj h
    subst h
    exact StepOK.refl _

end ParolModel
