import ParolModel.Model.Comments
import ParolModel.Proofs.RegexDfa
/-! Lemmas about the specification automaton `firstEndDfa` (C15). -/
namespace ParolModel

theorem eq_iff_of_sameSide {cuts : List Nat} {x y c : Nat} (h : SameSide cuts x y)
    (h1 : c ∈ cuts) (h2 : c + 1 ∈ cuts) : (c = x ↔ c = y) := by
  have a := h c h1
  have b := h (c + 1) h2
  omega

theorem mem_delimCuts {l : List Nat} {c : Nat} (h : c ∈ l) : c ∈ delimCuts l ∧ c + 1 ∈ delimCuts l := by
  simp only [delimCuts, List.mem_flatMap]
  exact ⟨⟨c, h, by simp⟩, ⟨c, h, by simp⟩⟩

theorem isSuffixOf_snoc_congr (p t : List Nat) (x y : Nat) (h : ∀ c ∈ p, (c = x ↔ c = y)) :
    p.isSuffixOf (t ++ [x]) = p.isSuffixOf (t ++ [y]) := by
  unfold List.isSuffixOf
  simp only [List.reverse_append, List.reverse_cons, List.reverse_nil, List.nil_append, List.singleton_append]
  cases hp : p.reverse with
  | nil => rfl
  | cons c r =>
    have hc : c ∈ p := by
      have : c ∈ p.reverse := by rw [hp]; simp
      simpa using this
    have := h c hc
    rw [List.isPrefixOf_cons_cons, List.isPrefixOf_cons_cons]
    have hb : (c == x) = (c == y) := by
      rw [Bool.eq_iff_iff]; simp only [beq_iff_eq]; exact this
    rw [hb]

theorem borderLen_congr (e t : List Nat) (x y : Nat) (h : ∀ c ∈ e, (c = x ↔ c = y)) (k : Nat) :
    borderLen e (t ++ [x]) k = borderLen e (t ++ [y]) k := by
  induction k with
  | zero => rfl
  | succ k ih =>
    simp only [borderLen]
    rw [isSuffixOf_snoc_congr (e.take (k + 1)) t x y (fun c hc => h c (List.mem_of_mem_take hc)), ih]

/-- The step function of the specification automaton compares its input only with the delimiter
    characters and with U+10FFFF. -/
theorem firstEndDfa_respects (s e : List Nat) : (firstEndDfa s e).aut.Respects := by
  intro q x y h
  have hmax : (x > maxCp ↔ y > maxCp) := by
    have := h (maxCp + 1) (by simp [firstEndDfa])
    omega
  have heq : ∀ c ∈ s ++ e, (c = x ↔ c = y) := by
    intro c hc
    have := mem_delimCuts hc
    exact eq_iff_of_sameSide h (by simp [firstEndDfa, this.1]) (by simp [firstEndDfa, this.2])
  show firstEndStep s e q x = firstEndStep s e q y
  unfold firstEndStep
  simp only [hmax]
  split
  · rfl
  · split
    · rename_i hq
      have hmem : s[q] ∈ s ++ e := List.mem_append_left _ (List.getElem_mem hq)
      have := heq _ hmem
      simp only [List.getElem?_eq_getElem hq, Option.some.injEq, this]
    · split
      · simp only [kmpStep]
        rw [borderLen_congr e _ x y (fun c hc => heq c (List.mem_append_right _ hc))]
      · rfl

/-- The accepting state has no successors but the dead state, which is absorbing and rejecting:
    the language of `firstEndDfa` is prefix-free. -/
theorem firstEnd_dead_run (s e : List Nat) (w : List Nat) :
    (firstEndDfa s e).aut.run (s.length + e.length + 1) w = s.length + e.length + 1 := by
  induction w with
  | nil => rfl
  | cons x w ih =>
    simp only [Aut.run, List.foldl_cons] at ih ⊢
    have : (firstEndDfa s e).aut.step (s.length + e.length + 1) x = s.length + e.length + 1 := by
      show firstEndStep s e _ x = _
      unfold firstEndStep
      split
      · rfl
      · split
        · omega
        · split
          · omega
          · rfl
    rw [this]; exact ih

theorem firstEnd_acc_step (s e : List Nat) (x : Nat) :
    (firstEndDfa s e).aut.step (s.length + e.length) x = s.length + e.length + 1 := by
  show firstEndStep s e _ x = _
  unfold firstEndStep
  split
  · rfl
  · split
    · omega
    · split
      · omega
      · rfl

theorem firstEndDfa_prefix_free (s e u v : List Nat) (hu : (firstEndDfa s e).accepts u = true)
    (hv : (firstEndDfa s e).accepts (u ++ v) = true) : v = [] := by
  cases v with
  | nil => rfl
  | cons x v =>
    exfalso
    simp only [SpecDfa.accepts, Aut.accepts, Aut.run, List.foldl_append, List.foldl_cons] at hu hv
    have hq : List.foldl (firstEndDfa s e).aut.step (firstEndDfa s e).start u = s.length + e.length := by
      have : (firstEndDfa s e).aut.acc (List.foldl (firstEndDfa s e).aut.step (firstEndDfa s e).start u) = true := hu
      simpa [firstEndDfa] using this
    rw [hq, firstEnd_acc_step] at hv
    have := firstEnd_dead_run s e v
    simp only [Aut.run] at this
    rw [this] at hv
    simp [firstEndDfa] at hv

end ParolModel

namespace ParolModel

theorem crlfGuard_respects {σ : Type} (A : Aut σ) (hA : A.Respects) : (crlfGuard A).Respects := by
  intro st x y h
  match st with
  | none => rfl
  | some (q, pend) =>
    have h10 : (x = 10 ↔ y = 10) := by
      have a := h 10 (by simp [crlfGuard]); have b := h 11 (by simp [crlfGuard]); omega
    have h13 : (x = 13 ↔ y = 13) := by
      have a := h 13 (by simp [crlfGuard]); have b := h 14 (by simp [crlfGuard]); omega
    have hs : A.step q x = A.step q y := hA q x y (h.mono (by intro c hc; simp [crlfGuard, hc]))
    cases pend
    · have : (x == 13) = (y == 13) := by rw [Bool.eq_iff_iff]; simp only [beq_iff_eq]; exact h13
      simp only [crlfGuard, hs, this]
    · simp only [crlfGuard, hs]
      by_cases hx : x = 10
      · simp [hx, h10.mp hx]
      · have hy : ¬ y = 10 := fun hy => hx (h10.mpr hy)
        simp [hx, hy]

theorem crlfGuard_dead {σ : Type} (A : Aut σ) (w : List Nat) : (crlfGuard A).accepts none w = false := by
  induction w with
  | nil => rfl
  | cons x w ih => simpa [Aut.accepts, Aut.run, crlfGuard] using ih

theorem crlfGuard_accepts {σ : Type} (A : Aut σ) : ∀ (w : List Nat) (q : σ) (pend : Bool),
    (crlfGuard A).accepts (some (q, pend)) w = (crOkP pend w && A.accepts q w) := by
  intro w
  induction w with
  | nil => intro q pend; simp [Aut.accepts, Aut.run, crlfGuard, crOkP]
  | cons x w ih =>
    intro q pend
    cases pend
    · have := ih (A.step q x) (x == 13)
      simp only [Aut.accepts, Aut.run, List.foldl_cons, crOkP] at this ⊢
      simpa [crlfGuard] using this
    · by_cases hx : x = 10
      · have := ih (A.step q x) false
        simp only [Aut.accepts, Aut.run, List.foldl_cons, crOkP] at this ⊢
        simpa [crlfGuard, hx] using this
      · have hd := crlfGuard_dead A w
        simp only [Aut.accepts, Aut.run, crlfGuard] at hd
        have hb : (x == 10) = false := by simpa using hx
        simp only [Aut.accepts, Aut.run, List.foldl_cons, crOkP, hb, Bool.false_and]
        simpa [crlfGuard, hx] using hd

end ParolModel
