import ParolModel.Model.Tables
/-! Helper lemmas for `Props/C18` and `Props/C21`: the comparer combinators. -/
namespace ParolModel.Tbl

theorem chk_none {c : Bool} {m : String} : chk c m = none ↔ c = true := by
  unfold chk; split <;> simp_all

theorem firstSome_none {l : List (Option String)} : firstSome l = none ↔ ∀ x ∈ l, x = none := by
  induction l with
  | nil => simp [firstSome]
  | cons x xs ih =>
    cases x with
    | none => simp [firstSome, ih]
    | some m => simp [firstSome]

/-- Pointwise relation of two lists of equal length. -/
inductive All2 {α β : Type} (R : α → β → Prop) : List α → List β → Prop
  | nil : All2 R [] []
  | cons {x y xs ys} : R x y → All2 R xs ys → All2 R (x :: xs) (y :: ys)

theorem listDiff_none_forall {α : Type} (eqf : α → α → Bool) :
    ∀ (a b : List α) (i : Nat), listDiff eqf a b i = none → All2 (fun x y => eqf x y = true) a b
  | [], [], _, _ => .nil
  | x :: xs, y :: ys, i, h => by
    unfold listDiff at h
    split at h
    · rename_i hxy
      exact .cons hxy (listDiff_none_forall eqf xs ys (i + 1) h)
    · cases h
  | [], _ :: _, _, h => by simp [listDiff] at h
  | _ :: _, [], _, h => by simp [listDiff] at h

theorem listDiff_none_eq {α : Type} [DecidableEq α] (a b : List α) (i : Nat)
    (h : listDiff (fun x y => decide (x = y)) a b i = none) : a = b := by
  have := listDiff_none_forall _ a b i h
  clear h
  induction this with
  | nil => rfl
  | cons hxy _ ih => simp at hxy; rw [hxy, ih]

theorem forall2_length {α β : Type} {R : α → β → Prop} {a : List α} {b : List β}
    (h : All2 R a b) : a.length = b.length := by
  induction h with
  | nil => rfl
  | cons _ _ ih => simp [ih]

theorem all2_eq {α : Type} {R : α → α → Prop} (hR : ∀ x y, R x y → x = y) {a b : List α}
    (h : All2 R a b) : a = b := by
  induction h with
  | nil => rfl
  | cons hxy _ ih => rw [hR _ _ hxy, ih]

theorem diffMsg_none {α : Type} {w : String} {eqf : α → α → Bool} {a b : List α} :
    diffMsg w eqf a b = none → listDiff eqf a b 0 = none := by
  unfold diffMsg; split <;> simp_all

theorem forall2_map_eq {α β : Type} {R : α → α → Prop} (f : α → β) (hf : ∀ x y, R x y → f x = f y)
    {a b : List α} (h : All2 R a b) : a.map f = b.map f := by
  induction h with
  | nil => rfl
  | cons hxy _ ih => simp [hf _ _ hxy, ih]

end ParolModel.Tbl

/-! ## The terminal index function -/
namespace ParolModel.Tbl

theorem behavesLike_refl (k : TKind) : k.behavesLike k = true := by cases k <;> rfl
theorem behavesLike_symm (a b : TKind) : a.behavesLike b = b.behavesLike a := by
  cases a <;> cases b <;> rfl
theorem behavesLike_trans {a b c : TKind} (h1 : a.behavesLike b = true) (h2 : b.behavesLike c = true) :
    a.behavesLike c = true := by
  cases a <;> cases b <;> cases c <;> simp_all [TKind.behavesLike]

theorem sameTerm_iff (a b : TOcc) :
    sameTerm a b = true ↔ a.text = b.text ∧ a.kind.behavesLike b.kind = true ∧ a.la = b.la := by
  simp [sameTerm, and_assoc]

theorem sameTerm_refl (a : TOcc) : sameTerm a a = true := by
  simp [sameTerm_iff, behavesLike_refl]

theorem sameTerm_symm {a b : TOcc} (h : sameTerm a b = true) : sameTerm b a = true := by
  rw [sameTerm_iff] at *
  exact ⟨h.1.symm, by rw [behavesLike_symm]; exact h.2.1, h.2.2.symm⟩

theorem sameTerm_trans {a b c : TOcc} (h1 : sameTerm a b = true) (h2 : sameTerm b c = true) :
    sameTerm a c = true := by
  rw [sameTerm_iff] at *
  exact ⟨h1.1.trans h2.1, behavesLike_trans h1.2.1 h2.2.1, h1.2.2.trans h2.2.2⟩

/-- Two occurrences that behave alike are indistinguishable for `sameTerm`. -/
theorem sameTerm_congr_left {a b : TOcc} (h : sameTerm a b = true) (e : TOcc) :
    sameTerm a e = sameTerm b e := by
  cases hb : sameTerm b e
  · cases ha : sameTerm a e
    · rfl
    · have := sameTerm_trans (sameTerm_symm h) ha
      rw [hb] at this; cases this
  · exact sameTerm_trans h hb

/-- The scanner states are not part of a terminal's identity. -/
theorem sameTerm_states_left (e o : TOcc) (s : List Nat) :
    sameTerm { e with states := s } o = sameTerm e o := rfl
theorem sameTerm_states_right (e o : TOcc) (s : List Nat) :
    sameTerm o { e with states := s } = sameTerm o e := rfl

/-- Every entry after an insertion stems from an old entry (same identity) or is the occurrence. -/
theorem mem_insertOcc {acc : List TOcc} {o x : TOcc} (h : x ∈ insertOcc acc o) :
    (∃ y ∈ acc, ∀ z, sameTerm z x = sameTerm z y) ∨ x = o := by
  induction acc with
  | nil => simp [insertOcc] at h; exact Or.inr h
  | cons e rest ih =>
    unfold insertOcc at h
    split at h
    · rcases List.mem_cons.1 h with rfl | h
      · exact Or.inl ⟨e, List.mem_cons_self, fun z => rfl⟩
      · exact Or.inl ⟨x, List.mem_cons_of_mem _ h, fun _ => rfl⟩
    · rcases List.mem_cons.1 h with rfl | h
      · exact Or.inl ⟨x, List.mem_cons_self, fun _ => rfl⟩
      · rcases ih h with ⟨y, hy, hz⟩ | rfl
        · exact Or.inl ⟨y, List.mem_cons_of_mem _ hy, hz⟩
        · exact Or.inr rfl

/-- After an insertion the occurrence is represented. -/
theorem insertOcc_covers (acc : List TOcc) (o : TOcc) : ∃ e ∈ insertOcc acc o, sameTerm e o = true := by
  induction acc with
  | nil => exact ⟨o, by simp [insertOcc], sameTerm_refl o⟩
  | cons e rest ih =>
    unfold insertOcc
    split
    · rename_i h
      exact ⟨_, List.mem_cons_self, by rw [sameTerm_states_left]; exact h⟩
    · obtain ⟨x, hx, hs⟩ := ih
      exact ⟨x, List.mem_cons_of_mem _ hx, hs⟩

/-- Represented occurrences stay represented. -/
theorem insertOcc_keeps (acc : List TOcc) (o q : TOcc) (h : ∃ e ∈ acc, sameTerm e q = true) :
    ∃ e ∈ insertOcc acc o, sameTerm e q = true := by
  induction acc with
  | nil => obtain ⟨e, he, _⟩ := h; cases he
  | cons e rest ih =>
    obtain ⟨x, hx, hs⟩ := h
    unfold insertOcc
    split
    · rcases List.mem_cons.1 hx with rfl | hx
      · exact ⟨_, List.mem_cons_self, by rw [sameTerm_states_left]; exact hs⟩
      · exact ⟨x, List.mem_cons_of_mem _ hx, hs⟩
    · rcases List.mem_cons.1 hx with rfl | hx
      · exact ⟨x, List.mem_cons_self, hs⟩
      · obtain ⟨y, hy, hys⟩ := ih ⟨x, hx, hs⟩
        exact ⟨y, List.mem_cons_of_mem _ hy, hys⟩

theorem insertOcc_length (acc : List TOcc) (o : TOcc) : (insertOcc acc o).length ≤ acc.length + 1 := by
  induction acc with
  | nil => simp [insertOcc]
  | cons e rest ih => unfold insertOcc; split <;> simp <;> omega

/-- No two entries behave alike — preserved by an insertion. -/
theorem insertOcc_pairwise (acc : List TOcc) (o : TOcc)
    (h : acc.Pairwise fun a b => sameTerm a b = false) :
    (insertOcc acc o).Pairwise fun a b => sameTerm a b = false := by
  induction acc with
  | nil => simp [insertOcc]
  | cons e rest ih =>
    rw [List.pairwise_cons] at h
    unfold insertOcc
    split
    · rw [List.pairwise_cons]
      exact ⟨fun x hx => by rw [sameTerm_states_left]; exact h.1 x hx, h.2⟩
    · rename_i hne
      rw [List.pairwise_cons]
      refine ⟨fun x hx => ?_, ih h.2⟩
      rcases mem_insertOcc hx with ⟨y, hy, hz⟩ | rfl
      · rw [hz]; exact h.1 y hy
      · simpa using hne

theorem foldl_insertOcc_pairwise (occs acc : List TOcc)
    (h : acc.Pairwise fun a b => sameTerm a b = false) :
    (occs.foldl insertOcc acc).Pairwise fun a b => sameTerm a b = false := by
  induction occs generalizing acc with
  | nil => exact h
  | cons o rest ih => exact ih _ (insertOcc_pairwise acc o h)

theorem foldl_insertOcc_keeps (occs acc : List TOcc) (q : TOcc) (h : ∃ e ∈ acc, sameTerm e q = true) :
    ∃ e ∈ occs.foldl insertOcc acc, sameTerm e q = true := by
  induction occs generalizing acc with
  | nil => exact h
  | cons o rest ih => exact ih _ (insertOcc_keeps acc o q h)

theorem foldl_insertOcc_covers (occs acc : List TOcc) (q : TOcc) (hq : q ∈ occs) :
    ∃ e ∈ occs.foldl insertOcc acc, sameTerm e q = true := by
  induction occs generalizing acc with
  | nil => cases hq
  | cons o rest ih =>
    rcases List.mem_cons.1 hq with rfl | hq
    · exact foldl_insertOcc_keeps rest _ q (insertOcc_covers acc q)
    · exact ih _ hq

theorem foldl_insertOcc_length (occs acc : List TOcc) :
    (occs.foldl insertOcc acc).length ≤ acc.length + occs.length := by
  induction occs generalizing acc with
  | nil => simp
  | cons o rest ih =>
    have := ih (insertOcc acc o)
    have := insertOcc_length acc o
    simp only [List.foldl_cons, List.length_cons]
    omega

/-- Every entry of the ordered list stems from an occurrence (or the initial accumulator). -/
theorem foldl_insertOcc_from (occs acc : List TOcc) (x : TOcc) (hx : x ∈ occs.foldl insertOcc acc) :
    (∃ y ∈ acc, ∀ z, sameTerm z x = sameTerm z y) ∨ (∃ y ∈ occs, ∀ z, sameTerm z x = sameTerm z y) := by
  induction occs generalizing acc with
  | nil => exact Or.inl ⟨x, hx, fun _ => rfl⟩
  | cons o rest ih =>
    rcases ih (insertOcc acc o) hx with ⟨y, hy, hz⟩ | ⟨y, hy, hz⟩
    · rcases mem_insertOcc hy with ⟨w, hw, hwz⟩ | rfl
      · exact Or.inl ⟨w, hw, fun z => (hz z).trans (hwz z)⟩
      · exact Or.inr ⟨y, List.mem_cons_self, hz⟩
    · exact Or.inr ⟨y, List.mem_cons_of_mem _ hy, hz⟩

end ParolModel.Tbl
