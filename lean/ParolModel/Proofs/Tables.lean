import ParolModel.Model.Tables
/-! Helper lemmas for `Props/C18` and `Props/C21`: the comparer combinators. -/
namespace ParolModel.Tbl

theorem chk_none {c : Bool} {m : String} : chk c m = none ↔ c = true := by
  unfold chk; split <;> simp_all

theorem firstSome_none {l : List (Option String)} : firstSome l = none ↔ ∀ x ∈ l, x = none := by
  induction l with
  | nil => simp [firstSome]
  | cons x xs ih =>
    cases x with
    | none => simp [firstSome, ih]
    | some m => simp [firstSome]

/-- Pointwise relation of two lists of equal length. -/
inductive All2 {α β : Type} (R : α → β → Prop) : List α → List β → Prop
  | nil : All2 R [] []
  | cons {x y xs ys} : R x y → All2 R xs ys → All2 R (x :: xs) (y :: ys)

theorem listDiff_none_forall {α : Type} (eqf : α → α → Bool) :
    ∀ (a b : List α) (i : Nat), listDiff eqf a b i = none → All2 (fun x y => eqf x y = true) a b
  | [], [], _, _ => .nil
  | x :: xs, y :: ys, i, h => by
    unfold listDiff at h
    split at h
    · rename_i hxy
      exact .cons hxy (listDiff_none_forall eqf xs ys (i + 1) h)
    · cases h
  | [], _ :: _, _, h => by simp [listDiff] at h
  | _ :: _, [], _, h => by simp [listDiff] at h

theorem listDiff_none_eq {α : Type} [DecidableEq α] (a b : List α) (i : Nat)
    (h : listDiff (fun x y => decide (x = y)) a b i = none) : a = b := by
  have := listDiff_none_forall _ a b i h
  clear h
  induction this with
  | nil => rfl
  | cons hxy _ ih => simp at hxy; rw [hxy, ih]

theorem forall2_length {α β : Type} {R : α → β → Prop} {a : List α} {b : List β}
    (h : All2 R a b) : a.length = b.length := by
  induction h with
  | nil => rfl
  | cons _ _ ih => simp [ih]

theorem all2_eq {α : Type} {R : α → α → Prop} (hR : ∀ x y, R x y → x = y) {a b : List α}
    (h : All2 R a b) : a = b := by
  induction h with
  | nil => rfl
  | cons hxy _ ih => rw [hR _ _ hxy, ih]

theorem diffMsg_none {α : Type} {w : String} {eqf : α → α → Bool} {a b : List α} :
    diffMsg w eqf a b = none → listDiff eqf a b 0 = none := by
  unfold diffMsg; split <;> simp_all

theorem forall2_map_eq {α β : Type} {R : α → α → Prop} (f : α → β) (hf : ∀ x y, R x y → f x = f y)
    {a b : List α} (h : All2 R a b) : a.map f = b.map f := by
  induction h with
  | nil => rfl
  | cons hxy _ ih => simp [hf _ _ hxy, ih]

end ParolModel.Tbl
