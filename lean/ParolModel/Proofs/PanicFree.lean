import ParolModel.Proofs.Canon
import ParolModel.Proofs.Fixpoints
import ParolModel.Proofs.KFollow
/-! Helper lemmas for C26 ("parol never panics"):

* the model of `transform_productions` never takes its `.panic` branch (the out-of-range
  `Vec::remove` in `eliminate_single_opt`, case 2), because `extract_options` has removed every
  optional before the step that contains it runs;
* a grammar that passes the model of `check_and_transform_grammar` (C11's `WellFormed`) satisfies
  the class hypotheses under which C06/C05 prove FIRST_k/FOLLOW_k/`decidable` correct
  (`KS.Productive`, `KS.Reachable`, `KS.NoLeftRec`). -/
namespace ParolModel.Panic
open ParolModel
set_option linter.unusedSimpArgs false

/-! ## `transform_productions` never panics -/

theorem extractInProds_ne_panic (excl : List Name) :
    ∀ ps : List EProd, extractInProds excl ps ≠ .panic
  | [] => by simp [extractInProds]
  | p :: ps => by
    have ih := extractInProds_ne_panic excl ps
    unfold extractInProds
    split
    · intro h; cases h
    · split
      · intro h; cases h
      · split
        · intro h; cases h
        · exact ih

theorem sepStep_ne_panic (ps : List EProd) : sepStep ps ≠ .panic := by
  unfold sepStep
  split <;> (intro h; cases h)

theorem repStep_ne_panic (ty : GType) (ps : List EProd) : repStep ty ps ≠ .panic := by
  unfold repStep
  split
  · intro h; cases h
  · split <;> (intro h; cases h)

theorem groupStep_ne_panic (ps : List EProd) : groupStep ps ≠ .panic := by
  unfold groupStep
  split
  · intro h; cases h
  · split
    · intro h; cases h
    · split <;> (intro h; cases h)

theorem iterStep_ne_panic (step : List EProd → StepRes) (Inv : List EProd → Prop)
    (hnp : ∀ a, Inv a → step a ≠ .panic)
    (hpres : ∀ a b, Inv a → step a = .changed b → Inv b) :
    ∀ (fuel : Nat) (ps : List EProd) (m : Bool), Inv ps → iterStep step fuel ps m ≠ .panic
  | 0, _, _, _ => by simp [iterStep]
  | f+1, ps, m, hi => by
    simp only [iterStep]
    split
    · intro h; cases h
    · rename_i ps1 hc
      exact iterStep_ne_panic step Inv hnp hpres f ps1 true (hpres ps ps1 hi hc)
    · intro h; cases h
    · rename_i hp
      exact absurd hp (hnp ps hi)

/-- One pass of `trans_fn` on a production list without optionals does not panic. -/
theorem pass_ne_panic (ty : GType) (fuel : Nat) (ps : List EProd) (hn : NoOpt ps) :
    pass ty fuel ps ≠ .panic := by
  unfold pass
  have hsep := iterStep_ne_panic sepStep NoOpt (fun a _ => sepStep_ne_panic a)
    (fun a b ha hc => sepStep_noOpt hc ha) fuel ps false hn
  cases h1 : iterStep sepStep fuel ps false with
  | fuel => intro h; cases h
  | panic => exact absurd h1 hsep
  | ok r1 =>
    obtain ⟨ps1, m1⟩ := r1
    obtain ⟨_, n1, _⟩ := iterStep_ok sepStep NoOpt
      (fun a b ha hc => ⟨sepStep_ok hc, sepStep_noOpt hc ha⟩) _ _ _ _ _ hn h1
    have hrep := iterStep_ne_panic (repStep ty) NoOpt (fun a _ => repStep_ne_panic ty a)
      (fun a b ha hc => repStep_noOpt hc ha) fuel ps1 m1 n1
    simp only [CRes.bind]
    cases h2 : iterStep (repStep ty) fuel ps1 m1 with
    | fuel => intro h; cases h
    | panic => exact absurd h2 hrep
    | ok r2 =>
      obtain ⟨ps2, m2⟩ := r2
      obtain ⟨_, n2, _⟩ := iterStep_ok (repStep ty) NoOpt
        (fun a b ha hc => ⟨repStep_ok hc, repStep_noOpt hc ha⟩) _ _ _ _ _ n1 h2
      have hopt := iterStep_ne_panic optStep NoOpt
        (fun a ha => by rw [optStep_noOpt ha]; intro h; cases h)
        (fun a b ha hc => by rw [optStep_noOpt ha] at hc; cases hc) fuel ps2 m2 n2
      simp only [CRes.bind]
      cases h3 : iterStep optStep fuel ps2 m2 with
      | fuel => intro h; cases h
      | panic => exact absurd h3 hopt
      | ok r3 =>
        obtain ⟨ps3, m3⟩ := r3
        obtain ⟨_, n3, _⟩ := iterStep_ok optStep NoOpt
          (fun a b ha hc => by rw [optStep_noOpt ha] at hc; cases hc) _ _ _ _ _ n2 h3
        simp only [CRes.bind]
        exact iterStep_ne_panic groupStep NoOpt (fun a _ => groupStep_ne_panic a)
          (fun a b ha hc => groupStep_noOpt hc ha) fuel ps3 m3 n3

theorem passLoop_ne_panic (ty : GType) (fuel : Nat) :
    ∀ (n : Nat) (ps : List EProd), NoOpt ps → passLoop ty fuel n ps ≠ .panic
  | 0, _, _ => by simp [passLoop]
  | n+1, ps, hn => by
    simp only [passLoop]
    split
    · rename_i ps1 hp
      exact passLoop_ne_panic ty fuel n ps1 (pass_ok hn hp).2
    · intro h; cases h
    · intro h; cases h
    · rename_i hp
      exact absurd hp (pass_ne_panic ty fuel ps hn)

/-- The model of `transform_productions` never reaches its panic branch, for every production list,
    grammar type and fuel. -/
theorem canon_ne_panic (ty : GType) (fuel : Nat) (ps : List EProd) : canon ty fuel ps ≠ .panic := by
  unfold canon
  have hex := iterStep_ne_panic extractStep (fun _ => True)
    (fun a _ => extractInProds_ne_panic _ a) (fun _ _ _ _ => trivial) fuel ps false trivial
  split
  · intro h; cases h
  · rename_i h0; exact absurd h0 hex
  · rename_i ps0 m0 h0
    obtain ⟨_, _, hu⟩ := iterStep_ok extractStep (fun _ => True)
      (fun a b _ hc => ⟨extractStep_ok hc, trivial⟩) _ _ _ _ _ trivial h0
    have n0 : NoOpt ps0 := extractInProds_unchanged _ _ hu
    have hl := passLoop_ne_panic ty fuel fuel ps0 n0
    split
    · intro h; cases h
    · rename_i h1; exact absurd h1 hl
    · split <;> (intro h; cases h)

/-! ## from C11's `WellFormed` to the class hypotheses of C06/C05 -/

theorem yield_nil_startsIn {G : Grammar} (B : Nat) (β : List Sym) :
    ∀ α : List Sym, Yield G α [] → StartsIn G (α ++ Sym.n B :: β) B
  | [], _ => .here B β
  | s :: α, h => by
    have h' : Yield G ([s] ++ α) [] := h
    obtain ⟨u, v, huv, hu, hv⟩ := Yield.split h'
    have hu0 : u = [] := by
      cases u with
      | nil => rfl
      | cons a t => simp at huv
    have hv0 : v = [] := by
      subst hu0
      simpa using huv.symm
    subst hu0; subst hv0
    cases s with
    | t a =>
      exfalso
      generalize hs : [Sym.t a] = ss at hu
      generalize hw : ([] : List Nat) = w at hu
      cases hu with
      | nil => cases hs
      | term x _ => cases hw
      | nonterm p _ _ _ => cases hs
    | n C =>
      exact .skip hu (yield_nil_startsIn B β α hv)

theorem starts_of_lc {G : Grammar} {A B : Nat} (h : KS.LC G A B) : Starts G A B := by
  obtain ⟨p, hp, hl, α, β, hr, hy⟩ := h
  exact ⟨p, hp, hl, by rw [hr]; exact yield_nil_startsIn B β α hy⟩

theorem filter_length_le {α : Type} (p q : α → Bool) (hpq : ∀ x, p x = true → q x = true) :
    ∀ l : List α, (l.filter p).length ≤ (l.filter q).length
  | [] => by simp
  | a :: l => by
    have ih := filter_length_le p q hpq l
    cases hp : p a with
    | true => simp [List.filter, hp, hpq a hp, ih]
    | false =>
      cases hq : q a with
      | true => simp [List.filter, hp, hq]; omega
      | false => simp [List.filter, hp, hq, ih]

theorem filter_length_lt {α : Type} (p q : α → Bool) (hpq : ∀ x, p x = true → q x = true)
    (x : α) (hq : q x = true) (hp : p x = false) :
    ∀ l : List α, x ∈ l → (l.filter p).length < (l.filter q).length
  | [], h => by cases h
  | a :: l, h => by
    have ihle := filter_length_le p q hpq l
    rcases List.mem_cons.1 h with rfl | hm
    · simp [List.filter, hp, hq]; omega
    · have ih := filter_length_lt p q hpq x hq hp l hm
      cases hpa : p a with
      | true => simp [List.filter, hpa, hpq a hpa]; omega
      | false =>
        cases hqa : q a with
        | true => simp [List.filter, hpa, hqa]; omega
        | false => simp [List.filter, hpa, hqa]; omega

/-- "No non-terminal is left-recursive" (what `detect_left_recursive_non_terminals` decides, C11)
    gives the rank function on the left-corner relation that C06's uniqueness lemma needs. The rank
    of `A` is the number of non-terminals reachable from `A` through left corners. -/
theorem noLeftRec_of_not_leftRec (G : Grammar) (h : ∀ A, ¬ LeftRec G A) : KS.NoLeftRec G := by
  classical
  refine ⟨fun A => ((nts G).filter (fun B => decide (StartsPlus G A B))).length, ?_⟩
  intro A B hlc
  have hs : Starts G A B := starts_of_lc hlc
  refine filter_length_lt _ _ ?_ B ?_ ?_ (nts G) hs.mem_nts.2
  · intro C hC
    simp only [decide_eq_true_eq] at hC ⊢
    exact .head hs hC
  · simp only [decide_eq_true_eq]
    exact .single hs
  · simp only [decide_eq_false_iff_not]
    intro hbb
    exact h B (leftRec_iff_startsPlus.2 hbb)

theorem nts_closed_derives {G : Grammar} {a b : List Sym} (h : Derives G a b)
    (ha : ∀ B, Sym.n B ∈ a → B ∈ nts G) : ∀ B, Sym.n B ∈ b → B ∈ nts G := by
  induction h with
  | refl => exact ha
  | head hs _ ih =>
    apply ih
    cases hs with
    | mk x y p hp =>
      intro B hB
      simp only [List.mem_append] at hB
      rcases hB with (hB | hB) | hB
      · exact ha B (by simp [hB])
      · exact mem_nts.2 (Or.inr ⟨p, hp, Or.inr hB⟩)
      · exact ha B (by simp [hB])

theorem yield_of_productive {G : Grammar} :
    ∀ ss : List Sym, (∀ B, Sym.n B ∈ ss → Productive G B) → ∃ w, Yield G ss w
  | [], _ => ⟨[], .nil⟩
  | .t a :: ss, h => by
    obtain ⟨w, hw⟩ := yield_of_productive ss (fun B hB => h B (List.mem_cons_of_mem _ hB))
    exact ⟨a :: w, .term a hw⟩
  | .n C :: ss, h => by
    obtain ⟨w, hw⟩ := yield_of_productive ss (fun B hB => h B (List.mem_cons_of_mem _ hB))
    obtain ⟨u, hu⟩ := h C List.mem_cons_self
    exact ⟨u ++ w, by simpa using Yield.append hu hw⟩

theorem ksDerives_front {G : Grammar} {a b c : List Sym} (hs : Step G a b) (h : KS.Derives G b c) :
    KS.Derives G a c := by
  induction h with
  | refl =>
    cases hs with
    | mk x y p hp => exact KS.Derives.step p (KS.Derives.refl _) hp
  | step p _ hp ih => exact KS.Derives.step p ih hp

theorem ksDerives_of_derives {G : Grammar} {a b : List Sym} (h : Derives G a b) : KS.Derives G a b := by
  induction h with
  | refl => exact KS.Derives.refl _
  | head hs _ ih => exact ksDerives_front hs ih

theorem ks_productive_of {G : Grammar} (hprod : ∀ A ∈ nts G, Productive G A) : KS.Productive G := by
  intro p hp B hB
  exact hprod B (mem_nts.2 (Or.inr ⟨p, hp, Or.inr hB⟩))

theorem ks_reachable_of {G : Grammar} (hprod : ∀ A ∈ nts G, Productive G A)
    (hreach : ∀ A ∈ nts G, Reachable G A) : KS.Reachable G := by
  intro p hp
  have hA : p.lhs ∈ nts G := mem_nts.2 (Or.inr ⟨p, hp, Or.inl rfl⟩)
  obtain ⟨x, y, hd⟩ := hreach _ hA
  have hsy := nts_closed_derives hd (by
    intro B hB
    simp only [List.mem_singleton, Sym.n.injEq] at hB
    subst hB
    exact start_mem_nts G)
  obtain ⟨v, hv⟩ := yield_of_productive y (fun B hB => hprod B (hsy B (by simp [hB])))
  have hf : KS.FollowK G 0 p.lhs ((v ++ [0]).take 0) := ⟨x, y, v, ksDerives_of_derives hd, hv, rfl⟩
  obtain ⟨γ, v', hc, hy, _⟩ := KS.followK_iff_ctx.1 hf
  exact ⟨γ, v', hc, hy⟩

end ParolModel.Panic
