import ParolModel.Model.LaDfa
/-! Proofs about the `eval` model (C08). -/
namespace ParolModel

def transLt (a b : Trans) : Prop := a.src < b.src ∨ (a.src = b.src ∧ a.term < b.term)

theorem transLt_trans {a b c : Trans} (h1 : transLt a b) (h2 : transLt b c) : transLt a c := by
  unfold transLt at *; omega

theorem sortedTrans_cons {a : Trans} {l : List Trans} (h : sortedTrans (a :: l) = true) :
    sortedTrans l = true ∧ ∀ b ∈ l, transLt a b := by
  induction l generalizing a with
  | nil => simp [sortedTrans]
  | cons b rest ih =>
    simp only [sortedTrans, Bool.and_eq_true, Bool.or_eq_true, decide_eq_true_eq, beq_iff_eq] at h
    obtain ⟨hab, hrest⟩ := h
    have hab' : transLt a b := by unfold transLt; omega
    obtain ⟨_, hb⟩ := ih hrest
    refine ⟨hrest, ?_⟩
    intro c hc
    rcases List.mem_cons.1 hc with rfl | hc
    · exact hab'
    · exact transLt_trans hab' (hb c hc)

/-- The sorted early-exit scan equals a plain lookup (first match) on sorted transition lists. -/
theorem scan_eq_find (state tok : Nat) : ∀ (l : List Trans) (seen : Bool),
    sortedTrans l = true → (seen = true → ∀ b ∈ l, state ≤ b.src) →
    scan state tok l seen = l.find? (fun tr => tr.src = state ∧ tr.term = tok) := by
  intro l
  induction l with
  | nil => intro seen _ _; simp [scan]
  | cons tr rest ih =>
    intro seen hs hseen
    obtain ⟨hrest, hlt⟩ := sortedTrans_cons hs
    simp only [scan]
    by_cases h1 : tr.src = state
    · simp only [h1, ne_eq, not_true_eq_false, if_false]
      by_cases h2 : tr.term = tok
      · simp [h1, h2]
      · simp only [h2, if_false]
        by_cases h3 : tr.term > tok
        · simp only [h3, if_true]
          rw [List.find?_cons_of_neg (by simp [h2])]
          symm
          rw [List.find?_eq_none]
          intro b hb
          have := hlt b hb
          unfold transLt at this
          simp only [decide_eq_true_eq]
          omega
        · simp only [h3, if_false]
          rw [List.find?_cons_of_neg (by simp [h2])]
          apply ih true hrest
          intro _ b hb
          have := hlt b hb
          unfold transLt at this
          omega
    · simp only [ne_eq, h1, not_false_eq_true, if_true]
      rw [List.find?_cons_of_neg (by simp [h1])]
      cases seen with
      | true =>
        simp only [if_true]
        symm
        rw [List.find?_eq_none]
        intro b hb
        have h0 := hseen rfl tr List.mem_cons_self
        have := hlt b hb
        unfold transLt at this
        simp only [decide_eq_true_eq]
        omega
      | false =>
        simp only [Bool.false_eq_true, if_false]
        exact ih false hrest (by intro h; cases h)

theorem scan_eq_stepRef (d : LaDfa) (h : sortedTrans d.trans = true) (state tok : Nat) :
    scan state tok d.trans false = stepRef d state tok :=
  scan_eq_find state tok d.trans false h (by intro h; cases h)

/-- State and annotation reached after reading all of `w` (none if stuck). -/
def pathState (d : LaDfa) : Nat → Int → List Nat → Option (Nat × Int)
  | st, p, [] => some (st, p)
  | st, _, tok :: rest =>
    match stepRef d st tok with
    | some tr => pathState d tr.dst tr.prod rest
    | none => none

theorem runRef_eq_pathState (d : LaDfa) : ∀ (w : List Nat) (st : Nat) (p : Int),
    runRef d st p w = (pathState d st p w).bind (fun sp => if sp.2 > -1 then some sp.2 else none) := by
  intro w
  induction w with
  | nil => intro st p; simp [runRef, pathState]
  | cons tok rest ih =>
    intro st p
    simp only [runRef, pathState]
    cases stepRef d st tok with
    | none => simp
    | some tr => simpa using ih tr.dst tr.prod

theorem pathState_snoc (d : LaDfa) : ∀ (w : List Nat) (st : Nat) (p : Int) (tok : Nat) (st' : Nat) (p' : Int),
    pathState d st p w = some (st', p') →
    pathState d st p (w ++ [tok]) = (stepRef d st' tok).map (fun tr => (tr.dst, tr.prod)) := by
  intro w
  induction w with
  | nil =>
    intro st p tok st' p' h
    simp only [pathState, Option.some.injEq, Prod.mk.injEq] at h
    obtain ⟨rfl, rfl⟩ := h
    simp only [List.nil_append, pathState]
    cases stepRef d st tok <;> simp
  | cons t rest ih =>
    intro st p tok st' p' h
    simp only [pathState, List.cons_append] at h ⊢
    cases hs : stepRef d st t with
    | none => simp [hs] at h
    | some tr =>
      simp only [hs] at h ⊢
      exact ih _ _ _ _ _ h

/-- Loop invariant of `evalLoop` (fixed variant) after consuming the prefix `pre`. -/
structure Inv (d : LaDfa) (pre : List Nat) (s : St) : Prop where
  path : pathState d 0 d.prod0 pre = some (s.state, s.prodNum)
  acc : ∀ a, s.lastAcc = some a →
    (s.lastProd > -1 → ∃ n, n ≤ pre.length ∧ runRef d 0 d.prod0 (pre.take n) = some s.lastProd)
  accNone : s.lastAcc = none → ∀ n, n ≤ pre.length → runRef d 0 d.prod0 (pre.take n) = none

theorem inv_init (d : LaDfa) : Inv d [] (evalInit d) := by
  refine ⟨by simp [pathState, evalInit], ?_, ?_⟩
  · intro a _ h; simp [evalInit] at h
  · intro h n hn
    simp only [evalInit] at h
    split at h
    · cases h
    · simp only [List.take_nil, runRef]
      rename_i hp; simp [hp]

theorem runRef_of_path {d : LaDfa} {pre : List Nat} {st : Nat} {p : Int}
    (h : pathState d 0 d.prod0 pre = some (st, p)) :
    runRef d 0 d.prod0 pre = if p > -1 then some p else none := by
  rw [runRef_eq_pathState, h]; rfl

/-- If the path gets stuck at `pre ++ [tok]`, no longer prefix of any extension is accepted. -/
theorem pathState_stuck_append (d : LaDfa) : ∀ (w : List Nat) (st : Nat) (p : Int) (x : List Nat),
    pathState d st p w = none → pathState d st p (w ++ x) = none := by
  intro w
  induction w with
  | nil => intro st p x h; simp [pathState] at h
  | cons t rest ih =>
    intro st p x h
    simp only [pathState, List.cons_append] at h ⊢
    cases hs : stepRef d st t with
    | none => rfl
    | some tr => simp only [hs] at h ⊢; exact ih _ _ _ h

theorem evalLoop_inv (d : LaDfa) (hs : sortedTrans d.trans = true) :
    ∀ (rest pre : List Nat) (s : St), Inv d pre s →
    ∃ pre', (∃ x, pre' ++ x = pre ++ rest) ∧ pre.length ≤ pre'.length ∧
      Inv d pre' (evalLoop d true rest s) ∧
      -- either everything was consumed or the path is stuck on the next token
      (pre' = pre ++ rest ∨ ∃ tok x, pre' ++ tok :: x = pre ++ rest ∧ stepRef d (evalLoop d true rest s).state tok = none) := by
  intro rest
  induction rest with
  | nil =>
    intro pre s hinv
    exact ⟨pre, ⟨[], by simp⟩, Nat.le_refl _, by simpa [evalLoop] using hinv, Or.inl (by simp)⟩
  | cons tok rest ih =>
    intro pre s hinv
    simp only [evalLoop]
    rw [scan_eq_stepRef d hs]
    cases hst : stepRef d s.state tok with
    | none =>
      simp only [if_true]
      exact ⟨pre, ⟨tok :: rest, rfl⟩, Nat.le_refl _, hinv, Or.inr ⟨tok, rest, rfl, hst⟩⟩
    | some tr =>
      simp only []
      have hpath : pathState d 0 d.prod0 (pre ++ [tok]) = some (tr.dst, tr.prod) := by
        rw [pathState_snoc d pre 0 d.prod0 tok _ _ hinv.path, hst]; rfl
      have hrun := runRef_of_path hpath
      have hinv' : Inv d (pre ++ [tok])
          (if tr.prod > -1 then ⟨tr.dst, tr.prod, tr.prod, some tr.dst⟩
           else ⟨tr.dst, tr.prod, s.lastProd, s.lastAcc⟩) := by
        by_cases hp : tr.prod > -1
        · simp only [hp, if_true]
          refine ⟨hpath, ?_, ?_⟩
          · intro a _ _
            exact ⟨(pre ++ [tok]).length, Nat.le_refl _, by rw [List.take_length, hrun]; simp [hp]⟩
          · intro h; cases h
        · simp only [hp, if_false]
          refine ⟨hpath, ?_, ?_⟩
          · intro a ha hl
            obtain ⟨n, hn, hr⟩ := hinv.acc a ha hl
            refine ⟨n, by simp; omega, ?_⟩
            rw [List.take_append_of_le_length hn]; exact hr
          · intro hnone n hn
            simp only [List.length_append, List.length_singleton] at hn
            by_cases hle : n ≤ pre.length
            · rw [List.take_append_of_le_length hle]; exact hinv.accNone hnone n hle
            · have : n = pre.length + 1 := by omega
              subst this
              rw [List.take_of_length_le (by simp)]
              simp [hrun, hp]
      obtain ⟨pre', ⟨x, hx⟩, hlen, hI, hend⟩ := ih (pre ++ [tok]) _ hinv'
      refine ⟨pre', ⟨x, by simpa using hx⟩, by simp at hlen; omega, hI, ?_⟩
      rcases hend with h | ⟨t, y, hy, hstuck⟩
      · exact Or.inl (by simpa using h)
      · exact Or.inr ⟨t, y, by simpa using hy, hstuck⟩

end ParolModel
