import ParolModel.Proofs.LfOrder
import ParolModel.Model.TransformProto
/-! Termination of left factoring (C10): the sum, over all pairs of rules of one non-terminal, of
the length of their longest common prefix (`lfMeasure`) strictly decreases with every
`factor_out_prefix` step that factors a non-empty prefix shared by at least two rules — which is
what every prefix found by `find_longest_prefixes` is. -/
namespace ParolModel

/-! ## the measure -/

/-- length of the longest common prefix -/
def lcp : List SymN → List SymN → Nat
  | [], _ => 0
  | _ :: _, [] => 0
  | a :: as, b :: bs => if a = b then lcp as bs + 1 else 0

theorem lcp_nil_right (a : List SymN) : lcp a [] = 0 := by cases a <;> rfl

theorem lcp_comm : ∀ (a b : List SymN), lcp a b = lcp b a
  | [], b => by rw [lcp_nil_right]; rfl
  | _ :: _, [] => rfl
  | a :: as, b :: bs => by
    by_cases h : a = b
    · subst h; simp [lcp, lcp_comm as bs]
    · simp [lcp, h, Ne.symm h]

theorem lcp_le_right : ∀ (a b : List SymN), lcp a b ≤ b.length
  | [], _ => Nat.zero_le _
  | _ :: _, [] => Nat.zero_le _
  | a :: as, b :: bs => by
    simp only [lcp, List.length_cons]
    split
    · exact Nat.succ_le_succ (lcp_le_right as bs)
    · exact Nat.zero_le _

theorem lcp_append_left (p a b : List SymN) : lcp (p ++ a) (p ++ b) = p.length + lcp a b := by
  induction p with
  | nil => simp
  | cons x p ih => simp [lcp, ih]; omega

/-- a list that does not start with `p` has the same common prefix with `p ++ s` as with `p` -/
theorem lcp_append_of_not_prefix : ∀ (p s l : List SymN), ¬ (∃ suf, l = p ++ suf) →
    lcp (p ++ s) l = lcp p l
  | [], _, l, h => absurd ⟨l, rfl⟩ h
  | _ :: _, _, [], _ => rfl
  | a :: p, s, b :: l, h => by
    by_cases hab : a = b
    · subst hab
      have h' : ¬ ∃ suf, l = p ++ suf := by
        rintro ⟨suf, rfl⟩
        exact h ⟨suf, rfl⟩
      simp [lcp, lcp_append_of_not_prefix p s l h']
    · simp [lcp, hab]

/-- weight of a pair of rules: the common prefix length if they belong to one non-terminal -/
def pairW (r q : RuleN) : Nat := if r.lhs = q.lhs then lcp r.rhs q.rhs else 0

theorem pairW_comm (r q : RuleN) : pairW r q = pairW q r := by
  unfold pairW
  by_cases h : r.lhs = q.lhs
  · rw [if_pos h, if_pos h.symm, lcp_comm]
  · rw [if_neg h, if_neg (fun e => h e.symm)]

def rowW (r : RuleN) : List RuleN → Nat
  | [] => 0
  | q :: l => pairW r q + rowW r l

/-- **the termination measure of left factoring**: Σ over pairs `i < j` of rules with the same
    left-hand side of the length of the longest common prefix of their right-hand sides -/
def lfMeasure : List RuleN → Nat
  | [] => 0
  | r :: l => rowW r l + lfMeasure l

def crossW : List RuleN → List RuleN → Nat
  | [], _ => 0
  | r :: a, b => rowW r b + crossW a b

theorem rowW_append (r : RuleN) (a b : List RuleN) : rowW r (a ++ b) = rowW r a + rowW r b := by
  induction a with
  | nil => simp [rowW]
  | cons q a ih => simp [rowW, ih]; omega

theorem lfMeasure_append (a b : List RuleN) :
    lfMeasure (a ++ b) = lfMeasure a + lfMeasure b + crossW a b := by
  induction a with
  | nil => simp [lfMeasure, crossW]
  | cons r a ih => simp [lfMeasure, crossW, rowW_append, ih]; omega

theorem rowW_perm (r : RuleN) {l1 l2 : List RuleN} (h : l1.Perm l2) : rowW r l1 = rowW r l2 := by
  induction h with
  | nil => rfl
  | cons x _ ih => simp [rowW, ih]
  | swap x y l => simp [rowW]; omega
  | trans _ _ ih1 ih2 => exact ih1.trans ih2

theorem lfMeasure_perm {l1 l2 : List RuleN} (h : l1.Perm l2) : lfMeasure l1 = lfMeasure l2 := by
  induction h with
  | nil => rfl
  | cons x hp ih => simp [lfMeasure, ih, rowW_perm x hp]
  | swap x y l =>
    simp only [lfMeasure, rowW]
    rw [pairW_comm y x]
    omega
  | trans _ _ ih1 ih2 => exact ih1.trans ih2

theorem rowW_zero (r : RuleN) : ∀ (l : List RuleN), (∀ q ∈ l, r.lhs ≠ q.lhs) → rowW r l = 0
  | [], _ => rfl
  | q :: l, h => by
    have h1 : pairW r q = 0 := by
      unfold pairW
      rw [if_neg (h q (by simp))]
    simp [rowW, h1, rowW_zero r l (fun q' hq' => h q' (by simp [hq']))]

theorem crossW_zero : ∀ (a b : List RuleN), (∀ r ∈ a, ∀ q ∈ b, r.lhs ≠ q.lhs) → crossW a b = 0
  | [], _, _ => rfl
  | r :: a, b, h => by
    simp [crossW, rowW_zero r b (h r (by simp)),
      crossW_zero a b (fun r' hr' => h r' (by simp [hr']))]

theorem lfMeasure_append_disjoint (a b : List RuleN) (h : ∀ r ∈ a, ∀ q ∈ b, r.lhs ≠ q.lhs) :
    lfMeasure (a ++ b) = lfMeasure a + lfMeasure b := by
  rw [lfMeasure_append, crossW_zero a b h]; rfl

/-! ### an explicit bound of the measure -/

def totalLen (rs : List RuleN) : Nat := (rs.map (·.rhs.length)).sum

theorem rowW_le (r : RuleN) : ∀ l : List RuleN, rowW r l ≤ totalLen l
  | [] => Nat.le_refl _
  | q :: l => by
    have h1 : pairW r q ≤ q.rhs.length := by
      unfold pairW
      split
      · exact lcp_le_right _ _
      · exact Nat.zero_le _
    have := rowW_le r l
    simp only [rowW, totalLen, List.map_cons, List.sum_cons] at this ⊢
    omega

theorem lfMeasure_le : ∀ rs : List RuleN, lfMeasure rs ≤ rs.length * totalLen rs
  | [] => Nat.le_refl _
  | r :: l => by
    have h1 := rowW_le r l
    have h2 := lfMeasure_le l
    have h3 : totalLen (r :: l) = r.rhs.length + totalLen l := by simp [totalLen]
    have h4 : l.length * totalLen l ≤ l.length * (r.rhs.length + totalLen l) :=
      Nat.mul_le_mul_left _ (Nat.le_add_left _ _)
    simp only [lfMeasure, List.length_cons, h3, Nat.succ_mul]
    omega

/-! ## the rules of one non-terminal: `mod_factor` decreases the measure -/

theorem isPrefixOf_iff {p l : List SymN} : p.isPrefixOf l = true ↔ ∃ suf, l = p ++ suf := by
  rw [List.isPrefixOf_iff_prefix]
  constructor
  · rintro ⟨t, rfl⟩; exact ⟨t, rfl⟩
  · rintro ⟨t, rfl⟩; exact ⟨t, rfl⟩

/-- number of rules whose right-hand side starts with `p` -/
def preCount (p : List SymN) (l : List RuleN) : Nat := l.countP (fun r => p.isPrefixOf r.rhs)

/-- Σ over the rules that do not start with `p` of their common prefix length with `p` -/
def sigmaW (p : List SymN) : List RuleN → Nat
  | [] => 0
  | q :: l => (if p.isPrefixOf q.rhs then 0 else lcp p q.rhs) + sigmaW p l

theorem preCount_cons_pos {p : List SymN} {q : RuleN} {l : List RuleN}
    (h : ∃ suf, q.rhs = p ++ suf) : preCount p (q :: l) = preCount p l + 1 := by
  simp [preCount, isPrefixOf_iff.2 h]

theorem preCount_cons_neg {p : List SymN} {q : RuleN} {l : List RuleN}
    (h : ¬ ∃ suf, q.rhs = p ++ suf) : preCount p (q :: l) = preCount p l := by
  have : p.isPrefixOf q.rhs = false := by
    cases e : p.isPrefixOf q.rhs with
    | false => rfl
    | true => exact absurd (isPrefixOf_iff.1 e) h
  simp [preCount, this]

theorem sigmaW_cons_pos {p : List SymN} {q : RuleN} {l : List RuleN}
    (h : ∃ suf, q.rhs = p ++ suf) : sigmaW p (q :: l) = sigmaW p l := by
  simp [sigmaW, isPrefixOf_iff.2 h]

theorem sigmaW_cons_neg {p : List SymN} {q : RuleN} {l : List RuleN}
    (h : ¬ ∃ suf, q.rhs = p ++ suf) : sigmaW p (q :: l) = lcp p q.rhs + sigmaW p l := by
  have : p.isPrefixOf q.rhs = false := by
    cases e : p.isPrefixOf q.rhs with
    | false => rfl
    | true => exact absurd (isPrefixOf_iff.1 e) h
  simp [sigmaW, this]

/-- row of a factored rule (`r = A → p suf` became `X → suf`) against the transformed block -/
theorem rowW_factored {X A : Name} (hXA : X ≠ A) {p : List SymN} (r : RuleN) (suf : List SymN)
    (hr : r.lhs = A) (hs : r.rhs = p ++ suf) :
    ∀ (L : List RuleN), (∀ q ∈ L, q.lhs = A) →
      rowW ⟨X, suf, r.attr⟩ (L.map (factorOutRule X p)) + sigmaW p L +
        (if 1 ≤ preCount p L then p.length else 0) ≤ rowW r L
  | [], _ => by simp [rowW, sigmaW, preCount]
  | q :: L, hL => by
    have hqA : q.lhs = A := hL q (by simp)
    have ih := rowW_factored hXA r suf hr hs L (fun q' hq' => hL q' (by simp [hq']))
    simp only [List.map_cons, rowW]
    rcases factorOutRule_cases X p q with ⟨he, hn⟩ | ⟨sq, hq, he⟩
    · rw [he, sigmaW_cons_neg hn, preCount_cons_neg hn]
      have h1 : pairW ⟨X, suf, r.attr⟩ q = 0 := by
        unfold pairW
        rw [if_neg (by simpa [hqA] using hXA)]
      have h2 : pairW r q = lcp p q.rhs := by
        unfold pairW
        rw [if_pos (hr.trans hqA.symm), hs, lcp_append_of_not_prefix p suf q.rhs hn]
      rw [h1, h2]
      omega
    · rw [he, sigmaW_cons_pos ⟨sq, hq⟩, preCount_cons_pos ⟨sq, hq⟩]
      have h1 : pairW ⟨X, suf, r.attr⟩ ⟨X, sq, q.attr⟩ = lcp suf sq := by
        unfold pairW
        rw [if_pos rfl]
      have h2 : pairW r q = p.length + lcp suf sq := by
        unfold pairW
        rw [if_pos (hr.trans hqA.symm), hs, hq, lcp_append_left]
      rw [h1, h2, if_pos (Nat.le_add_left _ _)]
      split at ih <;> omega

/-- row of a rule that does not start with `p` against the transformed block -/
theorem rowW_unfactored {X A : Name} (hXA : X ≠ A) {p : List SymN} (r : RuleN)
    (hr : r.lhs = A) (hn : ¬ ∃ suf, r.rhs = p ++ suf) :
    ∀ (L : List RuleN), (∀ q ∈ L, q.lhs = A) →
      rowW r (L.map (factorOutRule X p)) +
        (if 1 ≤ preCount p L then lcp p r.rhs else 0) ≤ rowW r L
  | [], _ => by simp [rowW, preCount]
  | q :: L, hL => by
    have hqA : q.lhs = A := hL q (by simp)
    have ih := rowW_unfactored hXA r hr hn L (fun q' hq' => hL q' (by simp [hq']))
    simp only [List.map_cons, rowW]
    rcases factorOutRule_cases X p q with ⟨he, hnq⟩ | ⟨sq, hq, he⟩
    · rw [he, preCount_cons_neg hnq]
      omega
    · rw [he, preCount_cons_pos ⟨sq, hq⟩]
      have h1 : pairW r ⟨X, sq, q.attr⟩ = 0 := by
        unfold pairW
        rw [if_neg (by simpa [hr] using Ne.symm hXA)]
      have h2 : pairW r q = lcp p r.rhs := by
        unfold pairW
        rw [if_pos (hr.trans hqA.symm), hq, lcp_comm, lcp_append_of_not_prefix p sq r.rhs hn]
      rw [h1, h2, if_pos (Nat.le_add_left _ _)]
      split at ih <;> omega

/-- row of the new rule `A → p X` against the transformed block -/
theorem rowW_new {X A : Name} (hXA : X ≠ A) {p : List SymN} (at0 : PAttr) :
    ∀ (L : List RuleN), (∀ q ∈ L, q.lhs = A) →
      rowW ⟨A, p ++ [.n X .none], at0⟩ (L.map (factorOutRule X p)) = sigmaW p L
  | [], _ => rfl
  | q :: L, hL => by
    have hqA : q.lhs = A := hL q (by simp)
    have ih := rowW_new hXA (p := p) at0 L (fun q' hq' => hL q' (by simp [hq']))
    simp only [List.map_cons, rowW]
    rcases factorOutRule_cases X p q with ⟨he, hnq⟩ | ⟨sq, hq, he⟩
    · rw [he, sigmaW_cons_neg hnq, ih]
      have h2 : pairW ⟨A, p ++ [.n X .none], at0⟩ q = lcp p q.rhs := by
        unfold pairW
        rw [if_pos hqA.symm, lcp_append_of_not_prefix p _ q.rhs hnq]
      rw [h2]
    · rw [he, sigmaW_cons_pos ⟨sq, hq⟩, ih]
      have h1 : pairW ⟨A, p ++ [.n X .none], at0⟩ ⟨X, sq, q.attr⟩ = 0 := by
        unfold pairW
        rw [if_neg (by simpa using Ne.symm hXA)]
      rw [h1, Nat.zero_add]

theorem lfMeasure_map_factor {X A : Name} (hXA : X ≠ A) {p : List SymN} :
    ∀ (L : List RuleN), (∀ q ∈ L, q.lhs = A) →
      lfMeasure (L.map (factorOutRule X p)) + (if 1 ≤ preCount p L then sigmaW p L else 0) +
        (if 2 ≤ preCount p L then p.length else 0) ≤ lfMeasure L
  | [], _ => by simp [lfMeasure, preCount]
  | r :: L, hL => by
    have hrA : r.lhs = A := hL r (by simp)
    have hL' : ∀ q ∈ L, q.lhs = A := fun q' hq' => hL q' (by simp [hq'])
    have ih := lfMeasure_map_factor hXA (p := p) L hL'
    simp only [List.map_cons, lfMeasure]
    rcases factorOutRule_cases X p r with ⟨he, hn⟩ | ⟨sr, hs, he⟩
    · have hrow := rowW_unfactored hXA r hrA hn L hL'
      rw [he, preCount_cons_neg hn, sigmaW_cons_neg hn]
      by_cases c1 : 1 ≤ preCount p L <;> by_cases c2 : 2 ≤ preCount p L <;>
        simp only [c1, c2, ↓reduceIte] at ih hrow ⊢ <;> omega
    · have hrow := rowW_factored hXA r sr hrA hs L hL'
      rw [he, preCount_cons_pos ⟨sr, hs⟩, sigmaW_cons_pos ⟨sr, hs⟩, if_pos (Nat.le_add_left _ _)]
      have e2 : (2 ≤ preCount p L + 1) = (1 ≤ preCount p L) := by
        apply propext; omega
      simp only [e2]
      by_cases c1 : 1 ≤ preCount p L <;> by_cases c2 : 2 ≤ preCount p L <;>
        simp only [c1, c2, ↓reduceIte] at ih hrow ⊢ <;> omega

/-- **`mod_factor` strictly decreases the measure** when the prefix is non-empty and shared by at
    least two of the rules. -/
theorem lfMeasure_modFactor {X A : Name} (hXA : X ≠ A) {p : List SymN} (hp : p ≠ [])
    (L : List RuleN) (hL : ∀ q ∈ L, q.lhs = A) (h2 : 2 ≤ preCount p L) :
    lfMeasure (modFactor X A p L) < lfMeasure L := by
  have h := lfMeasure_map_factor hXA (p := p) L hL
  have hlen : 0 < p.length := List.length_pos_iff.2 hp
  rw [if_pos (by omega), if_pos h2] at h
  unfold modFactor
  simp only [lfMeasure]
  rw [rowW_new hXA .none L hL]
  omega

/-! ## one `factor_out_prefix` step -/

theorem lhs_mem_namesN {rs : List RuleN} {r : RuleN} (hr : r ∈ rs) : r.lhs ∈ namesN rs :=
  mem_namesN.2 ⟨r, hr, .inl rfl⟩

/-- **one step strictly decreases the measure** when the prefix is non-empty and at least two rules
    of `A` start with it. -/
theorem factorOutPrefix_decreases {rs rs' : List RuleN} {A : Name} {p : List SymN}
    (h : factorOutPrefix rs A p = some rs') (hp : p ≠ [])
    (h2 : 2 ≤ preCount p (rs.filter (fun r => r.lhs = A))) :
    lfMeasure rs' < lfMeasure rs := by
  unfold factorOutPrefix at h
  split at h
  · rename_i hany
    obtain ⟨rA, hrA, hAA⟩ := any_lhs_iff.1 hany
    split at h
    · cases h
    · rename_i X hX
      have h := Option.some.inj h
      subst h
      have hXn : X ∉ namesN rs := generateName_not_mem hX
      have hXA : X ≠ A := fun e => hXn (e ▸ hAA ▸ lhs_mem_namesN hrA)
      rw [filter_dropWhile_eq]
      have hsplit : rs.takeWhile (fun r => r.lhs ≠ A) ++ rs.dropWhile (fun r => r.lhs ≠ A) = rs :=
        List.takeWhile_append_dropWhile
      have hbefore : ∀ q ∈ rs.takeWhile (fun r => r.lhs ≠ A), q.lhs ≠ A := fun q hq => by
        simpa using mem_takeWhile_imp' _ _ _ hq
      have hsub1 : ∀ q ∈ rs.takeWhile (fun r => r.lhs ≠ A), q ∈ rs := fun q hq => by
        rw [← hsplit]; exact List.mem_append_left _ hq
      have hsub2 : ∀ q ∈ (rs.dropWhile (fun r => r.lhs ≠ A)).filter (fun r => r.lhs ≠ A), q ∈ rs :=
        fun q hq => by
          rw [← hsplit]; exact List.mem_append_right _ (List.mem_filter.1 hq).1
      have hfun : (fun r : RuleN => !decide (r.lhs = A)) = fun r => decide (r.lhs ≠ A) := by
        funext r; simp
      have hrest : (rs.dropWhile (fun r => r.lhs ≠ A)).Perm
          (rs.filter (fun r => r.lhs = A) ++
            (rs.dropWhile (fun r => r.lhs ≠ A)).filter (fun r => r.lhs ≠ A)) := by
        have := (List.filter_append_perm (fun r : RuleN => decide (r.lhs = A))
          (rs.dropWhile (fun r => r.lhs ≠ A))).symm
        rw [hfun, filter_dropWhile_eq] at this
        exact this
      have hperm1 : rs.Perm (rs.filter (fun r => r.lhs = A) ++
          (rs.takeWhile (fun r => r.lhs ≠ A) ++
            (rs.dropWhile (fun r => r.lhs ≠ A)).filter (fun r => r.lhs ≠ A))) := by
        conv => lhs; rw [← hsplit]
        exact (List.Perm.append_left _ hrest).trans (List.perm_append_comm_assoc _ _ _)
      have hperm2 : (rs.takeWhile (fun r => r.lhs ≠ A) ++
            modFactor X A p (rs.filter (fun r => r.lhs = A)) ++
            (rs.dropWhile (fun r => r.lhs ≠ A)).filter (fun r => r.lhs ≠ A)).Perm
          (modFactor X A p (rs.filter (fun r => r.lhs = A)) ++
            (rs.takeWhile (fun r => r.lhs ≠ A) ++
              (rs.dropWhile (fun r => r.lhs ≠ A)).filter (fun r => r.lhs ≠ A))) := by
        rw [List.append_assoc]
        exact (List.perm_append_comm_assoc _ _ _)
      have hAr : ∀ q ∈ rs.filter (fun r => r.lhs = A), q.lhs = A := fun q hq => by
        simpa using (List.mem_filter.1 hq).2
      have hother : ∀ q ∈ rs.takeWhile (fun r => r.lhs ≠ A) ++
          (rs.dropWhile (fun r => r.lhs ≠ A)).filter (fun r => r.lhs ≠ A),
          q.lhs ≠ A ∧ q.lhs ≠ X := by
        intro q hq
        rcases List.mem_append.1 hq with hq | hq
        · exact ⟨hbefore q hq, fun e => hXn (e ▸ lhs_mem_namesN (hsub1 q hq))⟩
        · exact ⟨by simpa using (List.mem_filter.1 hq).2,
            fun e => hXn (e ▸ lhs_mem_namesN (hsub2 q hq))⟩
      rw [lfMeasure_perm hperm1, lfMeasure_perm hperm2,
        lfMeasure_append_disjoint _ _ (fun r hr q hq e => (hother q hq).1 (e ▸ hAr r hr)),
        lfMeasure_append_disjoint _ _ (fun r hr q hq e => by
          rcases modFactor_lhs hAr r hr with h1 | h1
          · exact (hother q hq).1 (e ▸ h1)
          · exact (hother q hq).2 (e ▸ h1))]
      have := lfMeasure_modFactor hXA hp _ hAr h2
      omega
  · rename_i hany
    exfalso
    have : rs.filter (fun r => r.lhs = A) = [] := by
      rw [List.filter_eq_nil_iff]
      intro q hq hA
      exact hany (any_lhs_iff.2 ⟨q, hq, by simpa using hA⟩)
    rw [this] at h2
    simp [preCount] at h2

/-- a step for `B` leaves the rules of every other defined non-terminal `A` untouched -/
theorem filter_factorOutPrefix_other {rs rs1 : List RuleN} {A B : Name} {pre : List SymN}
    (h : factorOutPrefix rs B pre = some rs1) (hAB : A ≠ B) (hA : ∃ r ∈ rs, r.lhs = A) :
    rs1.filter (fun r => r.lhs = A) = rs.filter (fun r => r.lhs = A) := by
  rw [factorOutPrefix_pass] at h
  split at h
  · cases hX : generateName (namesN rs) (B ++ "Suffix".toList) with
    | none => rw [hX] at h; cases h
    | some X =>
      rw [hX] at h
      have h := Option.some.inj h
      subst h
      obtain ⟨rA, hrA, hAA⟩ := hA
      have hXn : X ∉ namesN rs := generateName_not_mem hX
      apply filter_passA A B _ _ hAB
      intro q hq e
      rcases modFactor_lhs (fun q' hq' => by simpa using (List.mem_filter.1 hq').2) q hq with h1 | h1
      · exact hAB (e.symm.trans h1)
      · exact hXn (h1 ▸ e ▸ hAA ▸ lhs_mem_namesN hrA)
  · have h := Option.some.inj h
    subst h
    rfl

/-! ## one round (`factor_out`) -/

/-- what the prefix list of one round satisfies with respect to the current rules, and keeps
    satisfying while it is folded: distinct non-terminals, non-empty prefixes, each shared by at
    least two rules of its non-terminal -/
def RInv (acc : List RuleN) (l : List PItem) : Prop :=
  (l.map (·.1)).Nodup ∧
    ∀ x ∈ l, x.2 ≠ [] ∧ 2 ≤ preCount x.2 (acc.filter (fun r => r.lhs = x.1))

theorem RInv_step {rs rs1 : List RuleN} {x : PItem} {t : List PItem}
    (h : stepP rs x = some rs1) (hinv : RInv rs (x :: t)) : RInv rs1 t := by
  obtain ⟨hn, hall⟩ := hinv
  simp only [List.map_cons, List.nodup_cons] at hn
  refine ⟨hn.2, ?_⟩
  intro y hy
  obtain ⟨h1, h2⟩ := hall y (by simp [hy])
  have hne : y.1 ≠ x.1 := fun e => hn.1 (e ▸ List.mem_map.2 ⟨y, hy, rfl⟩)
  have hex : ∃ r ∈ rs, r.lhs = y.1 := by
    cases hf : rs.filter (fun r => r.lhs = y.1) with
    | nil => rw [hf] at h2; simp [preCount] at h2
    | cons r _ =>
      have hr : r ∈ rs.filter (fun r => r.lhs = y.1) := by rw [hf]; simp
      exact ⟨r, (List.mem_filter.1 hr).1, by simpa using (List.mem_filter.1 hr).2⟩
  rw [filter_factorOutPrefix_other h hne hex]
  exact ⟨h1, h2⟩

/-- the fold of one round decreases the measure by at least the number of prefixes -/
theorem foldlM_decreases : ∀ (l : List PItem) (rs rs' : List RuleN), RInv rs l →
    l.foldlM stepP rs = some rs' → lfMeasure rs' + l.length ≤ lfMeasure rs
  | [], rs, rs', _, h => by
    simp only [List.foldlM_nil] at h
    cases h
    exact Nat.le_refl _
  | x :: t, rs, rs', hinv, h => by
    simp only [List.foldlM_cons] at h
    cases h1 : stepP rs x with
    | none => rw [h1] at h; cases h
    | some rs1 =>
      rw [h1] at h
      have hx := hinv.2 x (by simp)
      have hd := factorOutPrefix_decreases h1 hx.1 hx.2
      have := foldlM_decreases t rs1 rs' (RInv_step h1 hinv) h
      simp only [List.length_cons]
      omega

/-! ### every prefix found by `find_prefix` is shared by at least two candidates -/

theorem count_prefixesOfLen_le (n : Nat) (k : List SymN) : ∀ cands : List (List SymN),
    (prefixesOfLen cands n).count k ≤ cands.countP (fun c => k.isPrefixOf c)
  | [] => by simp [prefixesOfLen]
  | c :: cands => by
    have ih := count_prefixesOfLen_le n k cands
    simp only [prefixesOfLen] at ih ⊢
    rw [List.filterMap_cons, List.countP_cons]
    split
    · omega
    · rename_i b hb
      split at hb
      · injection hb with hb
        subst hb
        rw [List.count_cons]
        by_cases hk : c.take n = k
        · subst hk
          have : (c.take n).isPrefixOf c = true :=
            List.isPrefixOf_iff_prefix.2 (List.take_prefix n c)
          simp [this]
          omega
        · have : (c.take n == k) = false := by simpa using hk
          simp [this]
          omega
      · cases hb

theorem findPrefixN_shared (cands : List (List SymN)) (n : Nat) :
    findPrefixN cands n = [] ∨
      2 ≤ cands.countP (fun c => (findPrefixN cands n).isPrefixOf c) := by
  unfold findPrefixN
  simp only
  split
  · exact .inl rfl
  · split
    · rename_i k v hb
      split
      · rename_i hv
        right
        have := ((bestFirst_spec _).2 k v hb).2
        have := count_prefixesOfLen_le n k cands
        omega
      · exact .inl rfl
    · exact .inl rfl

theorem findLongestPrefix_shared (cands : List (List SymN)) : ∀ (f n : Nat),
    findLongestPrefix cands f n = [] ∨
      2 ≤ cands.countP (fun c => (findLongestPrefix cands f n).isPrefixOf c)
  | 0, _ => .inl rfl
  | f+1, n => by
    simp only [findLongestPrefix]
    split
    · exact .inl rfl
    · split
      · exact findPrefixN_shared cands n
      · split
        · exact findPrefixN_shared cands (n + 1)
        · exact findLongestPrefix_shared cands f (n + 2)

/-- the prefix list computed at the start of a round satisfies the round invariant -/
theorem prefixes_rinv {ord : GroupOrd} (hord : ∀ l, (ord l).Perm l) (rs : List RuleN) :
    RInv rs (findLongestPrefixes ord rs) := by
  refine ⟨(prefixes_inv hord rs).1, ?_⟩
  intro x hx
  simp only [findLongestPrefixes, List.mem_filterMap] at hx
  obtain ⟨⟨A, grp⟩, hmem, hx⟩ := hx
  simp only at hx
  split at hx
  · cases hx
  · rename_i hne
    injection hx with hx
    subst hx
    have hmem' : (A, grp) ∈ groupByLhs rs := (hord _).mem_iff.1 hmem
    simp only [groupByLhs, List.mem_map] at hmem'
    obtain ⟨A', _, he⟩ := hmem'
    simp only [Prod.mk.injEq] at he
    obtain ⟨rfl, rfl⟩ := he
    simp only
    have hne' : findPrefix ((rs.filter fun r => r.lhs = A').map (·.rhs)) ≠ [] := by
      simpa using hne
    refine ⟨hne', ?_⟩
    rcases findLongestPrefix_shared ((rs.filter fun r => r.lhs = A').map (·.rhs)) _ 1 with h | h
    · exact absurd h hne'
    · unfold preCount
      rw [List.countP_map] at h
      exact h

/-- **one modifying round strictly decreases the measure** (for every drain order of `group_by`'s
    map that is a permutation of the groups) -/
theorem factorOut_decreases {ord : GroupOrd} (hord : ∀ l, (ord l).Perm l) {rs rs' : List RuleN}
    (h : factorOut ord rs = some (rs', true)) : lfMeasure rs' < lfMeasure rs := by
  unfold factorOut at h
  simp only [Option.map_eq_some_iff, Prod.mk.injEq] at h
  obtain ⟨rs1, hf, rfl, hm⟩ := h
  have := foldlM_decreases (findLongestPrefixes ord rs) rs rs1 (prefixes_rinv hord rs) hf
  have hlen : 0 < (findLongestPrefixes ord rs).length := by
    cases hl : findLongestPrefixes ord rs with
    | nil => rw [hl] at hm; simp at hm
    | cons _ _ => simp
  omega

/-! ## the loop -/

theorem leftFactorLoop_total_of {ord : GroupOrd}
    (htot : ∀ rs, ∃ rs' m, factorOut ord rs = some (rs', m))
    (hdec : ∀ rs rs', factorOut ord rs = some (rs', true) → lfMeasure rs' < lfMeasure rs) :
    ∀ (n : Nat) (rs : List RuleN), lfMeasure rs < n → ∃ rs', leftFactorLoop ord n rs = some rs'
  | 0, _, h => absurd h (Nat.not_lt_zero _)
  | n+1, rs, h => by
    obtain ⟨rs1, m, h1⟩ := htot rs
    simp only [leftFactorLoop, h1]
    cases m with
    | true =>
      have := hdec rs rs1 h1
      exact leftFactorLoop_total_of htot hdec n rs1 (by omega)
    | false => exact ⟨rs1, rfl⟩

/-- with a drain order that invents groups the loop never ends: every round "modifies" -/
theorem leftFactorLoop_none_of_always_modified {ord : GroupOrd}
    (htot : ∀ rs, ∃ rs', factorOut ord rs = some (rs', true)) :
    ∀ (n : Nat) (rs : List RuleN), leftFactorLoop ord n rs = none
  | 0, _ => rfl
  | n+1, rs => by
    obtain ⟨rs1, h1⟩ := htot rs
    simp only [leftFactorLoop, h1]
    exact leftFactorLoop_none_of_always_modified htot n rs1

/-! ## the driver's fuel -/

theorem lfFuel_foldl (rs : List RuleN) : ∀ a : Nat,
    rs.foldl (fun acc r => acc + r.rhs.length + 1) a = a + totalLen rs + rs.length := by
  induction rs with
  | nil => intro a; simp [totalLen]
  | cons r rs ih =>
    intro a
    simp only [List.foldl_cons, ih, totalLen, List.map_cons, List.sum_cons, List.length_cons]
    omega

theorem lfFuel_ge (rs : List RuleN) : rs.length * totalLen rs + 1 ≤ lfFuel rs := by
  unfold lfFuel
  rw [lfFuel_foldl, Nat.zero_add]
  have h : rs.length * totalLen rs ≤ (rs.length + 1) * (totalLen rs + rs.length) :=
    Nat.mul_le_mul (Nat.le_succ _) (Nat.le_add_right _ _)
  rw [Nat.mul_comm (rs.length + 1)] at h
  omega

end ParolModel
