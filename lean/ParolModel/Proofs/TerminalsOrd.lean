import ParolModel.Proofs.TerminalsOps
/-! # L7 refinement: equality, ordering, iteration -/
namespace ParolModel
namespace Tm

/-! ## equality -/

theorem prefix_eq_of_fields {t u : BitVec 128} (ht : WF t) (j : Nat) (hj : j ≤ 10)
    (h : ∀ i, i < j → eltS t (bits t) (off t i) = eltS u (bits t) (off t i)) :
    t &&& maskS (off t j) = u &&& maskS (off t j) := by
  induction j with
  | zero =>
    rw [off_zero]
    have : maskS 0 = 0#128 := maskS_zero
    rw [this]; simp
  | succ j ih =>
    rw [off_succ]
    exact (prefix_eq_step t u (bits t) (off t j) (bits_le12 ht) (off_le_108 ht (by omega))).2
      ⟨ih (by omega) (fun i hi => h i (by omega)), h j (by omega)⟩

theorem fields_of_abs_eq {t u : BitVec 128} (ht : WF t) (hu : WF u) (hb : bits t = bits u) (ha : abs t = abs u) :
    len t = len u ∧ ∀ i, i < len t → eltS t (bits t) (off t i) = eltS u (bits t) (off t i) := by
  have hl : len t = len u := by rw [← abs_length t, ← abs_length u, ha]
  refine ⟨hl, ?_⟩
  intro i hi
  have hlen := ht.len_le
  have h1 : (abs t)[i]'(by simpa using hi) = (abs u)[i]'(by simp; omega) := by simp only [ha]
  rw [abs_getElem, abs_getElem, symAt_eq ht (by omega), symAt_eq hu (by omega), ← hb, ← off_congr hb] at h1
  exact symOfRaw_inj _ _ _ h1

theorem eq_of_absS_eq {t u : BitVec 128} (ht : WF t) (hu : WF u) (h : absS t = absS u) : t = u := by
  simp only [absS, Spec.mk.injEq] at h
  obtain ⟨hbn, ha⟩ := h
  have hb : bits t = bits u := BitVec.eq_of_toNat_eq hbn
  obtain ⟨hl, hf⟩ := fields_of_abs_eq ht hu hb ha
  have hp := prefix_eq_of_fields (u := u) ht (len t) ht.len_le hf
  have hz := wf_zeroAbove hu
  rw [← hl, ← off_congr hb] at hz
  have hi : nextIndex t = nextIndex u := BitVec.eq_of_toNat_eq hl
  exact eq_of_prefix_eq t u (off t (len t)) (off_le_120 ht ht.len_le) (wf_zeroAbove ht) hz hp hb hi

/-! ## ordering -/

/-- the first `j` symbols, most significant (last) first -/
def revSyms (t : BitVec 128) (j : Nat) : List TSym := ((List.range j).map (symAt t)).reverse

theorem revSyms_succ (t : BitVec 128) (j : Nat) : revSyms t (j + 1) = symAt t j :: revSyms t j := by
  simp [revSyms, List.range_succ]

theorem revSyms_len (t : BitVec 128) : revSyms t (len t) = (abs t).reverse := rfl

theorem symLt_raw (m e1 e2 : BitVec 128) (h1 : e1 ≤ m) (h2 : e2 ≤ m) :
    symLt (symOfRaw m e1) (symOfRaw m e2) = decide (e1 < e2) := by
  unfold symOfRaw
  by_cases c1 : e1 = m <;> by_cases c2 : e2 = m
  · subst c1; subst c2; simp [symLt]
  · subst c1
    have : ¬ e1 < e2 := by bv_omega
    simp [symLt, c2, this]
  · subst c2
    have : e1 < e2 := by
      have : e1.toNat ≠ e2.toNat := fun hh => c1 (BitVec.eq_of_toNat_eq hh)
      bv_omega
    simp [symLt, c1, this]
  · simp [symLt, c1, c2, BitVec.lt_def]

theorem cmp_prefix {t u : BitVec 128} (ht : WF t) (hu : WF u) (hb : bits u = bits t) (j : Nat) (hj : j ≤ 10) :
    cmpBV (t &&& maskS (off t j)) (u &&& maskS (off t j)) = lexCmp (revSyms t j) (revSyms u j) := by
  induction j with
  | zero =>
    rw [off_zero]
    have : maskS 0 = 0#128 := maskS_zero
    rw [this]; simp [cmpBV, revSyms, lexCmp]
  | succ j ih =>
    have ih := ih (by omega)
    have hb12 := bits_le12 ht
    have hs := off_le_108 ht (show j < 10 by omega)
    rw [revSyms_succ, revSyms_succ, off_succ]
    rw [symAt_eq ht (by omega), symAt_eq hu (by omega), hb, off_congr hb]
    simp only [lexCmp]
    rw [symLt_raw _ _ _ (eltS_le_mask _ _ _) (eltS_le_mask _ _ _), symLt_raw _ _ _ (eltS_le_mask _ _ _) (eltS_le_mask _ _ _)]
    have hlt := lt_step t u (bits t) (off t j) hb12 hs
    have hgt := lt_step u t (bits t) (off t j) hb12 hs
    have heq := prefix_eq_step t u (bits t) (off t j) hb12 hs
    generalize eltS t (bits t) (off t j) = e1 at *
    generalize eltS u (bits t) (off t j) = e2 at *
    generalize t &&& maskS (off t j + bits t) = X at *
    generalize u &&& maskS (off t j + bits t) = Y at *
    generalize t &&& maskS (off t j) = lo1 at *
    generalize u &&& maskS (off t j) = lo2 at *
    rw [← ih]
    unfold cmpBV
    by_cases c1 : e1 < e2
    · have : X < Y := hlt.2 (Or.inl c1)
      simp [c1, this]
    · by_cases c2 : e2 < e1
      · have hne : ¬ e1 = e2 := by intro hh; subst hh; exact c1 c2
        have h1 : ¬ X < Y := by
          intro hh; rcases hlt.1 hh with h | h
          · exact c1 h
          · exact hne h.1
        have h2 : ¬ X = Y := by
          intro hh; exact hne (heq.1 hh).2
        simp [c1, c2, h1, h2]
      · have he : e1 = e2 := by bv_omega
        subst he
        have h1 : X < Y ↔ lo1 < lo2 := by
          rw [hlt]; constructor
          · rintro (h | h)
            · exact absurd h c1
            · exact h.2
          · intro h; exact Or.inr ⟨rfl, h⟩
        have h2 : X = Y ↔ lo1 = lo2 := by
          rw [heq]; constructor
          · intro h; exact h.1
          · intro h; exact ⟨h, rfl⟩
        simp only [c1, decide_false, Bool.false_eq_true, if_false, h1, h2]

theorem toU128_eq {t : BitVec 128} (h : WF t) : toU128 t = some (t &&& maskS (off t (len t))) := by
  have := mul_le_120 h h.len_le
  unfold toU128
  simp only [shl?]
  have : (nextIndex t).toNat * (bits t).toNat < 128 := by simp only [len] at this; omega
  simp only [if_pos this]
  rw [shl_nat _ _ (by omega)]
  rfl

theorem cmp_spec {t u : BitVec 128} (ht : WF t) (hu : WF u) (hb : bits u = bits t) :
    cmp t u = some (specCmp (abs t) (abs u)) := by
  unfold cmp specCmp
  simp only [abs_length]
  by_cases h1 : len t < len u
  · have : nextIndex t < nextIndex u := by simp only [len] at h1; bv_omega
    simp [this, h1]
  · have c1 : ¬ nextIndex t < nextIndex u := by simp only [len] at h1; bv_omega
    simp only [c1, h1, if_false]
    by_cases h2 : len u < len t
    · have : nextIndex u < nextIndex t := by simp only [len] at h2; bv_omega
      simp [this, h2]
    · have c2 : ¬ nextIndex u < nextIndex t := by simp only [len] at h2; bv_omega
      have hl : len u = len t := by omega
      simp only [c2, h2, if_false, toU128_eq ht, toU128_eq hu]
      rw [off_congr hb, hl, cmp_prefix ht hu hb (len t) ht.len_le, revSyms_len, ← hl, revSyms_len]

/-! ## iteration -/

theorem iterGo_spec {t : BitVec 128} (h : WF t) (cnt j : Nat) (hj : j + cnt ≤ 10) :
    iterGo (mask t) (bits t) cnt (t >>> off t j) = (List.range' j cnt).map (fun i => (symAt t i).code) := by
  induction cnt generalizing j with
  | zero => simp [iterGo]
  | succ cnt ih =>
    have hj10 : j ≤ 10 := by omega
    rw [iterGo, List.range'_succ, List.map_cons]
    have he : (t >>> off t j) &&& mask t = rawGet t j := by rw [rawGet_eq h hj10]; rfl
    rw [he, decode_eq_code _ _ (by have := rawGet_lt h hj10; omega)]
    rw [shr_shr t (off t j) (bits t) (bits_le12 h) (off_le_120 h hj10), ← off_succ, ih (j + 1) (by omega)]
    rfl

theorem iter_spec {t : BitVec 128} (h : WF t) : iter t = specIter (abs t) := by
  have := iterGo_spec h (len t) 0 (by have := h.len_le; omega)
  rw [off_zero] at this
  have h0 : t >>> (0 : BitVec 8) = t := by
    rw [BitVec.ushiftRight_eq']; simp
  rw [h0] at this
  unfold iter specIter
  rw [this, abs_def, List.map_map, List.range_eq_range']
  rfl

end Tm
end ParolModel
