import ParolModel.Proofs.LLTree
/-! Simulation lemmas for the LL(k) parser model: the parse-tree builder, skipped tokens and an
unreached depth limit do not influence result and action trace (C17, C20). -/
namespace ParolModel

/-- Outcome of a run without the tree: result, actions, comments, steps. -/
structure CoreOut where
  res : Res
  actions : List (Nat × List PTItem)
  comments : List Nat
  steps : Nat
  deriving DecidableEq, Repr

def LLOut.core (o : LLOut) : CoreOut := ⟨o.res, o.actions, o.comments, o.steps⟩

structure CoreState where
  stack : List PT
  input : List MTok
  ptStack : List PTItem
  depth : Nat
  actions : List (Nat × List PTItem)
  comments : List Nat

def LLState.core (s : LLState) : CoreState := ⟨s.stack, s.input, s.ptStack, s.depth, s.actions, s.comments⟩

def coreFinish (s : CoreState) (err : Option (Option Nat)) (steps : Nat) : CoreOut :=
  let cm := (commentIds (leadSkips s.input)).reverse ++ s.comments
  match err with
  | some at_ => ⟨.syntax at_, s.actions.reverse, cm.reverse, steps⟩
  | none =>
    match firstSig (afterSkips s.input) with
    | some _ => ⟨.unprocessed, s.actions.reverse, cm.reverse, steps⟩
    | none => ⟨.ok, s.actions.reverse, cm.reverse, steps⟩

def coreAbort (s : CoreState) (r : Res) (steps : Nat) : CoreOut :=
  ⟨r, s.actions.reverse, s.comments.reverse, steps⟩

def corePush (T : LLTables) (maxDepth : Option Nat) (s : CoreState) (p : Nat) : Option (CoreState × Option Res) :=
  match T.prods[p]? with
  | none => none
  | some pr =>
    let depth := if pr.push then s.depth else s.depth + 1
    let s' : CoreState :=
      { s with stack := pr.rhsRev.reverse ++ (.e p :: s.stack), ptStack := .nt pr.lhs :: s.ptStack, depth := depth }
    match maxDepth with
    | some m => if depth > m then some (s', some (.depth depth)) else some (s', none)
    | none => some (s', none)

/-- The loop of `parse_into` without the tree builder. -/
def llCore (T : LLTables) (maxDepth : Option Nat) : Nat → CoreState → Nat → CoreOut
  | 0, s, steps => coreAbort s .fuel steps
  | fuel + 1, s, steps =>
    if inputAccepted s.stack then coreFinish s none steps else
    match s.stack with
    | [] => coreFinish s none steps
    | .t a :: st =>
      match firstSig s.input with
      | some tok =>
        if tok.ty = a then
          llCore T maxDepth fuel
            { s with stack := st, input := (afterSkips s.input).drop 1,
                     comments := (commentIds (leadSkips s.input)).reverse ++ s.comments,
                     ptStack := .tok tok.id tok.ty :: s.ptStack } (steps + 1)
        else coreFinish s (some (some tok.id)) steps
      | none =>
        if a = 0 then coreAbort s .internal steps
        else coreFinish s (some none) steps
    | .n a :: st =>
      match predict T a s.input with
      | some (.ok p) =>
        if p < 0 then coreAbort s .internal steps else
        match corePush T maxDepth { s with stack := st } p.toNat with
        | some (s', none) => llCore T maxDepth fuel s' (steps + 1)
        | some (s', some r) => coreAbort s' r steps
        | none => coreAbort s .internal steps
      | some .predictError => coreFinish s (some ((firstSig s.input).map (·.id))) steps
      | _ => coreAbort s .internal steps
    | .e p :: st =>
      match T.prods[p]? with
      | none => coreAbort s .internal steps
      | some pr =>
        let l := pr.rhsRev.length
        if s.ptStack.length < l then coreAbort s .internal steps else
        llCore T maxDepth fuel
          { s with stack := st, ptStack := s.ptStack.drop l,
                   depth := if pr.push then s.depth else s.depth - 1,
                   actions := (p, (s.ptStack.take l).reverse) :: s.actions } (steps + 1)

theorem finish_core (o : Opts) (s : LLState) (err : Option (Option Nat)) (steps : Nat) :
    (finish o s err steps).core = coreFinish s.core err steps := by
  unfold finish coreFinish
  rw [drainSkips_eq]
  simp only [LLState.core]
  cases err with
  | some e => rfl
  | none =>
    simp only
    cases firstSig (afterSkips s.input) <;> rfl

theorem abort_core (s : LLState) (r : Res) (steps : Nat) :
    (abort s r steps).core = coreAbort s.core r steps := rfl

theorem push_core (T : LLTables) (o : Opts) (s : LLState) (p : Nat) :
    (pushProduction T o s p).map (fun x => (x.1.core, x.2)) = corePush T o.maxDepth s.core p := by
  unfold pushProduction corePush
  cases T.prods[p]? with
  | none => rfl
  | some pr =>
    simp only [LLState.core]
    cases o.maxDepth with
    | none => rfl
    | some m => simp only; split <;> split <;> rfl

/-- The executable model with the tree erased is `llCore`: the tree builder (and hence the `trim`
    option) has no influence on result, actions, comments and step count. -/
theorem llLoop_core (T : LLTables) (o : Opts) : ∀ (fuel : Nat) (s : LLState) (steps : Nat),
    (llLoop T o fuel s steps).core = llCore T o.maxDepth fuel s.core steps := by
  intro fuel
  induction fuel with
  | zero => intro s steps; rfl
  | succ fuel ih =>
    intro s steps
    unfold llLoop llCore
    have hstack : s.core.stack = s.stack := rfl
    rw [hstack]
    split
    · exact finish_core o s none steps
    · cases hs : s.stack with
      | nil => simp only; exact finish_core o s none steps
      | cons x st =>
        cases x with
        | t a =>
          simp only
          have hin : s.core.input = s.input := rfl
          rw [hin]
          cases hf : firstSig s.input with
          | some tok =>
            simp only
            split
            · rw [drainSkips_eq]
              simp only
              rw [ih]
              rfl
            · exact finish_core o s _ steps
          | none =>
            simp only
            split
            · rfl
            · exact finish_core o s _ steps
        | n a =>
          simp only
          have hin : s.core.input = s.input := rfl
          rw [hin]
          cases hp : predict T a s.input with
          | none => rfl
          | some r =>
            cases r with
            | ok p =>
              simp only
              split
              · rfl
              · have hpc := push_core T o { s with stack := st } p.toNat
                simp only [LLState.core] at hpc ⊢
                rw [← hpc]
                cases hpush : pushProduction T o { s with stack := st } p.toNat with
                | none => rfl
                | some x =>
                  obtain ⟨s', r⟩ := x
                  simp only [Option.map_some]
                  cases r with
                  | none => exact ih s' _
                  | some r => rfl
            | predictError => exact finish_core o s _ steps
            | assertFail => rfl
        | e p =>
          simp only
          cases hpr : T.prods[p]? with
          | none => rfl
          | some pr =>
            simp only
            have hpt : s.core.ptStack = s.ptStack := rfl
            rw [hpt]
            split
            · rfl
            · rw [ih]; rfl


theorem sigToks_idem (inp : List MTok) : sigToks (sigToks inp) = sigToks inp := by
  simp [sigToks, List.filter_filter]

theorem firstSig_sig (inp : List MTok) : firstSig (sigToks inp) = firstSig inp := by
  simp [firstSig, sigToks_idem]

theorem predict_sig (T : LLTables) (a : Nat) (inp : List MTok) :
    predict T a (sigToks inp) = predict T a inp := by
  simp [predict, laTypes, sigToks_idem]

theorem afterSkips_sig (inp : List MTok) : afterSkips (sigToks inp) = sigToks inp := by
  induction inp with
  | nil => rfl
  | cons t rest ih =>
    by_cases hs : t.skip = true
    · rw [sigToks_cons_skip hs]; exact ih
    · have hs' : t.skip = false := by simpa using hs
      rw [sigToks_cons_sig hs']
      simp [afterSkips, List.dropWhile, hs']

theorem sigToks_afterSkips (inp : List MTok) : sigToks (afterSkips inp) = sigToks inp := by
  induction inp with
  | nil => rfl
  | cons t rest ih =>
    by_cases hs : t.skip = true
    · rw [sigToks_cons_skip hs]
      simpa [afterSkips, List.dropWhile, hs] using ih
    · have hs' : t.skip = false := by simpa using hs
      simp [afterSkips, List.dropWhile, hs']

theorem sigToks_drop_after (inp : List MTok) (tok : MTok) (h : firstSig inp = some tok) :
    sigToks ((afterSkips inp).drop 1) = (afterSkips (sigToks inp)).drop 1 := by
  obtain ⟨rest, hrest, hskip⟩ := afterSkips_firstSig h
  rw [afterSkips_sig, ← sigToks_afterSkips inp, hrest, sigToks_cons_sig hskip]
  simp

/-- What a run decides: result, action trace, step count. -/
def CoreOut.ra (o : CoreOut) : Res × List (Nat × List PTItem) × Nat := (o.res, o.actions, o.steps)

theorem coreFinish_sig (s : CoreState) (err : Option (Option Nat)) (steps : Nat) :
    (coreFinish { s with input := sigToks s.input } err steps).ra = (coreFinish s err steps).ra := by
  unfold coreFinish
  cases err with
  | some e => rfl
  | none =>
    simp only
    have h1 : firstSig (afterSkips (sigToks s.input)) = firstSig (afterSkips s.input) := by
      rw [afterSkips_sig, firstSig_sig]
      simp [firstSig, sigToks_afterSkips]
    rw [h1]
    cases firstSig (afterSkips s.input) <;> rfl

theorem coreFinish_ra_congr {s1 s2 : CoreState} (h1 : s1.input = s2.input) (h2 : s1.actions = s2.actions)
    (err : Option (Option Nat)) (steps : Nat) :
    (coreFinish s1 err steps).ra = (coreFinish s2 err steps).ra := by
  unfold coreFinish
  rw [h1, h2]
  cases err with
  | some e => rfl
  | none => simp only; cases firstSig (afterSkips s2.input) <;> rfl

theorem coreFinish_ra_sig {s1 s2 : CoreState} (h1 : s1.input = sigToks s2.input) (h2 : s1.actions = s2.actions)
    (err : Option (Option Nat)) (steps : Nat) :
    (coreFinish s1 err steps).ra = (coreFinish s2 err steps).ra := by
  unfold coreFinish
  rw [h1, h2]
  cases err with
  | some e => rfl
  | none =>
    simp only
    have hh : firstSig (afterSkips (sigToks s2.input)) = firstSig (afterSkips s2.input) := by
      rw [afterSkips_sig, firstSig_sig]
      simp [firstSig, sigToks_afterSkips]
    rw [hh]
    cases firstSig (afterSkips s2.input) <;> rfl

theorem coreFinish_comments (s : CoreState) (c1 c2 : List Nat) (err : Option (Option Nat)) (steps : Nat) :
    (coreFinish { s with comments := c1 } err steps).ra = (coreFinish { s with comments := c2 } err steps).ra := by
  unfold coreFinish
  cases err with
  | some e => rfl
  | none => simp only; cases firstSig (afterSkips s.input) <;> rfl

/-- The comment accumulator never influences result, actions or step count. -/
theorem llCore_comments_irrelevant (T : LLTables) (md : Option Nat) : ∀ (fuel : Nat) (s : CoreState)
    (c1 c2 : List Nat) (steps : Nat),
    (llCore T md fuel { s with comments := c1 } steps).ra = (llCore T md fuel { s with comments := c2 } steps).ra := by
  intro fuel
  induction fuel with
  | zero => intro s c1 c2 steps; rfl
  | succ fuel ih =>
    intro s c1 c2 steps
    unfold llCore
    simp only
    split
    · (apply coreFinish_ra_congr <;> rfl)
    · cases hs : s.stack with
      | nil => simp only; (apply coreFinish_ra_congr <;> rfl)
      | cons x st =>
        cases x with
        | t a =>
          simp only
          cases hf : firstSig s.input with
          | some tok =>
            simp only
            split
            · exact ih { s with stack := st, input := (afterSkips s.input).drop 1,
                                ptStack := .tok tok.id tok.ty :: s.ptStack } _ _ _
            · (apply coreFinish_ra_congr <;> rfl)
          | none =>
            simp only
            split
            · rfl
            · (apply coreFinish_ra_congr <;> rfl)
        | n a =>
          simp only
          cases hp : predict T a s.input with
          | none => rfl
          | some r =>
            cases r with
            | ok p =>
              simp only
              split
              · rfl
              · have hpush : ∀ c, corePush T md { s with stack := st, comments := c } p.toNat =
                    (corePush T md { s with stack := st } p.toNat).map
                      (fun x => ({ x.1 with comments := c }, x.2)) := by
                  intro c
                  unfold corePush
                  cases T.prods[p.toNat]? with
                  | none => rfl
                  | some pr =>
                    simp only
                    cases md with
                    | none => rfl
                    | some m => simp only; split <;> split <;> rfl
                have h1 := hpush c1
                have h2 := hpush c2
                simp only at h1 h2
                rw [h1, h2]
                cases corePush T md { s with stack := st } p.toNat with
                | none => rfl
                | some x =>
                  obtain ⟨s', r⟩ := x
                  simp only [Option.map_some]
                  cases r with
                  | none => exact ih s' _ _ _
                  | some r => rfl
            | predictError => (apply coreFinish_ra_congr <;> rfl)
            | assertFail => rfl
        | e p =>
          simp only
          cases hpr : T.prods[p]? with
          | none => rfl
          | some pr =>
            simp only
            split
            · rfl
            · exact ih { s with stack := st, ptStack := s.ptStack.drop pr.rhsRev.length,
                                depth := if pr.push then s.depth else s.depth - 1,
                                actions := (p, (s.ptStack.take pr.rhsRev.length).reverse) :: s.actions } _ _ _

/-- **Skipped tokens never influence parsing (LL)**: running on the significant tokens alone gives
    the same result, the same action trace (same productions, same argument tokens) and takes the
    same number of steps. -/
theorem llCore_skip_irrelevant (T : LLTables) (md : Option Nat) : ∀ (fuel : Nat) (s : CoreState) (steps : Nat),
    (llCore T md fuel { s with input := sigToks s.input } steps).ra = (llCore T md fuel s steps).ra := by
  intro fuel
  induction fuel with
  | zero => intro s steps; rfl
  | succ fuel ih =>
    intro s steps
    unfold llCore
    simp only
    split
    · (apply coreFinish_ra_sig <;> rfl)
    · cases hs : s.stack with
      | nil => simp only; (apply coreFinish_ra_sig <;> rfl)
      | cons x st =>
        cases x with
        | t a =>
          simp only [firstSig_sig]
          cases hf : firstSig s.input with
          | some tok =>
            simp only
            split
            · have := ih { s with stack := st, input := (afterSkips s.input).drop 1,
                                  comments := (commentIds (leadSkips s.input)).reverse ++ s.comments,
                                  ptStack := .tok tok.id tok.ty :: s.ptStack } (steps + 1)
              simp only at this
              rw [← this, sigToks_drop_after s.input tok hf]
              -- comments differ, but `ra` ignores them
              exact llCore_comments_irrelevant T md fuel
                ⟨st, (afterSkips (sigToks s.input)).drop 1, .tok tok.id tok.ty :: s.ptStack, s.depth, s.actions, []⟩
                _ _ (steps + 1)
            · (apply coreFinish_ra_sig <;> rfl)
          | none =>
            simp only
            split
            · rfl
            · (apply coreFinish_ra_sig <;> rfl)
        | n a =>
          simp only [predict_sig, firstSig_sig]
          cases hp : predict T a s.input with
          | none => rfl
          | some r =>
            cases r with
            | ok p =>
              simp only
              split
              · rfl
              · have hpush : corePush T md { s with stack := st, input := sigToks s.input } p.toNat =
                    (corePush T md { s with stack := st } p.toNat).map
                      (fun x => ({ x.1 with input := sigToks x.1.input }, x.2)) := by
                  unfold corePush
                  cases T.prods[p.toNat]? with
                  | none => rfl
                  | some pr =>
                    simp only
                    cases md with
                    | none => rfl
                    | some m => simp only; split <;> split <;> rfl
                simp only at hpush
                rw [hpush]
                cases corePush T md { s with stack := st } p.toNat with
                | none => rfl
                | some x =>
                  obtain ⟨s', r⟩ := x
                  simp only [Option.map_some]
                  cases r with
                  | none => exact ih s' _
                  | some r => rfl
            | predictError => (apply coreFinish_ra_sig <;> rfl)
            | assertFail => rfl
        | e p =>
          simp only
          cases hpr : T.prods[p]? with
          | none => rfl
          | some pr =>
            simp only
            split
            · rfl
            · exact ih { s with stack := st, ptStack := s.ptStack.drop pr.rhsRev.length,
                                depth := if pr.push then s.depth else s.depth - 1,
                                actions := (p, (s.ptStack.take pr.rhsRev.length).reverse) :: s.actions } _

theorem corePush_depth (T : LLTables) (m : Nat) (s : CoreState) (p : Nat) :
    corePush T (some m) s p = corePush T none s p ∨
    ∃ s' d, d > m ∧ corePush T (some m) s p = some (s', some (.depth d)) := by
  unfold corePush
  cases T.prods[p]? with
  | none => exact Or.inl rfl
  | some pr =>
    simp only
    by_cases hp : pr.push = true
    · simp only [hp, if_true]
      by_cases hgt : s.depth > m
      · exact Or.inr ⟨_, _, hgt, by rw [if_pos hgt]⟩
      · exact Or.inl (by rw [if_neg hgt])
    · have hp' : pr.push = false := by simpa using hp
      simp only [hp', Bool.false_eq_true, if_false]
      by_cases hgt : s.depth + 1 > m
      · exact Or.inr ⟨_, _, hgt, by rw [if_pos hgt]⟩
      · exact Or.inl (by rw [if_neg hgt])

/-- **Depth limit (LL)**: a run with a depth limit either coincides completely with the run without
    limit, or it ends with the depth-limit error for a depth that exceeds the limit. -/
theorem llCore_depth (T : LLTables) (m : Nat) : ∀ (fuel : Nat) (s : CoreState) (steps : Nat),
    llCore T (some m) fuel s steps = llCore T none fuel s steps ∨
    ∃ d, d > m ∧ (llCore T (some m) fuel s steps).res = .depth d := by
  intro fuel
  induction fuel with
  | zero => intro s steps; exact Or.inl rfl
  | succ fuel ih =>
    intro s steps
    unfold llCore
    split
    · exact Or.inl rfl
    · cases hs : s.stack with
      | nil => exact Or.inl rfl
      | cons x st =>
        cases x with
        | t a =>
          simp only
          cases hf : firstSig s.input with
          | some tok =>
            simp only
            split
            · exact ih _ _
            · exact Or.inl rfl
          | none => exact Or.inl rfl
        | n a =>
          simp only
          cases hp : predict T a s.input with
          | none => exact Or.inl rfl
          | some r =>
            cases r with
            | ok p =>
              simp only
              split
              · exact Or.inl rfl
              · rcases corePush_depth T m { s with stack := st } p.toNat with heq | ⟨s', d, hd, heq⟩
                · rw [heq]
                  cases corePush T none { s with stack := st } p.toNat with
                  | none => exact Or.inl rfl
                  | some x =>
                    obtain ⟨s', r⟩ := x
                    cases r with
                    | none => exact ih s' _
                    | some r => exact Or.inl rfl
                · rw [heq]
                  exact Or.inr ⟨d, hd, rfl⟩
            | predictError => exact Or.inl rfl
            | assertFail => exact Or.inl rfl
        | e p =>
          simp only
          cases hpr : T.prods[p]? with
          | none => exact Or.inl rfl
          | some pr =>
            simp only
            split
            · exact Or.inl rfl
            · exact ih _ _

/-- `parse_into` without the tree builder. -/
def llCoreRun (T : LLTables) (md : Option Nat) (fuel : Nat) (input : List MTok) : CoreOut :=
  let s0 : CoreState := ⟨[], input, [], 0, [], []⟩
  match predict T T.start input with
  | some (.ok p) =>
    if p < 0 then coreAbort s0 .internal 0 else
    match corePush T md s0 p.toNat with
    | some (s, none) => llCore T md fuel s 0
    | some (s, some r) => coreAbort s r 0
    | none => coreAbort s0 .internal 0
  | some .predictError => coreAbort s0 .recoveryFailed 0
  | _ => coreAbort s0 .internal 0

theorem llRun_core (T : LLTables) (o : Opts) (fuel : Nat) (toks : List MTok) :
    (llRun T o fuel toks).core = llCoreRun T o.maxDepth fuel toks := by
  unfold llRun llCoreRun
  simp only
  cases predict T T.start toks with
  | none => rfl
  | some r =>
    cases r with
    | ok p =>
      simp only
      split
      · rfl
      · have hpc := push_core T o ⟨[], toks, [], 0, [], [.open_ none], []⟩ p.toNat
        simp only [LLState.core] at hpc
        rw [← hpc]
        cases pushProduction T o ⟨[], toks, [], 0, [], [.open_ none], []⟩ p.toNat with
        | none => rfl
        | some x =>
          obtain ⟨s', r⟩ := x
          simp only [Option.map_some]
          cases r with
          | none => exact llLoop_core T o fuel s' 0
          | some r => rfl
    | predictError => rfl
    | assertFail => rfl

theorem llCoreRun_skip_irrelevant (T : LLTables) (md : Option Nat) (fuel : Nat) (toks : List MTok) :
    (llCoreRun T md fuel (sigToks toks)).ra = (llCoreRun T md fuel toks).ra := by
  unfold llCoreRun
  simp only [predict_sig]
  cases predict T T.start toks with
  | none => rfl
  | some r =>
    cases r with
    | ok p =>
      simp only
      split
      · rfl
      · have hpush : corePush T md ⟨[], sigToks toks, [], 0, [], []⟩ p.toNat =
            (corePush T md ⟨[], toks, [], 0, [], []⟩ p.toNat).map
              (fun x => ({ x.1 with input := sigToks x.1.input }, x.2)) := by
          unfold corePush
          cases T.prods[p.toNat]? with
          | none => rfl
          | some pr =>
            simp only
            cases md with
            | none => rfl
            | some m => simp only; split <;> split <;> rfl
        rw [hpush]
        cases corePush T md ⟨[], toks, [], 0, [], []⟩ p.toNat with
        | none => rfl
        | some x =>
          obtain ⟨s', r⟩ := x
          simp only [Option.map_some]
          cases r with
          | none => exact llCore_skip_irrelevant T md fuel s' 0
          | some r => rfl
    | predictError => rfl
    | assertFail => rfl

theorem llCoreRun_depth (T : LLTables) (m : Nat) (fuel : Nat) (toks : List MTok) :
    llCoreRun T (some m) fuel toks = llCoreRun T none fuel toks ∨
    ∃ d, d > m ∧ (llCoreRun T (some m) fuel toks).res = .depth d := by
  unfold llCoreRun
  simp only
  cases predict T T.start toks with
  | none => exact Or.inl rfl
  | some r =>
    cases r with
    | ok p =>
      simp only
      split
      · exact Or.inl rfl
      · rcases corePush_depth T m ⟨[], toks, [], 0, [], []⟩ p.toNat with heq | ⟨s', d, hd, heq⟩
        · rw [heq]
          cases corePush T none ⟨[], toks, [], 0, [], []⟩ p.toNat with
          | none => exact Or.inl rfl
          | some x =>
            obtain ⟨s', r⟩ := x
            cases r with
            | none => exact llCore_depth T m fuel s' 0
            | some r => exact Or.inl rfl
        · rw [heq]
          exact Or.inr ⟨d, hd, rfl⟩
    | predictError => exact Or.inl rfl
    | assertFail => exact Or.inl rfl

def tokIds (tr : List TreeEv) : List Nat := tr.filterMap fun e => match e with
  | .tok id => some id
  | _ => none

@[simp] theorem tokIds_nil : tokIds [] = [] := rfl
@[simp] theorem tokIds_append (a b : List TreeEv) : tokIds (a ++ b) = tokIds a ++ tokIds b := by
  simp [tokIds, List.filterMap_append]
@[simp] theorem tokIds_tok (id : Nat) (l : List TreeEv) : tokIds (.tok id :: l) = id :: tokIds l := rfl
@[simp] theorem tokIds_open (x : Option Nat) (l : List TreeEv) : tokIds (.open_ x :: l) = tokIds l := rfl
@[simp] theorem tokIds_close (l : List TreeEv) : tokIds (.close :: l) = tokIds l := rfl
@[simp] theorem tokIds_map_tokEv (l : List MTok) : tokIds (l.map tokEv) = l.map (·.id) := by
  induction l with
  | nil => rfl
  | cons t rest ih => simp [tokEv, ih]

/-- Leaves and comments of a declarative parse: the consumed part of the input, in order. -/
theorem DS_leaves (T : LLTables) {syms inp r acts tr cm items}
    (h : DS T syms inp r acts tr cm items) :
    ∃ pre, inp = pre ++ r ∧ tokIds tr = pre.map (·.id) ∧
      cm = commentIds (pre.filter (·.skip)) := by
  induction h with
  | nil => exact ⟨[], rfl, rfl, rfl⟩
  | @tok a ss inp rest' r acts tr cm items tok hrest hskip hty _ ih =>
    obtain ⟨pre, hpre, hids, hcm⟩ := ih
    refine ⟨leadSkips inp ++ tok :: pre, ?_, ?_, ?_⟩
    · have h1 := lead_after inp
      rw [hrest, hpre] at h1
      simpa [List.append_assoc] using h1.symm
    · simp [tokEv, hids]
    · have hl : (leadSkips inp).filter (·.skip) = leadSkips inp := by
        rw [List.filter_eq_self]
        exact fun t ht => leadSkips_all_skip inp t ht
      simp [List.filter_append, hl, hskip, commentIds, hcm]
  | @nt a ss inp mid r acts1 acts2 tr1 tr2 cm1 cm2 items1 items2 p pr _ _ _ _ ih1 ih2 =>
    obtain ⟨pre1, hpre1, hids1, hcm1⟩ := ih1
    obtain ⟨pre2, hpre2, hids2, hcm2⟩ := ih2
    refine ⟨pre1 ++ pre2, by rw [hpre1, hpre2, List.append_assoc], ?_, ?_⟩
    · simp [hids1, hids2]
    · rw [hcm1, hcm2]; simp [commentIds, List.filter_append]

end ParolModel
