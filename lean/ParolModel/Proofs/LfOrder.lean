import ParolModel.Proofs.LeftFactor
import ParolModel.Proofs.GenName
/-! Order independence of left factoring (C24): the fold of `factor_out_prefix` over the prefixes
gives the same result for every order of the prefix list. -/
namespace ParolModel

/-! ## `apply_rule_transformation` as one pass with a flag -/

/-- rules of `A` are dropped, the first one is replaced by `blk` -/
def passA (A : Name) (blk : List RuleN) : Bool → List RuleN → List RuleN
  | _, [] => []
  | seen, r :: rs =>
    if r.lhs = A then (if seen then passA A blk true rs else blk ++ passA A blk true rs)
    else r :: passA A blk seen rs

theorem passA_true (A : Name) (blk : List RuleN) : ∀ rs : List RuleN,
    passA A blk true rs = rs.filter (fun r => r.lhs ≠ A)
  | [] => rfl
  | r :: rs => by
    by_cases h : r.lhs = A <;> simp [passA, h, passA_true A blk rs]

theorem passA_false (A : Name) (blk : List RuleN) : ∀ rs : List RuleN,
    passA A blk false rs = rs.takeWhile (fun r => r.lhs ≠ A) ++
      (if rs.any (fun r => r.lhs = A) then
        blk ++ (rs.dropWhile (fun r => r.lhs ≠ A)).filter (fun r => r.lhs ≠ A) else [])
  | [] => by simp [passA]
  | r :: rs => by
    by_cases h : r.lhs = A
    · simp [passA, h, passA_true]
    · simp [passA, h, passA_false A blk rs]

theorem filter_dropWhile_eq (A : Name) : ∀ rs : List RuleN,
    (rs.dropWhile (fun r => r.lhs ≠ A)).filter (fun r => r.lhs = A) = rs.filter (fun r => r.lhs = A)
  | [] => rfl
  | r :: rs => by
    rw [List.dropWhile_cons]
    split
    · rename_i h
      have h' : ¬ r.lhs = A := by simpa using h
      rw [filter_dropWhile_eq A rs, List.filter_cons_of_neg (by simpa using h')]
    · rfl

/-- `factor_out_prefix` in pass form -/
theorem factorOutPrefix_pass (rs : List RuleN) (A : Name) (pre : List SymN) :
    factorOutPrefix rs A pre =
      if rs.any (fun r => r.lhs = A) then
        (generateName (namesN rs) (A ++ "Suffix".toList)).map fun X =>
          passA A (modFactor X A pre (rs.filter (fun r => r.lhs = A))) false rs
      else some rs := by
  unfold factorOutPrefix
  split
  · rename_i hany
    cases generateName (namesN rs) (A ++ "Suffix".toList) with
    | none => rfl
    | some X =>
      simp only [Option.map_some, Option.some.injEq]
      rw [passA_false, if_pos hany, filter_dropWhile_eq, List.append_assoc]
  · rfl

/-! ## two passes for different non-terminals commute -/

theorem passA_append_other (A : Name) (blk : List RuleN) (s : Bool) (pre rs : List RuleN)
    (hpre : ∀ r ∈ pre, r.lhs ≠ A) : passA A blk s (pre ++ rs) = pre ++ passA A blk s rs := by
  induction pre with
  | nil => rfl
  | cons r pre ih =>
    have h : r.lhs ≠ A := hpre r (by simp)
    simp [passA, h, ih (fun q hq => hpre q (by simp [hq]))]

theorem passA_cons_eq (A : Name) (blk : List RuleN) (s : Bool) (r : RuleN) (rs : List RuleN)
    (h : r.lhs = A) :
    passA A blk s (r :: rs) = if s then passA A blk true rs else blk ++ passA A blk true rs := by
  simp only [passA, if_pos h]

theorem passA_cons_ne (A : Name) (blk : List RuleN) (s : Bool) (r : RuleN) (rs : List RuleN)
    (h : r.lhs ≠ A) : passA A blk s (r :: rs) = r :: passA A blk s rs := by
  simp only [passA, if_neg h]

theorem passA_comm (A B : Name) (bA bB : List RuleN)
    (hA : ∀ r ∈ bA, r.lhs ≠ B) (hB : ∀ r ∈ bB, r.lhs ≠ A) (hAB : A ≠ B) :
    ∀ (sA sB : Bool) (rs : List RuleN),
      passA B bB sB (passA A bA sA rs) = passA A bA sA (passA B bB sB rs)
  | _, _, [] => rfl
  | sA, sB, r :: rs => by
    by_cases h1 : r.lhs = A
    · have h2 : r.lhs ≠ B := fun e => hAB (h1.symm.trans e)
      rw [passA_cons_eq A bA sA r rs h1, passA_cons_ne B bB sB r rs h2,
        passA_cons_eq A bA sA r _ h1]
      cases sA with
      | true => simpa using passA_comm A B bA bB hA hB hAB true sB rs
      | false =>
        simp only [Bool.false_eq_true, if_false]
        rw [passA_append_other B bB sB bA _ hA, passA_comm A B bA bB hA hB hAB true sB rs]
    · by_cases h2 : r.lhs = B
      · rw [passA_cons_ne A bA sA r rs h1, passA_cons_eq B bB sB r rs h2,
          passA_cons_eq B bB sB r _ h2]
        cases sB with
        | true => simpa using passA_comm A B bA bB hA hB hAB sA true rs
        | false =>
          simp only [Bool.false_eq_true, if_false]
          rw [passA_append_other A bA sA bB _ hB, passA_comm A B bA bB hA hB hAB sA true rs]
      · rw [passA_cons_ne A bA sA r rs h1, passA_cons_ne B bB sB r rs h2,
          passA_cons_ne B bB sB r _ h2, passA_cons_ne A bA sA r _ h1,
          passA_comm A B bA bB hA hB hAB sA sB rs]

/-- a pass for `B` does not touch the rules of `A` (their order included) -/
theorem filter_passA (A B : Name) (bB : List RuleN) (hB : ∀ r ∈ bB, r.lhs ≠ A) (hAB : A ≠ B) :
    ∀ (s : Bool) (rs : List RuleN),
      (passA B bB s rs).filter (fun r => r.lhs = A) = rs.filter (fun r => r.lhs = A)
  | _, [] => rfl
  | s, r :: rs => by
    have hbB : bB.filter (fun r => r.lhs = A) = [] := by
      rw [List.filter_eq_nil_iff]
      intro q hq
      simpa using hB q hq
    by_cases h2 : r.lhs = B
    · have h1 : r.lhs ≠ A := fun e => hAB (e.symm.trans h2)
      rw [passA_cons_eq B bB s r rs h2, List.filter_cons_of_neg (by simpa using h1)]
      cases s with
      | true => simpa using filter_passA A B bB hB hAB true rs
      | false =>
        simp only [Bool.false_eq_true, if_false, List.filter_append, hbB, List.nil_append]
        exact filter_passA A B bB hB hAB true rs
    · rw [passA_cons_ne B bB s r rs h2]
      by_cases h1 : r.lhs = A
      · rw [List.filter_cons_of_pos (by simpa using h1), List.filter_cons_of_pos (by simpa using h1),
          filter_passA A B bB hB hAB s rs]
      · rw [List.filter_cons_of_neg (by simpa using h1), List.filter_cons_of_neg (by simpa using h1),
          filter_passA A B bB hB hAB s rs]

/-! ## the suffix name of a non-terminal does not depend on what was factored before -/

def sufPref (A : Name) : Name := A ++ "Suffix".toList

/-- the names `generate_name` can return for the preferred name `pref` -/
def IsCand (pref c : Name) : Prop := c = pref ∨ ∃ k, c = pref ++ natDigits k

theorem suffix_chars : "Suffix".toList = ['S', 'u', 'f', 'f', 'i', 'x'] := by decide

theorem splitNumSuffix_sufPref (A : Name) : (splitNumSuffix (sufPref A)).2 = [] := by
  simp [splitNumSuffix, sufPref, suffix_chars]

/-- what `generate_name` returns for a suffix name: the preferred name if it is free, else the
    first free numbered candidate counting from 0 -/
theorem generateName_sufPref {excl : List Name} {A X : Name}
    (h : generateName excl (sufPref A) = some X) :
    (sufPref A ∉ excl ∧ X = sufPref A) ∨
      (sufPref A ∈ excl ∧ ∃ k, X = sufPref A ++ natDigits k ∧ sufPref A ++ natDigits k ∉ excl ∧
        ∀ j, j < k → sufPref A ++ natDigits j ∈ excl) := by
  unfold generateName at h
  split at h
  · rename_i hin
    right
    refine ⟨hin, ?_⟩
    have hds := splitNumSuffix_sufPref A
    cases hsp : splitNumSuffix (sufPref A) with
    | mk pre ds =>
      rw [hsp] at h hds
      simp only at hds
      subst hds
      simp only [List.isEmpty_nil, if_true] at h
      obtain ⟨k, _, _, h3, h4, h5⟩ := (genNameLoop_spec _ _ _ _ _).1 h
      exact ⟨k, h3, h4, fun j hj => h5 j (Nat.zero_le _) hj⟩
  · rename_i hin
    injection h with h
    exact .inl ⟨hin, h.symm⟩

theorem generateName_isCand {excl : List Name} {A X : Name}
    (h : generateName excl (sufPref A) = some X) : IsCand (sufPref A) X := by
  rcases generateName_sufPref h with ⟨_, e⟩ | ⟨_, k, e, _⟩
  · exact .inl e
  · exact .inr ⟨k, e⟩

theorem generateName_congr {excl1 excl2 : List Name} {A : Name}
    (h : ∀ c, IsCand (sufPref A) c → (c ∈ excl1 ↔ c ∈ excl2)) :
    generateName excl1 (sufPref A) = generateName excl2 (sufPref A) := by
  obtain ⟨X1, h1⟩ := generateName_total excl1 (sufPref A)
  obtain ⟨X2, h2⟩ := generateName_total excl2 (sufPref A)
  rw [h1, h2]
  congr 1
  have hp := h (sufPref A) (.inl rfl)
  rcases generateName_sufPref h1 with ⟨n1, e1⟩ | ⟨i1, k1, e1, f1, l1⟩
  · rcases generateName_sufPref h2 with ⟨n2, e2⟩ | ⟨i2, _⟩
    · rw [e1, e2]
    · exact absurd (hp.2 i2) n1
  · rcases generateName_sufPref h2 with ⟨n2, e2⟩ | ⟨i2, k2, e2, f2, l2⟩
    · exact absurd (hp.1 i1) n2
    · have hk : k1 = k2 := by
        rcases Nat.lt_trichotomy k1 k2 with hlt | heq | hgt
        · exact absurd ((h _ (.inr ⟨k1, rfl⟩)).2 (l2 k1 hlt)) f1
        · exact heq
        · exact absurd ((h _ (.inr ⟨k2, rfl⟩)).1 (l1 k2 hgt)) f2
      rw [e1, e2, hk]

/-- digit strings followed by a non-digit determine both parts -/
theorem digits_split : ∀ (d1 d2 : List Char) (c : Char) (r1 r2 : List Char),
    (∀ x ∈ d1, x.isDigit = true) → (∀ x ∈ d2, x.isDigit = true) → c.isDigit = false →
    d1 ++ c :: r1 = d2 ++ c :: r2 → d1 = d2 ∧ r1 = r2
  | [], [], _, _, _, _, _, _, h => by simpa using h
  | [], y :: d2, c, _, _, _, h2, hc, h => by
    simp only [List.nil_append, List.cons_append, List.cons.injEq] at h
    have := h2 y (by simp)
    rw [← h.1, hc] at this
    cases this
  | x :: d1, [], c, _, _, h1, _, hc, h => by
    simp only [List.nil_append, List.cons_append, List.cons.injEq] at h
    have := h1 x (by simp)
    rw [h.1, hc] at this
    cases this
  | x :: d1, y :: d2, c, r1, r2, h1, h2, hc, h => by
    simp only [List.cons_append, List.cons.injEq] at h
    obtain ⟨e1, e2⟩ := digits_split d1 d2 c r1 r2 (fun z hz => h1 z (by simp [hz]))
      (fun z hz => h2 z (by simp [hz])) hc h.2
    exact ⟨by rw [h.1, e1], e2⟩

theorem cand_disjoint {A B : Name} (hAB : A ≠ B) {c : Name}
    (hA : IsCand (sufPref A) c) (hB : IsCand (sufPref B) c) : False := by
  have key : ∀ (dA dB : List Char), (∀ x ∈ dA, x.isDigit = true) → (∀ x ∈ dB, x.isDigit = true) →
      sufPref A ++ dA = sufPref B ++ dB → False := by
    intro dA dB h1 h2 e
    have e' := congrArg List.reverse e
    simp only [sufPref, suffix_chars, List.reverse_append, List.reverse_cons, List.reverse_nil,
      List.nil_append, List.cons_append, List.append_assoc] at e'
    obtain ⟨_, e2⟩ := digits_split dA.reverse dB.reverse 'x' _ _
      (fun x hx => h1 x (List.mem_reverse.1 hx)) (fun x hx => h2 x (List.mem_reverse.1 hx))
      (by decide) e'
    simp only [List.cons.injEq, true_and] at e2
    exact hAB (by simpa using congrArg List.reverse e2)
  rcases hA with rfl | ⟨k1, rfl⟩
  · rcases hB with e | ⟨k2, e⟩
    · exact key [] [] (fun x hx => nomatch hx) (fun x hx => nomatch hx) (by simpa using e)
    · exact key [] (natDigits k2) (fun x hx => nomatch hx) (natDigits_digits k2) (by simpa using e)
  · rcases hB with e | ⟨k2, e⟩
    · exact key (natDigits k1) [] (natDigits_digits k1) (fun x hx => nomatch hx) (by simpa using e)
    · exact key (natDigits k1) (natDigits k2) (natDigits_digits k1) (natDigits_digits k2) e

/-! ## two `factor_out_prefix` steps for different non-terminals commute -/

theorem any_lhs_iff {rs : List RuleN} {A : Name} :
    rs.any (fun r => r.lhs = A) = true ↔ ∃ r ∈ rs, r.lhs = A := by
  simp [List.any_eq_true]

theorem any_of_filter_eq {rs1 rs2 : List RuleN} {A : Name}
    (h : rs1.filter (fun r => r.lhs = A) = rs2.filter (fun r => r.lhs = A)) :
    rs1.any (fun r => r.lhs = A) = rs2.any (fun r => r.lhs = A) := by
  have key : ∀ rs : List RuleN, rs.any (fun r => r.lhs = A) = true ↔
      rs.filter (fun r => r.lhs = A) ≠ [] := by
    intro rs
    rw [any_lhs_iff, Ne, List.filter_eq_nil_iff]
    constructor
    · rintro ⟨r, hr, e⟩ hn
      exact hn r hr (by simpa using e)
    · intro hn
      by_cases hex : ∃ r ∈ rs, r.lhs = A
      · exact hex
      · exact absurd (fun r hr => by
          simp only [decide_eq_true_eq]
          exact fun e => hex ⟨r, hr, e⟩) hn
  cases h1 : rs1.any (fun r => r.lhs = A) with
  | true =>
    have := (key rs1).1 h1
    rw [h] at this
    exact ((key rs2).2 this).symm
  | false =>
    cases h2 : rs2.any (fun r => r.lhs = A) with
    | false => rfl
    | true =>
      have := (key rs2).1 h2
      rw [← h] at this
      rw [(key rs1).2 this] at h1
      cases h1

/-- names after one step: old names, the new suffix name, names of the prefix -/
theorem names_factored {rs rs1 : List RuleN} {A X : Name} {pre : List SymN}
    (h : factorOutPrefix rs A pre = some rs1)
    (hX : generateName (namesN rs) (sufPref A) = some X) :
    ∀ x ∈ namesN rs1, x ∈ namesN rs ∨ x = X ∨ x ∈ symsNames pre := by
  unfold factorOutPrefix at h
  split at h
  · rename_i hany
    obtain ⟨rA, hrA, hAA⟩ := any_lhs_iff.1 hany
    rw [show A ++ "Suffix".toList = sufPref A from rfl, hX] at h
    have h := Option.some.inj h
    subst h
    intro x hx
    obtain ⟨r', hr', hx⟩ := mem_namesN.1 hx
    rcases mem_factored.1 hr' with ⟨hr, _⟩ | rfl | ⟨r, hr, hA, rfl⟩
    · exact .inl (mem_namesN.2 ⟨r', hr, hx⟩)
    · simp only [symsNames_append, List.mem_append] at hx
      rcases hx with hx | hx | hx
      · exact .inl (mem_namesN.2 ⟨rA, hrA, .inl (by rw [hx, hAA])⟩)
      · exact .inr (.inr hx)
      · simp only [symsNames, List.flatMap_cons, SymN.names, List.flatMap_nil, List.append_nil,
          List.mem_singleton] at hx
        exact .inr (.inl hx)
    · rcases factorOutRule_cases X pre r with ⟨he, _⟩ | ⟨suf, hs, he⟩
      · rw [he] at hx
        exact .inl (mem_namesN.2 ⟨r, hr, hx⟩)
      · rw [he] at hx
        simp only at hx
        rcases hx with hx | hx
        · exact .inr (.inl hx)
        · exact .inl (mem_namesN.2 ⟨r, hr, .inr (by
            rw [hs, symsNames_append]; exact List.mem_append_right _ hx)⟩)
  · have h := Option.some.inj h
    subst h
    intro x hx
    exact .inl hx

theorem names_kept {rs rs1 : List RuleN} {A : Name} {pre : List SymN}
    (h : factorOutPrefix rs A pre = some rs1) : ∀ x ∈ namesN rs, x ∈ namesN rs1 := fun x hx =>
  variableNames_toEProd.1 ((factorOutPrefix_ok h).names x (variableNames_toEProd.2 hx))

/-- the suffix name of `B` is the same before and after factoring `A` -/
theorem sufName_indep {rs rs1 : List RuleN} {A B : Name} {pre : List SymN} (hAB : A ≠ B)
    (h : factorOutPrefix rs A pre = some rs1) (hpre : ∀ x ∈ symsNames pre, x ∈ namesN rs) :
    generateName (namesN rs1) (sufPref B) = generateName (namesN rs) (sufPref B) := by
  apply generateName_congr
  intro c hc
  obtain ⟨X, hX⟩ := generateName_total (namesN rs) (sufPref A)
  constructor
  · intro hc1
    rcases names_factored h hX c hc1 with h1 | h1 | h1
    · exact h1
    · exact absurd hc (fun hcB => cand_disjoint hAB (h1 ▸ generateName_isCand hX) hcB)
    · exact hpre c h1
  · exact names_kept h c

theorem modFactor_lhs {X A : Name} {pre : List SymN} {rules : List RuleN}
    (hr : ∀ r ∈ rules, r.lhs = A) : ∀ q ∈ modFactor X A pre rules, q.lhs = A ∨ q.lhs = X := by
  intro q hq
  simp only [modFactor, List.mem_cons, List.mem_map] at hq
  rcases hq with rfl | ⟨r, hr', rfl⟩
  · exact .inl rfl
  · rcases factorOutRule_cases X pre r with ⟨he, _⟩ | ⟨suf, _, he⟩
    · rw [he]; exact .inl (hr r hr')
    · rw [he]; exact .inr rfl

theorem factorOutPrefix_comm (rs : List RuleN) (A B : Name) (pA pB : List SymN) (hAB : A ≠ B)
    (hpA : ∀ x ∈ symsNames pA, x ∈ namesN rs) (hpB : ∀ x ∈ symsNames pB, x ∈ namesN rs)
    (hA : rs.any (fun r => r.lhs = A) = true) (hB : rs.any (fun r => r.lhs = B) = true) :
    (factorOutPrefix rs A pA).bind (fun r => factorOutPrefix r B pB) =
      (factorOutPrefix rs B pB).bind (fun r => factorOutPrefix r A pA) := by
  obtain ⟨XA, hXA⟩ := generateName_total (namesN rs) (sufPref A)
  obtain ⟨XB, hXB⟩ := generateName_total (namesN rs) (sufPref B)
  have hfA : XA ∉ namesN rs := generateName_not_mem hXA
  have hfB : XB ∉ namesN rs := generateName_not_mem hXB
  obtain ⟨rA, hrA, hAA⟩ := any_lhs_iff.1 hA
  obtain ⟨rB, hrB, hBB⟩ := any_lhs_iff.1 hB
  have hBn : B ∈ namesN rs := mem_namesN.2 ⟨rB, hrB, .inl hBB.symm⟩
  have hAn : A ∈ namesN rs := mem_namesN.2 ⟨rA, hrA, .inl hAA.symm⟩
  have e1 : factorOutPrefix rs A pA = some (passA A
      (modFactor XA A pA (rs.filter (fun r => r.lhs = A))) false rs) := by
    rw [factorOutPrefix_pass, if_pos hA, show A ++ "Suffix".toList = sufPref A from rfl, hXA]
    rfl
  have e2 : factorOutPrefix rs B pB = some (passA B
      (modFactor XB B pB (rs.filter (fun r => r.lhs = B))) false rs) := by
    rw [factorOutPrefix_pass, if_pos hB, show B ++ "Suffix".toList = sufPref B from rfl, hXB]
    rfl
  have blkA : ∀ q ∈ modFactor XA A pA (rs.filter (fun r => r.lhs = A)), q.lhs ≠ B := by
    intro q hq
    rcases modFactor_lhs (fun r hr => by simpa using (List.mem_filter.1 hr).2) q hq with e | e
    · rw [e]; exact hAB
    · rw [e]; exact fun e' => hfA (e' ▸ hBn)
  have blkB : ∀ q ∈ modFactor XB B pB (rs.filter (fun r => r.lhs = B)), q.lhs ≠ A := by
    intro q hq
    rcases modFactor_lhs (fun r hr => by simpa using (List.mem_filter.1 hr).2) q hq with e | e
    · rw [e]; exact fun e' => hAB e'.symm
    · rw [e]; exact fun e' => hfB (e' ▸ hAn)
  have fB := filter_passA B A _ blkA (Ne.symm hAB) false rs
  have fA := filter_passA A B _ blkB hAB false rs
  rw [e1, e2]
  simp only [Option.bind_some]
  rw [factorOutPrefix_pass, factorOutPrefix_pass, any_of_filter_eq fB, any_of_filter_eq fA,
    if_pos hA, if_pos hB, fA, fB,
    show B ++ "Suffix".toList = sufPref B from rfl, show A ++ "Suffix".toList = sufPref A from rfl,
    sufName_indep hAB e1 hpA, sufName_indep (Ne.symm hAB) e2 hpB, hXA, hXB]
  simp only [Option.map_some]
  rw [passA_comm A B _ _ blkA blkB hAB]

/-! ## the fold over a permuted prefix list -/

abbrev PItem := Name × List SymN

def stepP (acc : List RuleN) (x : PItem) : Option (List RuleN) := factorOutPrefix acc x.1 x.2

/-- what the prefix list of one round satisfies, and keeps satisfying while it is folded -/
def PInv (rs : List RuleN) (l : List PItem) : Prop :=
  (l.map (·.1)).Nodup ∧
    ∀ x ∈ l, rs.any (fun r => r.lhs = x.1) = true ∧ ∀ y ∈ symsNames x.2, y ∈ namesN rs

theorem any_preserved {rs rs1 : List RuleN} {A B : Name} {pre : List SymN}
    (h : factorOutPrefix rs A pre = some rs1) (hAB : A ≠ B)
    (hB : rs.any (fun r => r.lhs = B) = true) : rs1.any (fun r => r.lhs = B) = true := by
  obtain ⟨rB, hrB, hBB⟩ := any_lhs_iff.1 hB
  apply any_lhs_iff.2
  refine ⟨rB, ?_, hBB⟩
  unfold factorOutPrefix at h
  split at h
  · split at h
    · cases h
    · have h := Option.some.inj h
      subst h
      exact mem_factored.2 (.inl ⟨hrB, fun e => hAB (e.symm.trans hBB).symm.symm⟩)
  · have h := Option.some.inj h
    subst h
    exact hrB

theorem PInv_step {rs rs1 : List RuleN} {x : PItem} {t : List PItem}
    (h : stepP rs x = some rs1) (hinv : PInv rs (x :: t)) : PInv rs1 t := by
  obtain ⟨hn, hall⟩ := hinv
  simp only [List.map_cons, List.nodup_cons] at hn
  refine ⟨hn.2, ?_⟩
  intro y hy
  obtain ⟨h1, h2⟩ := hall y (by simp [hy])
  have hne : x.1 ≠ y.1 := fun e => hn.1 (e ▸ List.mem_map.2 ⟨y, hy, rfl⟩)
  exact ⟨any_preserved h hne h1, fun z hz => names_kept h z (h2 z hz)⟩

theorem PInv_perm {rs : List RuleN} {l1 l2 : List PItem} (hp : l1.Perm l2) (h : PInv rs l1) :
    PInv rs l2 :=
  ⟨(hp.map _).nodup_iff.1 h.1, fun x hx => h.2 x (hp.mem_iff.2 hx)⟩

theorem foldlM_perm {l1 l2 : List PItem} (hp : l1.Perm l2) :
    ∀ rs, PInv rs l1 → l1.foldlM stepP rs = l2.foldlM stepP rs := by
  induction hp with
  | nil => intro rs _; rfl
  | cons x _ ih =>
    intro rs hinv
    simp only [List.foldlM_cons]
    cases h : stepP rs x with
    | none => rfl
    | some rs1 => exact ih rs1 (PInv_step h hinv)
  | swap x y l =>
    intro rs hinv
    simp only [List.foldlM_cons]
    have hx := hinv.2 x (by simp)
    have hy := hinv.2 y (by simp)
    have hne : x.1 ≠ y.1 := by
      have := hinv.1
      simp only [List.map_cons, List.nodup_cons, List.mem_cons, not_or] at this
      exact fun e => this.1.1 e.symm
    have hc := factorOutPrefix_comm rs y.1 x.1 y.2 x.2 (Ne.symm hne) hy.2 hx.2 hy.1 hx.1
    show (stepP rs y).bind (fun r => (stepP r x).bind (fun r => l.foldlM stepP r)) =
      (stepP rs x).bind (fun r => (stepP r y).bind (fun r => l.foldlM stepP r))
    have e1 : ∀ (o : Option (List RuleN)) (f g : List RuleN → Option (List RuleN)),
        o.bind (fun r => (f r).bind g) = (o.bind f).bind g := by
      intro o f g; cases o <;> rfl
    rw [e1, e1]
    exact congrArg (fun o => Option.bind o (fun r => l.foldlM stepP r)) hc
  | trans hp1 _ ih1 ih2 =>
    intro rs hinv
    exact (ih1 rs hinv).trans (ih2 rs (PInv_perm hp1 hinv))

/-! ## the prefix list of one round satisfies the invariant -/

theorem firstOccs_nodup : ∀ l : List Name, (firstOccs l).Nodup
  | [] => List.nodup_nil
  | a :: l => by
    simp only [firstOccs, List.nodup_cons, List.mem_filter, decide_eq_true_eq, ne_eq,
      not_true_eq_false, and_false, not_false_eq_true, true_and]
    exact (firstOccs_nodup l).sublist List.filter_sublist

theorem findPrefixN_take (cands : List (List SymN)) (n : Nat) :
    findPrefixN cands n = [] ∨ ∃ c ∈ cands, findPrefixN cands n = c.take n := by
  unfold findPrefixN
  simp only
  split
  · exact .inl rfl
  · split
    · rename_i k v hb
      split
      · right
        have hk := ((bestFirst_spec _).2 k v hb).1
        simp only [prefixesOfLen, List.mem_filterMap] at hk
        obtain ⟨c, hc, hck⟩ := hk
        split at hck
        · injection hck with hck
          exact ⟨c, hc, hck.symm⟩
        · cases hck
      · exact .inl rfl
    · exact .inl rfl

theorem findLongestPrefix_take (cands : List (List SymN)) : ∀ (f n : Nat),
    findLongestPrefix cands f n = [] ∨ ∃ c ∈ cands, ∃ m, findLongestPrefix cands f n = c.take m
  | 0, _ => .inl rfl
  | f+1, n => by
    simp only [findLongestPrefix]
    split
    · exact .inl rfl
    · split
      · rcases findPrefixN_take cands n with h | ⟨c, hc, h⟩
        · exact .inl h
        · exact .inr ⟨c, hc, n, h⟩
      · split
        · rcases findPrefixN_take cands (n + 1) with h | ⟨c, hc, h⟩
          · exact .inl h
          · exact .inr ⟨c, hc, n + 1, h⟩
        · exact findLongestPrefix_take cands f (n + 2)

theorem symsNames_take (c : List SymN) (m : Nat) : ∀ x ∈ symsNames (c.take m), x ∈ symsNames c := by
  intro x hx
  have : c = c.take m ++ c.drop m := (List.take_append_drop m c).symm
  rw [this, symsNames_append]
  exact List.mem_append_left _ hx

theorem map_fst_filterMap_sublist (rs : List RuleN) : ∀ l : List (Name × List RuleN),
    ((l.filterMap fun (x : Name × List RuleN) =>
        let p := findPrefix (x.2.map (·.rhs))
        if p.isEmpty then none else some (x.1, p)).map (·.1)).Sublist (l.map (·.1))
  | [] => List.Sublist.slnil
  | x :: l => by
    simp only [List.filterMap_cons, List.map_cons]
    split
    · rename_i hnone
      exact (map_fst_filterMap_sublist rs l).cons _
    · rename_i b hsome
      split at hsome
      · cases hsome
      · injection hsome with hsome
        subst hsome
        exact (map_fst_filterMap_sublist rs l).cons₂ _

theorem prefixes_inv {ord : GroupOrd} (hord : ∀ l, (ord l).Perm l) (rs : List RuleN) :
    PInv rs (findLongestPrefixes ord rs) := by
  have hg : ((groupByLhs rs).map (·.1)) = firstOccs (rs.map (·.lhs)) := by
    simp [groupByLhs, List.map_map, Function.comp_def]
  constructor
  · have h1 : ((ord (groupByLhs rs)).map (·.1)).Nodup := by
      rw [((hord (groupByLhs rs)).map _).nodup_iff, hg]
      exact firstOccs_nodup _
    exact h1.sublist (map_fst_filterMap_sublist rs _)
  · intro x hx
    simp only [findLongestPrefixes, List.mem_filterMap] at hx
    obtain ⟨⟨A, grp⟩, hmem, hx⟩ := hx
    simp only at hx
    split at hx
    · cases hx
    · rename_i hne
      injection hx with hx
      subst hx
      have hmem' : (A, grp) ∈ groupByLhs rs := (hord _).mem_iff.1 hmem
      simp only [groupByLhs, List.mem_map] at hmem'
      obtain ⟨A', hA', he⟩ := hmem'
      simp only [Prod.mk.injEq] at he
      obtain ⟨rfl, rfl⟩ := he
      obtain ⟨r, hr, hrA⟩ := List.mem_map.1 (mem_firstOccs.1 hA')
      refine ⟨any_lhs_iff.2 ⟨r, hr, hrA⟩, ?_⟩
      simp only
      intro y hy
      unfold findPrefix at hy hne
      rcases findLongestPrefix_take ((rs.filter fun r => r.lhs = A').map (·.rhs)) _ 1 with h | ⟨c, hc, m, h⟩
      · rw [h] at hne
        simp at hne
      · rw [h] at hy
        obtain ⟨r', hr', rfl⟩ := List.mem_map.1 hc
        exact mem_namesN.2 ⟨r', (List.mem_filter.1 hr').1, .inr (symsNames_take _ _ y hy)⟩

/-! ## one round and the whole loop -/

theorem factorOut_order_indep {ord1 ord2 : GroupOrd} (h1 : ∀ l, (ord1 l).Perm l)
    (h2 : ∀ l, (ord2 l).Perm l) (rs : List RuleN) : factorOut ord1 rs = factorOut ord2 rs := by
  have hp : (findLongestPrefixes ord1 rs).Perm (findLongestPrefixes ord2 rs) :=
    List.Perm.filterMap _ ((h1 _).trans (h2 _).symm)
  have hf := foldlM_perm hp rs (prefixes_inv h1 rs)
  have he : (findLongestPrefixes ord1 rs).isEmpty = (findLongestPrefixes ord2 rs).isEmpty := by
    have := hp.length_eq
    cases h : findLongestPrefixes ord1 rs <;> cases h' : findLongestPrefixes ord2 rs <;>
      simp_all
  unfold factorOut
  simp only
  rw [← he]
  exact congrArg (Option.map _) hf

theorem leftFactorLoop_order_indep {ord1 ord2 : GroupOrd} (h1 : ∀ l, (ord1 l).Perm l)
    (h2 : ∀ l, (ord2 l).Perm l) : ∀ (fuel : Nat) (rs : List RuleN),
    leftFactorLoop ord1 fuel rs = leftFactorLoop ord2 fuel rs
  | 0, _ => rfl
  | f+1, rs => by
    rw [leftFactorLoop, leftFactorLoop, factorOut_order_indep h1 h2 rs]
    cases factorOut ord2 rs with
    | none => rfl
    | some p =>
      obtain ⟨rs1, m⟩ := p
      cases m with
      | true => exact leftFactorLoop_order_indep h1 h2 f rs1
      | false => rfl

end ParolModel
