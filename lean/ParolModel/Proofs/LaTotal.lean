import ParolModel.Proofs.LaMain
/-! Proofs (C07), part 6: for non-empty, pairwise disjoint, prefix-free tuple sets the uniting loop
never reports a conflict and never hits a panic path (the only other outcome of the model is
exhausted fuel). -/
namespace ParolModel

section
variable {n1 : Nat} {l1 : Nat → List Nat} {M1 : List Nat → Int} {d2 : LDfa} {l2 : Nat → List Nat}
  {M2 : List Nat → Int}

theorem uniteEdge_ok (h2 : TrieInv d2 l2 M2) {e : Edge} (he : e ∈ d2.trans) {s : UState}
    {l : Nat → List Nat} {M : List Nat → Int} (inv : UInv n1 l1 M1 d2 l2 M2 s l M)
    (compat : ∀ w, M2 w ≥ 0 → M1 w ≥ 0 → M2 w = M1 w) : ∃ s', uniteEdge d2 s e = .ok s' := by
  unfold uniteEdge
  cases hsrc : mapGet s.map e.src with
  | none => exact ⟨s, rfl⟩
  | some rs =>
    simp only
    obtain ⟨_, hrs, hlrs⟩ := inv.mapOk e.src rs hsrc
    obtain ⟨_, hdst2, hedge2⟩ := h2.edge e he
    obtain ⟨l', htrie', hrlt, hlr, _, _, _, _⟩ := addTransition_inv inv.trie hrs e.term
    have hlr' : l' (addTransition s.res rs e.term).2 = l2 e.dst := by rw [hlr, hlrs, hedge2]
    cases hdst : mapGet s.map e.dst with
    | some r0 =>
      simp only [Option.isNone_some, Bool.false_eq_true, if_false]
      exact ⟨_, rfl⟩
    | none =>
      simp only [Option.isNone_none, if_true]
      have hop : d2.prods[e.dst]? = some (M2 (l2 e.dst)) := h2.prods e.dst hdst2
      have hrp : (addTransition s.res rs e.term).1.prods[(addTransition s.res rs e.term).2]? = some (M (l2 e.dst)) := by
        rw [htrie'.prods _ hrlt, hlr']
      rw [hop, hrp]
      simp only
      have hfresh : ∀ s2, s2 ≠ 0 → (mapGet s.map s2).isSome → l2 s2 ≠ l2 e.dst := by
        intro s2 _ hm he2
        obtain ⟨r2, hr2⟩ := Option.isSome_iff_exists.1 hm
        obtain ⟨hs2, _, _⟩ := inv.mapOk s2 r2 hr2
        have := h2.label_inj hs2 hdst2 he2
        rw [this, hdst] at hm
        cases hm
      have hM1 : M (l2 e.dst) = M1 (l2 e.dst) := inv.outD _ hfresh
      split
      · rename_i hc
        rw [hM1] at hc
        exact absurd (compat _ hc.1 hc.2.1) hc.2.2
      · exact ⟨_, rfl⟩

theorem uniteFold_ok (h2 : TrieInv d2 l2 M2) (compat : ∀ w, M2 w ≥ 0 → M1 w ≥ 0 → M2 w = M1 w) :
    ∀ (es : List Edge), (∀ e ∈ es, e ∈ d2.trans) → ∀ {s : UState} {l : Nat → List Nat} {M : List Nat → Int},
    UInv n1 l1 M1 d2 l2 M2 s l M → ∃ s', es.foldlM (uniteEdge d2) s = .ok s' := by
  intro es
  induction es with
  | nil => intro _ s l M _; exact ⟨s, rfl⟩
  | cons e es ih =>
    intro hsub s l M inv
    obtain ⟨s1, h1⟩ := uniteEdge_ok h2 (hsub e List.mem_cons_self) inv compat
    obtain ⟨la, Ma, inva, _⟩ := uniteEdge_inv h2 (hsub e List.mem_cons_self) inv h1
    obtain ⟨s', h'⟩ := ih (fun e' he' => hsub e' (List.mem_cons_of_mem _ he')) inva
    refine ⟨s', ?_⟩
    rw [foldlM_except_cons, h1]
    exact h'

theorem uniteLoop_ok (h2 : TrieInv d2 l2 M2) (compat : ∀ w, M2 w ≥ 0 → M1 w ≥ 0 → M2 w = M1 w) :
    ∀ (fuel : Nat) {s : UState} {l : Nat → List Nat} {M : List Nat → Int}, UInv n1 l1 M1 d2 l2 M2 s l M →
    (∃ d, uniteLoop d2 fuel s = .ok d) ∨ uniteLoop d2 fuel s = .error .fuel := by
  intro fuel
  induction fuel with
  | zero => intro s l M _; exact Or.inr rfl
  | succ fuel ih =>
    intro s l M inv
    simp only [uniteLoop]
    obtain ⟨s', hp⟩ := uniteFold_ok h2 compat d2.trans (fun _ h => h) (inv.setChanged false)
    have hp' : unitePass d2 s = .ok s' := hp
    rw [hp']
    simp only
    obtain ⟨l', M', inv', _⟩ := uniteFold_inv h2 d2.trans (fun _ h => h) (inv.setChanged false) hp
    split
    · exact ih inv'
    · exact Or.inl ⟨_, rfl⟩

end

theorem unite_ok_or_fuel {fixK : Bool} {d1 d2 : LDfa} {l1 l2 : Nat → List Nat} {M1 M2 : List Nat → Int}
    (h1 : TrieInv d1 l1 M1) (e1 : ES d1.trans) (h2 : TrieInv d2 l2 M2)
    (compat : ∀ w, M2 w ≥ 0 → M1 w ≥ 0 → M2 w = M1 w) :
    (∃ d, unite fixK d1 d2 = .ok d) ∨ unite fixK d1 d2 = .error .fuel := by
  have inv0 : UInv d1.prods.length l1 M1 d2 l2 M2 ⟨d1, [(0, 0)], false⟩ l1 M1 := by
    have hm : ∀ x, mapGet [(0, 0)] x = if x = 0 then some 0 else none := by
      intro x
      simp only [mapGet, List.find?_cons, List.find?_nil]
      by_cases hx : x = 0
      · simp [hx]
      · have : ¬ (0 : Nat) = x := fun e => hx e.symm
        simp [hx, this]
    refine ⟨h1, e1, by simp [hm], ?_, ?_, ?_, ⟨Nat.le_refl _, fun _ _ => rfl⟩, ?_, ?_⟩
    · intro s2 r hmr
      rw [hm] at hmr
      by_cases hx : s2 = 0
      · simp only [hx, if_true, Option.some.injEq] at hmr
        subst hmr
        exact ⟨hx ▸ h2.pos, h1.pos, by rw [hx, h1.label0, h2.label0]⟩
      · simp [hx] at hmr
    · intro s2 h0 hmr
      rw [hm] at hmr; simp [h0] at hmr
    · intro w _; rfl
    · intro r ha hb; simp only at hb; omega
    · intro s2 h0 hmr
      rw [hm] at hmr; simp [h0] at hmr
  unfold unite
  rcases uniteLoop_ok h2 compat (d2.trans.length + 2) inv0 with ⟨d, hd⟩ | hf
  · rw [hd]; exact Or.inl ⟨_, rfl⟩
  · rw [hf]; exact Or.inr rfl

/-- For non-empty, pairwise disjoint, prefix-free tuple sets the uniting loop of one non-terminal
    yields an automaton — no (false) conflict, no panic — unless the model's fuel runs out. -/
theorem uniteAll_ok_or_fuel (k : Nat) {sets : List (Nat × List Tuple)} (ok : SetsOk sets) (hne : sets ≠ []) :
    (∃ d, uniteAll true k sets = some (.ok d)) ∨ uniteAll true k sets = some (.error .fuel) := by
  cases sets with
  | nil => exact absurd rfl hne
  | cons q rest =>
    obtain ⟨p, ts⟩ := q
    simp only [uniteAll]
    have hb := built_single k (p := p) (ok.nonempty (p, ts) List.mem_cons_self)
    -- fold over the remaining productions
    have key : ∀ (rest P : List (Nat × List Tuple)) (acc : LDfa), SetsOk (P ++ rest) → P ≠ [] → Built P acc →
        (∃ d, rest.foldlM (fun acc (q : Nat × List Tuple) => unite true acc (fromKTuples k q.2 q.1)) acc = .ok d) ∨
        rest.foldlM (fun acc (q : Nat × List Tuple) => unite true acc (fromKTuples k q.2 q.1)) acc = .error .fuel := by
      intro rest
      induction rest with
      | nil => intro P acc _ _ _; exact Or.inl ⟨acc, rfl⟩
      | cons q rest ih =>
        intro P acc okP hP hbP
        have ok1 : SetsOk (P ++ [q]) := okP.subset (by
          intro x hx
          rcases List.mem_append.1 hx with hx | hx
          · exact List.mem_append_left _ hx
          · simp only [List.mem_singleton] at hx
            subst hx
            exact List.mem_append_right _ List.mem_cons_self)
        have hq : q ∈ P ++ [q] := by simp
        obtain ⟨l1, ht1, _⟩ := hbP.ex
        obtain ⟨l2, ht2, _, _⟩ := fromKTuples_inv k q.2 q.1 (ok1.nonempty q hq)
        have compat : ∀ w, (if w ∈ q.2 then (q.1 : Int) else -1) ≥ 0 → Mof P w ≥ 0 →
            (if w ∈ q.2 then (q.1 : Int) else -1) = Mof P w := by
          intro w h1 h2
          by_cases hw : w ∈ q.2
          · simp only [hw, if_true]
            obtain ⟨q', hq', hw'⟩ := Mof_ne (sets := P) (w := w) (by omega)
            have okP' : SetsOk P := ok1.subset (fun x hx => List.mem_append_left _ hx)
            rw [Mof_mem okP' hq' hw']
            have := ok1.disjoint q hq q' (List.mem_append_left _ hq') w hw hw'
            rw [this]
          · simp [hw] at h1
        rw [foldlM_except_cons]
        rcases unite_ok_or_fuel (fixK := true) ht1 hbP.es ht2 compat with ⟨a1, h1⟩ | hf
        · rw [h1]
          have hb1 := built_step k (p := q.1) (S := q.2) ok1 hP hbP h1
          have := ih (P ++ [q]) a1 (by simpa using okP) (by simp) hb1
          exact this
        · rw [hf]; exact Or.inr rfl
    rcases key rest [(p, ts)] _ (by simpa using ok) (by simp) hb with ⟨d, hd⟩ | hf
    · exact Or.inl ⟨d, by rw [hd]⟩
    · exact Or.inr (by rw [hf])

end ParolModel
