import ParolModel.Model.Canon
import Mathlib.Tactic.Ring
/-! `generate_name`: the decimal rendering is injective, the search among `|exclusions| + 1`
candidates always succeeds (pigeonhole), and the result is the first free candidate — independent
of the fuel and of everything in the exclusion list that is not a candidate. -/
namespace ParolModel

/-! ## decimal digits -/

theorem digitChar_spec : ∀ d, d < 10 → (digitChar d).toNat = 48 + d ∧ (digitChar d).isDigit = true
  | 0, _ => by decide
  | 1, _ => by decide
  | 2, _ => by decide
  | 3, _ => by decide
  | 4, _ => by decide
  | 5, _ => by decide
  | 6, _ => by decide
  | 7, _ => by decide
  | 8, _ => by decide
  | 9, _ => by decide
  | n+10, h => by omega

theorem foldl_digits (ds : List Char) : ∀ acc0 : Nat,
    ds.foldl (fun acc c => acc * 10 + (c.toNat - 48)) acc0 = acc0 * 10 ^ ds.length + digitsToNatE ds := by
  induction ds with
  | nil => intro acc0; simp [digitsToNatE]
  | cons c ds ih =>
    intro acc0
    simp only [List.foldl_cons, digitsToNatE, List.length_cons]
    rw [ih, ih (0 * 10 + (c.toNat - 48))]
    ring

theorem digitsToNat_cons (c : Char) (ds : List Char) :
    digitsToNatE (c :: ds) = (c.toNat - 48) * 10 ^ ds.length + digitsToNatE ds := by
  simp only [digitsToNatE, List.foldl_cons]
  rw [foldl_digits]
  simp [digitsToNatE]

theorem digitsAux_val : ∀ (f n : Nat) (acc : List Char), n < f →
    digitsToNatE (digitsAux f n acc) = n * 10 ^ acc.length + digitsToNatE acc
  | 0, _, _, h => by omega
  | f+1, n, acc, h => by
    simp only [digitsAux]
    split
    · rename_i hn
      rw [digitsToNat_cons, (digitChar_spec n hn).1]
      simp
    · rename_i hn
      rw [digitsAux_val f (n / 10) _ (by omega), digitsToNat_cons,
        (digitChar_spec (n % 10) (Nat.mod_lt _ (by omega))).1]
      simp only [List.length_cons, Nat.add_sub_cancel_left]
      have := Nat.div_add_mod n 10
      generalize n / 10 = a at this ⊢
      generalize n % 10 = b at this ⊢
      subst this
      ring

theorem natDigits_val (n : Nat) : digitsToNatE (natDigits n) = n := by
  unfold natDigits
  rw [digitsAux_val _ _ _ (by omega)]
  simp [digitsToNatE]

theorem natDigits_inj {a b : Nat} (h : natDigits a = natDigits b) : a = b := by
  rw [← natDigits_val a, ← natDigits_val b, h]

theorem digitsAux_digits : ∀ (f n : Nat) (acc : List Char), (∀ c ∈ acc, c.isDigit = true) →
    ∀ c ∈ digitsAux f n acc, c.isDigit = true
  | 0, _, _, h => by simpa [digitsAux] using h
  | f+1, n, acc, h => by
    simp only [digitsAux]
    split
    · rename_i hn
      intro c hc
      simp only [List.mem_cons] at hc
      rcases hc with rfl | hc
      · exact (digitChar_spec n hn).2
      · exact h c hc
    · apply digitsAux_digits
      intro c hc
      simp only [List.mem_cons] at hc
      rcases hc with rfl | hc
      · exact (digitChar_spec (n % 10) (Nat.mod_lt _ (by omega))).2
      · exact h c hc

theorem natDigits_digits (n : Nat) : ∀ c ∈ natDigits n, c.isDigit = true :=
  digitsAux_digits _ _ _ (fun c hc => nomatch hc)

/-! ## the search -/

/-- `genNameLoop` returns the first free candidate at or after `num`. -/
theorem genNameLoop_spec (excl : List Name) (pre : Name) : ∀ (fuel num : Nat) (X : Name),
    genNameLoop excl pre fuel num = some X ↔
      ∃ k, num ≤ k ∧ k < num + fuel ∧ X = pre ++ natDigits k ∧ pre ++ natDigits k ∉ excl ∧
        ∀ j, num ≤ j → j < k → pre ++ natDigits j ∈ excl
  | 0, num, X => by
    simp only [genNameLoop]
    constructor
    · intro h; cases h
    · rintro ⟨k, h1, h2, _⟩; omega
  | f+1, num, X => by
    simp only [genNameLoop]
    split
    · rename_i hin
      rw [genNameLoop_spec excl pre f (num + 1) X]
      constructor
      · rintro ⟨k, h1, h2, h3, h4, h5⟩
        refine ⟨k, by omega, by omega, h3, h4, ?_⟩
        intro j hj1 hj2
        by_cases e : j = num
        · subst e; exact hin
        · exact h5 j (by omega) hj2
      · rintro ⟨k, h1, h2, h3, h4, h5⟩
        have : k ≠ num := by
          intro e; subst e; exact h4 hin
        exact ⟨k, by omega, by omega, h3, h4, fun j hj1 hj2 => h5 j (by omega) hj2⟩
    · rename_i hin
      constructor
      · intro h
        injection h with h
        subst h
        exact ⟨num, Nat.le_refl _, by omega, rfl, hin, fun j h1 h2 => by omega⟩
      · rintro ⟨k, h1, h2, h3, h4, h5⟩
        by_cases e : k = num
        · subst e; rw [h3]
        · exact absurd (h5 num (Nat.le_refl _) (by omega)) hin

/-- pigeonhole: more pairwise different candidates than exclusions → one candidate is free -/
theorem pigeon : ∀ (excl cands : List Name), cands.Nodup → excl.length < cands.length →
    ∃ c ∈ cands, c ∉ excl
  | [], cands, _, h => by
    cases cands with
    | nil => simp at h
    | cons c cs => exact ⟨c, by simp, by simp⟩
  | e :: es, cands, hn, h => by
    have hlen : es.length < (cands.erase e).length := by
      rw [List.length_erase]
      simp only [List.length_cons] at h
      split <;> omega
    obtain ⟨c, hc, hce⟩ := pigeon es (cands.erase e) (hn.erase e) hlen
    rw [hn.mem_erase_iff] at hc
    exact ⟨c, hc.2, by simp [hc.1, hce]⟩

theorem cands_nodup (pre : Name) (num : Nat) : ∀ n : Nat,
    ((List.range n).map fun i => pre ++ natDigits (num + i)).Nodup := by
  intro n
  rw [List.nodup_iff_pairwise_ne, List.pairwise_map]
  refine List.Pairwise.imp ?_ (List.nodup_iff_pairwise_ne.1 (List.nodup_range (n := n)))
  intro a b hab e
  have := natDigits_inj (List.append_cancel_left e)
  omega

theorem genNameLoop_total (excl : List Name) (pre : Name) (num : Nat) :
    ∃ X, genNameLoop excl pre (excl.length + 1) num = some X := by
  obtain ⟨c, hc, hce⟩ := pigeon excl _ (cands_nodup pre num (excl.length + 1)) (by simp)
  simp only [List.mem_map, List.mem_range] at hc
  obtain ⟨i, hi, rfl⟩ := hc
  -- the least free index exists below i + 1
  have : ∀ m, (∃ i, i < m ∧ pre ++ natDigits (num + i) ∉ excl) →
      ∃ k, k < m ∧ pre ++ natDigits (num + k) ∉ excl ∧
        ∀ j, j < k → pre ++ natDigits (num + j) ∈ excl := by
    intro m
    induction m with
    | zero => rintro ⟨i, hi, _⟩; omega
    | succ m ih =>
      rintro ⟨i, hi, hfree⟩
      by_cases hex : ∃ i, i < m ∧ pre ++ natDigits (num + i) ∉ excl
      · obtain ⟨k, hk, h1, h2⟩ := ih hex
        exact ⟨k, by omega, h1, h2⟩
      · have him : i = m := by
          by_cases e : i < m
          · exact absurd ⟨i, e, hfree⟩ hex
          · omega
        subst him
        refine ⟨i, by omega, hfree, ?_⟩
        intro j hj
        by_cases hjn : pre ++ natDigits (num + j) ∈ excl
        · exact hjn
        · exact absurd ⟨j, hj, hjn⟩ hex
  obtain ⟨k, hk, hfree, hleast⟩ := this (excl.length + 1) ⟨i, hi, hce⟩
  refine ⟨pre ++ natDigits (num + k), (genNameLoop_spec excl pre _ num _).2
    ⟨num + k, by omega, by omega, rfl, hfree, ?_⟩⟩
  intro j hj1 hj2
  have := hleast (j - num) (by omega)
  rwa [show num + (j - num) = j by omega] at this

/-- **the fuel `|exclusions| + 1` always suffices** -/
theorem generateName_total (excl : List Name) (pref : Name) :
    ∃ X, generateName excl pref = some X := by
  unfold generateName
  split
  · simp only
    split
    · exact genNameLoop_total _ _ _
    · exact genNameLoop_total _ _ _
  · exact ⟨pref, rfl⟩

end ParolModel
