import ParolModel.Proofs.LaCompile
/-! Proofs (C07/C24), part 5a: order independence of `minimize` — the quotient representation.
Every adjacency list reached from a base list `a0` by valid `combine_two_states` steps is the
quotient `quot a0 rep` by a representative function `rep` (smallest member of each class). -/
namespace ParolModel

/-! ### Sorting is canonical -/

def pairLeP (a b : Nat × Nat) : Prop := a.1 < b.1 ∨ (a.1 = b.1 ∧ a.2 ≤ b.2)

theorem pairLe_iff (a b : Nat × Nat) : pairLe a b = true ↔ pairLeP a b := by
  simp [pairLe, pairLeP]

theorem pairLeP_total (a b : Nat × Nat) : pairLeP a b ∨ pairLeP b a := by
  unfold pairLeP; omega

theorem pairLeP_trans {a b c : Nat × Nat} (h1 : pairLeP a b) (h2 : pairLeP b c) : pairLeP a c := by
  unfold pairLeP at *; omega

theorem pairLeP_antisymm {a b : Nat × Nat} (h1 : pairLeP a b) (h2 : pairLeP b a) : a = b := by
  unfold pairLeP at *
  cases a; cases b
  simp only [Prod.mk.injEq] at *
  omega

theorem insertPair_sorted (x : Nat × Nat) : ∀ (l : Nbrs), l.Pairwise pairLeP → (insertPair x l).Pairwise pairLeP := by
  intro l
  induction l with
  | nil => intro _; simp [insertPair]
  | cons y ys ih =>
    intro h
    simp only [List.pairwise_cons] at h
    simp only [insertPair]
    split
    · rename_i hle
      have hxy := (pairLe_iff x y).1 hle
      refine List.Pairwise.cons ?_ (List.pairwise_cons.2 h)
      intro z hz
      rcases List.mem_cons.1 hz with rfl | hz
      · exact hxy
      · exact pairLeP_trans hxy (h.1 z hz)
    · rename_i hle
      have hyx : pairLeP y x := by
        rcases pairLeP_total x y with h' | h'
        · exact absurd ((pairLe_iff x y).2 h') hle
        · exact h'
      refine List.Pairwise.cons ?_ (ih h.2)
      intro z hz
      rcases List.mem_cons.1 ((insertPair_perm x ys).mem_iff.1 hz) with rfl | hz
      · exact hyx
      · exact h.1 z hz

theorem sortPairs_sorted (l : Nbrs) : (sortPairs l).Pairwise pairLeP := by
  induction l with
  | nil => exact List.Pairwise.nil
  | cons x xs ih => exact insertPair_sorted x _ ih

theorem eq_of_perm_sorted : ∀ (l1 l2 : Nbrs), l1.Perm l2 → l1.Pairwise pairLeP → l2.Pairwise pairLeP → l1 = l2 := by
  intro l1
  induction l1 with
  | nil => intro l2 hp _ _; exact (List.nil_perm.1 hp).symm
  | cons a t1 ih =>
    intro l2 hp h1 h2
    cases l2 with
    | nil => exact absurd hp.symm (by simp)
    | cons b t2 =>
      simp only [List.pairwise_cons] at h1 h2
      have hab : a = b := by
        have ha : a ∈ b :: t2 := hp.mem_iff.1 List.mem_cons_self
        have hb : b ∈ a :: t1 := hp.mem_iff.2 List.mem_cons_self
        rcases List.mem_cons.1 ha with h | h
        · exact h
        · rcases List.mem_cons.1 hb with h' | h'
          · exact h'.symm
          · exact pairLeP_antisymm (h1.1 b h') (h2.1 a h)
      subst hab
      rw [ih t2 hp.cons_inv h1.2 h2.2]

theorem sortPairs_congr {l1 l2 : Nbrs} (h : l1.Perm l2) : sortPairs l1 = sortPairs l2 :=
  eq_of_perm_sorted _ _ (((sortPairs_perm l1).trans h).trans (sortPairs_perm l2).symm)
    (sortPairs_sorted l1) (sortPairs_sorted l2)

theorem sortPairs_idem (l : Nbrs) : sortPairs (sortPairs l) = sortPairs l :=
  sortPairs_congr (sortPairs_perm l)

/-! ### More about association lists -/

theorem bmInsertSorted_head {β : Type} (k : Nat) (v : β) (m : List (Nat × β)) (h : ∀ y ∈ m, k < y.1) :
    bmInsertSorted k v m = (k, v) :: m := by
  cases m with
  | nil => rfl
  | cons x xs => simp [bmInsertSorted, h x List.mem_cons_self]

theorem bmRemove_id {β : Type} (k : Nat) (m : List (Nat × β)) (h : ∀ y ∈ m, y.1 ≠ k) : bmRemove m k = m := by
  unfold bmRemove
  rw [List.filter_eq_self]
  intro y hy
  simpa using h y hy

theorem bmInsert_self {β : Type} : ∀ (m : List (Nat × β)) (k : Nat) (v : β), KS m → bmGet m k = some v → bmInsert m k v = m := by
  intro m
  induction m with
  | nil => intro k v _ h; simp [bmGet_nil] at h
  | cons x xs ih =>
    intro k v hks h
    obtain ⟨hks', hlt⟩ := hks.cons_inv
    rw [bmGet_cons] at h
    by_cases hx : x.1 = k
    · simp only [hx, if_true, Option.some.injEq] at h
      have hxe : x = (k, v) := by cases x; simp_all
      subst hxe
      unfold bmInsert
      have : bmRemove ((k, v) :: xs) k = xs := by
        unfold bmRemove
        simp only [List.filter_cons, bne_self_eq_false, Bool.false_eq_true, if_false]
        exact bmRemove_id k xs (fun y hy => by have := hlt y hy; simp at this; omega)
      rw [this]
      exact bmInsertSorted_head k v xs (fun y hy => by simpa using hlt y hy)
    · simp only [hx, if_false] at h
      have hmem := bmGet_some_mem h
      have hlt2 : x.1 < k := by simpa using hlt _ hmem
      unfold bmInsert
      have : bmRemove (x :: xs) k = x :: bmRemove xs k := by
        unfold bmRemove
        rw [List.filter_cons]
        have hb : (x.1 != k) = true := by simp [hx]
        simp only [hb, if_true]
      rw [this]
      simp only [bmInsertSorted]
      have : ¬ k < x.1 := by omega
      simp only [this, if_false]
      have := ih k v hks' h
      unfold bmInsert at this
      rw [this]

theorem bmGet_filterKey {β : Type} (p : Nat → Bool) (m : List (Nat × β)) (k : Nat) :
    bmGet (m.filter (fun x => p x.1)) k = if p k then bmGet m k else none := by
  induction m with
  | nil => simp [bmGet_nil]
  | cons x xs ih =>
    simp only [List.filter_cons]
    by_cases hp : p x.1 = true
    · simp only [hp, if_true, bmGet_cons, ih]
      by_cases hx : x.1 = k
      · subst hx; simp [hp]
      · simp [hx]
    · simp only [hp, Bool.false_eq_true, if_false, ih, bmGet_cons]
      by_cases hx : x.1 = k
      · have : p k = false := by rw [← hx]; simpa using hp
        simp [this]
      · simp [hx]

/-! ### Quotients -/

def mapNb (f : Nat → Nat) (nb : Nbrs) : Nbrs := nb.map (fun x => (f x.1, x.2))

theorem mapNb_mapNb (f g : Nat → Nat) (nb : Nbrs) : mapNb g (mapNb f nb) = mapNb (g ∘ f) nb := by
  simp [mapNb, List.map_map, Function.comp_def]

def quotList (a0 : Adj) (rep : Nat → Nat) : List (Nat × Nbrs) :=
  (a0.list.filter (fun x => rep x.1 == x.1)).map (fun x => (x.1, sortPairs (mapNb rep x.2)))

def quotProds (a0 : Adj) (rep : Nat → Nat) : List (Nat × Int) :=
  a0.prods.filter (fun x => rep x.1 == x.1)

structure Quot (a0 : Adj) (rep : Nat → Nat) (a : Adj) : Prop where
  list : a.list = quotList a0 rep
  prods : a.prods = quotProds a0 rep
  k : a.k = a0.k
  idem : ∀ s, rep (rep s) = rep s
  le : ∀ s, rep s ≤ s
  nonkey : ∀ s, bmGet a0.list s = none → rep s = s
  key : ∀ s, (bmGet a0.list s).isSome → (bmGet a0.list (rep s)).isSome
  coh : ∀ s nb, bmGet a0.list s = some nb → ∃ nb', bmGet a0.list (rep s) = some nb' ∧
    sortPairs (mapNb rep nb) = sortPairs (mapNb rep nb')
  cohp : ∀ s, (bmGet a0.list s).isSome → bmGet a0.prods (rep s) = bmGet a0.prods s

theorem Quot.get_list {a0 a : Adj} {rep : Nat → Nat} (q : Quot a0 rep a) (r : Nat) :
    bmGet a.list r = if rep r = r then (bmGet a0.list r).map (fun nb => sortPairs (mapNb rep nb)) else none := by
  rw [q.list]
  unfold quotList
  rw [bmGet_mapVal (fun _ nb => sortPairs (mapNb rep nb)), bmGet_filterKey (fun k => rep k == k)]
  by_cases h : rep r = r <;> simp [h]

theorem Quot.get_prods {a0 a : Adj} {rep : Nat → Nat} (q : Quot a0 rep a) (r : Nat) :
    bmGet a.prods r = if rep r = r then bmGet a0.prods r else none := by
  rw [q.prods]
  unfold quotProds
  rw [bmGet_filterKey (fun k => rep k == k)]
  by_cases h : rep r = r <;> simp [h]

/-- The lists of the base must be sorted for the identity quotient to be the base itself. -/
def ListsSorted (a0 : Adj) : Prop := ∀ x ∈ a0.list, sortPairs x.2 = x.2

theorem quot_id {a0 : Adj} (hs : ListsSorted a0) : Quot a0 id a0 := by
  refine ⟨?_, ?_, rfl, fun _ => rfl, fun _ => Nat.le_refl _, fun _ _ => rfl, fun _ h => h, ?_, fun _ _ => rfl⟩
  · unfold quotList
    have hf : a0.list.filter (fun x => id x.1 == x.1) = a0.list := List.filter_eq_self.2 (by intro x _; simp)
    rw [hf]
    symm
    rw [List.map_congr_left (g := id)]
    · simp
    · intro x hx
      have : mapNb id x.2 = x.2 := by simp [mapNb]
      simp only [id]
      rw [this, hs x hx]
  · unfold quotProds
    exact (List.filter_eq_self.2 (by intro x _; simp)).symm
  · intro s nb h
    exact ⟨nb, h, rfl⟩

theorem nbRename_quot (rep : Nat → Nat) (nb : Nbrs) (merge keep : Nat) :
    nbRename (sortPairs (mapNb rep nb)) merge keep = sortPairs (mapNb (hmap merge keep ∘ rep) nb) := by
  unfold nbRename
  have hmapeq : (sortPairs (mapNb rep nb)).map (fun x => if (x.1 == merge) = true then (keep, x.2) else x) =
      mapNb (hmap merge keep) (sortPairs (mapNb rep nb)) := by
    unfold mapNb
    apply List.map_congr_left
    intro x _
    unfold hmap
    by_cases h : x.1 = merge <;> simp [h]
  split
  · rw [hmapeq, ← mapNb_mapNb]
    exact sortPairs_congr ((sortPairs_perm _).map _)
  · rename_i hany
    -- nothing is renamed: the composed map agrees with `rep` on this list
    have hno : ∀ x ∈ nb, rep x.1 ≠ merge := by
      intro x hx he
      apply hany
      rw [List.any_eq_true]
      refine ⟨(rep x.1, x.2), ?_, by simp [he]⟩
      rw [mem_sortPairs]
      exact List.mem_map.2 ⟨x, hx, rfl⟩
    have : mapNb (hmap merge keep ∘ rep) nb = mapNb rep nb := by
      unfold mapNb
      apply List.map_congr_left
      intro x hx
      simp [hmap, hno x hx]
    rw [this]

/-- A valid `combine_two_states` step maps quotients to quotients. -/
theorem combineTwo_quot {a0 a a' : Adj} {rep : Nat → Nat} {keep merge : Nat} (hwf : AdjWF a) (q : Quot a0 rep a)
    (h : a.combineTwo keep merge = some a')
    (hsame : ∀ lm lk, bmGet a.list merge = some lm → bmGet a.list keep = some lk → lm = lk)
    (hlt : keep < merge) : Quot a0 (hmap merge keep ∘ rep) a' := by
  obtain ⟨hne, ⟨l, pk, e1, e2, e3, e4⟩, heq⟩ := combineTwo_eq h hsame
  have hk : rep keep = keep := by
    have := q.get_list keep
    rw [e1] at this
    by_cases hr : rep keep = keep
    · exact hr
    · simp [hr] at this
  have hm : rep merge = merge := by
    have := q.get_list merge
    rw [e2] at this
    by_cases hr : rep merge = merge
    · exact hr
    · simp [hr] at this
  have hkey0 : (bmGet a0.list keep).isSome := by
    have := q.get_list keep
    rw [e1, hk] at this
    simp only [if_true] at this
    cases hg : bmGet a0.list keep with
    | none => rw [hg] at this; cases this
    | some v => rfl
  have hmerge0 : (bmGet a0.list merge).isSome := by
    have := q.get_list merge
    rw [e2, hm] at this
    simp only [if_true] at this
    cases hg : bmGet a0.list merge with
    | none => rw [hg] at this; cases this
    | some v => rfl
  -- the filter predicate of the new quotient
  have hpred : ∀ x : Nat, ((rep x == x) && (x != merge)) = ((hmap merge keep ∘ rep) x == x) := by
    intro x
    simp only [Function.comp, hmap]
    by_cases hx : rep x = x
    · by_cases hxm : x = merge
      · subst hxm; simp [hx, hne]
      · simp [hx, hxm]
    · by_cases hrm : rep x = merge
      · have : keep ≠ x := by intro he; rw [← he, hk] at hrm; exact hne hrm
        have hmx : merge ≠ x := by rw [← hrm]; exact hx
        have h1 : (merge == x) = false := by simp [hmx]
        have h2 : (keep == x) = false := by simp [this]
        simp only [hrm, if_true, h1, h2, Bool.false_and]
      · simp [hx, hrm]
  refine ⟨?_, ?_, ?_, ?_, ?_, ?_, ?_, ?_, ?_⟩
  · rw [heq]
    simp only
    rw [e1]
    simp only [Option.getD_some]
    rw [bmInsert_self a.list keep l hwf.ksl e1, q.list]
    unfold quotList bmRemove
    rw [List.filter_map, List.filter_filter, List.map_map]
    have hf : (a0.list.filter (fun x => ((fun x : Nat × Nbrs => x.1 != merge) ∘ fun x : Nat × Nbrs => (x.1, sortPairs (mapNb rep x.2))) x && (rep x.1 == x.1))) =
        a0.list.filter (fun x => (hmap merge keep ∘ rep) x.1 == x.1) := by
      apply List.filter_congr
      intro x _
      rw [← hpred x.1]
      simp only [Function.comp]
      rw [Bool.and_comm]
    rw [hf]
    apply List.map_congr_left
    intro x _
    simp only [Function.comp]
    rw [nbRename_quot]
  · rw [heq]
    simp only
    rw [q.prods]
    unfold quotProds bmRemove
    rw [List.filter_filter]
    apply List.filter_congr
    intro x _
    rw [← hpred x.1, Bool.and_comm]
  · rw [heq]; exact q.k
  · intro s
    simp only [Function.comp, hmap]
    by_cases hs : rep s = merge
    · simp [hs, hk, hne]
    · simp [hs, q.idem s]
  · intro s
    simp only [Function.comp, hmap]
    have := q.le s
    by_cases hs : rep s = merge
    · simp only [hs, if_true]; omega
    · simp only [hs, if_false]; exact this
  · intro s hs
    simp only [Function.comp, hmap]
    rw [q.nonkey s hs]
    have : s ≠ merge := by intro he; rw [← he, hs] at hmerge0; cases hmerge0
    simp [this]
  · intro s hs
    simp only [Function.comp, hmap]
    by_cases hsm : rep s = merge
    · simp only [hsm, if_true]; exact hkey0
    · simp only [hsm, if_false]; exact q.key s hs
  · intro s nb hnb
    simp only [Function.comp, hmap]
    obtain ⟨nb', hnb', hco⟩ := q.coh s nb hnb
    -- apply the renaming to both sides of a coherence equation
    have hren : ∀ n1 n2 : Nbrs, sortPairs (mapNb rep n1) = sortPairs (mapNb rep n2) →
        sortPairs (mapNb (hmap merge keep ∘ rep) n1) = sortPairs (mapNb (hmap merge keep ∘ rep) n2) := by
      intro n1 n2 he
      have hp : (mapNb rep n1).Perm (mapNb rep n2) :=
        ((sortPairs_perm _).symm.trans (he ▸ List.Perm.refl _)).trans (sortPairs_perm _)
      rw [← mapNb_mapNb, ← mapNb_mapNb]
      exact sortPairs_congr (hp.map _)
    by_cases hsm : rep s = merge
    · simp only [hsm, if_true]
      -- lists of merge and keep agree in `a`
      obtain ⟨nbk, hnbk⟩ := Option.isSome_iff_exists.1 hkey0
      refine ⟨nbk, hnbk, ?_⟩
      rw [hsm] at hnb'
      have h1 := q.get_list merge
      have h2 := q.get_list keep
      rw [e2, hm, hnb'] at h1
      rw [e1, hk, hnbk] at h2
      simp only [if_true, Option.map_some, Option.some.injEq] at h1 h2
      exact hren nb nbk (hco.trans (h1.symm.trans h2))
    · simp only [hsm, if_false]
      exact ⟨nb', hnb', hren nb nb' hco⟩
  · intro s hs
    simp only [Function.comp, hmap]
    by_cases hsm : rep s = merge
    · simp only [hsm, if_true]
      have h1 := q.get_prods merge
      have h2 := q.get_prods keep
      rw [e4, hm] at h1
      rw [e3, hk] at h2
      simp only [if_true] at h1 h2
      rw [← h2, h1, ← hsm]
      exact q.cohp s hs
    · simp only [hsm, if_false]
      exact q.cohp s hs

end ParolModel
