import ParolModel.Proofs.KSetsCode
/-! Lemmas for C05: `KTuples::k_concat` against textbook ⊕ₖ on well-formed sets, the lookahead
sets of `decidable`, the loop of `decidable`, the `try_fold` of `calculate_k_tuples`. -/
namespace ParolModel.KS

/-! ## strong LL(k), declaratively -/

/-- lookahead strings of an alternative `α` of `A`: k-prefixes of (yield of α)·(FOLLOW_k string) -/
def LA (G : Grammar) (k : Nat) (A : Nat) (α : List Sym) (t : Tup) : Prop :=
  ∃ u f, Yield G α u ∧ FollowK G k A f ∧ t = (u ++ f).take k

/-- strong-LL(k) for `A`: the lookahead sets of any two alternatives (distinct production indices)
    are disjoint -/
def StrongLL (G : Grammar) (k : Nat) (A : Nat) : Prop :=
  ∀ (i j : Nat) (p q : Rule), i ≠ j → G.prods[i]? = some p → G.prods[j]? = some q → p.lhs = A → q.lhs = A →
    ∀ t, ¬ (LA G k A p.rhs t ∧ LA G k A q.rhs t)

/-- grammar terminals never collide with the end-of-input token 0 -/
def NoEoi (G : Grammar) : Prop := ∀ p ∈ G.prods, Sym.t 0 ∉ p.rhs

theorem yield_no_eoi {G : Grammar} (hno : NoEoi G) {ss : List Sym} {w : List Nat}
    (h : Yield G ss w) (hss : Sym.t 0 ∉ ss) : 0 ∉ w := by
  induction h with
  | nil => simp
  | term a _ ih =>
    simp only [List.mem_cons, not_or] at hss ⊢
    refine ⟨?_, ih hss.2⟩
    intro h0; apply hss.1; rw [← h0]
  | nonterm p hp _ _ ih1 ih2 =>
    simp only [List.mem_append, not_or]
    refine ⟨ih1 (hno p hp), ih2 ?_⟩
    intro hm; exact hss (List.mem_cons_of_mem _ hm)

/-! ## tuple-level facts -/

theorem getLast?_eq_some_mem {x : Tup} {a : Nat} (h : x.getLast? = some a) : a ∈ x :=
  List.mem_of_getLast? h

theorem tupComplete_iff_of_wf {k : Nat} {x : Tup} (hk : 1 ≤ k) (h0 : 0 ∉ x) (hl : x.length ≤ k) :
    tupComplete k x = true ↔ x.length = k := by
  unfold tupComplete
  constructor
  · intro h
    simp only [Bool.and_eq_true, Bool.not_eq_eq_eq_not, Bool.not_true, Bool.or_eq_true,
      decide_eq_true_eq, beq_iff_eq] at h
    rcases h.2 with h2 | h2
    · omega
    · exact absurd (getLast?_eq_some_mem h2) h0
  · intro h
    have : x ≠ [] := by intro e; subst e; simp at h; omega
    simp only [Bool.and_eq_true, Bool.not_eq_eq_eq_not, Bool.not_true, Bool.or_eq_true,
      decide_eq_true_eq, beq_iff_eq]
    refine ⟨?_, Or.inl (by omega)⟩
    cases x with
    | nil => exact absurd rfl this
    | cons a as => rfl

theorem kcat_eq_take_of_incomplete {k : Nat} {x y : Tup} (hk : 1 ≤ k) (h0 : 0 ∉ x)
    (hl : x.length ≤ k) (hc : tupComplete k x = false) : kcat k x y = (x ++ y).take k := by
  have hlt : x.length < k := by
    refine Nat.lt_of_le_of_ne hl (fun e => ?_)
    rw [(tupComplete_iff_of_wf hk h0 hl).2 e] at hc
    cases hc
  unfold kcat
  simp only [hc, Bool.false_eq_true, ↓reduceIte]
  rw [List.take_append]
  congr 1
  exact (List.take_of_length_le (by omega)).symm

theorem take_eq_of_complete {k : Nat} {x y : Tup} (hlen : x.length = k) : (x ++ y).take k = x := by
  rw [List.take_append, hlen, Nat.sub_self, List.take_zero, List.append_nil]
  exact List.take_of_length_le (by omega)

/-- On well-formed left operands (no end-of-input token, length ≤ k) and a non-empty right
    operand, `KTuples::k_concat` is the textbook ⊕ₖ. -/
theorem mem_kcatSetQ_wf {k : Nat} (hk : 1 ≤ k) {X Y : TSet}
    (hX : ∀ x ∈ X, 0 ∉ x ∧ x.length ≤ k) (hY : Y ≠ []) (t : Tup) :
    t ∈ kcatSetQ k X Y ↔ ∃ x ∈ X, ∃ y ∈ Y, t = (x ++ y).take k := by
  rw [mem_kcatSetQ]
  constructor
  · rintro ⟨x, hx, h⟩
    obtain ⟨h0, hl⟩ := hX x hx
    rcases h with ⟨hc, rfl⟩ | ⟨hc, y, hy, rfl⟩
    · obtain ⟨y, hy⟩ := List.exists_mem_of_ne_nil Y hY
      exact ⟨t, hx, y, hy, (take_eq_of_complete ((tupComplete_iff_of_wf hk h0 hl).1 hc)).symm⟩
    · exact ⟨x, hx, y, hy, kcat_eq_take_of_incomplete hk h0 hl hc⟩
  · rintro ⟨x, hx, y, hy, rfl⟩
    obtain ⟨h0, hl⟩ := hX x hx
    refine ⟨x, hx, ?_⟩
    cases hc : tupComplete k x with
    | true => left; exact ⟨rfl, take_eq_of_complete ((tupComplete_iff_of_wf hk h0 hl).1 hc)⟩
    | false => right; exact ⟨rfl, y, hy, (kcat_eq_take_of_incomplete hk h0 hl hc).symm⟩

/-! ## the lookahead sets compared by `decidable` -/

theorem mem_prodIdxs {G : Grammar} {A i : Nat} :
    i ∈ prodIdxs G A ↔ ∃ p, G.prods[i]? = some p ∧ p.lhs = A := by
  unfold prodIdxs
  simp only [List.mem_filter, List.mem_range, beq_iff_eq]
  constructor
  · rintro ⟨hi, h⟩
    have : G.prods[i]? = some G.prods[i] := List.getElem?_eq_getElem hi
    rw [this] at h
    simp only [Option.map_some, Option.some.injEq] at h
    exact ⟨_, this, h⟩
  · rintro ⟨p, hp, hl⟩
    have hi : i < G.prods.length := by
      rcases Nat.lt_or_ge i G.prods.length with h | h
      · exact h
      · rw [List.getElem?_eq_none h] at hp; cases hp
    exact ⟨hi, by simp [hp, hl]⟩

/-- FIRST/FOLLOW computed by the (model of the) code at `k` are the declarative sets — C06's statement. -/
def SetsAreSpecAt (G : Grammar) (fuel k : Nat) : Prop :=
  ∃ fv fw, firstCode G fuel k = some fv ∧ followCode G fuel k = some fw ∧
    (∀ i p, G.prods[i]? = some p → ∀ t, t ∈ fv.prods.getD i [] ↔ FirstK G k p.rhs t) ∧
    (∀ A t, t ∈ envGet fw.2 A ↔ FollowK G k A t)

theorem disjointSets_iff {X Y : TSet} : disjointSets X Y = true ↔ ∀ t, ¬ (t ∈ X ∧ t ∈ Y) := by
  simp only [disjointSets, List.all_eq_true, Bool.not_eq_eq_eq_not, Bool.not_true,
    List.contains_eq_mem, decide_eq_false_iff_not]
  constructor
  · intro h t ⟨h1, h2⟩; exact h t h1 h2
  · intro h t h1 h2; exact h t ⟨h1, h2⟩

theorem pairwiseDisjoint_iff {L : List (Nat × TSet)} :
    pairwiseDisjoint L = true ↔ ∀ a ∈ L, ∀ b ∈ L, a.1 = b.1 ∨ ∀ t, ¬ (t ∈ a.2 ∧ t ∈ b.2) := by
  simp only [pairwiseDisjoint, List.all_eq_true, Bool.or_eq_true, beq_iff_eq, disjointSets_iff]

/-- what `decidable` tests at `k` is strong-LL(k), when the sets are the declarative ones, the
    grammar has no terminal 0 and FOLLOW_k(A) is inhabited -/
theorem laSets_disjoint_iff_strongLL {G : Grammar} {fuel k A : Nat} (hk : 1 ≤ k) (hno : NoEoi G)
    (hspec : SetsAreSpecAt G fuel k) (hne : ∃ f, FollowK G k A f) :
    ∃ sets, laSets G fuel A k = some sets ∧ (pairwiseDisjoint sets = true ↔ StrongLL G k A) := by
  obtain ⟨fv, fw, hfv, hfw, hfirst, hfollow⟩ := hspec
  refine ⟨(prodIdxs G A).map fun pi => (pi, kcatSetQ k (fv.prods.getD pi []) (envGet fw.2 A)),
    by simp [laSets, hfv, hfw], ?_⟩
  -- membership in one lookahead set
  have hY : envGet fw.2 A ≠ [] := by
    obtain ⟨f, hf⟩ := hne
    intro e
    have := (hfollow A f).2 hf
    rw [e] at this; cases this
  have key : ∀ i p, G.prods[i]? = some p → ∀ t,
      t ∈ kcatSetQ k (fv.prods.getD i []) (envGet fw.2 A) ↔ LA G k A p.rhs t := by
    intro i p hp t
    have hX : ∀ x ∈ fv.prods.getD i [], 0 ∉ x ∧ x.length ≤ k := by
      intro x hx
      obtain ⟨u, hu, rfl⟩ := (hfirst i p hp x).1 hx
      have hpm : p ∈ G.prods := List.mem_of_getElem? hp
      have := yield_no_eoi hno hu (hno p hpm)
      exact ⟨fun h => this (List.mem_of_mem_take h), by simp [List.length_take]; omega⟩
    rw [mem_kcatSetQ_wf hk hX hY]
    constructor
    · rintro ⟨x, hx, y, hy, rfl⟩
      obtain ⟨u, hu, rfl⟩ := (hfirst i p hp x).1 hx
      exact ⟨u, y, hu, (hfollow A y).1 hy, take_append_take_left k u y⟩
    · rintro ⟨u, f, hu, hf, rfl⟩
      exact ⟨u.take k, (hfirst i p hp _).2 ⟨u, hu, rfl⟩, f, (hfollow A f).2 hf,
        (take_append_take_left k u f).symm⟩
  rw [pairwiseDisjoint_iff]
  constructor
  · intro h i j p q hij hp hq hpl hql t ⟨h1, h2⟩
    have hi : i ∈ prodIdxs G A := mem_prodIdxs.2 ⟨p, hp, hpl⟩
    have hj : j ∈ prodIdxs G A := mem_prodIdxs.2 ⟨q, hq, hql⟩
    rcases h (i, _) (List.mem_map.2 ⟨i, hi, rfl⟩) (j, _) (List.mem_map.2 ⟨j, hj, rfl⟩) with h' | h'
    · exact hij h'
    · exact h' t ⟨(key i p hp t).2 h1, (key j q hq t).2 h2⟩
  · intro h a ha b hb
    obtain ⟨i, hi, rfl⟩ := List.mem_map.1 ha
    obtain ⟨j, hj, rfl⟩ := List.mem_map.1 hb
    obtain ⟨p, hp, hpl⟩ := mem_prodIdxs.1 hi
    obtain ⟨q, hq, hql⟩ := mem_prodIdxs.1 hj
    by_cases hij : i = j
    · left; exact hij
    · right
      intro t ⟨h1, h2⟩
      exact h i j p q hij hp hq hpl hql t ⟨(key i p hp t).1 h1, (key j q hq t).1 h2⟩

/-! ## the loop of `decidable` -/

/-- abstract view of the loop: `test j` is the disjointness verdict at `j` -/
theorem decLoop_ok_iff {G : Grammar} {fuel A : Nat} (test : Nat → Bool) :
    ∀ (n cur : Nat),
      (∀ j, cur ≤ j → j < cur + n → ∃ sets, laSets G fuel A j = some sets ∧ pairwiseDisjoint sets = test j) →
      ∀ k, decLoop G fuel A n cur = .ok k ↔
        (cur ≤ k ∧ k < cur + n ∧ test k = true ∧ ∀ j, cur ≤ j → j < k → test j = false) := by
  intro n
  induction n with
  | zero =>
    intro cur _ k
    simp only [decLoop, Nat.add_zero]
    constructor
    · intro h; cases h
    · rintro ⟨h1, h2, _⟩; omega
  | succ n ih =>
    intro cur hsets k
    obtain ⟨sets, hs, ht⟩ := hsets cur (Nat.le_refl _) (by omega)
    simp only [decLoop, hs]
    cases htc : test cur with
    | true =>
      rw [ht.trans htc]
      simp only [↓reduceIte, DecRes.ok.injEq]
      constructor
      · intro h; subst h
        exact ⟨Nat.le_refl _, by omega, htc, fun j h1 h2 => by omega⟩
      · rintro ⟨h1, _, _, h4⟩
        rcases Nat.lt_or_ge cur k with hlt | hge
        · have := h4 cur (Nat.le_refl _) hlt
          rw [htc] at this; cases this
        · omega
    | false =>
      rw [ht.trans htc]
      simp only [Bool.false_eq_true, ↓reduceIte]
      rw [ih (cur+1) (fun j h1 h2 => hsets j (by omega) (by omega)) k]
      constructor
      · rintro ⟨h1, h2, h3, h4⟩
        refine ⟨by omega, by omega, h3, fun j hj1 hj2 => ?_⟩
        by_cases hj : j = cur
        · subst hj; exact htc
        · exact h4 j (by omega) hj2
      · rintro ⟨h1, h2, h3, h4⟩
        have hk : k ≠ cur := by intro e; subst e; rw [htc] at h3; cases h3
        exact ⟨by omega, by omega, h3, fun j hj1 hj2 => h4 j (by omega) hj2⟩

theorem decLoop_err_iff {G : Grammar} {fuel A : Nat} (test : Nat → Bool) :
    ∀ (n cur : Nat),
      (∀ j, cur ≤ j → j < cur + n → ∃ sets, laSets G fuel A j = some sets ∧ pairwiseDisjoint sets = test j) →
      (decLoop G fuel A n cur = .errMaxK ↔ ∀ j, cur ≤ j → j < cur + n → test j = false) := by
  intro n
  induction n with
  | zero => intro cur _; simp only [decLoop, Nat.add_zero, true_iff]; intro j h1 h2; omega
  | succ n ih =>
    intro cur hsets
    obtain ⟨sets, hs, ht⟩ := hsets cur (Nat.le_refl _) (by omega)
    simp only [decLoop, hs]
    cases htc : test cur with
    | true =>
      rw [ht.trans htc]
      simp only [↓reduceIte]
      constructor
      · intro h; cases h
      · intro h
        have := h cur (Nat.le_refl _) (by omega)
        rw [htc] at this; cases this
    | false =>
      rw [ht.trans htc]
      simp only [Bool.false_eq_true, ↓reduceIte]
      rw [ih (cur+1) (fun j h1 h2 => hsets j (by omega) (by omega))]
      constructor
      · intro h j hj1 hj2
        by_cases hj : j = cur
        · subst hj; exact htc
        · exact h j (by omega) (by omega)
      · intro h j hj1 hj2
        exact h j (by omega) (by omega)

theorem decLoop_not_notPart {G : Grammar} {fuel A : Nat} :
    ∀ (n cur : Nat), decLoop G fuel A n cur ≠ .errNotPart := by
  intro n
  induction n with
  | zero => intro cur h; cases h
  | succ n ih =>
    intro cur h
    simp only [decLoop] at h
    split at h
    · cases h
    · split at h
      · cases h
      · exact ih _ h

/-! ## `calculate_k_tuples` -/

theorem calcTuplesLoop_err {G : Grammar} {fuel maxK : Nat} :
    ∀ (l : List Nat) (acc : List (Nat × TSet)) (A : Nat) (e : DecRes),
      calcTuplesLoop G fuel maxK l acc = .err A e →
      A ∈ l ∧ (e = decidableM G fuel A maxK ∧ (∀ k, e ≠ .ok k) ∨ e = .fuel) := by
  intro l
  induction l with
  | nil => intro acc A e h; simp [calcTuplesLoop] at h
  | cons B rest ih =>
    intro acc A e h
    simp only [calcTuplesLoop] at h
    split at h
    · rename_i k hk
      split at h
      · obtain ⟨h1, h2⟩ := ih _ A e h
        exact ⟨List.mem_cons_of_mem _ h1, h2⟩
      · injection h with h1 h2
        subst h1; subst h2
        exact ⟨List.mem_cons_self, Or.inr rfl⟩
    · rename_i hne
      injection h with h1 h2
      subst h1; subst h2
      refine ⟨List.mem_cons_self, Or.inl ⟨rfl, ?_⟩⟩
      intro k hk
      exact hne k hk

theorem calcTuplesLoop_ok {G : Grammar} {fuel maxK : Nat} :
    ∀ (l : List Nat) (acc m : List (Nat × TSet)),
      calcTuplesLoop G fuel maxK l acc = .ok m → ∀ A ∈ l, ∃ k, decidableM G fuel A maxK = .ok k := by
  intro l
  induction l with
  | nil => intro acc m _ A hA; cases hA
  | cons B rest ih =>
    intro acc m h A hA
    simp only [calcTuplesLoop] at h
    split at h
    · rename_i k hk
      split at h
      · rcases List.mem_cons.1 hA with rfl | hA
        · exact ⟨k, hk⟩
        · exact ih _ m h A hA
      · cases h
    · cases h

theorem calcTuplesLoop_ok_of_all {G : Grammar} {fuel maxK : Nat} :
    ∀ (l : List Nat) (acc : List (Nat × TSet)),
      (∀ A ∈ l, ∃ k, decidableM G fuel A maxK = .ok k ∧ (laSets G fuel A k).isSome) →
      ∃ m, calcTuplesLoop G fuel maxK l acc = .ok m := by
  intro l
  induction l with
  | nil => intro acc _; exact ⟨acc, rfl⟩
  | cons B rest ih =>
    intro acc h
    obtain ⟨k, hk, hs⟩ := h B List.mem_cons_self
    obtain ⟨sets, hsets⟩ := Option.isSome_iff_exists.1 hs
    simp only [calcTuplesLoop, hk, hsets]
    exact ih _ (fun A hA => h A (List.mem_cons_of_mem _ hA))

/-- least witness below a given one (classical; `Nat.find` is not in core) -/
theorem exists_least (P : Nat → Prop) : ∀ k, P k → ∃ j, j ≤ k ∧ P j ∧ ∀ i, i < j → ¬ P i := by
  intro k
  induction k using Nat.strongRecOn with
  | ind k ih =>
    intro hk
    by_cases h : ∃ i, i < k ∧ P i
    · obtain ⟨i, hi, hp⟩ := h
      obtain ⟨j, hj, hpj, hmin⟩ := ih i hi hp
      exact ⟨j, by omega, hpj, hmin⟩
    · exact ⟨k, Nat.le_refl _, hk, fun i hi hp => h ⟨i, hi, hp⟩⟩

theorem prodIdxs_nodup (G : Grammar) (A : Nat) : (prodIdxs G A).Nodup := by
  unfold prodIdxs
  exact List.Nodup.sublist List.filter_sublist List.nodup_range

/-! ## hypotheses and helper facts of the C05 theorems -/

/-- Hypotheses: the grammar uses no terminal numbered 0 (that is end of input), FIRST/FOLLOW as
    computed are the declarative sets for every k in 1..K (C06), and `A` occurs in some sentential
    form with a terminating right context (true for reachable `A` in a productive grammar). -/
structure C05Hyp (G : Grammar) (fuel K A : Nat) : Prop where
  noEoi : NoEoi G
  spec : ∀ k, 1 ≤ k → k ≤ K → SetsAreSpecAt G fuel k
  followNe : ∀ k, ∃ f, FollowK G k A f

theorem decidableM_of_two {G : Grammar} {fuel A K : Nat} (h2 : 2 ≤ (prodIdxs G A).length) :
    decidableM G fuel A K = decLoop G fuel A K 1 := by
  unfold decidableM
  split
  · rename_i h; rw [h] at h2; simp at h2
  · rename_i h; rw [h] at h2; simp at h2
  · rfl

open Classical in
/-- verdict function used to instantiate the loop lemmas -/
noncomputable def sllTest (G : Grammar) (A : Nat) (j : Nat) : Bool := decide (StrongLL G j A)

theorem loop_hyp {G : Grammar} {fuel K A : Nat} (h : C05Hyp G fuel K A) :
    ∀ j, 1 ≤ j → j < 1 + K →
      ∃ sets, laSets G fuel A j = some sets ∧ pairwiseDisjoint sets = sllTest G A j := by
  intro j h1 h2
  obtain ⟨sets, hs, hiff⟩ :=
    laSets_disjoint_iff_strongLL (fuel := fuel) h1 h.noEoi (h.spec j h1 (by omega)) (h.followNe j)
  refine ⟨sets, hs, ?_⟩
  unfold sllTest
  rw [Bool.eq_iff_iff, hiff]
  simp

/-- With a single alternative every k (also k = 0) is strong-LL(k). -/
theorem strongLL_of_single {G : Grammar} {A : Nat} (h1 : (prodIdxs G A).length = 1) (k : Nat) :
    StrongLL G k A := by
  intro i j p q hij hp hq hpl hql
  have hi : i ∈ prodIdxs G A := mem_prodIdxs.2 ⟨p, hp, hpl⟩
  have hj : j ∈ prodIdxs G A := mem_prodIdxs.2 ⟨q, hq, hql⟩
  match hl : prodIdxs G A, h1 with
  | [a], _ =>
    rw [hl] at hi hj
    simp only [List.mem_singleton] at hi hj
    exact absurd (hi.trans hj.symm) hij

/-- Two productive alternatives can never be told apart with zero tokens. -/
theorem not_strongLL_zero {G : Grammar} {A : Nat} (h2 : 2 ≤ (prodIdxs G A).length)
    (hprod : ∀ p ∈ G.prods, p.lhs = A → ∃ u, Yield G p.rhs u) (hne : ∃ f, FollowK G 0 A f) :
    ¬ StrongLL G 0 A := by
  intro hs
  have hnd : (prodIdxs G A).Nodup := prodIdxs_nodup G A
  match hl : prodIdxs G A, h2 with
  | i :: j :: rest, _ =>
    rw [hl] at hnd
    have hij : i ≠ j := by
      intro e; subst e
      simp at hnd
    have hi : i ∈ prodIdxs G A := by rw [hl]; simp
    have hj : j ∈ prodIdxs G A := by rw [hl]; simp
    obtain ⟨p, hp, hpl⟩ := mem_prodIdxs.1 hi
    obtain ⟨q, hq, hql⟩ := mem_prodIdxs.1 hj
    obtain ⟨u, hu⟩ := hprod p (List.mem_of_getElem? hp) hpl
    obtain ⟨v, hv⟩ := hprod q (List.mem_of_getElem? hq) hql
    obtain ⟨f, hf⟩ := hne
    exact hs i j p q hij hp hq hpl hql [] ⟨⟨u, f, hu, hf, by simp⟩, ⟨v, f, hv, hf, by simp⟩⟩

end ParolModel.KS
