import ParolModel.Proofs.LaTrieOk
import ParolModel.Proofs.LaK
/-! Proofs (C07), part 3b: `unite`. On tries, the result is a trie again; its annotation is that of
`other` on the words of `other`'s states (except the start state, which is never re-annotated) and
that of `self` elsewhere — `coin_state` is unconditional. -/
namespace ParolModel

theorem mapGet_mapSet (m : List (Nat × Nat)) (k v k' : Nat) :
    mapGet (mapSet m k v) k' = if k' = k then some v else mapGet m k' := by
  induction m with
  | nil =>
    simp only [mapSet, mapGet, List.find?_cons, List.find?_nil]
    by_cases h : k = k'
    · simp [h]
    · have : ¬ k' = k := fun e => h e.symm
      simp [h, this]
  | cons x xs ih =>
    simp only [mapSet]
    by_cases hx : x.1 = k
    · simp only [hx, if_true]
      unfold mapGet at *
      simp only [List.find?_cons]
      by_cases h : k = k'
      · simp [h]
      · have h' : ¬ k' = k := fun e => h e.symm
        simp [h, h', hx]
    · simp only [hx, if_false]
      unfold mapGet at *
      simp only [List.find?_cons]
      by_cases h : x.1 = k'
      · have h' : ¬ k' = k := fun e => hx (h.trans e)
        simp [h, h']
      · simp only [h, decide_false]
        exact ih

/-- Invariant of the loops of `unite`: `s.res` is a trie with labels `l` and annotation `M`, which
    is `M2` on the words of the mapped states of `other` (except state 0) and `M1` elsewhere. -/
structure UInv (n1 : Nat) (l1 : Nat → List Nat) (M1 : List Nat → Int) (d2 : LDfa) (l2 : Nat → List Nat)
    (M2 : List Nat → Int) (s : UState) (l : Nat → List Nat) (M : List Nat → Int) : Prop where
  trie : TrieInv s.res l M
  es : ES s.res.trans
  map0 : mapGet s.map 0 = some 0
  mapOk : ∀ s2 r, mapGet s.map s2 = some r → s2 < d2.prods.length ∧ r < s.res.prods.length ∧ l r = l2 s2
  inD : ∀ s2, s2 ≠ 0 → (mapGet s.map s2).isSome → M (l2 s2) = M2 (l2 s2)
  outD : ∀ w, (∀ s2, s2 ≠ 0 → (mapGet s.map s2).isSome → l2 s2 ≠ w) → M w = M1 w
  old : n1 ≤ s.res.prods.length ∧ ∀ r, r < n1 → l r = l1 r
  newst : ∀ r, n1 ≤ r → r < s.res.prods.length → ∃ s2, s2 < d2.prods.length ∧ s2 ≠ 0 ∧ l r = l2 s2
  noconf : ∀ s2, s2 ≠ 0 → (mapGet s.map s2).isSome → M2 (l2 s2) ≥ 0 → M1 (l2 s2) ≥ 0 → M2 (l2 s2) = M1 (l2 s2)

section
variable {n1 : Nat} {l1 : Nat → List Nat} {M1 : List Nat → Int} {d2 : LDfa} {l2 : Nat → List Nat}
  {M2 : List Nat → Int}

theorem UInv.setChanged {s : UState} {l : Nat → List Nat} {M : List Nat → Int}
    (h : UInv n1 l1 M1 d2 l2 M2 s l M) (b : Bool) : UInv n1 l1 M1 d2 l2 M2 { s with changed := b } l M :=
  ⟨h.trie, h.es, h.map0, h.mapOk, h.inD, h.outD, h.old, h.newst, h.noconf⟩

theorem edge_dst_ne_zero {d : LDfa} {label : Nat → List Nat} {M : List Nat → Int} (h : TrieInv d label M)
    {e : Edge} (he : e ∈ d.trans) : e.dst ≠ 0 := by
  intro h0
  obtain ⟨_, _, h3⟩ := h.edge e he
  rw [h0, h.label0] at h3
  simp at h3

theorem uniteEdge_inv (h2 : TrieInv d2 l2 M2) {e : Edge} (he : e ∈ d2.trans) {s s' : UState}
    {l : Nat → List Nat} {M : List Nat → Int} (inv : UInv n1 l1 M1 d2 l2 M2 s l M)
    (hr : uniteEdge d2 s e = .ok s') :
    ∃ l' M', UInv n1 l1 M1 d2 l2 M2 s' l' M' ∧
      (s'.changed = false → s.changed = false ∧ (∀ x, (mapGet s'.map x).isSome ↔ (mapGet s.map x).isSome) ∧
        ((mapGet s.map e.src).isSome → (mapGet s.map e.dst).isSome)) := by
  unfold uniteEdge at hr
  cases hsrc : mapGet s.map e.src with
  | none =>
    simp only [hsrc] at hr
    injection hr with hr
    subst hr
    exact ⟨l, M, inv, fun hc => ⟨hc, fun _ => Iff.rfl, by simp⟩⟩
  | some rs =>
    simp only [hsrc] at hr
    obtain ⟨hsrc2, hrs, hlrs⟩ := inv.mapOk e.src rs hsrc
    obtain ⟨_, hdst2, hedge2⟩ := h2.edge e he
    obtain ⟨l', htrie', hrlt, hlr, hold, hle, _, hnewl⟩ := addTransition_inv inv.trie hrs e.term
    have hes' : ES (addTransition s.res rs e.term).1.trans := inv.es.addTransition rs e.term
    generalize hres' : (addTransition s.res rs e.term).1 = res' at *
    generalize hrr : (addTransition s.res rs e.term).2 = r at *
    have hlr' : l' r = l2 e.dst := by rw [hlr, hlrs, hedge2]
    have hdst0 : e.dst ≠ 0 := edge_dst_ne_zero h2 he
    -- facts shared by both branches
    have hold' : ∀ r', r' < n1 → l' r' = l1 r' := by
      intro r' hr'
      rw [hold r' (by have := inv.old.1; omega)]
      exact inv.old.2 r' hr'
    have hnew' : ∀ r', n1 ≤ r' → r' < res'.prods.length → ∃ s2, s2 < d2.prods.length ∧ s2 ≠ 0 ∧ l' r' = l2 s2 := by
      intro r' h1 h2'
      by_cases hlt : r' < s.res.prods.length
      · obtain ⟨s2, ha, hb, hc⟩ := inv.newst r' h1 hlt
        exact ⟨s2, ha, hb, by rw [hold r' hlt]; exact hc⟩
      · refine ⟨e.dst, hdst2, hdst0, ?_⟩
        rw [hnewl r' (by omega) h2', hlrs, hedge2]
    cases hdst : mapGet s.map e.dst with
    | some r0 =>
      simp only [hdst, Option.isNone_some, Bool.false_eq_true, if_false] at hr
      injection hr with hr
      subst hr
      obtain ⟨_, hr0, hlr0⟩ := inv.mapOk e.dst r0 hdst
      have hr0r : r0 = r := by
        apply htrie'.label_inj (by omega) hrlt
        rw [hold r0 hr0, hlr0, hlr']
      have hmap : ∀ x, mapGet (mapSet s.map e.dst r) x = mapGet s.map x := by
        intro x
        rw [mapGet_mapSet]
        by_cases hx : x = e.dst
        · simp [hx, hdst, hr0r]
        · simp [hx]
      refine ⟨l', M, ⟨htrie', hes', ?_, ?_, ?_, ?_, ⟨by have := inv.old.1; simp only; omega, hold'⟩, hnew', ?_⟩, ?_⟩
      · simp only [hmap]; exact inv.map0
      · intro s2 r' hm
        simp only [hmap] at hm
        obtain ⟨ha, hb, hc⟩ := inv.mapOk s2 r' hm
        exact ⟨ha, by simp only; omega, by rw [hold r' hb]; exact hc⟩
      · intro s2 h0 hm
        simp only [hmap] at hm
        exact inv.inD s2 h0 hm
      · intro w hw
        apply inv.outD w
        intro s2 h0 hm
        exact hw s2 h0 (by simp only [hmap]; exact hm)
      · intro s2 h0 hm
        simp only [hmap] at hm
        exact inv.noconf s2 h0 hm
      · intro hc
        refine ⟨hc, fun x => by simp only [hmap], fun _ => by simp⟩
    | none =>
      simp only [hdst, Option.isNone_none, if_true] at hr
      have hop : d2.prods[e.dst]? = some (M2 (l2 e.dst)) := h2.prods e.dst hdst2
      have hrp : res'.prods[r]? = some (M (l2 e.dst)) := by rw [htrie'.prods r hrlt, hlr']
      rw [hop, hrp] at hr
      simp only at hr
      split at hr
      · cases hr
      · rename_i hnc
        injection hr with hr
        subst hr
        -- the word of `e.dst` belongs to no mapped state yet
        have hfresh : ∀ s2, s2 ≠ 0 → (mapGet s.map s2).isSome → l2 s2 ≠ l2 e.dst := by
          intro s2 _ hm he2
          obtain ⟨r2, hr2⟩ := Option.isSome_iff_exists.1 hm
          obtain ⟨hs2, _, _⟩ := inv.mapOk s2 r2 hr2
          have := h2.label_inj hs2 hdst2 he2
          rw [this, hdst] at hm
          cases hm
        have hM1 : M (l2 e.dst) = M1 (l2 e.dst) := inv.outD _ hfresh
        have htrie'' := setProd_inv htrie' hrlt (M2 (l2 e.dst)) res'.k
        rw [hlr'] at htrie''
        refine ⟨l', fun w => if w = l2 e.dst then M2 (l2 e.dst) else M w,
          ⟨htrie'', hes', ?_, ?_, ?_, ?_, ⟨by simp; have := inv.old.1; omega, hold'⟩, ?_, ?_⟩, ?_⟩
        · simp only [mapGet_mapSet]
          simp [Ne.symm hdst0, inv.map0]
        · intro s2 r' hm
          simp only [mapGet_mapSet] at hm
          by_cases hx : s2 = e.dst
          · simp only [hx, if_true, Option.some.injEq] at hm
            subst hm
            exact ⟨hx ▸ hdst2, by simpa using hrlt, by rw [hx]; exact hlr'⟩
          · simp only [hx, if_false] at hm
            obtain ⟨ha, hb, hc⟩ := inv.mapOk s2 r' hm
            exact ⟨ha, by simp; omega, by rw [hold r' hb]; exact hc⟩
        · intro s2 h0 hm
          simp only [mapGet_mapSet] at hm
          by_cases hx : s2 = e.dst
          · simp [hx]
          · simp only [hx, if_false] at hm
            have hne := hfresh s2 h0 hm
            simp only [hne, if_false]
            exact inv.inD s2 h0 hm
        · intro w hw
          have hwd : w ≠ l2 e.dst := by
            intro he2
            exact hw e.dst hdst0 (by simp [mapGet_mapSet]) he2.symm
          simp only [hwd, if_false]
          apply inv.outD w
          intro s2 h0 hm
          apply hw s2 h0
          simp only [mapGet_mapSet]
          by_cases hx : s2 = e.dst
          · simp [hx]
          · simpa [hx] using hm
        · intro r' h1 h2'
          exact hnew' r' h1 (by simpa using h2')
        · intro s2 h0 hm
          simp only [mapGet_mapSet] at hm
          by_cases hx : s2 = e.dst
          · subst hx
            intro ha hb
            rw [hM1] at hnc
            by_cases hc : M2 (l2 e.dst) = M1 (l2 e.dst)
            · exact hc
            · exact absurd ⟨ha, hb, hc⟩ hnc
          · simp only [hx, if_false] at hm
            exact inv.noconf s2 h0 hm
        · intro hc
          simp at hc

theorem uniteFold_inv (h2 : TrieInv d2 l2 M2) : ∀ (es : List Edge), (∀ e ∈ es, e ∈ d2.trans) →
    ∀ {s s' : UState} {l : Nat → List Nat} {M : List Nat → Int}, UInv n1 l1 M1 d2 l2 M2 s l M →
    es.foldlM (uniteEdge d2) s = .ok s' →
    ∃ l' M', UInv n1 l1 M1 d2 l2 M2 s' l' M' ∧
      (s'.changed = false → s.changed = false ∧ (∀ x, (mapGet s'.map x).isSome ↔ (mapGet s.map x).isSome) ∧
        ∀ e ∈ es, (mapGet s.map e.src).isSome → (mapGet s.map e.dst).isSome) := by
  intro es
  induction es with
  | nil =>
    intro _ s s' l M inv h
    simp only [List.foldlM_nil] at h
    injection h with h
    subst h
    exact ⟨l, M, inv, fun hc => ⟨hc, fun _ => Iff.rfl, by simp⟩⟩
  | cons e es ih =>
    intro hsub s s' l M inv h
    rw [foldlM_except_cons] at h
    cases h1 : uniteEdge d2 s e with
    | error err => rw [h1] at h; cases h
    | ok s1 =>
      rw [h1] at h
      have hrest : es.foldlM (uniteEdge d2) s1 = .ok s' := h
      obtain ⟨la, Ma, inva, hca⟩ := uniteEdge_inv h2 (hsub e List.mem_cons_self) inv h1
      obtain ⟨lb, Mb, invb, hcb⟩ := ih (fun e' he' => hsub e' (List.mem_cons_of_mem _ he')) inva hrest
      refine ⟨lb, Mb, invb, ?_⟩
      intro hc
      obtain ⟨hc1, hdom1, hcl1⟩ := hcb hc
      obtain ⟨hc0, hdom0, hcl0⟩ := hca hc1
      refine ⟨hc0, fun x => (hdom1 x).trans (hdom0 x), ?_⟩
      intro e' he'
      rcases List.mem_cons.1 he' with rfl | he'
      · exact hcl0
      · intro hs
        have := hcl1 e' he' ((hdom0 _).2 hs)
        exact (hdom0 _).1 this

theorem uniteLoop_inv (h2 : TrieInv d2 l2 M2) : ∀ (fuel : Nat) {s : UState} {d : LDfa}
    {l : Nat → List Nat} {M : List Nat → Int}, UInv n1 l1 M1 d2 l2 M2 s l M →
    uniteLoop d2 fuel s = .ok d →
    ∃ sf l' M', UInv n1 l1 M1 d2 l2 M2 sf l' M' ∧ sf.res = d ∧
      ∀ e ∈ d2.trans, (mapGet sf.map e.src).isSome → (mapGet sf.map e.dst).isSome := by
  intro fuel
  induction fuel with
  | zero => intro s d l M _ h; simp [uniteLoop] at h
  | succ fuel ih =>
    intro s d l M inv h
    simp only [uniteLoop] at h
    split at h
    · cases h
    · rename_i s' hp
      unfold unitePass at hp
      obtain ⟨l', M', inv', hc'⟩ := uniteFold_inv h2 d2.trans (fun _ h => h) (inv.setChanged false) hp
      split at h
      · exact ih inv' h
      · rename_i hch
        injection h with h
        have hcf : s'.changed = false := by simpa using hch
        obtain ⟨_, hdom, hcl⟩ := hc' hcf
        refine ⟨s', l', M', inv', h, ?_⟩
        intro e he hs
        exact (hdom _).2 (hcl e he ((hdom _).1 hs))

/-- All states of `other` are mapped when the loop ends. -/
theorem mapped_all (h2 : TrieInv d2 l2 M2) {m : List (Nat × Nat)} (h0 : (mapGet m 0).isSome)
    (hcl : ∀ e ∈ d2.trans, (mapGet m e.src).isSome → (mapGet m e.dst).isSome) :
    ∀ s2, s2 < d2.prods.length → (mapGet m s2).isSome := by
  have key : ∀ (w : List Nat) (a b : Nat), (mapGet m a).isSome → runL d2 a w = some b → (mapGet m b).isSome := by
    intro w
    induction w with
    | nil => intro a b ha hr; simp only [runL, Option.some.injEq] at hr; subst hr; exact ha
    | cons t w ih =>
      intro a b ha hr
      simp only [runL] at hr
      cases hl : lkp d2.trans a t with
      | none => simp [hl] at hr
      | some a' =>
        simp only [hl] at hr
        exact ih a' b (hcl _ (lkp_some_mem hl) ha) hr
  intro s2 hs2
  exact key (l2 s2) 0 s2 h0 (h2.reach s2 hs2)

/-- `unite` on tries. -/
theorem unite_inv {fixK : Bool} {d1 d2 d : LDfa} {l1 l2 : Nat → List Nat} {M1 M2 : List Nat → Int}
    (h1 : TrieInv d1 l1 M1) (e1 : ES d1.trans) (h2 : TrieInv d2 l2 M2)
    (h : unite fixK d1 d2 = .ok d) :
    ∃ l M, TrieInv d l M ∧ ES d.trans ∧
      (∀ s2, s2 < d2.prods.length → s2 ≠ 0 → M (l2 s2) = M2 (l2 s2)) ∧
      (∀ w, (∀ s2, s2 < d2.prods.length → s2 ≠ 0 → l2 s2 ≠ w) → M w = M1 w) ∧
      (∀ r, r < d1.prods.length → l r = l1 r) ∧
      (∀ r, r < d.prods.length → r < d1.prods.length ∨ ∃ s2, s2 < d2.prods.length ∧ s2 ≠ 0 ∧ l r = l2 s2) ∧
      (∀ s2, s2 < d2.prods.length → s2 ≠ 0 → M2 (l2 s2) ≥ 0 → M1 (l2 s2) ≥ 0 → M2 (l2 s2) = M1 (l2 s2)) := by
  unfold unite at h
  split at h
  · cases h
  · rename_i d' hl
    have inv0 : UInv d1.prods.length l1 M1 d2 l2 M2 ⟨d1, [(0, 0)], false⟩ l1 M1 := by
      have hm : ∀ x, mapGet [(0, 0)] x = if x = 0 then some 0 else none := by
        intro x
        simp only [mapGet, List.find?_cons, List.find?_nil]
        by_cases hx : x = 0
        · simp [hx]
        · have : ¬ (0 : Nat) = x := fun e => hx e.symm
          simp [hx, this]
      refine ⟨h1, e1, by simp [hm], ?_, ?_, ?_, ⟨Nat.le_refl _, fun _ _ => rfl⟩, ?_, ?_⟩
      · intro s2 r hmr
        rw [hm] at hmr
        by_cases hx : s2 = 0
        · simp only [hx, if_true, Option.some.injEq] at hmr
          subst hmr
          exact ⟨hx ▸ h2.pos, h1.pos, by rw [hx, h1.label0, h2.label0]⟩
        · simp [hx] at hmr
      · intro s2 h0 hmr
        rw [hm] at hmr; simp [h0] at hmr
      · intro w _; rfl
      · intro r ha hb; simp only at hb; omega
      · intro s2 h0 hmr
        rw [hm] at hmr; simp [h0] at hmr
    obtain ⟨sf, l, M, inv, hres, hcl⟩ := uniteLoop_inv h2 _ inv0 hl
    have hall := mapped_all h2 (by rw [inv.map0]; rfl) hcl
    have hmapped : ∀ s2, (mapGet sf.map s2).isSome → s2 < d2.prods.length := by
      intro s2 hm
      obtain ⟨r, hr⟩ := Option.isSome_iff_exists.1 hm
      exact (inv.mapOk s2 r hr).1
    have hd : d = if fixK then { d' with k := max d'.k d2.k } else d' := by
      injection h with h; exact h.symm
    have htr : TrieInv d l M ∧ ES d.trans ∧ d.prods.length = d'.prods.length := by
      rw [hd, ← hres]
      split
      · exact ⟨inv.trie.set_k _, inv.es, rfl⟩
      · exact ⟨inv.trie, inv.es, rfl⟩
    refine ⟨l, M, htr.1, htr.2.1, ?_, ?_, inv.old.2, ?_, ?_⟩
    · intro s2 hs2 h0
      exact inv.inD s2 h0 (hall s2 hs2)
    · intro w hw
      apply inv.outD w
      intro s2 h0 hm
      exact hw s2 (hmapped s2 hm) h0
    · intro r hr
      rw [htr.2.2, ← hres] at hr
      by_cases hlt : r < d1.prods.length
      · exact Or.inl hlt
      · exact Or.inr (inv.newst r (by omega) hr)
    · intro s2 hs2 h0
      exact inv.noconf s2 h0 (hall s2 hs2)

end

end ParolModel
