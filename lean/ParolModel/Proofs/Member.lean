import ParolModel.Model.Member
/-! Correctness of the membership recogniser: `member_iff`. -/
namespace ParolModel

theorem yield_nt_cons {G : Grammar} {A : Nat} {ss u v} (h1 : Yield G [.n A] u) (h2 : Yield G ss v) :
    Yield G (.n A :: ss) (u ++ v) := by
  obtain ⟨p, hp, rfl, hr⟩ := yield_nt_inv h1
  exact .nonterm p hp hr h2

theorem sub_self (w i) : sub w i i = [] := by simp [sub]

theorem sub_cons {w : List Nat} {i j a : Nat} (hij : i < j) (ha : w[i]? = some a) :
    sub w i j = a :: sub w (i+1) j := by
  unfold sub
  have hlt : i < w.length := by
    rcases Nat.lt_or_ge i w.length with h | h
    · exact h
    · simp [List.getElem?_eq_none h] at ha
  have : w.drop i = a :: w.drop (i+1) := by
    rw [List.drop_eq_getElem_cons hlt]
    have : w[i] = a := by
      rw [List.getElem?_eq_getElem hlt] at ha; exact Option.some.inj ha
    rw [this]
  rw [this]
  have : j - i = (j - (i+1)) + 1 := by omega
  rw [this, List.take_succ_cons]

theorem sub_append {w : List Nat} {i m j : Nat} (h1 : i ≤ m) (h2 : m ≤ j) :
    sub w i j = sub w i m ++ sub w m j := by
  unfold sub
  have e1 : j - i = (m - i) + (j - m) := by omega
  rw [e1, List.take_add]
  congr 2
  rw [List.drop_drop]
  congr 1
  omega

def SoundS (G : Grammar) (w : List Nat) (S : List Triple) : Prop :=
  ∀ A i j, (A, i, j) ∈ S → i ≤ j ∧ j ≤ w.length ∧ Yield G [.n A] (sub w i j)

theorem matchSeq_sound {G : Grammar} {w : List Nat} {S : List Triple} (hS : SoundS G w S) :
    ∀ ss i j, matchSeq S w ss i j = true → i ≤ j ∧ j ≤ w.length ∧ Yield G ss (sub w i j) := by
  intro ss
  induction ss with
  | nil =>
    intro i j h
    simp [matchSeq] at h
    obtain ⟨rfl, h2⟩ := h
    exact ⟨Nat.le_refl _, h2, by rw [sub_self]; exact .nil⟩
  | cons s ss ih =>
    intro i j h
    cases s with
    | t a =>
      simp [matchSeq] at h
      obtain ⟨⟨hij, ha⟩, hrest⟩ := h
      obtain ⟨h1, h2, h3⟩ := ih (i+1) j hrest
      refine ⟨Nat.le_of_lt hij, h2, ?_⟩
      rw [sub_cons hij ha]
      exact .term a h3
    | n A =>
      simp [matchSeq] at h
      obtain ⟨d, hd, hmem, hrest⟩ := h
      obtain ⟨h1, h2, h3⟩ := ih (i+d) j hrest
      obtain ⟨g1, g2, g3⟩ := hS A i (i+d) hmem
      refine ⟨by omega, h2, ?_⟩
      rw [sub_append (m := i+d) (by omega) h1]
      exact yield_nt_cons g3 h3

def Closed (G : Grammar) (w : List Nat) (S : List Triple) : Prop :=
  ∀ p, p ∈ G.prods → ∀ i j, matchSeq S w p.rhs i j = true → (p.lhs, i, j) ∈ S

theorem matchSeq_complete {G : Grammar} {w : List Nat} {S : List Triple} (hC : Closed G w S) :
    ∀ {ss u}, Yield G ss u → ∀ i, i + u.length ≤ w.length → sub w i (i + u.length) = u →
      matchSeq S w ss i (i + u.length) = true := by
  intro ss u h
  induction h with
  | nil => intro i hi _; simp [matchSeq]; exact hi
  | @term a ss u' _ ih =>
    intro i hi hsub
    have e : i + (a :: u').length = i + 1 + u'.length := by simp only [List.length_cons]; omega
    rw [e] at hi hsub ⊢
    have hlt : i < w.length := by omega
    have hc := sub_cons (w := w) (i := i) (j := i + 1 + u'.length) (a := w[i]) (by omega)
        (List.getElem?_eq_getElem hlt)
    rw [hc] at hsub
    injection hsub with h1 h2
    have ha : w[i]? = some a := by rw [List.getElem?_eq_getElem hlt, h1]
    have := ih (i+1) (by omega) h2
    simp only [matchSeq]
    simp [ha, this]
    omega
  | @nonterm p ss u1 u2 hp _ _ ih1 ih2 =>
    intro i hi hsub
    simp only [List.length_append] at hi hsub
    have hsplit := sub_append (w := w) (i := i) (m := i + u1.length) (j := i + (u1.length + u2.length))
      (by omega) (by omega)
    rw [hsplit] at hsub
    have hl1 : (sub w i (i + u1.length)).length = u1.length := by
      simp [sub]; omega
    have h1 : sub w i (i + u1.length) = u1 := (List.append_inj hsub hl1).1
    have h2 : sub w (i + u1.length) (i + (u1.length + u2.length)) = u2 := (List.append_inj hsub hl1).2
    have m1 := ih1 i (by omega) h1
    have e2 : i + (u1.length + u2.length) = i + u1.length + u2.length := by omega
    have m2 := ih2 (i + u1.length) (by omega) (by rw [← e2]; exact h2)
    have hmem := hC p hp i (i + u1.length) m1
    simp only [matchSeq, List.length_append]
    rw [List.any_eq_true]
    refine ⟨u1.length, ?_, ?_⟩
    · simp [List.mem_range]; omega
    · rw [e2]
      simp [hmem, m2]

theorem mem_candidates {G : Grammar} {w : List Nat} {p : Rule} {i j : Nat}
    (hp : p ∈ G.prods) (hi : i ≤ w.length) (hj : j ≤ w.length) : (p, i, j) ∈ candidates G w := by
  simp only [candidates, List.mem_flatMap, List.mem_map, List.mem_range]
  exact ⟨p, hp, i, by omega, j, by omega, rfl⟩

theorem sub_full (w : List Nat) : sub w 0 w.length = w := by simp [sub]

theorem newTriples_sound {G : Grammar} {w : List Nat} {S : List Triple} (hS : SoundS G w S) :
    SoundS G w (S ++ newTriples G w S) := by
  intro A i j hmem
  rcases List.mem_append.1 hmem with h | h
  · exact hS A i j h
  · simp only [newTriples, List.mem_filterMap] at h
    obtain ⟨⟨p, i', j'⟩, hc, hx⟩ := h
    split at hx
    · rename_i hcond
      simp only [Bool.and_eq_true] at hcond
      injection hx with hx
      injection hx with h1 hx
      injection hx with h2 h3
      subst h1 h2 h3
      obtain ⟨b1, b2, hy⟩ := matchSeq_sound hS p.rhs i' j' hcond.1
      have hp : p ∈ G.prods := by
        simp only [candidates, List.mem_flatMap, List.mem_map] at hc
        obtain ⟨q, hq, _, _, _, _, he⟩ := hc
        injection he with he _
        exact he ▸ hq
      refine ⟨b1, b2, ?_⟩
      have := Yield.nonterm p hp hy (.nil (G := G))
      simpa using this
    · cases hx

theorem closed_of_no_new {G : Grammar} {w : List Nat} {S : List Triple} (hS : SoundS G w S)
    (h : (newTriples G w S).isEmpty = true) : Closed G w S := by
  intro p hp i j hm
  obtain ⟨b1, b2, _⟩ := matchSeq_sound hS p.rhs i j hm
  have hc := mem_candidates (G := G) (w := w) hp (by omega : i ≤ w.length) b2
  rw [List.isEmpty_iff] at h
  rcases hcont : S.contains (p.lhs, i, j) with _ | _
  · exfalso
    have : (p.lhs, i, j) ∈ newTriples G w S := by
      simp only [newTriples, List.mem_filterMap]
      refine ⟨(p, i, j), hc, ?_⟩
      have hnm : (p.lhs, i, j) ∉ S := by
        intro hmem; simp [hmem] at hcont
      simp [hm, hnm]
    rw [h] at this
    cases this
  · simpa using hcont

theorem iterate_spec {G : Grammar} {w : List Nat} : ∀ f S S', SoundS G w S →
    iterate G w f S = some S' → SoundS G w S' ∧ Closed G w S' := by
  intro f
  induction f with
  | zero => intro S S' _ h; simp [iterate] at h
  | succ f ih =>
    intro S S' hS h
    simp only [iterate] at h
    split at h
    · rename_i he
      injection h with h; subst h
      exact ⟨hS, closed_of_no_new hS he⟩
    · exact ih _ _ (newTriples_sound hS) h

theorem member_iff {G : Grammar} {w : List Nat} {fuel : Nat} {b : Bool}
    (h : member G w fuel = some b) : b = true ↔ Lang G w := by
  simp only [member, Option.map_eq_some_iff] at h
  obtain ⟨S, hit, rfl⟩ := h
  obtain ⟨hs, hc⟩ := iterate_spec fuel [] S (by intro A i j hm; cases hm) hit
  constructor
  · intro hb
    have hm : (G.start, 0, w.length) ∈ S := by simpa using hb
    have := (hs _ _ _ hm).2.2
    rwa [sub_full] at this
  · intro hl
    obtain ⟨p, hp, hl', hr⟩ := yield_nt_inv hl
    have hm := matchSeq_complete hc hr 0 (by omega) (by simpa using sub_full w)
    have := hc p hp 0 (0 + w.length) hm
    rw [hl'] at this
    simpa using this

end ParolModel
