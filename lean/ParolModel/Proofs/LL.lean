import ParolModel.Model.LL
import ParolModel.Proofs.LaDfa
/-! Proofs about the LL(k) parser model: soundness of acceptance for arbitrary prediction automata. -/
namespace ParolModel

def ptSym : PT → Option Sym
  | .t a => some (.t a)
  | .n a => some (.n a)
  | .e _ => none

/-- Grammar symbols of a parser stack, top first (end-of-production markers dropped). -/
def stackSyms (st : List PT) : List Sym := st.filterMap ptSym

def ruleOf (p : LLProd) : Rule := ⟨p.lhs, stackSyms p.rhsRev.reverse⟩

/-- The grammar the generated tables denote. -/
def gOf (T : LLTables) : Grammar := ⟨T.start, T.prods.map ruleOf⟩

@[simp] theorem stackSyms_nil : stackSyms [] = [] := rfl
@[simp] theorem stackSyms_t (a st) : stackSyms (.t a :: st) = .t a :: stackSyms st := rfl
@[simp] theorem stackSyms_n (a st) : stackSyms (.n a :: st) = .n a :: stackSyms st := rfl
@[simp] theorem stackSyms_e (p st) : stackSyms (.e p :: st) = stackSyms st := rfl

theorem stackSyms_append (a b : List PT) : stackSyms (a ++ b) = stackSyms a ++ stackSyms b := by
  simp [stackSyms, List.filterMap_append]

/-- Significant token types of an input. -/
def sigTypes (inp : List MTok) : List Nat := (sigToks inp).map (·.ty)

/-- Every production an automaton of non-terminal `a` can predict is a production of `a`, and no
    right-hand side contains the end-of-input terminal `T(0)`. This is all soundness needs. -/
structure TablesSound (T : LLTables) : Prop where
  lhs_ok : ∀ (a : Nat) (d : LaDfa), T.dfas[a]? = some d → ∀ (p : Int),
    (p = d.prod0 ∨ ∃ tr ∈ d.trans, tr.prod = p) → p > -1 →
    ∀ pr, T.prods[p.toNat]? = some pr → pr.lhs = a
  no_eoi : ∀ pr ∈ T.prods, PT.t 0 ∉ pr.rhsRev

theorem scan_mem (state tok : Nat) : ∀ (l : List Trans) (seen : Bool) (tr : Trans),
    scan state tok l seen = some tr → tr ∈ l := by
  intro l
  induction l with
  | nil => intro seen tr h; simp [scan] at h
  | cons x rest ih =>
    intro seen tr h
    simp only [scan] at h
    split at h
    · split at h
      · cases h
      · exact List.mem_cons_of_mem _ (ih _ _ h)
    · split at h
      · injection h with h; subst h; exact List.mem_cons_self
      · split at h
        · cases h
        · exact List.mem_cons_of_mem _ (ih _ _ h)

/-- The production numbers the loop state holds stem from `prod0` or from a transition. -/
def fromDfa (d : LaDfa) (p : Int) : Prop := p = d.prod0 ∨ (∃ tr ∈ d.trans, tr.prod = p) ∨ p = -1

theorem evalLoop_from (d : LaDfa) (stop : Bool) : ∀ (la : List Nat) (s : St),
    fromDfa d s.prodNum → fromDfa d s.lastProd →
    fromDfa d (evalLoop d stop la s).prodNum ∧ fromDfa d (evalLoop d stop la s).lastProd := by
  intro la
  induction la with
  | nil => intro s h1 h2; exact ⟨h1, h2⟩
  | cons tok rest ih =>
    intro s h1 h2
    simp only [evalLoop]
    cases hsc : scan s.state tok d.trans false with
    | none =>
      simp only []
      cases stop with
      | true => exact ⟨h1, h2⟩
      | false => exact ih s h1 h2
    | some tr =>
      simp only []
      have hm := scan_mem _ _ _ _ _ hsc
      have htr : fromDfa d tr.prod := Or.inr (Or.inl ⟨tr, hm, rfl⟩)
      apply ih
      · split <;> exact htr
      · split
        · exact htr
        · exact h2

theorem eval_ok_from (d : LaDfa) (stop : Bool) (la : List Nat) (p : Int) (h : eval d stop la = .ok p) :
    (p = d.prod0 ∨ ∃ tr ∈ d.trans, tr.prod = p) ∧ p > -1 := by
  unfold eval at h
  have h0 : fromDfa d (evalInit d).prodNum := Or.inl rfl
  have h1 : fromDfa d (evalInit d).lastProd := Or.inr (Or.inr rfl)
  obtain ⟨ha, hb⟩ := evalLoop_from d stop (la.take d.k) (evalInit d) h0 h1
  generalize evalLoop d stop (la.take d.k) (evalInit d) = s at h ha hb
  simp only at h
  split at h
  · rename_i hp
    injection h with h; subst h
    refine ⟨?_, hp⟩
    rcases ha with h | h | h
    · exact Or.inl h
    · exact Or.inr h
    · omega
  · split at h
    · split at h
      · rename_i hl
        injection h with h; subst h
        refine ⟨?_, hl⟩
        rcases hb with h | h | h
        · exact Or.inl h
        · exact Or.inr h
        · omega
      · cases h
    · cases h

theorem sigToks_cons_skip {t : MTok} {rest : List MTok} (h : t.skip = true) :
    sigToks (t :: rest) = sigToks rest := by simp [sigToks, h]

theorem sigToks_cons_sig {t : MTok} {rest : List MTok} (h : t.skip = false) :
    sigToks (t :: rest) = t :: sigToks rest := by simp [sigToks, h]

/-- `drainSkips` removes exactly the leading skip tokens: the significant tokens are untouched and
    the rest starts with the first significant token (if any). -/
theorem drainSkips_spec (o : Opts) : ∀ (inp : List MTok) (tr : List TreeEv) (cm : List Nat),
    sigToks (drainSkips o inp tr cm).1 = sigToks inp ∧
    (∀ tok, firstSig inp = some tok → ∃ rest, (drainSkips o inp tr cm).1 = tok :: rest ∧ tok.skip = false) ∧
    (firstSig inp = none → (drainSkips o inp tr cm).1 = []) := by
  intro inp
  induction inp with
  | nil => intro tr cm; simp [drainSkips, firstSig, sigToks]
  | cons t rest ih =>
    intro tr cm
    simp only [drainSkips]
    by_cases hs : t.skip = true
    · simp only [hs, if_true]
      obtain ⟨h1, h2, h3⟩ := ih (if o.trim then tr else .tok t.id :: tr) (if t.comment then t.id :: cm else cm)
      refine ⟨by rw [h1, sigToks_cons_skip hs], ?_, ?_⟩
      · intro tok htok
        apply h2
        simpa [firstSig, sigToks_cons_skip hs] using htok
      · intro hn
        apply h3
        simpa [firstSig, sigToks_cons_skip hs] using hn
    · have hs' : t.skip = false := by simpa using hs
      simp only [hs', Bool.false_eq_true, if_false]
      refine ⟨by trivial, ?_, ?_⟩
      · intro tok htok
        simp [firstSig, sigToks_cons_sig hs'] at htok
        subst htok
        exact ⟨rest, rfl, hs'⟩
      · intro hn
        simp [firstSig, sigToks_cons_sig hs'] at hn

theorem finish_ok (o : Opts) (s : LLState) (err : Option (Option Nat)) (steps : Nat)
    (h : (finish o s err steps).res = .ok) : err = none ∧ sigToks s.input = [] := by
  unfold finish at h
  obtain ⟨h1, _, _⟩ := drainSkips_spec o s.input s.tree s.comments
  generalize drainSkips o s.input s.tree s.comments = r at h h1
  obtain ⟨inp, tr, cm⟩ := r
  simp only at h h1
  cases err with
  | some e => simp at h
  | none =>
    refine ⟨by trivial, ?_⟩
    simp only at h
    cases hf : firstSig inp with
    | some t => simp [hf] at h
    | none =>
      rw [← h1]
      simpa [firstSig, List.head?_eq_none_iff] using hf

theorem abort_not_ok (s : LLState) (r : Res) (steps : Nat) (hr : r ≠ .ok) :
    (abort s r steps).res ≠ .ok := by simpa [abort] using hr

theorem inputAccepted_iff (st : List PT) : inputAccepted st = true ↔ st = [] ∨ st = [.t 0] := by
  unfold inputAccepted
  split <;> simp_all

theorem pushProduction_spec {T : LLTables} {o : Opts} {s s' : LLState} {p : Nat} {r : Option Res}
    (h : pushProduction T o s p = some (s', r)) :
    ∃ pr, T.prods[p]? = some pr ∧ s'.stack = pr.rhsRev.reverse ++ (.e p :: s.stack) ∧
      s'.input = s.input ∧ r ≠ some .ok := by
  unfold pushProduction at h
  cases hpr : T.prods[p]? with
  | none => simp [hpr] at h
  | some pr =>
    refine ⟨pr, rfl, ?_⟩
    simp only [hpr] at h
    cases hm : o.maxDepth with
    | none =>
      simp only [hm, Option.some.injEq, Prod.mk.injEq] at h
      obtain ⟨h1, h2⟩ := h
      subst h1; subst h2
      exact ⟨rfl, rfl, by simp⟩
    | some m =>
      simp only [hm] at h
      split at h <;> split at h <;>
      · injection h with h
        injection h with h1 h2
        subst h1; subst h2
        exact ⟨rfl, rfl, by simp⟩

/-- **Soundness of the loop**: if the loop ends with `ok`, the grammar symbols on the parser stack
    derive exactly the remaining significant token types. Holds for ARBITRARY lookahead automata
    (only `TablesSound` is assumed). -/
theorem llLoop_sound (T : LLTables) (o : Opts) (hT : TablesSound T) :
    ∀ (fuel : Nat) (s : LLState) (steps : Nat), PT.t 0 ∉ s.stack →
    (llLoop T o fuel s steps).res = .ok →
    Yield (gOf T) (stackSyms s.stack) (sigTypes s.input) := by
  intro fuel
  induction fuel with
  | zero => intro s steps _ h; simp [llLoop, abort] at h
  | succ fuel ih =>
    intro s steps hno h
    unfold llLoop at h
    split at h
    · -- input accepted
      rename_i hacc
      obtain ⟨_, hsig⟩ := finish_ok o s none steps h
      have hst : s.stack = [] := by
        rcases (inputAccepted_iff _).1 hacc with h0 | h0
        · exact h0
        · rw [h0] at hno; simp at hno
      simp [hst, sigTypes, hsig]
      exact .nil
    · split at h
      · -- empty stack (unreachable: inputAccepted [] = true)
        rename_i hs
        obtain ⟨_, hsig⟩ := finish_ok o s none steps h
        simp [hs, sigTypes, hsig]; exact .nil
      · -- terminal on top
        rename_i a st hs
        split at h
        · rename_i tok hf
          split at h
          · rename_i hty
            obtain ⟨h1, h2, _⟩ := drainSkips_spec o s.input s.tree s.comments
            obtain ⟨rest, hrest, hskip⟩ := h2 tok hf
            generalize hd : drainSkips o s.input s.tree s.comments = r at h h1 hrest
            obtain ⟨inp, tr, cm⟩ := r
            simp only at h h1 hrest
            have hno' : PT.t 0 ∉ st := by rw [hs] at hno; exact fun hm => hno (List.mem_cons_of_mem _ hm)
            have := ih _ _ hno' h
            simp only [sigTypes] at this ⊢
            rw [hs, ← h1, hrest, sigToks_cons_sig hskip]
            simp only [hrest, List.drop_one, List.tail_cons] at this
            simp only [stackSyms_t, List.map_cons]
            rw [hty]
            exact .term a this
          · exact absurd (finish_ok o s _ steps h).1 (by simp)
        · split at h
          · exact absurd h (abort_not_ok _ _ _ (by simp))
          · exact absurd (finish_ok o s _ steps h).1 (by simp)
      · -- non-terminal on top
        rename_i a st hs
        split at h
        · rename_i p hp
          split at h
          · exact absurd h (abort_not_ok _ _ _ (by simp))
          · rename_i hpos
            split at h
            · rename_i s' hpush
              obtain ⟨pr, hpr, hst', hin', _⟩ := pushProduction_spec hpush
              simp only at hst'
              have hmemp : pr ∈ T.prods := List.mem_of_getElem? hpr
              have hno' : PT.t 0 ∉ s'.stack := by
                rw [hst']
                intro hm
                rcases List.mem_append.1 hm with hm | hm
                · exact hT.no_eoi pr hmemp (by simpa using hm)
                · rcases List.mem_cons.1 hm with hm | hm
                  · cases hm
                  · rw [hs] at hno; exact hno (List.mem_cons_of_mem _ hm)
              have hy := ih s' _ hno' h
              rw [hst', hin', stackSyms_append] at hy
              obtain ⟨u, v, huv, hu, hv⟩ := Yield.split hy
              -- the predicted production belongs to `a`
              unfold predict at hp
              cases hd : T.dfas[a]? with
              | none => simp [hd] at hp
              | some d =>
                simp only [hd, Option.some.injEq] at hp
                obtain ⟨hfrom, hgt⟩ := eval_ok_from d true _ p hp
                have hlhs := hT.lhs_ok a d hd p hfrom hgt pr hpr
                have hmem : ruleOf pr ∈ (gOf T).prods := by
                  simp only [gOf, List.mem_map]; exact ⟨pr, hmemp, rfl⟩
                have hv' : Yield (gOf T) (stackSyms st) v := by simpa using hv
                have := Yield.nonterm (ruleOf pr) hmem hu hv'
                simp only [sigTypes] at huv ⊢
                rw [hs, huv]
                simpa [ruleOf, hlhs] using this
            · rename_i s' r hpush
              obtain ⟨_, _, _, _, hr⟩ := pushProduction_spec hpush
              exact absurd h (abort_not_ok _ _ _ (fun e => hr (by rw [e])))
            · exact absurd h (abort_not_ok _ _ _ (by simp))
        · exact absurd (finish_ok o s _ steps h).1 (by simp)
        · exact absurd h (abort_not_ok _ _ _ (by simp))
      · -- end-of-production marker
        rename_i p st hs
        split at h
        · exact absurd h (abort_not_ok _ _ _ (by simp))
        · rename_i pr hpr
          simp only [] at h
          by_cases hlen : s.ptStack.length < pr.rhsRev.length
          · rw [if_pos hlen] at h
            exact absurd h (abort_not_ok _ _ _ (by simp))
          · rw [if_neg hlen] at h
            have hno' : PT.t 0 ∉ st := by rw [hs] at hno; exact fun hm => hno (List.mem_cons_of_mem _ hm)
            have := ih _ _ hno' h
            rw [hs]
            simpa using this

end ParolModel
