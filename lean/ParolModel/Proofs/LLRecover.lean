import ParolModel.Model.LLRecover
import ParolModel.Proofs.LLTree
/-! Lemmas about the model of `parse_into` with recovery (Model/LLRecover.lean), for Props/C01e.lean.

* `addError_ne_nil`: after `add_error` — whatever it returns — `error_entries` is not empty.
* `rLoop_errs_not_ok`: with a recovery oracle that never drains, a loop that is entered with a
  non-empty `error_entries` never ends with `ok`.
* `rLoop_nil_ok`: a loop entered with empty `error_entries` that ends with `ok` took exactly the steps of
  `llLoop` (no error occurred), so the whole output coincides.
* `rLoop_off`: with recovery disabled the loop IS `llLoop`. -/
namespace ParolModel

theorem addError_ne_nil (errs : List ErrLoc) (l : ErrLoc) : (addError errs l).1 ≠ [] := by
  unfold addError
  split
  · rename_i h
    intro he
    simp only at he
    rw [he] at h
    simp at h
  · split <;> simp

theorem addError_nil (l : ErrLoc) : addError [] l = ([l], .ok) := by
  simp [addError]

theorem handleTokenMismatch_ne_nil (o : Opts) (R : Recovery) (a : Nat) (s : LLState) (errs : List ErrLoc)
    (loc : ErrLoc) : (handleTokenMismatch o R a s errs loc).1 ≠ [] := by
  have h := addError_ne_nil errs loc
  unfold handleTokenMismatch
  split
  · rename_i errs' heq
    rw [heq] at h
    split
    · split <;> exact h
    · exact h
  · rename_i errs' _ heq
    rw [heq] at h
    exact h

theorem handlePredictionError_ne_nil (o : Opts) (R : Recovery) (hnd : R.NoDrain) (a : Nat) (s : LLState)
    (errs : List ErrLoc) (loc : ErrLoc) : (handlePredictionError o R a s errs loc).1 ≠ [] := by
  have h := addError_ne_nil errs loc
  unfold handlePredictionError
  split
  · rename_i errs' heq
    rw [heq] at h
    split
    · split
      · exact h
      · exact h
      · rename_i s' hd
        exact absurd hd (hnd _ _ _ _)
    · exact h
  · rename_i errs' _ heq
    rw [heq] at h
    exact h

theorem tokMismatch_fst_ne_nil {o : Opts} {R : Recovery} {a : Nat} {s : LLState} {errs : List ErrLoc}
    {loc : ErrLoc} {errs' : List ErrLoc} {s' : LLState} {b : Bool}
    (heq : handleTokenMismatch o R a s errs loc = (errs', s', b)) : errs' ≠ [] := by
  have := handleTokenMismatch_ne_nil o R a s errs loc
  rw [heq] at this; exact this

theorem predError_fst_ne_nil {o : Opts} {R : Recovery} (hnd : R.NoDrain) {a : Nat} {s : LLState}
    {errs : List ErrLoc} {loc : ErrLoc} {errs' : List ErrLoc} {x : PredOutcome}
    (heq : handlePredictionError o R a s errs loc = (errs', x)) : errs' ≠ [] := by
  have := handlePredictionError_ne_nil o R hnd a s errs loc
  rw [heq] at this; exact this

theorem rFinish_errs_not_ok (o : Opts) (s : LLState) (errs : List ErrLoc) (steps : Nat) (he : errs ≠ []) :
    (rFinish o s errs steps).res ≠ .ok := by
  cases errs with
  | nil => exact absurd rfl he
  | cons e rest => exact finish_err_res o s e steps

theorem rFinish_nil (o : Opts) (s : LLState) (steps : Nat) : rFinish o s [] steps = finish o s none steps := rfl

/-- **Once an error entry exists the parse cannot succeed** (if the recovery never drains the
    entries): every exit of the loop is `Err`. -/
theorem rLoop_errs_not_ok (T : LLTables) (o : Opts) (R : Recovery) (hnd : R.NoDrain) :
    ∀ (fuel : Nat) (s : LLState) (errs : List ErrLoc) (steps : Nat), errs ≠ [] →
    (rLoop T o R fuel s errs steps).res ≠ .ok := by
  intro fuel
  induction fuel with
  | zero => intro s errs steps _; simp [rLoop, abort]
  | succ fuel ih =>
    intro s errs steps he
    unfold rLoop
    split
    · exact rFinish_errs_not_ok o s errs steps he
    · split
      · exact rFinish_errs_not_ok o s errs steps he
      · -- terminal
        split
        · split
          · rw [drainSkips_eq]; exact ih _ _ _ he
          · split
            · rename_i errs' s' heq; exact ih _ _ _ (tokMismatch_fst_ne_nil heq)
            · rename_i errs' s' heq; exact rFinish_errs_not_ok o s' errs' steps (tokMismatch_fst_ne_nil heq)
        · split
          · simp [abort_res]
          · split
            · rename_i errs' s' heq; exact ih _ _ _ (tokMismatch_fst_ne_nil heq)
            · rename_i errs' s' heq; exact rFinish_errs_not_ok o s' errs' steps (tokMismatch_fst_ne_nil heq)
      · -- non-terminal
        split
        · split
          · simp [abort_res]
          · split
            · exact ih _ _ _ he
            · rename_i s' r hpush
              obtain ⟨_, _, _, _, hr⟩ := pushProduction_spec hpush
              simp only [abort_res]
              intro h; exact hr (by rw [h])
            · simp [abort_res]
        · split
          · rename_i errs' s' p heq
            have hne := predError_fst_ne_nil hnd heq
            split
            · exact ih _ _ _ hne
            · rename_i s'' r hpush
              obtain ⟨_, _, _, _, hr⟩ := pushProduction_spec hpush
              simp only [abort_res]
              intro h; exact hr (by rw [h])
            · simp [abort_res]
          · rename_i errs' s' heq
            exact rFinish_errs_not_ok o s' errs' steps (predError_fst_ne_nil hnd heq)
        · simp [abort_res]
      · -- end-of-production marker
        split
        · simp [abort_res]
        · simp only []
          split
          · simp [abort_res]
          · exact ih _ _ _ he

/-- **A successful run with recovery never entered recovery**: if the loop, started with empty
    `error_entries`, ends with `ok`, its whole output is that of the plain loop `llLoop`. -/
theorem rLoop_nil_ok (T : LLTables) (o : Opts) (R : Recovery) (hnd : R.NoDrain) :
    ∀ (fuel : Nat) (s : LLState) (steps : Nat), (rLoop T o R fuel s [] steps).res = .ok →
    rLoop T o R fuel s [] steps = llLoop T o fuel s steps := by
  intro fuel
  induction fuel with
  | zero => intro s steps _; rfl
  | succ fuel ih =>
    intro s steps
    unfold rLoop llLoop
    cases hacc : inputAccepted s.stack with
    | true => intro _; simp [rFinish_nil]
    | false =>
      simp only [Bool.false_eq_true, if_false]
      cases hst : s.stack with
      | nil => intro _; rfl
      | cons x st =>
        cases x with
        | t a =>
          simp only []
          cases hf : firstSig s.input with
          | none =>
            simp only []
            split
            · intro _; rfl
            · intro hok
              exfalso
              revert hok
              split
              · rename_i errs' s' heq; exact rLoop_errs_not_ok T o R hnd _ _ _ _ (tokMismatch_fst_ne_nil heq)
              · rename_i errs' s' heq; exact rFinish_errs_not_ok o s' errs' steps (tokMismatch_fst_ne_nil heq)
          | some tok =>
            simp only []
            split
            · exact ih _ _
            · intro hok
              exfalso
              revert hok
              split
              · rename_i errs' s' heq; exact rLoop_errs_not_ok T o R hnd _ _ _ _ (tokMismatch_fst_ne_nil heq)
              · rename_i errs' s' heq; exact rFinish_errs_not_ok o s' errs' steps (tokMismatch_fst_ne_nil heq)
        | n a =>
          simp only []
          cases hp : predict T a s.input with
          | none => intro _; rfl
          | some er =>
            cases er with
            | ok p =>
              simp only []
              split
              · intro _; rfl
              · split
                · rename_i heq; simp only [heq]; exact ih _ _
                · rename_i heq; simp only [heq]; intro _; trivial
                · rename_i heq; simp only [heq]; intro _; trivial
            | predictError =>
              simp only []
              intro hok
              exfalso
              revert hok
              split
              · rename_i errs' s' p heq
                have hne := predError_fst_ne_nil hnd heq
                split
                · exact rLoop_errs_not_ok T o R hnd _ _ _ _ hne
                · rename_i s'' r hpush
                  obtain ⟨_, _, _, _, hr⟩ := pushProduction_spec hpush
                  simp only [abort_res]
                  intro h; exact hr (by rw [h])
                · simp [abort_res]
              · rename_i errs' s' heq
                exact rFinish_errs_not_ok o s' errs' steps (predError_fst_ne_nil hnd heq)
            | assertFail => intro _; rfl
        | e p =>
          simp only []
          cases hpr : T.prods[p]? with
          | none => intro _; rfl
          | some pr =>
            simp only []
            split
            · intro _; rfl
            · exact ih _ _

theorem handleTokenMismatch_off (o : Opts) (R : Recovery) (hrec : o.recovery = false) (a : Nat) (s : LLState)
    (loc : ErrLoc) : handleTokenMismatch o R a s [] loc = ([loc], s, false) := by
  simp [handleTokenMismatch, addError_nil, hrec]

theorem handlePredictionError_off (o : Opts) (R : Recovery) (hrec : o.recovery = false) (a : Nat) (s : LLState)
    (loc : ErrLoc) : handlePredictionError o R a s [] loc = ([loc], .stop s) := by
  simp [handlePredictionError, addError_nil, hrec]

/-- **With recovery disabled the loop is `llLoop`**, for every oracle (it is never consulted). -/
theorem rLoop_off (T : LLTables) (o : Opts) (R : Recovery) (hrec : o.recovery = false) :
    ∀ (fuel : Nat) (s : LLState) (steps : Nat), rLoop T o R fuel s [] steps = llLoop T o fuel s steps := by
  intro fuel
  induction fuel with
  | zero => intro s steps; rfl
  | succ fuel ih =>
    intro s steps
    unfold rLoop llLoop
    cases hacc : inputAccepted s.stack with
    | true => simp [rFinish_nil]
    | false =>
      simp only [Bool.false_eq_true, if_false]
      cases hst : s.stack with
      | nil => rfl
      | cons x st =>
        cases x with
        | t a =>
          simp only []
          cases hf : firstSig s.input with
          | none =>
            simp only []
            split
            · rfl
            · rw [handleTokenMismatch_off o R hrec]; rfl
          | some tok =>
            simp only []
            split
            · exact ih _ _
            · rw [handleTokenMismatch_off o R hrec]; rfl
        | n a =>
          simp only []
          cases hp : predict T a s.input with
          | none => rfl
          | some er =>
            cases er with
            | ok p =>
              simp only []
              split
              · rfl
              · split
                · rename_i heq; simp only [heq]; exact ih _ _
                · rename_i heq; simp only [heq]
                · rename_i heq; simp only [heq]
            | predictError =>
              simp only []
              rw [handlePredictionError_off o R hrec]; rfl
            | assertFail => rfl
        | e p =>
          simp only []
          cases hpr : T.prods[p]? with
          | none => rfl
          | some pr =>
            simp only []
            split
            · rfl
            · exact ih _ _

/-- **Recovery is not entered on a successful plain run**: if `llLoop` ends with `ok`, the loop with
    recovery takes the same steps, for every oracle. -/
theorem rLoop_of_llLoop_ok (T : LLTables) (o : Opts) (R : Recovery) :
    ∀ (fuel : Nat) (s : LLState) (steps : Nat), (llLoop T o fuel s steps).res = .ok →
    rLoop T o R fuel s [] steps = llLoop T o fuel s steps := by
  intro fuel
  induction fuel with
  | zero => intro s steps _; rfl
  | succ fuel ih =>
    intro s steps
    unfold rLoop llLoop
    cases hacc : inputAccepted s.stack with
    | true => intro _; simp [rFinish_nil]
    | false =>
      simp only [Bool.false_eq_true, if_false]
      cases hst : s.stack with
      | nil => intro _; rfl
      | cons x st =>
        cases x with
        | t a =>
          simp only []
          cases hf : firstSig s.input with
          | none =>
            simp only []
            split
            · intro _; rfl
            · intro hok; exact absurd hok (finish_err_res _ _ _ _)
          | some tok =>
            simp only []
            split
            · exact ih _ _
            · intro hok; exact absurd hok (finish_err_res _ _ _ _)
        | n a =>
          simp only []
          cases hp : predict T a s.input with
          | none => intro _; rfl
          | some er =>
            cases er with
            | ok p =>
              simp only []
              split
              · intro _; rfl
              · split
                · rename_i heq; simp only [heq]; exact ih _ _
                · rename_i heq; simp only [heq]; intro _; trivial
                · rename_i heq; simp only [heq]; intro _; trivial
            | predictError =>
              simp only []
              intro hok; exact absurd hok (finish_err_res _ _ _ _)
            | assertFail => intro _; rfl
        | e p =>
          simp only []
          cases hpr : T.prods[p]? with
          | none => intro _; rfl
          | some pr =>
            simp only []
            split
            · intro _; rfl
            · exact ih _ _

end ParolModel
