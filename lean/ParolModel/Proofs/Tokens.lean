import ParolModel.Model.Tokens
/-! The read-ahead of `TokenStream` only buffers: whatever `k` and the access schedule, the tokens
handed to the parser are the scanner matches with the gaps filled, up to the first EOI (C13). -/
namespace ParolModel.TokStream
open ParolModel

def gapTok (a b : Nat) : LTok := ⟨invalidTy, a, b, false⟩
def addTail (le : Nat) (t : LTok) : List LTok := if le < t.start then [gapTok le t.start, t] else [t]
def fill : Nat → List LTok → List LTok
  | _, [] => []
  | le, t :: l => addTail le t ++ fill t.stop l
def addAll (b : TBuf) (l : List LTok) : TBuf := l.foldl TBuf.add b

theorem add_toks (b : TBuf) (t : LTok) : (b.add t).toks = b.toks ++ addTail b.lastEnd t := by
  simp only [TBuf.add, addTail, gapTok]
  split <;> simp

theorem add_lastEnd (b : TBuf) (t : LTok) : (b.add t).lastEnd = t.stop := rfl

theorem addAll_toks : ∀ (l : List LTok) (b : TBuf), (addAll b l).toks = b.toks ++ fill b.lastEnd l := by
  intro l
  induction l with
  | nil => intro b; simp [addAll, fill]
  | cons t l ih =>
    intro b
    have := ih (b.add t)
    simp only [addAll, List.foldl_cons] at this ⊢
    rw [this, add_toks, add_lastEnd]
    simp [fill]

def ns (l : List LTok) : Nat := (l.filter (!·.effSkip)).length
theorem ns_append (a b : List LTok) : ns (a ++ b) = ns a + ns b := by simp [ns]
theorem gap_effSkip (a b : Nat) : (gapTok a b).effSkip = true := by simp [gapTok, LTok.effSkip, isSkipTy]

theorem ns_cons (t : LTok) (l : List LTok) : ns (t :: l) = bumpRead t 0 + ns l := by
  cases h : t.effSkip <;> simp [ns, bumpRead, h] <;> omega

theorem bumpRead_eq (t : LTok) (r : Nat) : bumpRead t r = r + bumpRead t 0 := by
  simp only [bumpRead]; split <;> omega

theorem ns_addTail (le : Nat) (t : LTok) : ns (addTail le t) = bumpRead t 0 := by
  simp only [addTail]
  split
  · rw [ns_cons, ns_cons]; simp [bumpRead, gap_effSkip, ns]
  · rw [ns_cons]; simp [ns]

theorem len_add (b : TBuf) (t : LTok) : (b.add t).len = b.len + bumpRead t 0 := by
  have := ns_addTail b.lastEnd t
  simp only [TBuf.len, add_toks]
  simp only [ns] at this
  rw [List.filter_append, List.length_append, this]

def pending (s : TStream) : List LTok := s.buf.toks ++ fill s.buf.lastEnd s.src

theorem readLoop_spec : ∀ (src : List LTok) (b : TBuf) (r n : Nat),
    (readLoop src b r n).2.1.toks ++ fill (readLoop src b r n).2.1.lastEnd (readLoop src b r n).1 = b.toks ++ fill b.lastEnd src ∧
    (readLoop src b r n).2.1.len + ns (readLoop src b r n).1 = b.len + ns src ∧
    (readLoop src b r n).2.1.len + r = b.len + (readLoop src b r n).2.2 ∧ r ≤ (readLoop src b r n).2.2 ∧
    (r < n → n - r ≤ ns src → n ≤ (readLoop src b r n).2.2) := by
  intro src
  induction src with
  | nil => intro b r n; simp [readLoop, fill, ns]; omega
  | cons t src ih =>
    intro b r n
    have hb := bumpRead_eq t r
    simp only [readLoop]
    by_cases hge : bumpRead t r ≥ n
    · simp only [hge, if_true]
      refine ⟨?_, ?_, ?_, ?_, ?_⟩
      · simp [add_toks, add_lastEnd, fill]
      · rw [len_add, ns_cons]; omega
      · rw [len_add]; omega
      · omega
      · intros; first | exact hge | trivial
    · simp only [hge, if_false]
      obtain ⟨h1, h2, h3, h4, h5⟩ := ih (b.add t) (bumpRead t r) n
      refine ⟨?_, ?_, ?_, ?_, ?_⟩
      · rw [h1]; simp [add_toks, add_lastEnd, fill]
      · rw [h2, len_add, ns_cons]; omega
      · rw [len_add] at h3; omega
      · omega
      · intro hr hn
        apply h5
        · omega
        · rw [ns_cons] at hn; omega

def zc (l : List LTok) : Nat := (l.filter (·.ty == eoiTy)).length
def EoiNonSkip (l : List LTok) : Prop := ∀ t ∈ l, t.ty = eoiTy → t.effSkip = false

theorem zc_append (a b : List LTok) : zc (a ++ b) = zc a + zc b := by simp [zc]
theorem zc_cons (t : LTok) (l : List LTok) : zc (t :: l) = zc [t] + zc l := by
  have := zc_append [t] l; simpa using this
theorem zc_single_le (t : LTok) : zc [t] ≤ 1 := by
  simp only [zc, List.filter_cons]; split <;> simp

theorem zc_le_ns (l : List LTok) (h : EoiNonSkip l) : zc l ≤ ns l := by
  induction l with
  | nil => simp [zc, ns]
  | cons t l ih =>
    have ih' := ih (fun u hu => h u (List.mem_cons_of_mem _ hu))
    rw [zc_cons, ns_cons]
    by_cases hz : t.ty = eoiTy
    · have := h t (by simp) hz
      have h1 : bumpRead t 0 = 1 := by simp [bumpRead, this]
      have := zc_single_le t
      omega
    · have : zc [t] = 0 := by simp [zc, hz]
      omega

structure Inv (s : TStream) : Prop where
  kpos : 1 ≤ s.k
  eoiB : EoiNonSkip s.buf.toks
  eoiS : EoiNonSkip s.src
  enough : s.k ≤ zc s.buf.toks + zc s.src

def Full (s : TStream) : Prop := s.k ≤ s.buf.len

theorem mem_addTail {le : Nat} {t u : LTok} (h : u ∈ addTail le t) : u = gapTok le t.start ∨ u = t := by
  simp only [addTail] at h
  split at h
  · simpa using h
  · right; simpa using h

theorem zc_addTail (le : Nat) (t : LTok) : zc (addTail le t) = zc [t] := by
  simp only [addTail]
  split
  · rw [zc_cons]; simp [zc, gapTok, invalidTy, eoiTy]
  · rfl

theorem readLoop_inv : ∀ (src : List LTok) (b : TBuf) (r n : Nat),
    EoiNonSkip b.toks → EoiNonSkip src →
    EoiNonSkip (readLoop src b r n).2.1.toks ∧ EoiNonSkip (readLoop src b r n).1 ∧
    zc (readLoop src b r n).2.1.toks + zc (readLoop src b r n).1 = zc b.toks + zc src := by
  intro src
  induction src with
  | nil => intro b r n hb hs; exact ⟨hb, hs, rfl⟩
  | cons t src ih =>
    intro b r n hb hs
    have hb' : EoiNonSkip (b.add t).toks := by
      intro u hu hz
      rw [add_toks] at hu
      rcases List.mem_append.mp hu with hu | hu
      · exact hb u hu hz
      · rcases mem_addTail hu with rfl | rfl
        · simp [gapTok, invalidTy, eoiTy] at hz
        · exact hs _ (by simp) hz
    have hs' : EoiNonSkip src := fun u hu => hs u (List.mem_cons_of_mem _ hu)
    have hz : zc (b.add t).toks + zc src = zc b.toks + zc (t :: src) := by
      rw [add_toks, zc_append, zc_addTail, zc_cons t src]; omega
    simp only [readLoop]
    by_cases hge : bumpRead t r ≥ n
    · simp only [hge, if_true]; exact ⟨hb', hs', hz⟩
    · simp only [hge, if_false]
      obtain ⟨h1, h2, h3⟩ := ih (b.add t) (bumpRead t r) n hb' hs'
      exact ⟨h1, h2, by rw [h3, hz]⟩

theorem ensureBuffer_spec (s : TStream) (h : Inv s) :
    Inv s.ensureBuffer ∧ Full s.ensureBuffer ∧ pending s.ensureBuffer = pending s ∧ s.ensureBuffer.k = s.k := by
  unfold TStream.ensureBuffer
  by_cases hlt : s.buf.len < s.k
  · simp only [hlt, if_true, TStream.readTokens]
    have hzb := zc_le_ns s.buf.toks h.eoiB
    have hzs := zc_le_ns s.src h.eoiS
    have henough := h.enough
    have hlen : s.buf.len = ns s.buf.toks := rfl
    generalize hn : s.k - s.buf.len = n
    have hnpos : 0 < n := by omega
    have hnk : n + s.buf.len = s.k := by omega
    obtain ⟨h1, h2, h3, _, h5⟩ := readLoop_spec s.src s.buf 0 n
    obtain ⟨i1, i2, i3⟩ := readLoop_inv s.src s.buf 0 n h.eoiB h.eoiS
    generalize readLoop s.src s.buf 0 n = res at *
    obtain ⟨src', b', r'⟩ := res
    simp only at h1 h2 h3 h5 i1 i2 i3
    have hr : n ≤ r' := h5 hnpos (by omega)
    have hzero : n - r' = 0 := by omega
    simp only [hzero, fillEoi]
    refine ⟨⟨h.kpos, i1, i2, ?_⟩, ?_, ?_, ?_⟩
    · show s.k ≤ zc b'.toks + zc src'
      omega
    · show s.k ≤ b'.len
      omega
    · exact h1
    · first | rfl | trivial
  · simp only [hlt, if_false]
    refine ⟨h, ?_, ?_, ?_⟩
    · simp only [Full]; omega
    · first | rfl | trivial
    · first | rfl | trivial

theorem ensureBuffer_full (s : TStream) (h : Full s) : s.ensureBuffer = s := by
  unfold TStream.ensureBuffer
  simp only [Full] at h
  have : ¬ s.buf.len < s.k := by omega
  simp [this]


def cutEoi : List LTok → List LTok
  | [] => []
  | t :: l => if t.ty = eoiTy then [t] else t :: cutEoi l

def flag (l : List LTok) : List (LTok × Bool) := l.map fun t => (t, t.effSkip)

def beforeEoi : List LTok → Nat
  | [] => 0
  | t :: l => if t.ty = eoiTy then 0 else beforeEoi l + 1

theorem lookahead_full (s : TStream) (h : Full s) (n : Nat) (hn : n < s.k) :
    ∃ t, s.lookahead n = some (t, s) := by
  simp only [TStream.lookahead, ensureBuffer_full s h]
  have : ¬ n ≥ s.k := by omega
  simp only [this, if_false]
  simp only [Full, TBuf.len] at h
  have hlt : n < (s.buf.toks.filter (!·.effSkip)).length := by omega
  exact ⟨(s.buf.toks.filter (!·.effSkip))[n], by simp [List.getElem?_eq_getElem hlt]⟩

theorem peek_full (s : TStream) (h : Full s) : ∀ (l : List Nat), (∀ n ∈ l, n < s.k) →
    l.foldlM (fun s n => (s.lookahead n).map (·.2)) s = some s := by
  intro l
  induction l with
  | nil => intro _; rfl
  | cons n l ih =>
    intro hl
    obtain ⟨t, ht⟩ := lookahead_full s h n (hl n (by simp))
    simp only [List.foldlM_cons, ht, Option.map_some, Option.bind_eq_bind, Option.bind_some]
    exact ih (fun m hm => hl m (List.mem_cons_of_mem _ hm))

theorem ns_dropWhile (l : List LTok) : ns (l.dropWhile (·.effSkip)) = ns l := by
  induction l with
  | nil => rfl
  | cons t l ih =>
    simp only [List.dropWhile_cons]
    split
    · rename_i h; rw [ih, ns_cons]; simp [bumpRead, h]
    · rfl

theorem dropWhile_head (l : List LTok) (h : 1 ≤ ns l) :
    ∃ t rest, l.dropWhile (·.effSkip) = t :: rest ∧ t.effSkip = false := by
  induction l with
  | nil => simp [ns] at h
  | cons t l ih =>
    simp only [List.dropWhile_cons]
    cases hs : t.effSkip
    · exact ⟨t, l, by simp, hs⟩
    · simp only [if_true]
      apply ih
      rw [ns_cons] at h; simpa [bumpRead, hs] using h

theorem mem_takeWhile_skip {l : List LTok} {t : LTok} (h : t ∈ l.takeWhile (·.effSkip)) :
    t.effSkip = true ∧ t ∈ l := by
  induction l with
  | nil => simp at h
  | cons u l ih =>
    simp only [List.takeWhile_cons] at h
    split at h
    · rename_i hu
      rcases List.mem_cons.mp h with rfl | h'
      · exact ⟨hu, by simp⟩
      · exact ⟨(ih h').1, List.mem_cons_of_mem _ (ih h').2⟩
    · simp at h

theorem skip_prefix_noEoi (l : List LTok) (h : EoiNonSkip l) : ∀ t ∈ l.takeWhile (·.effSkip), t.ty ≠ eoiTy := by
  intro t ht hz
  have hm := mem_takeWhile_skip ht
  have := h t hm.2 hz
  rw [this] at hm; cases hm.1

theorem cutEoi_append_noEoi (a b : List LTok) (h : ∀ t ∈ a, t.ty ≠ eoiTy) : cutEoi (a ++ b) = a ++ cutEoi b := by
  induction a with
  | nil => rfl
  | cons t a ih =>
    have ht := h t (by simp)
    simp only [List.cons_append, cutEoi, ht, if_false]
    rw [ih (fun u hu => h u (List.mem_cons_of_mem _ hu))]

theorem beforeEoi_append_noEoi (a b : List LTok) (h : ∀ t ∈ a, t.ty ≠ eoiTy) :
    beforeEoi (a ++ b) = a.length + beforeEoi b := by
  induction a with
  | nil => simp
  | cons t a ih =>
    have ht := h t (by simp)
    simp only [List.cons_append, beforeEoi, ht, if_false, List.length_cons]
    rw [ih (fun u hu => h u (List.mem_cons_of_mem _ hu))]; omega

theorem flag_skip (l : List LTok) (h : ∀ t ∈ l, t.effSkip = true) : flag l = l.map (·, true) := by
  simp only [flag]
  apply List.map_congr_left
  intro t ht; simp [h t ht]

theorem consume_spec (s : TStream) (hfull : Full s) (t : LTok) (rest : List LTok)
    (htoks : s.buf.toks = t :: rest) (ht : t.effSkip = false) :
    s.consume = some (t, ({ s with buf := { s.buf with toks := rest } } : TStream).ensureBuffer) := by
  simp only [TStream.consume, ensureBuffer_full s hfull, htoks]
  simp [ht]

theorem deliver_spec (peek : Bool) : ∀ (f : Nat) (s : TStream), Inv s → Full s → beforeEoi (pending s) < f →
    deliver peek f s = some (flag (cutEoi (pending s))) := by
  intro f
  induction f with
  | zero => intro s _ _ h; omega
  | succ f ih =>
    intro s hinv hfull hf
    have hpeek : (if peek then (List.range s.k).foldlM (fun s n => (s.lookahead n).map (·.2)) s else some s) = some s := by
      split
      · exact peek_full s hfull _ (fun n hn => List.mem_range.mp hn)
      · rfl
    have hns : 1 ≤ ns s.buf.toks := by
      have := hinv.kpos; simp only [Full, TBuf.len] at hfull; simp only [ns]; omega
    obtain ⟨t, rest, hdrop, ht⟩ := dropWhile_head s.buf.toks hns
    have hskipNo := skip_prefix_noEoi s.buf.toks hinv.eoiB
    have hsplit : s.buf.toks = s.buf.toks.takeWhile (·.effSkip) ++ t :: rest := by
      rw [← hdrop, List.takeWhile_append_dropWhile]
    -- state after take_skip_tokens
    let s1 : TStream := { s with buf := { s.buf with toks := s.buf.toks.dropWhile (·.effSkip) } }
    have hs1full : Full s1 := by
      simp only [Full, TBuf.len] at hfull ⊢
      have := ns_dropWhile s.buf.toks
      simp only [ns] at this
      show s.k ≤ (List.filter (fun x => !x.effSkip) (s.buf.toks.dropWhile (·.effSkip))).length
      rw [this]; exact hfull
    have hcons := consume_spec s1 hs1full t rest hdrop ht
    let s2 : TStream := { s1 with buf := { s1.buf with toks := rest } }
    have hpend : pending s = s.buf.toks.takeWhile (·.effSkip) ++ t :: pending s2 := by
      simp only [pending]
      conv => lhs; rw [hsplit]
      simp [s2, s1]
    have hskipAll : ∀ u ∈ s.buf.toks.takeWhile (·.effSkip), u.effSkip = true :=
      fun u hu => (mem_takeWhile_skip hu).1
    simp only [deliver, hpeek, TStream.takeSkip]
    show (match TStream.consume s1 with
      | none => none
      | some (t', s') =>
        if (t'.ty == eoiTy) = true then some ((s.buf.toks.takeWhile (fun x : LTok => x.effSkip)).map (fun x : LTok => (x, true)) ++ [(t', false)])
        else Option.map (fun x => (s.buf.toks.takeWhile (fun x : LTok => x.effSkip)).map (fun x : LTok => (x, true)) ++ [(t', false)] ++ x) (deliver peek f s')) = _
    rw [hcons]
    simp only
    by_cases hz : t.ty = eoiTy
    · have : (t.ty == eoiTy) = true := by simpa using hz
      simp only [this, if_true]
      rw [hpend, cutEoi_append_noEoi _ _ hskipNo]
      simp only [cutEoi, hz, if_true, flag, List.map_append, List.map_cons, List.map_nil, ht]
      congr 2
      exact (flag_skip _ hskipAll).symm
    · have : (t.ty == eoiTy) = false := by simpa using hz
      simp only [this]
      -- the stream after consuming t
      have hs2inv : Inv s2 := by
        refine ⟨hinv.kpos, ?_, hinv.eoiS, ?_⟩
        · intro u hu
          apply hinv.eoiB u
          rw [hsplit]; simp [show u ∈ rest from hu]
        · have hzc : zc s.buf.toks = zc rest := by
            rw [hsplit, zc_append, zc_cons t rest]
            have h1 : zc (s.buf.toks.takeWhile (·.effSkip)) = 0 := by
              simp only [zc, List.length_eq_zero_iff, List.filter_eq_nil_iff]
              intro u hu; simpa using hskipNo u hu
            have h2 : zc [t] = 0 := by simp [zc, hz]
            omega
          show s.k ≤ zc rest + zc s.src
          rw [← hzc]; exact hinv.enough
      obtain ⟨e1, e2, e3, e4⟩ := ensureBuffer_spec s2 hs2inv
      have hlt : beforeEoi (pending s2.ensureBuffer) < f := by
        rw [e3]
        rw [hpend, beforeEoi_append_noEoi _ _ hskipNo] at hf
        simp only [beforeEoi, hz, if_false] at hf
        omega
      rw [ih _ e1 e2 hlt, e3, hpend, cutEoi_append_noEoi _ _ hskipNo]
      simp only [cutEoi, hz, if_false, flag, List.map_append, List.map_cons, Option.map_some, ht]
      congr 1
      rw [show (List.map (fun t => (t, t.effSkip)) (s.buf.toks.takeWhile (·.effSkip))) = flag _ from rfl, flag_skip _ hskipAll]
      simp


def endOf (le : Nat) : List LTok → Nat
  | [] => le
  | t :: l => endOf t.stop l

theorem fill_append : ∀ (a b : List LTok) (le : Nat), fill le (a ++ b) = fill le a ++ fill (endOf le a) b := by
  intro a
  induction a with
  | nil => intro b le; simp [fill, endOf]
  | cons t a ih => intro b le; simp [fill, endOf, ih]

theorem fill_noEoi : ∀ (a : List LTok) (le : Nat), (∀ t ∈ a, t.ty ≠ eoiTy) → ∀ u ∈ fill le a, u.ty ≠ eoiTy := by
  intro a
  induction a with
  | nil => intro le _ u hu; simp [fill] at hu
  | cons t a ih =>
    intro le h u hu
    simp only [fill, List.mem_append] at hu
    rcases hu with hu | hu
    · rcases mem_addTail hu with rfl | rfl
      · simp [gapTok, invalidTy, eoiTy]
      · exact h _ (by simp)
    · exact ih _ (fun v hv => h v (List.mem_cons_of_mem _ hv)) u hu

def eoiAt (len : Nat) : LTok := ⟨eoiTy, len, len, false⟩

theorem cutEoi_addTail_eoi (e len : Nat) (X : List LTok) :
    cutEoi (addTail e (eoiAt len) ++ X) = addTail e (eoiAt len) := by
  simp only [addTail]
  split
  · simp [cutEoi, gapTok, eoiAt, invalidTy, eoiTy]
  · simp [cutEoi, eoiAt]

theorem zc_replicate_eoi (n len : Nat) : zc (List.replicate n (eoiAt len)) = n := by
  induction n with
  | zero => simp [zc]
  | succ n ih => rw [List.replicate_succ, zc_cons, ih]; simp [zc, eoiAt]; omega

/-- For every `k` and both schedules the stream delivers the matches with gaps filled and one EOI. -/
theorem stream_delivers (ms : List LTok) (len k : Nat) (peek : Bool) (hms : ∀ t ∈ ms, t.ty ≠ eoiTy) :
    ∃ fuel, deliver peek fuel (TStream.new ms len k) = some (deliveredRef ms len) := by
  let k' := max 1 k
  let init : TStream := { src := ms ++ List.replicate k' (eoiAt len), buf := {}, k := k' }
  have hk' : 1 ≤ k' := Nat.le_max_left 1 k
  have hnew : TStream.new ms len k = init.ensureBuffer := by
    have h0 : init.buf.len = 0 := rfl
    have hlt : init.buf.len < init.k := by rw [h0]; exact hk'
    have hpos : 0 < init.k := hk'
    simp only [TStream.ensureBuffer, h0, Nat.sub_zero, hpos, if_true]
    rfl
  have hinv : Inv init := by
    refine ⟨hk', ?_, ?_, ?_⟩
    · intro t ht; simp [init] at ht
    · intro t ht hz
      simp only [init, List.mem_append, List.mem_replicate] at ht
      rcases ht with ht | ⟨_, rfl⟩
      · exact absurd hz (hms t ht)
      · simp [eoiAt, LTok.effSkip, isSkipTy, eoiTy, invalidTy]
    · show k' ≤ zc ([] : List LTok) + zc (ms ++ List.replicate k' (eoiAt len))
      rw [zc_append, zc_replicate_eoi]; omega
  obtain ⟨e1, e2, e3, _⟩ := ensureBuffer_spec init hinv
  refine ⟨beforeEoi (pending init.ensureBuffer) + 1, ?_⟩
  rw [hnew, deliver_spec peek _ _ e1 e2 (Nat.lt_succ_self _), e3]
  congr 1
  have hpend : pending init = fill 0 (ms ++ List.replicate k' (eoiAt len)) := by simp [pending, init]
  have href : deliveredRef ms len = flag (fill 0 (ms ++ [eoiAt len])) := by
    have := addAll_toks (ms ++ [eoiAt len]) ({} : TBuf)
    simp only [deliveredRef, flag]
    simp only [addAll] at this
    rw [show (⟨eoiTy, len, len, false⟩ : LTok) = eoiAt len from rfl, this]
    simp
  rw [href, hpend]
  congr 1
  obtain ⟨j, hj⟩ : ∃ j, k' = j + 1 := ⟨k' - 1, by omega⟩
  rw [hj, List.replicate_succ, fill_append, fill_append]
  simp only [fill, List.append_nil]
  rw [cutEoi_append_noEoi _ _ (fill_noEoi ms 0 hms), cutEoi_addTail_eoi]

/-- The delivered sequence does not depend on the lookahead size or on the access schedule. -/
theorem stream_indep (ms : List LTok) (len k k' : Nat) (peek peek' : Bool) (hms : ∀ t ∈ ms, t.ty ≠ eoiTy) :
    ∃ f f', deliver peek f (TStream.new ms len k) = deliver peek' f' (TStream.new ms len k') ∧
      (deliver peek f (TStream.new ms len k)).isSome := by
  obtain ⟨f, hf⟩ := stream_delivers ms len k peek hms
  obtain ⟨f', hf'⟩ := stream_delivers ms len k' peek' hms
  exact ⟨f, f', by rw [hf, hf'], by rw [hf]; rfl⟩

end ParolModel.TokStream
