import ParolModel.Proofs.KFirst
/-! Assembly for the faithful `first_k` model: well-formedness of all vectors of the iteration,
the result is a fixpoint, fixpoints ⊇ declarative sets, and (no left recursion) fixpoints = declarative
sets. -/
namespace ParolModel.KS

/-! ## parts of a compiled right-hand side only mention its symbols -/

theorem compileParts_mem {ss : List Sym} :
    ∀ part ∈ compileParts ss,
      match part with
      | .ts run => ∀ a ∈ run, Sym.t a ∈ ss
      | .nt A => Sym.n A ∈ ss := by
  induction ss with
  | nil => intro part h; simp [compileParts] at h
  | cons s ss ih =>
    intro part h
    cases s with
    | n A =>
      simp only [compileParts, List.mem_cons] at h
      rcases h with rfl | h
      · simp
      · have := ih part h
        cases part with
        | ts run => intro a ha; exact List.mem_cons_of_mem _ (this a ha)
        | nt B => exact List.mem_cons_of_mem _ this
    | t a =>
      simp only [compileParts] at h
      split at h
      · rename_i run ps hcp
        simp only [List.mem_cons] at h
        rcases h with rfl | h
        · intro b hb
          simp only [List.mem_cons] at hb
          rcases hb with rfl | hb
          · exact List.mem_cons_self
          · have := ih (.ts run) (by rw [hcp]; exact List.mem_cons_self)
            exact List.mem_cons_of_mem _ (this b hb)
        · have := ih part (by rw [hcp]; exact List.mem_cons_of_mem _ h)
          cases part with
          | ts run' => intro b hb; exact List.mem_cons_of_mem _ (this b hb)
          | nt B => exact List.mem_cons_of_mem _ this
      · simp only [List.mem_cons] at h
        rcases h with rfl | h
        · intro b hb
          simp only [List.mem_singleton] at hb
          subst hb; exact List.mem_cons_self
        · have := ih part h
          cases part with
          | ts run' => intro b hb; exact List.mem_cons_of_mem _ (this b hb)
          | nt B => exact List.mem_cons_of_mem _ this

theorem evalPartsFrom_wf {k : Nat} {env : Nat → TSet} (parts : List KPart) :
    ∀ (r : TSet), (∀ x ∈ r, TupWf k x) →
      (∀ part ∈ parts, ∀ z ∈ partSet k env part, 0 ∉ z) →
      ∀ y ∈ evalPartsFrom k env r parts, TupWf k y := by
  induction parts with
  | nil => intro r hr _ y hy; exact hr y hy
  | cons p ps ih =>
    intro r hr hparts y hy
    simp only [evalPartsFrom] at hy
    refine ih _ ?_ (fun part hp => hparts part (List.mem_cons_of_mem _ hp)) y hy
    intro x hx
    rw [mem_kcatSetQ] at hx
    obtain ⟨x0, hx0, h⟩ := hx
    rcases h with ⟨_, rfl⟩ | ⟨_, z, hz, rfl⟩
    · exact hr x hx0
    · exact kcat_wf (hr x0 hx0) (hparts p List.mem_cons_self z hz)

theorem evalParts_wf {G : Grammar} {k : Nat} {env : Nat → TSet} (hno : NoEoi G) (henv : EnvWf k env)
    {p : Rule} (hp : p ∈ G.prods) : ∀ y ∈ evalParts k env (compileParts p.rhs), TupWf k y := by
  apply evalPartsFrom_wf
  · intro x hx; simp only [List.mem_singleton] at hx; subst hx; exact tupWf_nil k
  · intro part hpart z hz
    have hm := compileParts_mem part hpart
    cases part with
    | ts run =>
      simp only [partSet, List.mem_singleton] at hz
      subst hz
      intro h0
      have := hm 0 (List.mem_of_mem_take h0)
      exact hno p hp this
    | nt A => exact (henv A z hz).1

/-! ## vectors of the iteration -/

def VecWf (G : Grammar) (k : Nat) (V : FirstVec) : Prop :=
  V.nts.map (·.1) = ntsOf G ∧ EnvWf k (envGet V.nts)

theorem envGet_stepFirst (G : Grammar) (k : Nat) (V : FirstVec) (A : Nat) :
    envGet (stepFirst G k V).nts A =
      if A ∈ ntsOf G then
        unionAll ((G.prods.filter fun p => p.lhs = A).map fun p =>
          evalParts k (envGet V.nts) (compileParts p.rhs))
      else [] := by
  unfold stepFirst
  exact envGet_map _ _ A

theorem mem_envGet_stepFirst {G : Grammar} {k : Nat} {V : FirstVec} {A : Nat} {t : Tup} :
    t ∈ envGet (stepFirst G k V).nts A ↔
      ∃ p ∈ G.prods, p.lhs = A ∧ t ∈ evalParts k (envGet V.nts) (compileParts p.rhs) := by
  rw [envGet_stepFirst]
  split
  · simp only [mem_unionAll, List.mem_map, List.mem_filter, decide_eq_true_eq]
    constructor
    · rintro ⟨S, ⟨p, ⟨hp, hl⟩, rfl⟩, ht⟩; exact ⟨p, hp, hl, ht⟩
    · rintro ⟨p, hp, hl, ht⟩; exact ⟨_, ⟨p, ⟨hp, hl⟩, rfl⟩, ht⟩
  · rename_i hA
    constructor
    · intro h; cases h
    · rintro ⟨p, hp, hl, _⟩
      exact absurd (hl ▸ lhs_mem_ntsOf hp) hA

theorem keys_stepFirst (G : Grammar) (k : Nat) (V : FirstVec) :
    (stepFirst G k V).nts.map (·.1) = ntsOf G := by
  simp [stepFirst, Function.comp_def]

theorem stepFirst_wf {G : Grammar} {k : Nat} {V : FirstVec} (hno : NoEoi G) (h : VecWf G k V) :
    VecWf G k (stepFirst G k V) := by
  refine ⟨keys_stepFirst G k V, ?_⟩
  intro A y hy
  obtain ⟨p, hp, _, hmem⟩ := mem_envGet_stepFirst.1 hy
  exact evalParts_wf hno h.2 hp y hmem

theorem initFirst0_wf (G : Grammar) : VecWf G 0 (initFirst0 G) := by
  refine ⟨by simp [initFirst0, Function.comp_def], ?_⟩
  intro A y hy
  unfold initFirst0 at hy
  simp only at hy
  rw [envGet_map] at hy
  split at hy
  · simp only [List.mem_singleton] at hy; subst hy; exact tupWf_nil 0
  · cases hy

theorem vecWf_succ {G : Grammar} {k : Nat} {V : FirstVec} (h : VecWf G k V) : VecWf G (k+1) V :=
  ⟨h.1, fun A y hy => ⟨(h.2 A y hy).1, Nat.le_succ_of_le (h.2 A y hy).2⟩⟩

theorem iterFirst_spec {G : Grammar} {k : Nat} (hno : NoEoi G) :
    ∀ (fuel : Nat) (V R : FirstVec), VecWf G k V → iterFirst G k fuel V = some R →
      VecWf G k R ∧ vecSame (stepFirst G k R) R = true := by
  intro fuel
  induction fuel with
  | zero => intro V R _ h; simp [iterFirst] at h
  | succ f ih =>
    intro V R hV h
    simp only [iterFirst] at h
    split at h
    · rename_i hsame
      injection h with h; subst h
      exact ⟨hV, hsame⟩
    · exact ih _ R (stepFirst_wf hno hV) h

/-- every result of the (model of the) public `first_k` is a well-formed fixpoint of its step function -/
theorem firstCode_fix {G : Grammar} {fuel : Nat} (hno : NoEoi G) :
    ∀ (k : Nat) (V : FirstVec), firstCode G fuel k = some V →
      VecWf G k V ∧ vecSame (stepFirst G k V) V = true := by
  intro k
  induction k with
  | zero =>
    intro V h
    exact iterFirst_spec hno fuel _ V (initFirst0_wf G) h
  | succ k ih =>
    intro V h
    simp only [firstCode] at h
    cases hprev : firstCode G fuel k with
    | none => simp [hprev] at h
    | some prev =>
      simp only [hprev, Option.bind_some] at h
      exact iterFirst_spec hno fuel prev V (vecWf_succ (ih prev hprev).1) h

/-! ## what a fixpoint gives -/

theorem allSetEq_getD {L M : List TSet} (h : AllSetEq L M) (i : Nat) :
    SetEq (L.getD i []) (M.getD i []) := by
  induction h generalizing i with
  | nil => exact SetEq.refl _
  | cons h1 _ ih =>
    cases i with
    | zero => simpa using h1
    | succ i => simpa using ih i

theorem vecSame_iff {V W : FirstVec} :
    vecSame V W = true ↔ AllSetEq V.prods W.prods ∧ AllSetEq (envSets V.nts) (envSets W.nts) := by
  simp [vecSame, listSame_iff]

theorem getD_map_of_getElem? {α} {l : List α} {f : α → TSet} {i : Nat} {a : α} (h : l[i]? = some a) :
    (l.map f).getD i [] = f a := by
  simp [List.getD, h]

/-- facts extracted from `vecSame (stepFirst G k V) V` for a vector with the right keys -/
structure FixFacts (G : Grammar) (k : Nat) (V : FirstVec) : Prop where
  nts : ∀ A, SetEq (envGet (stepFirst G k V).nts A) (envGet V.nts A)
  prods : ∀ i p, G.prods[i]? = some p →
    SetEq (evalParts k (envGet V.nts) (compileParts p.rhs)) (V.prods.getD i [])

theorem fixFacts {G : Grammar} {k : Nat} {V : FirstVec} (hkeys : V.nts.map (·.1) = ntsOf G)
    (hfix : vecSame (stepFirst G k V) V = true) : FixFacts G k V := by
  obtain ⟨hp, hn⟩ := vecSame_iff.1 hfix
  refine ⟨fun A => envGet_setEq_of_same ((keys_stepFirst G k V).trans hkeys.symm) hn A, ?_⟩
  intro i p hip
  have := allSetEq_getD hp i
  have e : (stepFirst G k V).prods.getD i [] = evalParts k (envGet V.nts) (compileParts p.rhs) := by
    unfold stepFirst
    exact getD_map_of_getElem? hip
  rw [e] at this
  exact this

/-- symbol-wise evaluation of a production against the vector's non-terminal slots -/
theorem evalParts_syms {G : Grammar} {k : Nat} (hk : 1 ≤ k) (hno : NoEoi G) (env : Nat → TSet)
    {p : Rule} (hp : p ∈ G.prods) :
    SetEq (evalParts k env (compileParts p.rhs)) (evalSymsFrom k env [[]] p.rhs) :=
  evalParts_eq_evalSyms hk env p.rhs (hno p hp) [[]]

theorem closed_of_fixFacts {G : Grammar} {k : Nat} {V : FirstVec} (hk : 1 ≤ k) (hno : NoEoi G)
    (hf : FixFacts G k V) :
    ∀ p ∈ G.prods, ∀ t, t ∈ evalSymsFrom k (envGet V.nts) [[]] p.rhs → t ∈ envGet V.nts p.lhs := by
  intro p hp t ht
  apply (hf.nts p.lhs t).1
  exact mem_envGet_stepFirst.2 ⟨p, hp, rfl, (evalParts_syms hk hno _ hp t).2 ht⟩

/-- every fixpoint of the step function contains the declarative FIRST_k sets -/
theorem fixpoint_superset {G : Grammar} {k : Nat} {V : FirstVec} (hk : 1 ≤ k) (hno : NoEoi G)
    (hkeys : V.nts.map (·.1) = ntsOf G) (hfix : vecSame (stepFirst G k V) V = true) :
    (∀ A t, FirstK G k [.n A] t → t ∈ envGet V.nts A) ∧
    (∀ i p, G.prods[i]? = some p → ∀ t, FirstK G k p.rhs t → t ∈ V.prods.getD i []) := by
  have hf := fixFacts hkeys hfix
  have hcl := closed_of_fixFacts hk hno hf
  have hprod : ∀ p ∈ G.prods, ∀ w, Yield G p.rhs w →
      w.take k ∈ evalSymsFrom k (envGet V.nts) [[]] p.rhs := by
    intro p hp w hw
    rw [mem_evalSymsFrom]
    refine ⟨[], by simp, ?_⟩
    have := chain_of_yield hk hno hcl hw (hno p hp) [] (tupWf_nil k)
    simpa using this
  constructor
  · rintro A t ⟨w, hw, rfl⟩
    obtain ⟨p, hp, hl, hr⟩ := yield_nt_inv hw
    exact hl ▸ hcl p hp _ (hprod p hp w hr)
  · rintro i p hip t ⟨w, hw, rfl⟩
    have hp : p ∈ G.prods := List.mem_of_getElem? hip
    exact (hf.prods i p hip _).1 ((evalParts_syms hk hno _ hp _).2 (hprod p hp w hw))

theorem chain_wf {k : Nat} {env : Nat → TSet} {x : Tup} {ss : List Sym} {y : Tup}
    (h : Chain k env x ss y) :
    TupWf k x → (∀ s ∈ ss, ∀ z ∈ symSet env s, 0 ∉ z) → TupWf k y := by
  induction h with
  | nil x => intro hx _; exact hx
  | keep s _ _ ih => intro hx hs; exact ih hx (fun s' h' => hs s' (List.mem_cons_of_mem _ h'))
  | ext s _ hz _ ih =>
    intro hx hs
    exact ih (kcat_wf hx (hs s List.mem_cons_self _ hz)) (fun s' h' => hs s' (List.mem_cons_of_mem _ h'))

/-- without left recursion a well-formed fixpoint holds exactly the declarative FIRST_k sets -/
theorem fixpoint_eq_spec {G : Grammar} {k : Nat} {V : FirstVec} (hk : 1 ≤ k) (hno : NoEoi G)
    (hprod : Productive G) (hnlr : NoLeftRec G) (hwf : VecWf G k V)
    (hfix : vecSame (stepFirst G k V) V = true) :
    (∀ A t, t ∈ envGet V.nts A ↔ FirstK G k [.n A] t) ∧
    (∀ i p, G.prods[i]? = some p → ∀ t, t ∈ V.prods.getD i [] ↔ FirstK G k p.rhs t) := by
  have hf := fixFacts hwf.1 hfix
  obtain ⟨hsupN, hsupP⟩ := fixpoint_superset hk hno hwf.1 hfix
  have hsupport : ∀ A y, y ∈ envGet V.nts A →
      ∃ p ∈ G.prods, p.lhs = A ∧ y ∈ evalSymsFrom k (envGet V.nts) [[]] p.rhs := by
    intro A y hy
    obtain ⟨p, hp, hl, hm⟩ := mem_envGet_stepFirst.1 ((hf.nts A y).2 hy)
    exact ⟨p, hp, hl, (evalParts_syms hk hno _ hp y).1 hm⟩
  have hgen := fixpoint_genuine hk hno hprod hnlr hwf.2 hsupport
  constructor
  · intro A t
    refine ⟨fun ht => ?_, hsupN A t⟩
    obtain ⟨w, hw, htw⟩ := hgen k (Nat.le_refl _) A t ht
    rw [take_eq_self_of_wf (hwf.2 A t ht)] at htw
    exact ⟨w, hw, htw⟩
  · intro i p hip t
    refine ⟨fun ht => ?_, hsupP i p hip t⟩
    have hp : p ∈ G.prods := List.mem_of_getElem? hip
    have hm := (evalParts_syms hk hno _ hp t).1 ((hf.prods i p hip t).2 ht)
    rw [mem_evalSymsFrom] at hm
    obtain ⟨x, hx, hch⟩ := hm
    simp only [List.mem_singleton] at hx
    subst hx
    obtain ⟨w, hw, htw⟩ := chain_genuine hk (Nat.le_refl k) hno hprod hwf.2 hp rfl
      (fun r' hr' B y hy => hgen r' (by omega) B y hy)
      (fun B _ y hy => hgen k (Nat.le_refl _) B y hy)
      [] p.rhs t hch [] [] (by simp) .nil rfl (tupWf_nil k)
    have htwf : TupWf k t := by
      refine chain_wf hch (tupWf_nil k) ?_
      intro s hs z hz
      cases s with
      | t a =>
        simp only [symSet, List.mem_singleton] at hz
        subst hz
        intro h0
        simp only [List.mem_singleton] at h0
        subst h0
        exact hno p hp hs
      | n B => exact (hwf.2 B z hz).1
    rw [take_eq_self_of_wf htwf] at htw
    exact ⟨w, hw, htw⟩


/-- the (model of the) public `first_k` returns exactly the declarative sets -/
theorem first_k_eq_spec_aux {G : Grammar} {fuel k : Nat} {V : FirstVec} (hno : NoEoi G)
    (hprod : Productive G) (hnlr : NoLeftRec G) (hk : 1 ≤ k) (h : firstCode G fuel k = some V) :
    (∀ A t, t ∈ envGet V.nts A ↔ FirstK G k [.n A] t) ∧
    (∀ i p, G.prods[i]? = some p → ∀ t, t ∈ V.prods.getD i [] ↔ FirstK G k p.rhs t) := by
  obtain ⟨hwf, hfix⟩ := firstCode_fix hno k V h
  exact fixpoint_eq_spec hk hno hprod hnlr hwf hfix

end ParolModel.KS
