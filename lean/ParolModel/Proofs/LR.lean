import ParolModel.Model.LRCheck
import ParolModel.Proofs.LL
/-! Soundness of the LR parser model for tables accepted by `lrTableValid` (C03, C04). -/
namespace ParolModel

def itemSym : PTItem → Sym
  | .tok _ ty => .t ty
  | .nt l => .n l

/-- Arguments contributed by the counting (non-skip) entries of the parse-tree stack, top first. -/
def sigItems (pt : List LRItem) : List PTItem := (pt.filter (·.sig)).map (·.item)

def gOfLR (T : LRTables) (gprods : List Rule) : Grammar := ⟨T.start, gprods⟩

/-- The state stack is a path of the automaton whose edge symbols (top first) are `syms`. -/
inductive Path (T : LRTables) : List Nat → List Sym → Prop
  | base (s : Nat) : Path T [s] []
  | step {q s : Nat} {rest : List Nat} {X : Sym} {syms : List Sym} :
      lrAccOf T q = some X → s ∈ preds T q → Path T (s :: rest) syms → Path T (q :: s :: rest) (X :: syms)

/-- The counting stack entries (top first) derive, bottom to top, the consumed token types. -/
inductive ItemsYield (G : Grammar) : List PTItem → List Nat → Prop
  | nil : ItemsYield G [] []
  | cons {it : PTItem} {items : List PTItem} {w u : List Nat} :
      ItemsYield G items w → Yield G [itemSym it] u → ItemsYield G (it :: items) (w ++ u)

theorem Path.length_eq {T : LRTables} {sts : List Nat} {syms : List Sym} (h : Path T sts syms) :
    sts.length = syms.length + 1 := by
  induction h with
  | base s => rfl
  | step _ _ _ ih => simp [ih]

/-- Walking a path backwards along a right-hand side that `backSpells` accepts. -/
theorem Path.spells {T : LRTables} {final : Nat → Bool} : ∀ (rr : List Sym) (q : Nat) (sts : List Nat)
    (syms : List Sym), Path T (q :: sts) syms → backSpells T final q rr = true → rr.length ≤ syms.length →
    syms.take rr.length = rr ∧
    ∃ s sts', (q :: sts).drop rr.length = s :: sts' ∧ final s = true ∧ Path T (s :: sts') (syms.drop rr.length) := by
  intro rr
  induction rr with
  | nil =>
    intro q sts syms hp hb _
    simp only [backSpells] at hb
    exact ⟨by simp, q, sts, by simp, hb, by simpa using hp⟩
  | cons X rest ih =>
    intro q sts syms hp hb hlen
    simp only [backSpells, Bool.and_eq_true, beq_iff_eq, List.all_eq_true] at hb
    obtain ⟨hacc, hall⟩ := hb
    cases hp with
    | base s => simp at hlen
    | @step _ s rest' X' syms' hacc' hs hp' =>
      have hX : X' = X := by rw [hacc] at hacc'; injection hacc' with h; exact h.symm
      subst hX
      have hlen' : rest.length ≤ syms'.length := by simpa using hlen
      obtain ⟨h1, s2, sts2, hd, hf, hp2⟩ := ih s rest' syms' hp' (hall s hs) hlen'
      refine ⟨by simp [h1], s2, sts2, by simpa using hd, hf, by simpa using hp2⟩

theorem ItemsYield.split {G : Grammar} : ∀ (c rest : List PTItem) (w : List Nat),
    ItemsYield G (c ++ rest) w →
    ∃ w1 w2, w = w1 ++ w2 ∧ ItemsYield G rest w1 ∧ Yield G ((c.map itemSym).reverse) w2 := by
  intro c
  induction c with
  | nil => intro rest w h; exact ⟨w, [], by simp, h, .nil⟩
  | cons it c ih =>
    intro rest w h
    cases h with
    | @cons _ _ w' u hitems hy =>
      obtain ⟨w1, w2, rfl, hr, hyc⟩ := ih rest w' hitems
      refine ⟨w1, w2 ++ u, by simp, hr, ?_⟩
      simp only [List.map_cons, List.reverse_cons]
      exact Yield.append hyc hy

-- edges ------------------------------------------------------------------------------------------

theorem edge_of_shift {T : LRTables} {s : Nat} {row : LRRow} {t next : Nat}
    (hrow : T.rows[s]? = some row) (hact : findAct row t = some (.shift next)) :
    (s, Sym.t t, next) ∈ lrEdges T := by
  simp only [findAct, Option.map_eq_some_iff] at hact
  obtain ⟨⟨t', a⟩, hfind, ha⟩ := hact
  simp only at ha; subst ha
  have hmem := List.mem_of_find?_eq_some hfind
  have hpred := List.find?_some hfind
  simp only [beq_iff_eq] at hpred
  subst hpred
  simp only [lrEdges, List.mem_flatMap]
  refine ⟨(row, s), ?_, ?_⟩
  · rw [List.mem_zipIdx_iff_getElem?]; simpa using hrow
  · simp only [List.mem_append, List.mem_filterMap]
    exact Or.inl ⟨(t', .shift next), hmem, rfl⟩

theorem edge_of_goto {T : LRTables} {s : Nat} {row : LRRow} {a g : Nat}
    (hrow : T.rows[s]? = some row) (hg : findGoto row a = some g) :
    (s, Sym.n a, g) ∈ lrEdges T := by
  simp only [findGoto, Option.map_eq_some_iff] at hg
  obtain ⟨⟨a', g'⟩, hfind, hg'⟩ := hg
  simp only at hg'; subst hg'
  have hmem := List.mem_of_find?_eq_some hfind
  have hpred := List.find?_some hfind
  simp only [beq_iff_eq] at hpred
  subst hpred
  simp only [lrEdges, List.mem_flatMap]
  refine ⟨(row, s), ?_, ?_⟩
  · rw [List.mem_zipIdx_iff_getElem?]; simpa using hrow
  · simp only [List.mem_append, List.mem_map]
    exact Or.inr ⟨(a', g'), hmem, rfl⟩

theorem acc_of_edge {T : LRTables} (hc : accConsistent T = true) {s : Nat} {X : Sym} {q : Nat}
    (he : (s, X, q) ∈ lrEdges T) : lrAccOf T q = some X ∧ s ∈ preds T q := by
  simp only [accConsistent, List.all_eq_true, beq_iff_eq] at hc
  refine ⟨hc _ he, ?_⟩
  simp only [preds, List.mem_map, List.mem_filter, beq_iff_eq]
  exact ⟨(s, X, q), ⟨he, rfl⟩, rfl⟩

-- stack bookkeeping ------------------------------------------------------------------------------

theorem popN_sig : ∀ (pt : List LRItem) (n : Nat) (c rest : List LRItem),
    popN pt n = (c, rest) →
    pt = c ++ rest ∧ (c.filter (·.sig)).length ≤ n ∧
    ((c.filter (·.sig)).length < n → rest = []) := by
  intro pt
  induction pt with
  | nil =>
    intro n c rest h
    cases n <;> simp [popN] at h <;> obtain ⟨rfl, rfl⟩ := h <;> simp
  | cons x l ih =>
    intro n c rest h
    cases n with
    | zero =>
      simp [popN] at h
      obtain ⟨rfl, rfl⟩ := h
      simp
    | succ n =>
      simp only [popN] at h
      generalize hp : popN l (if x.sig then n else n + 1) = r at h
      obtain ⟨c', r'⟩ := r
      simp only [Prod.mk.injEq] at h
      obtain ⟨rfl, rfl⟩ := h
      obtain ⟨h1, h2, h3⟩ := ih _ _ _ hp
      refine ⟨by rw [h1]; rfl, ?_, ?_⟩
      · by_cases hs : x.sig = true
        · simp only [hs, if_true] at h2 h3
          simp [List.filter_cons, hs]; omega
        · have hs' : x.sig = false := by simpa using hs
          simp only [hs', Bool.false_eq_true, if_false] at h2 h3
          simp [List.filter_cons, hs']; omega
      · intro hlt
        by_cases hs : x.sig = true
        · simp only [hs, if_true] at h2 h3
          apply h3
          simp [List.filter_cons, hs] at hlt; omega
        · have hs' : x.sig = false := by simpa using hs
          simp only [hs', Bool.false_eq_true, if_false] at h2 h3
          apply h3
          simp [List.filter_cons, hs'] at hlt; omega

theorem sigItems_append (a b : List LRItem) : sigItems (a ++ b) = sigItems a ++ sigItems b := by
  simp [sigItems, List.filter_append]

theorem lrDrain_spec (trim : Bool) : ∀ (inp : List MTok) (pt : List LRItem) (cm : List Nat),
    sigItems (lrDrain trim inp pt cm).2.1 = sigItems pt ∧
    sigToks (lrDrain trim inp pt cm).1 = sigToks inp ∧
    (∀ t rest, (lrDrain trim inp pt cm).1 = t :: rest → t.skip = false) := by
  intro inp
  induction inp with
  | nil => intro pt cm; simp [lrDrain]
  | cons t rest ih =>
    intro pt cm
    simp only [lrDrain]
    by_cases hs : t.skip = true
    · simp only [hs, if_true]
      obtain ⟨h1, h2, h3⟩ := ih (if trim then pt else ⟨false, .tok t.id t.ty, [.tok t.id]⟩ :: pt)
        (if t.comment then t.id :: cm else cm)
      refine ⟨?_, by rw [h2, sigToks_cons_skip hs], h3⟩
      rw [h1]; cases trim <;> simp [sigItems]
    · have hs' : t.skip = false := by simpa using hs
      simp only [hs', Bool.false_eq_true, if_false]
      refine ⟨by trivial, by trivial, ?_⟩
      intro t' rest' h
      injection h with h1 _
      subst h1; exact hs'

/-- What `callAction` does to the counting entries: the top `len` of them are replaced by the new
    non-terminal entry, and they are the action's arguments (in order). -/
theorem callAction_spec {T : LRTables} {trim : Bool} {s s' : LRSt} {p n : Nat}
    (h : callAction T trim s p = some (s', n)) :
    ∃ (pr : LRProd) (c : List PTItem) (rest : List PTItem), T.prods[p]? = some pr ∧ n = pr.len ∧ c.length = pr.len ∧
      sigItems s.pt = c ++ rest ∧ sigItems s'.pt = .nt pr.lhs :: rest ∧
      s'.states = s.states ∧ s'.input = s.input ∧ s'.actions = (p, c.reverse) :: s.actions := by
  unfold callAction at h
  cases hpr : T.prods[p]? with
  | none => simp [hpr] at h
  | some pr =>
    simp only [hpr] at h
    generalize hp : popN s.pt pr.len = r at h
    obtain ⟨c, rest⟩ := r
    simp only at h
    split at h
    · cases h
    · rename_i hlen
      simp only [ne_eq, Decidable.not_not] at hlen
      injection h with h
      injection h with h1 h2
      subst h1; subst h2
      obtain ⟨hpt, _, _⟩ := popN_sig _ _ _ _ hp
      refine ⟨pr, sigItems c, sigItems rest, rfl, rfl, ?_, ?_, ?_, rfl, rfl, ?_⟩
      · simp only [List.length_map, List.filter_reverse, List.length_reverse] at hlen
        simpa [sigItems] using hlen
      · rw [hpt, sigItems_append]
      · simp [sigItems]
      · simp [sigItems, List.filter_reverse, List.map_reverse]

theorem mem_of_findAct {row : LRRow} {t : Nat} {a : LRAct} (h : findAct row t = some a) :
    (t, a) ∈ row.acts := by
  simp only [findAct, Option.map_eq_some_iff] at h
  obtain ⟨⟨t', a'⟩, hfind, ha⟩ := h
  simp only at ha; subst ha
  have hmem := List.mem_of_find?_eq_some hfind
  have hpred := List.find?_some hfind
  simp only [beq_iff_eq] at hpred
  subst hpred
  exact hmem

theorem zip_all_get {α β : Type} {f : α × β → Bool} : ∀ {l1 : List α} {l2 : List β} {i : Nat} {a : α} {b : β},
    (l1.zip l2).all f = true → l1[i]? = some a → l2[i]? = some b → f (a, b) = true := by
  intro l1 l2 i a b hall h1 h2
  rw [List.all_eq_true] at hall
  apply hall
  rw [List.mem_iff_getElem?]
  exact ⟨i, by rw [List.getElem?_zip_eq_some]; exact ⟨h1, h2⟩⟩

structure LRInv (T : LRTables) (gprods : List Rule) (s : LRSt) (consumed : List Nat) : Prop where
  path : Path T s.states ((sigItems s.pt).map itemSym)
  yields : ItemsYield (gOfLR T gprods) (sigItems s.pt) consumed

theorem lrAbort_res (s : LRSt) (r : Res) (steps : Nat) : (lrAbort s r steps).res = r := rfl

theorem lrFinish_res (trim : Bool) (s : LRSt) (steps : Nat) : (lrFinish trim s steps).res = .ok := by
  unfold lrFinish; split <;> rfl

theorem path_bottom_zero {T : LRTables} (h0 : (preds T 0).isEmpty = true) {sts : List Nat} {syms : List Sym}
    (hp : Path T (0 :: sts) syms) : sts = [] ∧ syms = [] := by
  cases hp with
  | base _ => exact ⟨rfl, rfl⟩
  | step _ hs _ =>
    simp only [List.isEmpty_iff] at h0
    rw [h0] at hs; cases hs

theorem itemsYield_nil {G : Grammar} {w : List Nat} (h : ItemsYield G [] w) : w = [] := by
  cases h; rfl

/-- **Soundness of the LR loop** for valid tables: a successful run derives the whole input. -/
theorem lrLoop_sound (T : LRTables) (gprods : List Rule) (o : Opts) (hv : lrTableValid T gprods = true) :
    ∀ (fuel : Nat) (s : LRSt) (steps : Nat) (out : LROut) (consumed : List Nat),
    (∀ t ∈ s.input, t.skip = false → t.ty ≠ 0) → LRInv T gprods s consumed →
    lrLoop T o fuel s steps = out → out.res = .ok →
    Lang (gOfLR T gprods) (consumed ++ sigTypes s.input) := by
  simp only [lrTableValid, Bool.and_eq_true, beq_iff_eq] at hv
  obtain ⟨⟨⟨⟨_hlen, hprods⟩, hacc⟩, hpred0⟩, hrows⟩ := hv
  intro fuel
  induction fuel with
  | zero => intro s steps out consumed _ _ h hok; rw [← h] at hok; simp [lrLoop, lrAbort] at hok
  | succ fuel ih =>
    intro s steps out consumed hne hinv h hok
    unfold lrLoop at h
    split at h
    · rw [← h] at hok; simp [lrAbort_res] at hok
    · obtain ⟨hd1, hd2, hd3⟩ := lrDrain_spec o.trim s.input s.pt s.comments
      generalize hd : lrDrain o.trim s.input s.pt s.comments = r at h hd1 hd2 hd3
      obtain ⟨inp, pt, cm⟩ := r
      simp only at h hd1 hd2 hd3
      have hsig : sigTypes s.input = sigTypes inp := by simp [sigTypes, hd2]
      have hne' : ∀ t ∈ inp, t.skip = false → t.ty ≠ 0 := by
        intro t ht hs
        have : t ∈ sigToks inp := by simp [sigToks, ht, hs]
        rw [hd2] at this
        simp only [sigToks, List.mem_filter] at this
        exact hne t this.1 hs
      cases hst : s.states with
      | nil => simp only [hst] at h; rw [← h] at hok; simp [lrAbort_res] at hok
      | cons cur sts =>
        simp only [hst] at h
        cases hrow : T.rows[cur]? with
        | none => simp only [hrow] at h; rw [← h] at hok; simp [lrAbort_res] at hok
        | some row =>
          simp only [hrow] at h
          have hrowmem : (row, cur) ∈ T.rows.zipIdx := by
            rw [List.mem_zipIdx_iff_getElem?]; simpa using hrow
          have hpath : Path T (cur :: sts) ((sigItems pt).map itemSym) := by
            rw [hd1, ← hst]; exact hinv.path
          have hyield : ItemsYield (gOfLR T gprods) (sigItems pt) consumed := by
            rw [hd1]; exact hinv.yields
          generalize hterm : nextTerm inp = term at h
          cases hact : findAct row term with
          | none => simp only [hact] at h; rw [← h] at hok; simp [lrAbort_res] at hok
          | some act =>
            simp only [hact] at h
            have hactmem := mem_of_findAct hact
            have hrowchk := (List.all_eq_true.1 hrows) (row, cur) hrowmem
            simp only [List.all_eq_true] at hrowchk
            have hchk := hrowchk (term, act) hactmem
            cases act with
            | shift next =>
              simp only at h
              cases hinp : inp with
              | nil => simp only [hinp] at h; rw [← h] at hok; simp [lrAbort_res] at hok
              | cons t rest =>
                simp only [hinp] at h
                have hty : term = t.ty := by rw [← hterm, hinp]; rfl
                have hskip : t.skip = false := hd3 t rest hinp
                obtain ⟨ha, hp⟩ := acc_of_edge hacc (edge_of_shift hrow hact)
                have hinv' : LRInv T gprods
                    { states := next :: cur :: sts, input := rest,
                      pt := ⟨true, .tok t.id t.ty, [.tok t.id]⟩ :: pt, actions := s.actions, comments := cm }
                    (consumed ++ [t.ty]) := by
                  constructor
                  · simp only [sigItems, List.filter_cons, if_true, List.map_cons]
                    rw [hty] at ha
                    exact Path.step ha hp hpath
                  · simp only [sigItems, List.filter_cons, if_true, List.map_cons]
                    exact ItemsYield.cons hyield (by simpa [itemSym] using Yield.term t.ty .nil)
                have hne2 : ∀ x ∈ rest, x.skip = false → x.ty ≠ 0 := by
                  intro x hx; exact hne' x (by rw [hinp]; exact List.mem_cons_of_mem _ hx)
                have := ih _ _ out _ hne2 hinv' h hok
                rw [hsig, hinp]
                simp only [sigTypes, sigToks_cons_sig hskip, List.map_cons]
                simpa [sigTypes, List.append_assoc] using this
            | reduce nt p =>
              simp only at h
              cases hca : callAction T o.trim ⟨cur :: sts, inp, pt, s.actions, cm⟩ p with
              | none => simp only [hca] at h; rw [← h] at hok; simp [lrAbort_res] at hok
              | some x =>
                obtain ⟨s', n⟩ := x
                simp only [hca] at h
                obtain ⟨pr, c, rest, hpr, hn, hclen, hsplit, hnew, hstates, hinput, _⟩ := callAction_spec hca
                simp only at hsplit hstates hinput
                -- what the table check gives for this reduce action
                simp only at hchk
                cases hgr : gprods[p]? with
                | none => simp [hgr] at hchk
                | some r =>
                  simp only [hgr, Bool.and_eq_true, beq_iff_eq] at hchk
                  obtain ⟨hlhs, hback⟩ := hchk
                  have hzip := zip_all_get hprods hgr hpr
                  simp only [Bool.and_eq_true, beq_iff_eq] at hzip
                  obtain ⟨hl2, hlen2⟩ := hzip
                  have hrr : r.rhs.reverse.length ≤ ((sigItems pt).map itemSym).length := by
                    rw [hsplit]; simp; omega
                  obtain ⟨htake, s2, sts', hdrop, _, hpath2⟩ := Path.spells r.rhs.reverse cur sts _ hpath hback hrr
                  have hcsyms : c.map itemSym = r.rhs.reverse := by
                    have : ((sigItems pt).map itemSym).take r.rhs.reverse.length = c.map itemSym := by
                      rw [hsplit, List.map_append, List.take_left' (by simp; omega)]
                    rw [← this]; exact htake
                  have hdropsyms : ((sigItems pt).map itemSym).drop r.rhs.reverse.length = rest.map itemSym := by
                    rw [hsplit, List.map_append, List.drop_left' (by simp; omega)]
                  rw [hdropsyms] at hpath2
                  have hnlen : n = r.rhs.reverse.length := by simp; omega
                  split at h
                  · rw [← h] at hok; simp [lrAbort_res] at hok
                  · rw [hstates] at h
                    rw [hnlen, hdrop] at h
                    simp only at h
                    cases hg : (T.rows[s2]?).bind (fun r => findGoto r nt) with
                    | none => simp only [hg] at h; rw [← h] at hok; simp [lrAbort_res] at hok
                    | some g =>
                      simp only [hg] at h
                      simp only [Option.bind_eq_some_iff] at hg
                      obtain ⟨row2, hrow2, hgoto⟩ := hg
                      obtain ⟨ha, hp⟩ := acc_of_edge hacc (edge_of_goto hrow2 hgoto)
                      obtain ⟨w1, w2, hw, hy1, hy2⟩ := ItemsYield.split c rest consumed (by rw [← hsplit]; exact hyield)
                      have hrmem : r ∈ gprods := List.mem_of_getElem? hgr
                      have hynt : Yield (gOfLR T gprods) [Sym.n r.lhs] w2 := by
                        rw [hcsyms, List.reverse_reverse] at hy2
                        have := Yield.nonterm (G := gOfLR T gprods) r (ss := []) hrmem hy2 .nil
                        simpa using this
                      have hinv' : LRInv T gprods { s' with states := g :: s2 :: sts' } consumed := by
                        constructor
                        · simp only [hnew, List.map_cons, itemSym]
                          rw [← hl2, hlhs]
                          exact Path.step ha hp hpath2
                        · simp only [hnew]
                          rw [hw]
                          exact ItemsYield.cons hy1 (by simpa [itemSym, ← hl2] using hynt)
                      have hne2 : ∀ x ∈ ({ s' with states := g :: s2 :: sts' } : LRSt).input, x.skip = false → x.ty ≠ 0 := by
                        simp only [hinput]; exact hne'
                      have := ih { s' with states := g :: s2 :: sts' } _ out _ hne2 hinv' h hok
                      simp only [hinput] at this
                      rw [hsig]; exact this
            | accept =>
              simp only at h hchk
              simp only [Bool.and_eq_true, beq_iff_eq] at hchk
              obtain ⟨hterm0, hchk⟩ := hchk
              -- no significant token is left
              have hinp : inp = [] := by
                cases hi : inp with
                | nil => rfl
                | cons t rest =>
                  exfalso
                  have hty : term = t.ty := by rw [← hterm, hi]; rfl
                  exact hne' t (by rw [hi]; exact List.mem_cons_self) (hd3 t rest hi) (by omega)
              cases hp0 : T.prods.findIdx? (·.lhs == T.start) with
              | none => simp [hp0] at hchk
              | some p0 =>
                simp only [hp0] at h hchk
                cases hca : callAction T o.trim ⟨cur :: sts, inp, pt, s.actions, cm⟩ p0 with
                | none => simp only [hca] at h; rw [← h] at hok; simp [lrAbort_res] at hok
                | some x =>
                  obtain ⟨s', n⟩ := x
                  obtain ⟨pr, c, rest, hpr, hn, hclen, hsplit, hnew, hstates, hinput, _⟩ := callAction_spec hca
                  simp only at hsplit
                  cases hgr : gprods[p0]? with
                  | none => simp [hgr] at hchk
                  | some r =>
                    simp only [hgr] at hchk
                    have hzip := zip_all_get hprods hgr hpr
                    simp only [Bool.and_eq_true, beq_iff_eq] at hzip
                    obtain ⟨hl2, hlen2⟩ := hzip
                    have hrr : r.rhs.reverse.length ≤ ((sigItems pt).map itemSym).length := by
                      rw [hsplit]; simp; omega
                    obtain ⟨htake, s2, sts', hdrop, hfin, hpath2⟩ := Path.spells r.rhs.reverse cur sts _ hpath hchk hrr
                    simp only [beq_iff_eq] at hfin
                    subst hfin
                    have hdropsyms : ((sigItems pt).map itemSym).drop r.rhs.reverse.length = rest.map itemSym := by
                      rw [hsplit, List.map_append, List.drop_left' (by simp; omega)]
                    rw [hdropsyms] at hpath2
                    obtain ⟨_, hrest⟩ := path_bottom_zero hpred0 hpath2
                    have hrest' : rest = [] := by simpa using hrest
                    subst hrest'
                    have hcsyms : c.map itemSym = r.rhs.reverse := by
                      have : ((sigItems pt).map itemSym).take r.rhs.reverse.length = c.map itemSym := by
                        rw [hsplit, List.map_append, List.take_left' (by simp; omega)]
                      rw [← this]; exact htake
                    obtain ⟨w1, w2, hw, hy1, hy2⟩ := ItemsYield.split c [] consumed (by rw [← hsplit]; exact hyield)
                    have hw1 := itemsYield_nil hy1
                    subst hw1
                    rw [hcsyms, List.reverse_reverse] at hy2
                    have hrmem : r ∈ gprods := List.mem_of_getElem? hgr
                    have hstart : r.lhs = T.start := by
                      have := List.findIdx?_eq_some_iff_getElem.1 hp0
                      obtain ⟨hlt, hb, _⟩ := this
                      have hpr' : T.prods[p0]? = some T.prods[p0] := List.getElem?_eq_getElem hlt
                      rw [hpr] at hpr'
                      injection hpr' with hpr'
                      subst hpr'
                      simp only [beq_iff_eq] at hb
                      rw [hl2]; exact hb
                    have := Yield.nonterm (G := gOfLR T gprods) r (ss := []) hrmem hy2 .nil
                    rw [hsig, hinp]
                    simp only [sigTypes, sigToks, List.filter_nil, List.map_nil, List.append_nil]
                    rw [hw]
                    simpa [Lang, gOfLR, hstart] using this

end ParolModel
