import ParolModel.Proofs.TerminalsCat
/-! # L7 refinement: `eps`, `end`, and the `TerminalString` / `KTuple` wrappers -/
namespace ParolModel
namespace Tm

theorem validArg_EPS (b : Nat) : validArg b EPS = true := by simp [validArg]

theorem eps_spec {m : Nat} (h : m + 1 < 4096) :
    ∃ t, eps m = some t ∧ WF t ∧ absS t = ⟨bitsFor m, [TSym.eps]⟩ := by
  obtain ⟨hb1, hb12, hbn⟩ := ofNat8_bitsFor h
  generalize hbdef : BitVec.ofNat 8 (bitsFor m) = b at *
  obtain ⟨hw0, hb0, hl0, _⟩ := emptyW_spec b hb1 hb12
  have hv : validArg (bits (emptyW b)).toNat EPS = true := validArg_EPS _
  obtain ⟨f1, f2, f3, _⟩ := set_fields hw0 (show 0 < 10 by omega) (BitVec.ofNat 128 EPS)
  rw [hb0] at f1 f2 f3
  let t1 := setS (emptyW b) b (off (emptyW b) 0) (BitVec.ofNat 128 EPS)
  let t' := setNextIndex t1 1
  have hb' : bits t' = b := by
    show bits (setNextIndex t1 1) = _
    rw [bits_setNextIndex _ _ (by decide)]; exact f1
  have hn' : nextIndex t' = BitVec.ofNat 8 1 := nextIndex_setNextIndex _ _ (by decide)
  have hpay : t' &&& PAYLOAD = t1 &&& PAYLOAD := payload_setNextIndex _ _
  have hz0 := wf_zeroAbove hw0
  rw [hl0] at hz0
  have hz' : zeroAbove t' (BitVec.ofNat 8 (1 * b.toNat)) := by
    rw [zeroAbove_congr hpay]
    have := zeroAbove_setS_push (emptyW b) b (off (emptyW b) 0) (BitVec.ofNat 128 EPS) hb12
      (off_le_108 hw0 (by omega)) (by have := off_add_bits_le_120 hw0 (show 0 < 10 by omega); rw [hb0] at this; exact this) hz0
    have hoff : off (emptyW b) 0 + b = BitVec.ofNat 8 (1 * b.toNat) := by
      have := off_succ (emptyW b) 0
      rw [hb0] at this; rw [← this]; simp only [off, hb0]
    rw [hoff] at this
    exact this
  obtain ⟨hw', hl'⟩ := wf_intro t' b 1 hb' hn' hb1 hb12 (by omega) hz'
  refine ⟨t', ?_, hw', ?_⟩
  · unfold eps
    rw [new_eq h, hbdef]
    simp only [set_eq hw0 (show 0 < 10 by omega) hv, hb0]
    rfl
  · simp only [absS, Spec.mk.injEq]
    refine ⟨by rw [hb', hbn], ?_⟩
    apply abs_eq_of
    · simp [hl']
    · intro i hi
      have hi0 : i = 0 := by simpa using hi
      subst hi0
      simp only [List.getElem_cons_zero]
      rw [symAt_eq hw' (by omega), hb', off_congr (show bits t' = bits (emptyW b) by rw [hb', hb0])]
      rw [eltS_congr hpay _ _ hb12 (off_le_108 hw0 (by omega))
        (by have := off_add_bits_le_120 hw0 (show 0 < 10 by omega); rw [hb0] at this; exact this), f3]
      have := sym_stored b hb12 EPS (validArg_EPS _)
      rw [this]; rfl

theorem end_spec {m : Nat} (h : m + 1 < 4096) :
    ∃ t, «end» m = some t ∧ WF t ∧ absS t = ⟨bitsFor m, [TSym.term EOI]⟩ := by
  obtain ⟨hb1, hb12, hbn⟩ := ofNat8_bitsFor h
  generalize hbdef : BitVec.ofNat 8 (bitsFor m) = b at *
  obtain ⟨hw0, hb0, hl0, _⟩ := emptyW_spec b hb1 hb12
  let t' := setNextIndex (emptyW b) 1
  have hb' : bits t' = b := by
    show bits (setNextIndex _ 1) = _
    rw [bits_setNextIndex _ _ (by decide)]; exact hb0
  have hn' : nextIndex t' = BitVec.ofNat 8 1 := nextIndex_setNextIndex _ _ (by decide)
  have hpay : t' &&& PAYLOAD = 0#128 &&& PAYLOAD := by
    show setNextIndex (setBitsRaw 0#128 b) 1 &&& PAYLOAD = _
    rw [payload_setNextIndex, payload_setBitsRaw]
  have hz' : zeroAbove t' (BitVec.ofNat 8 (1 * b.toNat)) := by
    rw [zeroAbove_congr hpay]; exact zeroAbove_zero _
  obtain ⟨hw', hl'⟩ := wf_intro t' b 1 hb' hn' hb1 hb12 (by omega) hz'
  refine ⟨t', ?_, hw', ?_⟩
  · unfold «end»
    rw [new_eq h, hbdef]
  · simp only [absS, Spec.mk.injEq]
    refine ⟨by rw [hb', hbn], ?_⟩
    apply abs_eq_of
    · simp [hl']
    · intro i hi
      have hi0 : i = 0 := by simpa using hi
      subst hi0
      simp only [List.getElem_cons_zero]
      rw [symAt_eq hw' (by omega), hb']
      have h108 : off t' 0 ≤ 108 := off_le_108 hw' (by omega)
      have h120 : off t' 0 + b ≤ 120 := by
        have := off_add_bits_le_120 hw' (show 0 < 10 by omega); rw [hb'] at this; exact this
      rw [eltS_congr hpay _ _ hb12 h108 h120, eltS_zero]
      have hne : ¬ (0#128 = maskS b) := fun hh => maskS_ne_zero b hb1 hb12 hh.symm
      simp [symOfRaw, hne, EOI]

/-! ## wrappers -/

/-- `if terminals.is_k_complete(k) { Complete(terminals) } else { Incomplete(terminals) }` at list level -/
def cls (t : BitVec 128) (k : Nat) : TString :=
  if specIsKComplete (abs t) k = true then .complete t else .incomplete t

theorem cls_inner (t : BitVec 128) (k : Nat) : (cls t k).inner = t := by
  unfold cls; split <;> rfl
theorem cls_flag (t : BitVec 128) (k : Nat) : (cls t k).isKComplete = specIsKComplete (abs t) k := by
  unfold cls; cases h : specIsKComplete (abs t) k <;> simp [TString.isKComplete]

theorem classify_spec {t : BitVec 128} (h : WF t) (k : Nat) : TString.classify t k = some (cls t k) := by
  unfold TString.classify cls
  rw [isKComplete_spec h]
  cases specIsKComplete (abs t) k <;> simp

theorem ktuple_of_spec {t : BitVec 128} (h : WF t) (k : Nat) :
    ∃ x, KTuple.of t k = some x ∧ WF x.terminals.inner ∧ bits x.terminals.inner = bits t ∧
      abs x.terminals.inner = (abs t).take k ∧ x.isKComplete = specIsKComplete ((abs t).take k) k ∧ x.k = k := by
  obtain ⟨t', h1, hw, hb, ha⟩ := of_spec h k
  simp only [specOf] at ha
  refine ⟨⟨cls t' k, k⟩, ?_, ?_, ?_, ?_, ?_, rfl⟩
  · unfold KTuple.of; rw [h1]; simp only [classify_spec hw k]
  · simp only [cls_inner]; exact hw
  · simp only [cls_inner]; exact hb
  · simp only [cls_inner]; exact ha
  · simp only [KTuple.isKComplete, cls_flag, ha]

theorem ktuple_fromSlice_spec {m : Nat} (hm : m + 1 < 4096) (vs : List Nat) (k : Nat)
    (hv : (vs.take k).all (validArg (bitsFor m)) = true) :
    ∃ x, KTuple.fromSlice vs k m = some x ∧ WF x.terminals.inner ∧ (bits x.terminals.inner).toNat = bitsFor m ∧
      abs x.terminals.inner = specExtend [] ((vs.take k).map symOfArg) ∧
      x.isKComplete = specIsKComplete (abs x.terminals.inner) k ∧ x.k = k := by
  obtain ⟨hb1, hb12, hbn⟩ := ofNat8_bitsFor hm
  obtain ⟨hw0, hb0, _, ha0⟩ := emptyW_spec _ hb1 hb12
  obtain ⟨t', he, hw, hb, ha⟩ := extend_spec hw0 (vs.take k) (by rw [hb0, hbn]; exact hv)
  rw [ha0] at ha
  refine ⟨⟨cls t' k, k⟩, ?_, ?_, ?_, ?_, ?_, rfl⟩
  · unfold KTuple.fromSlice; rw [new_eq hm]; simp only [he, classify_spec hw k]
  · simp only [cls_inner]; exact hw
  · simp only [cls_inner]; rw [hb, hb0, hbn]
  · simp only [cls_inner]; exact ha
  · simp only [KTuple.isKComplete, cls_flag, cls_inner]

/-- `KTuple::k_concat` on an incomplete left operand; a complete one is returned unchanged. -/
theorem ktuple_kConcat_spec {x o : KTuple} {t : BitVec 128} (hx : x.terminals = .incomplete t) (ht : WF t)
    (ho : WF o.terminals.inner) (hb : bits o.terminals.inner = bits t) {k : Nat} (hk : k ≤ 10) :
    ∃ y, x.kConcat o k = some y ∧ WF y.terminals.inner ∧
      abs y.terminals.inner = specKConcat (abs t) (abs o.terminals.inner) k ∧
      y.isKComplete = specIsKComplete (abs y.terminals.inner) k ∧
      y.k = specKLen (abs y.terminals.inner) k := by
  obtain ⟨t', h1, hw, _, ha⟩ := kConcat_spec ht ho hb hk
  refine ⟨⟨cls t' k, kLen t' k⟩, ?_, ?_, ?_, ?_, ?_⟩
  · unfold KTuple.kConcat TString.kConcat; rw [hx]; simp only [h1, classify_spec hw k, cls_inner]
  · simp only [cls_inner]; exact hw
  · simp only [cls_inner]; exact ha
  · simp only [KTuple.isKComplete, cls_flag, cls_inner]
  · simp only [cls_inner, kLen_spec]

theorem ktuple_kConcat_complete {x o : KTuple} {t : BitVec 128} (hx : x.terminals = .complete t) (k : Nat) :
    x.kConcat o k = some ⟨.complete t, kLen t k⟩ := by
  unfold KTuple.kConcat TString.kConcat; rw [hx]; rfl

theorem ktuple_push_spec {x : KTuple} {t : BitVec 128} (hx : x.terminals = .incomplete t) (ht : WF t) {v : Nat}
    (hv : validArg (bits t).toNat v = true) :
    ∃ r y, x.push v = some (r, y) ∧ WF y.terminals.inner ∧ y.k = x.k ∧
      specPush (abs t) (symOfArg v) = (r, abs y.terminals.inner) ∧
      (r = true → y.isKComplete = specIsKComplete (abs y.terminals.inner) x.k) := by
  obtain ⟨r, t', h1, hw, _, hs⟩ := push_spec ht hv
  cases r with
  | false =>
    refine ⟨false, ⟨.incomplete t', x.k⟩, ?_, hw, rfl, hs, by intro hh; cases hh⟩
    unfold KTuple.push TString.push; rw [hx]; simp only [h1]
  | true =>
    refine ⟨true, ⟨cls t' x.k, x.k⟩, ?_, ?_, rfl, ?_, ?_⟩
    · unfold KTuple.push TString.push; rw [hx]; simp only [h1, classify_spec hw x.k]
    · simp only [cls_inner]; exact hw
    · simp only [cls_inner]; exact hs
    · intro _
      simp only [KTuple.isKComplete, cls_flag, cls_inner]

theorem ktuple_setK_spec {x : KTuple} (h : WF x.terminals.inner) (k : Nat) :
    ∃ y, x.setK k = some y ∧ y.terminals.inner = x.terminals.inner ∧
      y.isKComplete = specIsKComplete (abs x.terminals.inner) k ∧ y.k = k := by
  unfold KTuple.setK TString.isComplete
  rw [isKComplete_spec h]
  cases hc : specIsKComplete (abs x.terminals.inner) k
  · refine ⟨⟨x.terminals.makeIncomplete, k⟩, rfl, ?_, ?_, rfl⟩
    · cases x.terminals <;> rfl
    · simp only [KTuple.isKComplete]; cases x.terminals <;> rfl
  · refine ⟨⟨x.terminals.makeComplete, k⟩, rfl, ?_, ?_, rfl⟩
    · cases x.terminals <;> rfl
    · simp only [KTuple.isKComplete]; cases x.terminals <;> rfl

theorem specPush_lt {l : List TSym} (x : TSym) (h : l.length < 10) :
    (specPush l x).1 = true ∧ (specPush l x).2.length ≤ l.length + 1 := by
  have : ¬ l.length ≥ MAX_K := by rw [MAX_K_eq]; omega
  unfold specPush
  simp only [this, if_false]
  split <;> simp

/-- the `?`-loop of `KTupleBuilder::build` never sees an `Err` when at most `MAX_K` symbols are pushed -/
theorem pushAll_spec {t : BitVec 128} (h : WF t) (vs : List Nat) (hv : vs.all (validArg (bits t).toNat) = true)
    (hlen : len t + vs.length ≤ 10) :
    ∃ t', KTuple.pushAll t vs = some (true, t') ∧ WF t' ∧ bits t' = bits t ∧
      abs t' = specExtend (abs t) (vs.map symOfArg) := by
  induction vs generalizing t with
  | nil => exact ⟨t, rfl, h, rfl, rfl⟩
  | cons v vs ih =>
    simp only [List.all_cons, Bool.and_eq_true] at hv
    simp only [List.length_cons] at hlen
    obtain ⟨r, t1, hp, hw1, hb1, hs1⟩ := push_spec h hv.1
    obtain ⟨hr, hl⟩ := specPush_lt (l := abs t) (symOfArg v) (by simp; omega)
    rw [hs1] at hr hl
    simp only at hr hl
    subst hr
    have hl1 : len t1 ≤ len t + 1 := by simpa using hl
    obtain ⟨t2, he, hw2, hb2, ha2⟩ := ih hw1 (by rw [hb1]; exact hv.2) (by omega)
    refine ⟨t2, ?_, hw2, by rw [hb2, hb1], ?_⟩
    · simp only [KTuple.pushAll, hp]; exact he
    · simp only [List.map_cons, specExtend, hs1]; exact ha2

theorem ktuple_build_spec {m : Nat} (hm : m + 1 < 4096) (ts : List Nat) {k : Nat} (hk : k ≤ 10)
    (hv : (ts.take k).all (validArg (bitsFor m)) = true) :
    ∃ x, KTuple.build k m ts = some (some x) ∧ WF x.terminals.inner ∧ (bits x.terminals.inner).toNat = bitsFor m ∧
      abs x.terminals.inner = specExtend [] ((ts.take k).map symOfArg) ∧
      x.isKComplete = specIsKComplete (abs x.terminals.inner) k ∧ x.k = k := by
  obtain ⟨hb1, hb12, hbn⟩ := ofNat8_bitsFor hm
  obtain ⟨hw0, hb0, hl0, ha0⟩ := emptyW_spec _ hb1 hb12
  obtain ⟨t', he, hw, hb, ha⟩ := pushAll_spec hw0 (ts.take k) (by rw [hb0, hbn]; exact hv)
    (by rw [hl0, List.length_take]; omega)
  rw [ha0] at ha
  refine ⟨⟨cls t' k, k⟩, ?_, ?_, ?_, ?_, ?_, rfl⟩
  · unfold KTuple.build; rw [new_eq hm]
    simp only [he, classify_spec hw k]
    have : min k MAX_K = k := by rw [MAX_K_eq]; omega
    rw [this]
  · simp only [cls_inner]; exact hw
  · simp only [cls_inner]; rw [hb, hb0, hbn]
  · simp only [cls_inner]; exact ha
  · simp only [KTuple.isKComplete, cls_flag, cls_inner]

end Tm
end ParolModel
