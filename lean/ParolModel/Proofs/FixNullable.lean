import ParolModel.Proofs.FixGeneric
/-! Non-terminal set, ordering, and correctness of the nullable computation. -/
namespace ParolModel

/-! ## Sorted sets -/

theorem mem_sinsert {a b : Nat} {l : List Nat} : b ∈ sinsert a l ↔ b = a ∨ b ∈ l := by
  induction l with
  | nil => simp [sinsert]
  | cons c l ih =>
    simp only [sinsert]
    split
    · simp
    · split
      · rename_i h; subst h; simp
      · simp only [List.mem_cons, ih]
        constructor
        · rintro (h | h | h)
          · exact Or.inr (Or.inl h)
          · exact Or.inl h
          · exact Or.inr (Or.inr h)
        · rintro (h | h | h)
          · exact Or.inr (Or.inl h)
          · exact Or.inl h
          · exact Or.inr (Or.inr h)

theorem mem_sortSet {b : Nat} {l : List Nat} : b ∈ sortSet l ↔ b ∈ l := by
  induction l with
  | nil => simp [sortSet]
  | cons a l ih => simp [sortSet, mem_sinsert, ih]

theorem sinsert_sorted {a : Nat} {l : List Nat} (h : l.Pairwise (· < ·)) :
    (sinsert a l).Pairwise (· < ·) := by
  induction l with
  | nil => simp [sinsert]
  | cons c l ih =>
    simp only [sinsert]
    rw [List.pairwise_cons] at h
    split
    · rename_i hlt
      rw [List.pairwise_cons]
      refine ⟨?_, List.pairwise_cons.mpr h⟩
      intro x hx
      rcases List.mem_cons.mp hx with rfl | hx
      · exact hlt
      · exact Nat.lt_trans hlt (h.1 x hx)
    · split
      · exact List.pairwise_cons.mpr h
      · rename_i h1 h2
        rw [List.pairwise_cons]
        refine ⟨?_, ih h.2⟩
        intro x hx
        rcases mem_sinsert.mp hx with rfl | hx
        · omega
        · exact h.1 x hx

theorem sortSet_sorted (l : List Nat) : (sortSet l).Pairwise (· < ·) := by
  induction l with
  | nil => simp [sortSet]
  | cons a l ih => exact sinsert_sorted ih

theorem nodup_of_sorted {l : List Nat} (h : l.Pairwise (· < ·)) : l.Nodup := by
  unfold List.Nodup
  exact h.imp (fun hlt => Nat.ne_of_lt hlt)

/-! ## Grammar accessors -/

theorem mem_rhsNts {A : Nat} {r : List Sym} : A ∈ rhsNts r ↔ Sym.n A ∈ r := by
  induction r with
  | nil => simp [rhsNts]
  | cons s r ih =>
    cases s with
    | t a => simp [rhsNts, ih]
    | n a => simp [rhsNts, ih]

theorem mem_occNts {A : Nat} {ps : List Rule} :
    A ∈ occNts ps ↔ ∃ p ∈ ps, A = p.lhs ∨ Sym.n A ∈ p.rhs := by
  induction ps with
  | nil => simp [occNts]
  | cons p ps ih =>
    simp only [occNts, List.mem_cons, List.mem_append, ih, mem_rhsNts]
    constructor
    · rintro (h | h | ⟨q, hq, h⟩)
      · exact ⟨p, Or.inl rfl, Or.inl h⟩
      · exact ⟨p, Or.inl rfl, Or.inr h⟩
      · exact ⟨q, Or.inr hq, h⟩
    · rintro ⟨q, rfl | hq, h⟩
      · rcases h with h | h
        · exact Or.inl h
        · exact Or.inr (Or.inl h)
      · exact Or.inr (Or.inr ⟨q, hq, h⟩)

theorem mem_nts {A : Nat} {G : Grammar} :
    A ∈ nts G ↔ A = G.start ∨ ∃ p ∈ G.prods, A = p.lhs ∨ Sym.n A ∈ p.rhs := by
  simp [nts, mem_sortSet, mem_occNts]

theorem start_mem_nts (G : Grammar) : G.start ∈ nts G := mem_nts.mpr (Or.inl rfl)

theorem lhs_mem_nts {G : Grammar} {p : Rule} (hp : p ∈ G.prods) : p.lhs ∈ nts G :=
  mem_nts.mpr (Or.inr ⟨p, hp, Or.inl rfl⟩)

theorem rhs_mem_nts {G : Grammar} {p : Rule} (hp : p ∈ G.prods) {A : Nat} (h : Sym.n A ∈ p.rhs) :
    A ∈ nts G :=
  mem_nts.mpr (Or.inr ⟨p, hp, Or.inr h⟩)

theorem nts_sorted (G : Grammar) : (nts G).Pairwise (· < ·) := sortSet_sorted _

theorem nts_nodup (G : Grammar) : (nts G).Nodup := nodup_of_sorted (nts_sorted G)

theorem mem_matching {G : Grammar} {A : Nat} {p : Rule} :
    p ∈ matching G A ↔ p ∈ G.prods ∧ p.lhs = A := by
  simp [matching]

theorem orderingAux_sub {st : Nat} {ps : List Rule} {seen : Bool} {A : Nat}
    (h : A ∈ orderingAux st ps seen) : A ∈ occNts ps := by
  induction ps generalizing seen with
  | nil => simp [orderingAux] at h
  | cons p ps ih =>
    simp only [orderingAux, List.mem_append] at h
    simp only [occNts, List.mem_cons, List.mem_append]
    rcases h with (h | h) | h
    · split at h
      · simp at h
      · simp only [List.mem_singleton] at h; exact Or.inl h
    · exact Or.inr (Or.inl h)
    · exact Or.inr (Or.inr (ih h))

theorem occNts_sub_ordering {st : Nat} {ps : List Rule} {seen : Bool} {A : Nat}
    (h : A ∈ occNts ps) : A = st ∨ A ∈ orderingAux st ps seen := by
  induction ps generalizing seen with
  | nil => simp [occNts] at h
  | cons p ps ih =>
    simp only [occNts, List.mem_cons, List.mem_append] at h
    simp only [orderingAux, List.mem_append]
    rcases h with h | h | h
    · by_cases hst : p.lhs = st
      · exact Or.inl (h.trans hst)
      · refine Or.inr (Or.inl (Or.inl ?_))
        simp [hst, h]
    · exact Or.inr (Or.inl (Or.inr h))
    · rcases ih (seen := seen || decide (p.lhs = st)) h with h | h
      · exact Or.inl h
      · exact Or.inr (Or.inr h)

theorem mem_ntOrdering {G : Grammar} {A : Nat} : A ∈ ntOrdering G ↔ A ∈ nts G := by
  simp only [ntOrdering, nts, mem_sortSet, List.mem_cons]
  constructor
  · rintro (h | h)
    · exact Or.inl h
    · exact Or.inr (orderingAux_sub h)
  · rintro (h | h)
    · exact Or.inl h
    · exact occNts_sub_ordering h

/-! ## Yield helpers -/

theorem yield_nil_of_all {G : Grammar} {r : List Sym}
    (h : ∀ s ∈ r, ∃ a, s = Sym.n a ∧ Nullable G a) : Yield G r [] := by
  induction r with
  | nil => exact .nil
  | cons s r ih =>
    obtain ⟨a, rfl, ha⟩ := h s (List.mem_cons_self)
    have hr := ih (fun s hs => h s (List.mem_cons_of_mem _ hs))
    have := Yield.append ha hr
    simpa using this

theorem nullable_of_prod {G : Grammar} {p : Rule} (hp : p ∈ G.prods) (h : Yield G p.rhs []) :
    Nullable G p.lhs := by
  have := Yield.nonterm p hp h (.nil)
  simpa [Nullable] using this

/-! ## Nullable -/

theorem symNullableIn_iff {N : List Nat} {s : Sym} :
    symNullableIn N s = true ↔ ∃ a, s = Sym.n a ∧ a ∈ N := by
  cases s with
  | t a => simp [symNullableIn]
  | n a => simp [symNullableIn]

theorem hasNullableAlt_iff {G : Grammar} {N : List Nat} {v : Nat} :
    hasNullableAlt G N v = true ↔
      ∃ p ∈ G.prods, p.lhs = v ∧ ∀ s ∈ p.rhs, ∃ a, s = Sym.n a ∧ a ∈ N := by
  simp only [hasNullableAlt, List.any_eq_true, List.all_eq_true, mem_matching, symNullableIn_iff]
  constructor
  · rintro ⟨p, ⟨hp, hl⟩, h⟩; exact ⟨p, hp, hl, h⟩
  · rintro ⟨p, hp, hl, h⟩; exact ⟨p, ⟨hp, hl⟩, h⟩

/-- Invariant of the nullable loop. -/
def NullInv (G : Grammar) (N : List Nat) : Prop :=
  N.Nodup ∧ (∀ a ∈ N, a ∈ nts G) ∧ ∀ a ∈ N, Nullable G a

theorem nullInv_initial (G : Grammar) : NullInv G (initialNullables G (ntOrdering G)) := by
  unfold initialNullables
  refine ⟨nodup_insAll (List.nodup_nil), ?_, ?_⟩
  · intro a ha
    rcases mem_insAll.mp ha with h | h
    · exact mem_ntOrdering.mp (List.mem_filter.mp h).1
    · simp at h
  · intro a ha
    rcases mem_insAll.mp ha with h | h
    · have := (List.mem_filter.mp h).2
      simp only [List.any_eq_true, mem_matching, List.isEmpty_iff] at this
      obtain ⟨p, ⟨hp, hl⟩, he⟩ := this
      subst hl
      apply nullable_of_prod hp
      rw [he]; exact .nil
    · simp at h

theorem nullInv_sweep (G : Grammar) (N : List Nat) (h : NullInv G N) :
    NullInv G (nullableSweep G (ntOrdering G) N) := by
  obtain ⟨hn, hs, hy⟩ := h
  unfold nullableSweep
  refine ⟨nodup_sweepG hn, ?_, ?_⟩
  · apply sweepG_inv (fun a => a ∈ nts G) hs
    intro v hv S' _ a ha
    split at ha
    · simp only [List.mem_singleton] at ha; subst ha; exact mem_ntOrdering.mp hv
    · simp at ha
  · apply sweepG_inv (fun a => Nullable G a) hy
    intro v _ S' hS' a ha
    split at ha
    · rename_i hv
      simp only [List.mem_singleton] at ha; subst ha
      obtain ⟨p, hp, hl, hall⟩ := hasNullableAlt_iff.mp hv
      subst hl
      apply nullable_of_prod hp
      apply yield_nil_of_all
      intro s hs
      obtain ⟨b, rfl, hb⟩ := hall s hs
      exact ⟨b, rfl, hS' b hb⟩
    · simp at ha

/-- Completeness at a closed set: everything that derives ε consists of members. -/
theorem nullable_complete {G : Grammar} {N : List Nat}
    (hcl : ∀ v ∈ nts G, hasNullableAlt G N v = true → v ∈ N)
    {ss : List Sym} {w : List Nat} (h : Yield G ss w) (hw : w = []) :
    ∀ s ∈ ss, ∃ a, s = Sym.n a ∧ a ∈ N := by
  induction h with
  | nil => simp
  | term a _ _ => cases hw
  | @nonterm p ss u v hp _ _ ih1 ih2 =>
    have hu : u = [] := (List.append_eq_nil_iff.mp hw).1
    have hv : v = [] := (List.append_eq_nil_iff.mp hw).2
    intro s hs
    rcases List.mem_cons.mp hs with rfl | hs
    · refine ⟨p.lhs, rfl, hcl _ (lhs_mem_nts hp) ?_⟩
      exact hasNullableAlt_iff.mpr ⟨p, hp, rfl, ih1 hu⟩
    · exact ih2 hv s hs

theorem nullableCore_spec {G : Grammar} {fuel : Nat} {l : List Nat}
    (h : nullableCore G fuel = some l) : ∀ A, A ∈ l ↔ Nullable G A := by
  unfold nullableCore at h
  simp only [Option.map_eq_some_iff] at h
  obtain ⟨R, hR, rfl⟩ := h
  obtain ⟨S₀, hinv, hRe, hlen⟩ :=
    iterG_some (NullInv G) (nullInv_sweep G) (nullInv_initial G) hR
  obtain ⟨hfix, hcl⟩ := sweepG_fix (cand := fun v N => if hasNullableAlt G N v then [v] else [])
    (xs := ntOrdering G) (S := S₀) hlen
  have hRS : R = S₀ := hRe.trans hfix
  subst hRS
  intro A
  rw [mem_sortSet]
  constructor
  · exact hinv.2.2 A
  · intro hA
    have hcl' : ∀ v ∈ nts G, hasNullableAlt G R v = true → v ∈ R := by
      intro v hv hh
      have := hcl v (mem_ntOrdering.mpr hv) v
      simp only [hh, if_true, List.mem_singleton] at this
      exact this trivial
    obtain ⟨a, ha, hm⟩ := nullable_complete hcl' hA rfl (Sym.n A) (List.mem_singleton.mpr rfl)
    injection ha with ha
    subst ha
    exact hm

theorem nullableSet_isSome (G : Grammar) : (nullableSet G).isSome := by
  unfold nullableSet nullableCore
  rw [Option.isSome_map]
  apply iterG_isSome (NullInv G) (nts G).length (nullInv_sweep G)
  · intro S hS
    exact length_le_of_nodup_subset hS.1 hS.2.1
  · exact nullInv_initial G
  · unfold nullableFuel; omega

theorem nullableSet_sorted {G : Grammar} {l : List Nat} (h : nullableSet G = some l) :
    l.Pairwise (· < ·) := by
  unfold nullableSet nullableCore at h
  simp only [Option.map_eq_some_iff] at h
  obtain ⟨R, _, rfl⟩ := h
  exact sortSet_sorted R

end ParolModel
