import ParolModel.Model.Names
/-! Helper lemmas for C33 (name generation). Core Lean only. -/
namespace ParolModel
namespace Names

/-! ### characters -/

theorem toUpper_alnum (c : Char) (h : c.isAlphanum) : c.toUpper.isAlphanum := by
  simp only [Char.isAlphanum, Char.isAlpha, Char.isUpper, Char.isLower, Char.isDigit, Char.toUpper] at *
  split
  · rename_i h1
    simp only [ge_iff_le, Bool.or_eq_true, Bool.and_eq_true, decide_eq_true_eq, UInt32.le_iff_toNat_le,
      UInt32.toNat_add] at h1 ⊢
    simp at h1 ⊢
    omega
  · exact h

theorem toLower_alnum (c : Char) (h : c.isAlphanum) : c.toLower.isAlphanum := by
  simp only [Char.isAlphanum, Char.isAlpha, Char.isUpper, Char.isLower, Char.isDigit, Char.toLower] at *
  split
  · rename_i h1
    simp only [ge_iff_le, Bool.or_eq_true, Bool.and_eq_true, decide_eq_true_eq, UInt32.le_iff_toNat_le,
      UInt32.toNat_add] at h1 ⊢
    simp at h1 ⊢
    omega
  · exact h

theorem toLower_underscore : Char.toLower '_' = '_' := by decide

theorem identCont_of_alnum {c : Char} (h : c.isAlphanum) : isIdentCont c = true := by
  simp [isIdentCont, h]

theorem identStart_of_cont_not_digit {c : Char} (h : isIdentCont c = true) (hd : c.isDigit = false) :
    isIdentStart c = true := by
  simp only [isIdentCont, isIdentStart, Char.isAlphanum, Bool.or_eq_true, decide_eq_true_eq] at *
  rcases h with (h | h) | h
  · exact Or.inl h
  · rw [hd] at h; cases h
  · exact Or.inr h

theorem toLower_identCont {c : Char} (h : isIdentCont c = true) : isIdentCont c.toLower = true := by
  simp only [isIdentCont, Bool.or_eq_true, decide_eq_true_eq] at h
  rcases h with h | h
  · exact identCont_of_alnum (toLower_alnum c h)
  · subst h; decide

theorem toUpper_identCont_of_alnum {c : Char} (h : c.isAlphanum) : isIdentCont c.toUpper = true :=
  identCont_of_alnum (toUpper_alnum c h)

/-- `validIdent` from its two ingredients. -/
theorem validIdent_cons {c : Char} {cs : Str} (h1 : isIdentStart c = true) (h2 : cs.all isIdentCont = true) :
    validIdent (c :: cs) = true := by
  simp [validIdent, h1, h2]

/-- A non-empty string of identifier characters is an identifier once a leading digit is guarded by `_`. -/
theorem validIdent_guard {r : Str} (hne : r ≠ []) (hall : r.all isIdentCont = true) :
    validIdent (if startsWithDigit r then '_' :: r else r) = true := by
  cases r with
  | nil => exact absurd rfl hne
  | cons c cs =>
    have hs : startsWithDigit (c :: cs) = c.isDigit := rfl
    by_cases hd : startsWithDigit (c :: cs) = true
    · rw [if_pos hd]; exact validIdent_cons (by decide) hall
    · rw [if_neg hd]
      simp only [List.all_cons, Bool.and_eq_true] at hall
      rw [hs] at hd
      exact validIdent_cons (identStart_of_cont_not_digit hall.1 (by simpa using hd)) hall.2

/-! ### `utils::generate_name` -/

theorem genNameLoop_not_mem (excl : List Str) (pre : Str) :
    ∀ fuel num r, genNameLoop excl pre fuel num = some r → r ∉ excl := by
  intro fuel
  induction fuel with
  | zero => intro num r h; simp [genNameLoop] at h
  | succ f ih =>
    intro num r h
    simp only [genNameLoop] at h
    split at h
    · exact ih _ _ h
    · rename_i hc
      cases h
      simpa using hc

theorem toDigits_inj {a b : Nat} (h : Nat.toDigits 10 a = Nat.toDigits 10 b) : a = b := by
  have := congrArg (fun l => Nat.ofDigitChars 10 l 0) h
  simpa [Nat.ofDigitChars_ten_toDigits] using this

/-- Removing every copy of a name that the loop will not produce again does not change the loop. -/
theorem genNameLoop_filter (excl : List Str) (pre : Str) (k : Nat) :
    ∀ fuel num, k < num →
      genNameLoop (excl.filter (· != pre ++ Nat.toDigits 10 k)) pre fuel num = genNameLoop excl pre fuel num := by
  intro fuel
  induction fuel with
  | zero => intro num _; rfl
  | succ f ih =>
    intro num hk
    simp only [genNameLoop]
    have hne : (pre ++ Nat.toDigits 10 num) ≠ (pre ++ Nat.toDigits 10 k) := by
      intro h
      have := toDigits_inj (List.append_cancel_left h)
      omega
    have hc : (excl.filter (· != pre ++ Nat.toDigits 10 k)).contains (pre ++ Nat.toDigits 10 num)
        = excl.contains (pre ++ Nat.toDigits 10 num) := by
      rw [Bool.eq_iff_iff]
      simp only [List.contains_iff_mem, List.mem_filter, bne_iff_ne, ne_eq]
      exact ⟨fun h => h.1, fun h => ⟨h, hne⟩⟩
    rw [hc, ih (num + 1) (by omega)]

theorem length_filter_lt_of_mem {α} [BEq α] [LawfulBEq α] (l : List α) (x : α) (h : x ∈ l) :
    (l.filter (· != x)).length < l.length := by
  induction l with
  | nil => cases h
  | cons y ys ih =>
    simp only [List.filter_cons]
    by_cases hyx : y = x
    · subst hyx
      simp only [bne_self_eq_false, Bool.false_eq_true, ↓reduceIte, List.length_cons]
      exact Nat.lt_succ_of_le (List.length_filter_le _ _)
    · have hm : x ∈ ys := by
        cases h with
        | head => exact absurd rfl hyx
        | tail _ h => exact h
      have : (y != x) = true := by simpa using hyx
      simp only [this, ↓reduceIte, List.length_cons]
      exact Nat.succ_lt_succ (ih hm)

/-- Fuel bound: more fuel than exclusions always suffices (pigeonhole on the distinct candidates). -/
theorem genNameLoop_isSome (pre : Str) :
    ∀ fuel (excl : List Str) num, excl.length < fuel → (genNameLoop excl pre fuel num).isSome = true := by
  intro fuel
  induction fuel with
  | zero => intro excl num h; omega
  | succ f ih =>
    intro excl num h
    simp only [genNameLoop]
    split
    · rename_i hc
      have hm : (pre ++ Nat.toDigits 10 num) ∈ excl := by simpa using hc
      rw [← genNameLoop_filter excl pre num f (num + 1) (by omega)]
      apply ih
      have := length_filter_lt_of_mem excl _ hm
      omega
    · rfl

theorem generateNameFuel_not_mem (fuel : Nat) (excl : List Str) (pref r : Str)
    (h : generateNameFuel fuel excl pref = some r) : r ∉ excl := by
  unfold generateNameFuel at h
  split at h
  · exact genNameLoop_not_mem _ _ _ _ _ h
  · rename_i hc
    cases h
    simpa using hc

theorem generateName_isSome' (excl : List Str) (pref : Str) : (generateName excl pref).isSome = true := by
  unfold generateName generateNameFuel
  split
  · exact genNameLoop_isSome _ _ _ _ (by omega)
  · rfl

/-! ### the fold -/

theorem foldNames_isSome' : ∀ (ps acc : List Str), (foldNames acc ps).isSome = true := by
  intro ps
  induction ps with
  | nil => intro acc; rfl
  | cons p ps ih =>
    intro acc
    simp only [foldNames]
    have := generateName_isSome' acc p
    cases hg : generateName acc p with
    | none => simp [hg] at this
    | some n => exact ih _

theorem foldNames_nodup' : ∀ (ps acc r : List Str), acc.Nodup → foldNames acc ps = some r → r.Nodup := by
  intro ps
  induction ps with
  | nil => intro acc r hn h; cases h; exact hn
  | cons p ps ih =>
    intro acc r hn h
    simp only [foldNames] at h
    cases hg : generateName acc p with
    | none => simp [hg] at h
    | some n =>
      simp only [hg] at h
      have hnm := generateNameFuel_not_mem _ _ _ _ hg
      refine ih _ _ ?_ h
      rw [List.nodup_append]
      refine ⟨hn, by simp, ?_⟩
      intro a ha b hb
      simp at hb
      subst hb
      intro hab; subst hab; exact hnm ha

theorem foldNames_length : ∀ (ps acc r : List Str), foldNames acc ps = some r → r.length = acc.length + ps.length := by
  intro ps
  induction ps with
  | nil => intro acc r h; cases h; simp
  | cons p ps ih =>
    intro acc r h
    simp only [foldNames] at h
    cases hg : generateName acc p with
    | none => simp [hg] at h
    | some n =>
      simp only [hg] at h
      have := ih _ _ h
      simp at this ⊢
      omega

end Names
end ParolModel
