import ParolModel.Model.Names
/-! Helper lemmas for C33 (name generation). Core Lean only. -/
namespace ParolModel
namespace Names

/-! ### characters -/

theorem toUpper_alnum (c : Char) (h : c.isAlphanum) : c.toUpper.isAlphanum := by
  simp only [Char.isAlphanum, Char.isAlpha, Char.isUpper, Char.isLower, Char.isDigit, Char.toUpper] at *
  split
  · rename_i h1
    simp only [ge_iff_le, Bool.or_eq_true, Bool.and_eq_true, decide_eq_true_eq, UInt32.le_iff_toNat_le,
      UInt32.toNat_add] at h1 ⊢
    simp at h1 ⊢
    omega
  · exact h

theorem toLower_alnum (c : Char) (h : c.isAlphanum) : c.toLower.isAlphanum := by
  simp only [Char.isAlphanum, Char.isAlpha, Char.isUpper, Char.isLower, Char.isDigit, Char.toLower] at *
  split
  · rename_i h1
    simp only [ge_iff_le, Bool.or_eq_true, Bool.and_eq_true, decide_eq_true_eq, UInt32.le_iff_toNat_le,
      UInt32.toNat_add] at h1 ⊢
    simp at h1 ⊢
    omega
  · exact h

theorem toLower_underscore : Char.toLower '_' = '_' := by decide

theorem identCont_of_alnum {c : Char} (h : c.isAlphanum) : isIdentCont c = true := by
  simp [isIdentCont, h]

theorem identStart_of_cont_not_digit {c : Char} (h : isIdentCont c = true) (hd : c.isDigit = false) :
    isIdentStart c = true := by
  simp only [isIdentCont, isIdentStart, Char.isAlphanum, Bool.or_eq_true, decide_eq_true_eq] at *
  rcases h with (h | h) | h
  · exact Or.inl h
  · rw [hd] at h; cases h
  · exact Or.inr h

theorem toLower_identCont {c : Char} (h : isIdentCont c = true) : isIdentCont c.toLower = true := by
  simp only [isIdentCont, Bool.or_eq_true, decide_eq_true_eq] at h
  rcases h with h | h
  · exact identCont_of_alnum (toLower_alnum c h)
  · subst h; decide

theorem toUpper_identCont_of_alnum {c : Char} (h : c.isAlphanum) : isIdentCont c.toUpper = true :=
  identCont_of_alnum (toUpper_alnum c h)

/-- `validIdent` from its two ingredients. -/
theorem validIdent_cons {c : Char} {cs : Str} (h1 : isIdentStart c = true) (h2 : cs.all isIdentCont = true) :
    validIdent (c :: cs) = true := by
  simp [validIdent, h1, h2]

/-- A non-empty string of identifier characters is an identifier once a leading digit is guarded by `_`. -/
theorem validIdent_guard {r : Str} (hne : r ≠ []) (hall : r.all isIdentCont = true) :
    validIdent (if startsWithDigit r then '_' :: r else r) = true := by
  cases r with
  | nil => exact absurd rfl hne
  | cons c cs =>
    have hs : startsWithDigit (c :: cs) = c.isDigit := rfl
    by_cases hd : startsWithDigit (c :: cs) = true
    · rw [if_pos hd]; exact validIdent_cons (by decide) hall
    · rw [if_neg hd]
      simp only [List.all_cons, Bool.and_eq_true] at hall
      rw [hs] at hd
      exact validIdent_cons (identStart_of_cont_not_digit hall.1 (by simpa using hd)) hall.2

/-! ### `utils::generate_name` -/

theorem genNameLoop_not_mem (excl : List Str) (pre : Str) :
    ∀ fuel num r, genNameLoop excl pre fuel num = some r → r ∉ excl := by
  intro fuel
  induction fuel with
  | zero => intro num r h; simp [genNameLoop] at h
  | succ f ih =>
    intro num r h
    simp only [genNameLoop] at h
    split at h
    · exact ih _ _ h
    · rename_i hc
      cases h
      simpa using hc

theorem toDigits_inj {a b : Nat} (h : Nat.toDigits 10 a = Nat.toDigits 10 b) : a = b := by
  have := congrArg (fun l => Nat.ofDigitChars 10 l 0) h
  simpa [Nat.ofDigitChars_ten_toDigits] using this

/-- Removing every copy of a name that the loop will not produce again does not change the loop. -/
theorem genNameLoop_filter (excl : List Str) (pre : Str) (k : Nat) :
    ∀ fuel num, k < num →
      genNameLoop (excl.filter (· != pre ++ Nat.toDigits 10 k)) pre fuel num = genNameLoop excl pre fuel num := by
  intro fuel
  induction fuel with
  | zero => intro num _; rfl
  | succ f ih =>
    intro num hk
    simp only [genNameLoop]
    have hne : (pre ++ Nat.toDigits 10 num) ≠ (pre ++ Nat.toDigits 10 k) := by
      intro h
      have := toDigits_inj (List.append_cancel_left h)
      omega
    have hc : (excl.filter (· != pre ++ Nat.toDigits 10 k)).contains (pre ++ Nat.toDigits 10 num)
        = excl.contains (pre ++ Nat.toDigits 10 num) := by
      rw [Bool.eq_iff_iff]
      simp only [List.contains_iff_mem, List.mem_filter, bne_iff_ne, ne_eq]
      exact ⟨fun h => h.1, fun h => ⟨h, hne⟩⟩
    rw [hc, ih (num + 1) (by omega)]

theorem length_filter_lt_of_mem {α} [BEq α] [LawfulBEq α] (l : List α) (x : α) (h : x ∈ l) :
    (l.filter (· != x)).length < l.length := by
  induction l with
  | nil => cases h
  | cons y ys ih =>
    simp only [List.filter_cons]
    by_cases hyx : y = x
    · subst hyx
      simp only [bne_self_eq_false, Bool.false_eq_true, ↓reduceIte, List.length_cons]
      exact Nat.lt_succ_of_le (List.length_filter_le _ _)
    · have hm : x ∈ ys := by
        cases h with
        | head => exact absurd rfl hyx
        | tail _ h => exact h
      have : (y != x) = true := by simpa using hyx
      simp only [this, ↓reduceIte, List.length_cons]
      exact Nat.succ_lt_succ (ih hm)

/-- Fuel bound: more fuel than exclusions always suffices (pigeonhole on the distinct candidates). -/
theorem genNameLoop_isSome (pre : Str) :
    ∀ fuel (excl : List Str) num, excl.length < fuel → (genNameLoop excl pre fuel num).isSome = true := by
  intro fuel
  induction fuel with
  | zero => intro excl num h; omega
  | succ f ih =>
    intro excl num h
    simp only [genNameLoop]
    split
    · rename_i hc
      have hm : (pre ++ Nat.toDigits 10 num) ∈ excl := by simpa using hc
      rw [← genNameLoop_filter excl pre num f (num + 1) (by omega)]
      apply ih
      have := length_filter_lt_of_mem excl _ hm
      omega
    · rfl

theorem generateNameFuel_not_mem (fuel : Nat) (excl : List Str) (pref r : Str)
    (h : generateNameFuel fuel excl pref = some r) : r ∉ excl := by
  unfold generateNameFuel at h
  split at h
  · exact genNameLoop_not_mem _ _ _ _ _ h
  · rename_i hc
    cases h
    simpa using hc

theorem generateName_isSome' (excl : List Str) (pref : Str) : (generateName excl pref).isSome = true := by
  unfold generateName generateNameFuel
  split
  · exact genNameLoop_isSome _ _ _ _ (by omega)
  · rfl

/-! ### the fold -/

theorem foldNames_isSome' : ∀ (ps acc : List Str), (foldNames acc ps).isSome = true := by
  intro ps
  induction ps with
  | nil => intro acc; rfl
  | cons p ps ih =>
    intro acc
    simp only [foldNames]
    have := generateName_isSome' acc p
    cases hg : generateName acc p with
    | none => simp [hg] at this
    | some n => exact ih _

theorem foldNames_nodup' : ∀ (ps acc r : List Str), acc.Nodup → foldNames acc ps = some r → r.Nodup := by
  intro ps
  induction ps with
  | nil => intro acc r hn h; cases h; exact hn
  | cons p ps ih =>
    intro acc r hn h
    simp only [foldNames] at h
    cases hg : generateName acc p with
    | none => simp [hg] at h
    | some n =>
      simp only [hg] at h
      have hnm := generateNameFuel_not_mem _ _ _ _ hg
      refine ih _ _ ?_ h
      rw [List.nodup_append]
      refine ⟨hn, by simp, ?_⟩
      intro a ha b hb
      simp at hb
      subst hb
      intro hab; subst hab; exact hnm ha

theorem foldNames_length : ∀ (ps acc r : List Str), foldNames acc ps = some r → r.length = acc.length + ps.length := by
  intro ps
  induction ps with
  | nil => intro acc r h; cases h; simp
  | cons p ps ih =>
    intro acc r h
    simp only [foldNames] at h
    cases hg : generateName acc p with
    | none => simp [hg] at h
    | some n =>
      simp only [hg] at h
      have := ih _ _ h
      simp at this ⊢
      omega

/-! ### terminal names -/

theorem ite_all {p : Prop} [Decidable p] {a b : Str} (ha : a.all isIdentCont = true)
    (hb : b.all isIdentCont = true) : (if p then a else b).all isIdentCont = true := by
  split <;> assumption

theorem specialName_all (c : Char) : (specialName c).all isIdentCont = true := by
  unfold specialName
  repeat (refine ite_all (by decide) ?_)
  decide

theorem termFold_all : ∀ (s : Str) (cap : Bool), (termFold cap s).all isIdentCont = true := by
  intro s
  induction s with
  | nil => intro cap; simp [termFold]
  | cons c cs ih =>
    intro cap
    simp only [termFold]
    split
    · rename_i h
      simp only [List.all_cons, Bool.and_eq_true]
      refine ⟨?_, ih false⟩
      cases cap
      · simpa using identCont_of_alnum h
      · simpa using toUpper_identCont_of_alnum h
    · simp only [List.all_append, Bool.and_eq_true]
      exact ⟨specialName_all c, ih true⟩

theorem genTermName_valid (s : Str) (hne : s ≠ []) : validIdent (genTermName s) = true := by
  unfold genTermName
  simp only []
  by_cases he : ((termFold true s).isEmpty && !s.isEmpty) = true
  · rw [if_pos he]; decide
  · rw [if_neg he]
    apply validIdent_guard _ (termFold_all s true)
    intro hnil
    apply he
    cases s with
    | nil => exact absurd rfl hne
    | cons c cs => simp [hnil]

/-! ### camel case -/

theorem alnum_of_cont_ne_underscore {c : Char} (h : isIdentCont c = true) (hu : c ≠ '_') : c.isAlphanum = true := by
  simp only [isIdentCont, Bool.or_eq_true, decide_eq_true_eq] at h
  rcases h with h | h
  · exact h
  · exact absurd h hu

theorem camelFold_all : ∀ (s : Str) (up : Bool) (last : Char), s.all isIdentCont = true →
    (camelFold up last s).all isIdentCont = true := by
  intro s
  induction s with
  | nil => intro up last _; simp [camelFold]
  | cons c cs ih =>
    intro up last h
    simp only [List.all_cons, Bool.and_eq_true] at h
    simp only [camelFold]
    split
    · exact ih _ _ h.2
    · rename_i hu
      have ha := alnum_of_cont_ne_underscore h.1 hu
      split
      · simp only [List.all_append, Bool.and_eq_true]
        refine ⟨?_, ih _ _ h.2⟩
        split
        · simp only [List.all_cons, List.all_nil, Bool.and_true, Bool.and_eq_true]
          exact ⟨by decide, toUpper_identCont_of_alnum ha⟩
        · simp only [List.all_cons, List.all_nil, Bool.and_true]
          exact toUpper_identCont_of_alnum ha
      · simp only [List.all_cons, Bool.and_eq_true]
        exact ⟨h.1, ih _ _ h.2⟩

theorem camelFold_ne_nil : ∀ (s : Str) (up : Bool) (last : Char), (∃ c ∈ s, c ≠ '_') →
    camelFold up last s ≠ [] := by
  intro s
  induction s with
  | nil => intro up last ⟨c, hc, _⟩; cases hc
  | cons c cs ih =>
    intro up last ⟨d, hd, hdu⟩
    simp only [camelFold]
    split
    · rename_i hcu
      apply ih
      cases hd with
      | head => exact absurd hcu hdu
      | tail _ hd => exact ⟨d, hd, hdu⟩
    · split
      · split <;> simp
      · simp

theorem camel_valid (name : Str) (h1 : (camelBody name).all isIdentCont = true)
    (h2 : ∃ c ∈ camelBody name, c ≠ '_') : validIdent (toUpperCamelCase name) = true := by
  unfold toUpperCamelCase
  simp only []
  exact validIdent_guard (camelFold_ne_nil _ _ _ h2) (camelFold_all _ _ _ h1)

theorem validIdent_all {s : Str} (h : validIdent s = true) : s.all isIdentCont = true := by
  cases s with
  | nil => simp [validIdent] at h
  | cons c cs =>
    simp only [validIdent, Bool.and_eq_true] at h
    simp only [List.all_cons, Bool.and_eq_true]
    refine ⟨?_, h.2⟩
    simp only [isIdentStart, isIdentCont, Char.isAlphanum, Bool.or_eq_true, decide_eq_true_eq] at *
    rcases h.1 with h | h
    · exact Or.inl (Or.inl h)
    · exact Or.inr h

theorem not_raw_of_all {s : Str} (h : s.all isIdentCont = true) : isRawIdentifier s = false := by
  cases hr : isRawIdentifier s with
  | false => rfl
  | true =>
    exfalso
    unfold isRawIdentifier at hr
    split at hr
    · simp only [List.all_cons, Bool.and_eq_true] at h
      exact absurd h.2.1 (by decide)
    · cases hr

theorem camelBody_of_validIdent {s : Str} (h : validIdent s = true) : camelBody s = s := by
  unfold camelBody
  rw [not_raw_of_all (validIdent_all h)]
  rfl

/-! ### snake case -/

theorem snakeFold_all : ∀ (s acc : Str) (last : Char), acc.all isIdentCont = true → s.all isIdentCont = true →
    (snakeFold acc last s).all isIdentCont = true := by
  intro s
  induction s with
  | nil => intro acc last ha _; simpa [snakeFold] using ha
  | cons c cs ih =>
    intro acc last ha hs
    simp only [List.all_cons, Bool.and_eq_true] at hs
    simp only [snakeFold]
    apply ih _ _ _ hs.2
    have hl := toLower_identCont hs.1
    have hu : isIdentCont '_' = true := by decide
    split
    · simp [List.all_append, ha, hl]
    · split
      · split <;> simp [List.all_append, ha, hu]
      · split
        · simp [List.all_append, ha, hl]
        · split
          · split <;> simp [List.all_append, ha, hl, hu]
          · simp [List.all_append, ha, hs.1]

theorem snakeFold_length_ge : ∀ (s acc : Str) (last : Char), acc.length ≤ (snakeFold acc last s).length := by
  intro s
  induction s with
  | nil => intro acc last; simp [snakeFold]
  | cons c cs ih =>
    intro acc last
    simp only [snakeFold]
    refine Nat.le_trans ?_ (ih _ _)
    split
    · simp
    · split
      · split <;> simp
      · split
        · simp
        · split
          · split <;> simp
          · simp

theorem snakeFold_ne_nil (s : Str) (hne : s ≠ []) : snakeFold [] '.' s ≠ [] := by
  cases s with
  | nil => exact absurd rfl hne
  | cons c cs =>
    simp only [snakeFold, List.isEmpty_nil, ↓reduceIte, List.nil_append]
    intro h
    have := snakeFold_length_ge cs [c.toLower] c
    rw [h] at this
    simp at this

/-- The string handed to `escape_rust_keyword` is an identifier. -/
theorem snake_pre_valid (name : Str) (hne : name ≠ []) (h : name.all isIdentCont = true) :
    validIdent (if startsWithDigit (snakeFold [] '.' name) then '_' :: snakeFold [] '.' name
      else snakeFold [] '.' name) = true :=
  validIdent_guard (snakeFold_ne_nil name hne) (snakeFold_all name [] '.' (by simp) h)

/-! ### the oracle's decision functions -/

theorem firstDup_none_iff (l : List Str) : firstDup l = none ↔ l.Nodup := by
  induction l with
  | nil => simp [firstDup]
  | cons x xs ih =>
    simp only [firstDup, List.nodup_cons]
    split
    · rename_i h
      simp only [reduceCtorEq, false_iff, not_and]
      intro hx
      exact absurd (by simpa using h) hx
    · rename_i h
      rw [ih]
      constructor
      · intro hn; exact ⟨by simpa using h, hn⟩
      · intro hn; exact hn.2

theorem notFunctional_none_iff (ps : List (Str × Str)) :
    notFunctional ps = none ↔ ∀ p ∈ ps, ∀ q ∈ ps, p.1 = q.1 → p.2 = q.2 := by
  induction ps with
  | nil => simp [notFunctional]
  | cons p ps ih =>
    obtain ⟨a, b⟩ := p
    simp only [notFunctional]
    split
    · rename_i h
      simp only [reduceCtorEq, false_iff]
      simp only [List.any_eq_true, Bool.and_eq_true, beq_iff_eq, bne_iff_ne, ne_eq] at h
      obtain ⟨q, hq, hqa, hqb⟩ := h
      intro hall
      have := hall (a, b) (by simp) q (by simp [hq]) hqa.symm
      exact hqb this.symm
    · rename_i h
      rw [ih]
      simp only [List.any_eq_true, Bool.and_eq_true, beq_iff_eq, bne_iff_ne, ne_eq, not_exists, not_and,
        Decidable.not_not] at h
      constructor
      · intro hall p hp q hq hpq
        simp only [List.mem_cons] at hp hq
        rcases hp with rfl | hp <;> rcases hq with rfl | hq
        · rfl
        · exact (h q hq hpq.symm).symm
        · exact h p hp hpq
        · exact hall p hp q hq hpq
      · intro hall p hp q hq hpq
        exact hall p (List.mem_cons_of_mem _ hp) q (List.mem_cons_of_mem _ hq) hpq

end Names
end ParolModel
