import ParolModel.Proofs.Pipeline
import ParolModel.Proofs.LaK
import ParolModel.Props.C07
import ParolModel.Model.LLOracle
/-! Lemmas for C01c, part 2 (automaton side): an upper bound for the `k` field of the united
automaton, the production annotations of the compiled, minimised automaton are production numbers
of the tuple sets (what `TablesSound` needs — also for transitions no token string reaches), and
the automaton of a non-terminal with a single alternative. -/
namespace ParolModel

/-! ## `k` is not larger than the longest tuple -/

theorem foldl_addTuple_k_le (p : Int) (b : Nat) : ∀ (ts : List Tuple) (d : LDfa),
    d.k ≤ b → (∀ t ∈ ts, t.length ≤ b) → (ts.foldl (addTuple p) d).k ≤ b := by
  intro ts
  induction ts with
  | nil => intro d h _; simpa using h
  | cons t ts ih =>
    intro d hd h
    simp only [List.foldl_cons]
    apply ih
    · rw [addTuple_k]
      have := h t List.mem_cons_self
      omega
    · exact fun u hu => h u (List.mem_cons_of_mem _ hu)

theorem fromKTuples_k_le (k : Nat) (S : List Tuple) (p : Nat) (b : Nat) (h : ∀ t ∈ S, t.length ≤ b) :
    (fromKTuples k S p).k ≤ b := by
  unfold fromKTuples
  apply foldl_addTuple_k_le
  · simp [LDfa.init]
  · exact fun t ht => h t ((mem_sortTuples k t S).1 ht)

theorem uniteFold_all_k_le (k b : Nat) : ∀ (rest : List (Nat × List Tuple)) {acc d : LDfa},
    rest.foldlM (fun acc (q : Nat × List Tuple) => unite true acc (fromKTuples k q.2 q.1)) acc = .ok d →
    acc.k ≤ b → (∀ q ∈ rest, ∀ t ∈ q.2, t.length ≤ b) → d.k ≤ b := by
  intro rest
  induction rest with
  | nil =>
    intro acc d h hb _
    simp only [List.foldlM_nil] at h
    injection h with h; subst h; exact hb
  | cons q rest ih =>
    intro acc d h hb hall
    rw [foldlM_except_cons] at h
    cases h1 : unite true acc (fromKTuples k q.2 q.1) with
    | error err => rw [h1] at h; cases h
    | ok a1 =>
      rw [h1] at h
      have hr : rest.foldlM (fun acc (q : Nat × List Tuple) => unite true acc (fromKTuples k q.2 q.1)) a1 = .ok d := h
      apply ih hr
      · rw [unite_k h1]
        have := fromKTuples_k_le k q.2 q.1 b (hall q List.mem_cons_self)
        omega
      · exact fun q' hq' => hall q' (List.mem_cons_of_mem _ hq')

/-- the `k` of the united automaton is at most the length of the longest tuple -/
theorem uniteAll_k_le {k b : Nat} {sets : List (Nat × List Tuple)} {d : LDfa}
    (h : uniteAll true k sets = some (.ok d)) (hall : ∀ q ∈ sets, ∀ t ∈ q.2, t.length ≤ b) : d.k ≤ b := by
  cases sets with
  | nil => simp [uniteAll] at h
  | cons q rest =>
    obtain ⟨p, ts⟩ := q
    simp only [uniteAll, Option.some.injEq] at h
    exact uniteFold_all_k_le k b rest h (fromKTuples_k_le k ts p b (hall (p, ts) List.mem_cons_self))
      (fun q' hq' => hall q' (List.mem_cons_of_mem _ hq'))

/-! ## production annotations through the minimisation -/

/-- every annotation of `a'` is an annotation of `a` -/
def ValsSub (a a' : Adj) : Prop := ∀ x ∈ a'.prods, ∃ y ∈ a.prods, y.2 = x.2

theorem ValsSub.refl (a : Adj) : ValsSub a a := fun x hx => ⟨x, hx, rfl⟩

theorem ValsSub.trans {a b c : Adj} (h1 : ValsSub a b) (h2 : ValsSub b c) : ValsSub a c := by
  intro x hx
  obtain ⟨y, hy, e⟩ := h2 x hx
  obtain ⟨z, hz, e'⟩ := h1 y hy
  exact ⟨z, hz, e'.trans e⟩

theorem mem_bmRemove' {β : Type} {m : List (Nat × β)} {k : Nat} {y : Nat × β} (h : y ∈ bmRemove m k) : y ∈ m :=
  (List.mem_filter.1 h).1

theorem removeState_vals (a : Adj) (id : Nat) : ValsSub a (a.removeState id) := by
  intro x hx
  exact ⟨x, mem_bmRemove' hx, rfl⟩

theorem renameState_vals (a : Adj) (id new : Nat) : ValsSub a (a.renameState id new) := by
  intro x hx
  simp only [Adj.renameState] at hx
  split at hx
  · rename_i p hp
    rcases mem_bmInsert hx with rfl | h
    · exact ⟨(id, p), bmGet_some_mem hp, rfl⟩
    · exact ⟨x, mem_bmRemove' h, rfl⟩
  · exact ⟨x, hx, rfl⟩

theorem combineTwo_vals {a a' : Adj} {keep merge : Nat} (h : a.combineTwo keep merge = some a') : ValsSub a a' := by
  obtain ⟨_, lk, lm, pk, _, _, _, _, rfl⟩ := combineTwo_spec h
  refine ValsSub.trans ?_ (renameState_vals _ merge keep)
  refine ValsSub.trans ?_ (removeState_vals _ merge)
  exact fun x hx => ⟨x, hx, rfl⟩

theorem combineFold_vals (keep : Nat) : ∀ (rest : List Nat) {a a' : Adj},
    rest.foldlM (fun (a : Adj) m => a.combineTwo keep m) a = some a' → ValsSub a a' := by
  intro rest
  induction rest with
  | nil => intro a a' h; simp only [List.foldlM_nil] at h; injection h with h; subst h; exact ValsSub.refl _
  | cons m ms ih =>
    intro a a' h
    rw [foldlM_option_cons] at h
    cases h1 : a.combineTwo keep m with
    | none => simp [h1] at h
    | some a1 =>
      simp only [h1, Option.bind_some] at h
      exact (combineTwo_vals h1).trans (ih h)

theorem combineStates_vals {a a' : Adj} {states : List Nat} (h : a.combineStates states = some a') : ValsSub a a' := by
  cases states with
  | nil => simp only [Adj.combineStates] at h; injection h with h; subst h; exact ValsSub.refl _
  | cons keep rest => exact combineFold_vals keep rest h

theorem groupsFold_vals {γ : Type} (f : γ → List Nat) : ∀ (gs : List γ) {a a' : Adj},
    gs.foldlM (fun (a : Adj) g => a.combineStates (f g)) a = some a' → ValsSub a a' := by
  intro gs
  induction gs with
  | nil => intro a a' h; simp only [List.foldlM_nil] at h; injection h with h; subst h; exact ValsSub.refl _
  | cons g gs ih =>
    intro a a' h
    rw [foldlM_option_cons] at h
    cases h1 : a.combineStates (f g) with
    | none => simp [h1] at h
    | some a1 =>
      simp only [h1, Option.bind_some] at h
      exact (combineStates_vals h1).trans (ih h)

theorem mergeFinals_vals {a a' : Adj} {ch ch' : List Nat} (h : a.mergeFinals ch = some (a', ch')) : ValsSub a a' := by
  unfold Adj.mergeFinals at h
  simp only [Option.map_eq_some_iff, Prod.mk.injEq] at h
  obtain ⟨a1, hfold, rfl, _⟩ := h
  exact groupsFold_vals (fun (g : Int × List (Nat × Int)) => g.2.map (·.1)) _ hfold

theorem combineEquiv_vals : ∀ (fuel : Nat) {a a' : Adj} {ch ch' : List Nat},
    Adj.combineEquiv fuel a ch = some (a', ch') → ValsSub a a' := by
  intro fuel
  induction fuel with
  | zero => intro a a' ch ch' h; simp [Adj.combineEquiv] at h
  | succ fuel ih =>
    intro a a' ch ch' h
    simp only [Adj.combineEquiv] at h
    split at h
    · cases h
    · injection h with h; injection h with h1 _; subst h1; exact ValsSub.refl _
    · split at h
      · cases h
      · split at h
        · cases h
        · rename_i a1 h1
          exact (combineStates_vals h1).trans (ih h)

theorem renumber_vals : ∀ (fuel : Nat) {a a' : Adj}, Adj.renumber fuel a = some a' → ValsSub a a' := by
  intro fuel
  induction fuel with
  | zero => intro a a' h; simp [Adj.renumber] at h
  | succ fuel ih =>
    intro a a' h
    simp only [Adj.renumber] at h
    split at h
    · injection h with h; subst h; exact ValsSub.refl _
    · split at h
      · cases h
      · exact (renameState_vals _ _ _).trans (ih h)

theorem minimize_vals {a a' : Adj} {ch : List Nat} (h : a.minimize ch = some a') : ValsSub a a' := by
  unfold Adj.minimize at h
  split at h
  · cases h
  · rename_i a1 ch1 h1
    split at h
    · cases h
    · rename_i a2 ch2 h2
      exact ((mergeFinals_vals h1).trans (combineEquiv_vals _ h2)).trans (renumber_vals _ h)

theorem foldl_bmInsert_vals {α : Type} (key : α → Nat) (val : α → Int) : ∀ (l : List α) (m : List (Nat × Int)),
    ∀ x ∈ l.foldl (fun m t => bmInsert m (key t) (val t)) m, x ∈ m ∨ ∃ t ∈ l, x.2 = val t := by
  intro l
  induction l with
  | nil => intro m x hx; exact Or.inl hx
  | cons t ts ih =>
    intro m x hx
    simp only [List.foldl_cons] at hx
    rcases ih _ x hx with h | ⟨t', ht', e⟩
    · rcases mem_bmInsert h with rfl | h
      · exact Or.inr ⟨t, List.mem_cons_self, rfl⟩
      · exact Or.inl h
    · exact Or.inr ⟨t', List.mem_cons_of_mem _ ht', e⟩

theorem adjOfCompiled_vals (c : LaDfa) : ∀ x ∈ (adjOfCompiled c).prods, x.2 ∈ dfaProds c := by
  intro x hx
  have : (adjOfCompiled c).prods = c.trans.foldl (fun m t => bmInsert m t.dst t.prod) [(0, c.prod0)] := rfl
  rw [this] at hx
  rcases foldl_bmInsert_vals (fun t : Trans => t.dst) (fun t => t.prod) c.trans _ x hx with h | ⟨t, ht, e⟩
  · simp only [List.mem_singleton] at h
    subst h
    simp [dfaProds]
  · simp only [dfaProds, List.mem_cons, List.mem_map]
    exact Or.inr ⟨t, ht, e.symm⟩

/-- **Minimisation invents no production number**: every annotation of the minimised automaton
    (`prod0` or on a transition) is an annotation of the automaton it was built from. -/
theorem minimizeC_vals {c c' : LaDfa} {ch : List Nat} (h : minimizeC c ch = some c') :
    ∀ p ∈ dfaProds c', p ∈ dfaProds c := by
  unfold minimizeC at h
  split at h
  · cases h
  · rename_i a hmin
    have hv := minimize_vals hmin
    have key : ∀ s p, bmGet a.prods s = some p → p ∈ dfaProds c := by
      intro s p hp
      obtain ⟨y, hy, e⟩ := hv (s, p) (bmGet_some_mem hp)
      have := adjOfCompiled_vals c y hy
      rwa [e] at this
    unfold Adj.asCompiled at h
    split at h
    · split at h
      · rename_i p0 hp0
        injection h with h
        subst h
        intro p hp
        simp only [dfaProds, List.mem_cons, List.mem_map] at hp
        rcases hp with rfl | ⟨tr, htr, rfl⟩
        · exact key 0 _ hp0
        · rw [(sortTransList_perm _).mem_iff] at htr
          simp only [List.mem_filterMap, Option.map_eq_some_iff] at htr
          obtain ⟨y, _, q, hq, rfl⟩ := htr
          exact key _ _ hq
      · cases h
    · cases h

/-- the annotations of the un-minimised automaton are production numbers of the tuple sets -/
theorem compileRaw_vals {sets : List (Nat × List Tuple)} {d : LDfa} (ok : SetsOk sets) (hb : Built sets d) :
    ∀ p ∈ dfaProds (compileRaw d), p > -1 → ∃ q ∈ sets, p = (q.1 : Int) := by
  obtain ⟨l, htrie, _⟩ := hb.ex
  have key : ∀ s, s < d.prods.length → annot d.prods s > -1 → ∃ q ∈ sets, annot d.prods s = (q.1 : Int) := by
    intro s hs hgt
    have hp := htrie.prods s hs
    unfold annot at hgt ⊢
    rw [hp] at hgt ⊢
    simp only at hgt ⊢
    split at hgt
    · rename_i hge
      have hne : Mof sets (l s) ≠ -1 := by omega
      obtain ⟨q, hq, hw⟩ := Mof_ne hne
      rw [if_pos hge]
      exact ⟨q, hq, Mof_mem ok hq hw⟩
    · omega
  intro p hp hgt
  simp only [dfaProds, compileRaw, List.mem_cons, List.mem_map, List.map_map] at hp
  rcases hp with rfl | ⟨e, he, rfl⟩
  · exact key 0 htrie.pos hgt
  · exact key e.dst (htrie.edge e he).2.1 hgt

/-- **Annotations of a non-terminal's compiled automaton**: every production number the automaton
    can ever answer is the number of one of the non-terminal's tuple sets. -/
theorem compiled_vals {k : Nat} {sets : List (Nat × List Tuple)} {d : LDfa} {c : LaDfa} {ch : List Nat}
    (ok : SetsOk sets) (hd : uniteAll true k sets = some (.ok d)) (hc : compileDfa d ch = some c) :
    ∀ p ∈ dfaProds c, p > -1 → ∃ q ∈ sets, p = (q.1 : Int) := by
  intro p hp hgt
  exact compileRaw_vals ok (built_all ok hd) p (minimizeC_vals hc p hp) hgt

/-! ## one alternative: the tuple set `{ε}` -/

theorem foldl_addTuple_nil (p : Int) : ∀ (ts : List Tuple), (∀ t ∈ ts, t = []) → ∀ x : Int,
    ts.foldl (addTuple p) ⟨[x], [], 0⟩ = if ts = [] then ⟨[x], [], 0⟩ else ⟨[p], [], 0⟩ := by
  intro ts
  induction ts with
  | nil => intro _ x; rfl
  | cons t ts ih =>
    intro h x
    have ht : t = [] := h t List.mem_cons_self
    subst ht
    have hstep : addTuple p ⟨[x], [], 0⟩ [] = ⟨[p], [], 0⟩ := by
      simp [addTuple, addPath]
    simp only [List.foldl_cons, hstep]
    rw [ih (fun u hu => h u (List.mem_cons_of_mem _ hu)) p]
    simp only [reduceCtorEq, if_false]
    split <;> rfl

/-- Whatever set of ε-tuples (even the empty set) `from_k_tuples` is given, the result is the
    one-state automaton whose start state predicts `p`. -/
theorem fromKTuples_all_nil (k : Nat) (S : List Tuple) (p : Nat) (h : ∀ t ∈ S, t = []) :
    fromKTuples k S p = ⟨[(p : Int)], [], 0⟩ := by
  unfold fromKTuples LDfa.init
  rw [foldl_addTuple_nil _ _ (fun t ht => h t ((mem_sortTuples k t S).1 ht))]
  cases S with
  | nil => simp [sortTuples]
  | cons t ts =>
    have hne : sortTuples k (t :: ts) ≠ [] := by
      intro e
      have := (mem_sortTuples k t (t :: ts)).2 List.mem_cons_self
      rw [e] at this; cases this
    simp [hne]

theorem setsOk_single_eps (p : Nat) : SetsOk [(p, [([] : Tuple)])] := by
  refine ⟨?_, ?_, ?_⟩
  · intro q hq; simp only [List.mem_singleton] at hq; subst hq; simp
  · intro q hq q' hq' t _ _
    simp only [List.mem_singleton] at hq hq'
    subst hq; subst hq'; rfl
  · intro q hq q' hq' t u ht htu
    simp only [List.mem_singleton] at hq hq'
    subst hq; subst hq'
    simp only [List.mem_singleton] at ht htu
    subst ht
    simpa using htu

/-- The automaton of a non-terminal with a single alternative `p` whose tuple set holds only
    ε-tuples: it is the automaton of `{ε}`, answers `p` on the empty string and nothing else, and
    has `k = 0`. -/
theorem single_auto {S : List Tuple} {p : Nat} {d : LDfa} {c : LaDfa} (hS : ∀ t ∈ S, t = [])
    (hd : uniteAll true 0 [(p, S)] = some (.ok d)) (hc : compileDfa d [] = some c) :
    sortedTrans c.trans = true ∧ c.k = 0 ∧
    (∀ w, runRef c 0 c.prod0 w = if w = [] then some (p : Int) else none) ∧
    (∀ q ∈ dfaProds c, q > -1 → q = (p : Int)) := by
  have hd' : uniteAll true 0 [(p, [([] : Tuple)])] = some (.ok d) := by
    simp only [uniteAll, List.foldlM_nil] at hd ⊢
    rw [fromKTuples_all_nil 0 S p hS] at hd
    rw [fromKTuples_all_nil 0 [[]] p (by simp)]
    exact hd
  have ok := setsOk_single_eps p
  obtain ⟨hs, hrun⟩ := compiled_accepts_iff_tuple ok hd' hc
  refine ⟨hs, ?_, ?_, ?_⟩
  · have h1 : c.k = d.k := minimizeC_k hc
    have h2 := uniteAll_k_le (b := 0) hd' (by simp)
    omega
  · intro w
    rw [hrun w]
    by_cases hw : w = [] <;> simp [setsLookup, hw]
  · intro q hq hgt
    obtain ⟨q', hq', e⟩ := compiled_vals ok hd' hc q hq hgt
    simp only [List.mem_singleton] at hq'
    subst hq'
    exact e

end ParolModel
