import ParolModel.Proofs.FixReachable
/-! Correctness of the left-recursion detection: the can-start-with relation, its closure, and the
equivalence of `StartsPlus G A A` with `A ⇒⁺ A γ` on sentential forms. -/
namespace ParolModel

/-! ## `LeftRec G A ↔ StartsPlus G A A` -/

theorem StartsPlus.trans {G : Grammar} {A B C : Nat} (h1 : StartsPlus G A B)
    (h2 : StartsPlus G B C) : StartsPlus G A C := by
  induction h1 with
  | single h => exact .head h h2
  | head h _ ih => exact .head h (ih h2)

theorem StartsIn.mem {G : Grammar} {r : List Sym} {B : Nat} (h : StartsIn G r B) : Sym.n B ∈ r := by
  induction h with
  | here => simp
  | skip _ _ ih => exact List.mem_cons_of_mem _ ih

theorem Starts.mem_nts {G : Grammar} {A B : Nat} (h : Starts G A B) : A ∈ nts G ∧ B ∈ nts G := by
  obtain ⟨p, hp, hl, hs⟩ := h
  subst hl
  exact ⟨lhs_mem_nts hp, rhs_mem_nts hp hs.mem⟩

theorem StartsPlus.mem_nts {G : Grammar} {A B : Nat} (h : StartsPlus G A B) :
    A ∈ nts G ∧ B ∈ nts G := by
  induction h with
  | single h => exact h.mem_nts
  | head h _ ih => exact ⟨h.mem_nts.1, ih.2⟩

/-- `CanBegin G B a`: the sentential form `a` has a nullable prefix followed by a non-terminal that
    is `B` or can (transitively) start with `B`. -/
inductive CanBegin (G : Grammar) (B : Nat) : List Sym → Prop
  | here {C : Nat} (r : List Sym) : (C = B ∨ StartsPlus G C B) → CanBegin G B (.n C :: r)
  | skip {C : Nat} {r : List Sym} : Nullable G C → CanBegin G B r → CanBegin G B (.n C :: r)

theorem canBegin_split {G : Grammar} {B : Nat} {r y : List Sym} (h : CanBegin G B (r ++ y)) :
    (∃ C, StartsIn G r C ∧ (C = B ∨ StartsPlus G C B)) ∨ (Yield G r [] ∧ CanBegin G B y) := by
  induction r with
  | nil => exact Or.inr ⟨.nil, by simpa using h⟩
  | cons s r ih =>
    generalize hq : (s :: r) ++ y = q at h
    cases h with
    | here r' hc =>
      simp only [List.cons_append, List.cons.injEq] at hq
      obtain ⟨rfl, _⟩ := hq
      exact Or.inl ⟨_, .here _ _, hc⟩
    | skip hn hr =>
      simp only [List.cons_append, List.cons.injEq] at hq
      obtain ⟨rfl, rfl⟩ := hq
      rcases ih hr with ⟨C, hs, hc⟩ | ⟨hy, hb⟩
      · exact Or.inl ⟨C, .skip hn hs, hc⟩
      · refine Or.inr ⟨?_, hb⟩
        have := Yield.append hn hy
        simpa using this

/-- One derivation step backwards. -/
theorem canBegin_of_step {G : Grammar} {B : Nat} {a b : List Sym} (hs : Step G a b)
    (h : CanBegin G B b) : CanBegin G B a := by
  cases hs with
  | mk x y p hp =>
    induction x with
    | nil =>
      simp only [List.nil_append] at h ⊢
      rcases canBegin_split h with ⟨C, hsi, hc⟩ | ⟨hy, hb⟩
      · have hst : Starts G p.lhs C := ⟨p, hp, rfl, hsi⟩
        refine .here _ (Or.inr ?_)
        rcases hc with rfl | hc
        · exact .single hst
        · exact .head hst hc
      · exact .skip (nullable_of_prod hp hy) hb
    | cons s x ih =>
      generalize hq : (s :: x) ++ p.rhs ++ y = q at h
      cases h with
      | here r' hc =>
        simp only [List.cons_append, List.cons.injEq] at hq
        obtain ⟨rfl, _⟩ := hq
        exact .here _ hc
      | skip hn hr =>
        simp only [List.cons_append, List.cons.injEq] at hq
        obtain ⟨rfl, rfl⟩ := hq
        exact .skip hn (ih hr)

theorem canBegin_of_derives {G : Grammar} {A : Nat} {b c : List Sym} (h : Derives G b c)
    {y : List Sym} (hc : c = .n A :: y) : CanBegin G A b := by
  induction h with
  | refl => subst hc; exact .here _ (Or.inl rfl)
  | head hs _ ih => exact canBegin_of_step hs (ih hc)

theorem startsPlus_of_leftRec {G : Grammar} {A : Nat} (h : LeftRec G A) : StartsPlus G A A := by
  obtain ⟨b, y, hs, hd⟩ := h
  obtain ⟨p, hp, hl, rfl⟩ := hs.from_single
  have hcb : CanBegin G A (p.rhs ++ []) := by simpa using canBegin_of_derives hd rfl
  rcases canBegin_split hcb with ⟨C, hsi, hc⟩ | ⟨_, hb⟩
  · have hst : Starts G A C := ⟨p, hp, hl, hsi⟩
    rcases hc with rfl | hc
    · exact .single hst
    · exact .head hst hc
  · cases hb

theorem derives_of_startsIn {G : Grammar} {r : List Sym} {B : Nat} (h : StartsIn G r B) :
    ∃ y, Derives G r (.n B :: y) := by
  induction h with
  | here B r => exact ⟨r, .refl _⟩
  | @skip C r B hn _ ih =>
    obtain ⟨y, hy⟩ := ih
    refine ⟨y, ?_⟩
    have h1 : Derives G [Sym.n C] [] := by simpa using derives_of_yield hn
    have h2 : Derives G (Sym.n C :: r) r := by simpa using h1.append_right r
    exact h2.trans hy

theorem derives_of_starts {G : Grammar} {A B : Nat} (h : Starts G A B) :
    ∃ b y, Step G [.n A] b ∧ Derives G b (.n B :: y) := by
  obtain ⟨p, hp, hl, hs⟩ := h
  subst hl
  obtain ⟨y, hy⟩ := derives_of_startsIn hs
  exact ⟨p.rhs, y, Step.of_prod hp, hy⟩

theorem derives_of_startsPlus {G : Grammar} {A B : Nat} (h : StartsPlus G A B) :
    ∃ b y, Step G [.n A] b ∧ Derives G b (.n B :: y) := by
  induction h with
  | single h => exact derives_of_starts h
  | @head A B C h _ ih =>
    obtain ⟨b, y, hs, hd⟩ := derives_of_starts h
    obtain ⟨b', y', hs', hd'⟩ := ih
    refine ⟨b, y' ++ y, hs, ?_⟩
    have h1 : Derives G (Sym.n B :: y) (b' ++ y) := by
      simpa using (Derives.single hs').append_right y
    have h2 : Derives G (b' ++ y) (Sym.n C :: (y' ++ y)) := by
      simpa using hd'.append_right y
    exact hd.trans (h1.trans h2)

theorem leftRec_iff_startsPlus {G : Grammar} {A : Nat} : LeftRec G A ↔ StartsPlus G A A :=
  ⟨startsPlus_of_leftRec, derives_of_startsPlus⟩

/-! ## Phase 1: the direct can-start-with pairs -/

theorem mem_startsOf {G : Grammar} {N : List Nat} (hN : ∀ a, a ∈ N ↔ Nullable G a)
    {lhs : Nat} {r : List Sym} {x : Nat × Nat} :
    x ∈ startsOf N lhs r ↔ x.1 = lhs ∧ StartsIn G r x.2 := by
  induction r with
  | nil =>
    simp only [startsOf, List.not_mem_nil, false_iff]
    rintro ⟨_, h⟩; cases h
  | cons s r ih =>
    cases s with
    | t a =>
      simp only [startsOf, List.not_mem_nil, false_iff]
      rintro ⟨_, h⟩; cases h
    | n a =>
      simp only [startsOf, List.mem_cons]
      constructor
      · rintro (rfl | h)
        · exact ⟨rfl, .here _ _⟩
        · split at h
          · rename_i ha
            obtain ⟨h1, h2⟩ := ih.mp h
            exact ⟨h1, .skip ((hN a).mp ha) h2⟩
          · cases h
      · rintro ⟨h1, h2⟩
        generalize hq : Sym.n a :: r = q at h2
        cases h2 with
        | here B r' =>
          injection hq with hq1 hq2
          injection hq1 with hq1
          left
          cases x; simp_all
        | skip hn hs =>
          injection hq with hq1 hq2
          injection hq1 with hq1
          subst hq1 hq2
          right
          rw [if_pos ((hN _).mpr hn)]
          exact ih.mpr ⟨h1, hs⟩

def pairsOf (l : List Nat) : List (Nat × Nat) := l.flatMap (fun a => l.map (fun b => (a, b)))

theorem mem_pairsOf {l : List Nat} {x : Nat × Nat} : x ∈ pairsOf l ↔ x.1 ∈ l ∧ x.2 ∈ l := by
  cases x with
  | mk a b =>
    simp only [pairsOf, List.mem_flatMap, List.mem_map, Prod.mk.injEq]
    constructor
    · rintro ⟨a', ha', b', hb', rfl, rfl⟩; exact ⟨ha', hb'⟩
    · rintro ⟨ha, hb⟩; exact ⟨a, ha, b, hb, rfl, rfl⟩

theorem length_flatMap_pairs (l m : List Nat) :
    (l.flatMap (fun a => m.map (fun b => (a, b)))).length = l.length * m.length := by
  induction l with
  | nil => simp
  | cons a l ih =>
    simp only [List.flatMap_cons, List.length_append, List.length_map, ih, List.length_cons]
    rw [Nat.succ_mul]; omega

theorem length_pairsOf (l : List Nat) : (pairsOf l).length = l.length * l.length :=
  length_flatMap_pairs l l

def StartInv (G : Grammar) (S : List (Nat × Nat)) : Prop :=
  S.Nodup ∧ ∀ x ∈ S, Starts G x.1 x.2

theorem startInv_bound {G : Grammar} {S : List (Nat × Nat)} (hn : S.Nodup)
    (hs : ∀ x ∈ S, x.1 ∈ nts G ∧ x.2 ∈ nts G) : S.length ≤ (nts G).length * (nts G).length := by
  rw [← length_pairsOf]
  exact length_le_of_nodup_subset hn (fun x hx => mem_pairsOf.mpr (hs x hx))

theorem startInv_sweep {G : Grammar} {N : List Nat} (hN : ∀ a, a ∈ N ↔ Nullable G a)
    (S : List (Nat × Nat)) (h : StartInv G S) : StartInv G (startSweep G N S) := by
  obtain ⟨hn, hs⟩ := h
  unfold startSweep
  refine ⟨nodup_sweepG hn, ?_⟩
  apply sweepG_inv (fun (x : Nat × Nat) => Starts G x.1 x.2) hs
  intro p hp S' _ x hx
  obtain ⟨h1, h2⟩ := (mem_startsOf hN).mp hx
  exact ⟨p, hp, h1.symm, h2⟩

theorem startPhase_spec {G : Grammar} {N : List Nat} (hN : ∀ a, a ∈ N ↔ Nullable G a)
    {fuel : Nat} {S1 : List (Nat × Nat)} (h : iterG (startSweep G N) fuel [] = some S1) :
    S1.Nodup ∧ ∀ x, x ∈ S1 ↔ Starts G x.1 x.2 := by
  obtain ⟨S₀, hinv, hRe, hlen⟩ :=
    iterG_some (StartInv G) (startInv_sweep hN) ⟨List.nodup_nil, by simp⟩ h
  obtain ⟨hfix, hcl⟩ := sweepG_fix
    (cand := fun (p : Rule) (_ : List (Nat × Nat)) => startsOf N p.lhs p.rhs)
    (xs := G.prods) (S := S₀) hlen
  have hRS : S1 = S₀ := hRe.trans hfix
  subst hRS
  refine ⟨hinv.1, fun x => ⟨hinv.2 x, ?_⟩⟩
  rintro ⟨p, hp, hl, hs⟩
  exact hcl p hp x ((mem_startsOf hN).mpr ⟨hl.symm, hs⟩)

theorem startPhase_isSome {G : Grammar} {N : List Nat} (hN : ∀ a, a ∈ N ↔ Nullable G a) :
    (iterG (startSweep G N) (startFuel G) []).isSome := by
  apply iterG_isSome (StartInv G) ((nts G).length * (nts G).length) (startInv_sweep hN)
  · intro S hS
    exact startInv_bound hS.1 (fun x hx => (hS.2 x hx).mem_nts)
  · exact ⟨List.nodup_nil, by simp⟩
  · unfold startFuel closeFuel; simp

/-! ## Phase 2: transitive closure -/

theorem mem_row {S : List (Nat × Nat)} {a e : Nat} : e ∈ row S a ↔ (a, e) ∈ S := by
  simp only [row, List.mem_map, List.mem_filter, decide_eq_true_eq]
  constructor
  · rintro ⟨⟨a', e'⟩, ⟨hm, rfl⟩, rfl⟩; exact hm
  · intro h; exact ⟨(a, e), ⟨h, rfl⟩, rfl⟩

theorem mem_closeCand {S : List (Nat × Nat)} {nt : Nat} {x : Nat × Nat} :
    x ∈ (row S nt).flatMap (fun e => (row S e).map (fun c => (nt, c))) ↔
      x.1 = nt ∧ ∃ e, (nt, e) ∈ S ∧ (e, x.2) ∈ S := by
  cases x with
  | mk a c =>
    simp only [List.mem_flatMap, List.mem_map, mem_row, Prod.mk.injEq]
    constructor
    · rintro ⟨e, he, c', hc', rfl, rfl⟩; exact ⟨rfl, e, he, hc'⟩
    · rintro ⟨rfl, e, he, hc⟩; exact ⟨e, he, c, hc, rfl, rfl⟩

def CloseInv (G : Grammar) (S : List (Nat × Nat)) : Prop :=
  S.Nodup ∧ (∀ x ∈ S, StartsPlus G x.1 x.2) ∧ ∀ x, Starts G x.1 x.2 → x ∈ S

theorem closeInv_sweep (G : Grammar) (S : List (Nat × Nat)) (h : CloseInv G S) :
    CloseInv G (closeSweep (nts G) S) := by
  obtain ⟨hn, hs, hc⟩ := h
  unfold closeSweep
  refine ⟨nodup_sweepG hn, ?_, fun x hx => subset_sweepG _ _ _ _ (hc x hx)⟩
  apply sweepG_inv (fun (x : Nat × Nat) => StartsPlus G x.1 x.2) hs
  intro nt _ S' hS' x hx
  obtain ⟨h1, e, he, hc'⟩ := mem_closeCand.mp hx
  have h2 := hS' _ he
  have h3 := hS' _ hc'
  simp only at h2 h3
  rw [h1]
  exact h2.trans h3

theorem closePhase_spec {G : Grammar} {fuel : Nat} {S1 S2 : List (Nat × Nat)}
    (h1 : S1.Nodup ∧ ∀ x, x ∈ S1 ↔ Starts G x.1 x.2)
    (h : iterG (closeSweep (nts G)) fuel S1 = some S2) :
    ∀ x, x ∈ S2 ↔ StartsPlus G x.1 x.2 := by
  have hinit : CloseInv G S1 :=
    ⟨h1.1, fun x hx => .single ((h1.2 x).mp hx), fun x hx => (h1.2 x).mpr hx⟩
  obtain ⟨S₀, hinv, hRe, hlen⟩ := iterG_some (CloseInv G) (closeInv_sweep G) hinit h
  obtain ⟨hfix, hcl⟩ := sweepG_fix
    (cand := fun nt (S : List (Nat × Nat)) =>
      (row S nt).flatMap (fun e => (row S e).map (fun c => (nt, c))))
    (xs := nts G) (S := S₀) hlen
  have hRS : S2 = S₀ := hRe.trans hfix
  subst hRS
  intro x
  refine ⟨hinv.2.1 x, ?_⟩
  intro hx
  cases x with
  | mk A C =>
    simp only at hx
    induction hx with
    | single hs => exact hinv.2.2 _ hs
    | @head A B C hs _ ih =>
      have hAB : (A, B) ∈ S2 := hinv.2.2 (A, B) hs
      exact hcl A hs.mem_nts.1 (A, C) (mem_closeCand.mpr ⟨rfl, B, hAB, ih⟩)

theorem closePhase_isSome {G : Grammar} {S1 : List (Nat × Nat)}
    (h1 : S1.Nodup ∧ ∀ x, x ∈ S1 ↔ Starts G x.1 x.2) :
    (iterG (closeSweep (nts G)) (closeFuel G) S1).isSome := by
  have hinit : CloseInv G S1 :=
    ⟨h1.1, fun x hx => .single ((h1.2 x).mp hx), fun x hx => (h1.2 x).mpr hx⟩
  apply iterG_isSome (CloseInv G) ((nts G).length * (nts G).length) (closeInv_sweep G)
  · intro S hS
    exact startInv_bound hS.1 (fun x hx => (hS.2.1 x hx).mem_nts)
  · exact hinit
  · unfold closeFuel; omega

/-! ## The whole function -/

theorem leftRecCoreWith_spec {G : Grammar} {N l : List Nat} (hN : ∀ a, a ∈ N ↔ Nullable G a)
    (h : leftRecCoreWith G N = some l) : ∀ A, A ∈ l ↔ LeftRec G A := by
  unfold leftRecCoreWith at h
  simp only [Option.bind_eq_bind, Option.bind_eq_some_iff] at h
  obtain ⟨S1, hS1, S2, hS2, hl⟩ := h
  injection hl with hl
  subst hl
  have h1 := startPhase_spec hN hS1
  have h2 := closePhase_spec h1 hS2
  intro A
  rw [List.mem_filter, leftRec_iff_startsPlus]
  simp only [decide_eq_true_eq]
  rw [h2 (A, A)]
  constructor
  · exact fun h => h.2
  · exact fun h => ⟨h.mem_nts.1, h⟩

theorem leftRecSet_spec {G : Grammar} {l : List Nat} (h : leftRecSet G = some l) :
    ∀ A, A ∈ l ↔ LeftRec G A := by
  unfold leftRecSet at h
  simp only [Option.bind_eq_bind, Option.bind_eq_some_iff] at h
  obtain ⟨N, hN, hl⟩ := h
  exact leftRecCoreWith_spec (nullableCore_spec hN) hl

theorem leftRecSet_isSome (G : Grammar) : (leftRecSet G).isSome := by
  obtain ⟨N, hN⟩ := Option.isSome_iff_exists.mp (nullableSet_isSome G)
  have hN' := nullableCore_spec hN
  obtain ⟨S1, hS1⟩ := Option.isSome_iff_exists.mp (startPhase_isSome hN')
  have h1 := startPhase_spec hN' hS1
  obtain ⟨S2, hS2⟩ := Option.isSome_iff_exists.mp (closePhase_isSome h1)
  unfold leftRecSet leftRecCoreWith
  simp [hN, hS1, hS2]

theorem leftRecSet_sorted {G : Grammar} {l : List Nat} (h : leftRecSet G = some l) :
    l.Pairwise (· < ·) := by
  unfold leftRecSet leftRecCoreWith at h
  simp only [Option.bind_eq_bind, Option.bind_eq_some_iff] at h
  obtain ⟨N, _, S1, _, S2, _, hl⟩ := h
  injection hl with hl
  subst hl
  exact (nts_sorted G).filter _

end ParolModel
