import ParolModel.Proofs.LLSafe
import ParolModel.Model.LLTermCheck
/-! Termination of the LL(k) parser model (C19) from a verified "no left recursion" certificate.

Potential of a parser state, for a certificate `(w, N)` (see Model/LLTermCheck.lean), with
`M = ltMaxRhs T w` (largest total weight of a right-hand side) and `W = ltMaxW w` (largest weight):

    Φ(s) = M·W·|input| + Σ_{X ∈ stack} w(X) + M · max { w(X) | X in the nullable prefix of the
                                                           stack or the first symbol after it }

Every iteration of `llLoop` that does not leave the loop lowers `Φ` by at least one:
* shift: `|input|` drops (skip tokens in front are drained, one significant token consumed); the
  last summand may rise from `M` to at most `M·W`;
* end-of-production marker: the sum drops by one, the maximum does not rise;
* prediction `A → α`: if all of `α` is nullable the sum drops (`w A ≥ 2 + Σ w α`) and the maximum
  does not rise (closedness of `N` puts `A` into the nullable prefix); otherwise the maximum drops by
  at least one (it is now taken over the left end of `α`, all lighter than `A`), which pays `M` for
  the rest of `α` that has become part of the stack. -/
namespace ParolModel

structure TermCert (T : LLTables) (w : List Nat) (N : List Bool) : Prop where
  closed : ∀ pr ∈ T.prods, pr.rhsRev.reverse.all (ltNull N) = true → N[pr.lhs]?.getD false = true
  weight : ∀ pr ∈ T.prods, ltPre w N pr.rhsRev.reverse + 2 ≤ w[pr.lhs]?.getD 0

theorem termCertB_sound (T : LLTables) (w : List Nat) (N : List Bool)
    (h : termCertB T w N = true) : TermCert T w N := by
  simp only [termCertB, List.all_eq_true, ltProdOk, Bool.and_eq_true, Bool.or_eq_true,
    Bool.not_eq_true', decide_eq_true_eq] at h
  constructor
  · intro pr hpr hall
    rcases (h pr hpr).1 with h1 | h1
    · rw [hall] at h1; cases h1
    · exact h1
  · intro pr hpr
    exact (h pr hpr).2

theorem ltMaxW_pos (w : List Nat) : 1 ≤ ltMaxW w := by
  unfold ltMaxW
  induction w with
  | nil => simp
  | cons x r ih => simp only [List.foldr_cons]; omega

theorem getD_le_ltMaxW (w : List Nat) (a : Nat) : w[a]?.getD 0 ≤ ltMaxW w := by
  unfold ltMaxW
  induction w generalizing a with
  | nil => simp
  | cons x r ih =>
    cases a with
    | zero => simp only [List.getElem?_cons_zero, Option.getD_some, List.foldr_cons]; omega
    | succ a =>
      simp only [List.getElem?_cons_succ, List.foldr_cons]
      have := ih a
      omega

theorem ltW_le_ltMaxW (w : List Nat) (X : PT) : ltW w X ≤ ltMaxW w := by
  cases X with
  | n a => exact getD_le_ltMaxW w a
  | t a => exact ltMaxW_pos w
  | e p => exact ltMaxW_pos w

theorem ltPreMax_le_ltMaxW (w : List Nat) (N : List Bool) (l : List PT) :
    ltPreMax w N l ≤ ltMaxW w := by
  induction l with
  | nil => simp [ltPreMax]
  | cons X r ih =>
    simp only [ltPreMax]
    have := ltW_le_ltMaxW w X
    split <;> omega

theorem ltPreMax_le_ltPre (w : List Nat) (N : List Bool) (l : List PT) :
    ltPreMax w N l ≤ ltPre w N l := by
  induction l with
  | nil => simp [ltPreMax, ltPre]
  | cons X r ih =>
    simp only [ltPreMax, ltPre]
    split <;> omega

theorem ltPre_le_ltTot (w : List Nat) (N : List Bool) (l : List PT) :
    ltPre w N l ≤ ltTot w l := by
  induction l with
  | nil => simp [ltTot, ltPre]
  | cons X r ih =>
    simp only [ltTot, ltPre]
    split <;> omega

theorem ltTot_append (w : List Nat) (a b : List PT) : ltTot w (a ++ b) = ltTot w a + ltTot w b := by
  induction a with
  | nil => simp [ltTot]
  | cons X r ih => simp only [List.cons_append, ltTot, ih]; omega

theorem ltPre_allNull (w : List Nat) (N : List Bool) (l : List PT) (h : l.all (ltNull N) = true) :
    ltPre w N l = ltTot w l := by
  induction l with
  | nil => simp [ltTot, ltPre]
  | cons X r ih =>
    simp only [List.all_cons, Bool.and_eq_true] at h
    simp only [ltTot, ltPre, h.1, if_true, ih h.2]

theorem ltPreMax_append_null (w : List Nat) (N : List Bool) (l r : List PT)
    (h : l.all (ltNull N) = true) :
    ltPreMax w N (l ++ r) = max (ltPreMax w N l) (ltPreMax w N r) := by
  induction l with
  | nil => simp [ltPreMax]
  | cons X l ih =>
    simp only [List.all_cons, Bool.and_eq_true] at h
    simp only [List.cons_append, ltPreMax, h.1, if_true, ih h.2]
    omega

theorem ltPreMax_append_nonnull (w : List Nat) (N : List Bool) (l r : List PT)
    (h : l.all (ltNull N) = false) :
    ltPreMax w N (l ++ r) = ltPreMax w N l := by
  induction l with
  | nil => simp at h
  | cons X l ih =>
    simp only [List.cons_append, ltPreMax]
    by_cases hX : ltNull N X = true
    · simp only [hX, if_true]
      have : l.all (ltNull N) = false := by simpa [hX] using h
      rw [ih this]
    · simp [hX]

theorem ltTot_le_ltMaxRhs (T : LLTables) (w : List Nat) (pr : LLProd) (h : pr ∈ T.prods) :
    ltTot w pr.rhsRev.reverse ≤ ltMaxRhs T w := by
  unfold ltMaxRhs
  generalize T.prods = l at h
  induction l with
  | nil => cases h
  | cons x r ih =>
    simp only [List.map_cons, List.foldr_cons]
    rcases List.mem_cons.1 h with h | h
    · subst h; omega
    · have := ih h; omega

/-- The potential. -/
def ltPhi (T : LLTables) (w : List Nat) (N : List Bool) (s : LLState) : Nat :=
  ltMaxRhs T w * ltMaxW w * s.input.length + ltTot w s.stack +
    ltMaxRhs T w * ltPreMax w N s.stack

/-- A prediction step lowers the stack part of the potential. -/
theorem ltPredict_decrease {T : LLTables} {w : List Nat} {N : List Bool} (hC : TermCert T w N)
    {pr : LLProd} (hpr : pr ∈ T.prods) (p : Nat) (st : List PT) :
    ltTot w (pr.rhsRev.reverse ++ .e p :: st) +
        ltMaxRhs T w * ltPreMax w N (pr.rhsRev.reverse ++ .e p :: st) + 1 ≤
      ltTot w (.n pr.lhs :: st) + ltMaxRhs T w * ltPreMax w N (.n pr.lhs :: st) := by
  have hw := hC.weight pr hpr
  have hM := ltTot_le_ltMaxRhs T w pr hpr
  generalize ltMaxRhs T w = M at *
  generalize hrhs : pr.rhsRev.reverse = rhs at *
  rw [ltTot_append]
  simp only [ltTot, ltW]
  cases hall : rhs.all (ltNull N) with
  | true =>
    have hN := hC.closed pr hpr (by rw [hrhs]; exact hall)
    rw [ltPreMax_append_null w N rhs _ hall]
    have h1 := ltPre_allNull w N rhs hall
    have h2 := ltPreMax_le_ltPre w N rhs
    have hA : ltPreMax w N (.n pr.lhs :: st) = max (w[pr.lhs]?.getD 0) (ltPreMax w N st) := by
      simp [ltPreMax, ltNull, hN, ltW]
    have hE : ltPreMax w N (.e p :: st) = max 1 (ltPreMax w N st) := by
      simp [ltPreMax, ltNull, ltW]
    rw [hA, hE]
    have hle : max (ltPreMax w N rhs) (max 1 (ltPreMax w N st)) ≤
        max (w[pr.lhs]?.getD 0) (ltPreMax w N st) := by omega
    have := Nat.mul_le_mul_left M hle
    omega
  | false =>
    rw [ltPreMax_append_nonnull w N rhs _ hall]
    have h2 := ltPreMax_le_ltPre w N rhs
    have hA : w[pr.lhs]?.getD 0 ≤ ltPreMax w N (.n pr.lhs :: st) := by
      simp only [ltPreMax, ltW]
      split <;> omega
    have hle : ltPreMax w N rhs + 1 ≤ ltPreMax w N (.n pr.lhs :: st) := by omega
    have := Nat.mul_le_mul_left M hle
    rw [Nat.mul_add] at this
    omega

theorem finish_not_fuel (o : Opts) (s : LLState) (err : Option (Option Nat)) (steps : Nat) :
    (finish o s err steps).res ≠ .fuel := by
  unfold finish
  generalize drainSkips o s.input s.tree s.comments = r
  obtain ⟨inp, tr, cm⟩ := r
  simp only
  cases err with
  | some e => simp
  | none => simp only; cases firstSig inp <;> simp

theorem pushProduction_not_fuel {T : LLTables} {o : Opts} {s s' : LLState} {p : Nat} {r : Res}
    (h : pushProduction T o s p = some (s', some r)) : r ≠ .fuel := by
  unfold pushProduction at h
  cases hpr : T.prods[p]? with
  | none => simp [hpr] at h
  | some pr =>
    simp only [hpr] at h
    cases hm : o.maxDepth with
    | none => simp [hm] at h
    | some m =>
      simp only [hm] at h
      split at h <;> split at h <;>
        simp only [Option.some.injEq, Prod.mk.injEq, reduceCtorEq, and_false] at h
      all_goals (obtain ⟨_, h2⟩ := h; subst h2; simp)

/-- The shift step shortens the delivered token sequence. -/
theorem drain_drop_length (o : Opts) (inp : List MTok) (tr : List TreeEv) (cm : List Nat) (tok : MTok)
    (h : firstSig inp = some tok) :
    ((drainSkips o inp tr cm).1.drop 1).length + 1 ≤ inp.length := by
  rw [drainSkips_eq]
  simp only
  obtain ⟨rest, hr, _⟩ := afterSkips_firstSig h
  have hl := congrArg List.length (lead_after inp)
  rw [hr]
  rw [List.length_append, hr] at hl
  simp only [List.length_cons, List.drop_one, List.tail_cons] at hl ⊢
  omega

/-- **Termination of the loop**: with a verified certificate, fuel above the potential of the state
    is never used up. -/
theorem llLoop_terminates (T : LLTables) (o : Opts) (hT : TablesSound T) {w : List Nat} {N : List Bool}
    (hC : TermCert T w N) :
    ∀ (fuel : Nat) (s : LLState) (steps : Nat), ltPhi T w N s < fuel →
    (llLoop T o fuel s steps).res ≠ .fuel := by
  intro fuel
  induction fuel with
  | zero => intro s steps h; omega
  | succ fuel ih =>
    intro s steps hphi
    unfold llLoop
    split
    · exact finish_not_fuel _ _ _ _
    · split
      · exact finish_not_fuel _ _ _ _
      · -- terminal
        rename_i a st hs
        split
        · rename_i tok hf
          split
          · have hlen := drain_drop_length o s.input s.tree s.comments tok hf
            generalize hd : drainSkips o s.input s.tree s.comments = r at hlen
            obtain ⟨inp, tr, cm⟩ := r
            simp only at hlen ⊢
            apply ih
            simp only [ltPhi, hs] at hphi ⊢
            have hP := ltPreMax_le_ltMaxW w N st
            have hP1 : ltPreMax w N (.t a :: st) = 1 := by simp [ltPreMax, ltNull, ltW]
            have hT1 : ltTot w (.t a :: st) = 1 + ltTot w st := by simp [ltTot, ltW]
            rw [hP1, hT1] at hphi
            have h1 := Nat.mul_le_mul_left (ltMaxRhs T w) hP
            have h2 := Nat.mul_le_mul_left (ltMaxRhs T w * ltMaxW w) hlen
            rw [Nat.mul_add] at h2
            omega
          · exact finish_not_fuel _ _ _ _
        · split
          · simp [abort_res]
          · exact finish_not_fuel _ _ _ _
      · -- non-terminal
        rename_i a st hs
        split
        · rename_i p hp
          split
          · simp [abort_res]
          · split
            · rename_i s' hpush
              obtain ⟨pr, hpr, hst', hin', _⟩ := pushProduction_spec hpush
              simp only at hst' hin'
              have hmemp : pr ∈ T.prods := List.mem_of_getElem? hpr
              have hlhs : pr.lhs = a := by
                unfold predict at hp
                cases hd : T.dfas[a]? with
                | none => simp [hd] at hp
                | some d =>
                  simp only [hd, Option.some.injEq] at hp
                  obtain ⟨hfrom, hgt⟩ := eval_ok_from d true _ p hp
                  exact hT.lhs_ok a d hd p hfrom hgt pr hpr
              apply ih
              have hdec := ltPredict_decrease hC hmemp p.toNat st
              rw [hlhs] at hdec
              simp only [ltPhi, hs, hst', hin'] at hphi ⊢
              omega
            · rename_i s' r hpush
              rw [abort_res]
              exact pushProduction_not_fuel hpush
            · simp [abort_res]
        · exact finish_not_fuel _ _ _ _
        · simp [abort_res]
      · -- end-of-production marker
        rename_i p st hs
        split
        · simp [abort_res]
        · rename_i pr hpr
          simp only []
          split
          · simp [abort_res]
          · apply ih
            simp only [ltPhi, hs] at hphi ⊢
            have hE : ltPreMax w N (.e p :: st) = max 1 (ltPreMax w N st) := by
              simp [ltPreMax, ltNull, ltW]
            have hT1 : ltTot w (.e p :: st) = 1 + ltTot w st := by simp [ltTot, ltW]
            rw [hE, hT1] at hphi
            have hle : ltPreMax w N st ≤ max 1 (ltPreMax w N st) := by omega
            have := Nat.mul_le_mul_left (ltMaxRhs T w) hle
            omega

/-- **Termination of `llRun` with an explicit fuel bound**, for any verified certificate. -/
theorem llRun_terminates_cert (T : LLTables) (o : Opts) (hT : TablesSound T) {w : List Nat}
    {N : List Bool} (hC : TermCert T w N) (toks : List MTok) (fuel : Nat)
    (hf : llFuelBoundW T w toks.length ≤ fuel) : (llRun T o fuel toks).res ≠ .fuel := by
  unfold llRun
  simp only
  split
  · rename_i p hp
    split
    · simp [abort_res]
    · split
      · rename_i s hpush
        obtain ⟨pr, hpr, hst, hin, _⟩ := pushProduction_spec hpush
        simp only at hst hin
        have hmemp : pr ∈ T.prods := List.mem_of_getElem? hpr
        apply llLoop_terminates T o hT hC
        simp only [ltPhi, hst, hin]
        unfold llFuelBoundW at hf
        have h1 := ltTot_le_ltMaxRhs T w pr hmemp
        have h2 := ltPreMax_le_ltMaxW w N (pr.rhsRev.reverse ++ [PT.e p.toNat])
        have h3 := Nat.mul_le_mul_left (ltMaxRhs T w) h2
        rw [ltTot_append]
        have h4 : ltTot w [PT.e p.toNat] = 1 := by simp [ltTot, ltW]
        rw [h4]
        rw [Nat.mul_add] at hf
        omega
      · rename_i s r hpush
        rw [abort_res]
        exact pushProduction_not_fuel hpush
      · simp [abort_res]
  · simp [abort_res]
  · simp [abort_res]

end ParolModel
