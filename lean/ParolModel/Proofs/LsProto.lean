import ParolModel.Model.LsProto
/-! Helper lemmas for `Props/C29`: invariants of the protocol machine of `Model/LsProto`. -/
namespace ParolModel.Ls29
variable {Text : Type}

/-! ## Guarded runs -/

theorem runG_mono {g1 g2 : St Text → Ev Text → Bool} (h : ∀ st ev, g1 st ev = true → g2 st ev = true)
    (fx : Fixes) (sem : Sem Text) :
    ∀ (tr : List (Ev Text)) (st st' : St Text),
      runG g1 fx sem tr st = some st' → runG g2 fx sem tr st = some st' := by
  intro tr
  induction tr with
  | nil => intro st st' h1; simpa [runG] using h1
  | cons ev rest ih =>
    intro st st' h1
    simp only [runG] at h1 ⊢
    by_cases hg : g1 st ev = true
    · simp only [hg, if_true] at h1
      simp only [h st ev hg, if_true]
      cases hs : step fx sem st ev with
      | none => simp [hs] at h1
      | some st1 => simp only [hs] at h1 ⊢; exact ih _ _ h1
    · simp [hg] at h1

theorem runG_run {g : St Text → Ev Text → Bool} (fx : Fixes) (sem : Sem Text) :
    ∀ (tr : List (Ev Text)) (st st' : St Text),
      runG g fx sem tr st = some st' → run fx sem tr st = some st' := by
  intro tr
  induction tr with
  | nil => intro st st' h1; simpa [runG, run] using h1
  | cons ev rest ih =>
    intro st st' h1
    simp only [runG, run] at h1 ⊢
    by_cases hg : g st ev = true
    · simp only [hg, if_true] at h1
      cases hs : step fx sem st ev with
      | none => simp [hs] at h1
      | some st1 => simp only [hs] at h1 ⊢; exact ih _ _ h1
    · simp [hg] at h1

theorem gSequential_timely (sem : Sem Text) (st : St Text) (ev : Ev Text)
    (h : gSequential st ev = true) : gTimely sem st ev = true := by
  simp only [gSequential, gTimely, Bool.and_eq_true, Bool.or_eq_true, List.all_eq_true] at h ⊢
  refine ⟨h.1, ?_⟩
  rcases h.2 with h2 | h2
  · exact Or.inl h2
  · exact Or.inr (fun i hi => Or.inl (h2 i hi))

theorem gNoAsyncEarlier_timely (sem : Sem Text) (st : St Text) (ev : Ev Text)
    (h : gNoAsyncEarlier sem st ev = true) : gTimely sem st ev = true := by
  simp only [gNoAsyncEarlier, gTimely, Bool.and_eq_true, Bool.or_eq_true, List.all_eq_true] at h ⊢
  refine ⟨h.1, ?_⟩
  rcases h.2 with h2 | h2
  · exact Or.inl h2
  · refine Or.inr (fun i _ => Or.inr ?_)
    cases hk : st.tasks[i]? with
    | none => rfl
    | some tk =>
      have : tk ∈ st.tasks := List.mem_of_getElem? hk
      simpa using h2 tk this

/-! ## Invariant of the faithful machine under timely schedules -/

/-- Task `i` cannot publish any more: it has finished, or its analysis yields nothing. -/
def harmless (sem : Sem Text) (st : St Text) (i : Nat) : Prop :=
  i ∈ st.done ∨ ∀ tk, st.tasks[i]? = some tk → sem.asyncYields tk.text = false

def InvT (sem : Sem Text) (st : St Text) : Prop :=
  (∀ i ∈ st.done, i < st.tasks.length) ∧
  match st.cur with
  | none => st.tasks = []
  | some (v, t) =>
    if sem.syncFails t then
      (∀ i, i < st.tasks.length → harmless sem st i) ∧
      (st.pending = some ⟨v, .sync t⟩ ∨ (st.pending = none ∧ st.out.head? = some ⟨v, .sync t⟩))
    else
      ∃ earlier, st.tasks = earlier ++ [⟨v, t⟩] ∧
        (∀ i, i < earlier.length → harmless sem st i) ∧
        ((st.pending = some ⟨v, .ok⟩ ∧ earlier.length ∉ st.done) ∨
         (st.pending = none ∧
          st.out.head? = some ⟨v, if earlier.length ∈ st.done ∧ sem.asyncYields t = true
                                  then .async t else .ok⟩))

theorem InvT_init (sem : Sem Text) : InvT sem (St.init : St Text) := by
  simp [InvT, St.init]

theorem guard_harmless (sem : Sem Text) (st : St Text)
    (h : (List.range st.tasks.length).all (fun i =>
      st.done.contains i ||
      match st.tasks[i]? with
      | some tk => !sem.asyncYields tk.text
      | none => true) = true) :
    ∀ i, i < st.tasks.length → harmless sem st i := by
  intro i hi
  simp only [List.all_eq_true, List.mem_range, Bool.or_eq_true] at h
  rcases h i hi with h1 | h1
  · exact Or.inl (by simpa using h1)
  · refine Or.inr (fun tk htk => ?_)
    simpa [htk] using h1

theorem edit_InvT (sem : Sem Text) (st st' : St Text) (v : Nat) (t : Text)
    (hg : (List.range st.tasks.length).all (fun i =>
      st.done.contains i ||
      match st.tasks[i]? with
      | some tk => !sem.asyncYields tk.text
      | none => true) = true)
    (hs : edit faithful sem st v t = some st') (hi : InvT sem st) : InvT sem st' := by
  have hh := guard_harmless sem st hg
  unfold edit at hs
  split at hs
  · cases hs
  · cases hs
    refine ⟨?_, ?_⟩
    · intro i hi'
      have := hi.1 i hi'
      dsimp only
      split
      · exact this
      · simp; omega
    · dsimp only
      rcases Bool.eq_false_or_eq_true (sem.syncFails t) with hf | hf
      · simp only [hf, if_true]
        refine ⟨?_, Or.inl (by simp [syncPub, hf])⟩
        intro i hi'
        exact hh i hi'
      · simp only [hf, Bool.false_eq_true, if_false]
        refine ⟨st.tasks, rfl, ?_, Or.inl ⟨by simp [syncPub, hf], ?_⟩⟩
        · intro i hi'
          rcases hh i hi' with h1 | h1
          · exact Or.inl h1
          · refine Or.inr (fun tk htk => h1 tk ?_)
            rw [List.getElem?_append_left hi'] at htk
            exact htk
        · intro hc
          exact absurd (hi.1 _ hc) (by omega)

theorem step_InvT (sem : Sem Text) (st st' : St Text) (ev : Ev Text)
    (hg : gTimely sem st ev = true) (hs : step faithful sem st ev = some st')
    (hi : InvT sem st) : InvT sem st' := by
  cases ev with
  | «open» v t =>
    simp only [gTimely, gNoEarly, isEdit, Bool.not_true, Bool.false_or, Bool.true_and] at hg
    exact edit_InvT sem st st' v t hg hs hi
  | change v t =>
    simp only [gTimely, gNoEarly, isEdit, Bool.not_true, Bool.false_or, Bool.true_and] at hg
    exact edit_InvT sem st st' v t hg hs hi
  | mainPublish =>
    simp only [step] at hs
    cases hp : st.pending with
    | none => simp [hp] at hs
    | some p =>
      simp only [hp, faithful] at hs
      cases hs
      obtain ⟨hd, hi⟩ := hi
      refine ⟨hd, ?_⟩
      dsimp only
      cases hc : st.cur with
      | none => simpa [hc] using hi
      | some vt =>
        obtain ⟨v, t⟩ := vt
        simp only [hc] at hi ⊢
        rcases Bool.eq_false_or_eq_true (sem.syncFails t) with hf | hf
        · simp only [hf, if_true] at hi ⊢
          refine ⟨hi.1, Or.inr ⟨trivial, ?_⟩⟩
          rcases hi.2 with h1 | h1
          · rw [hp] at h1; cases h1; simp
          · rw [hp] at h1; cases h1.1
        · simp only [hf, Bool.false_eq_true, if_false] at hi ⊢
          obtain ⟨earlier, he, hh, hpend⟩ := hi
          refine ⟨earlier, he, hh, Or.inr ⟨trivial, ?_⟩⟩
          rcases hpend with h1 | h1
          · rw [hp] at h1
            obtain ⟨h1, h2⟩ := h1
            cases h1
            simp [h2]
          · rw [hp] at h1; cases h1.1
  | bgFinish i =>
    simp only [gTimely, gNoEarly, isEdit, Bool.not_false, Bool.true_or, Bool.and_true] at hg
    have hpn : st.pending = none := by simpa using hg
    simp only [step] at hs
    split at hs
    · cases hs
    · rename_i hnd
      have hnd' : i ∉ st.done := by simpa using hnd
      cases hk : st.tasks[i]? with
      | none => simp [hk] at hs
      | some tk =>
        simp only [hk, faithful, Bool.false_and, Bool.not_false, Bool.and_true] at hs
        cases hs
        have hil : i < st.tasks.length := by
          rcases Nat.lt_or_ge i st.tasks.length with h | h
          · exact h
          · simp [List.getElem?_eq_none h] at hk
        obtain ⟨hd, hi⟩ := hi
        refine ⟨?_, ?_⟩
        · intro j hj
          dsimp only at hj ⊢
          rcases List.mem_cons.mp hj with rfl | hj
          · exact hil
          · exact hd j hj
        · dsimp only
          cases hc : st.cur with
          | none =>
            simp only [hc] at hi
            simp [hi] at hil
          | some vt =>
            obtain ⟨v, t⟩ := vt
            simp only [hc] at hi ⊢
            rcases Bool.eq_false_or_eq_true (sem.syncFails t) with hf | hf
            · simp only [hf, if_true] at hi ⊢
              obtain ⟨hh, hpend⟩ := hi
              have hy : sem.asyncYields tk.text = false := by
                rcases hh i hil with h1 | h1
                · exact absurd h1 hnd'
                · exact h1 tk hk
              simp only [hy, Bool.false_eq_true, if_false]
              refine ⟨?_, hpend⟩
              intro j hj
              rcases hh j hj with h1 | h1
              · exact Or.inl (List.mem_cons_of_mem _ h1)
              · exact Or.inr h1
            · simp only [hf, Bool.false_eq_true, if_false] at hi ⊢
              obtain ⟨earlier, he, hh, hpend⟩ := hi
              refine ⟨earlier, he, ?_, ?_⟩
              · intro j hj
                rcases hh j hj with h1 | h1
                · exact Or.inl (List.mem_cons_of_mem _ h1)
                · exact Or.inr h1
              · rcases hpend with h1 | h1
                · rw [hpn] at h1; cases h1.1
                · obtain ⟨_, hhead⟩ := h1
                  refine Or.inr ⟨hpn, ?_⟩
                  rw [he, List.length_append, List.length_singleton] at hil
                  by_cases hlt : i < earlier.length
                  · -- an earlier task: it yields nothing
                    have hy : sem.asyncYields tk.text = false := by
                      rcases hh i hlt with h1 | h1
                      · exact absurd h1 hnd'
                      · exact h1 tk hk
                    have hne : earlier.length ≠ i := by omega
                    simp only [hy, Bool.false_eq_true, if_false, List.mem_cons, hne, false_or]
                    exact hhead
                  · -- the current task
                    have hieq : i = earlier.length := by omega
                    subst hieq
                    rw [he, List.getElem?_append_right (Nat.le_refl _)] at hk
                    simp at hk
                    subst hk
                    simp only [hnd', false_and, if_false] at hhead
                    rcases Bool.eq_false_or_eq_true (sem.asyncYields t) with hy | hy
                    · simp [hy]
                    · simp only [hy, Bool.false_eq_true, if_false, and_false]
                      exact hhead

theorem runG_InvT (sem : Sem Text) :
    ∀ (tr : List (Ev Text)) (st st' : St Text),
      runG (gTimely sem) faithful sem tr st = some st' → InvT sem st → InvT sem st' := by
  intro tr
  induction tr with
  | nil => intro st st' h hi; simp only [runG] at h; cases h; exact hi
  | cons ev rest ih =>
    intro st st' h hi
    simp only [runG] at h
    by_cases hg : gTimely sem st ev = true
    · simp only [hg, if_true] at h
      cases hs : step faithful sem st ev with
      | none => simp [hs] at h
      | some st1 =>
        simp only [hs] at h
        exact ih _ _ h (step_InvT sem st st1 ev hg hs hi)
    · simp [hg] at h

theorem quiescent_iff (st : St Text) :
    st.quiescent = true ↔ st.pending = none ∧ ∀ i, i < st.tasks.length → i ∈ st.done := by
  simp [St.quiescent, List.all_eq_true]

theorem InvT_final (sem : Sem Text) (st : St Text) (hi : InvT sem st) (hq : st.quiescent = true)
    (v : Nat) (t : Text) (hc : st.cur = some (v, t)) :
    st.out.head? = some ⟨v, expected sem t⟩ := by
  obtain ⟨hpn, hall⟩ := (quiescent_iff st).mp hq
  obtain ⟨_, hi⟩ := hi
  simp only [hc] at hi
  rcases Bool.eq_false_or_eq_true (sem.syncFails t) with hf | hf
  · simp only [hf, if_true] at hi
    rcases hi.2 with h1 | h1
    · rw [hpn] at h1; cases h1
    · simpa [expected, hf] using h1.2
  · simp only [hf, Bool.false_eq_true, if_false] at hi
    obtain ⟨earlier, he, _, hpend⟩ := hi
    rcases hpend with h1 | h1
    · rw [hpn] at h1; cases h1.1
    · have hd : earlier.length ∈ st.done := hall _ (by rw [he]; simp)
      have := h1.2
      simp only [hd, true_and] at this
      simpa [expected, hf] using this

/-! ## Invariant of the repaired machine (both repairs), arbitrary schedules -/

def InvF (sem : Sem Text) (st : St Text) : Prop :=
  (∀ i ∈ st.done, i < st.tasks.length) ∧
  match st.cur with
  | none => st.tasks = []
  | some (v, t) =>
    if sem.syncFails t then
      (∀ tk ∈ st.tasks, tk.version < v) ∧ st.out.head? = some ⟨v, .sync t⟩
    else
      ∃ earlier, st.tasks = earlier ++ [⟨v, t⟩] ∧ (∀ tk ∈ earlier, tk.version < v) ∧
        st.out.head? = some ⟨v, if earlier.length ∈ st.done ∧ sem.asyncYields t = true
                                then .async t else .ok⟩

def fixedBoth : Fixes := ⟨true, true⟩

theorem InvF_init (sem : Sem Text) : InvF sem (St.init : St Text) := by
  simp [InvF, St.init]

/-- all versions seen so far are below `lo` -/
def curBelow (st : St Text) (lo : Nat) : Prop := ∀ v t, st.cur = some (v, t) → v < lo

theorem InvF_versions (sem : Sem Text) (st : St Text) (hi : InvF sem st) (lo : Nat)
    (hlo : curBelow st lo) : ∀ tk ∈ st.tasks, tk.version < lo := by
  intro tk htk
  obtain ⟨_, hi⟩ := hi
  cases hc : st.cur with
  | none => simp only [hc] at hi; simp [hi] at htk
  | some vt =>
    obtain ⟨v, t⟩ := vt
    have hv := hlo v t hc
    simp only [hc] at hi
    rcases Bool.eq_false_or_eq_true (sem.syncFails t) with hf | hf
    · simp only [hf, if_true] at hi
      have := hi.1 tk htk; omega
    · simp only [hf, Bool.false_eq_true, if_false] at hi
      obtain ⟨earlier, he, hver, _⟩ := hi
      rw [he] at htk
      rcases List.mem_append.mp htk with h | h
      · have := hver tk h; omega
      · simp at h; subst h; exact hv

theorem edit_InvF (sem : Sem Text) (st st' : St Text) (v : Nat) (t : Text) (lo : Nat)
    (hlo : curBelow st lo) (hv : lo ≤ v)
    (hs : edit fixedBoth sem st v t = some st') (hi : InvF sem st) : InvF sem st' := by
  have hver := InvF_versions sem st hi lo hlo
  unfold edit at hs
  split at hs
  · cases hs
  · cases hs
    refine ⟨?_, ?_⟩
    · intro i hi'
      have := hi.1 i hi'
      dsimp only
      split
      · exact this
      · simp; omega
    · dsimp only
      rcases Bool.eq_false_or_eq_true (sem.syncFails t) with hf | hf
      · simp only [hf, if_true, fixedBoth]
        refine ⟨?_, by simp [syncPub, hf]⟩
        intro tk htk
        have := hver tk htk; omega
      · simp only [hf, fixedBoth]
        refine ⟨st.tasks, rfl, ?_, ?_⟩
        · intro tk htk
          have := hver tk htk; omega
        · have hnd : st.tasks.length ∉ st.done := by
            intro hc
            exact absurd (hi.1 _ hc) (by omega)
          simp [syncPub, hf, hnd]

theorem step_InvF (sem : Sem Text) (st st' : St Text) (ev : Ev Text) (lo : Nat)
    (hlo : curBelow st lo)
    (hv : ∀ v t, ev = .open v t ∨ ev = .change v t → lo ≤ v)
    (hs : step fixedBoth sem st ev = some st') (hi : InvF sem st) : InvF sem st' := by
  cases ev with
  | «open» v t => exact edit_InvF sem st st' v t lo hlo (hv v t (Or.inl rfl)) hs hi
  | change v t => exact edit_InvF sem st st' v t lo hlo (hv v t (Or.inr rfl)) hs hi
  | mainPublish =>
    simp only [step] at hs
    cases hp : st.pending with
    | none => simp [hp] at hs
    | some p =>
      simp only [hp, fixedBoth, if_true] at hs
      cases hs
      exact hi
  | bgFinish i =>
    simp only [step] at hs
    split at hs
    · cases hs
    · rename_i hnd
      have hnd' : i ∉ st.done := by simpa using hnd
      cases hk : st.tasks[i]? with
      | none => simp [hk] at hs
      | some tk =>
        simp only [hk, fixedBoth, Bool.true_and] at hs
        cases hs
        have hil : i < st.tasks.length := by
          rcases Nat.lt_or_ge i st.tasks.length with h | h
          · exact h
          · simp [List.getElem?_eq_none h] at hk
        obtain ⟨hd, hi⟩ := hi
        refine ⟨?_, ?_⟩
        · intro j hj
          dsimp only at hj ⊢
          rcases List.mem_cons.mp hj with rfl | hj
          · exact hil
          · exact hd j hj
        · dsimp only
          cases hc : st.cur with
          | none =>
            simp only [hc] at hi
            simp [hi] at hil
          | some vt =>
            obtain ⟨v, t⟩ := vt
            simp only [hc] at hi ⊢
            have hmem : tk ∈ st.tasks := List.mem_of_getElem? hk
            rcases Bool.eq_false_or_eq_true (sem.syncFails t) with hf | hf
            · simp only [hf, if_true] at hi ⊢
              obtain ⟨hver, hhead⟩ := hi
              have hlt := hver tk hmem
              have hst : stale st tk = true := by
                simp [stale, hc]; omega
              simp only [hst, Bool.not_true, Bool.and_false, Bool.false_eq_true, if_false]
              exact ⟨hver, hhead⟩
            · simp only [hf, Bool.false_eq_true, if_false] at hi ⊢
              obtain ⟨earlier, he, hver, hhead⟩ := hi
              refine ⟨earlier, he, hver, ?_⟩
              rw [he, List.length_append, List.length_singleton] at hil
              by_cases hlt : i < earlier.length
              · have hk' := hk
                rw [he, List.getElem?_append_left hlt] at hk'
                have hlt' := hver tk (List.mem_of_getElem? hk')
                have hst : stale st tk = true := by
                  simp [stale, hc]; omega
                have hne : earlier.length ≠ i := by omega
                simp only [hst, Bool.not_true, Bool.and_false, Bool.false_eq_true, if_false,
                  List.mem_cons, hne, false_or]
                exact hhead
              · have hieq : i = earlier.length := by omega
                subst hieq
                rw [he, List.getElem?_append_right (Nat.le_refl _)] at hk
                simp at hk
                subst hk
                have hst : stale st ⟨v, t⟩ = false := by simp [stale, hc]
                simp only [hnd', false_and, if_false] at hhead
                simp only [hst, Bool.not_false, Bool.and_true]
                rcases Bool.eq_false_or_eq_true (sem.asyncYields t) with hy | hy
                · simp [hy]
                · simp only [hy, Bool.false_eq_true, if_false, and_false]
                  exact hhead

def nextLo (lo : Nat) : Ev Text → Nat
  | .open v _ => v + 1
  | .change v _ => v + 1
  | _ => lo

theorem step_curBelow (fx : Fixes) (sem : Sem Text) (st st' : St Text) (ev : Ev Text) (lo : Nat)
    (hlo : curBelow st lo) (hs : step fx sem st ev = some st') :
    curBelow st' (nextLo lo ev) := by
  cases ev with
  | «open» v t =>
    simp only [step, edit] at hs
    split at hs
    · cases hs
    · cases hs; intro v' t' h; simp at h; simp only [nextLo]; omega
  | change v t =>
    simp only [step, edit] at hs
    split at hs
    · cases hs
    · cases hs; intro v' t' h; simp at h; simp only [nextLo]; omega
  | mainPublish =>
    simp only [step] at hs
    split at hs
    · cases hs
    · cases hs; exact hlo
  | bgFinish i =>
    simp only [step] at hs
    split at hs
    · cases hs
    · split at hs
      · cases hs
      · cases hs; exact hlo

theorem run_InvF (sem : Sem Text) :
    ∀ (tr : List (Ev Text)) (st st' : St Text) (lo : Nat),
      curBelow st lo → versionsFrom lo tr →
      run fixedBoth sem tr st = some st' → InvF sem st → InvF sem st' := by
  intro tr
  induction tr with
  | nil => intro st st' lo _ _ h hi; simp only [run] at h; cases h; exact hi
  | cons ev rest ih =>
    intro st st' lo hlo hver h hi
    simp only [run] at h
    cases hs : step fixedBoth sem st ev with
    | none => simp [hs] at h
    | some st1 =>
      simp only [hs] at h
      have hcb := step_curBelow fixedBoth sem st st1 ev lo hlo hs
      cases ev with
      | «open» v t =>
        simp only [versionsFrom] at hver
        exact ih _ _ _ hcb hver.2 h
          (step_InvF sem st st1 _ lo hlo (by intro v' t' h'; rcases h' with h' | h' <;> cases h'; exact hver.1) hs hi)
      | change v t =>
        simp only [versionsFrom] at hver
        exact ih _ _ _ hcb hver.2 h
          (step_InvF sem st st1 _ lo hlo (by intro v' t' h'; rcases h' with h' | h' <;> cases h'; exact hver.1) hs hi)
      | mainPublish =>
        simp only [versionsFrom] at hver
        exact ih _ _ _ hcb hver h
          (step_InvF sem st st1 _ lo hlo (by intro v' t' h'; rcases h' with h' | h' <;> cases h') hs hi)
      | bgFinish i =>
        simp only [versionsFrom] at hver
        exact ih _ _ _ hcb hver h
          (step_InvF sem st st1 _ lo hlo (by intro v' t' h'; rcases h' with h' | h' <;> cases h') hs hi)

theorem InvF_final (sem : Sem Text) (st : St Text) (hi : InvF sem st) (hq : st.quiescent = true)
    (v : Nat) (t : Text) (hc : st.cur = some (v, t)) :
    st.out.head? = some ⟨v, expected sem t⟩ := by
  obtain ⟨_, hall⟩ := (quiescent_iff st).mp hq
  obtain ⟨_, hi⟩ := hi
  simp only [hc] at hi
  rcases Bool.eq_false_or_eq_true (sem.syncFails t) with hf | hf
  · simp only [hf, if_true] at hi
    simpa [expected, hf] using hi.2
  · simp only [hf, Bool.false_eq_true, if_false] at hi
    obtain ⟨earlier, he, _, hhead⟩ := hi
    have hd : earlier.length ∈ st.done := hall _ (by rw [he]; simp)
    simp only [hd, true_and] at hhead
    simpa [expected, hf] using hhead

end ParolModel.Ls29
